(* C09, phase 4: the translated VarInt / VarLong readers and their byte sources (Gen/C05gen.v), the field readers CLOSED
   over them, BitStorage.ReadFrom / WriteTo (Gen/C11gen.v), the chunk readers as interpretations of the translated
   element lists (Gen/C13gen.v through Proofs/C13_skel_interp.v), PaletteContainer.ReadFrom *)
From Coq Require Import List String Arith NArith ZArith Lia Bool.
From GoMC Require Import Base.Bytes Base.Dec Gen.Consts Model.C09 Proofs.C09 Proofs.C09_writer Proofs.C09_inst Proofs.C09_gen.
From GoMC Require Model.C05 Model.C06 Model.C06_syntax Model.C11 Model.C12 Model.C13 Model.C01.
From GoMC Require Gen.C05gen Gen.C06gen Gen.C11gen Gen.C13gen.
From GoMC Require Proofs.C05_tie_r Proofs.C06_tie_w Proofs.C06_tie_r Proofs.C11_tie_io Proofs.C06_read Proofs.C12_wire Proofs.C13_wire
  Proofs.C13_nbt Proofs.C13_skel_interp Proofs.C01.
Import ListNotations.
Open Scope N_scope.

(* ---------------------------------------------------------------- Gen/C05gen.v *)
Section C05.
Import Gen.C05gen Gen.C06gen.
Lemma g_VarInt br : robust (packet_VarInt_ReadFrom_io br). Proof. apply Proofs.C05_tie_r.robust_VarInt_ReadFrom. Qed.
Lemma g_VarLong br : robust (packet_VarLong_ReadFrom_io br). Proof. apply Proofs.C05_tie_r.robust_VarLong_ReadFrom. Qed.
Lemma g_readByte br : robust (packet_readByte_io br). Proof. apply Proofs.C05_tie_r.robust_readByte. Qed.
Lemma g_byte_source br : robust (packet_CreateByteReader_io br). Proof. apply Proofs.C05_tie_r.robust_byte_source. Qed.
Lemma g_wrapper : robust packet_byteReaderWrapper_ReadByte_io. Proof. apply Proofs.C05_tie_r.robust_wrapper. Qed.

(* every translated reader of net/packet/types.go + util.go, nothing left as a parameter: br says whether the
   caller's io.Reader is an io.ByteReader (the two branches of CreateByteReader / readByte) *)
Definition fields_closed (P : forall A, dec A -> Prop) : Prop :=
  (forall br, P _ (packet_VarInt_ReadFrom_io br)) /\ (forall br, P _ (packet_VarLong_ReadFrom_io br)) /\
  (forall br, P _ (packet_readByte_io br)) /\ (forall br, P _ (packet_CreateByteReader_io br)) /\
  P _ packet_byteReaderWrapper_ReadByte_io /\
  P _ packet_Boolean_ReadFrom_io /\ P _ packet_Byte_ReadFrom_io /\ P _ packet_UnsignedByte_ReadFrom_io /\
  P _ packet_Short_ReadFrom_io /\ P _ packet_UnsignedShort_ReadFrom_io /\ P _ packet_Int_ReadFrom_io /\
  P _ packet_Long_ReadFrom_io /\ P _ packet_Float_ReadFrom_io /\ P _ packet_Double_ReadFrom_io /\
  P _ packet_Angle_ReadFrom_io /\ P _ packet_UUID_ReadFrom_io /\ P _ packet_Position_ReadFrom_io /\
  (forall f, P _ (packet_FixedBitSet_ReadFrom_io f)) /\
  (forall br, P _ (packet_String_ReadFrom_io (packet_VarInt_ReadFrom_io br))) /\
  (forall br b sp, P _ (packet_ByteArray_ReadFrom_io (packet_VarInt_ReadFrom_io br) b sp)) /\
  (forall br b sp, P _ (packet_BitSet_ReadFrom_io (packet_VarInt_ReadFrom_io br) b sp)).
Lemma fields_closed_of (P : forall A, dec A -> Prop) : (forall A d, robust d -> P A d) -> fields_closed P.
Proof.
  intros H. unfold fields_closed.
  repeat match goal with |- _ /\ _ => split end; intros; apply H;
    first [apply g_VarInt|apply g_VarLong|apply g_readByte|apply g_byte_source|apply g_wrapper|apply g_Boolean|apply g_Byte
          |apply g_UnsignedByte|apply g_Short|apply g_UnsignedShort|apply g_Int|apply g_Long|apply g_Float|apply g_Double
          |apply g_Angle|apply g_UUID|apply g_Position|apply g_FixedBitSet
          |apply g_String, g_VarInt|apply g_ByteArray, g_VarInt|apply g_BitSet, g_VarInt].
Qed.
End C05.

(* ---------------------------------------------------------------- Gen/C11gen.v: BitStorage.ReadFrom / WriteTo *)
Section C11.
Import Gen.C11gen Gen.C05gen.
Ltac bs_step IH :=
  repeat first
    [ progress cbv zeta
    | match goal with |- robust (if ?c then _ else _) => destruct c end
    | apply robust_bind; [apply g_Long|intros [? ?]]
    | apply IH
    | constructor ].
Lemma g_bs_loop1 : forall k L i b n v, robust (c11_BitStorage_ReadFrom_loop1 L k i b n v).
Proof. induction k as [|k IH]; intros; cbn [c11_BitStorage_ReadFrom_loop1]; [constructor|]. bs_step IH. Qed.
Lemma g_bs_loop2 : forall k L i b n v, robust (c11_BitStorage_ReadFrom_loop2 L k i b n v).
Proof. induction k as [|k IH]; intros; cbn [c11_BitStorage_ReadFrom_loop2]; [constructor|]. bs_step IH. Qed.
Lemma g_BitStorage vi b : robust vi -> robust (c11_BitStorage_ReadFrom vi b).
Proof.
  intros Hv. unfold c11_BitStorage_ReadFrom. cbv zeta. apply robust_bind; [exact Hv|]. intros [len n].
  repeat match goal with |- robust (if ?c then _ else _) => destruct c end; try constructor;
    (apply robust_bind; [first [apply g_bs_loop1|apply g_bs_loop2]|intros [[b' n'] v']; constructor]).
Qed.
Lemma g_BitStorage_closed br b : robust (c11_BitStorage_ReadFrom (packet_VarInt_ReadFrom_io br) b).
Proof. apply g_BitStorage, g_VarInt. Qed.

(* WriteTo: the Write-call list of Model/C09.v has the image the translated writer hands to w.Write *)
Lemma gw_BitStorage st sp : Forall (fun l => l < 2 ^ 64) (Model.C11.data st) -> lenN (Model.C11.data st) < 2 ^ 59 ->
  writer_safe (bs_calls st) (out_of (c11_BitStorage_WriteTo (Some (Proofs.C11_tie_io.inj st sp)))).
Proof.
  intros H1 H2. rewrite (Proofs.C11_tie_io.tie_Write st sp H1 H2). unfold out_of. cbn [snd].
  rewrite Proofs.C11_tie_io.map_to_N_of_N. apply ws_bits.
Qed.
End C11.

(* ---------------------------------------------------------------- PaletteContainer.ReadFrom (Model/C12.v) *)
(* The translated body of PaletteContainer.ReadFrom is tied to this model by an interpretation over the FLAT input
   (Proofs/C12_skel_read.v: the reader is the list of bytes not yet consumed), not by an interpretation into a
   Base.Dec term; the statement is therefore on the hand model the translated body is proved to run like. *)
Lemma pc_read_robust fuel c : robust (Model.C12.pc_read fuel c).
Proof.
  unfold Model.C12.pc_read. constructor. intros nb. cbv zeta.
  apply robust_bind; [apply Proofs.C12_wire.pal_read_robust|]. intros [p1 n1].
  apply robust_bind; [apply Proofs.C11_wire.read_robust|]. intros [d1 n2].
  destruct (Model.C11.bs_fix d1 _) as [d2 o]. destruct o; constructor.
Qed.

(* ---------------------------------------------------------------- level/chunk.go (Gen/C13gen.v) *)
Section C13.
Import Model.C06 Model.C13 Gen.C13gen Proofs.C13_skel_interp.

Lemma r_short_rb : robust r_short. Proof. apply (Proofs.C06_read.read_f_robust O TShort (VZ 0)). Qed.
Lemma r_byte_rb : robust r_byte. Proof. apply (Proofs.C06_read.read_f_robust O TByte (VZ 0)). Qed.
Lemma r_varint_rb : robust r_varint. Proof. apply (Proofs.C06_read.read_f_robust O TVarInt (VZ 0)). Qed.

Ltac rb13 := repeat first [ progress intros | apply robust_bind | constructor ].

(* Section.ReadFrom: the element list c13.go extracts, interpreted element by element, for ANY palette-container
   reader without a bare Read *)
Lemma g_section cont (pc_read : bool -> cont -> dec (cont * N)) : (forall b d, robust (pc_read b d)) ->
  forall s, robust (interp_r (sec_renv cont pc_read) c13_Section_ReadFrom_fields s).
Proof.
  intros Hpc s. cbv beta iota delta [interp_r c13_Section_ReadFrom_fields sec_renv].
  apply robust_bind; [apply robust_bind; [apply r_short_rb|rb13]|]. intros s1.
  apply robust_bind; [apply robust_bind; [apply Hpc|rb13]|]. intros s2.
  apply robust_bind; [apply robust_bind; [apply Hpc|rb13]|]. rb13.
Qed.
Lemma raw_read_rb fuel o : robust (raw_read fuel o).
Proof. unfold raw_read. apply robust_bind; [apply Proofs.C01.tee_robust, Proofs.C13_wire.raw_body_robust|]. rb13. Qed.
Lemma g_blockentity fuel st : robust (interp_r (be_renv fuel) c13_BlockEntity_ReadFrom_fields st).
Proof.
  cbv beta iota delta [interp_r c13_BlockEntity_ReadFrom_fields be_renv].
  apply robust_bind; [apply robust_bind; [apply r_byte_rb|rb13]|]. intros s1.
  apply robust_bind; [apply robust_bind; [apply r_short_rb|rb13]|]. intros s2.
  apply robust_bind; [apply robust_bind; [apply r_varint_rb|rb13]|]. intros s3.
  apply robust_bind; [apply robust_bind; [apply raw_read_rb|rb13]|]. rb13.
Qed.
Lemma g_chunk cont fuel (d : chunk cont) st : robust (interp_r (chunk_renv cont fuel d) c13_Chunk_ReadFrom_fields st).
Proof.
  cbv beta iota delta [interp_r c13_Chunk_ReadFrom_fields chunk_renv].
  assert (R1: robust (Model.C01.tee (hm_read fuel))) by (apply Proofs.C01.tee_robust, Proofs.C13_nbt.hm_read_robust).
  assert (R2: robust (read_f fuel TByteArray (VBytes [] []))) by apply Proofs.C06_read.read_f_robust.
  assert (R3: robust (r_ary fuel LVarInt (be_read fuel) bent_zero (bes_val cont d))).
  { unfold r_ary. apply robust_bind; [apply Proofs.C06_read.r_len_robust|]. intros [z n]. cbn beta iota.
    destruct (_ <? _)%Z; [constructor|].
    apply robust_bind; [apply Proofs.C06_read.r_elems_robust; apply Proofs.C13_wire.be_read_robust|]. intros [vs n2]. constructor. }
  assert (R4: robust (read_f fuel t_light light_dest)) by apply Proofs.C06_read.read_f_robust.
  apply robust_bind; [apply robust_bind; [exact R1|rb13]|]. intros s1.
  apply robust_bind; [apply robust_bind; [exact R2|rb13]|]. intros s2.
  apply robust_bind; [apply robust_bind; [exact R3|rb13]|]. intros s3.
  apply robust_bind; [apply robust_bind; [exact R4|rb13]|]. rb13.
Qed.
End C13.
