(* C09, phase 3: the I/O idiom table of the anchor files (Gen/C09gen.v, regenerated from the Go source on every run by
   tools/gotrans/c09.go) against the table RECORDED here, and the policy the property needs, evaluated on the
   GENERATED table (so that re-recording the table cannot hide a violation of the policy).

   Why this exists: the translators of C06 / C07 / C16 / C03 render io.ReadFull, io.CopyN and binary.Read all as
   the ReadFull effect and readByte(r) / x.ReadByte() as the ReadByte effect, and they stop (gotrans fails) on a read
   idiom they do not know.  The generated reader terms therefore cannot contain a bare Read; what they cannot show is
   WHICH idiom an effect came from, what the bodies of the ReadByte helpers do, and anything in functions they do
   not visit.  The table closes that gap: a new bare Read, io.ReadAtLeast, io.LimitReader, io.Copy, bufio wrapper, a
   Write whose error is dropped, or any other change of an I/O call in the anchor files changes c09_io_calls. *)
From Coq Require Import List String Bool.
From GoMC Require Import Gen.C09gen.
Import ListNotations.
Local Open Scope string_scope.

Definition expected_io_calls : list (string * string * string * string * string) := [
  ("net/packet:Packet.Scan", "bytes.NewReader", "p.Data", "", "err:r");
  ("net/packet:Packet.Scan", ".ReadFrom", "r", "v", "err:err");
  ("net/packet:Packet.packWithoutCompression", ".WriteTo", "buffer", "Length", "err:_");
  ("net/packet:Packet.packWithoutCompression", ".WriteTo", "buffer", "VarInt(p.ID)", "err:_");
  ("net/packet:Packet.packWithoutCompression", ".Write", "buffer", "", "dropped");
  ("net/packet:Packet.packWithoutCompression", ".Write", "w", "", "err:err");
  ("net/packet:Packet.packWithCompression", ".WriteTo", "buff", "PacketLength", "err:_");
  ("net/packet:Packet.packWithCompression", ".WriteTo", "buff", "DataLength", "err:_");
  ("net/packet:Packet.packWithCompression", ".WriteTo", "buff", "PacketID", "err:_");
  ("net/packet:Packet.packWithCompression", ".Write", "buff", "", "err:_");
  ("net/packet:Packet.packWithCompression", ".Write", "buff", "", "dropped");
  ("net/packet:Packet.packWithCompression", ".WriteTo", "buff", "DataLength", "err:_");
  ("net/packet:Packet.packWithCompression", "call:compressPacket", "buff", "", "err:err");
  ("net/packet:Packet.packWithCompression", ".Write", "w", "", "err:err");
  ("net/packet:compressPacket", ".WriteTo", "zw", "VarInt(packetID)", "err:_");
  ("net/packet:compressPacket", ".Write", "zw", "", "err:err");
  ("net/packet:compressPacket", ".Close", "zw", "", "returned");
  ("net/packet:Packet.unpackWithoutCompression", ".ReadFrom", "r", "Length", "err:err");
  ("net/packet:Packet.unpackWithoutCompression", ".ReadFrom", "r", "PacketID", "err:err");
  ("net/packet:Packet.unpackWithoutCompression", "io.ReadFull", "r", "", "err:err");
  ("net/packet:Packet.unpackWithCompression", ".ReadFrom", "r", "PacketLength", "err:err");
  ("net/packet:Packet.unpackWithCompression", "io.CopyN", "r", "buff", "err:err");
  ("net/packet:Packet.unpackWithCompression", "bytes.NewReader", "buff.Bytes()", "", "err:r");
  ("net/packet:Packet.unpackWithCompression", ".ReadFrom", "r", "DataLength", "err:err");
  ("net/packet:Packet.unpackWithCompression", "zlib.NewReader", "r", "", "err:err");
  ("net/packet:Packet.unpackWithCompression", ".Close", "zr", "", "deferred");
  ("net/packet:Packet.unpackWithCompression", ".ReadFrom", "r", "PacketID", "err:err");
  ("net/packet:Packet.unpackWithCompression", ".ReadFrom", "r", "PacketID", "err:err");
  ("net/packet:Packet.unpackWithCompression", "io.ReadFull", "r", "", "err:err");
  ("net/packet:Boolean.WriteTo", ".Write", "w", "", "err:err");
  ("net/packet:Boolean.ReadFrom", "call:readByte", "r", "", "err:err");
  ("net/packet:String.WriteTo", ".WriteTo", "w", "VarInt(len(byteStr))", "err:err");
  ("net/packet:String.WriteTo", ".Write", "w", "", "err:err");
  ("net/packet:String.ReadFrom", ".ReadFrom", "r", "l", "err:err");
  ("net/packet:String.ReadFrom", "call:readBytes", "r", "", "err:err");
  ("net/packet:readByte", ".ReadByte", "r", "", "err:err");
  ("net/packet:readByte", "io.ReadFull", "r", "", "err:err");
  ("net/packet:Byte.WriteTo", ".Write", "w", "", "err:err");
  ("net/packet:Byte.ReadFrom", "call:readByte", "r", "", "err:err");
  ("net/packet:UnsignedByte.WriteTo", ".Write", "w", "", "err:err");
  ("net/packet:UnsignedByte.ReadFrom", "call:readByte", "r", "", "err:err");
  ("net/packet:Short.WriteTo", ".Write", "w", "", "err:err");
  ("net/packet:Short.ReadFrom", "io.ReadFull", "r", "", "err:err");
  ("net/packet:UnsignedShort.WriteTo", ".Write", "w", "", "err:err");
  ("net/packet:UnsignedShort.ReadFrom", "io.ReadFull", "r", "", "err:err");
  ("net/packet:Int.WriteTo", ".Write", "w", "", "err:err");
  ("net/packet:Int.ReadFrom", "io.ReadFull", "r", "", "err:err");
  ("net/packet:Long.WriteTo", ".Write", "w", "", "err:err");
  ("net/packet:Long.ReadFrom", "io.ReadFull", "r", "", "err:err");
  ("net/packet:VarInt.WriteTo", ".Write", "w", "", "err:err");
  ("net/packet:VarInt.ReadFrom", "call:CreateByteReader", "r", "", "err:byteReader");
  ("net/packet:VarInt.ReadFrom", ".ReadByte", "byteReader", "", "err:err");
  ("net/packet:VarLong.WriteTo", ".Write", "w", "", "err:err");
  ("net/packet:VarLong.ReadFrom", "call:CreateByteReader", "r", "", "err:byteReader");
  ("net/packet:VarLong.ReadFrom", ".ReadByte", "byteReader", "", "err:err");
  ("net/packet:Position.WriteTo", ".Write", "w", "", "err:err");
  ("net/packet:Position.ReadFrom", ".ReadFrom", "r", "v", "err:err");
  ("net/packet:Angle.WriteTo", ".WriteTo", "w", "Byte(a)", "returned");
  ("net/packet:Angle.ReadFrom", ".ReadFrom", "r", "(*Byte)(a)", "returned");
  ("net/packet:Float.WriteTo", ".WriteTo", "w", "Int(math.Float32bits(float32(f)))", "returned");
  ("net/packet:Float.ReadFrom", ".ReadFrom", "r", "v", "err:err");
  ("net/packet:Double.WriteTo", ".WriteTo", "w", "Long(math.Float64bits(float64(d)))", "returned");
  ("net/packet:Double.ReadFrom", ".ReadFrom", "r", "v", "err:err");
  ("net/packet:NBTField.WriteTo", ".Write", "w", "", "err:err");
  ("net/packet:countingWriter.Write", ".Write", "c.w", "", "err:err");
  ("net/packet:countingReader.Read", ".Read", "c.r", "", "err:err");
  ("net/packet:ByteArray.WriteTo", ".WriteTo", "w", "VarInt(len(b))", "err:err");
  ("net/packet:ByteArray.WriteTo", ".Write", "w", "", "err:err");
  ("net/packet:ByteArray.ReadFrom", ".ReadFrom", "r", "Len", "err:err");
  ("net/packet:ByteArray.ReadFrom", "call:readBytes", "r", "", "err:err");
  ("net/packet:ByteArray.ReadFrom", "io.ReadFull", "r", "", "err:err");
  ("net/packet:readBytes", "io.ReadFull", "r", "", "err:err");
  ("net/packet:UUID.WriteTo", ".Write", "w", "", "err:err");
  ("net/packet:UUID.ReadFrom", "io.ReadFull", "r", "", "err:err");
  ("net/packet:PluginMessageData.WriteTo", ".Write", "w", "", "err:err");
  ("net/packet:PluginMessageData.ReadFrom", "io.ReadAll", "r", "", "err:err");
  ("net/packet:BitSet.WriteTo", ".WriteTo", "w", "VarInt(len(b))", "err:err");
  ("net/packet:BitSet.WriteTo", ".WriteTo", "w", "Long(b[i])", "err:err");
  ("net/packet:BitSet.ReadFrom", ".ReadFrom", "r", "Len", "err:err");
  ("net/packet:BitSet.ReadFrom", ".ReadFrom", "r", "((*Long)(&(*b)[i]))", "err:err");
  ("net/packet:FixedBitSet.WriteTo", ".Write", "w", "", "err:err");
  ("net/packet:FixedBitSet.ReadFrom", "io.ReadFull", "r", "", "err:err");
  ("net/packet:Ary.WriteTo", ".WriteTo", "w", "any(&Len).(FieldEncoder)", "err:err");
  ("net/packet:Ary.WriteTo", ".WriteTo", "w", "elem.Interface().(FieldEncoder)", "err:err");
  ("net/packet:Ary.ReadFrom", ".ReadFrom", "r", "any(&Len).(FieldDecoder)", "err:err");
  ("net/packet:Ary.ReadFrom", ".ReadFrom", "r", "elem.Addr().Interface().(FieldDecoder)", "err:err");
  ("net/packet:Opt.WriteTo", ".WriteTo", "w", "field", "returned");
  ("net/packet:Opt.WriteTo", ".WriteTo", "w", "field()", "returned");
  ("net/packet:Opt.WriteTo", ".WriteTo", "w", "field()", "returned");
  ("net/packet:Opt.ReadFrom", ".ReadFrom", "r", "field", "returned");
  ("net/packet:Opt.ReadFrom", ".ReadFrom", "r", "field()", "returned");
  ("net/packet:Opt.ReadFrom", ".ReadFrom", "r", "field()", "returned");
  ("net/packet:Option.WriteTo", ".WriteTo", "w", "o.Has", "err:err");
  ("net/packet:Option.WriteTo", ".WriteTo", "w", "o.Val", "err:err");
  ("net/packet:Option.ReadFrom", ".ReadFrom", "r", "o.Has", "err:err");
  ("net/packet:Option.ReadFrom", ".ReadFrom", "r", "P(&o.Val)", "err:err");
  ("net/packet:OptionDecoder.ReadFrom", ".ReadFrom", "r", "o.Has", "err:err");
  ("net/packet:OptionDecoder.ReadFrom", ".ReadFrom", "r", "P(&o.Val)", "err:err");
  ("net/packet:OptionEncoder.WriteTo", ".WriteTo", "w", "o.Has", "err:err");
  ("net/packet:OptionEncoder.WriteTo", ".WriteTo", "w", "o.Val", "err:err");
  ("net/packet:Tuple.WriteTo", ".WriteTo", "w", "v.(FieldEncoder)", "err:err");
  ("net/packet:Tuple.ReadFrom", ".ReadFrom", "r", "v.(FieldDecoder)", "err:err");
  ("net/packet:byteReaderWrapper.ReadByte", "io.ReadFull", "r.Reader", "", "err:err");
  ("nbt:reader.ReadByte", ".Read", "r", "", "err:err");
  ("nbt:Unmarshal", "call:NewDecoder", "bytes.NewReader(data)", "", "nested");
  ("nbt:Unmarshal", "bytes.NewReader", "data", "", "nested");
  ("nbt:Decoder.Decode", ".ReadByte", "d.r", "", "err:err");
  ("nbt:fieldError.Error", ".WriteString", "sb", "", "dropped");
  ("nbt:fieldError.Error", ".WriteString", "sb", "", "dropped");
  ("nbt:Decoder.unmarshal", "call:readBytes", "d.r", "", "err:err");
  ("nbt:Decoder.unmarshal", ".ReadByte", "d.r", "", "err:err");
  ("nbt:readBytes", "io.ReadFull", "r", "", "err:err");
  ("nbt:Decoder.rawRead", "io.ReadFull", "d.r", "", "err:err");
  ("nbt:Decoder.rawRead", "io.ReadFull", "d.r", "", "err:err");
  ("nbt:Decoder.rawRead", "io.ReadFull", "d.r", "", "err:err");
  ("nbt:Decoder.rawRead", "io.CopyN", "d.r", "io.Discard", "err:err");
  ("nbt:Decoder.rawRead", ".ReadByte", "d.r", "", "err:err");
  ("nbt:Decoder.readTag", ".ReadByte", "d.r", "", "err:err");
  ("nbt:Decoder.readInt8", ".ReadByte", "d.r", "", "err:err");
  ("nbt:Decoder.readInt16", "io.ReadFull", "d.r", "", "err:err");
  ("nbt:Decoder.readInt32", "io.ReadFull", "d.r", "", "err:err");
  ("nbt:Decoder.readInt64", "io.ReadFull", "d.r", "", "err:err");
  ("nbt:Decoder.readString", "io.ReadFull", "d.r", "", "err:err");
  ("nbt:Marshal", "call:NewEncoder", "&buf", "", "nested");
  ("nbt:Encoder.Encode", ".Write", "e.w", "", "err:err");
  ("nbt:Encoder.Encode", "call:writeTag", "e.w", "", "err:err");
  ("nbt:Encoder.writeValue", ".Write", "e.w", "", "err:err");
  ("nbt:Encoder.writeValue", ".Write", "e.w", "", "err:err");
  ("nbt:Encoder.writeValue", ".Write", "e.w", "", "err:err");
  ("nbt:Encoder.writeValue", "call:writeInt16", "e.w", "", "returned");
  ("nbt:Encoder.writeValue", "call:writeInt32", "e.w", "", "returned");
  ("nbt:Encoder.writeValue", "call:writeInt32", "e.w", "", "returned");
  ("nbt:Encoder.writeValue", "call:writeInt64", "e.w", "", "returned");
  ("nbt:Encoder.writeValue", "call:writeInt64", "e.w", "", "returned");
  ("nbt:Encoder.writeValue", "call:writeInt32", "e.w", "", "err:err");
  ("nbt:Encoder.writeValue", ".Write", "e.w", "", "err:err");
  ("nbt:Encoder.writeValue", "call:writeInt32", "e.w", "", "err:err");
  ("nbt:Encoder.writeValue", "call:writeInt64", "e.w", "", "err:err");
  ("nbt:Encoder.writeValue", "call:writeInt16", "e.w", "", "err:err");
  ("nbt:Encoder.writeValue", ".Write", "e.w", "", "err:err");
  ("nbt:Encoder.writeValue", "call:writeTag", "e.w", "", "err:err");
  ("nbt:Encoder.writeValue", "call:writeTag", "e.w", "", "err:err");
  ("nbt:Encoder.writeValue", ".Write", "e.w", "", "err:err");
  ("nbt:writeTag", ".Write", "w", "", "err:err");
  ("nbt:writeTag", "call:writeInt16", "w", "", "err:err");
  ("nbt:writeTag", ".Write", "w", "", "err:err");
  ("nbt:Encoder.writeListHeader", ".Write", "e.w", "", "err:err");
  ("nbt:Encoder.writeListHeader", "call:writeInt32", "e.w", "", "err:err");
  ("nbt:writeInt16", ".Write", "w", "", "err:err");
  ("nbt:writeInt32", ".Write", "w", "", "err:err");
  ("nbt:writeInt64", ".Write", "w", "", "err:err");
  ("nbt:RawMessage.MarshalNBT", ".Write", "w", "", "err:err");
  ("nbt:RawMessage.UnmarshalNBT", "bytes.NewBuffer", "m.Data[:0]", "", "err:buf");
  ("nbt:RawMessage.UnmarshalNBT", "io.TeeReader", "r", "", "err:tee");
  ("nbt:RawMessage.UnmarshalNBT", "call:NewDecoder", "tee", "", "nested");
  ("nbt:RawMessage.String", "bytes.NewReader", "m.Data", "", "err:r");
  ("nbt:RawMessage.String", "call:NewDecoder", "r", "", "err:d");
  ("nbt:RawMessage.Unmarshal", "call:NewDecoder", "bytes.NewReader(m.Data)", "", "err:d");
  ("nbt:RawMessage.Unmarshal", "bytes.NewReader", "m.Data", "", "nested");
  ("nbt:RawMessage.UnmarshalDisallowUnknownField", "call:NewDecoder", "bytes.NewReader(m.Data)", "", "err:d");
  ("nbt:RawMessage.UnmarshalDisallowUnknownField", "bytes.NewReader", "m.Data", "", "nested");
  ("nbt:StringifiedMessage.MarshalNBT", "call:NewEncoder", "w", "", "nested");
  ("nbt:StringifiedMessage.UnmarshalNBT", "call:NewDecoder", "r", "", "err:d");
  ("nbt:StringifiedMessage.encode", ".ReadByte", "d.r", "", "err:err");
  ("nbt:StringifiedMessage.encode", ".WriteString", "sb", "", "dropped");
  ("nbt:StringifiedMessage.encode", ".WriteString", "sb", "", "dropped");
  ("nbt:StringifiedMessage.encode", ".WriteString", "sb", "", "dropped");
  ("nbt:StringifiedMessage.encode", ".WriteString", "sb", "", "dropped");
  ("nbt:StringifiedMessage.encode", ".WriteString", "sb", "", "dropped");
  ("nbt:StringifiedMessage.encode", ".WriteString", "sb", "", "dropped");
  ("nbt:StringifiedMessage.encode", ".WriteString", "sb", "", "dropped");
  ("nbt:StringifiedMessage.encode", ".ReadByte", "d.r", "", "err:err");
  ("nbt:StringifiedMessage.encode", ".WriteString", "sb", "", "dropped");
  ("nbt:StringifiedMessage.encode", ".WriteString", "sb", "", "dropped");
  ("nbt:StringifiedMessage.encode", ".WriteString", "sb", "", "dropped");
  ("nbt:StringifiedMessage.encode", ".WriteString", "sb", "", "dropped");
  ("nbt:StringifiedMessage.encode", ".WriteString", "sb", "", "dropped");
  ("nbt:StringifiedMessage.encode", ".WriteString", "sb", "", "dropped");
  ("nbt:StringifiedMessage.encode", ".WriteString", "sb", "", "dropped");
  ("nbt:StringifiedMessage.encode", ".WriteString", "sb", "", "dropped");
  ("nbt:StringifiedMessage.encode", ".WriteString", "sb", "", "dropped");
  ("nbt:StringifiedMessage.encode", ".WriteString", "sb", "", "dropped");
  ("nbt:StringifiedMessage.encode", ".WriteString", "sb", "", "dropped");
  ("nbt:StringifiedMessage.encode", ".ReadByte", "d.r", "", "err:err");
  ("nbt:StringifiedMessage.encode", ".WriteString", "sb", "", "dropped");
  ("nbt:StringifiedMessage.encode", ".WriteString", "sb", "", "dropped");
  ("nbt:StringifiedMessage.encode", ".WriteString", "sb", "", "dropped");
  ("nbt:StringifiedMessage.encode", ".WriteString", "sb", "", "dropped");
  ("nbt:StringifiedMessage.encode", ".WriteString", "sb", "", "dropped");
  ("nbt:StringifiedMessage.encode", ".WriteString", "sb", "", "dropped");
  ("nbt:StringifiedMessage.encode", ".WriteString", "sb", "", "dropped");
  ("nbt:writeEscapeStr", ".WriteString", "sb", "", "dropped");
  ("nbt:writeEscapeStr", ".WriteString", "strings.NewReplacer(`'`, `\'`, `\`, `\\`)", "", "err:err");
  ("nbt:writeEscapeStr", ".WriteString", "sb", "", "dropped");
  ("nbt:writeEscapeStr", ".WriteString", "sb", "", "dropped");
  ("nbt:writeEscapeStr", ".WriteString", "strings.NewReplacer(`""`, `\""`, `\`, `\\`)", "", "err:err");
  ("nbt:writeEscapeStr", ".WriteString", "sb", "", "dropped");
  ("nbt:writeEscapeStr", ".WriteString", "sb", "", "dropped");
  ("nbt:writeEscapeStr", ".WriteString", "sb", "", "dropped");
  ("nbt/dynbt:Value.unmarshal", ".ReadByte", "r", "", "err:err");
  ("nbt/dynbt:Value.unmarshal", "io.ReadFull", "r", "", "err:err");
  ("nbt/dynbt:Value.unmarshal", "io.ReadFull", "r", "", "err:err");
  ("nbt/dynbt:Value.unmarshal", "io.ReadFull", "r", "", "err:err");
  ("nbt/dynbt:Value.unmarshal", "call:readInt32", "r", "", "err:err");
  ("nbt/dynbt:Value.unmarshal", "call:appendN", "v.data", "", "err:err");
  ("nbt/dynbt:Value.unmarshal", "call:readInt16", "r", "", "err:err");
  ("nbt/dynbt:Value.unmarshal", "io.ReadFull", "r", "", "err:err");
  ("nbt/dynbt:Value.unmarshal", ".ReadByte", "r", "", "err:err");
  ("nbt/dynbt:Value.unmarshal", "call:readInt32", "r", "", "err:err");
  ("nbt/dynbt:Value.unmarshal", "call:readTag", "r", "", "err:err");
  ("nbt/dynbt:Value.unmarshal", "call:readInt32", "r", "", "err:err");
  ("nbt/dynbt:Value.unmarshal", "call:appendN", "v.data", "", "err:err");
  ("nbt/dynbt:Value.unmarshal", "call:readInt32", "r", "", "err:err");
  ("nbt/dynbt:Value.unmarshal", "call:appendN", "v.data", "", "err:err");
  ("nbt/dynbt:appendN", "io.ReadFull", "r", "", "err:err");
  ("nbt/dynbt:readTag", ".ReadByte", "r", "", "err:err");
  ("nbt/dynbt:readTag", "call:readString", "r", "", "err:err");
  ("nbt/dynbt:readInt16", "io.ReadFull", "r", "", "err:err");
  ("nbt/dynbt:readInt32", "io.ReadFull", "r", "", "err:err");
  ("nbt/dynbt:readString", "call:readInt16", "r", "", "err:err");
  ("nbt/dynbt:readString", "io.ReadFull", "r", "", "err:err");
  ("nbt/dynbt:decodeErr.Error", ".WriteString", "sb", "", "dropped");
  ("nbt/dynbt:decodeErr.Error", ".WriteString", "sb", "", "dropped");
  ("nbt/dynbt:Value.MarshalNBT", ".Write", "w", "", "err:err");
  ("nbt/dynbt:Value.MarshalNBT", ".Write", "w", "", "err:err");
  ("nbt/dynbt:Value.MarshalNBT", ".Write", "w", "", "err:err");
  ("nbt/dynbt:Value.MarshalNBT", "call:writeInt32", "w", "", "err:err");
  ("nbt/dynbt:Value.MarshalNBT", "call:writeTag", "w", "", "err:err");
  ("nbt/dynbt:Value.MarshalNBT", ".Write", "w", "", "err:err");
  ("nbt/dynbt:writeTag", ".Write", "w", "", "err:err");
  ("nbt/dynbt:writeTag", "call:writeInt16", "w", "", "err:err");
  ("nbt/dynbt:writeTag", ".Write", "w", "", "err:err");
  ("nbt/dynbt:writeInt16", ".Write", "w", "", "err:err");
  ("nbt/dynbt:writeInt32", ".Write", "w", "", "err:err");
  ("net:RCONConn.ReadPacket", "binary.Read", "r", "", "err:err");
  ("net:RCONConn.ReadPacket", "binary.Read", "r", "", "err:err");
  ("net:RCONConn.WritePacket", "binary.Write", "buf", "", "err:err");
  ("net:RCONConn.WritePacket", ".Write", "r", "", "err:err");
  ("level:BitStorage.ReadFrom", ".ReadFrom", "r", "Len", "err:err");
  ("level:BitStorage.ReadFrom", ".ReadFrom", "r", "v", "err:err");
  ("level:BitStorage.WriteTo", ".WriteTo", "w", "pk.VarInt(0)", "returned");
  ("level:BitStorage.WriteTo", ".WriteTo", "w", "pk.VarInt(len(b.data))", "err:err");
  ("level:BitStorage.WriteTo", ".WriteTo", "w", "pk.Long(v)", "err:err")
].

(* ---------------------------------------------------------------- the policy *)
Definition e_fn (e : string * string * string * string * string) := fst (fst (fst (fst e))).
Definition e_idiom (e : string * string * string * string * string) := snd (fst (fst (fst e))).
Definition e_stream (e : string * string * string * string * string) := snd (fst (fst e)).
Definition e_other (e : string * string * string * string * string) := snd (fst e).
Definition e_handling (e : string * string * string * string * string) := snd e.
Definition mem (x : string) (l : list string) : bool := existsb (String.eqb x) l.

(* 1. ONE r.Read(p) call - the only idiom for which a short read is the caller's problem - occurs only inside the
   two pass-through wrappers: countingReader.Read (forwards one Read, adds what it returned) and nbt's
   reader.ReadByte (one Read of one byte, returns the byte when n = 1) *)
Definition bare_read_ok e :=
  negb (e_idiom e =? ".Read") || mem (e_fn e) ["net/packet:countingReader.Read"; "nbt:reader.ReadByte"].

(* 2. idioms that return before everything asked for has arrived, or that read ahead, do not occur at all;
   io.ReadAll only in PluginMessageData.ReadFrom, io.TeeReader only in RawMessage.UnmarshalNBT *)
Definition forbidden : list string :=
  ["io.ReadAtLeast"; "io.LimitReader"; "io.Copy"; "io.CopyBuffer"; "io.MultiReader"; "io.NewSectionReader"; "io.Pipe";
   "binary.ReadUvarint"; "binary.ReadVarint"; ".ReadString"; ".ReadBytes"; ".ReadRune"; ".ReadLine"; ".ReadAt";
   ".Peek"; ".UnreadByte"; ".Discard"; "fmt.Fscan"; "fmt.Fscanf"; "fmt.Fscanln"; "flate.NewReader"; "gzip.NewReader"].
Definition idiom_ok e :=
  negb (mem (e_idiom e) forbidden)
  && negb (String.prefix "bufio." (e_idiom e)) && negb (String.prefix "ioutil." (e_idiom e))
  && negb (String.prefix "iotest." (e_idiom e))
  && (negb (e_idiom e =? "io.ReadAll") || (e_fn e =? "net/packet:PluginMessageData.ReadFrom"))
  && (negb (e_idiom e =? "io.TeeReader") || (e_fn e =? "nbt:RawMessage.UnmarshalNBT")).

(* 3. every read has its error bound to a variable or returned to the caller (never `_`, never dropped) *)
Definition read_idioms : list string :=
  ["io.ReadFull"; "io.CopyN"; "io.ReadAll"; "binary.Read"; ".ReadByte"; ".ReadFrom"; ".Read"].
Definition kept (h : string) : bool :=
  (h =? "returned") || (String.prefix "err:" h && negb (h =? "err:_")).
Definition read_checked e := negb (mem (e_idiom e) read_idioms) || kept (e_handling e).

(* 4. every write whose error is not kept goes to an in-memory buffer whose Write cannot fail: the pooled
   bytes.Buffer of Pack (buffer / buff), the zlib writer that writes into it (zw), a strings.Builder (sb) *)
Definition write_idioms : list string :=
  [".Write"; ".WriteTo"; ".WriteByte"; ".WriteString"; ".WriteRune"; "binary.Write"; "io.WriteString";
   "fmt.Fprint"; "fmt.Fprintf"; "fmt.Fprintln"; ".Flush"].
Definition in_memory : list string := ["buffer"; "buff"; "zw"; "sb"].
Definition write_checked e :=
  negb (mem (e_idiom e) write_idioms) || kept (e_handling e) || mem (e_stream e) in_memory.

(* 5. a call of one of the anchor files' own helpers that take the stream (idiom "call:<name>": readByte, readBytes,
   readTag, writeTag, writeInt32, compressPacket, NewDecoder, CreateByteReader ...) keeps its last result - the error,
   or the reader it built - or hands it on as an operand of the enclosing expression (`nested`: NewDecoder(r).Decode(v)),
   unless the stream is one of the in-memory buffers; never `dropped`, never `err:_` *)
Definition helper_checked e :=
  negb (String.prefix "call:" (e_idiom e)) || kept (e_handling e) || (e_handling e =? "nested")
  || mem (e_stream e) in_memory.

Definition policy (t : list (string * string * string * string * string)) : bool :=
  forallb (fun e => bare_read_ok e && idiom_ok e && read_checked e && write_checked e && helper_checked e) t.

Lemma io_table_recorded : c09_io_calls = expected_io_calls.
Proof. reflexivity. Qed.
Lemma io_policy_holds : policy c09_io_calls = true.
Proof. vm_compute. reflexivity. Qed.

(* the policy is not vacuous: each seeded idiom is refused *)
Lemma policy_refuses_ReadAtLeast :
  policy [("net:RCONConn.ReadPacket", "io.ReadAtLeast", "r", "", "err:err")] = false.
Proof. reflexivity. Qed.
Lemma policy_refuses_LimitReader :
  policy [("net/packet:Packet.unpackWithCompression", "io.LimitReader", "r", "", "nested")] = false.
Proof. reflexivity. Qed.
Lemma policy_refuses_bare_Read : policy [("net/packet:Short.ReadFrom", ".Read", "r", "", "err:err")] = false.
Proof. reflexivity. Qed.
Lemma policy_refuses_bufio : policy [("net:RCONConn.ReadPacket", "bufio.NewReader", "r", "", "err:br")] = false.
Proof. reflexivity. Qed.
Lemma policy_refuses_dropped_helper : policy [("nbt:Encoder.writeValue", "call:writeInt32", "e.w", "", "dropped")] = false.
Proof. reflexivity. Qed.
Lemma policy_refuses_dropped_write :
  policy [("nbt:writeInt32", ".Write", "w", "", "err:_")] = false /\ policy [("net/packet:Tuple.WriteTo", ".WriteTo", "w", "v.(FieldEncoder)", "dropped")] = false.
Proof. split; reflexivity. Qed.
