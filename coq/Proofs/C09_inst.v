(* C09: the generic clauses for robust decoders / fully checked encoders *)
From Coq Require Import List Arith NArith ZArith Lia Bool.
From GoMC Require Import Base.Bytes Base.Dec Model.C09 Proofs.C09 Proofs.C09_writer.
Import ListNotations.
Open Scope N_scope.

Lemma robust_frag_invariant {A} (d : dec A) : robust d -> frag_invariant d.
Proof.
  intros R tg term s. split; [|split].
  - now apply robust_fragmentation_invariant.
  - now apply src_flat_eof.
  - now apply src_flat_sim.
Qed.

Lemma robust_fault_safe {A} (d : dec A) : robust d -> fault_safe d.
Proof.
  intros R tg term s a rest Hs c k Hc. split; intros Hk.
  - eapply src_fails_before_completion; eauto.
  - eapply src_complete_then_fail; eauto.
Qed.

Lemma checked_writer_safe ws img : all_checked ws -> image ws = img -> writer_safe ws img.
Proof.
  intros Hc <-. split; [reflexivity|]. intros k. split; intros Hk.
  - now apply checked_writer_fails.
  - now apply checked_writer_completes.
Qed.

(* ---------------------------------------------------------------- the readers of the finished models *)
(* the robustness lemmas behind C05_robust32/64, C06_robust, C07_robust, C16_robust, C11_read_robust, C01_robust
   (Props/Cxx.v state them with `exact` of these; importing the Proofs files keeps this development independent
   of the translated-function tie files the Props files of those properties also load) *)
From GoMC Require Proofs.C05 Proofs.C06_read Proofs.C07 Proofs.C16 Proofs.C11_wire Proofs.C01.
From GoMC Require Model.C05 Model.C06 Model.C07 Model.C16 Model.C11 Model.C01.

Lemma fixedbitset_robust old : robust (d_fixedbitset old).
Proof. constructor. intros. constructor. Qed.

Lemma rb_varint : robust d_varint. Proof. exact Proofs.C05.read32_robust. Qed.
Lemma rb_varlong : robust d_varlong. Proof. exact Proofs.C05.read64_robust. Qed.
Lemma rb_field fuel t old : robust (d_field fuel t old). Proof. apply Proofs.C06_read.read_f_robust. Qed.
Lemma rb_frame inflate thr pool old : robust (d_frame inflate thr pool old). Proof. apply Proofs.C07.unpack_robust. Qed.
Lemma rb_rcon : robust d_rcon. Proof. exact Proofs.C16.rcon_read_robust. Qed.
Lemma rb_bits old : robust (d_bits old). Proof. apply Proofs.C11_wire.read_robust. Qed.
Import Proofs.C01.
Lemma rb_nbt_any f fuel : robust (d_nbt_any f fuel). Proof. apply Proofs.C01.Decode_robust; intros; auto with rb. Qed.
Lemma rb_nbt_map f fuel : robust (d_nbt_map f fuel). Proof. apply Proofs.C01.Decode_robust; intros; auto with rb. Qed.
Lemma rb_nbt_skip f fuel : robust (d_nbt_skip f fuel). Proof. apply Proofs.C01.Decode_robust; intros; auto with rb. Qed.
Lemma rb_nbt_raw f fuel : robust (d_nbt_raw f fuel). Proof. apply Proofs.C01.Decode_robust; intros; auto with rb. Qed.
Lemma rb_nbt_dyn f fuel : robust (d_nbt_dyn f fuel). Proof. apply Proofs.C01.Decode_robust; intros; auto with rb. Qed.
Lemma rb_nbt_snbt f fuel : robust (d_nbt_snbt f fuel). Proof. apply Proofs.C01.Decode_robust; intros; auto with rb. Qed.
Lemma rb_nbt_ty f fuel ty : robust (d_nbt_ty f fuel ty). Proof. apply Proofs.C01.Decode_robust; intros; apply Proofs.C01.dec_ty_robust. Qed.

(* ---------------------------------------------------------------- the encoders *)
Lemma ws_varint z : writer_safe (varint_calls z) (Model.C05.write32 z).
Proof. apply checked_writer_safe; apply varint_calls_ok. Qed.
Lemma ws_varlong z : writer_safe (varlong_calls z) (Model.C05.write64 z).
Proof. apply checked_writer_safe; apply varlong_calls_ok. Qed.
Lemma ws_field t v : writer_safe (fld_calls t v) (fst (Model.C06.wr t v)).
Proof. apply checked_writer_safe; [apply fld_calls_checked|apply fld_calls_image]. Qed.
Lemma ws_raw bs : writer_safe (raw_calls bs) (fst (Model.C06.w_raw bs)).
Proof. apply checked_writer_safe; apply raw_calls_ok. Qed.
Lemma ws_frame deflate thr pool p : writer_safe (pack_calls deflate thr pool p) (Model.C07.pack deflate thr pool p).
Proof. apply checked_writer_safe; apply pack_calls_ok. Qed.
Lemma ws_rcon id ty pl : writer_safe (rcon_calls id ty pl) (Model.C16.rcon_write id ty pl).
Proof. apply checked_writer_safe; apply rcon_calls_ok. Qed.
Lemma ws_bits st : writer_safe (bs_calls st) (fst (Model.C11.bs_write st)).
Proof. apply checked_writer_safe; apply bs_calls_ok. Qed.
Lemma ws_nbt f name t : writer_safe (nbt_doc_calls f name t) (Model.C01.doc f name t).
Proof. apply checked_writer_safe; apply nbt_doc_calls_ok. Qed.

(* the former readByte: not fragmentation-proof once the error can come with the data *)
Lemma readByte_orig_refuted : exists tg s, run_src readByte_orig tg eEOF s <> run_flat readByte_orig (concat s).
Proof. exists true, [[7]]. vm_compute. discriminate. Qed.
Lemma sloppy_refuted : exists ws k, k < lenN (image ws) /\ w_ok (write_to ws k) = true /\ sink_of (write_to ws k) <> image ws.
Proof. exists (sloppy_calls [1; 2] [3]), 1. repeat split; vm_compute; auto; discriminate. Qed.

(* ---------------------------------------------------------------- phase 2 *)
From GoMC Require Import Proofs.C09_more.
Lemma ws_nbt_marshaler f name w : writer_safe (wt_doc_calls f name w) (Model.C01.doc f name (untree w)).
Proof. apply checked_writer_safe; apply wt_doc_calls_ok. Qed.
Lemma nbtfield_frag {A} (body : N -> dec A) : (forall id, robust (body id)) -> frag_invariant (d_nbtfield body).
Proof. intros H. apply robust_frag_invariant. now apply nbtfield_robust. Qed.
Lemma nbtfield_fault {A} (body : N -> dec A) : (forall id, robust (body id)) -> fault_safe (d_nbtfield body).
Proof. intros H. apply robust_fault_safe. now apply nbtfield_robust. Qed.
