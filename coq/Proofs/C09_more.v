(* C09, phase 2: the labelled linear-time flat run, consumed-byte counts, NBTField, struct destinations,
   PluginMessageData, the count returned together with an error, Marshaler values in the writer model *)
From Coq Require Import List Arith NArith ZArith Lia Bool ZifyN ZifyNat ZifyBool.
From GoMC Require Import Base.Bytes Base.Dec Gen.Consts Model.C09 Proofs.C09 Proofs.C09_writer.
From GoMC Require Model.C05 Model.C06 Model.C01 Model.C03.
From GoMC Require Proofs.C05 Proofs.C06_read Proofs.C06_more Proofs.C01 Proofs.C01_more Proofs.C03_st.
Import ListNotations.
Open Scope N_scope.

(* ---------------------------------------------------------------- run_flat_t *)
Lemma run_flat_t_eof {A} (d : dec A) : forall s, run_flat_t eEOF d s = run_flat d s.
Proof.
  induction d as [a|e|w| |k IH|n k IH|n k IH]; intros s; cbn [run_flat_t run_flat]; try reflexivity.
  - destruct s; [reflexivity|apply IH].
  - rewrite fits_spec. destruct (n <=? lenN s); [apply IH|reflexivity].
  - rewrite fits_spec. destruct (n <=? lenN s); [apply IH|].
    destruct s; [destruct (n =? 0); [apply IH|reflexivity]|apply IH].
Qed.

(* the source interpretation of a robust decoder IS the labelled flat run on the concatenation: exact equality,
   error label included, for every piece list, data+error flag and terminal error *)
Lemma src_flat_t {A} (d : dec A) :
  robust d -> forall tg term s, run_src d tg term s = run_flat_t term d (concat s).
Proof.
  induction 1 as [a|e|w| |k Hk IH|n k Hk IH]; intros tg term s; cbn [run_src run_flat_t]; auto.
  - pose proof (read1_spec s) as H1. destruct (read1 s) as [[b s']|].
    + rewrite H1. apply IH.
    + now rewrite H1.
  - rewrite fits_spec. unfold slen. destruct (N.leb_spec n (lenN (concat s))) as [Hn|Hn]; auto.
    pose proof (readfull_spec (N.to_nat n) s) as H1.
    destruct (readfull (N.to_nat n) s) as [[bs s']|].
    + destruct H1 as (-> & H2 & Hl). unfold takeN, dropN. rewrite <- H2. apply IH.
    + unfold lenN in Hn. lia.
Qed.

(* ---------------------------------------------------------------- consumed *)
Lemma lenN_dropN {A} n (s : list A) : n <= lenN s -> lenN (dropN n s) = lenN s - n.
Proof. unfold dropN, lenN. intros H. rewrite skipn_length. lia. Qed.

Lemma consumed_le {A} (d : dec A) : forall s, consumed d s <= lenN s.
Proof.
  induction d as [a|e|w| |k IH|n k IH|n k IH]; intros s; cbn [consumed]; try lia.
  - destruct s as [|b s']; [lia|]. rewrite lenN_cons. specialize (IH b s'). lia.
  - rewrite fits_spec. destruct (N.leb_spec n (lenN s)) as [Hn|Hn]; [|lia].
    specialize (IH (takeN n s) (dropN n s)). rewrite lenN_dropN in IH by exact Hn. lia.
  - rewrite fits_spec. destruct (N.leb_spec n (lenN s)) as [Hn|Hn]; [|lia].
    specialize (IH (takeN n s) (dropN n s)). rewrite lenN_dropN in IH by exact Hn. lia.
Qed.

Lemma consumed_ok {A} (d : dec A) : robust d -> forall s a rest,
  run_flat d s = FOk a rest -> lenN s = consumed d s + lenN rest.
Proof.
  induction 1 as [a0|e|w| |k Hk IH|n k Hk IH]; intros s a rest Hs; cbn [run_flat consumed] in *; try discriminate.
  - inversion Hs; subst. lia.
  - destruct s as [|b s']; [discriminate|]. rewrite lenN_cons. specialize (IH _ _ _ _ Hs). lia.
  - rewrite fits_spec. destruct (N.leb_spec n (lenN s)) as [Hn|Hn]; [|discriminate].
    specialize (IH _ _ _ _ Hs). rewrite lenN_dropN in IH by exact Hn. lia.
Qed.

(* a short read takes everything: when the run stops on the end of the source, all of it was consumed *)
Lemma consumed_bind {A B} (d : dec A) (f : A -> dec B) : robust d -> forall s,
  consumed (bind d f) s =
  match run_flat d s with
  | FOk a r => consumed d s + consumed (f a) r
  | _ => consumed d s
  end.
Proof.
  induction 1 as [a0|e|w| |k Hk IH|n k Hk IH]; intros s; cbn [bind consumed run_flat]; auto.
  - destruct s as [|b s']; auto. rewrite IH. destruct (run_flat (k b) s'); lia.
  - rewrite fits_spec. destruct (n <=? lenN s); auto. rewrite IH.
    destruct (run_flat (k (takeN n s)) (dropN n s)); lia.
Qed.

(* ---------------------------------------------------------------- NBTField, struct destinations *)
Lemma catch_end_robust {A} (d : dec A) : robust d -> robust (catch_end d).
Proof.
  induction 1; cbn [catch_end]; try (constructor; auto; fail).
  destruct (e =? Model.C01.eEND); constructor.
Qed.

Lemma nbtfield_body_robust {A} (body : N -> dec A) : (forall id, robust (body id)) -> robust (nbtfield_body body).
Proof.
  intros H. unfold nbtfield_body. apply robust_bind; [|intros; constructor].
  apply catch_end_robust. now apply Proofs.C01.Decode_robust.
Qed.
Lemma nbtfield_robust {A} (body : N -> dec A) : (forall id, robust (body id)) -> robust (d_nbtfield body).
Proof.
  intros H. unfold d_nbtfield. apply robust_bind; [|intros; constructor].
  apply Proofs.C01.tee_robust. now apply nbtfield_body_robust.
Qed.
Import Proofs.C01.
Lemma rb_nbtfield_any fuel : robust (d_nbtfield_any fuel).
Proof. apply nbtfield_robust. intros; auto with rb. Qed.
Lemma rb_nbt_st f fuel sh cur : robust (d_nbt_st f fuel sh cur).
Proof. apply Proofs.C01.Decode_robust. intros. apply Proofs.C03_st.dec_st_robust. Qed.

(* the count NBTField returns with a nil error is what its countingReader saw = what was taken from the source,
   and the value is what Decode produced (None: the ErrEND rule) *)
Lemma nbtfield_count {A} (body : N -> dec A) : (forall id, robust (body id)) ->
  forall s v n rest, run_flat (d_nbtfield body) s = FOk (v, n) rest ->
  run_flat (nbtfield_body body) s = FOk v rest /\ n = consumed (nbtfield_body body) s /\ lenN s = n + lenN rest.
Proof.
  intros H s v n rest Hs. pose proof (nbtfield_body_robust body H) as R.
  unfold d_nbtfield in Hs. rewrite run_flat_bind in Hs by now apply Proofs.C01.tee_robust.
  pose proof (Proofs.C01_more.tee_result (nbtfield_body body) R s) as T.
  destruct (run_flat (nbtfield_body body) s) as [a r| | |] eqn:E.
  - destruct T as (c & Hc & Ht). rewrite Ht in Hs. cbn [run_flat fst snd] in Hs. inversion Hs; subst a n r.
    pose proof (consumed_ok _ R _ _ _ E) as K. split; [reflexivity|]. rewrite Hc in *. rewrite lenN_app in *. split; lia.
  - rewrite T in Hs. discriminate.
  - rewrite T in Hs. discriminate.
  - rewrite T in Hs. discriminate.
Qed.

(* ---------------------------------------------------------------- PluginMessageData = io.ReadAll *)
Lemma read_all_data term s : fst (read_all term s) = concat s.
Proof. induction s as [|c t IH]; cbn [read_all fst concat]; [reflexivity|]. now rewrite IH. Qed.
Lemma read_all_err term s : snd (read_all term s) = if term =? eEOF then None else Some term.
Proof. induction s as [|c t IH]; cbn [read_all snd]; auto. Qed.
Lemma plugin_read_spec tg term s :
  plugin_read tg term s = (concat s, lenN (concat s), if term =? eEOF then None else Some term).
Proof. unfold plugin_read. now rewrite read_all_data, read_all_err. Qed.

(* ---------------------------------------------------------------- the count returned together with an error *)
Section ErrN.
Import Model.C05 Model.C06.

Lemma errn_var_le cap s : errn_var cap s <= lenN s.
Proof. unfold errn_var. lia. Qed.

Lemma r_len_count l s len n rest : run_flat (r_len l) s = FOk (len, n) rest -> lenN s = n + lenN rest.
Proof.
  destruct l; cbn [r_len]; intros H.
  - pose proof (Proofs.C05.read32_cap s) as C. rewrite H in C. lia.
  - pose proof (Proofs.C05.read64_cap s) as C. rewrite H in C. lia.
  - cbn [run_flat] in H. destruct s; [discriminate|]. inversion H; subst. rewrite lenN_cons. lia.
  - cbn [run_flat] in H. destruct s; [discriminate|]. inversion H; subst. rewrite lenN_cons. lia.
  - cbn [run_flat] in H. destruct (N.leb_spec 2 (lenN s)); [|discriminate]. inversion H; subst. rewrite lenN_dropN; lia.
  - cbn [run_flat] in H. destruct (N.leb_spec 2 (lenN s)); [|discriminate]. inversion H; subst. rewrite lenN_dropN; lia.
  - cbn [run_flat] in H. destruct (N.leb_spec 4 (lenN s)); [|discriminate]. inversion H; subst. rewrite lenN_dropN; lia.
  - cbn [run_flat] in H. destruct (N.leb_spec 8 (lenN s)); [|discriminate]. inversion H; subst. rewrite lenN_dropN; lia.
Qed.

Lemma errn_len_le l s : errn_len l s <= lenN s.
Proof. destruct l; cbn [errn_len]; try apply errn_var_le; lia. Qed.

Lemma errn_prefixed_le s after :
  (forall l n rest, after l n rest <= n + lenN rest) -> errn_prefixed s after <= lenN s.
Proof.
  intros H. unfold errn_prefixed. pose proof (Proofs.C05.read32_cap s) as C.
  destruct (run_flat read32 s) as [[l n] rest| | |]; try apply errn_var_le.
  destruct (l <? 0)%Z; [lia|]. specialize (H l n rest). lia.
Qed.

Lemma errn_elems_le fuel (run : fval -> list N -> fres (fval * N)) (en : fval -> list N -> N) :
  (forall o s v n rest, run o s = FOk (v, n) rest -> lenN s = n + lenN rest) ->
  (forall o s, en o s <= lenN s) ->
  forall olds i len s, errn_elems fuel run en olds i len s <= lenN s.
Proof.
  intros Hrun Hen. induction fuel as [|f IH]; intros olds i len s; cbn [errn_elems].
  - destruct (len <=? i); lia.
  - destruct (len <=? i); [lia|].
    destruct (run (olds i) s) as [[v n1] rest| | |] eqn:E; try apply Hen.
    apply Hrun in E. specialize (IH olds (i + 1) len rest). lia.
Qed.

(* the count reported with an error never exceeds what the source delivered *)
Theorem errn_le fuel : forall t old s, errn fuel t old s <= lenN s.
Proof.
  induction t as [| | | | | | | | | | | | | | | | |l e IH|e IH|has e IH|a IHa b IHb|]; intros old s; cbn [errn];
    try lia; try apply errn_var_le.
  - apply errn_prefixed_le. intros; lia.
  - apply errn_prefixed_le. intros; lia.
  - apply errn_prefixed_le. intros; lia.
  - destruct (run_flat (r_len l) s) as [[len n] rest| | |] eqn:E; try apply errn_len_le.
    apply r_len_count in E. destruct (len <? 0)%Z; [lia|].
    match goal with |- n + errn_elems ?f ?run ?en ?olds ?i ?ln ?r <= _ =>
      pose proof (errn_elems_le f run en
        (fun o s v n rest H => Proofs.C06_more.read_count_exact fuel e o s v n rest (eq_trans (eq_sym (run_fast_eq _ s)) H))
        (fun o s => IH o s) olds i ln r) end.
    lia.
  - destruct s as [|b rest]; [lia|]. rewrite lenN_cons.
    specialize (IH (match old with VOpt _ x => x | _ => zero_of e end) rest). lia.
  - destruct has; [apply IH|lia].
  - rewrite run_fast_eq. destruct (run_flat (read_f fuel a _) s) as [[v na] rest| | |] eqn:E; try lia.
    apply Proofs.C06_more.read_count_exact in E. specialize (IHb (match old with VPair _ y => y | _ => zero_of b end) rest). lia.
Qed.

Lemma errn_bits_le s : errn_bits s <= lenN s.
Proof. apply errn_prefixed_le. intros; lia. Qed.
End ErrN.

(* ---------------------------------------------------------------- Marshaler values in the writer model *)
Section WTree.
Import Model.C01.

Section WInd.
  Variable P : wtree -> Prop.
  Hypothesis HLeaf : forall t, P (WLeaf t).
  Hypothesis HRaw : forall t, P (WRaw t).
  Hypothesis HList : forall eid l, Forall P l -> P (WList eid l).
  Hypothesis HComp : forall l, Forall (fun kv => P (snd kv)) l -> P (WComp l).
  Fixpoint wtree_ind' (w : wtree) : P w :=
    match w with
    | WLeaf t => HLeaf t
    | WRaw t => HRaw t
    | WList eid l =>
        HList eid l ((fix go (l : list wtree) : Forall P l :=
                        match l with [] => Forall_nil P | x :: r => Forall_cons x (wtree_ind' x) (go r) end) l)
    | WComp l =>
        HComp l ((fix go (l : list (list N * wtree)) : Forall (fun kv => P (snd kv)) l :=
                    match l with [] => Forall_nil _ | kv :: r => Forall_cons kv (wtree_ind' (snd kv)) (go r) end) l)
    end.
End WInd.

Lemma wt_calls_checked : forall w, all_checked (wt_calls w).
Proof.
  induction w as [t|t|eid l IH|l IH] using wtree_ind'; cbn [wt_calls]; auto using nbt_calls_checked with wr.
  - apply ac_cons, ac_cons. apply ac_flat_map. exact IH.
  - apply ac_app; auto with wr. apply ac_flat_map.
    apply Forall_forall. intros kv Hin. rewrite Forall_forall in IH. auto using IH with wr.
Qed.

Lemma wt_calls_image : forall w, image (wt_calls w) = payload (untree w).
Proof.
  induction w as [t|t|eid l IH|l IH] using wtree_ind'; cbn [wt_calls untree payload].
  - apply nbt_calls_image.
  - rewrite image_ck. apply app_nil_r.
  - rewrite !image_ck, image_flat_map. cbn [app]. f_equal. unfold lenN at 2. rewrite map_length.
    change (N.of_nat (length l)) with (lenN l). f_equal.
    rewrite flat_map_concat_map, map_map. f_equal. apply map_ext_Forall. exact IH.
  - rewrite image_app, image_flat_map. rewrite flat_map_concat_map, map_map. f_equal.
    f_equal. apply map_ext_Forall. apply Forall_forall. intros kv Hin. rewrite Forall_forall in IH.
    rewrite !image_ck. cbn [app fst snd]. f_equal. f_equal. f_equal. apply IH, Hin.
Qed.

Lemma wt_doc_calls_ok f name w :
  all_checked (wt_doc_calls f name w) /\ image (wt_doc_calls f name w) = doc f name (untree w).
Proof.
  split.
  - destruct f; cbn [wt_doc_calls]; auto using wt_calls_checked with wr.
  - destruct f; cbn [wt_doc_calls doc doc_file doc_net]; rewrite !image_ck, wt_calls_image; reflexivity.
Qed.

Lemma untree_dyn_w : forall t, untree (dyn_w t) = t.
Proof.
  induction t as [v|v|v|v|b|b|l|s|eid l IH|l IH|l|l] using tag_ind'; cbn [dyn_w untree]; try reflexivity.
  - f_equal. rewrite map_map. rewrite <- (map_id l) at 2. apply map_ext_Forall. exact IH.
  - f_equal. rewrite map_map. rewrite <- (map_id l) at 2. apply map_ext_Forall.
    apply Forall_forall. intros [k v] Hin. rewrite Forall_forall in IH. cbn [fst snd]. f_equal. apply (IH _ Hin).
Qed.
End WTree.
