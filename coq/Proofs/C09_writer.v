(* C09, writer half: a failing destination is never swallowed by an encoder all of whose Write calls are checked;
   the call lists of Model/C09.v have the byte images of the encoder models of C05/C06/C07/C16/C11/C01 *)
From Coq Require Import List Arith NArith ZArith Lia Bool ZifyN ZifyNat ZifyBool.
From GoMC Require Import Base.Bytes Base.Dec Model.C09.
From GoMC Require Model.C05 Model.C06 Model.C07 Model.C16 Model.C11 Model.C01.
Import ListNotations.
Open Scope N_scope.

Lemma image_cons bs chk ws : image ((bs, chk) :: ws) = bs ++ image ws.
Proof. reflexivity. Qed.
Lemma image_app a b : image (a ++ b) = image a ++ image b.
Proof. unfold image. rewrite map_app. apply concat_app. Qed.

Lemma takeN_app_ge {A} n (p t : list A) : lenN p <= n -> takeN n (p ++ t) = p ++ takeN (n - lenN p) t.
Proof.
  unfold takeN, lenN. intros H. rewrite firstn_app. rewrite firstn_all2 by lia.
  f_equal. f_equal. lia.
Qed.
Lemma takeN_all {A} n (p : list A) : lenN p <= n -> takeN n p = p.
Proof. unfold takeN, lenN. intros H. apply firstn_all2. lia. Qed.

(* what reaches the sink is ALWAYS the first k bytes of the image (checked calls or not) *)
Lemma run_writer_sink ws : forall st sink,
  sink_of (run_writer ws st sink) =
  match st with Some k => sink ++ takeN k (image ws) | None => sink end.
Proof.
  induction ws as [|[bs chk] r IH]; intros st sink.
  - destruct st; simpl; auto. unfold takeN. now rewrite firstn_nil, app_nil_r.
  - cbn [run_writer]. destruct st as [k|].
    + rewrite image_cons. destruct (N.leb_spec (lenN bs) k) as [Hk|Hk].
      * rewrite IH. rewrite takeN_app_ge by exact Hk. now rewrite app_assoc.
      * rewrite (takeN_app_le k bs (image r)) by lia.
        destruct chk; simpl; auto. now rewrite IH.
    + destruct chk; simpl; auto. now rewrite IH.
Qed.

(* THE WRITER CLAUSE: every call checked -> a destination that accepts fewer bytes than the image makes the
   encoder return an error (WFail), and a destination that accepts the whole image makes it return nil *)
Lemma run_writer_checked ws : all_checked ws -> forall k sink,
  run_writer ws (Some k) sink =
  if lenN (image ws) <=? k then WDone (sink ++ image ws) else WFail (sink ++ takeN k (image ws)).
Proof.
  induction 1 as [|[bs chk] r Hc Hr IH]; intros k sink.
  - change (image []) with (@nil N). change (lenN (@nil N)) with 0.
    destruct (N.leb_spec 0 k); [simpl; now rewrite app_nil_r|lia].
  - simpl in Hc. subst chk. cbn [run_writer]. rewrite image_cons, lenN_app.
    destruct (N.leb_spec (lenN bs) k) as [Hk|Hk].
    + rewrite IH.
      destruct (N.leb_spec (lenN (image r)) (k - lenN bs)) as [H1|H1];
      destruct (N.leb_spec (lenN bs + lenN (image r)) k) as [H2|H2]; try lia.
      * now rewrite app_assoc.
      * rewrite takeN_app_ge by exact Hk. now rewrite app_assoc.
    + destruct (N.leb_spec (lenN bs + lenN (image r)) k) as [H2|H2]; [lia|].
      now rewrite (takeN_app_le k bs (image r)) by lia.
Qed.

Theorem checked_writer_fails ws : all_checked ws ->
  forall k, k < lenN (image ws) -> write_to ws k = WFail (takeN k (image ws)).
Proof.
  intros H k Hk. unfold write_to. rewrite (run_writer_checked ws H).
  destruct (N.leb_spec (lenN (image ws)) k); [lia|reflexivity].
Qed.
Theorem checked_writer_completes ws : all_checked ws ->
  forall k, lenN (image ws) <= k -> write_to ws k = WDone (image ws).
Proof.
  intros H k Hk. unfold write_to. rewrite (run_writer_checked ws H).
  destruct (N.leb_spec (lenN (image ws)) k); [reflexivity|lia].
Qed.

(* conversely, dropping an error loses the failure: success with a truncated image *)
Lemma sloppy_swallows : write_to (sloppy_calls [1; 2] [3]) 1 = WDone [1] /\ image (sloppy_calls [1; 2] [3]) = [1; 2; 3].
Proof. split; reflexivity. Qed.

(* ---------------------------------------------------------------- all_checked, image: building blocks *)
Lemma ac_nil : all_checked []. Proof. constructor. Qed.
Lemma ac_cons bs ws : all_checked ws -> all_checked (ck bs :: ws).
Proof. intros. constructor; auto. Qed.
Lemma ac_app a b : all_checked a -> all_checked b -> all_checked (a ++ b).
Proof. unfold all_checked. intros. apply Forall_app. split; auto. Qed.
Lemma ac_map {A} (f : A -> list N) l : all_checked (map (fun x => ck (f x)) l).
Proof. induction l; simpl; constructor; auto. Qed.
Lemma ac_flat_map {A} (f : A -> list wcall) l : Forall (fun x => all_checked (f x)) l -> all_checked (flat_map f l).
Proof. induction 1; simpl; [constructor|apply ac_app; auto]. Qed.
#[export] Hint Resolve ac_nil ac_cons ac_app ac_map : wr.

Lemma image_ck bs ws : image (ck bs :: ws) = bs ++ image ws.
Proof. reflexivity. Qed.
Lemma image_map {A} (f : A -> list N) l : image (map (fun x => ck (f x)) l) = concat (map f l).
Proof. induction l; simpl; auto. rewrite image_ck. now rewrite IHl. Qed.
Lemma image_flat_map {A} (f : A -> list wcall) l : image (flat_map f l) = concat (map (fun x => image (f x)) l).
Proof. induction l; simpl; auto. rewrite image_app. now rewrite IHl. Qed.

(* ---------------------------------------------------------------- packet fields (C06) *)
Section Fields.
Import Model.C05 Model.C06.

Lemma fst_wcat a b : fst (wcat a b) = fst a ++ fst b.
Proof. reflexivity. Qed.
Lemma fst_w_seq f xs : fst (w_seq f xs) = concat (map (fun x => fst (f x)) xs).
Proof. induction xs; simpl; auto. now rewrite IHxs. Qed.

Lemma fld_calls_checked t : forall v, all_checked (fld_calls t v).
Proof.
  induction t as [| | | | | | | | | | | | | | | | |l e IH|e IH|has e IH|a IHa b IHb|]; intros v; cbn [fld_calls]; auto with wr.
  - destruct v; auto with wr.
  - apply ac_app; [unfold len_calls; auto with wr|]. apply ac_flat_map. apply Forall_forall. intros; apply IH.
  - destruct v as [| | | | |h x| |]; auto with wr. destruct h; auto with wr.
  - destruct has; auto with wr.
  - destruct v; auto with wr.
Qed.

Lemma fld_calls_image t : forall v, image (fld_calls t v) = fst (wr t v).
Proof.
  induction t as [| | | | | | | | | | | | | | | | |l e IH|e IH|has e IH|a IHa b IHb|]; intros v;
    cbn [fld_calls wr]; try (cbn [image map concat fst]; now rewrite ?app_nil_r).
  - (* Position *) destruct v; cbn [image map concat fst]; now rewrite ?app_nil_r.
  - (* BitSet *) rewrite fst_wcat, image_ck, fst_w_seq. f_equal. apply (image_map (fun x => fst (w_long (zof x)))).
  - (* Ary *) rewrite fst_wcat, image_app, fst_w_seq, image_flat_map. f_equal.
    + unfold len_calls. rewrite image_ck. apply app_nil_r.
    + f_equal. apply map_ext. intros; apply IH.
  - (* Option *) destruct v as [| | | | |h x| |]; try (cbn [image map concat fst]; now rewrite ?app_nil_r).
    destruct h; [|cbn [image map concat fst]; now rewrite ?app_nil_r].
    rewrite fst_wcat, image_ck. now rewrite IH.
  - (* Opt *) destruct has; [apply IH|reflexivity].
  - (* Pair *) destruct v; rewrite fst_wcat, image_app; now rewrite IHa, IHb.
Qed.

Lemma varint_calls_ok z : all_checked (varint_calls z) /\ image (varint_calls z) = write32 z.
Proof. split; [unfold varint_calls; auto with wr|unfold varint_calls; rewrite image_ck; apply app_nil_r]. Qed.
Lemma varlong_calls_ok z : all_checked (varlong_calls z) /\ image (varlong_calls z) = write64 z.
Proof. split; [unfold varlong_calls; auto with wr|unfold varlong_calls; rewrite image_ck; apply app_nil_r]. Qed.
Lemma raw_calls_ok bs : all_checked (raw_calls bs) /\ image (raw_calls bs) = fst (w_raw bs).
Proof. split; [unfold raw_calls; auto with wr|unfold raw_calls; rewrite image_ck; apply app_nil_r]. Qed.
End Fields.

(* ---------------------------------------------------------------- frames, RCON, BitStorage *)
Lemma pack_calls_ok deflate thr pool p :
  all_checked (pack_calls deflate thr pool p) /\ image (pack_calls deflate thr pool p) = C07.pack deflate thr pool p.
Proof. split; [unfold pack_calls; auto with wr|unfold pack_calls; rewrite image_ck; apply app_nil_r]. Qed.
Lemma rcon_calls_ok id ty pl :
  all_checked (rcon_calls id ty pl) /\ image (rcon_calls id ty pl) = C16.rcon_write id ty pl.
Proof. split; [unfold rcon_calls; auto with wr|unfold rcon_calls; rewrite image_ck; apply app_nil_r]. Qed.
Lemma bs_calls_ok st : all_checked (bs_calls st) /\ image (bs_calls st) = fst (C11.bs_write st).
Proof.
  split; [unfold bs_calls; auto with wr|].
  unfold bs_calls, C11.bs_write. rewrite image_ck. cbn [fst]. f_equal. apply (image_map (be 8)).
Qed.

(* ---------------------------------------------------------------- NBT encoder over trees (C01) *)
Section NBT.
Import Model.C01.

Lemma nbt_calls_checked : forall t, all_checked (nbt_calls t).
Proof.
  induction t as [v|v|v|v|b|b|l|s|eid l IH|l IH|l|l] using tag_ind'; cbn [nbt_calls]; auto with wr.
  - apply ac_cons, ac_cons. apply ac_flat_map. exact IH.
  - apply ac_app; auto with wr. apply ac_flat_map.
    apply Forall_forall. intros kv Hin. rewrite Forall_forall in IH. auto using IH with wr.
Qed.

Lemma nbt_calls_image : forall t, image (nbt_calls t) = payload t.
Proof.
  induction t as [v|v|v|v|b|b|l|s|eid l IH|l IH|l|l] using tag_ind'; cbn [nbt_calls payload];
    try (cbn [image map concat fst ck]; now rewrite ?app_nil_r).
  - (* List *) rewrite !image_ck, image_flat_map. cbn [app]. f_equal. f_equal.
    rewrite flat_map_concat_map. f_equal. apply map_ext_Forall. exact IH.
  - (* Compound *) rewrite image_app, image_flat_map. rewrite flat_map_concat_map. f_equal.
    + f_equal. apply map_ext_Forall. apply Forall_forall. intros kv Hin. rewrite Forall_forall in IH.
      rewrite !image_ck. cbn [app]. f_equal. f_equal. f_equal. apply IH, Hin.
  - (* IntArray *) rewrite image_ck. f_equal. rewrite flat_map_concat_map. apply (image_map (fun z => be 4 (u32 z))).
  - (* LongArray *) rewrite image_ck. f_equal. rewrite flat_map_concat_map. apply (image_map (fun z => be 8 (u64 z))).
Qed.

Lemma nbt_doc_calls_ok f name t :
  all_checked (nbt_doc_calls f name t) /\ image (nbt_doc_calls f name t) = doc f name t.
Proof.
  split.
  - destruct f; cbn [nbt_doc_calls]; auto using nbt_calls_checked with wr.
  - destruct f; cbn [nbt_doc_calls doc doc_file doc_net]; rewrite !image_ck, nbt_calls_image; reflexivity.
Qed.
End NBT.
