(* C10: proofs about Model/C10.v - slow path, fast path, dispatch, histories *)
From Coq Require Import List Arith NArith Lia Bool.
From GoMC Require Import Base.Bytes Model.C10 Proofs.C10_step.
Import ListNotations.
Local Open Scope nat_scope.

(* ---------- buffer helpers ---------- *)
Lemma slice0 (w t : list N) : length w = bs -> slice (w ++ t) 0 bs = Some w.
Proof.
  intros H. unfold slice. cbn [skipn]. rewrite <- H, firstn_app_exact, Nat.eqb_refl. reflexivity.
Qed.
Lemma write_at0 (b w : list N) : length w <= length b -> write_at b 0 w = Some (w ++ skipn (length w) b).
Proof.
  intros H. unfold write_at. cbn [firstn skipn length Nat.eqb andb app].
  rewrite firstn_length, Nat.min_l by lia. rewrite Nat.eqb_refl. reflexivity.
Qed.
Lemma write_at_mid (a t : list N) x y : write_at (a ++ x :: t) (length a) [y] = Some (a ++ y :: t).
Proof.
  unfold write_at. rewrite firstn_app_exact, skipn_app_exact. cbn [length firstn skipn app].
  rewrite !Nat.eqb_refl. reflexivity.
Qed.
Lemma copy_to_block (b w : list N) : length w <= length b -> copy_to b w = w ++ skipn (length w) b.
Proof. intros H. unfold copy_to. rewrite Nat.min_r by lia. rewrite firstn_all. reflexivity. Qed.

Lemma skipn_skipn' {A} y : forall x (l : list A), skipn x (skipn y l) = skipn (y + x) l.
Proof.
  induction y as [|y IH]; intros x l; [reflexivity|].
  destruct l as [|a l]; [cbn; destruct x; reflexivity|]. cbn [skipn Nat.add]. apply IH.
Qed.

Lemma last_cons {A} (l : list A) : forall a d, last (a :: l) d = last l a.
Proof.
  induction l as [|b l IH]; intros a d; [reflexivity|].
  change (last (a :: b :: l) d) with (last (b :: l) d). rewrite !IH. reflexivity.
Qed.

(* ---------- the shift register ---------- *)
Lemma shift_length reg c : length reg = bs -> length (shift reg c) = bs.
Proof. unfold shift, bs. destruct reg; [discriminate|]. cbn [tl length]. rewrite app_length. cbn. lia. Qed.
Lemma reg_after_length ct : forall reg, length reg = bs -> length (reg_after reg ct) = bs.
Proof.
  unfold reg_after. induction ct as [|c ct IH]; intros reg H; [exact H|].
  cbn [fold_left]. apply IH. apply shift_length. exact H.
Qed.
Lemma reg_after_app reg a b : reg_after reg (a ++ b) = reg_after (reg_after reg a) b.
Proof. unfold reg_after. apply fold_left_app. Qed.
Lemma reg_after_skipn ct : forall reg, reg <> [] -> reg_after reg ct = skipn (length ct) (reg ++ ct).
Proof.
  unfold reg_after. induction ct as [|c ct IH]; intros reg H.
  - cbn. rewrite app_nil_r. reflexivity.
  - cbn [fold_left length]. rewrite IH by (unfold shift; destruct (tl reg); discriminate).
    destruct reg as [|r0 reg']; [contradiction|]. unfold shift. cbn [tl app skipn].
    rewrite <- app_assoc. reflexivity.
Qed.
Lemma reg_after_lastn reg ct : length reg = bs -> reg_after reg ct = lastn bs (reg ++ ct).
Proof.
  intros H. rewrite reg_after_skipn by (destruct reg; [discriminate|congruence]).
  unfold lastn. rewrite app_length, H. f_equal. lia.
Qed.
Lemma reg_after_full reg a : length reg = bs -> length a = bs -> reg_after reg a = a.
Proof.
  intros Hr Ha. rewrite reg_after_skipn by (destruct reg; [discriminate|congruence]).
  rewrite Ha, <- Hr. apply skipn_app_exact.
Qed.

Section P.
Variable E : list N -> list N.

(* ---------- specification lemmas ---------- *)
Lemma cfb_length de m : forall reg, length (cfb E de reg m) = length m.
Proof.
  induction m as [|x m IH]; intros reg; destruct de; cbn [cfb ref_enc ref_dec length]; auto;
    f_equal; [apply (IH _) | apply (IH _)].
Qed.
Lemma ref_enc_app a : forall reg b,
  ref_enc E reg (a ++ b) = ref_enc E reg a ++ ref_enc E (reg_after reg (ref_enc E reg a)) b.
Proof.
  induction a as [|x a IH]; intros reg b; [reflexivity|].
  cbn [app ref_enc]. rewrite IH. reflexivity.
Qed.
Lemma ref_dec_app a : forall reg b,
  ref_dec E reg (a ++ b) = ref_dec E reg a ++ ref_dec E (reg_after reg a) b.
Proof.
  induction a as [|x a IH]; intros reg b; [reflexivity|].
  cbn [app ref_dec]. rewrite IH. reflexivity.
Qed.
(* both directions at once: ct = the ciphertext side *)
Definition ctx (de : bool) (reg m : list N) : list N := if de then m else cfb E de reg m.
Lemma cfb_app de reg a b :
  cfb E de reg (a ++ b) = cfb E de reg a ++ cfb E de (reg_after reg (ctx de reg a)) b.
Proof. destruct de; cbn [cfb ctx]; [apply ref_dec_app | apply ref_enc_app]. Qed.
Lemma ctx_app de reg a b :
  ctx de reg (a ++ b) = ctx de reg a ++ ctx de (reg_after reg (ctx de reg a)) b.
Proof. destruct de; cbn [ctx]; [reflexivity | apply ref_enc_app]. Qed.

(* ---------- invariant facts ---------- *)
Lemma Inv_reg_len st reg : Inv st reg -> length reg = bs.
Proof.
  intros (Hl & Hp & Hw). rewrite <- Hw. unfold window.
  rewrite firstn_length, skipn_length. unfold bs in *. lia.
Qed.
Lemma Inv_new iv0 : length iv0 = bs -> Inv (new_state iv0) iv0.
Proof.
  intros H. unfold Inv, new_state, window. cbn [iv pos skipn].
  split; [|split].
  - rewrite app_length, repeat_length, H. unfold bs. lia.
  - lia.
  - rewrite <- H. apply firstn_app_exact.
Qed.

(* ---------- slow path ---------- *)
Lemma slow_ok de src : forall st reg, Inv st reg ->
  exists st', slow E de st src = Some (st', cfb E de reg src) /\ Inv st' (reg_after reg (ctx de reg src)).
Proof.
  induction src as [|v src IH]; intros st reg H.
  - exists st. destruct de; cbn; auto.
  - destruct (step_ok E de st v reg H) as (st1 & Hs & Hi).
    destruct (IH st1 _ Hi) as (st2 & Hs2 & Hi2).
    exists st2. cbn [slow]. rewrite Hs, Hs2. split.
    + destruct de; reflexivity.
    + destruct de; exact Hi2.
Qed.

(* ---------- fast path ---------- *)
Lemma blk_E_split w : exists k t, blk (E w) = k :: t /\ k = ks E w.
Proof.
  pose proof (blk_length (E w)) as Hb. pose proof (hd_blk (E w)) as Hh.
  destruct (blk (E w)) as [|k t]; [discriminate|]. exists k, t. split; [reflexivity|]. exact Hh.
Qed.

Lemma fast_dec_ok rest : forall ivb w dv, length w = bs -> bs <= length ivb -> length rest <= length dv ->
  fast_dec E ivb (w ++ rest) rest dv
  = Some (reg_after w rest ++ skipn bs ivb, ref_dec E w rest ++ skipn (length rest) dv).
Proof.
  induction rest as [|v rest IH]; intros ivb w dv Hw Hi Hd.
  - cbn [fast_dec]. rewrite slice0 by exact Hw. rewrite copy_to_block by lia. rewrite Hw. reflexivity.
  - cbn [fast_dec]. rewrite slice0 by exact Hw.
    pose proof (blk_length (E w)) as Hb.
    rewrite write_at0 by lia. rewrite Hb.
    destruct (blk_E_split w) as (k & t & Hk & Hks). rewrite Hk in *. cbn [app index nth_error].
    destruct dv as [|d dv']; [cbn in Hd; lia|].
    assert (Ht: tl (w ++ v :: rest) = shift w v ++ rest).
    { destruct w as [|w0 w']; [discriminate|]. unfold shift. cbn [tl app]. rewrite <- app_assoc. reflexivity. }
    rewrite Ht.
    rewrite IH; [| apply shift_length; exact Hw | cbn [length app] in *; rewrite app_length, skipn_length; lia | cbn [length] in Hd; lia].
    assert (Hs: skipn bs ((k :: t) ++ skipn bs ivb) = skipn bs ivb)
      by (rewrite <- Hb at 1; apply skipn_app_exact).
    cbn [app] in Hs. rewrite Hs. subst k. reflexivity.
Qed.

Lemma fast_enc_ok rest : forall ivb w dt, length w = bs -> bs <= length ivb -> length rest <= length dt ->
  fast_enc E ivb (w ++ dt) rest
  = Some (reg_after w (ref_enc E w rest) ++ skipn bs ivb, w ++ ref_enc E w rest ++ skipn (length rest) dt).
Proof.
  induction rest as [|v rest IH]; intros ivb w dt Hw Hi Hd.
  - cbn [fast_enc]. rewrite slice0 by exact Hw. rewrite copy_to_block by lia. rewrite Hw. reflexivity.
  - cbn [fast_enc]. rewrite slice0 by exact Hw.
    pose proof (blk_length (E w)) as Hb.
    rewrite write_at0 by lia. rewrite Hb.
    destruct (blk_E_split w) as (k & t & Hk & Hks). rewrite Hk in *. cbn [app index nth_error].
    destruct dt as [|d dt']; [cbn in Hd; lia|].
    rewrite <- Hw at 1. rewrite write_at_mid.
    destruct w as [|w0 w'] eqn:Ew; [discriminate|]. rewrite <- Ew in *.
    assert (Hv: w ++ N.lxor v k :: dt' = w0 :: shift w (N.lxor v k) ++ dt').
    { rewrite Ew. unfold shift. cbn [tl app]. rewrite <- app_assoc. reflexivity. }
    rewrite Hv.
    rewrite IH; [| apply shift_length; exact Hw | cbn [length app] in *; rewrite app_length, skipn_length; lia | cbn [length] in Hd; lia].
    assert (Hs: skipn bs ((k :: t) ++ skipn bs ivb) = skipn bs ivb)
      by (rewrite <- Hb at 1; apply skipn_app_exact).
    cbn [app] in Hs. rewrite Hs. subst k.
    cbn [ref_enc length skipn]. change (reg_after w (N.lxor v (ks E w) :: ?x)) with (reg_after (shift w (N.lxor v (ks E w))) x).
    assert (Hsh: forall c Z, w0 :: shift w c ++ Z = w ++ c :: Z).
    { intros c Z. rewrite Ew. unfold shift. cbn [tl app]. rewrite <- app_assoc. reflexivity. }
    rewrite Hsh. reflexivity.
Qed.

(* ---------- XORKeyStream ---------- *)
Definition dst_for (al : alias) (src dst0 : list N) : list N :=
  match al with InPlace => src ++ dst0 | Disjoint => dst0 end.

Lemma xks_ok de st al src dst0 reg : Inv st reg -> length src <= length (dst_for al src dst0) ->
  exists st', xor_key_stream E de st al src dst0
              = Some (st', cfb E de reg src ++ skipn (length src) (dst_for al src dst0))
           /\ Inv st' (reg_after reg (ctx de reg src)).
Proof.
  intros HI Hlen. pose proof (Inv_reg_len _ _ HI) as Hreg.
  unfold xor_key_stream. fold (dst_for al src dst0).
  destruct src as [|x0 s0].
  { exists st. destruct de; cbn; auto. }
  cbv beta iota zeta.
  remember (x0 :: s0) as src eqn:Esrc in *. clear Esrc x0 s0.
  set (dst := dst_for al src dst0) in *. clearbody dst.
  destruct (Nat.ltb_spec (length dst) (length src)) as [Hc|_]; [lia|].
  destruct ((bs + bs <? length src) && match al with Disjoint => true | InPlace => false end) eqn:Hfast.
  - (* fast path *)
    apply andb_true_iff in Hfast. destruct Hfast as [Hl Hal]. apply Nat.ltb_lt in Hl.
    assert (Esplit: src = firstn bs src ++ skipn bs src) by (symmetry; apply firstn_skipn).
    assert (Ha: length (firstn bs src) = bs) by (rewrite firstn_length; lia).
    set (a := firstn bs src) in *. set (r := skipn bs src) in *. clearbody a r. subst src.
    assert (Hr: length (a ++ r) = bs + length r) by (rewrite app_length; lia).
    destruct (slow_ok de a st reg HI) as (st1 & Hs & HI1). rewrite Hs.
    destruct HI1 as (Hl1 & _ & _).
    assert (Ho: length (cfb E de reg a) = bs) by (rewrite cfb_length; exact Ha).
    assert (Hsk: skipn bs (cfb E de reg a ++ skipn bs dst) = skipn bs dst)
      by (rewrite <- Ho at 1; apply skipn_app_exact).
    assert (Hdl: length r <= length (skipn bs dst)) by (rewrite skipn_length; lia).
    assert (Htail: skipn (length r) (skipn bs dst) = skipn (length (a ++ r)) dst)
      by (rewrite skipn_skipn'; f_equal; lia).
    assert (Hivl: bs <= length (iv st1)) by (rewrite Hl1; unfold bs; lia).
    assert (Hra: reg_after reg (ctx de reg a) = ctx de reg a).
    { apply reg_after_full; [exact Hreg|]. destruct de; cbn [ctx]; [exact Ha | exact Ho]. }
    destruct de.
    + (* decrypt: ciphertext = src *)
      rewrite Hsk. rewrite fast_dec_ok by assumption.
      eexists. split.
      * rewrite Htail. rewrite (cfb_app true reg a r), Hra. cbn [ctx cfb].
        rewrite <- app_assoc. reflexivity.
      * cbn [ctx] in *. rewrite reg_after_app, Hra.
        unfold Inv, window. cbn [iv pos skipn].
        pose proof (reg_after_length r a Ha) as Hral.
        split; [|split].
        -- rewrite app_length, skipn_length, Hral, Hl1. unfold bs. lia.
        -- lia.
        -- rewrite <- Hral at 1. apply firstn_app_exact.
    + (* encrypt: ciphertext = dst *)
      rewrite fast_enc_ok by assumption.
      eexists. split.
      * rewrite Htail. rewrite (cfb_app false reg a r), Hra. cbn [ctx cfb].
        rewrite <- app_assoc. reflexivity.
      * rewrite ctx_app, reg_after_app, Hra. cbn [ctx cfb] in *.
        unfold Inv, window. cbn [iv pos skipn].
        pose proof (reg_after_length (ref_enc E (ref_enc E reg a) r) (ref_enc E reg a) Ho) as Hral.
        split; [|split].
        -- rewrite app_length, skipn_length, Hral, Hl1. unfold bs. lia.
        -- lia.
        -- rewrite <- Hral at 1. apply firstn_app_exact.
  - (* slow path *)
    destruct (slow_ok de src st reg HI) as (st1 & Hs & HI1). rewrite Hs.
    exists st1. split; [reflexivity | exact HI1].
Qed.

(* the explicit panic and the no-op *)
Lemma xks_short_dst de st src dst0 : src <> [] -> length dst0 < length src ->
  xor_key_stream E de st Disjoint src dst0 = None.
Proof.
  intros Hn Hl. unfold xor_key_stream. destruct src as [|x s]; [contradiction|].
  destruct (Nat.ltb_spec (length dst0) (length (x :: s))); [reflexivity | lia].
Qed.
Lemma xks_empty de st al dst0 :
  xor_key_stream E de st al [] dst0 = Some (st, dst_for al [] dst0).
Proof. reflexivity. Qed.

(* ---------- histories ---------- *)
Lemma dst_for_call c : dst_for (c_alias c) (c_src c) (c_dst c) = dst_of c.
Proof. reflexivity. Qed.

Definition ct_all (de : bool) (reg : list N) (calls : list call) : list N :=
  ctx de reg (concat (map c_src calls)).

Lemma trace_ok de calls : forall st reg, Inv st reg -> Forall call_ok calls ->
  exists sts, trace E de st calls = map Some (combine sts (spec_outs E de reg calls))
    /\ length sts = length calls
    /\ Forall (fun s => length (iv s) = 3 * bs /\ pos s <= bs + bs) sts
    /\ window (last sts st) = reg_after reg (ct_all de reg calls).
Proof.
  induction calls as [|c cs IH]; intros st reg HI Hok.
  - exists []. cbn. repeat split; auto. destruct HI as (_ & _ & Hw).
    unfold ct_all. destruct de; cbn; exact Hw.
  - inversion Hok as [|c' cs' Hc Hcs]; subst.
    unfold call_ok in Hc. rewrite <- dst_for_call in Hc.
    destruct (xks_ok de st (c_alias c) (c_src c) (c_dst c) reg HI Hc) as (st1 & Hx & HI1).
    destruct (IH st1 _ HI1 Hcs) as (sts & Ht & Hlen & Hall & Hlast).
    exists (st1 :: sts). cbn [trace]. rewrite Hx, Ht. rewrite dst_for_call.
    split; [|split; [|split]].
    + cbn [spec_outs combine map]. fold (ctx de reg (c_src c)). reflexivity.
    + cbn [length]. lia.
    + constructor; [|exact Hall]. destruct HI1 as (A & B & _). split; assumption.
    + unfold ct_all in *. cbn [map concat]. rewrite ctx_app, reg_after_app.
      rewrite <- Hlast. rewrite last_cons. reflexivity.
Qed.

(* chunk-wise reference = reference of the concatenation; untouched tails *)
Lemma spec_outs_written de calls : forall reg, Forall call_ok calls ->
  written calls (spec_outs E de reg calls) = cfb E de reg (concat (map c_src calls)).
Proof.
  induction calls as [|c cs IH]; intros reg Hok.
  - destruct de; reflexivity.
  - inversion Hok as [|c' cs' Hc Hcs]; subst.
    cbn [spec_outs written map concat]. rewrite IH by exact Hcs.
    rewrite <- (cfb_length de (c_src c) reg) at 1. rewrite firstn_app_exact.
    rewrite cfb_app. reflexivity.
Qed.
Lemma spec_outs_untouched de calls : forall reg, Forall call_ok calls ->
  Forall2 untouched calls (spec_outs E de reg calls).
Proof.
  induction calls as [|c cs IH]; intros reg Hok; [constructor|].
  inversion Hok as [|c' cs' Hc Hcs]; subst. cbn [spec_outs]. constructor; [|apply IH; exact Hcs].
  unfold untouched, call_ok in *. split.
  - rewrite app_length, skipn_length, cfb_length. lia.
  - rewrite <- (cfb_length de (c_src c) reg) at 1. apply skipn_app_exact.
Qed.
Lemma spec_outs_length de calls : forall reg, length (spec_outs E de reg calls) = length calls.
Proof. induction calls as [|c cs IH]; intros reg; [reflexivity|]. cbn [spec_outs length]. rewrite IH. reflexivity. Qed.

(* the headline statement *)
Theorem any_pattern de iv0 calls : length iv0 = bs -> Forall call_ok calls ->
  exists sts outs,
       trace E de (new_state iv0) calls = map Some (combine sts outs)
    /\ length sts = length calls /\ length outs = length calls
    /\ outs = spec_outs E de iv0 calls
    /\ written calls outs = cfb E de iv0 (concat (map c_src calls))
    /\ Forall2 untouched calls outs
    /\ Forall (fun s => length (iv s) = 3 * bs /\ pos s <= bs + bs) sts
    /\ window (last sts (new_state iv0))
       = lastn bs (iv0 ++ ciphertext E de iv0 (concat (map c_src calls))).
Proof.
  intros Hiv Hok.
  destruct (trace_ok de calls (new_state iv0) iv0 (Inv_new iv0 Hiv) Hok) as (sts & Ht & Hl & Hall & Hw).
  exists sts, (spec_outs E de iv0 calls).
  repeat (split; [first [exact Ht | exact Hl | apply spec_outs_length | reflexivity
                        | apply spec_outs_written; exact Hok | apply spec_outs_untouched; exact Hok | exact Hall]|]).
  rewrite Hw. rewrite reg_after_lastn by exact Hiv. unfold ct_all, ctx, ciphertext.
  destruct de; reflexivity.
Qed.

(* decrypting what an encrypting history produced, under ANY other history, returns the message *)
Theorem roundtrip_histories iv0 ecalls dcalls :
  length iv0 = bs -> Forall call_ok ecalls -> Forall call_ok dcalls ->
  exists ests eouts dsts douts,
       trace E false (new_state iv0) ecalls = map Some (combine ests eouts)
    /\ length ests = length ecalls /\ length eouts = length ecalls
    /\ trace E true (new_state iv0) dcalls = map Some (combine dsts douts)
    /\ length dsts = length dcalls /\ length douts = length dcalls
    /\ (concat (map c_src dcalls) = written ecalls eouts ->
        written dcalls douts = concat (map c_src ecalls)).
Proof.
  intros Hiv He Hd.
  destruct (any_pattern false iv0 ecalls Hiv He) as (ests & eouts & A1 & A2 & A3 & _ & A5 & _).
  destruct (any_pattern true iv0 dcalls Hiv Hd) as (dsts & douts & B1 & B2 & B3 & _ & B5 & _).
  exists ests, eouts, dsts, douts. repeat (split; [assumption|]).
  intros Hc. rewrite B5, Hc, A5. cbn [cfb]. apply ref_dec_enc.
Qed.
End P.
