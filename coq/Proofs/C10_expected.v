(* C10: the statement skeletons of net/CFB8/cfb8.go as they were when Model/C10.v / Model/C10_interp.v were
   written and the interpretation lemmas of Proofs/C10_skel.v were proved (shapes only: statement kinds in
   source order with the rendered source text of every expression; the semantic part is in Gen/C10gen.v).
   Proofs/C10_skel.v proves  map shape C10gen.<f> = expected_<f>  by reflexivity: any edit of these bodies
   (a swapped statement, a dropped check, a changed expression or constant) breaks one of these obligations.
   Also recorded: the bodies and signatures of newCFB8 / NewCFB8Encrypt / NewCFB8Decrypt and the fields of
   type CFB8, as rendered text. *)
From Coq Require Import List String ZArith.
From GoMC Require Import Model.C10_syntax.
Import ListNotations.
Local Open Scope string_scope.

(* net/CFB8/cfb8.go: CFB8.XORKeyStream *)
Definition expected_XORKeyStream : list shape_stmt :=
  [
    CIf "len(src) == 0" tt
        [
      CReturn ]
        [];
    CIf "len(dst) < len(src)" tt
        [
      CPanic "cfb8: output smaller than input" ]
        [];
    CIf "len(src) > cf.blockSize<<1 && (uintptr(unsafe.Pointer(&dst[0]))+uintptr(cf.blockSize) <= uintptr(unsafe.Pointer(&src[0])) || uintptr(unsafe.Pointer(&src[0]))+uintptr(len(src)) <= uintptr(unsafe.Pointer(&dst[0])))" tt
        [
      CCall KxorKeyStream (SE Sdst None None) (SE Ssrc None (Some ("cf.blockSize", tt)));
      CVarSlice Sct;
      CIf "cf.de" tt
          [
        CSetSlice Sct false (SE Ssrc None None) ]
          [
        CSetSlice Sct false (SE Sdst None None) ];
      CSetSlice Sdst false (SE Sdst (Some ("cf.blockSize", tt)) None);
      CSetSlice Ssrc false (SE Ssrc (Some ("cf.blockSize", tt)) None);
      CSetSlice Siv true (SE Scfiv None None);
      CHint (BIdx Siv "0" tt);
      CVarInt Li;
      CVarByte;
      CSetSlice Sdst false (SE Sdst None (Some ("len(src)", tt)));
      CIf "cf.de && uintptr(unsafe.Pointer(&dst[0])) <= uintptr(unsafe.Pointer(&src[len(src)-1])) && uintptr(unsafe.Pointer(&src[0])) <= uintptr(unsafe.Pointer(&dst[len(dst)-1]))" tt
          [
        CFor [
          CLet Li "i = 0" tt ] "i < len(src)-cf.blockSize" tt
            [
          CLet Li "i += 1" tt ]
            [
          CEncrypt (SE Sdst (Some ("i", tt)) None) (SE Sct (Some ("i", tt)) None) ];
        CXorBytes (SE Sdst None None) (SE Ssrc None (Some ("i", tt))) (SE Sdst None None);
        CFor [] "i < len(src)" tt
            [
          CLet Li "i += 1" tt ]
            [
          CEncrypt (SE Siv None None) (SE Sct (Some ("i", tt)) None);
          CStore Sdst "i" tt (BXor (BIdx Ssrc "i" tt) (BIdx Siv "0" tt)) ] ]
          [
        CHint (BIdx Sct "len(src)" tt);
        CRange false Ssrc
            [
          CEncrypt (SE Siv None None) (SE Sct (Some ("i", tt)) None);
          CStore Sdst "i" tt (BXor BVal (BIdx Siv "0" tt)) ];
        CLet Li "i += 1" tt ];
      CCopy (SE Siv None None) (SE Sct (Some ("i", tt)) (Some ("i + cf.blockSize", tt)));
      CLet LivPos "cf.ivPos = 0" tt;
      CReturn ]
        [];
    CCall KxorKeyStream (SE Sdst None None) (SE Ssrc None None) ].

(* net/CFB8/cfb8.go: CFB8.xorKeyStream *)
Definition expected_xorKeyStream : list shape_stmt :=
  [
    CSetSlice Sdst false (SE Sdst None (Some ("len(src)", tt)));
    CRange true Ssrc
        [
      CLet Lppb "posPlusBlockSize := cf.ivPos + cf.blockSize" tt;
      CLet Ltp "tempPos := posPlusBlockSize & (cf.blockSize<<1 - 1)" tt;
      CEncrypt (SE Scfiv (Some ("tempPos", tt)) None) (SE Scfiv (Some ("cf.ivPos", tt)) None);
      CXorVal (BIdx Scfiv "tempPos" tt);
      CIf "cf.ivPos == cf.blockSize<<1" tt
          [
        CCopy (SE Scfiv None None) (SE Scfiv (Some ("cf.ivPos + 1", tt)) None);
        CIf "cf.de" tt
            [
          CStore Scfiv "cf.blockSize - 1" tt (BIdx Ssrc "i" tt) ]
            [
          CStore Scfiv "cf.blockSize - 1" tt BVal ];
        CLet LivPos "cf.ivPos = 0" tt ]
          [
        CIf "cf.de" tt
            [
          CStore Scfiv "posPlusBlockSize" tt (BIdx Ssrc "i" tt) ]
            [
          CStore Scfiv "posPlusBlockSize" tt BVal ];
        CLet LivPos "cf.ivPos += 1" tt ];
      CStore Sdst "i" tt BVal ] ].

(* net/CFB8/cfb8.go: NewCFB8Decrypt *)
Definition expected_cfb8_NewCFB8Decrypt_sig : string := "func(c cipher.Block, iv []byte) *CFB8".
Definition expected_cfb8_NewCFB8Decrypt : list string :=
  ["return newCFB8(c, iv, true)"].

(* net/CFB8/cfb8.go: NewCFB8Encrypt *)
Definition expected_cfb8_NewCFB8Encrypt_sig : string := "func(c cipher.Block, iv []byte) *CFB8".
Definition expected_cfb8_NewCFB8Encrypt : list string :=
  ["return newCFB8(c, iv, false)"].

(* net/CFB8/cfb8.go: newCFB8 *)
Definition expected_cfb8_newCFB8_sig : string := "func(c cipher.Block, iv []byte, de bool) *CFB8".
Definition expected_cfb8_newCFB8 : list string :=
  ["cp := make([]byte, len(iv)*3)";
   "copy(cp, iv)";
   "return &CFB8{ c: c, blockSize: c.BlockSize(), iv: cp, de: de, }"].

(* net/CFB8/cfb8.go: type CFB8 struct *)
Definition expected_cfb8_struct : list string :=
  ["c cipher.Block"; "blockSize int"; "ivPos int"; "iv []byte"; "de bool"].

