(* C10: (a) Model/C10.v's `step` is the block-size-16 instance of `stepn`, hence the interpretation of the
   translated loop body; (b) what the code does with a cipher whose BlockSize() is 8: the same ring on a
   24-byte buffer (17 positions), proved by exhaustive case analysis like Proofs/C10_step.v; (c) witnesses
   that PARTIALLY overlapping dst/src (excluded by the cipher.Stream contract) are not transformed
   correctly: the batched branch of the fast path, and the slow path with the source behind. *)
From Coq Require Import String List Arith NArith ZArith Lia Bool.
From GoMC Require Import Base.Bytes Base.GoInt Model.C10 Model.C10_syntax Gen.C10gen Model.C10_interp.
From GoMC Require Import Proofs.C10_step Proofs.C10_skel Proofs.C10_tie.
Import ListNotations.
Local Open Scope nat_scope.

Lemma step_is_stepn16 E de s v : step E de s v = stepn E 16 de s v.
Proof. reflexivity. Qed.
Lemma slow_is_slown16 E de src : forall s, slow E de s src = slown E 16 de s src.
Proof.
  induction src as [|v src IH]; intros s; [reflexivity|].
  cbn [slow slown]. rewrite <- step_is_stepn16. destruct (step E de s v) as [[s1 o]|]; [|reflexivity].
  rewrite IH. reflexivity.
Qed.

(* the hand model's step IS the interpretation of the translated loop body of xorKeyStream *)
Lemma interp_body_is_step E fuel call m ivl p de k v d a ppb0 tp0 ct ivs :
  (Z.of_nat p < 2 ^ 62)%Z ->
  sl_sp d = Arena -> sl_sp a = Arena -> (0 <= k < sl_len a)%Z -> (0 <= k < sl_len d)%Z -> m (sl_off a + k)%Z = v ->
  run_block (exec E false fuel call) slow_body (body_state m ivl p 16 de k v d a ppb0 tp0 ct ivs)
  = match step E de {| iv := ivl; pos := p |} v with
    | None => OPanic
    | Some (s', o) =>
        ONormal (mkst (upd m (sl_off d + k)%Z o) (iv s') (Z.of_nat (pos s')) 16%Z de
                      (mkloc k (Z.of_nat (p + 16)) (Z.land (Z.of_nat (p + 16)) 31) o d a ct ivs))
    end.
Proof.
  intros Hp Hd Ha Hka Hkd Hv. rewrite step_is_stepn16.
  apply (interp_body_is_stepn E fuel call m ivl p 16 de k v d a ppb0 tp0 ct ivs); try assumption; try lia.
Qed.

(* ---------- block size 8 ---------- *)
Section P8.
Variable E : list N -> list N.
Definition Inv8 (s : state) (reg : list N) : Prop :=
  length (iv s) = 24 /\ pos s <= 16 /\ windown 8 s = reg.
Lemma hd_blkn8 l : hd 0%N (blkn 8 l) = hd 0%N l.
Proof. destruct l; reflexivity. Qed.
Lemma step8_ok de s v reg : Inv8 s reg ->
  exists s', stepn E 8 de s v = Some (s', N.lxor v (ks E reg))
          /\ Inv8 s' (shift reg (if de then v else N.lxor v (ks E reg))).
Proof.
  destruct s as [ivb p]. unfold Inv8. cbn [iv pos]. intros (Hl & Hp & Hw).
  explode Hl.
  unfold ks. rewrite <- hd_blkn8.
  do 17 (destruct p as [|p];
    [ cbv [windown iv pos firstn skipn] in Hw; subst reg;
      unfold stepn; cbn [iv pos]; cbv -[N.lxor blkn];
      match goal with |- context [blkn 8 ?x] => pose proof (blkn_length 8 x) as Hb; set (b := blkn 8 x) in * end;
      clearbody b; explode Hb;
      destruct de; (eexists; split; [cbv -[N.lxor]; reflexivity | cbv -[N.lxor]; repeat split; lia])
    | ]).
  lia.
Qed.
Lemma Inv8_new iv0 : length iv0 = 8 -> Inv8 (new_state iv0) iv0.
Proof.
  intros H. unfold Inv8, new_state, windown. cbn [iv pos skipn].
  split; [|split].
  - rewrite app_length, repeat_length, H. reflexivity.
  - lia.
  - rewrite <- H. apply firstn_app_exact.
Qed.
(* the whole slow path: any source through an 8-byte block function is its CFB8 image *)
Lemma shift8_length reg c : length reg = 8 -> length (shift reg c) = 8.
Proof. unfold shift. destruct reg; [discriminate|]. cbn [tl length]. rewrite app_length. cbn. lia. Qed.
Lemma slow8_ok de src : forall s reg, Inv8 s reg ->
  exists s', slown E 8 de s src = Some (s', cfb E de reg src)
          /\ Inv8 s' (reg_after reg (if de then src else cfb E de reg src)).
Proof.
  induction src as [|v src IH]; intros s reg H.
  - exists s. destruct de; cbn; auto.
  - destruct (step8_ok de s v reg H) as (s1 & Hs & Hi).
    destruct (IH s1 _ Hi) as (s2 & Hs2 & Hi2).
    exists s2. cbn [slown]. rewrite Hs, Hs2. split.
    + destruct de; reflexivity.
    + destruct de; exact Hi2.
Qed.
End P8.

(* ---------- partial overlap ---------- *)
Definition wit_iv : list N := map N.of_nat (seq 1 16).
Definition wit_img (n : nat) : list N := map (fun j => N.land (N.of_nat (j * 7 + 3)) 255) (seq 0 n).
(* decrypting 50 bytes with dst starting 20 bytes before src in the same array: fast path, batched branch,
   the operands of XORBytes do not overlap (so the outcome does not depend on crypto/subtle's assembly) *)
Definition wit_batched : mcall :=
  {| m_bytes := wit_img 70; m_doff := 0; m_dlen := 50; m_soff := 20; m_slen := 50 |}.
(* 20 bytes with src starting 5 bytes before dst: slow path, the stores run ahead of the loads *)
Definition wit_behind : mcall :=
  {| m_bytes := wit_img 25; m_doff := 5; m_dlen := 20; m_soff := 0; m_slen := 20 |}.
Definition wit_result (de : bool) (c : mcall) : option (list N) :=
  match toy_interp_trace 7 false de 16 wit_iv [c] with
  | [MOk img _ _] => Some (firstn (Z.to_nat (m_dlen c)) (skipn (Z.to_nat (m_doff c)) img))
  | _ => None
  end.
Definition wit_expected (de : bool) (c : mcall) : list N :=
  toy_ref 7 de wit_iv (firstn (Z.to_nat (m_slen c)) (skipn (Z.to_nat (m_soff c)) (m_bytes c))).
Lemma batched_partial_overlap_refuted :
  exists out, wit_result true wit_batched = Some out /\ out <> wit_expected true wit_batched.
Proof. eexists. split; [vm_compute; reflexivity|]. vm_compute. discriminate. Qed.
Lemma slow_partial_overlap_refuted :
  forall de, exists out, wit_result de wit_behind = Some out /\ out <> wit_expected de wit_behind.
Proof. intros [|]; (eexists; split; [vm_compute; reflexivity|]; vm_compute; discriminate). Qed.
(* the witness of the batched branch does reach it: the translated pointer tests on its layout *)
Lemma wit_batched_reaches_branch :
  c10_XORKeyStream_cond_2 50 16 base_addr 50 (base_addr + 20) = Some true /\
  c10_XORKeyStream_cond_4 1 (base_addr + 16) 34 34 (base_addr + 36) = Some true.
Proof. split; vm_compute; reflexivity. Qed.
