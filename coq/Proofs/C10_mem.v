(* C10: the flat memory of Model/C10_interp.v - reads over writes *)
From Coq Require Import List Arith NArith ZArith Lia Bool.
From GoMC Require Import Base.Bytes Model.C10 Model.C10_interp.
Import ListNotations.
Local Open Scope Z_scope.

Lemma upd_same m a v : upd m a v a = v.
Proof. unfold upd. rewrite Z.eqb_refl. reflexivity. Qed.
Lemma upd_other m a v x : x <> a -> upd m a v x = m x.
Proof. intros H. unfold upd. destruct (Z.eqb_spec x a); [contradiction|reflexivity]. Qed.

Lemma wr_mem_out w : forall m A a, a < A \/ A + lenZ w <= a -> wr_mem m A w a = m a.
Proof.
  unfold lenZ. induction w as [|b w IH]; intros m A a H; [reflexivity|].
  cbn [wr_mem length] in *. rewrite IH by lia. apply upd_other. lia.
Qed.
Lemma wr_mem_in w : forall m A j, (j < length w)%nat -> wr_mem m A w (A + Z.of_nat j) = nth j w 0%N.
Proof.
  induction w as [|b w IH]; intros m A j H; [cbn in H; lia|].
  cbn [wr_mem length] in *. destruct j as [|j].
  - rewrite Z.add_0_r. rewrite wr_mem_out by lia. apply upd_same.
  - replace (A + Z.of_nat (S j)) with (A + 1 + Z.of_nat j) by lia. rewrite IH by lia. reflexivity.
Qed.
Lemma wr_mem_app x : forall m A y, wr_mem m A (x ++ y) = wr_mem (wr_mem m A x) (A + lenZ x) y.
Proof.
  unfold lenZ. induction x as [|b x IH]; intros m A y.
  - cbn [app wr_mem length]. rewrite Z.add_0_r. reflexivity.
  - cbn [app wr_mem length]. rewrite IH. f_equal. lia.
Qed.

Lemma rd_mem_length m A n : length (rd_mem m A n) = n.
Proof. unfold rd_mem. rewrite map_length, seq_length. reflexivity. Qed.
Lemma rd_mem_nth m A n j : (j < n)%nat -> nth j (rd_mem m A n) 0%N = m (A + Z.of_nat j).
Proof.
  intros H. unfold rd_mem. set (f := fun k => m (A + Z.of_nat k)).
  rewrite (nth_indep _ 0%N (f 0%nat)) by (rewrite map_length, seq_length; exact H).
  rewrite map_nth, seq_nth by exact H. reflexivity.
Qed.
Lemma list_ext (a b : list N) : length a = length b -> (forall j, (j < length a)%nat -> nth j a 0%N = nth j b 0%N) -> a = b.
Proof. intros Hl H. apply (nth_ext a b 0%N 0%N Hl H). Qed.
Lemma rd_mem_ext m m' A n : (forall j, (j < n)%nat -> m (A + Z.of_nat j) = m' (A + Z.of_nat j)) ->
  rd_mem m A n = rd_mem m' A n.
Proof.
  intros H. apply list_ext; rewrite !rd_mem_length; [reflexivity|].
  intros j Hj. rewrite !rd_mem_nth by exact Hj. apply H. exact Hj.
Qed.
Lemma rd_mem_is m A (l : list N) : (forall j, (j < length l)%nat -> m (A + Z.of_nat j) = nth j l 0%N) ->
  rd_mem m A (length l) = l.
Proof.
  intros H. apply list_ext; rewrite rd_mem_length; [reflexivity|].
  intros j Hj. rewrite rd_mem_nth by exact Hj. apply H. exact Hj.
Qed.
Lemma rd_mem_wr m A w : rd_mem (wr_mem m A w) A (length w) = w.
Proof. apply rd_mem_is. intros j Hj. apply wr_mem_in. exact Hj. Qed.
Lemma rd_mem_app m A n1 n2 : rd_mem m A (n1 + n2) = rd_mem m A n1 ++ rd_mem m (A + Z.of_nat n1) n2.
Proof.
  apply list_ext.
  - rewrite app_length, !rd_mem_length. reflexivity.
  - rewrite rd_mem_length. intros j Hj. rewrite rd_mem_nth by exact Hj.
    destruct (Nat.lt_ge_cases j n1) as [H|H].
    + rewrite app_nth1 by (rewrite rd_mem_length; exact H). rewrite rd_mem_nth by exact H. reflexivity.
    + rewrite app_nth2 by (rewrite rd_mem_length; exact H). rewrite rd_mem_length.
      rewrite rd_mem_nth by lia. f_equal. lia.
Qed.
Lemma rd_mem_S m A n : rd_mem m A (S n) = m A :: rd_mem m (A + 1) n.
Proof.
  change (S n) with (1 + n)%nat. rewrite rd_mem_app. unfold rd_mem at 1. cbn [seq map app].
  rewrite Z.add_0_r. reflexivity.
Qed.
Lemma rd_mem_snoc m A n : rd_mem m A (n + 1) = rd_mem m A n ++ [m (A + Z.of_nat n)].
Proof. rewrite rd_mem_app. unfold rd_mem at 2. cbn [seq map]. rewrite Z.add_0_r. reflexivity. Qed.
(* the 16-byte window one byte further *)
Lemma rd_mem_shift m A n : tl (rd_mem m A (S n)) ++ [m (A + Z.of_nat (S n))] = rd_mem m (A + 1) (S n).
Proof.
  rewrite rd_mem_S. cbn [tl].
  assert (E : rd_mem m (A + 1) (S n) = rd_mem m (A + 1) n ++ [m (A + 1 + Z.of_nat n)])
    by (rewrite <- (Nat.add_1_r n); apply rd_mem_snoc).
  rewrite E. f_equal. f_equal. f_equal. lia.
Qed.
Lemma nth_firstn_lt (l : list N) n j : (j < n)%nat -> nth j (firstn n l) 0%N = nth j l 0%N.
Proof.
  revert n j. induction l as [|a l IH]; intros n j H; [destruct n, j; reflexivity|].
  destruct n; [lia|]. destruct j; [reflexivity|]. cbn [firstn nth]. apply IH. lia.
Qed.
Lemma nth_skipn (l : list N) n j : nth j (skipn n l) 0%N = nth (n + j) l 0%N.
Proof.
  revert l. induction n as [|n IH]; intros l; [reflexivity|].
  destruct l; [destruct j; reflexivity|]. cbn [skipn Nat.add nth]. apply IH.
Qed.

Lemma rd_mem_upd_out m a x A n : (a < A \/ A + Z.of_nat n <= a) -> rd_mem (upd m a x) A n = rd_mem m A n.
Proof. intros H. apply rd_mem_ext. intros j Hj. apply upd_other. lia. Qed.
Lemma rd_mem_shift_upd m A x : rd_mem (upd m (A + 16) x) (A + 1) 16 = tl (rd_mem m A 16) ++ [x].
Proof.
  rewrite <- (rd_mem_shift (upd m (A + 16) x) A 15). change (Z.of_nat 16) with 16. rewrite upd_same.
  rewrite rd_mem_upd_out by (change (Z.of_nat 16) with 16; lia). reflexivity.
Qed.

Lemma app_eq_len {A} (a : list A) : forall b c d, a ++ b = c ++ d -> length a = length c -> a = c /\ b = d.
Proof.
  induction a as [|x a IH]; intros b c d H Hl; destruct c as [|y c]; try discriminate.
  - split; [reflexivity|exact H].
  - cbn in H, Hl. injection H as -> H. destruct (IH _ _ _ H ltac:(lia)) as [-> ->]. split; reflexivity.
Qed.
