(* C10: the tie between the hand-written model (Model/C10.v), the interpreter (Model/C10_interp.v) and
   net/CFB8/cfb8.go.
   1. *_skel_ok: the statement skeletons tools/gotrans/c10.go renders from the repository on every run
      (Gen/C10gen.v) have the shapes recorded in Proofs/C10_expected.v (reflexivity; a swapped statement, a
      dropped check, a changed constant or expression text breaks one of them); same for the constructors
      and the struct.  XKS / SLOW (what the interpreter and the extracted driver run) ARE the translated
      bodies with the text forgotten.
   2. The translated expressions: what every condition / bound / index definition of Gen/C10gen.v computes
      inside the range of Go's int and uintptr (the wraps disappear), in particular the two pointer tests:
      which (address offset, length) combinations take the fast path and which of those take the batched
      branch.
   Parts 3 (the ring-buffer step and the slow path ARE the interpretation of xorKeyStream) are in
   Proofs/C10_tie.v. *)
From Coq Require Import String List Arith NArith ZArith Lia Bool.
From GoMC Require Import Base.Bytes Base.GoInt Model.C10 Model.C10_syntax Gen.C10gen Model.C10_interp Proofs.C10_expected.
Import ListNotations.
Local Open Scope Z_scope.

(* ------------------------------------------------------------------ 1. the source is what was modelled *)
Lemma XORKeyStream_skel_ok : map shape C10gen.XORKeyStream = expected_XORKeyStream. Proof. reflexivity. Qed.
Lemma xorKeyStream_skel_ok : map shape C10gen.xorKeyStream = expected_xorKeyStream. Proof. reflexivity. Qed.
Lemma newCFB8_skel_ok :
  C10gen.cfb8_newCFB8 = expected_cfb8_newCFB8 /\ C10gen.cfb8_newCFB8_sig = expected_cfb8_newCFB8_sig.
Proof. split; reflexivity. Qed.
Lemma NewCFB8Encrypt_skel_ok :
  C10gen.cfb8_NewCFB8Encrypt = expected_cfb8_NewCFB8Encrypt /\ C10gen.cfb8_NewCFB8Encrypt_sig = expected_cfb8_NewCFB8Encrypt_sig.
Proof. split; reflexivity. Qed.
Lemma NewCFB8Decrypt_skel_ok :
  C10gen.cfb8_NewCFB8Decrypt = expected_cfb8_NewCFB8Decrypt /\ C10gen.cfb8_NewCFB8Decrypt_sig = expected_cfb8_NewCFB8Decrypt_sig.
Proof. split; reflexivity. Qed.
Lemma struct_skel_ok : C10gen.cfb8_struct = expected_cfb8_struct. Proof. reflexivity. Qed.
(* what is interpreted (and extracted for the driver) is the translation *)
Lemma XKS_is_translation : XKS = map notext C10gen.XORKeyStream. Proof. reflexivity. Qed.
Lemma SLOW_is_translation : SLOW = map notext C10gen.xorKeyStream. Proof. reflexivity. Qed.

(* ------------------------------------------------------------------ 2. the translated expressions *)
Definition in_int (z : Z) : Prop := - 2 ^ 63 <= z < 2 ^ 63.
Lemma ws z : in_int z -> wrap_s 64 z = z.
Proof. intros H. apply wrap_s_id; [lia|]. exact H. Qed.
Lemma wu z : 0 <= z < 2 ^ 64 -> wrap_u 64 z = z.
Proof. intros H. apply wrap_u_id; [lia|exact H]. Qed.
Lemma shl1 z : Z.shiftl z 1 = 2 * z.
Proof. rewrite Z.shiftl_mul_pow2 by lia. change (2 ^ 1) with 2. lia. Qed.
Ltac pw := change (2 ^ 63) with 9223372036854775808 in *; change (2 ^ 64) with 18446744073709551616 in *;
           change (2 ^ 62) with 4611686018427387904 in *.

(* newCFB8: the ring buffer has three times the length of the IV *)
Lemma tie_make_len n : 0 <= n < 2 ^ 61 -> c10_newCFB8_make_len n = 3 * n.
Proof. intros H. unfold c10_newCFB8_make_len. rewrite ws; [lia|]. unfold in_int. change (2 ^ 61) with 2305843009213693952 in H. pw. lia. Qed.

(* the length dispatch of XORKeyStream *)
Lemma tie_empty_check l : c10_XORKeyStream_cond l = Some (l =? 0).
Proof. reflexivity. Qed.
Lemma tie_short_check ld ls : c10_XORKeyStream_cond_1 ld ls = Some (ld <? ls).
Proof. reflexivity. Qed.

(* the first pointer test, for a source of L > 0 bytes at address S and a destination of Ld >= L bytes at
   address D (no address arithmetic wraps: everything below 2^63), block size 0 <= b < 2^62:
   fast path iff L > 2b and (dst starts at least b bytes before src, or src ends before dst starts) *)
Lemma tie_fast_test L b D Ld S :
  0 < L <= Ld -> 0 <= b < 2 ^ 62 -> 0 <= D -> 0 <= S -> D + Ld < 2 ^ 63 -> S + L < 2 ^ 63 ->
  c10_XORKeyStream_cond_2 L b D Ld S = Some ((2 * b <? L) && ((D + b <=? S) || (S + L <=? D))).
Proof.
  intros HL Hb HD HS HDl HSl. pw. unfold c10_XORKeyStream_cond_2, o_addr, o_map2, o_and, o_or, o_ret.
  rewrite shl1. rewrite (ws (2 * b)) by (unfold in_int; pw; lia).
  rewrite Z.gtb_ltb.
  replace ((0 <=? 0) && (0 <? Ld)) with true by (symmetry; apply andb_true_iff; split; [reflexivity | apply Z.ltb_lt; lia]).
  replace ((0 <=? 0) && (0 <? L)) with true by (symmetry; apply andb_true_iff; split; [reflexivity | apply Z.ltb_lt; lia]).
  rewrite !Z.add_0_r. rewrite (wu D), (wu S), (wu b), (wu L) by (pw; lia).
  rewrite (wu (D + b)), (wu (S + L)) by (pw; lia).
  destruct (2 * b <? L); [|reflexivity]. cbn [andb].
  destruct (D + b <=? S); reflexivity.
Qed.

(* the second test, evaluated after dst = dst[b:][:len(src)] and src = src[b:]: both n > 0 bytes long *)
Lemma tie_batched_test de D S n :
  0 < n -> 0 <= D -> 0 <= S -> D + n < 2 ^ 63 -> S + n < 2 ^ 63 ->
  c10_XORKeyStream_cond_4 de D n n S = Some (negb (de =? 0) && (D <=? S + n - 1) && (S <=? D + n - 1)).
Proof.
  intros Hn HD HS HDn HSn. pw. unfold c10_XORKeyStream_cond_4, o_addr, o_map2, o_and, o_or, o_ret.
  rewrite (ws (n - 1)) by (unfold in_int; pw; lia).
  replace ((0 <=? 0) && (0 <? n)) with true by (symmetry; apply andb_true_iff; split; [reflexivity | apply Z.ltb_lt; lia]).
  replace ((0 <=? n - 1) && (n - 1 <? n)) with true by (symmetry; apply andb_true_iff; split; [apply Z.leb_le | apply Z.ltb_lt]; lia).
  rewrite !Z.add_0_r. rewrite (wu D), (wu S) by (pw; lia).
  rewrite (wu (S + (n - 1))), (wu (D + (n - 1))) by (pw; lia).
  replace (S + (n - 1)) with (S + n - 1) by lia. replace (D + (n - 1)) with (D + n - 1) by lia.
  destruct (negb (de =? 0)); [|reflexivity]. cbn [andb].
  destruct (D <=? S + n - 1); reflexivity.
Qed.

(* Which calls reach the batched branch: a decrypter, a source of more than two blocks, and a destination
   that starts delta = S - D bytes BEFORE the source with  b <= delta <= L - b - 1,  i.e. a PARTIAL
   overlap.  (dst, src here are the arguments of XORKeyStream; the second test sees them advanced by b.) *)
Lemma batched_reached_iff de L b D Ld S :
  0 < L <= Ld -> 0 < b < 2 ^ 62 -> 0 <= D -> 0 <= S -> D + Ld < 2 ^ 63 -> S + L < 2 ^ 63 ->
  c10_XORKeyStream_cond_2 L b D Ld S = Some true ->
  c10_XORKeyStream_cond_4 de (D + b) (L - b) (L - b) (S + b)
  = Some (negb (de =? 0) && (b <=? S - D) && (S - D <=? L - b - 1)).
Proof.
  intros HL Hb HD HS HDl HSl H1. pw.
  assert (H2 : (2 * b <? L) && ((D + b <=? S) || (S + L <=? D)) = true)
    by (rewrite tie_fast_test in H1 by (pw; lia); congruence).
  clear H1. rename H2 into H1.
  apply andb_true_iff in H1. destruct H1 as [Hlen Hptr]. apply Z.ltb_lt in Hlen.
  rewrite tie_batched_test by (pw; lia).
  f_equal. destruct (negb (de =? 0)); [|reflexivity]. cbn [andb].
  apply orb_true_iff in Hptr. destruct Hptr as [Hp|Hp]; apply Z.leb_le in Hp.
  - replace (D + b <=? S + b + (L - b) - 1) with true by (symmetry; apply Z.leb_le; lia).
    replace (b <=? S - D) with true by (symmetry; apply Z.leb_le; lia). cbn [andb].
    destruct (Z.leb_spec (S + b) (D + b + (L - b) - 1)); destruct (Z.leb_spec (S - D) (L - b - 1)); try reflexivity; lia.
  - replace (D + b <=? S + b + (L - b) - 1) with false by (symmetry; apply Z.leb_gt; lia).
    replace (b <=? S - D) with false by (symmetry; apply Z.leb_gt; lia). reflexivity.
Qed.
(* dst == src exactly: the first test fails, the call takes the slow path whatever its length *)
Lemma exact_overlap_is_slow L b D Ld :
  0 < L <= Ld -> 0 < b < 2 ^ 62 -> 0 <= D -> D + Ld < 2 ^ 63 ->
  c10_XORKeyStream_cond_2 L b D Ld D = Some false.
Proof.
  intros HL Hb HD HDl. pw. rewrite tie_fast_test by (pw; lia). f_equal.
  replace (D + b <=? D) with false by (symmetry; apply Z.leb_gt; lia).
  replace (D + L <=? D) with false by (symmetry; apply Z.leb_gt; lia).
  apply andb_false_r.
Qed.
(* no common byte: fast path iff more than two blocks, and never the batched branch *)
Lemma disjoint_is_plain de L b D Ld S :
  0 < L <= Ld -> 0 < b < 2 ^ 62 -> 0 <= D -> 0 <= S -> D + Ld < 2 ^ 63 -> S + L < 2 ^ 63 ->
  D + Ld <= S \/ S + L <= D ->
  c10_XORKeyStream_cond_2 L b D Ld S = Some (2 * b <? L) /\
  (2 * b < L -> c10_XORKeyStream_cond_4 de (D + b) (L - b) (L - b) (S + b) = Some false).
Proof.
  intros HL Hb HD HS HDl HSl Hdis. pw. split.
  - rewrite tie_fast_test by (pw; lia). f_equal.
    destruct (Z.ltb_spec (2 * b) L) as [Hlen|Hlen]; [|reflexivity]. cbn [andb].
    apply orb_true_iff. destruct Hdis; [left|right]; apply Z.leb_le; lia.
  - intros Hlen. rewrite tie_batched_test by (pw; lia). f_equal.
    destruct (negb (de =? 0)); [|reflexivity]. cbn [andb].
    destruct Hdis.
    + replace (S + b <=? D + b + (L - b) - 1) with false by (symmetry; apply Z.leb_gt; lia). apply andb_false_r.
    + replace (D + b <=? S + b + (L - b) - 1) with false by (symmetry; apply Z.leb_gt; lia). reflexivity.
Qed.

(* the ring arithmetic of xorKeyStream *)
Lemma tie_ppb p b : 0 <= p < 2 ^ 62 -> 0 <= b < 2 ^ 62 -> c10_xorKeyStream_posPlusBlockSize p b = p + b.
Proof. intros. unfold c10_xorKeyStream_posPlusBlockSize. apply ws. unfold in_int. pw. lia. Qed.
Lemma tie_tempPos q b : 0 <= q -> 0 < b < 2 ^ 62 ->
  c10_xorKeyStream_tempPos q b = Z.land q (2 * b - 1).
Proof.
  intros Hq Hb. unfold c10_xorKeyStream_tempPos. rewrite shl1.
  rewrite (ws (2 * b)) by (unfold in_int; pw; lia). rewrite ws by (unfold in_int; pw; lia). reflexivity.
Qed.
Lemma tie_wrap_test p b : 0 <= b < 2 ^ 62 -> c10_xorKeyStream_cond p b = Some (p =? 2 * b).
Proof. intros. unfold c10_xorKeyStream_cond, o_ret. rewrite shl1, ws by (unfold in_int; pw; lia). reflexivity. Qed.
Lemma tie_next_pos p : 0 <= p < 2 ^ 62 -> c10_xorKeyStream_ivPos_1 p = p + 1 /\ c10_xorKeyStream_lo_2 p = p + 1.
Proof. intros. split; apply ws; unfold in_int; pw; lia. Qed.
Lemma tie_last b : 0 <= b < 2 ^ 62 -> c10_xorKeyStream_idx_1 b = b - 1 /\ c10_xorKeyStream_idx_3 b = b - 1.
Proof. intros. split; apply ws; unfold in_int; pw; lia. Qed.
Lemma tie_de (d : bool) :
  c10_xorKeyStream_cond_1 (if d then 1 else 0) = Some d /\ c10_xorKeyStream_cond_2 (if d then 1 else 0) = Some d /\
  c10_XORKeyStream_cond_3 (if d then 1 else 0) = Some d.
Proof. destruct d; repeat split; reflexivity. Qed.
