(* C10: the ring-buffer step of xorKeyStream preserves the register invariant (by exhaustive case analysis
   over the 33 ring positions on a symbolic 48-byte buffer) *)
From Coq Require Import List Arith NArith Lia Bool.
From GoMC Require Import Base.Bytes Model.C10.
Import ListNotations.
Local Open Scope nat_scope.

(* ---------- lists of known length ---------- *)
Lemma list_len_S {A} (l : list A) n : length l = S n -> exists x l', l = x :: l' /\ length l' = n.
Proof. destruct l as [|x l']; [discriminate|]. intros H. exists x, l'. split; [reflexivity|]. now inversion H. Qed.
Lemma list_len_0 {A} (l : list A) : length l = 0 -> l = [].
Proof. destruct l; [reflexivity|discriminate]. Qed.
Ltac explode H :=
  repeat (apply list_len_S in H; destruct H as (?x & ?l & -> & H));
  match type of H with length ?l = 0 => apply list_len_0 in H; subst l end.

Lemma blk_length l : length (blk l) = bs.
Proof.
  unfold blk. rewrite firstn_length, app_length, repeat_length. lia.
Qed.
Lemma hd_blk l : hd 0%N (blk l) = hd 0%N l.
Proof. destruct l; reflexivity. Qed.

Section P.
Variable E : list N -> list N.

(* ---------- specification lemmas ---------- *)
Lemma ref_dec_enc reg m : ref_dec E reg (ref_enc E reg m) = m.
Proof.
  revert reg; induction m as [|p m IH]; intros reg; [reflexivity|].
  cbn [ref_enc ref_dec]. rewrite IH. f_equal.
  rewrite N.lxor_assoc, N.lxor_nilpotent, N.lxor_0_r. reflexivity.
Qed.

(* the invariant: 48-byte ring, position within it, register window = reg *)
Definition Inv (st : state) (reg : list N) : Prop :=
  length (iv st) = 3 * bs /\ pos st <= bs + bs /\ window st = reg.

Lemma step_ok de st v reg : Inv st reg ->
  exists st', step E de st v = Some (st', N.lxor v (ks E reg))
           /\ Inv st' (shift reg (if de then v else N.lxor v (ks E reg))).
Proof.
  destruct st as [ivb p]. unfold Inv. cbn [iv pos]. intros (Hl & Hp & Hw).
  change (3 * bs) with 48 in Hl. explode Hl.
  unfold ks. rewrite <- hd_blk.
  do 33 (destruct p as [|p];
    [ cbv [window iv pos firstn skipn bs] in Hw; subst reg;
      unfold step; cbn [iv pos]; cbv -[N.lxor blk];
      match goal with |- context [blk ?x] => pose proof (blk_length x) as Hb; set (b := blk x) in * end;
      clearbody b; change bs with 16 in Hb; explode Hb;
      destruct de; (eexists; split; [cbv -[N.lxor]; reflexivity | cbv -[N.lxor]; repeat split; lia])
    | ]).
  cbv [bs] in Hp. lia.
Qed.
End P.
