(* C10: the headline over the interpretation of the TRANSLATED code.  A history of XORKeyStream calls on one
   CFB8 value, each call with its own memory image and its own placement of dst and src (dst == src
   exactly, or no common byte, either order), run by the interpreter of Model/C10_interp.v on the
   skeletons of Gen/C10gen.v, produces exactly what the byte-at-a-time specification says
   (Model/C10.v spec_outs: the reference image of the source continued from the register left by the
   previous calls, followed by the untouched rest of dst), never panics, and leaves every byte outside dst
   alone.  Composition of interp_xks_is_model (Proofs/C10_tie_xks.v) with xks_ok (Proofs/C10.v). *)
From Coq Require Import String List Arith NArith ZArith Lia Bool.
From GoMC Require Import Base.Bytes Base.GoInt Model.C10 Model.C10_syntax Gen.C10gen Model.C10_interp.
From GoMC Require Import Proofs.C10_step Proofs.C10 Proofs.C10_skel Proofs.C10_tie Proofs.C10_mem Proofs.C10_ext
                         Proofs.C10_tie_slow Proofs.C10_tie_fast Proofs.C10_tie_xks.
Import ListNotations.
Local Open Scope Z_scope.

(* a call of the model together with where it lives: the memory before the call, the addresses of dst[0] and
   src[0], the capacities of the two slices *)
Record lcall := { lc_call : call; lc_mem : Z -> N; lc_D : Z; lc_S : Z; lc_capd : Z; lc_caps : Z }.
Definition lc_src (x : lcall) := c_src (lc_call x).
Definition lc_dst (x : lcall) := dst_of (lc_call x).
Definition laid_out (x : lcall) : Prop :=
  0 <= lc_D x /\ 0 <= lc_S x /\
  lc_D x + lenZ (lc_dst x) < 2 ^ 61 /\ lc_S x + lenZ (lc_src x) < 2 ^ 61 /\
  lenZ (lc_dst x) <= lc_capd x /\ lenZ (lc_src x) <= lc_caps x /\
  rd_mem (lc_mem x) (lc_S x) (length (lc_src x)) = lc_src x /\
  rd_mem (lc_mem x) (lc_D x) (length (lc_dst x)) = lc_dst x /\
  match c_alias (lc_call x) with
  | InPlace => lc_S x = lc_D x
  | Disjoint => lc_D x + lenZ (lc_dst x) <= lc_S x \/ lc_S x + lenZ (lc_src x) <= lc_D x
  end.

(* the interpreted history: per call the final contents of dst and whether every byte outside dst is
   unchanged is stated separately (stray_free) *)
Fixpoint itrace (E : list N -> list N) (fuel : nat) (s : st) (l : list lcall) : list (option (list N)) :=
  match l with
  | [] => []
  | x :: t =>
      match interp_xks E false fuel (mkslc Arena (lc_D x) (lenZ (lc_dst x)) (lc_capd x))
                       (mkslc Arena (lc_S x) (lenZ (lc_src x)) (lc_caps x)) (set_mem s (lc_mem x)) with
      | ONormal s1 => Some (rd_mem (x_mem s1) (lc_D x) (length (lc_dst x))) :: itrace E fuel s1 t
      | _ => [None]
      end
  end.

Section S.
Variable E : list N -> list N.
Variable fuel : nat.

Lemma call_translated de (x : lcall) (st0 : state) reg lc :
  Inv st0 reg -> laid_out x -> call_ok (lc_call x) ->
  exists st1,
    interp_xks E false fuel (mkslc Arena (lc_D x) (lenZ (lc_dst x)) (lc_capd x))
               (mkslc Arena (lc_S x) (lenZ (lc_src x)) (lc_caps x))
               (mkst (lc_mem x) (iv st0) (Z.of_nat (pos st0)) 16 de lc)
    = ONormal (mkst (wr_mem (lc_mem x) (lc_D x) (cfb E de reg (lc_src x))) (iv st1) (Z.of_nat (pos st1)) 16 de lc)
    /\ Inv st1 (reg_after reg (ctx E de reg (lc_src x))).
Proof.
  intros HI (HD & HS & HDl & HSl & Hcd & Hcs & Hsrc & Hdst & Hal) Hok.
  destruct x as [[al src dst0] m D S capd caps]. unfold lc_src, lc_dst, dst_of in *. cbn [lc_call lc_mem lc_D lc_S lc_capd lc_caps c_alias c_src c_dst] in *.
  fold (dst_for al src dst0) in *. unfold call_ok, dst_of in Hok. cbn [c_alias c_src c_dst] in Hok. fold (dst_for al src dst0) in Hok.
  destruct (xks_ok E de st0 al src dst0 reg HI Hok) as (st1 & Hx & HI1).
  exists st1. split; [|exact HI1].
  change (2 ^ 61) with 2305843009213693952 in *.
  assert (Hpos : Z.of_nat (pos st0) + lenZ src < 2 ^ 62).
  { destruct HI as (_ & Hp & _). unfold bs in Hp. change (2 ^ 62) with 4611686018427387904 in *. unfold lenZ in *. lia. }
  assert (HDl' : D + lenZ (dst_for al src dst0) < 2 ^ 62) by (change (2 ^ 62) with 4611686018427387904; lia).
  assert (HSl' : S + lenZ src < 2 ^ 62) by (change (2 ^ 62) with 4611686018427387904; lia).
  pose proof (interp_xks_is_model E fuel de m D S capd caps src (dst_for al src dst0) st0 lc
                HD HS HDl' HSl' Hcd Hcs Hpos Hsrc al dst0 eq_refl) as HM.
  unfold sd, sa, s_in in HM. rewrite HM.
  - rewrite Hx. rewrite <- (cfb_length E de src reg) at 1. rewrite firstn_app_exact. reflexivity.
  - destruct al; [left|right]; (split; [reflexivity|exact Hal]).
Qed.

Lemma itrace_ok de : forall (l : list lcall) (st0 : state) reg lc m0,
  Inv st0 reg -> Forall laid_out l -> Forall call_ok (map lc_call l) ->
  itrace E fuel (mkst m0 (iv st0) (Z.of_nat (pos st0)) 16 de lc) l
  = map Some (spec_outs E de reg (map lc_call l)).
Proof.
  induction l as [|x t IH]; intros st0 reg lc m0 HI Hl Hok; [reflexivity|].
  inversion Hl as [|x' t' Hx Ht]; subst. cbn [map] in Hok. inversion Hok as [|c' cs' Hc Hcs]; subst.
  cbn [itrace map spec_outs]. unfold set_mem. cbn [x_iv x_pos x_bs x_de x_loc].
  destruct (call_translated de x st0 reg lc HI Hx Hc) as (st1 & HR & HI1).
  rewrite HR. cbn [x_mem].
  rewrite (IH st1 _ lc _ HI1 Ht Hcs). f_equal.
  - f_equal. fold (lc_src x). fold (lc_dst x).
    destruct Hx as (_ & _ & _ & _ & _ & _ & _ & Hdst & _).
    assert (Hlen : (length (lc_src x) <= length (lc_dst x))%nat) by exact Hc.
    (* dst after the call = image ++ untouched tail *)
    apply list_ext.
    + rewrite rd_mem_length, app_length, skipn_length, cfb_length. lia.
    + rewrite rd_mem_length. intros j Hj. rewrite rd_mem_nth by exact Hj.
      destruct (Nat.lt_ge_cases j (length (lc_src x))) as [H1|H1].
      * rewrite app_nth1 by (rewrite cfb_length; exact H1).
        apply wr_mem_in. rewrite cfb_length. exact H1.
      * rewrite app_nth2 by (rewrite cfb_length; exact H1). rewrite cfb_length.
        rewrite wr_mem_out by (unfold lenZ; rewrite cfb_length; lia).
        rewrite nth_skipn. replace (length (lc_src x) + (j - length (lc_src x)))%nat with j by lia.
        rewrite <- (rd_mem_nth (lc_mem x) (lc_D x) (length (lc_dst x)) j Hj). rewrite Hdst. reflexivity.
Qed.

(* every byte outside dst[0..len src) keeps its value: one call *)
Lemma call_translated_frame de (x : lcall) (st0 : state) reg lc a :
  Inv st0 reg -> laid_out x -> call_ok (lc_call x) ->
  (a < lc_D x \/ lc_D x + lenZ (lc_src x) <= a) ->
  match interp_xks E false fuel (mkslc Arena (lc_D x) (lenZ (lc_dst x)) (lc_capd x))
               (mkslc Arena (lc_S x) (lenZ (lc_src x)) (lc_caps x))
               (mkst (lc_mem x) (iv st0) (Z.of_nat (pos st0)) 16 de lc) with
  | ONormal s1 => x_mem s1 a = lc_mem x a
  | _ => False
  end.
Proof.
  intros HI Hx Hc Ha. destruct (call_translated de x st0 reg lc HI Hx Hc) as (st1 & HR & _).
  rewrite HR. cbn [x_mem]. apply wr_mem_out. unfold lenZ in *. rewrite cfb_length. exact Ha.
Qed.

(* the headline *)
Theorem stream_translated de iv0 (l : list lcall) lc m0 :
  length iv0 = bs -> Forall laid_out l -> Forall call_ok (map lc_call l) ->
  interp_new 16 de iv0 m0 = Some (mkst m0 (iv (new_state iv0)) 0 16 de (locals nil_slc nil_slc)) /\
  itrace E fuel (mkst m0 (iv (new_state iv0)) 0 16 de lc) l = map Some (spec_outs E de iv0 (map lc_call l)) /\
  written (map lc_call l) (spec_outs E de iv0 (map lc_call l)) = cfb E de iv0 (concat (map lc_src l)).
Proof.
  intros Hiv Hl Hok. split; [|split].
  - unfold interp_new, lenZ, new_state. rewrite Hiv. change (c10_newCFB8_make_len (Z.of_nat bs)) with 48.
    change (48 <? 0) with false. cbv iota. change (Z.to_nat 48) with 48%nat. unfold copy_to.
    rewrite repeat_length, Hiv. change (Nat.min 48 bs) with 16%nat. change (2 * bs)%nat with 32%nat.
    change (skipn 16 (repeat 0%N 48)) with (repeat 0%N 32). cbn [iv].
    replace (firstn 16 iv0) with iv0 by (symmetry; apply firstn_all2; rewrite Hiv; unfold bs; lia).
    reflexivity.
  - apply (itrace_ok de l (new_state iv0) iv0 lc m0 (Inv_new E iv0 Hiv) Hl Hok).
  - rewrite (spec_outs_written E de (map lc_call l) iv0 Hok). rewrite map_map. reflexivity.
Qed.
End S.
