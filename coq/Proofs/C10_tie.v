(* C10: interpretation lemmas.  The ring-buffer step of the hand model (Model/C10.v `step`, for any block
   size Model/C10_interp.v `stepn`) IS the interpretation of the translated body of the range loop of
   xorKeyStream, for every state (ring position, contents and length of the iv buffer), every source byte,
   both directions; the slow path `slow` / `slown` IS the interpretation of xorKeyStream, for a
   destination that starts where the source starts (in place) or shares no byte with it. *)
From Coq Require Import String List Arith NArith ZArith Lia Bool.
From GoMC Require Import Base.Bytes Base.GoInt Model.C10 Model.C10_syntax Gen.C10gen Model.C10_interp Proofs.C10_skel.
Import ListNotations.

(* ---------- the bounds-checked list operations, as arithmetic ---------- *)
Lemma slice_spec (l : list N) p n : (0 < n)%nat ->
  slice l p n = if (p + n <=? length l)%nat then Some (firstn n (skipn p l)) else None.
Proof.
  intros Hn. unfold slice. rewrite firstn_length, skipn_length.
  destruct (Nat.leb_spec (p + n) (length l)); destruct (Nat.eqb_spec (Nat.min n (length l - p)) n); try reflexivity; lia.
Qed.
Lemma write_at_spec (l : list N) off w :
  write_at l off w = if (off + length w <=? length l)%nat
                     then Some (firstn off l ++ w ++ skipn (length w) (skipn off l)) else None.
Proof.
  unfold write_at. rewrite !firstn_length, skipn_length.
  destruct (Nat.leb_spec (off + length w) (length l)).
  - replace (Nat.min off (length l) =? off)%nat with true by (symmetry; apply Nat.eqb_eq; lia).
    replace (Nat.min (length w) (length l - off) =? length w)%nat with true by (symmetry; apply Nat.eqb_eq; lia).
    reflexivity.
  - destruct (Nat.eqb_spec (Nat.min off (length l)) off); [|reflexivity].
    destruct (Nat.eqb_spec (Nat.min (length w) (length l - off)) (length w)); [lia|reflexivity].
Qed.
Lemma write_at_length (l : list N) off w l' : write_at l off w = Some l' -> length l' = length l.
Proof.
  rewrite write_at_spec. destruct (Nat.leb_spec (off + length w) (length l)); [|discriminate].
  intros [= <-]. rewrite !app_length, firstn_length, !skipn_length. lia.
Qed.
Lemma blkn_length n l : length (blkn n l) = n.
Proof. unfold blkn. rewrite firstn_length, app_length, repeat_length. lia. Qed.
Lemma index_none (l : list N) k : (length l <= k)%nat -> index l k = None.
Proof. intros H. unfold index. apply nth_error_None. exact H. Qed.

Lemma skipn_all_firstn (l : list N) q : firstn (length l - q) (skipn q l) = skipn q l.
Proof. rewrite <- (skipn_length q l). apply firstn_all. Qed.

Local Open Scope Z_scope.
(* ---------- what the statement kinds do on cf.iv, in terms of the list operations of Model/C10.v ---------- *)
Section Kinds.
Variable E : list N -> list N.
Variable fuel : nat.
Variable call : callee -> slc -> slc -> st -> outcome.
Notation ex := (exec E false fuel call).

(* cf.c.Encrypt(cf.iv[e1:], cf.iv[e2:]) *)
Lemma exec_encrypt_iv s t1 e1 t2 e2 (tp p n : nat) :
  e1 (look s) = Z.of_nat tp -> e2 (look s) = Z.of_nat p -> x_bs s = Z.of_nat n -> (0 < n)%nat ->
  ex (CEncrypt (SE Scfiv (Some (t1, e1)) None) (SE Scfiv (Some (t2, e2)) None)) s
  = match slice (x_iv s) p n with
    | None => OPanic
    | Some reg => match write_at (x_iv s) tp (blkn n (E reg)) with
                  | None => OPanic
                  | Some iv1 => ONormal (set_iv s iv1)
                  end
    end.
Proof.
  intros H1 H2 Hb Hn.
  cbn [exec eval_sexp bound get cfiv_slc sl_sp sl_off sl_len sl_cap fst snd].
  rewrite H1, H2, Hb. unfold lenZ. rewrite slice_spec by exact Hn.
  replace (Z.of_nat (length (x_iv s)) <=? Z.of_nat (length (x_iv s))) with true by (symmetry; apply Z.leb_le; lia).
  rewrite !andb_true_r.
  destruct (Z.leb_spec 0 (Z.of_nat tp)) as [_|C]; [|lia]. destruct (Z.leb_spec 0 (Z.of_nat p)) as [_|C]; [|lia].
  cbn [andb].
  destruct (Z.leb_spec (Z.of_nat tp) (Z.of_nat (length (x_iv s)))) as [Ht|Ht].
  - destruct (Z.leb_spec (Z.of_nat p) (Z.of_nat (length (x_iv s)))) as [Hp|Hp].
    + cbn [sl_len sl_off sl_sp andb]. unfold rd, wr. cbn [sl_sp sl_off].
      destruct (Z.ltb_spec (Z.of_nat (length (x_iv s)) - Z.of_nat p) (Z.of_nat n)) as [C1|C1].
      * cbn [orb]. destruct (Nat.leb_spec (p + n) (length (x_iv s))); [lia|reflexivity].
      * cbn [orb]. destruct (Nat.leb_spec (p + n) (length (x_iv s))) as [_|C]; [|lia].
        rewrite write_at_spec, blkn_length.
        destruct (Z.ltb_spec (Z.of_nat (length (x_iv s)) - Z.of_nat tp) (Z.of_nat n)) as [C2|C2].
        -- destruct (Nat.leb_spec (tp + n) (length (x_iv s))); [lia|reflexivity].
        -- destruct (Nat.leb_spec (tp + n) (length (x_iv s))) as [_|C]; [|lia].
           replace (0 + Z.of_nat p <? 0) with false by (symmetry; apply Z.ltb_ge; lia).
           replace (0 + Z.of_nat tp <? 0) with false by (symmetry; apply Z.ltb_ge; lia).
           rewrite Nat2Z.id. replace (Z.to_nat (0 + Z.of_nat p)) with p by lia.
           replace (Z.to_nat (0 + Z.of_nat tp)) with tp by lia.
           rewrite slice_spec by exact Hn.
           destruct (Nat.leb_spec (p + n) (length (x_iv s))) as [_|C]; [|lia].
           rewrite write_at_spec, blkn_length.
           destruct (Nat.leb_spec (tp + n) (length (x_iv s))) as [_|C]; [|lia]. reflexivity.
    + destruct (Nat.leb_spec (p + n) (length (x_iv s))); [lia|reflexivity].
  - destruct (Nat.leb_spec (p + n) (length (x_iv s))); [|reflexivity].
    rewrite write_at_spec, blkn_length. destruct (Nat.leb_spec (tp + n) (length (x_iv s))); [lia|reflexivity].
Qed.

(* a byte of cf.iv *)
Lemma rd1_iv s (j : nat) : rd1 s (cfiv_slc s) (Z.of_nat j) = index (x_iv s) j.
Proof.
  unfold rd1, cfiv_slc, lenZ. cbn [sl_len sl_sp sl_off].
  destruct (Z.leb_spec 0 (Z.of_nat j)) as [_|C]; [|lia]. cbn [andb].
  destruct (Z.ltb_spec (Z.of_nat j) (Z.of_nat (length (x_iv s)))).
  - replace (Z.to_nat (0 + Z.of_nat j)) with j by lia. reflexivity.
  - symmetry. apply index_none. lia.
Qed.
(* val ^= cf.iv[e] *)
Lemma exec_xorval_iv s t e (j : nat) : e (look s) = Z.of_nat j ->
  ex (CXorVal (BIdx Scfiv t e)) s
  = match index (x_iv s) j with
    | None => OPanic
    | Some y => ONormal (set_loc s (lset_val (x_loc s) (N.lxor (l_val (x_loc s)) y)))
    end.
Proof. intros H. cbn [exec eval_bexp get]. rewrite H, rd1_iv. reflexivity. Qed.

(* copy(cf.iv, cf.iv[e:]) *)
Lemma exec_copy_iv s t e (q : nat) : e (look s) = Z.of_nat q ->
  ex (CCopy (SE Scfiv None None) (SE Scfiv (Some (t, e)) None)) s
  = if (length (x_iv s) <? q)%nat then OPanic
    else ONormal (set_iv s (copy_to (x_iv s) (skipn q (x_iv s)))).
Proof.
  intros H. cbn [exec eval_sexp bound get cfiv_slc sl_sp sl_off sl_len sl_cap fst snd].
  rewrite H. unfold lenZ.
  replace (Z.of_nat (length (x_iv s)) <=? Z.of_nat (length (x_iv s))) with true by (symmetry; apply Z.leb_le; lia).
  replace (0 <=? Z.of_nat (length (x_iv s))) with true by (symmetry; apply Z.leb_le; lia).
  destruct (Z.leb_spec 0 (Z.of_nat q)) as [_|C]; [|lia]. cbn [andb].
  destruct (Z.leb_spec (Z.of_nat q) (Z.of_nat (length (x_iv s)))) as [Hq|Hq];
    destruct (Nat.ltb_spec (length (x_iv s)) q) as [Hq'|Hq']; try lia; [|reflexivity].
  change (0 <=? 0) with true. cbn [andb]. cbv beta iota.
  cbn [sl_len sl_sp sl_off]. unfold rd, wr. cbn [sl_sp sl_off].
  replace (0 + Z.of_nat q <? 0) with false by (symmetry; apply Z.ltb_ge; lia).
  change (0 + 0 <? 0) with false. cbv iota.
  replace (Z.to_nat (0 + Z.of_nat q)) with q by lia.
  replace (Z.to_nat (Z.min (Z.of_nat (length (x_iv s)) - 0) (Z.of_nat (length (x_iv s)) - Z.of_nat q)))
    with (length (x_iv s) - q)%nat by lia.
  unfold slice. rewrite skipn_all_firstn, skipn_length, Nat.eqb_refl.
  change (Z.to_nat (0 + 0)) with 0%nat.
  rewrite write_at_spec, skipn_length. cbn [Nat.add firstn skipn app].
  destruct (Nat.leb_spec (length (x_iv s) - q) (length (x_iv s))) as [_|C]; [|lia].
  unfold copy_to. rewrite skipn_length. replace (Nat.min (length (x_iv s)) (length (x_iv s) - q)) with (length (x_iv s) - q)%nat by lia.
  rewrite skipn_all_firstn. reflexivity.
Qed.

(* cf.iv[e] = b *)
Lemma exec_store_iv s t e b (j : nat) y : e (look s) = Z.of_nat j -> eval_bexp s b = Some y ->
  ex (CStore Scfiv t e b) s
  = match write_at (x_iv s) j [y] with
    | None => OPanic
    | Some iv' => ONormal (set_iv s iv')
    end.
Proof.
  intros H Hb. cbn [exec get]. rewrite Hb, H. unfold cfiv_slc, lenZ. cbn [sl_len sl_sp sl_off].
  destruct (Z.leb_spec 0 (Z.of_nat j)) as [_|C]; [|lia]. cbn [andb].
  rewrite write_at_spec. cbn [length].
  destruct (Z.ltb_spec (Z.of_nat j) (Z.of_nat (length (x_iv s)))); destruct (Nat.leb_spec (j + 1) (length (x_iv s))); try lia; [|reflexivity].
  unfold wr. cbn [sl_sp sl_off]. replace (0 + Z.of_nat j <? 0) with false by (symmetry; apply Z.ltb_ge; lia).
  replace (Z.to_nat (0 + Z.of_nat j)) with j by lia.
  rewrite write_at_spec. cbn [length]. destruct (Nat.leb_spec (j + 1) (length (x_iv s))) as [_|C]; [|lia]. reflexivity.
Qed.

Lemma exec_let s v t e : ex (CLet v t e) s = ONormal (set_int s v (e (look s))).
Proof. reflexivity. Qed.
(* x[e] = b for a slice x of the flat memory *)
Lemma exec_store_arena s v t e b y k : e (look s) = k -> eval_bexp s b = Some y ->
  sl_sp (get s v) = Arena -> 0 <= k < sl_len (get s v) ->
  ex (CStore v t e b) s = ONormal (set_mem s (upd (x_mem s) (sl_off (get s v) + k) y)).
Proof.
  intros H Hb Hsp Hk. cbn [exec]. rewrite Hb, H.
  destruct (Z.leb_spec 0 k) as [_|C]; [|lia]. destruct (Z.ltb_spec k (sl_len (get s v))) as [_|C]; [|lia].
  cbn [andb]. unfold wr. cbn [sl_sp sl_off]. rewrite Hsp. reflexivity.
Qed.
End Kinds.

(* ---------- the body of the range loop of xorKeyStream, as translated ---------- *)
Definition slow_body : list run_stmt :=
  match SLOW with [_; CRange _ _ body] => body | _ => [] end.

(* the state the loop body runs in: iteration k, val = src[k] = v *)
Definition body_state (m : Z -> N) (ivl : list N) (p n : nat) (de : bool) (k : Z) (v : N) (d a : slc)
                      (ppb tp : Z) (ct ivs : slc) : st :=
  mkst m ivl (Z.of_nat p) (Z.of_nat n) de (mkloc k ppb tp v d a ct ivs).

Section Step.
Variable E : list N -> list N.
Variable fuel : nat.
Variable call : callee -> slc -> slc -> st -> outcome.


Lemma run_block_cons {S} (f : S -> st -> outcome) x t s :
  run_block f (x :: t) s = match f x s with ONormal s' => run_block f t s' | o => o end.
Proof. reflexivity. Qed.

Ltac simp_st :=
  cbv beta iota delta [set_int set_slice set_loc set_pos set_iv set_mem look get cfiv_slc
       lset_i lset_ppb lset_tp lset_val lset_dst lset_src lset_ct lset_ivs fst snd];
  cbn [x_mem x_iv x_pos x_bs x_de x_loc l_i l_ppb l_tp l_val l_dst l_src l_ct l_ivs sl_sp sl_off sl_len sl_cap].

Lemma land_nat (a b : nat) : Z.land (Z.of_nat a) (Z.of_nat b) = Z.of_nat (N.to_nat (N.land (N.of_nat a) (N.of_nat b))).
Proof. rewrite N_nat_Z, <- zn_land, !nat_N_Z. reflexivity. Qed.

Lemma interp_body_is_stepn m ivl p n de k v d a ppb0 tp0 ct ivs :
  (0 < n)%nat -> Z.of_nat p < 2 ^ 62 -> Z.of_nat n < 2 ^ 62 ->
  sl_sp d = Arena -> sl_sp a = Arena -> 0 <= k < sl_len a -> 0 <= k < sl_len d -> m (sl_off a + k) = v ->
  run_block (exec E false fuel call) slow_body (body_state m ivl p n de k v d a ppb0 tp0 ct ivs)
  = match stepn E n de {| iv := ivl; pos := p |} v with
    | None => OPanic
    | Some (s', o) =>
        ONormal (mkst (upd m (sl_off d + k) o) (iv s') (Z.of_nat (pos s')) (Z.of_nat n) de
                      (mkloc k (Z.of_nat (p + n)) (Z.land (Z.of_nat (p + n)) (2 * Z.of_nat n - 1)) o d a ct ivs))
    end.
Proof.
  intros Hn Hp Hnn Hd Ha Hka Hkd Hv.
  unfold slow_body, SLOW, body_state, stepn. cbn [iv pos].
  (* posPlusBlockSize := cf.ivPos + cf.blockSize; tempPos := posPlusBlockSize & (cf.blockSize<<1 - 1) *)
  rewrite run_block_cons. cbn [exec]. simp_st. cbv iota.
  rewrite run_block_cons. cbn [exec]. simp_st. cbv iota.
  rewrite tie_ppb by lia. rewrite tie_tempPos by lia.
  rewrite <- Nat2Z.inj_add.
  assert (Hmask : 2 * Z.of_nat n - 1 = Z.of_nat (n + n - 1)) by lia.
  rewrite Hmask. rewrite land_nat.
  set (tp := N.to_nat (N.land (N.of_nat (p + n)) (N.of_nat (n + n - 1)))).
  (* cf.c.Encrypt(cf.iv[tempPos:], cf.iv[cf.ivPos:]) *)
  rewrite run_block_cons.
  rewrite (exec_encrypt_iv E fuel call _ _ _ _ _ tp p n) by (try reflexivity; exact Hn).
  simp_st.
  destruct (slice ivl p n) as [reg|]; [|reflexivity].
  destruct (write_at ivl tp (blkn n (E reg))) as [iv1|] eqn:Ew; [|reflexivity].
  simp_st.
  (* val ^= cf.iv[tempPos] *)
  rewrite run_block_cons. rewrite (exec_xorval_iv E fuel call _ _ _ tp) by reflexivity. simp_st.
  destruct (index iv1 tp) as [kb|]; [|reflexivity].
  simp_st.
  (* if cf.ivPos == cf.blockSize<<1 *)
  rewrite run_block_cons. cbn [exec]. simp_st. rewrite tie_wrap_test by lia.
  replace (Z.of_nat p =? 2 * Z.of_nat n) with (p =? n + n)%nat
    by (destruct (Nat.eqb_spec p (n + n)); symmetry; [apply Z.eqb_eq | apply Z.eqb_neq]; lia).
  assert (Hsrc : forall (s0 : st) (t : unit), l_src (x_loc s0) = a -> l_i (x_loc s0) = k -> x_mem s0 = m ->
                 eval_bexp s0 (BIdx Ssrc t (fun v0 : env => c10_xorKeyStream_idx_2 (v0 Vi))) = Some v /\ eval_bexp s0 (BIdx Ssrc t (fun v0 : env => c10_xorKeyStream_idx_5 (v0 Vi))) = Some v).
  { intros s0 t H1 H2 H3. unfold c10_xorKeyStream_idx_2, c10_xorKeyStream_idx_5.
    cbn [eval_bexp get look]. rewrite H1, H2. unfold rd1.
    destruct (Z.leb_spec 0 k) as [_|C]; [|lia]. destruct (Z.ltb_spec k (sl_len a)) as [_|C]; [|lia].
    cbn [andb]. rewrite Ha, H3, Hv. split; reflexivity. }
  assert (Hde : forall b : bool, c10_xorKeyStream_cond_1 (if b then 1 else 0) = Some b /\ c10_xorKeyStream_cond_2 (if b then 1 else 0) = Some b)
    by (intros [|]; split; reflexivity).
  destruct (p =? n + n)%nat eqn:Ewrap; cbv iota.
  - (* bound reached *)
    rewrite run_block_cons.
    rewrite (exec_copy_iv E fuel call _ _ _ (p + 1)) by (simp_st; rewrite (proj2 (tie_next_pos (Z.of_nat p) ltac:(lia))); rewrite Nat2Z.inj_add; reflexivity).
    simp_st.
    destruct (Datatypes.length iv1 <? p + 1)%nat; [reflexivity|]. cbv iota.
    rewrite run_block_cons. cbn [exec]. simp_st. rewrite (proj1 (Hde de)).
    destruct de; cbv iota.
    + rewrite run_block_cons.
      rewrite (exec_store_iv E fuel call _ _ _ _ (n - 1) v)
        by (simp_st; first [rewrite (proj1 (tie_last (Z.of_nat n) ltac:(lia))); lia | apply (Hsrc _ tt); reflexivity]).
      simp_st. destruct (write_at (copy_to iv1 (skipn (p + 1) iv1)) (n - 1) [v]) as [iv3|]; [|reflexivity].
      cbv iota. cbn [run_block]. cbv iota.
      rewrite exec_let. simp_st. cbv iota.
      rewrite (exec_store_arena E fuel call _ Sdst _ _ _ (N.lxor v kb) k) by (simp_st; try reflexivity; assumption).
      simp_st. reflexivity.
    + rewrite run_block_cons.
      rewrite (exec_store_iv E fuel call _ _ _ _ (n - 1) (N.lxor v kb))
        by (simp_st; first [rewrite (proj2 (tie_last (Z.of_nat n) ltac:(lia))); lia | reflexivity]).
      simp_st. destruct (write_at (copy_to iv1 (skipn (p + 1) iv1)) (n - 1) [N.lxor v kb]) as [iv3|]; [|reflexivity].
      cbv iota. cbn [run_block]. cbv iota.
      rewrite exec_let. simp_st. cbv iota.
      rewrite (exec_store_arena E fuel call _ Sdst _ _ _ (N.lxor v kb) k) by (simp_st; try reflexivity; assumption).
      simp_st. reflexivity.
  - rewrite run_block_cons. cbn [exec]. simp_st. rewrite (proj2 (Hde de)).
    destruct de; cbv iota.
    + rewrite run_block_cons.
      rewrite (exec_store_iv E fuel call _ _ _ _ (p + n) v) by (simp_st; first [reflexivity | apply (Hsrc _ tt); reflexivity]).
      simp_st. destruct (write_at iv1 (p + n) [v]) as [iv2|]; [|reflexivity].
      cbv iota. cbn [run_block]. cbv iota.
      rewrite exec_let. simp_st. cbv iota.
      rewrite (exec_store_arena E fuel call _ Sdst _ _ _ (N.lxor v kb) k) by (simp_st; try reflexivity; assumption).
      simp_st. rewrite (proj1 (tie_next_pos (Z.of_nat p) ltac:(lia))). replace (Z.of_nat p + 1) with (Z.of_nat (p + 1)) by lia. reflexivity.
    + rewrite run_block_cons.
      rewrite (exec_store_iv E fuel call _ _ _ _ (p + n) (N.lxor v kb)) by (simp_st; reflexivity).
      simp_st. destruct (write_at iv1 (p + n) [N.lxor v kb]) as [iv2|]; [|reflexivity].
      cbv iota. cbn [run_block]. cbv iota.
      rewrite exec_let. simp_st. cbv iota.
      rewrite (exec_store_arena E fuel call _ Sdst _ _ _ (N.lxor v kb) k) by (simp_st; try reflexivity; assumption).
      simp_st. rewrite (proj1 (tie_next_pos (Z.of_nat p) ltac:(lia))). replace (Z.of_nat p + 1) with (Z.of_nat (p + 1)) by lia. reflexivity.
Qed.
End Step.
