(* C10: the plain loop of the fast path of XORKeyStream as translated (Encrypt(iv, ciphertext[i:]);
   dst[i] = val ^ iv[0]), interpreted on the flat memory, in closed form: with the ciphertext region at C
   (src when decrypting, dst when encrypting) the register is the 16-byte window of memory at C+i, which
   is the invariant of the hand proofs fast_dec_ok / fast_enc_ok (Proofs/C10.v). *)
From Coq Require Import String List Arith NArith ZArith Lia Bool.
From GoMC Require Import Base.Bytes Base.GoInt Model.C10 Model.C10_syntax Gen.C10gen Model.C10_interp.
From GoMC Require Import Proofs.C10_step Proofs.C10 Proofs.C10_skel Proofs.C10_tie Proofs.C10_mem.
Import ListNotations.
Local Open Scope Z_scope.

Ltac simp_st :=
  cbv beta iota delta [set_int set_slice set_loc set_pos set_iv set_mem look get cfiv_slc
       lset_i lset_ppb lset_tp lset_val lset_dst lset_src lset_ct lset_ivs fst snd];
  cbn [x_mem x_iv x_pos x_bs x_de x_loc l_i l_ppb l_tp l_val l_dst l_src l_ct l_ivs sl_sp sl_off sl_len sl_cap].

Definition fast_block : list run_stmt := match XKS with [_; _; CIf _ _ th _; _] => th | _ => [] end.
Definition fast_else : list run_stmt :=
  match fast_block with [_; _; _; _; _; _; _; _; _; _; CIf _ _ _ el; _; _; _] => el | _ => [] end.
Definition fast_body : list run_stmt := match fast_else with [_; CRange _ _ b; _] => b | _ => [] end.

Lemma fast_body_eq : fast_body =
  [CEncrypt (SE Siv None None) (SE Sct (Some (tt, fun v : env => c10_XORKeyStream_lo_5 (v Vi))) None);
   CStore Sdst tt (fun v : env => c10_XORKeyStream_idx_5 (v Vi))
     (BXor BVal (BIdx Siv tt (fun _ : env => c10_XORKeyStream_idx_6)))].
Proof. reflexivity. Qed.

Section Fast.
Variable E : list N -> list N.
Variable fuel : nat.
Variable call : callee -> slc -> slc -> st -> outcome.
Variable de : bool.
Variables D' S' C n L capd caps capc : Z.   (* dst' = D'[0..n), src' = S'[0..n), ciphertext = C[0..L) *)
Variable livn : nat.                         (* len(cf.iv) *)
Hypothesis HL : n + 16 <= L.
Hypothesis Hn : 0 <= n.
Hypothesis Hliv : (16 <= livn)%nat.
Hypothesis Hcapc : L <= capc.
(* decrypting: ciphertext is src (src' = C+16), dst' shares no byte with it;
   encrypting: ciphertext is dst (dst' = C+16), src' shares no byte with it *)
Hypothesis Halias : (de = true /\ S' = C + 16 /\ (D' + n <= C \/ C + L <= D'))
                 \/ (de = false /\ D' = C + 16 /\ (S' + n <= C \/ C + L <= S')).

Definition fstate (m : Z -> N) (ivb : list N) (p : Z) (i : Z) (v : N) (ppb tp : Z) : st :=
  mkst m ivb p 16 de (mkloc i ppb tp v (mkslc Arena D' n capd) (mkslc Arena S' n caps) (mkslc Arena C L capc)
                            (mkslc IvMem 0 (Z.of_nat livn) (Z.of_nat livn))).

(* one iteration *)
Lemma fast_iter m ivb p k v ppb tp : length ivb = livn -> 0 <= k < n ->
  run_block (exec E false fuel call) fast_body (fstate m ivb p k v ppb tp)
  = ONormal (fstate (upd m (D' + k) (N.lxor v (ks E (rd_mem m (C + k) 16))))
                    (blk (E (rd_mem m (C + k) 16)) ++ skipn 16 ivb) p k v ppb tp).
Proof.
  intros Hlen Hk. rewrite fast_body_eq. unfold fstate.
  rewrite run_block_cons.
  cbn [exec eval_sexp bound]. simp_st.
  unfold c10_XORKeyStream_lo_5.
  change (0 <=? 0) with true.
  replace (0 <=? Z.of_nat livn) with true by (symmetry; apply Z.leb_le; lia).
  replace (Z.of_nat livn <=? Z.of_nat livn) with true by (symmetry; apply Z.leb_le; lia).
  replace (0 <=? k) with true by (symmetry; apply Z.leb_le; lia).
  replace (k <=? L) with true by (symmetry; apply Z.leb_le; lia).
  replace (L <=? capc) with true by (symmetry; apply Z.leb_le; lia).
  cbn [andb]. cbv iota. cbn [sl_len sl_sp sl_off].
  replace (L - k <? 16) with false by (symmetry; apply Z.ltb_ge; lia).
  replace (Z.of_nat livn - 0 <? 16) with false by (symmetry; apply Z.ltb_ge; lia).
  cbn [orb andb]. cbv iota.
  unfold rd, wr. cbn [sl_sp sl_off x_mem x_iv]. change (0 + 0 <? 0) with false. cbv iota.
  change (Z.to_nat (0 + 0)) with 0%nat. change (Z.to_nat 16) with 16%nat.
  change (blkn 16) with blk.
  rewrite write_at0 by (rewrite blk_length; unfold bs; lia). rewrite blk_length. change bs with 16%nat.
  simp_st. cbv iota.
  (* dst[i] = val ^ iv[0] *)
  rewrite run_block_cons.
  pose proof (blk_E_split E (rd_mem m (C + k) 16)) as (kb & t & Hk1 & Hk2).
  rewrite (exec_store_arena E fuel call _ Sdst _ _ _ (N.lxor v kb) k).
  - simp_st. cbn [run_block]. subst kb. reflexivity.
  - simp_st. reflexivity.
  - cbn [eval_bexp]. simp_st. unfold c10_XORKeyStream_idx_6, rd1. cbn [sl_len sl_sp sl_off].
    change (0 <=? 0) with true. replace (0 <? Z.of_nat livn) with true by (symmetry; apply Z.ltb_lt; lia).
    cbn [andb]. change (Z.to_nat (0 + 0)) with 0%nat. rewrite Hk1. reflexivity.
  - simp_st. reflexivity.
  - simp_st. exact Hk.
Qed.

Lemma fast_loop : forall (cnt : nat) m ivb p k i0 v0 ppb tp,
  length ivb = livn -> 0 <= k -> k + Z.of_nat cnt <= n ->
  exists ivb' i' v',
    range_loop (run_block (exec E false fuel call) fast_body) (mkslc Arena S' n caps) k cnt (fstate m ivb p i0 v0 ppb tp)
    = ONormal (fstate (wr_mem m (D' + k) (cfb E de (rd_mem m (C + k) 16) (rd_mem m (S' + k) cnt))) ivb' p i' v' ppb tp)
    /\ length ivb' = livn /\ skipn 16 ivb' = skipn 16 ivb
    /\ ((0 < cnt)%nat -> i' = k + Z.of_nat cnt - 1)
    /\ rd_mem (wr_mem m (D' + k) (cfb E de (rd_mem m (C + k) 16) (rd_mem m (S' + k) cnt))) (C + k + Z.of_nat cnt) 16
       = reg_after (rd_mem m (C + k) 16) (ctx E de (rd_mem m (C + k) 16) (rd_mem m (S' + k) cnt)).
Proof.
  induction cnt as [|c IH]; intros m ivb p k i0 v0 ppb tp Hlen Hk Hkn.
  - exists ivb, i0, v0. cbn [range_loop]. change (rd_mem m (S' + k) 0) with (@nil N).
    assert (Hc : cfb E de (rd_mem m (C + k) 16) [] = [] /\ ctx E de (rd_mem m (C + k) 16) [] = []) by (destruct de; split; reflexivity).
    destruct Hc as [-> ->]. cbn [wr_mem]. split; [reflexivity|]. split; [exact Hlen|]. split; [reflexivity|].
    split; [lia|]. rewrite Z.add_0_r. reflexivity.
  - cbn [range_loop]. unfold rd1. unfold fstate at 1. cbn [sl_len sl_sp sl_off x_mem x_loc].
    destruct (Z.leb_spec 0 k) as [_|Cx]; [|lia]. destruct (Z.ltb_spec k n) as [_|Cx]; [|lia]. cbn [andb].
    set (v := m (S' + k)). set (w := rd_mem m (C + k) 16).
    change (set_loc _ _) with (fstate m ivb p k v ppb tp).
    rewrite fast_iter by (try exact Hlen; lia). fold w.
    set (x := N.lxor v (ks E w)). set (m1 := upd m (D' + k) x).
    set (ivb1 := blk (E w) ++ skipn 16 ivb).
    assert (Hl1 : length ivb1 = livn) by (unfold ivb1; rewrite app_length, blk_length, skipn_length; unfold bs; lia).
    assert (Hs1 : skipn 16 ivb1 = skipn 16 ivb).
    { unfold ivb1. pose proof (blk_length (E w)) as Hb. change bs with 16%nat in Hb. rewrite <- Hb at 1. apply skipn_app_exact. }
    destruct (IH m1 ivb1 p (k + 1) k v ppb tp Hl1 ltac:(lia) ltac:(lia)) as (ivb' & i' & v' & HR & Hl' & Hs' & Hi' & Hw').
    set (cb := if de then v else x).
    assert (Hw1 : rd_mem m1 (C + (k + 1)) 16 = shift w cb /\ rd_mem m1 (S' + (k + 1)) c = rd_mem m (S' + k + 1) c).
    { unfold m1, cb. destruct Halias as [(-> & HS & Hd)|(-> & HD & Hd)].
      - split.
        + rewrite rd_mem_upd_out by (change (Z.of_nat 16) with 16; lia).
          replace (C + (k + 1)) with (C + k + 1) by lia. rewrite <- (rd_mem_shift m (C + k) 15).
          unfold shift, w. do 2 f_equal. unfold v. f_equal. change (Z.of_nat 16) with 16. lia.
        + rewrite rd_mem_upd_out by lia. f_equal. lia.
      - split.
        + replace (D' + k) with (C + k + 16) by lia. replace (C + (k + 1)) with (C + k + 1) by lia.
          rewrite rd_mem_shift_upd. reflexivity.
        + rewrite rd_mem_upd_out by lia. f_equal. lia. }
    destruct Hw1 as [Hw1 Hr1]. rewrite Hw1, Hr1 in HR, Hw'.
    assert (Hrest : rd_mem m (S' + k) (S c) = v :: rd_mem m (S' + k + 1) c) by apply rd_mem_S.
    rewrite Hrest.
    assert (Hcfb : cfb E de w (v :: rd_mem m (S' + k + 1) c) = x :: cfb E de (shift w cb) (rd_mem m (S' + k + 1) c)
                /\ reg_after w (ctx E de w (v :: rd_mem m (S' + k + 1) c))
                   = reg_after (shift w cb) (ctx E de (shift w cb) (rd_mem m (S' + k + 1) c)))
      by (unfold cb, x; destruct de; split; reflexivity).
    destruct Hcfb as [-> ->]. cbn [wr_mem]. fold m1.
    replace (D' + k + 1) with (D' + (k + 1)) by lia.
    exists ivb', i', v'. rewrite HR. split; [reflexivity|]. split; [exact Hl'|]. split; [congruence|].
    split.
    + intros _. destruct c as [|c'].
      * cbn [range_loop] in HR. injection HR as _ _ Hi _. lia.
      * rewrite Hi' by lia. lia.
    + rewrite <- Hw'. f_equal. lia.
Qed.
End Fast.
