(* C10: the slow path of the hand model (`slow`, for any block size `slown`) IS the interpretation of the
   translated xorKeyStream (the reslice of dst and the whole range loop), for every state of the ring,
   every source, and a destination that starts where the source starts (in place) or shares no byte with
   it: same panics, same iv buffer and position, and the bytes stored are exactly the model's outputs,
   written at dst[0..len src) and nowhere else. *)
From Coq Require Import String List Arith NArith ZArith Lia Bool.
From GoMC Require Import Base.Bytes Base.GoInt Model.C10 Model.C10_syntax Gen.C10gen Model.C10_interp.
From GoMC Require Import Proofs.C10_skel Proofs.C10_tie.
Import ListNotations.
Local Open Scope Z_scope.

Lemma stepn_pos E n de s v s' o : stepn E n de s v = Some (s', o) -> (pos s' <= pos s + 1)%nat.
Proof.
  unfold stepn. destruct (slice (iv s) (pos s) n); [|discriminate].
  destruct (write_at (iv s) _ _); [|discriminate]. destruct (index l0 _); [|discriminate].
  destruct (pos s =? n + n)%nat.
  - destruct (length l0 <? pos s + 1)%nat; [discriminate|].
    destruct (write_at _ _ _); [|discriminate]. intros [= <- _]. cbn. lia.
  - destruct (write_at _ _ _); [|discriminate]. intros [= <- _]. cbn. lia.
Qed.

Section Slow.
Variable E : list N -> list N.
Variable fuel : nat.
Variable call : callee -> slc -> slc -> st -> outcome.
Variable n : nat.
Variable de : bool.
Variable d a : slc.
Hypothesis Hn : (0 < n)%nat.
Hypothesis Hnn : Z.of_nat n < 2 ^ 62.
Hypothesis Hd : sl_sp d = Arena.
Hypothesis Ha : sl_sp a = Arena.
(* in place, or no common byte *)
Hypothesis Halias : sl_off d = sl_off a \/ sl_off d + sl_len d <= sl_off a \/ sl_off a + sl_len a <= sl_off d.

Lemma range_is_slown ct ivs : forall (src : list N) m ivl p k i0 ppb tp v0,
  0 <= k -> k + lenZ src <= sl_len a -> k + lenZ src <= sl_len d ->
  Z.of_nat p + lenZ src < 2 ^ 62 ->
  (forall j, (j < length src)%nat -> m (sl_off a + k + Z.of_nat j) = nth j src 0%N) ->
  match slown E n de {| iv := ivl; pos := p |} src with
  | None =>
      range_loop (run_block (exec E false fuel call) slow_body) a k (length src)
        (mkst m ivl (Z.of_nat p) (Z.of_nat n) de (mkloc i0 ppb tp v0 d a ct ivs)) = OPanic
  | Some (s', outs) =>
      exists i' ppb' tp' v',
      range_loop (run_block (exec E false fuel call) slow_body) a k (length src)
        (mkst m ivl (Z.of_nat p) (Z.of_nat n) de (mkloc i0 ppb tp v0 d a ct ivs))
      = ONormal (mkst (wr_mem m (sl_off d + k) outs) (iv s') (Z.of_nat (pos s')) (Z.of_nat n) de
                      (mkloc i' ppb' tp' v' d a ct ivs))
  end.
Proof.
  induction src as [|v src IH]; intros m ivl p k i0 ppb tp v0 Hk Hka Hkd Hp Hmem.
  - cbn [slown range_loop length wr_mem]. eauto.
  - unfold lenZ in *. cbn [length] in *. rewrite Nat2Z.inj_succ in *.
    cbn [slown range_loop].
    assert (Hv : m (sl_off a + k) = v).
    { specialize (Hmem 0%nat ltac:(lia)). cbn [nth] in Hmem. rewrite Z.add_0_r in Hmem. exact Hmem. }
    unfold rd1. cbn [x_mem x_loc].
    destruct (Z.leb_spec 0 k) as [_|C]; [|lia]. destruct (Z.ltb_spec k (sl_len a)) as [_|C]; [|lia].
    cbn [andb]. rewrite Ha. cbv beta iota delta [set_loc lset_val lset_i x_mem x_iv x_pos x_bs x_de x_loc l_i l_ppb l_tp l_val l_dst l_src l_ct l_ivs].
    rewrite Hv.
    pose proof (interp_body_is_stepn E fuel call m ivl p n de k v d a ppb tp ct ivs Hn ltac:(lia) Hnn Hd Ha ltac:(lia) ltac:(lia) Hv) as Hb.
    unfold body_state in Hb. rewrite Hb. clear Hb.
    destruct (stepn E n de {| iv := ivl; pos := p |} v) as [[s1 o]|] eqn:Es; [|reflexivity].
    pose proof (stepn_pos _ _ _ _ _ _ _ Es) as Hpos. cbn [pos] in Hpos.
    destruct s1 as [iv1 p1]. cbn [iv pos] in *.
    specialize (IH (upd m (sl_off d + k) o) iv1 p1 (k + 1) k (Z.of_nat (p + n)) (Z.land (Z.of_nat (p + n)) (2 * Z.of_nat n - 1)) o
                   ltac:(lia) ltac:(lia) ltac:(lia) ltac:(lia)).
    assert (Hmem' : forall j, (j < length src)%nat ->
              upd m (sl_off d + k) o (sl_off a + (k + 1) + Z.of_nat j) = nth j src 0%N).
    { intros j Hj. unfold upd.
      destruct (Z.eqb_spec (sl_off a + (k + 1) + Z.of_nat j) (sl_off d + k)) as [C|_]; [exfalso; lia|].
      specialize (Hmem (S j) ltac:(lia)). cbn [nth] in Hmem. rewrite <- Hmem. f_equal. lia. }
    specialize (IH Hmem').
    destruct (slown E n de {| iv := iv1; pos := p1 |} src) as [[s2 outs]|].
    + destruct IH as (i' & ppb' & tp' & v' & IH). exists i', ppb', tp', v'. rewrite IH.
      cbn [wr_mem]. replace (sl_off d + k + 1) with (sl_off d + (k + 1)) by lia. reflexivity.
    + exact IH.
Qed.

End Slow.

(* cf.xorKeyStream(d, a) as translated (dst = dst[:len(src)], then the range loop), for a source whose bytes
   are src: same panics as slown; otherwise the outputs stored at d[0..len src), iv and ivPos as the model's,
   the caller's locals untouched *)
Lemma interp_slow_is_slown E fuel n de (d a : slc) (src : list N) m ivl p lc :
  (0 < n)%nat -> Z.of_nat n < 2 ^ 62 -> sl_sp d = Arena -> sl_sp a = Arena ->
  (sl_off d = sl_off a \/ sl_off d + sl_len a <= sl_off a \/ sl_off a + sl_len a <= sl_off d) ->
  lenZ src = sl_len a -> sl_len a <= sl_len d -> sl_len d <= sl_cap d ->
  Z.of_nat p + lenZ src < 2 ^ 62 ->
  (forall j, (j < length src)%nat -> m (sl_off a + Z.of_nat j) = nth j src 0%N) ->
  interp_slow E false fuel d a (mkst m ivl (Z.of_nat p) (Z.of_nat n) de lc)
  = match slown E n de {| iv := ivl; pos := p |} src with
    | None => OPanic
    | Some (s', outs) =>
        ONormal (mkst (wr_mem m (sl_off d) outs) (iv s') (Z.of_nat (pos s')) (Z.of_nat n) de lc)
    end.
Proof.
  intros Hn Hnn Hd Ha Halias Hlen Hld Hcap Hp Hmem.
  unfold interp_slow, activation, run_body, SLOW.
  rewrite run_block_cons.
  cbn [exec eval_sexp bound]. cbv beta iota delta [set_loc locals get look x_loc l_dst l_src fst snd x_mem x_iv x_pos x_bs x_de].
  unfold c10_xorKeyStream_hi.
  pose proof (Zle_0_nat (length src)) as H0. unfold lenZ in *.
  replace (0 <=? 0) with true by reflexivity.
  replace (0 <=? sl_len a) with true by (symmetry; apply Z.leb_le; lia).
  replace (sl_len a <=? sl_cap d) with true by (symmetry; apply Z.leb_le; lia).
  cbn [andb set_slice]. cbv beta iota delta [set_loc lset_dst x_loc x_mem x_iv x_pos x_bs x_de l_i l_ppb l_tp l_val l_dst l_src l_ct l_ivs].
  rewrite run_block_cons. cbn [exec]. cbv beta iota delta [get x_loc l_src].
  replace (Z.to_nat (sl_len a)) with (length src) by lia.
  set (d' := {| sl_sp := sl_sp d; sl_off := sl_off d + 0; sl_len := sl_len a - 0; sl_cap := sl_cap d - 0 |}).
  pose proof (range_is_slown E fuel no_call n de d' a Hn Hnn Hd Ha
                ltac:(unfold d'; cbn [sl_off sl_len]; lia) nil_slc nil_slc src m ivl p 0 0 0 0 0%N
                ltac:(lia) ltac:(unfold lenZ; lia) ltac:(unfold lenZ, d'; cbn [sl_len]; lia) ltac:(unfold lenZ; lia)) as HR.
  assert (Hmem0 : forall j, (j < length src)%nat -> m (sl_off a + 0 + Z.of_nat j) = nth j src 0%N)
    by (intros j Hj; rewrite Z.add_0_r; apply Hmem; exact Hj).
  specialize (HR Hmem0). clear Hmem0.
  change (fun s' : st => run_block (fun (x : run_stmt) (s'' : st) => exec E false fuel no_call x s'') ?b s')
    with (run_block (exec E false fuel no_call) b).
  fold slow_body in HR |- *.
  destruct (slown E n de {| iv := ivl; pos := p |} src) as [[s' outs]|].
  - destruct HR as (i' & ppb' & tp' & v' & HR).
    unfold slow_body in HR |- *. unfold SLOW in HR. rewrite HR. cbv iota.
    cbn [run_block]. cbv beta iota delta [set_loc lset_val lset_i x_loc x_mem x_iv x_pos x_bs x_de l_i l_val].
    unfold d'. cbn [sl_off]. rewrite !Z.add_0_r. reflexivity.
  - unfold slow_body in HR |- *. unfold SLOW in HR. rewrite HR. reflexivity.
Qed.
