(* C10: interpreting the whole translated XORKeyStream (length tests, the two pointer tests, the call of
   xorKeyStream on the first block, the reslices and hints, the plain fast loop, the final copy; or the call
   of xorKeyStream on everything) IS the hand model's xor_key_stream, for every ring state, every source,
   every destination content, for dst == src exactly (InPlace) and for buffers that share no byte
   (Disjoint, either order in memory). *)
From Coq Require Import String List Arith NArith ZArith Lia Bool.
From GoMC Require Import Base.Bytes Base.GoInt Model.C10 Model.C10_syntax Gen.C10gen Model.C10_interp.
From GoMC Require Import Proofs.C10_step Proofs.C10 Proofs.C10_skel Proofs.C10_tie Proofs.C10_mem Proofs.C10_ext
                         Proofs.C10_tie_slow Proofs.C10_tie_fast.
Import ListNotations.
Local Open Scope Z_scope.

Ltac simp_st :=
  cbv beta iota delta [set_int set_slice set_loc set_pos set_iv set_mem look get cfiv_slc
       lset_i lset_ppb lset_tp lset_val lset_dst lset_src lset_ct lset_ivs fst snd];
  cbn [x_mem x_iv x_pos x_bs x_de x_loc l_i l_ppb l_tp l_val l_dst l_src l_ct l_ivs sl_sp sl_off sl_len sl_cap].
Ltac leb_true a b := replace (a <=? b) with true by (symmetry; apply Z.leb_le; lia).
Ltac ltb_true a b := replace (a <? b) with true by (symmetry; apply Z.ltb_lt; lia).
Ltac ltb_false a b := replace (a <? b) with false by (symmetry; apply Z.ltb_ge; lia).

Lemma run_block_nil {A} (f : A -> st -> outcome) s : run_block f [] s = ONormal s.
Proof. reflexivity. Qed.
Lemma index0_some (l : list N) : (0 < length l)%nat -> exists y, index l 0 = Some y.
Proof. destruct l as [|y l]; [cbn; lia|]. intros _. exists y. reflexivity. Qed.
Lemma tie_i_next i : -1 <= i < 2 ^ 62 -> c10_XORKeyStream_i_3 i = i + 1.
Proof. intros H. unfold c10_XORKeyStream_i_3. apply ws. unfold in_int. change (2 ^ 62) with 4611686018427387904 in H. change (2 ^ 63) with 9223372036854775808. lia. Qed.
Lemma tie_copy_hi i : 0 <= i < 2 ^ 62 -> c10_XORKeyStream_hi_3 i 16 = i + 16.
Proof. intros H. unfold c10_XORKeyStream_hi_3. apply ws. unfold in_int. change (2 ^ 62) with 4611686018427387904 in H. change (2 ^ 63) with 9223372036854775808. lia. Qed.

(* facts about the model's slow path *)
Lemma step_len E de s v s' o : step E de s v = Some (s', o) ->
  length (iv s') = length (iv s) /\ (16 <= length (iv s))%nat.
Proof.
  unfold step. rewrite slice_spec by (unfold bs; lia).
  destruct (Nat.leb_spec (pos s + bs) (length (iv s))) as [Hl|]; [|discriminate].
  destruct (write_at (iv s) _ _) as [iv1|] eqn:E1; [|discriminate]. apply write_at_length in E1.
  destruct (index iv1 _); [|discriminate].
  destruct (pos s =? bs + bs)%nat.
  - destruct (length iv1 <? pos s + 1)%nat eqn:E3; [discriminate|]. apply Nat.ltb_ge in E3.
    destruct (write_at _ _ _) as [iv3|] eqn:E2; [|discriminate]. apply write_at_length in E2.
    intros [= <- _]. cbn [iv]. unfold copy_to in E2. rewrite app_length, firstn_length, !skipn_length in E2.
    unfold bs in *. lia.
  - destruct (write_at _ _ _) as [iv2|] eqn:E2; [|discriminate]. apply write_at_length in E2.
    intros [= <- _]. cbn [iv]. unfold bs in *. lia.
Qed.
Lemma slow_len E de src : forall s s' o, slow E de s src = Some (s', o) ->
  length o = length src /\ length (iv s') = length (iv s) /\ (src <> [] -> (16 <= length (iv s))%nat).
Proof.
  induction src as [|v src IH]; intros s s' o.
  - cbn. intros [= <- <-]. split; [reflexivity|]. split; [reflexivity|]. congruence.
  - cbn [slow]. destruct (step E de s v) as [[s1 o1]|] eqn:Es; [|discriminate].
    destruct (slow E de s1 src) as [[s2 os]|] eqn:Er; [|discriminate]. intros [= <- <-].
    destruct (IH _ _ _ Er) as (A & B & _). destruct (step_len _ _ _ _ _ _ Es) as (P & Q).
    cbn [length]. split; [lia|]. split; [lia|]. intros _. exact Q.
Qed.

Lemma xks_nonempty E de s al src dst0 : src <> [] ->
  xor_key_stream E de s al src dst0 =
  if (length (dst_for al src dst0) <? length src)%nat then None else
  if (bs + bs <? length src)%nat && (match al with Disjoint => true | InPlace => false end) then
    match slow E de s (firstn bs src) with
    | None => None
    | Some (st1, o16) =>
        let dst1 := o16 ++ skipn bs (dst_for al src dst0) in
        if de then
          match fast_dec E (iv st1) src (skipn bs src) (skipn bs dst1) with
          | None => None
          | Some (iv2, t) => Some ({| iv := iv2; pos := 0 |}, o16 ++ t)
          end
        else
          match fast_enc E (iv st1) dst1 (skipn bs src) with
          | None => None
          | Some (iv2, t) => Some ({| iv := iv2; pos := 0 |}, t)
          end
    end
  else
    match slow E de s src with
    | None => None
    | Some (st1, o) => Some (st1, o ++ skipn (length src) (dst_for al src dst0))
    end.
Proof. destruct src; [congruence|]. reflexivity. Qed.

Section XKS.
Variable E : list N -> list N.
Variable fuel : nat.
Variable de : bool.
Variable m : Z -> N.
Variables D S capd caps : Z.
Variables src dst : list N.
Variable st0 : state.
Variable lc : loc.
Hypothesis HD : 0 <= D.
Hypothesis HS : 0 <= S.
Hypothesis HDl : D + lenZ dst < 2 ^ 62.
Hypothesis HSl : S + lenZ src < 2 ^ 62.
Hypothesis Hcapd : lenZ dst <= capd.
Hypothesis Hcaps : lenZ src <= caps.
Hypothesis Hpos : Z.of_nat (pos st0) + lenZ src < 2 ^ 62.
Hypothesis Hsrc : rd_mem m S (length src) = src.
Hypothesis Hdst : rd_mem m D (length dst) = dst.

Definition sd : slc := mkslc Arena D (lenZ dst) capd.
Definition sa : slc := mkslc Arena S (lenZ src) caps.
Definition s_in : st := mkst m (iv st0) (Z.of_nat (pos st0)) 16 de lc.

Lemma src_nth j : (j < length src)%nat -> m (S + Z.of_nat j) = nth j src 0%N.
Proof. intros H. rewrite <- (rd_mem_nth m S (length src) j H). rewrite Hsrc. reflexivity. Qed.

(* the call cf.xorKeyStream(dst, src) at the end of XORKeyStream: the slow path on everything *)
Lemma slow_all (s : st) (l : loc) :
  (length src <= length dst)%nat ->
  (S = D \/ D + lenZ src <= S \/ S + lenZ src <= D) ->
  interp_slow E false fuel sd sa (mkst m (iv st0) (Z.of_nat (pos st0)) 16 de l)
  = match slow E de st0 src with
    | None => OPanic
    | Some (s', o) => ONormal (mkst (wr_mem m D o) (iv s') (Z.of_nat (pos s')) 16 de l)
    end.
Proof.
  intros Hle Hal. rewrite slow_is_slown16.
  pose proof (interp_slow_is_slown E fuel 16 de sd sa src m (iv st0) (pos st0) l) as H.
  unfold sd, sa in *. cbn [sl_sp sl_off sl_len sl_cap] in H. unfold lenZ in *.
  destruct st0 as [iv0 p0]. cbn [iv pos] in *.
  apply H; first [reflexivity | lia | (change (2 ^ 62) with 4611686018427387904; cbn; lia)
                  | (intros j Hj; apply src_nth; exact Hj)].
Qed.

Lemma fast_block_run :
  32 < lenZ src -> (length src <= length dst)%nat ->
  (D + lenZ dst <= S \/ S + lenZ src <= D) ->
  match slow E de st0 (firstn 16 src) with
  | None =>
      run_block (exec E false fuel (interp_call E false fuel)) fast_block
        (mkst m (iv st0) (Z.of_nat (pos st0)) 16 de (locals sd sa)) = OPanic
  | Some (st1, o16) =>
      let W := if de then firstn 16 src else o16 in
      let R := skipn 16 src in
      exists l',
      run_block (exec E false fuel (interp_call E false fuel)) fast_block
        (mkst m (iv st0) (Z.of_nat (pos st0)) 16 de (locals sd sa))
      = OReturn (mkst (wr_mem (wr_mem m D o16) (D + 16) (cfb E de W R))
                      (reg_after W (ctx E de W R) ++ skipn 16 (iv st1)) 0 16 de l')
  end.
Proof.
  intros HL Hle Hal. unfold fast_block, XKS, sd, sa, locals.
  rewrite run_block_cons. cbn [exec eval_sexp bound]. simp_st. unfold c10_XORKeyStream_hi.
  change (0 <=? 0) with true. unfold lenZ in *.
  leb_true 0 (Z.of_nat (length dst)). leb_true (Z.of_nat (length dst)) capd.
  leb_true 0 16. leb_true 16 caps. cbn [andb]. cbv iota.
  unfold interp_call. rewrite !Z.add_0_r, !Z.sub_0_r.
  set (a16 := firstn 16 src). set (r := skipn 16 src).
  assert (Hsplit : src = a16 ++ r) by (symmetry; apply firstn_skipn).
  assert (Ha16 : length a16 = 16%nat) by (unfold a16; rewrite firstn_length; lia).
  assert (Hr : length src = (16 + length r)%nat) by (rewrite Hsplit at 1; rewrite app_length; lia).
  rewrite (interp_slow_is_slown E fuel 16 de _ _ a16 m (iv st0) (pos st0));
    [ | lia | reflexivity | reflexivity | reflexivity | cbn [sl_off sl_len]; lia | cbn [sl_len]; unfold lenZ; lia
      | cbn [sl_len]; lia | cbn [sl_len sl_cap]; lia | unfold lenZ; lia
      | intros j Hj; rewrite src_nth by lia; unfold a16; rewrite nth_firstn_lt by lia; reflexivity ].
  rewrite <- slow_is_slown16. cbn [sl_off].
  destruct st0 as [iv0 p0]. cbn [iv pos] in *.
  destruct (slow E de {| iv := iv0; pos := p0 |} a16) as [[st1 o16]|] eqn:Eslow.
  2:{ reflexivity. }
  cbv zeta.
  destruct (slow_len _ _ _ _ _ _ Eslow) as (Ho16 & Hiv1 & Hiv16). cbn [iv] in *.
  specialize (Hiv16 ltac:(destruct a16; [discriminate|congruence])).
  set (m1 := wr_mem m D o16).
  assert (Hm16 : rd_mem m S 16 = a16 /\ rd_mem m (S + 16) (length r) = r).
  { assert (Hs2 : rd_mem m S 16 ++ rd_mem m (S + 16) (length r) = a16 ++ r).
    { change (S + 16) with (S + Z.of_nat 16). rewrite <- rd_mem_app. rewrite <- Hr. rewrite Hsrc. exact Hsplit. }
    apply (app_eq_len _ _ _ _ Hs2). rewrite rd_mem_length, Ha16. reflexivity. }
  destruct Hm16 as [Hm16 Hmr].
  assert (Hm1s : rd_mem m1 S 16 = a16 /\ rd_mem m1 (S + 16) (length r) = r).
  { unfold m1. split.
    - rewrite <- Hm16. apply rd_mem_ext. intros j Hj. apply wr_mem_out. unfold lenZ. rewrite Ho16, Ha16. lia.
    - rewrite <- Hmr at 2. apply rd_mem_ext. intros j Hj. apply wr_mem_out. unfold lenZ. rewrite Ho16, Ha16. lia. }
  destruct Hm1s as [Hm1a Hm1r].
  assert (Hm1d : rd_mem m1 D 16 = o16) by (unfold m1; rewrite <- (rd_mem_wr m D o16) at 2; rewrite Ho16, Ha16; reflexivity).
  change (Z.of_nat 16) with 16.
  (* var ciphertext; if cf.de { ciphertext = src } else { ciphertext = dst } *)
  rewrite run_block_cons. cbn [exec]. simp_st. cbv iota.
  rewrite run_block_cons. cbn [exec]. simp_st.
  rewrite (proj2 (proj2 (tie_de de))).
  destruct de; cbv iota.
  - (* decrypting: ciphertext = src *)
    rewrite run_block_cons. cbn [exec eval_sexp bound]. simp_st.
    change (0 <=? 0) with true. leb_true 0 (Z.of_nat (length src)). leb_true (Z.of_nat (length src)) caps.
    cbn [andb]. cbv iota. simp_st. rewrite run_block_nil. cbv iota.
    (* dst = dst[cf.blockSize:]; src = src[cf.blockSize:] *)
    rewrite run_block_cons. cbn [exec eval_sexp bound]. simp_st. unfold c10_XORKeyStream_lo.
    leb_true 0 16. leb_true 16 (Z.of_nat (length dst)). leb_true (Z.of_nat (length dst)) capd.
    cbn [andb]. cbv iota. simp_st. cbv iota.
    rewrite run_block_cons. cbn [exec eval_sexp bound]. simp_st. unfold c10_XORKeyStream_lo_1.
    leb_true 0 16. leb_true 16 (Z.of_nat (length src)). leb_true (Z.of_nat (length src)) caps.
    cbn [andb]. cbv iota. simp_st. cbv iota.
    (* iv := cf.iv; _ = iv[0]; var i, val *)
    rewrite run_block_cons. cbn [exec eval_sexp bound]. simp_st. unfold lenZ.
    change (0 <=? 0) with true. leb_true 0 (Z.of_nat (length (iv st1))).
    leb_true (Z.of_nat (length (iv st1))) (Z.of_nat (length (iv st1))).
    cbn [andb]. cbv iota. simp_st. cbv iota.
    rewrite run_block_cons. cbn [exec eval_bexp]. simp_st. unfold c10_XORKeyStream_idx, rd1. cbn [sl_len sl_sp sl_off x_iv x_mem].
    change (0 <=? 0) with true. ltb_true 0 (Z.of_nat (length (iv st1)) - 0). cbn [andb].
    change (Z.to_nat (0 + 0 + 0)) with 0%nat.
    destruct (index0_some (iv st1) ltac:(lia)) as (y0 & ->). cbv iota.
    rewrite run_block_cons. cbn [exec]. simp_st. cbv iota.
    rewrite run_block_cons. cbn [exec]. simp_st. cbv iota.
    (* dst = dst[:len(src)] *)
    rewrite run_block_cons. cbn [exec eval_sexp bound]. simp_st. unfold c10_XORKeyStream_hi_1.
    change (0 <=? 0) with true. leb_true 0 (Z.of_nat (length src) - 16).
    leb_true (Z.of_nat (length src) - 16) (capd - 16).
    cbn [andb]. cbv iota. simp_st. cbv iota.
    rewrite !Z.add_0_r, !Z.sub_0_r.
    (* the second pointer test *)
    rewrite run_block_cons. cbn [exec]. simp_st.
    rewrite tie_batched_test by (change (2 ^ 63) with 9223372036854775808; change (2 ^ 62) with 4611686018427387904 in *; unfold lenZ in *; lia).
    change (negb (1 =? 0)) with true. cbn [andb].
    replace ((D + 16 <=? S + 16 + (Z.of_nat (length src) - 16) - 1) && (S + 16 <=? D + 16 + (Z.of_nat (length src) - 16) - 1)) with false
      by (symmetry; apply andb_false_iff; destruct Hal; [right|left]; apply Z.leb_gt; lia).
    cbv iota.
    (* _ = ciphertext[len(src)]; the loop; i += 1 *)
    rewrite run_block_cons. cbn [exec eval_bexp]. simp_st. unfold c10_XORKeyStream_idx_4, rd1. cbn [sl_len sl_sp sl_off].
    leb_true 0 (Z.of_nat (length src) - 16). ltb_true (Z.of_nat (length src) - 16) (Z.of_nat (length src)).
    cbn [andb]. cbv iota.
    rewrite run_block_cons. cbn [exec]. simp_st.
    change (fun s' : st => run_block (fun (x : run_stmt) (s'' : st) => exec E false fuel ?c x s'') ?b s')
      with (run_block (exec E false fuel c) b).
    rewrite <- fast_body_eq.
    destruct (fast_loop E fuel (interp_call E false fuel) true (D + 16) (S + 16) S (Z.of_nat (length src) - 16)
                (Z.of_nat (length src)) (capd - 16) (caps - 16) caps (length (iv st1))
                ltac:(lia) ltac:(lia) ltac:(lia)
                ltac:(left; split; [reflexivity|split; [reflexivity|lia]])
                (Z.to_nat (Z.of_nat (length src) - 16)) m1 (iv st1) (Z.of_nat (pos st1)) 0 0 0%N 0 0
                eq_refl ltac:(lia) ltac:(lia))
      as (ivb' & i' & v' & HR & Hl' & Hs' & Hi' & Hw').
    unfold fstate in HR. unfold interp_call in HR. rewrite HR. clear HR. cbv iota.
    rewrite run_block_cons. cbn [exec]. simp_st. cbv iota. rewrite run_block_nil. cbv iota.
    rewrite tie_i_next by (rewrite Hi' by lia; change (2 ^ 62) with 4611686018427387904 in *; unfold lenZ in *; lia).
    rewrite Hi' by lia.
    (* copy(iv, ciphertext[i:i+cf.blockSize]); cf.ivPos = 0; return *)
    rewrite run_block_cons. cbn [exec eval_sexp bound]. simp_st.
    set (nn := Z.of_nat (length src) - 16) in *.
    replace (0 + Z.of_nat (Z.to_nat nn) - 1 + 1) with nn by lia.
    unfold c10_XORKeyStream_lo_6. rewrite tie_copy_hi by (change (2 ^ 62) with 4611686018427387904 in *; unfold lenZ in *; lia).
    change (0 <=? 0) with true. leb_true 0 (Z.of_nat (length (iv st1))).
    leb_true (Z.of_nat (length (iv st1))) (Z.of_nat (length (iv st1))).
    leb_true 0 nn. leb_true nn (nn + 16). leb_true (nn + 16) caps.
    cbn [andb]. cbv iota. cbn [sl_len sl_sp sl_off].
    replace (Z.to_nat (Z.min (Z.of_nat (length (iv st1)) - 0) (nn + 16 - nn))) with 16%nat by lia.
    unfold rd, wr. cbn [sl_sp sl_off x_mem x_iv]. change (0 + 0 <? 0) with false. cbv iota.
    change (Z.to_nat (0 + 0)) with 0%nat.
    replace (S + 0 + Z.of_nat (Z.to_nat nn)) with (S + nn) in Hw' by lia. rewrite !Z.add_0_r in Hw' |- *.
    rewrite Hw'.
    replace (Z.to_nat nn) with (length r) by lia. rewrite Hm1a, Hm1r.
    pose proof (reg_after_length (ctx E true a16 r) a16 Ha16) as Hral. change bs with 16%nat in Hral.
    rewrite write_at0 by lia. rewrite Hral. cbv iota. simp_st. cbv iota.
    rewrite run_block_cons. cbn [exec]. simp_st. cbv iota.
    rewrite run_block_cons. cbn [exec]. cbv iota.
    eexists. unfold c10_XORKeyStream_ivPos. rewrite Hs'. reflexivity.
  - (* encrypting: ciphertext = dst *)
    rewrite run_block_cons. cbn [exec eval_sexp bound]. simp_st.
    change (0 <=? 0) with true. leb_true 0 (Z.of_nat (length dst)). leb_true (Z.of_nat (length dst)) capd.
    cbn [andb]. cbv iota. simp_st. rewrite run_block_nil. cbv iota.
    (* dst = dst[cf.blockSize:]; src = src[cf.blockSize:] *)
    rewrite run_block_cons. cbn [exec eval_sexp bound]. simp_st. unfold c10_XORKeyStream_lo.
    leb_true 0 16. leb_true 16 (Z.of_nat (length dst)). leb_true (Z.of_nat (length dst)) capd.
    cbn [andb]. cbv iota. simp_st. cbv iota.
    rewrite run_block_cons. cbn [exec eval_sexp bound]. simp_st. unfold c10_XORKeyStream_lo_1.
    leb_true 0 16. leb_true 16 (Z.of_nat (length src)). leb_true (Z.of_nat (length src)) caps.
    cbn [andb]. cbv iota. simp_st. cbv iota.
    (* iv := cf.iv; _ = iv[0]; var i, val *)
    rewrite run_block_cons. cbn [exec eval_sexp bound]. simp_st. unfold lenZ.
    change (0 <=? 0) with true. leb_true 0 (Z.of_nat (length (iv st1))).
    leb_true (Z.of_nat (length (iv st1))) (Z.of_nat (length (iv st1))).
    cbn [andb]. cbv iota. simp_st. cbv iota.
    rewrite run_block_cons. cbn [exec eval_bexp]. simp_st. unfold c10_XORKeyStream_idx, rd1. cbn [sl_len sl_sp sl_off x_iv x_mem].
    change (0 <=? 0) with true. ltb_true 0 (Z.of_nat (length (iv st1)) - 0). cbn [andb].
    change (Z.to_nat (0 + 0 + 0)) with 0%nat.
    destruct (index0_some (iv st1) ltac:(lia)) as (y0 & ->). cbv iota.
    rewrite run_block_cons. cbn [exec]. simp_st. cbv iota.
    rewrite run_block_cons. cbn [exec]. simp_st. cbv iota.
    (* dst = dst[:len(src)] *)
    rewrite run_block_cons. cbn [exec eval_sexp bound]. simp_st. unfold c10_XORKeyStream_hi_1.
    change (0 <=? 0) with true. leb_true 0 (Z.of_nat (length src) - 16).
    leb_true (Z.of_nat (length src) - 16) (capd - 16).
    cbn [andb]. cbv iota. simp_st. cbv iota.
    rewrite !Z.add_0_r, !Z.sub_0_r.
    (* the second pointer test *)
    rewrite run_block_cons. cbn [exec]. simp_st.
    rewrite tie_batched_test by (change (2 ^ 63) with 9223372036854775808; change (2 ^ 62) with 4611686018427387904 in *; unfold lenZ in *; lia).
    change (negb (0 =? 0)) with false. cbn [andb].
    cbv iota.
    (* _ = ciphertext[len(src)]; the loop; i += 1 *)
    rewrite run_block_cons. cbn [exec eval_bexp]. simp_st. unfold c10_XORKeyStream_idx_4, rd1. cbn [sl_len sl_sp sl_off].
    leb_true 0 (Z.of_nat (length src) - 16). ltb_true (Z.of_nat (length src) - 16) (Z.of_nat (length dst)).
    cbn [andb]. cbv iota.
    rewrite run_block_cons. cbn [exec]. simp_st.
    change (fun s' : st => run_block (fun (x : run_stmt) (s'' : st) => exec E false fuel ?c x s'') ?b s')
      with (run_block (exec E false fuel c) b).
    rewrite <- fast_body_eq.
    destruct (fast_loop E fuel (interp_call E false fuel) false (D + 16) (S + 16) D (Z.of_nat (length src) - 16)
                (Z.of_nat (length dst)) (capd - 16) (caps - 16) capd (length (iv st1))
                ltac:(lia) ltac:(lia) ltac:(lia)
                ltac:(right; split; [reflexivity|split; [reflexivity|lia]])
                (Z.to_nat (Z.of_nat (length src) - 16)) m1 (iv st1) (Z.of_nat (pos st1)) 0 0 0%N 0 0
                eq_refl ltac:(lia) ltac:(lia))
      as (ivb' & i' & v' & HR & Hl' & Hs' & Hi' & Hw').
    unfold fstate in HR. unfold interp_call in HR. rewrite HR. clear HR. cbv iota.
    rewrite run_block_cons. cbn [exec]. simp_st. cbv iota. rewrite run_block_nil. cbv iota.
    rewrite tie_i_next by (rewrite Hi' by lia; change (2 ^ 62) with 4611686018427387904 in *; unfold lenZ in *; lia).
    rewrite Hi' by lia.
    (* copy(iv, ciphertext[i:i+cf.blockSize]); cf.ivPos = 0; return *)
    rewrite run_block_cons. cbn [exec eval_sexp bound]. simp_st.
    set (nn := Z.of_nat (length src) - 16) in *.
    replace (0 + Z.of_nat (Z.to_nat nn) - 1 + 1) with nn by lia.
    unfold c10_XORKeyStream_lo_6. rewrite tie_copy_hi by (change (2 ^ 62) with 4611686018427387904 in *; unfold lenZ in *; lia).
    change (0 <=? 0) with true. leb_true 0 (Z.of_nat (length (iv st1))).
    leb_true (Z.of_nat (length (iv st1))) (Z.of_nat (length (iv st1))).
    leb_true 0 nn. leb_true nn (nn + 16). leb_true (nn + 16) capd.
    cbn [andb]. cbv iota. cbn [sl_len sl_sp sl_off].
    replace (Z.to_nat (Z.min (Z.of_nat (length (iv st1)) - 0) (nn + 16 - nn))) with 16%nat by lia.
    unfold rd, wr. cbn [sl_sp sl_off x_mem x_iv]. change (0 + 0 <? 0) with false. cbv iota.
    change (Z.to_nat (0 + 0)) with 0%nat.
    replace (D + 0 + Z.of_nat (Z.to_nat nn)) with (D + nn) in Hw' by lia. rewrite !Z.add_0_r in Hw' |- *.
    rewrite Hw'.
    replace (Z.to_nat nn) with (length r) by lia. rewrite Hm1d, Hm1r.
    pose proof (reg_after_length (ctx E false o16 r) o16 ltac:(rewrite Ho16; exact Ha16)) as Hral. change bs with 16%nat in Hral.
    rewrite write_at0 by lia. rewrite Hral. cbv iota. simp_st. cbv iota.
    rewrite run_block_cons. cbn [exec]. simp_st. cbv iota.
    rewrite run_block_cons. cbn [exec]. cbv iota.
    eexists. unfold c10_XORKeyStream_ivPos. rewrite Hs'. reflexivity.
Qed.

Lemma interp_xks_is_model (al : alias) (dst0 : list N) :
  dst = dst_for al src dst0 ->
  (al = InPlace /\ S = D) \/ (al = Disjoint /\ (D + lenZ dst <= S \/ S + lenZ src <= D)) ->
  interp_xks E false fuel sd sa s_in
  = match xor_key_stream E de st0 al src dst0 with
    | None => OPanic
    | Some (st', out) =>
        ONormal (mkst (wr_mem m D (firstn (length src) out)) (iv st') (Z.of_nat (pos st')) 16 de lc)
    end.
Proof.
  intros Hdd Hal.
  unfold interp_xks, activation, run_body, XKS, s_in, locals, sd, sa. simp_st.
  rewrite run_block_cons. cbn [exec]. simp_st. rewrite tie_empty_check.
  assert (Hne : src = [] \/ src <> []) by (destruct src; [left|right]; congruence).
  destruct Hne as [He|Hne].
  { rewrite He in Hdd |- *. change (xor_key_stream E de st0 al [] dst0) with (Some (st0, dst_for al [] dst0)).
    rewrite <- Hdd. reflexivity. }
  rewrite xks_nonempty by exact Hne. rewrite <- Hdd.
  assert (HL0 : 0 < lenZ src) by (unfold lenZ; destruct src; [congruence|cbn [length]; lia]).
  replace (lenZ src =? 0) with false by (symmetry; apply Z.eqb_neq; lia). cbv iota.
  rewrite run_block_nil. cbv iota.
  (* if len(dst) < len(src) { panic } *)
  rewrite run_block_cons. cbn [exec]. simp_st. rewrite tie_short_check.
  unfold lenZ in *.
  destruct (Nat.ltb_spec (length dst) (length src)) as [Hsh|Hle].
  { ltb_true (Z.of_nat (length dst)) (Z.of_nat (length src)). cbv iota. reflexivity. }
  ltb_false (Z.of_nat (length dst)) (Z.of_nat (length src)). cbv iota. rewrite run_block_nil. cbv iota.
  (* the first pointer test *)
  rewrite run_block_cons. cbn [exec]. simp_st.
  rewrite tie_fast_test by (change (2 ^ 63) with 9223372036854775808; change (2 ^ 62) with 4611686018427387904 in *; lia).
  change (2 * 16) with 32.
  assert (Hcond : (32 <? Z.of_nat (length src)) && ((D + 16 <=? S) || (S + Z.of_nat (length src) <=? D))
                  = (bs + bs <? length src)%nat && (match al with Disjoint => true | InPlace => false end)).
  { unfold bs. destruct Hal as [(-> & HSD)|(-> & Hdis)].
    - rewrite andb_false_r. apply andb_false_iff. right. apply orb_false_iff. split; apply Z.leb_gt; lia.
    - rewrite andb_true_r. destruct (Nat.ltb_spec (16 + 16) (length src)) as [Hf|Hf].
      + apply andb_true_iff. split; [apply Z.ltb_lt; lia|]. apply orb_true_iff.
        destruct Hdis; [left|right]; apply Z.leb_le; lia.
      + apply andb_false_iff. left. apply Z.ltb_ge. lia. }
  rewrite Hcond. clear Hcond.
  destruct ((bs + bs <? length src)%nat && (match al with Disjoint => true | InPlace => false end)) eqn:Hf.
  - (* fast path *)
    apply andb_true_iff in Hf. destruct Hf as [Hlen Hdj]. apply Nat.ltb_lt in Hlen. unfold bs in Hlen.
    destruct Hal as [(-> & _)|(-> & Hdis)]; [discriminate|].
    pose proof (fast_block_run ltac:(unfold lenZ; lia) Hle ltac:(unfold lenZ; exact Hdis)) as HF.
    unfold fast_block, XKS, locals, sd, sa in HF. cbv iota in HF. change bs with 16%nat.
    change (fun (x : run_stmt) (s' : st) => exec E false fuel (interp_call E false fuel) x s') with (exec E false fuel (interp_call E false fuel)).
    destruct (slow E de st0 (firstn 16 src)) as [[st1 o16]|] eqn:Eslow.
    2:{ unfold lenZ in HF. rewrite HF. reflexivity. }
    cbv zeta in HF. destruct HF as (l' & HF). unfold lenZ in HF. rewrite HF. clear HF. cbv iota. simp_st.
    set (a16 := firstn 16 src) in *. set (r := skipn 16 src) in *.
    assert (Hsplit : src = a16 ++ r) by (symmetry; apply firstn_skipn).
    assert (Ha16 : length a16 = 16%nat) by (unfold a16; rewrite firstn_length; lia).
    assert (Hr : length src = (16 + length r)%nat) by (rewrite Hsplit at 1; rewrite app_length; lia).
    destruct (slow_len _ _ _ _ _ _ Eslow) as (Ho16 & Hiv1 & Hiv16). rewrite Ha16 in Ho16.
    specialize (Hiv16 ltac:(destruct a16; [discriminate|congruence])).
    assert (Hivl : (bs <= length (iv st1))%nat) by (unfold bs; lia).
    assert (Hsk : skipn 16 (o16 ++ skipn 16 dst) = skipn 16 dst) by (rewrite <- Ho16 at 1; apply skipn_app_exact).
    assert (Hdl : (length r <= length (skipn 16 dst))%nat) by (rewrite skipn_length; lia).
    assert (Hfn : forall X Y : list N, length X = length r -> firstn (length src) (o16 ++ X ++ Y) = o16 ++ X).
    { intros X Y HX. rewrite app_assoc. replace (length src) with (length (o16 ++ X)) by (rewrite app_length; lia).
      apply firstn_app_exact. }
    assert (Hwr : forall X, wr_mem m D (o16 ++ X) = wr_mem (wr_mem m D o16) (D + 16) X).
    { intros X. rewrite wr_mem_app. unfold lenZ. rewrite Ho16. reflexivity. }
    destruct de.
    + rewrite Hsk. replace (fast_dec E (iv st1) src r (skipn 16 dst)) with (fast_dec E (iv st1) (a16 ++ r) r (skipn 16 dst))
        by (rewrite <- Hsplit; reflexivity).
      rewrite (fast_dec_ok E r (iv st1) a16 (skipn 16 dst) Ha16 Hivl Hdl). cbv iota. cbn [iv pos].
      rewrite Hfn by (apply (cfb_length E true r a16)). rewrite Hwr. reflexivity.
    + rewrite (fast_enc_ok E r (iv st1) o16 (skipn 16 dst) Ho16 Hivl Hdl). cbv iota. cbn [iv pos].
      rewrite Hfn by (apply (cfb_length E false r o16)). rewrite Hwr. reflexivity.
  - (* slow path *)
    rewrite run_block_nil. cbv iota.
    rewrite run_block_cons. cbn [exec eval_sexp bound]. simp_st.
    change (0 <=? 0) with true. leb_true 0 (Z.of_nat (length dst)). leb_true (Z.of_nat (length dst)) capd.
    leb_true 0 (Z.of_nat (length src)). leb_true (Z.of_nat (length src)) caps.
    cbn [andb]. cbv iota. rewrite !Z.add_0_r, !Z.sub_0_r. unfold interp_call.
    pose proof (slow_all s_in (mkloc 0 0 0 0%N sd sa nil_slc nil_slc) Hle
                  ltac:(unfold lenZ; destruct Hal as [(_ & HSD)|(_ & Hdis)]; lia)) as HS1.
    unfold sd, sa, lenZ in HS1. rewrite HS1. clear HS1.
    destruct (slow E de st0 src) as [[st1 o]|] eqn:Eslow; [|reflexivity].
    cbv iota. rewrite run_block_nil. cbv iota. simp_st.
    destruct (slow_len _ _ _ _ _ _ Eslow) as (Ho & _).
    rewrite <- Ho. rewrite firstn_app_exact. reflexivity.
Qed.
End XKS.
