(* C11 proofs, part 1: bit fields inside one long, list update, refinement of Get/Set/Swap *)
From Coq Require Import List Arith NArith ZArith Lia Bool ZifyN ZifyNat ZifyBool.
From GoMC Require Import Base.Bytes Base.Bits Base.Dec Gen.Consts Model.C05 Model.C11.
Import ListNotations.
Open Scope N_scope.
Ltac Zify.zify_post_hook ::= Z.to_euclidean_division_equations.

(* ---------- bits ---------- *)

Lemma lt_pow2_of_bits x n : (forall j, n <= j -> N.testbit x j = false) -> x < 2^n.
Proof.
  intros H. assert (E: x mod 2^n = x).
  { apply N.bits_inj. intros j. destruct (N.ltb_spec j n) as [L|L].
    - apply N.mod_pow2_bits_low; auto.
    - rewrite N.mod_pow2_bits_high by auto. symmetry; auto. }
  rewrite <- E. apply N.mod_lt. apply N.pow_nonzero. discriminate.
Qed.

Lemma ones_bit b j : N.testbit (N.ones b) j = (j <? b).
Proof.
  destruct (N.ltb_spec j b) as [L|L]; [apply N.ones_spec_low | apply N.ones_spec_high]; lia.
Qed.

Lemma ones_lt b : N.ones b < 2^b.
Proof. rewrite N.ones_equiv. pose proof (pow2_pos b). lia. Qed.

Lemma max64_ones : max64 = N.ones 64.
Proof. reflexivity. Qed.

Lemma get_long_bit l b off j :
  N.testbit (get_long l (N.ones b) off) j = N.testbit l (j + off) && (j <? b).
Proof. unfold get_long. rewrite N.land_spec, N.shiftr_spec', ones_bit. reflexivity. Qed.

Lemma get_long_spec l b off : get_long l (N.ones b) off = (l / 2^off) mod 2^b.
Proof. unfold get_long. rewrite N.land_ones, N.shiftr_div_pow2. reflexivity. Qed.

Lemma get_long_lt l b off : get_long l (N.ones b) off < 2^b.
Proof. rewrite get_long_spec. apply N.mod_lt. apply N.pow_nonzero. discriminate. Qed.

Lemma shl64_small x k n : x < 2^n -> n + k <= 64 -> shl64 x k = x * 2^k.
Proof.
  intros Hx Hn. unfold shl64, two64. rewrite N.shiftl_mul_pow2. apply N.mod_small.
  apply N.lt_le_trans with (2^n * 2^k).
  - apply N.mul_lt_mono_pos_r; [apply pow2_pos | exact Hx].
  - rewrite <- N.pow_add_r. apply N.pow_le_mono_r; [discriminate | exact Hn].
Qed.

Lemma set_long_bit l b off v j : l < 2^64 -> v < 2^b -> off + b <= 64 ->
  N.testbit (set_long l (N.ones b) off v) j =
  if (off <=? j) && (j <? off + b) then N.testbit v (j - off) else N.testbit l j.
Proof.
  intros Hl Hv Hob. unfold set_long.
  rewrite (shl64_small (N.ones b) off b) by (try apply ones_lt; lia).
  rewrite (N.land_ones v b), (N.mod_small v (2^b)) by exact Hv.
  rewrite (shl64_small v off b) by (auto; lia).
  rewrite N.lor_spec, N.land_spec, N.lxor_spec, max64_ones, (ones_bit 64 j).
  destruct (N.leb_spec off j) as [Lo|Lo].
  - rewrite !N.mul_pow2_bits_high by exact Lo. rewrite ones_bit.
    destruct (N.ltb_spec j (off + b)) as [Lj|Lj]; destruct (N.ltb_spec (j - off) b) as [Lk|Lk]; try lia; cbn [andb].
    + destruct (N.ltb_spec j 64) as [L6|L6]; [|lia]. cbn [xorb]. rewrite andb_false_r. reflexivity.
    + rewrite (testbit_high v b (j - off)) by (auto; lia). rewrite orb_false_r.
      destruct (N.ltb_spec j 64) as [L6|L6]; cbn [xorb].
      * apply andb_true_r.
      * rewrite andb_false_r. symmetry. apply testbit_high with (n := 64); auto.
  - rewrite !N.mul_pow2_bits_low by exact Lo. cbn [andb]. rewrite orb_false_r.
    destruct (N.ltb_spec j 64) as [L6|L6]; [|lia]. cbn [xorb]. apply andb_true_r.
Qed.

Lemma set_long_lt l b off v : l < 2^64 -> v < 2^b -> off + b <= 64 ->
  set_long l (N.ones b) off v < 2^64.
Proof.
  intros Hl Hv Hob. apply lt_pow2_of_bits. intros j Hj.
  rewrite set_long_bit by auto.
  destruct (N.leb_spec off j); destruct (N.ltb_spec j (off + b)); try lia; cbn [andb];
    apply testbit_high with (n := 64); auto.
Qed.

Lemma get_set_same l b off v : l < 2^64 -> v < 2^b -> off + b <= 64 ->
  get_long (set_long l (N.ones b) off v) (N.ones b) off = v.
Proof.
  intros Hl Hv Hob. apply N.bits_inj; intros j.
  rewrite get_long_bit, set_long_bit by auto.
  destruct (N.ltb_spec j b) as [Lj|Lj].
  - destruct (N.leb_spec off (j + off)); destruct (N.ltb_spec (j + off) (off + b)); try lia.
    cbn [andb]. rewrite andb_true_r. f_equal. lia.
  - rewrite andb_false_r. symmetry. apply testbit_high with (n := b); auto.
Qed.

Lemma get_set_other l b off off' v : l < 2^64 -> v < 2^b -> off + b <= 64 ->
  (off' + b <= off \/ off + b <= off') ->
  get_long (set_long l (N.ones b) off v) (N.ones b) off' = get_long l (N.ones b) off'.
Proof.
  intros Hl Hv Hob Hd. apply N.bits_inj; intros j.
  rewrite !get_long_bit, set_long_bit by auto.
  destruct (N.ltb_spec j b) as [Lj|Lj]; [|rewrite !andb_false_r; reflexivity].
  destruct (N.leb_spec off (j + off')); destruct (N.ltb_spec (j + off') (off + b)); try lia; reflexivity.
Qed.

(* ---------- list update ---------- *)

Lemma upd_nth_length {A} (l : list A) : forall n x, length (upd_nth l n x) = length l.
Proof. induction l as [|h t IH]; intros [|n] x; cbn [upd_nth length]; auto. Qed.

Lemma nth_upd_nth_eq {A} (l : list A) : forall n x d, (n < length l)%nat -> nth n (upd_nth l n x) d = x.
Proof.
  induction l as [|h t IH]; intros [|n] x d H; cbn [upd_nth nth length] in *; try lia; auto.
  apply IH. lia.
Qed.

Lemma nth_upd_nth_neq {A} (l : list A) : forall n m x d, n <> m -> nth m (upd_nth l n x) d = nth m l d.
Proof.
  induction l as [|h t IH]; intros [|n] [|m] x d H; cbn [upd_nth nth]; try lia; auto.
Qed.

Lemma Forall_upd_nth {A} (P : A -> Prop) (l : list A) : forall n x, Forall P l -> P x -> Forall P (upd_nth l n x).
Proof.
  induction l as [|h t IH]; intros [|n] x Hl Hx; cbn [upd_nth]; auto; inversion Hl; subst; constructor; auto.
Qed.

Lemma nth_map_seq {A} (f : nat -> A) n j d : (j < n)%nat -> nth j (map f (seq 0 n)) d = f j.
Proof.
  intros H. rewrite (nth_indep _ d (f 0%nat)) by (rewrite map_length, seq_length; exact H).
  rewrite map_nth. rewrite seq_nth by exact H. reflexivity.
Qed.

Lemma nth_error_nth' {A} (l : list A) n d : (n < length l)%nat -> nth_error l n = Some (nth n l d).
Proof. revert n; induction l as [|h t IH]; intros [|n] H; cbn in *; try lia; auto. apply IH. lia. Qed.

(* ---------- fields of a packed array ---------- *)

Lemma vpl_pos b : 1 <= b <= 64 -> 1 <= spec_vpl b.
Proof. intros H. unfold spec_vpl. apply N.div_le_lower_bound; lia. Qed.

Lemma vpl_fit b : 1 <= b -> b * spec_vpl b <= 64.
Proof. intros H. unfold spec_vpl. apply N.mul_div_le. lia. Qed.

Lemma field_fit b k : 1 <= b <= 64 -> k < spec_vpl b -> b * k + b <= 64.
Proof. intros Hb Hk. pose proof (vpl_fit b ltac:(lia)). nia. Qed.

Lemma field_disjoint (b k k' : N) : k <> k' -> b * k' + b <= b * k \/ b * k + b <= b * k'.
Proof. intros H. nia. Qed.

Definition slotN (b : N) (raw : list N) (i : N) : N :=
  (nth (N.to_nat (i / spec_vpl b)) raw 0 / 2 ^ (b * (i mod spec_vpl b))) mod 2 ^ b.

Lemma slot_slotN b raw j : slot b raw j = slotN b raw (N.of_nat j).
Proof. reflexivity. Qed.

Lemma slotN_get b raw i :
  slotN b raw i = get_long (nth (N.to_nat (i / spec_vpl b)) raw 0) (N.ones b) (b * (i mod spec_vpl b)).
Proof. unfold slotN. rewrite get_long_spec. reflexivity. Qed.

Lemma slotN_lt b raw i : slotN b raw i < 2 ^ b.
Proof. unfold slotN. apply N.mod_lt. apply N.pow_nonzero. discriminate. Qed.

Lemma nth_lt64 raw c : Forall (fun l => l < 2^64) raw -> nth c raw 0 < 2^64.
Proof.
  intros H. destruct (Nat.lt_ge_cases c (length raw)) as [L|L].
  - rewrite Forall_forall in H. apply H. apply nth_In. exact L.
  - rewrite nth_overflow by exact L. apply pow2_pos.
Qed.

(* writing field i changes field i and no other field of the whole array, padding fields included *)
Lemma slot_set b raw i v j : 1 <= b <= 64 -> Forall (fun l => l < 2^64) raw ->
  (N.to_nat (i / spec_vpl b) < length raw)%nat -> v < 2^b ->
  slotN b (upd_nth raw (N.to_nat (i / spec_vpl b))
             (set_long (nth (N.to_nat (i / spec_vpl b)) raw 0) (N.ones b) (b * (i mod spec_vpl b)) v)) j
  = if j =? i then v else slotN b raw j.
Proof.
  intros Hb Hraw Hc Hv.
  pose proof (vpl_pos b Hb) as HV.
  assert (Hk : i mod spec_vpl b < spec_vpl b) by (apply N.mod_lt; lia).
  assert (Hk' : j mod spec_vpl b < spec_vpl b) by (apply N.mod_lt; lia).
  pose proof (field_fit b _ Hb Hk) as Hfit.
  pose proof (nth_lt64 raw (N.to_nat (i / spec_vpl b)) Hraw) as Hl.
  pose proof (N.div_mod i (spec_vpl b) ltac:(lia)) as Di.
  pose proof (N.div_mod j (spec_vpl b) ltac:(lia)) as Dj.
  rewrite !slotN_get.
  destruct (N.eq_dec (j / spec_vpl b) (i / spec_vpl b)) as [Ec|Ec].
  - rewrite Ec. rewrite nth_upd_nth_eq by exact Hc.
    destruct (N.eq_dec (j mod spec_vpl b) (i mod spec_vpl b)) as [Ek|Ek].
    + rewrite Ek. rewrite get_set_same by auto.
      assert (j = i) by (rewrite Ec, Ek in Dj; lia). subst j. rewrite N.eqb_refl. reflexivity.
    + rewrite get_set_other by (auto; apply field_disjoint; auto).
      destruct (N.eqb_spec j i) as [E|E]; [subst j; contradiction|reflexivity].
  - rewrite nth_upd_nth_neq by lia.
    destruct (N.eqb_spec j i) as [E|E]; [subst j; contradiction|reflexivity].
Qed.

(* ---------- well-formed storages and their abstraction ---------- *)

Definition wbits (st : bstore) : N := Z.to_N (bits st).
Definition abs (st : bstore) : list N := unpack (wbits st) (Z.to_nat (blen st)) (data st).

Record wf (st : bstore) : Prop := mkWf {
  wf_b : (1 <= bits st <= 63)%Z;
  wf_vpl : vpl st = Z.of_N (spec_vpl (wbits st));
  wf_mask : mask st = N.ones (wbits st);
  wf_len : (0 <= blen st)%Z;
  wf_size : Z.of_nat (length (data st)) = ((blen st + vpl st - 1) / vpl st)%Z;
  wf_data : Forall (fun l => l < 2^64) (data st) }.

Lemma abs_length st : length (abs st) = Z.to_nat (blen st).
Proof. unfold abs, unpack. rewrite map_length, seq_length. reflexivity. Qed.

Lemma abs_nth st j : (j < Z.to_nat (blen st))%nat -> nth j (abs st) 0 = slotN (wbits st) (data st) (N.of_nat j).
Proof. intros H. unfold abs, unpack. rewrite nth_map_seq by exact H. apply slot_slotN. Qed.

Lemma idx_lt (n V i : Z) : (1 <= V -> 0 <= i < n -> i / V < (n + V - 1) / V)%Z.
Proof.
  intros HV Hi.
  replace (n + V - 1)%Z with ((n - 1) + 1 * V)%Z by lia.
  rewrite Z.div_add by lia.
  assert (i / V <= (n - 1) / V)%Z by (apply Z.div_le_mono; lia). lia.
Qed.

Lemma locate_ok st (i : N) : wf st -> (Z.of_N i < blen st)%Z ->
  let c := N.to_nat (i / spec_vpl (wbits st)) in
  locate st (Z.of_N i) = Some (c, wbits st * (i mod spec_vpl (wbits st)), nth c (data st) 0)
  /\ (c < length (data st))%nat.
Proof.
  intros W Hi c. destruct W as [Hb Hvpl Hmask Hlen Hsize Hdata].
  set (b := wbits st) in *. set (V := spec_vpl b) in *.
  assert (Hb' : 1 <= b <= 64) by (unfold b, wbits; lia).
  pose proof (vpl_pos b Hb') as HV.
  assert (Hc : (c < length (data st))%nat).
  { pose proof (idx_lt (blen st) (Z.of_N V) (Z.of_N i) ltac:(lia) ltac:(lia)) as H.
    rewrite Hvpl in Hsize. rewrite <- Hsize in H. rewrite <- N2Z.inj_div in H. unfold c. lia. }
  split; [|exact Hc].
  unfold locate, calc_index. rewrite Hvpl. fold V.
  rewrite <- N2Z.inj_quot.
  assert (Eo : ((Z.of_N i - Z.of_N (i / V) * Z.of_N V) * bits st = Z.of_N (b * (i mod V)))%Z).
  { pose proof (N.div_mod i V ltac:(lia)) as D.
    assert (Z.of_N i - Z.of_N (i / V) * Z.of_N V = Z.of_N (i mod V))%Z by nia.
    rewrite H. unfold b, wbits. rewrite N2Z.inj_mul. rewrite Z2N.id by lia. lia. }
  rewrite Eo.
  assert (Eg : ((Z.of_N (i / V) <? 0) || (Z.of_N (b * (i mod V)) <? 0)
                || (Z.of_N (lenN (data st)) <=? Z.of_N (i / V)))%Z = false).
  { unfold lenN. unfold c in Hc. lia. }
  rewrite Eg. rewrite N2Z.id.
  replace (Z.to_nat (Z.of_N (i / V))) with c by (unfold c; lia).
  rewrite (nth_error_nth' (data st) c 0 Hc). reflexivity.
Qed.

Lemma wf_set_data st d : wf st -> length d = length (data st) -> Forall (fun l => l < 2^64) d ->
  wf (set_data st d).
Proof.
  intros [Hb Hvpl Hmask Hlen Hsize Hdata] Hl Hd.
  constructor; cbn [set_data bits vpl mask blen data]; auto. rewrite Hl. exact Hsize.
Qed.

Lemma wf_bits st : wf st -> 1 <= wbits st <= 63.
Proof. intros [Hb _ _ _ _ _]. unfold wbits. lia. Qed.

(* the stored longs after an accepted write, and the abstract array after it *)
Definition stored (st : bstore) (i v : N) : bstore :=
  let c := N.to_nat (i / spec_vpl (wbits st)) in
  set_data st (upd_nth (data st) c
     (set_long (nth c (data st) 0) (mask st) (wbits st * (i mod spec_vpl (wbits st))) v)).

Lemma stored_wf st i v : wf st -> (Z.of_N i < blen st)%Z -> v < 2 ^ wbits st -> wf (stored st i v).
Proof.
  intros W Hi Hv. pose proof (wf_bits st W) as Hb.
  destruct (locate_ok st i W Hi) as [_ Hc].
  apply wf_set_data; [exact W | apply upd_nth_length |].
  apply Forall_upd_nth; [apply W|].
  rewrite (wf_mask st W). apply set_long_lt; auto.
  - apply nth_lt64, W.
  - rewrite N.add_comm, N.add_comm. apply field_fit; [lia|].
    apply N.mod_lt. pose proof (vpl_pos (wbits st) ltac:(lia)). lia.
Qed.

Lemma stored_abs st i v : wf st -> (Z.of_N i < blen st)%Z -> v < 2 ^ wbits st ->
  abs (stored st i v) = upd_nth (abs st) (N.to_nat i) v.
Proof.
  intros W Hi Hv. pose proof (wf_bits st W) as Hb.
  destruct (locate_ok st i W Hi) as [_ Hc].
  apply (nth_ext _ _ 0 0).
  - rewrite upd_nth_length, !abs_length. reflexivity.
  - intros n Hn. rewrite abs_length in Hn. cbn [stored set_data blen] in Hn.
    rewrite abs_nth by exact Hn.
    unfold stored at 1 2. cbn [set_data wbits bits data]. fold (wbits st).
    rewrite (wf_mask st W).
    rewrite slot_set; auto; [|lia|apply W].
    destruct (N.eqb_spec (N.of_nat n) i) as [E|E].
    + replace n with (N.to_nat i) by lia. rewrite nth_upd_nth_eq; [reflexivity|].
      rewrite abs_length. lia.
    + rewrite nth_upd_nth_neq by lia. rewrite abs_nth by exact Hn. reflexivity.
Qed.

Lemma u64_small v : (0 <= v < 2^63)%Z -> u64 v = Z.to_N v.
Proof.
  intros H. unfold u64, wrapu. change (2 ^ Z.of_N 64)%Z with 18446744073709551616%Z.
  rewrite Z.mod_small; [reflexivity|]. change (2^63)%Z with 9223372036854775808%Z in H. lia.
Qed.

Lemma sx64_small x : x < 2^63 -> sx64 x = Z.of_N x.
Proof.
  intros H. unfold sx64, sx. change (64 - 1) with 63.
  destruct (N.ltb_spec x (2^63)); [reflexivity|lia].
Qed.

Lemma pow2_mono a b : a <= b -> 2^a <= 2^b.
Proof. intros. apply N.pow_le_mono_r; [discriminate|auto]. Qed.

Lemma bad_value_spec st v : wf st -> in_sw 64 v ->
  bad_value st v = ((v <? 0) || (2 ^ Z.of_N (wbits st) <=? v))%Z.
Proof.
  intros W Hv. unfold bad_value. rewrite (wf_mask st W).
  destruct (Z.ltb_spec v 0) as [L|L]; [reflexivity|]. cbn [orb].
  unfold in_sw in Hv. change (Z.of_N 64 - 1)%Z with 63%Z in Hv.
  rewrite u64_small by lia.
  rewrite N.ones_equiv. pose proof (pow2_pos (wbits st)) as P.
  assert (E : Z.of_N (2 ^ wbits st) = (2 ^ Z.of_N (wbits st))%Z) by (rewrite N2Z.inj_pow; reflexivity).
  destruct (N.ltb_spec (N.pred (2 ^ wbits st)) (Z.to_N v)); destruct (Z.leb_spec (2 ^ Z.of_N (wbits st)) v); lia.
Qed.

Lemma bad_index_spec st i : bad_index st i = ((i <? 0) || (Z.of_nat (length (abs st)) <=? i))%Z \/ (blen st < 0)%Z.
Proof. unfold bad_index. rewrite abs_length. destruct (Z.ltb_spec (blen st) 0); [right; lia|left; lia]. Qed.

Definition op_ints (o : aop) : Prop :=
  match o with AGet _ => True | ASet _ v | ASwap _ v => in_sw 64 v end.

Lemma vpl_nz st : wf st -> (vpl st =? 0)%Z = false.
Proof.
  intros W. rewrite (wf_vpl st W). pose proof (wf_bits st W).
  pose proof (vpl_pos (wbits st) ltac:(lia)). lia.
Qed.

Lemma get_value st i : wf st -> (Z.of_N i < blen st)%Z ->
  sx64 (get_long (nth (N.to_nat (i / spec_vpl (wbits st))) (data st) 0) (mask st)
                 (wbits st * (i mod spec_vpl (wbits st))))
  = Z.of_N (nth (N.to_nat i) (abs st) 0).
Proof.
  intros W Hi. pose proof (wf_bits st W) as Hb.
  rewrite abs_nth by lia. rewrite N2Nat.id. rewrite slotN_get, (wf_mask st W).
  apply sx64_small.
  eapply N.lt_le_trans; [apply get_long_lt|]. apply pow2_mono. lia.
Qed.

(* one operation: the model does to the abstraction exactly what the checked array does *)
Theorem step_refines st o : wf st -> op_ints o ->
  wf (fst (bs_step st o)) /\ bits (fst (bs_step st o)) = bits st /\ blen (fst (bs_step st o)) = blen st /\
  spec_step (wbits st) (abs st) o = (abs (fst (bs_step st o)), snd (bs_step st o)).
Proof.
  intros W Hop. pose proof (wf_bits st W) as Hb. pose proof (wf_len st W) as Hlen.
  destruct o as [i|i v|i v]; cbn [bs_step spec_step op_ints] in *.
  - (* Get *)
    unfold bs_get. rewrite (vpl_nz st W).
    destruct (bad_index_spec st i) as [Ei|Ei]; [|lia]. rewrite <- Ei.
    destruct (bad_index st i) eqn:Bi; cbn [fst snd]; [auto|].
    unfold bad_index in Bi.
    assert (Hi : (Z.of_N (Z.to_N i) < blen st)%Z) by lia.
    destruct (locate_ok st (Z.to_N i) W Hi) as [Hloc Hc].
    replace (Z.of_N (Z.to_N i)) with i in Hloc by lia. rewrite Hloc. cbn [fst snd].
    split; [exact W|]. split; [reflexivity|]. split; [reflexivity|].
    rewrite get_value by auto. replace (N.to_nat (Z.to_N i)) with (Z.to_nat i) by lia. reflexivity.
  - (* Set *)
    unfold bs_set. rewrite (vpl_nz st W). rewrite <- (bad_value_spec st v W Hop).
    destruct (bad_value st v) eqn:Bv; cbn [fst snd]; [auto|].
    destruct (bad_index_spec st i) as [Ei|Ei]; [|lia]. rewrite <- Ei.
    destruct (bad_index st i) eqn:Bi; cbn [fst snd]; [auto|].
    unfold bad_index in Bi.
    assert (Hi : (Z.of_N (Z.to_N i) < blen st)%Z) by lia.
    destruct (locate_ok st (Z.to_N i) W Hi) as [Hloc Hc].
    replace (Z.of_N (Z.to_N i)) with i in Hloc by lia. rewrite Hloc. cbn [fst snd].
    rewrite (bad_value_spec st v W Hop) in Bv.
    assert (Hv : Z.to_N v < 2 ^ wbits st).
    { assert (E : Z.of_N (2 ^ wbits st) = (2 ^ Z.of_N (wbits st))%Z) by (rewrite N2Z.inj_pow; reflexivity). lia. }
    assert (Hu : u64 v = Z.to_N v).
    { apply u64_small. unfold in_sw in Hop. change (Z.of_N 64 - 1)%Z with 63%Z in Hop. lia. }
    rewrite Hu. fold (stored st (Z.to_N i) (Z.to_N v)).
    split; [apply stored_wf; auto|]. split; [reflexivity|]. split; [reflexivity|].
    rewrite stored_abs by auto. replace (N.to_nat (Z.to_N i)) with (Z.to_nat i) by lia. reflexivity.
  - (* Swap *)
    unfold bs_swap. rewrite (vpl_nz st W). rewrite <- (bad_value_spec st v W Hop).
    destruct (bad_value st v) eqn:Bv; cbn [fst snd]; [auto|].
    destruct (bad_index_spec st i) as [Ei|Ei]; [|lia]. rewrite <- Ei.
    destruct (bad_index st i) eqn:Bi; cbn [fst snd]; [auto|].
    unfold bad_index in Bi.
    assert (Hi : (Z.of_N (Z.to_N i) < blen st)%Z) by lia.
    destruct (locate_ok st (Z.to_N i) W Hi) as [Hloc Hc].
    replace (Z.of_N (Z.to_N i)) with i in Hloc by lia. rewrite Hloc. cbn [fst snd].
    rewrite (bad_value_spec st v W Hop) in Bv.
    assert (Hv : Z.to_N v < 2 ^ wbits st).
    { assert (E : Z.of_N (2 ^ wbits st) = (2 ^ Z.of_N (wbits st))%Z) by (rewrite N2Z.inj_pow; reflexivity). lia. }
    assert (Hu : u64 v = Z.to_N v).
    { apply u64_small. unfold in_sw in Hop. change (Z.of_N 64 - 1)%Z with 63%Z in Hop. lia. }
    rewrite Hu. fold (stored st (Z.to_N i) (Z.to_N v)).
    split; [apply stored_wf; auto|]. split; [reflexivity|]. split; [reflexivity|].
    rewrite stored_abs by auto. rewrite get_value by auto.
    replace (N.to_nat (Z.to_N i)) with (Z.to_nat i) by lia. reflexivity.
Qed.

(* all histories *)
Theorem run_refines : forall ops st, wf st -> Forall op_ints ops ->
  wf (fst (bs_run st ops)) /\ bits (fst (bs_run st ops)) = bits st /\ blen (fst (bs_run st ops)) = blen st /\
  spec_run (wbits st) (abs st) ops = (abs (fst (bs_run st ops)), snd (bs_run st ops)).
Proof.
  induction ops as [|o t IH]; intros st W Hops.
  - cbn. auto.
  - inversion Hops as [|? ? Ho Ht]; subst.
    destruct (step_refines st o W Ho) as (W1 & B1 & L1 & S1).
    cbn [bs_run spec_run]. rewrite S1.
    destruct (bs_step st o) as [s1 r] eqn:E1. cbn [fst snd] in *.
    destruct (IH s1 W1 Ht) as (W2 & B2 & L2 & S2).
    assert (Eb : wbits s1 = wbits st) by (unfold wbits; rewrite B1; reflexivity).
    rewrite Eb in S2. rewrite S2.
    destruct (bs_run s1 t) as [s2 rs] eqn:E2. cbn [fst snd] in *.
    repeat split; try congruence; apply W2.
Qed.

(* a call that panics leaves the very same storage (any storage, well formed or not) *)
Lemma panic_unchanged st o w : snd (bs_step st o) = OPanic w -> fst (bs_step st o) = st.
Proof.
  destruct o as [i|i v|i v]; cbn [bs_step]; unfold bs_get, bs_set, bs_swap;
    destruct (vpl st =? 0)%Z; cbn [fst snd]; try discriminate; auto;
    try (destruct (bad_value st v); cbn [fst snd]; auto);
    destruct (bad_index st i); cbn [fst snd]; auto;
    destruct (locate st i) as [[[c off] l]|]; cbn [fst snd]; auto; discriminate.
Qed.

Definition valid_op (b : N) (n : Z) (o : aop) : bool :=
  match o with
  | AGet i => ((0 <=? i) && (i <? n))%Z
  | ASet i v | ASwap i v => ((0 <=? i) && (i <? n) && (0 <=? v) && (v <? 2 ^ Z.of_N b))%Z
  end.
Definition is_panic (r : outcome) : bool := match r with OPanic _ => true | _ => false end.

Lemma rejected_iff st o : wf st -> op_ints o ->
  is_panic (snd (bs_step st o)) = negb (valid_op (wbits st) (blen st) o).
Proof.
  intros W Ho. destruct (step_refines st o W Ho) as (_ & _ & _ & S).
  assert (E : snd (bs_step st o) = snd (spec_step (wbits st) (abs st) o)) by (rewrite S; reflexivity).
  rewrite E. pose proof (wf_len st W) as Hl.
  destruct o as [i|i v|i v]; cbn [spec_step valid_op]; rewrite abs_length;
    replace (Z.of_nat (Z.to_nat (blen st))) with (blen st) by lia.
  - destruct (Z.ltb_spec i 0); destruct (Z.leb_spec (blen st) i); cbn; lia.
  - destruct (Z.ltb_spec v 0); destruct (Z.leb_spec (2 ^ Z.of_N (wbits st)) v); cbn [orb fst snd is_panic];
      try lia; destruct (Z.ltb_spec i 0); destruct (Z.leb_spec (blen st) i); cbn; lia.
  - destruct (Z.ltb_spec v 0); destruct (Z.leb_spec (2 ^ Z.of_N (wbits st)) v); cbn [orb fst snd is_panic];
      try lia; destruct (Z.ltb_spec i 0); destruct (Z.leb_spec (blen st) i); cbn; lia.
Qed.

(* bits = 0 *)
Lemma b0_new n raw : bs_new 0 n raw = ROk (mkBS [] 0 0%Z n 0%Z).
Proof. reflexivity. Qed.
Lemma b0_ops st : vpl st = 0%Z -> forall i v,
  bs_get st i = (st, ORet 0%Z) /\ bs_set st i v = (st, OUnit) /\ bs_swap st i v = (st, ORet 0%Z).
Proof. intros H i v. unfold bs_get, bs_set, bs_swap. rewrite H. cbn. auto. Qed.

(* ---------- constructor, size rule ---------- *)

Lemma mk_mask_ones bts : (1 <= bts <= 63)%Z -> mk_mask bts = N.ones (Z.to_N bts).
Proof.
  intros H. unfold mk_mask. rewrite (shl64_small 1 (Z.to_N bts) 1); [|reflexivity|lia].
  rewrite N.ones_equiv. unfold two64.
  assert (P : 2 ^ Z.to_N bts < 2 ^ 64) by (apply N.pow_lt_mono_r; lia).
  pose proof (pow2_pos (Z.to_N bts)) as Q.
  change (2 ^ 64) with 18446744073709551616 in *.
  set (p := 2 ^ Z.to_N bts) in *. lia.
Qed.

Lemma quot64 bts : (1 <= bts <= 63)%Z -> Z.quot 64 bts = Z.of_N (spec_vpl (Z.to_N bts)).
Proof.
  intros H. unfold spec_vpl. rewrite N2Z.inj_quot. rewrite Z2N.id by lia. reflexivity.
Qed.

Definition size_of (bts n : Z) : Z := ((n + Z.quot 64 bts - 1) / Z.quot 64 bts)%Z.

Lemma calc_size_ok bts n : (1 <= bts <= 63)%Z -> (0 <= n)%Z ->
  calc_size bts n = Some (size_of bts n) /\ (0 <= size_of bts n)%Z.
Proof.
  intros Hb Hn. unfold calc_size, size_of.
  pose proof (quot64 bts Hb) as Q. pose proof (vpl_pos (Z.to_N bts) ltac:(lia)) as P.
  destruct (Z.eqb_spec bts 0); [lia|].
  destruct (Z.eqb_spec (Z.quot 64 bts) 0); [lia|].
  set (v := Z.quot 64 bts) in *.
  rewrite Z.quot_div_nonneg by lia. split; [reflexivity|]. apply Z.div_pos; lia.
Qed.

Lemma size_of_spec bts n : (1 <= bts <= 63)%Z -> (0 <= n)%Z ->
  size_of bts n = Z.of_nat (spec_size (Z.to_N bts) (Z.to_nat n)).
Proof.
  intros Hb Hn. unfold size_of, spec_size. rewrite (quot64 bts Hb).
  pose proof (vpl_pos (Z.to_N bts) ltac:(lia)) as P.
  set (V := spec_vpl (Z.to_N bts)) in *.
  rewrite N_nat_Z. rewrite N2Z.inj_div. f_equal. lia.
Qed.

Lemma new_wf bts n d : (1 <= bts <= 63)%Z -> (0 <= n)%Z ->
  Z.of_nat (length d) = size_of bts n -> Forall (fun l => l < 2^64) d ->
  wf (mkBS d (mk_mask bts) bts n (Z.quot 64 bts)).
Proof.
  intros Hb Hn Hd Hf. constructor; cbn [bits vpl mask blen data wbits]; auto.
  - apply quot64; auto.
  - apply mk_mask_ones; auto.
Qed.

Lemma repeat_nth0 m c : nth c (repeat 0 m) 0 = 0.
Proof. revert c; induction m as [|m IH]; intros [|c]; cbn; auto. Qed.

Lemma Forall_repeat0 m : Forall (fun l => l < 2^64) (repeat 0 m).
Proof. induction m; cbn; constructor; auto. reflexivity. Qed.

Lemma new_zero bts n : (1 <= bts <= 63)%Z -> (0 <= n)%Z ->
  exists st, bs_new bts n None = ROk st /\ wf st /\ bits st = bts /\ blen st = n /\
             abs st = repeat 0 (Z.to_nat n) /\ data st = repeat 0 (Z.to_nat (size_of bts n)).
Proof.
  intros Hb Hn. destruct (calc_size_ok bts n Hb Hn) as [Hs Hp].
  unfold bs_new. rewrite Hs.
  destruct (Z.eqb_spec bts 0); [lia|]. destruct (Z.ltb_spec bts 0); [lia|].
  destruct (Z.ltb_spec (size_of bts n) 0); [lia|].
  eexists. split; [reflexivity|].
  split; [apply new_wf; auto; [rewrite repeat_length; lia | apply Forall_repeat0]|].
  cbn [bits blen data]. repeat split.
  apply (nth_ext _ _ 0 0).
  - rewrite abs_length, repeat_length. reflexivity.
  - intros j Hj. rewrite abs_length in Hj. cbn [blen] in Hj. rewrite abs_nth by exact Hj.
    unfold slotN. cbn [data]. rewrite !repeat_nth0.
    rewrite N.div_0_l by (apply N.pow_nonzero; discriminate).
    apply N.mod_0_l. apply N.pow_nonzero; discriminate.
Qed.

Lemma new_raw bts n raw : (1 <= bts <= 63)%Z -> (0 <= n)%Z ->
  bs_new bts n (Some raw) =
  if (Z.of_nat (length raw) =? size_of bts n)%Z
  then ROk (mkBS raw (mk_mask bts) bts n (Z.quot 64 bts)) else RPanic pNew.
Proof.
  intros Hb Hn. destruct (calc_size_ok bts n Hb Hn) as [Hs Hp].
  unfold bs_new. rewrite Hs.
  destruct (Z.eqb_spec bts 0); [lia|]. destruct (Z.ltb_spec bts 0); [lia|].
  destruct (Z.ltb_spec (size_of bts n) 0); [lia|].
  unfold lenN. rewrite nat_N_Z. reflexivity.
Qed.

Lemma wf_record st : wf st -> mkBS (data st) (mk_mask (bits st)) (bits st) (blen st) (Z.quot 64 (bits st)) = st.
Proof.
  intros W. rewrite mk_mask_ones by apply W. rewrite quot64 by apply W.
  fold (wbits st). rewrite <- (wf_mask st W), <- (wf_vpl st W). destruct st; reflexivity.
Qed.

Lemma wf_size_of st : wf st -> Z.of_nat (length (data st)) = size_of (bits st) (blen st).
Proof.
  intros W. rewrite (wf_size st W). unfold size_of. rewrite quot64 by apply W.
  fold (wbits st). rewrite <- (wf_vpl st W). reflexivity.
Qed.

Lemma accept_back st : wf st -> bs_new (bits st) (blen st) (Some (data st)) = ROk st.
Proof.
  intros W. rewrite new_raw by apply W. rewrite (wf_size_of st W), Z.eqb_refl.
  rewrite wf_record by exact W. reflexivity.
Qed.

Lemma fix_result st bts : (1 <= bts <= 63)%Z -> (0 <= blen st)%Z ->
  bs_fix st bts = (mkBS (data st) (mk_mask bts) bts (blen st) (Z.quot 64 bts),
                   if (Z.of_nat (length (data st)) =? size_of bts (blen st))%Z then OUnit else OErr).
Proof.
  intros Hb Hn. destruct (calc_size_ok bts (blen st) Hb Hn) as [Hs Hp].
  unfold bs_fix. rewrite Hs.
  destruct (Z.eqb_spec bts 0); [lia|]. destruct (Z.ltb_spec bts 0); [lia|].
  unfold lenN. rewrite nat_N_Z.
  destruct (Z.of_nat (length (data st)) =? size_of bts (blen st))%Z; reflexivity.
Qed.
