(* C11 proofs, part 4: the pointwise array laws *)
From Coq Require Import List Arith NArith ZArith Lia Bool ZifyN ZifyNat ZifyBool.
From GoMC Require Import Base.Bytes Base.Bits Base.Dec Gen.Consts Model.C05 Model.C11 Proofs.C11.
Import ListNotations.
Open Scope N_scope.
Ltac Zify.zify_post_hook ::= Z.to_euclidean_division_equations.

Lemma get_state st i : fst (bs_get st i) = st.
Proof.
  unfold bs_get. destruct (vpl st =? 0)%Z; [reflexivity|].
  destruct (bad_index st i); [reflexivity|]. destruct (locate st i) as [[[c off] l]|]; reflexivity.
Qed.

(* Swap is Set plus the Get made just before it - on every storage, with every argument *)
Lemma swap_is_set_get st i v :
  bs_swap st i v = (fst (bs_set st i v),
                    match snd (bs_set st i v) with OUnit => snd (bs_get st i) | r => r end).
Proof.
  unfold bs_swap, bs_set, bs_get. destruct (vpl st =? 0)%Z; [reflexivity|].
  destruct (bad_value st v); [reflexivity|]. destruct (bad_index st i); [reflexivity|].
  destruct (locate st i) as [[[c off] l]|]; reflexivity.
Qed.

Lemma get_in_range st j : wf st -> (0 <= j < blen st)%Z ->
  bs_get st j = (st, ORet (Z.of_N (nth (Z.to_nat j) (abs st) 0))).
Proof.
  intros W Hj. destruct (step_refines st (AGet j) W I) as (_ & _ & _ & S).
  cbn [bs_step spec_step] in S. rewrite abs_length in S.
  destruct (Z.ltb_spec j 0); [lia|]. destruct (Z.leb_spec (Z.of_nat (Z.to_nat (blen st))) j); [lia|].
  cbn [orb] in S. inversion S as [[Ha Hr]].
  rewrite (surjective_pairing (bs_get st j)), get_state, <- Hr. reflexivity.
Qed.

Lemma set_in_range st i v : wf st -> (0 <= i < blen st)%Z -> (0 <= v < 2 ^ bits st)%Z ->
  wf (fst (bs_set st i v)) /\ snd (bs_set st i v) = OUnit /\
  bits (fst (bs_set st i v)) = bits st /\ blen (fst (bs_set st i v)) = blen st /\
  abs (fst (bs_set st i v)) = upd_nth (abs st) (Z.to_nat i) (Z.to_N v).
Proof.
  intros W Hi Hv. pose proof (wf_b st W) as Hb.
  assert (Hsw : in_sw 64 v).
  { unfold in_sw. change (Z.of_N 64 - 1)%Z with 63%Z.
    assert (2 ^ bits st <= 2 ^ 63)%Z by (apply Z.pow_le_mono_r; lia). lia. }
  destruct (step_refines st (ASet i v) W Hsw) as (W1 & B1 & L1 & S).
  cbn [bs_step spec_step] in *. rewrite abs_length in S.
  unfold wbits in S at 1. rewrite Z2N.id in S by lia.
  destruct (Z.ltb_spec v 0); [lia|]. destruct (Z.leb_spec (2 ^ bits st) v); [lia|].
  destruct (Z.ltb_spec i 0); [lia|]. destruct (Z.leb_spec (Z.of_nat (Z.to_nat (blen st))) i); [lia|].
  cbn [orb] in S. inversion S as [[Ha Hr]]. auto.
Qed.

(* Get after Set: the written index reads back the value, every other index is untouched *)
Theorem get_set st i v j : wf st -> (0 <= i < blen st)%Z -> (0 <= v < 2 ^ bits st)%Z -> (0 <= j < blen st)%Z ->
  snd (bs_get (fst (bs_set st i v)) j) = if (i =? j)%Z then ORet v else snd (bs_get st j).
Proof.
  intros W Hi Hv Hj. destruct (set_in_range st i v W Hi Hv) as (W1 & _ & _ & L1 & A1).
  rewrite (get_in_range _ j W1) by lia. rewrite (get_in_range st j W Hj). cbn [snd]. rewrite A1.
  destruct (Z.eqb_spec i j) as [E|E].
  - subst j. rewrite nth_upd_nth_eq by (rewrite abs_length; lia). f_equal. lia.
  - rewrite nth_upd_nth_neq by lia. reflexivity.
Qed.

(* raw level: an accepted Set rewrites exactly the b bits of field i and no other bit of any long *)
Lemma set_accepted st i v : wf st -> (0 <= i < blen st)%Z -> (0 <= v < 2 ^ bits st)%Z ->
  bs_set st i v = (stored st (Z.to_N i) (Z.to_N v), OUnit).
Proof.
  intros W Hi Hv. pose proof (wf_b st W) as Hb.
  assert (Hsw : in_sw 64 v).
  { unfold in_sw. change (Z.of_N 64 - 1)%Z with 63%Z.
    assert (2 ^ bits st <= 2 ^ 63)%Z by (apply Z.pow_le_mono_r; lia). lia. }
  unfold bs_set. rewrite (vpl_nz st W).
  assert (Bv : bad_value st v = false).
  { rewrite (bad_value_spec st v W Hsw). unfold wbits. rewrite Z2N.id by lia. lia. }
  assert (Bi : bad_index st i = false) by (unfold bad_index; lia).
  rewrite Bv, Bi.
  assert (Hi' : (Z.of_N (Z.to_N i) < blen st)%Z) by lia.
  destruct (locate_ok st (Z.to_N i) W Hi') as [Hloc Hc].
  replace (Z.of_N (Z.to_N i)) with i in Hloc by lia. rewrite Hloc.
  rewrite u64_small; [reflexivity|].
  assert (2 ^ bits st <= 2 ^ 63)%Z by (apply Z.pow_le_mono_r; lia). lia.
Qed.

Theorem set_raw_bits st i v c j : wf st -> (0 <= i < blen st)%Z -> (0 <= v < 2 ^ bits st)%Z ->
  let b := wbits st in
  let ci := N.to_nat (Z.to_N i / spec_vpl b) in
  let off := b * (Z.to_N i mod spec_vpl b) in
  N.testbit (nth c (data (fst (bs_set st i v))) 0) j =
  if (c =? ci)%nat && (off <=? j) && (j <? off + b)
  then N.testbit (Z.to_N v) (j - off) else N.testbit (nth c (data st) 0) j.
Proof.
  intros W Hi Hv b ci off. rewrite set_accepted by auto. cbn [fst].
  unfold stored. cbn [set_data data]. fold b. fold ci. fold off.
  pose proof (wf_bits st W) as Hb. fold b in Hb.
  assert (Hi' : (Z.of_N (Z.to_N i) < blen st)%Z) by lia.
  destruct (locate_ok st (Z.to_N i) W Hi') as [_ Hc]. fold b in Hc. fold ci in Hc.
  destruct (Nat.eqb_spec c ci) as [E|E].
  - subst c. rewrite nth_upd_nth_eq by exact Hc. rewrite (wf_mask st W). fold b.
    assert (Hvb : Z.to_N v < 2 ^ b).
    { assert (E : Z.of_N (2 ^ b) = (2 ^ Z.of_N b)%Z) by (rewrite N2Z.inj_pow; reflexivity).
      unfold b, wbits in *. rewrite Z2N.id in E by lia. lia. }
    rewrite set_long_bit; auto.
    + apply nth_lt64, W.
    + unfold off. apply field_fit; [lia|]. apply N.mod_lt.
      pose proof (vpl_pos b ltac:(lia)). lia.
  - rewrite nth_upd_nth_neq by lia. reflexivity.
Qed.
