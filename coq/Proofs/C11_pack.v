(* C11 proofs, part 3: the packing specification (pack / unpack are inverse) and Raw() = pack *)
From Coq Require Import List Arith NArith ZArith Lia Bool ZifyN ZifyNat ZifyBool.
From GoMC Require Import Base.Bytes Base.Bits Base.Dec Gen.Consts Model.C05 Model.C11 Proofs.C11.
Import ListNotations.
Open Scope N_scope.
Ltac Zify.zify_post_hook ::= Z.to_euclidean_division_equations.

(* ---------- base-B digits ---------- *)

Lemma undig_digit B : 1 <= B -> forall (k : nat) ds, Forall (fun d => d < B) ds ->
  (undig B ds / B ^ N.of_nat k) mod B = nth k ds 0.
Proof.
  intros HB. induction k as [|k IH]; intros ds Hds.
  - change (B ^ N.of_nat 0) with 1. rewrite N.div_1_r.
    destruct ds as [|d t]; cbn [undig nth]; [apply N.mod_0_l; lia|].
    inversion Hds; subst. rewrite N.mul_comm, N.mod_add by lia. apply N.mod_small; auto.
  - destruct ds as [|d t]; cbn [undig nth].
    + rewrite N.div_0_l by (apply N.pow_nonzero; lia). apply N.mod_0_l; lia.
    + inversion Hds as [|? ? Hd Ht]; subst.
      replace (N.of_nat (S k)) with (N.succ (N.of_nat k)) by lia.
      rewrite N.pow_succ_r'. rewrite <- N.div_div by (try apply N.pow_nonzero; lia).
      replace ((d + B * undig B t) / B) with (undig B t).
      * apply IH; auto.
      * rewrite N.mul_comm, N.div_add by lia. rewrite N.div_small by auto. reflexivity.
Qed.

Lemma undig_lt B : 1 <= B -> forall ds, Forall (fun d => d < B) ds -> undig B ds < B ^ N.of_nat (length ds).
Proof.
  intros HB. induction 1 as [|d t Hd Ht IH]; cbn [undig length]; [cbn; lia|].
  replace (N.of_nat (S (length t))) with (N.succ (N.of_nat (length t))) by lia.
  rewrite N.pow_succ_r'. nia.
Qed.

Lemma map_seq_S {A} (f : nat -> A) m : map f (seq 0 (S m)) = f 0%nat :: map (fun k => f (S k)) (seq 0 m).
Proof. cbn [seq map]. f_equal. rewrite <- seq_shift, map_map. reflexivity. Qed.

Lemma undig_digits B : 1 <= B -> forall (m : nat) x, x < B ^ N.of_nat m ->
  undig B (map (fun k => (x / B ^ N.of_nat k) mod B) (seq 0 m)) = x.
Proof.
  intros HB. induction m as [|m IH]; intros x Hx.
  - change (B ^ N.of_nat 0) with 1 in Hx. cbn. lia.
  - rewrite map_seq_S. cbn [undig]. change (B ^ N.of_nat 0) with 1. rewrite N.div_1_r.
    replace (N.of_nat (S m)) with (N.succ (N.of_nat m)) in Hx by lia. rewrite N.pow_succ_r' in Hx.
    assert (Hq : x / B < B ^ N.of_nat m) by (apply N.div_lt_upper_bound; lia).
    assert (E : map (fun k => (x / B ^ N.of_nat (S k)) mod B) (seq 0 m)
              = map (fun k => (x / B / B ^ N.of_nat k) mod B) (seq 0 m)).
    { apply map_ext. intros k. replace (N.of_nat (S k)) with (N.succ (N.of_nat k)) by lia.
      rewrite N.pow_succ_r'. rewrite N.div_div by (try apply N.pow_nonzero; lia). reflexivity. }
    rewrite E. rewrite IH by exact Hq. pose proof (N.div_mod x B ltac:(lia)). lia.
Qed.

(* ---------- index arithmetic ---------- *)

Lemma split_index (V c k : N) : k < V -> (c * V + k) / V = c /\ (c * V + k) mod V = k.
Proof.
  intros H. split.
  - symmetry. apply N.div_unique with (r := k); lia.
  - symmetry. apply N.mod_unique with (q := c); lia.
Qed.

Lemma pow_B b k : 2 ^ (b * k) = (2 ^ b) ^ k.
Proof. apply N.pow_mul_r. Qed.

Lemma B_ge1 b : 1 <= 2 ^ b.
Proof. pose proof (pow2_pos b). lia. Qed.

Lemma spec_size_bound b n j : 1 <= b <= 64 -> (j < n)%nat ->
  (N.to_nat (N.of_nat j / spec_vpl b) < spec_size b n)%nat.
Proof.
  intros Hb Hj. pose proof (vpl_pos b Hb) as HV. unfold spec_size.
  pose proof (idx_lt (Z.of_nat n) (Z.of_N (spec_vpl b)) (Z.of_nat j) ltac:(lia) ltac:(lia)) as H.
  set (V := spec_vpl b) in *.
  assert (E1 : (Z.of_nat j / Z.of_N V)%Z = Z.of_N (N.of_nat j / V)) by (rewrite N2Z.inj_div; f_equal; lia).
  assert (E2 : ((Z.of_nat n + Z.of_N V - 1) / Z.of_N V)%Z = Z.of_N ((N.of_nat n + V - 1) / V)).
  { rewrite N2Z.inj_div. f_equal. lia. }
  rewrite E1, E2 in H. lia.
Qed.

(* ---------- unpack (pack vals) = vals ---------- *)

Lemma pack_length b vals : length (pack b vals) = spec_size b (length vals).
Proof. unfold pack. rewrite map_length, seq_length. reflexivity. Qed.

Lemma pack_long_digits b vals c : 1 <= b -> Forall (fun v => v < 2 ^ b) vals ->
  Forall (fun d => d < 2 ^ b)
    (map (fun k => nth (c * N.to_nat (spec_vpl b) + k) vals 0) (seq 0 (N.to_nat (spec_vpl b)))).
Proof.
  intros Hb Hv. rewrite Forall_forall. intros d Hd. rewrite in_map_iff in Hd.
  destruct Hd as (k & <- & _).
  destruct (Nat.lt_ge_cases (c * N.to_nat (spec_vpl b) + k) (length vals)) as [L|L].
  - rewrite Forall_forall in Hv. apply Hv. apply nth_In. exact L.
  - rewrite nth_overflow by exact L. apply pow2_pos.
Qed.

Lemma pack_long_lt b vals c : 1 <= b <= 64 -> Forall (fun v => v < 2 ^ b) vals ->
  pack_long b vals c < 2 ^ 64.
Proof.
  intros Hb Hv. unfold pack_long.
  eapply N.lt_le_trans; [apply undig_lt; [apply B_ge1 | apply pack_long_digits; auto; lia]|].
  rewrite map_length, seq_length, N2Nat.id, <- pow_B. apply pow2_mono. apply vpl_fit. lia.
Qed.

Theorem unpack_pack b vals : 1 <= b <= 64 -> Forall (fun v => v < 2 ^ b) vals ->
  unpack b (length vals) (pack b vals) = vals.
Proof.
  intros Hb Hv. pose proof (vpl_pos b Hb) as HV.
  apply (nth_ext _ _ 0 0).
  - unfold unpack. rewrite map_length, seq_length. reflexivity.
  - intros j Hj. unfold unpack in *. rewrite map_length, seq_length in Hj.
    rewrite nth_map_seq by exact Hj. unfold slot.
    set (V := spec_vpl b) in *.
    pose proof (spec_size_bound b (length vals) j Hb Hj) as Hc. fold V in Hc.
    unfold pack. rewrite nth_map_seq by exact Hc.
    unfold pack_long. fold V.
    assert (Hk : N.of_nat j mod V < V) by (apply N.mod_lt; lia).
    rewrite pow_B.
    replace (N.of_nat j mod V) with (N.of_nat (N.to_nat (N.of_nat j mod V))) at 1 by lia.
    rewrite undig_digit; [|apply B_ge1|apply pack_long_digits; auto; lia].
    rewrite nth_map_seq by lia.
    f_equal. pose proof (N.div_mod (N.of_nat j) V ltac:(lia)). nia.
Qed.

(* ---------- canonical raw longs: pack (unpack raw) = raw ---------- *)

Definition clean (b : N) (n : nat) (raw : list N) : Prop :=
  Forall (fun l => l < 2 ^ (b * spec_vpl b)) raw /\ forall j, N.of_nat n <= j -> slotN b raw j = 0.

Theorem pack_unpack_clean b n raw : 1 <= b <= 64 -> length raw = spec_size b n -> clean b n raw ->
  pack b (unpack b n raw) = raw.
Proof.
  intros Hb Hlen [Hlt Hpad]. pose proof (vpl_pos b Hb) as HV.
  assert (Hul : length (unpack b n raw) = n) by (unfold unpack; rewrite map_length, seq_length; reflexivity).
  apply (nth_ext _ _ 0 0).
  - rewrite pack_length, Hul. auto.
  - intros c Hc. rewrite pack_length, Hul in Hc.
    unfold pack. rewrite Hul. rewrite nth_map_seq by exact Hc.
    unfold pack_long. set (V := spec_vpl b) in *.
    assert (Hx : nth c raw 0 < (2 ^ b) ^ N.of_nat (N.to_nat V)).
    { rewrite N2Nat.id, <- pow_B. rewrite Forall_forall in Hlt. apply Hlt. apply nth_In. lia. }
    rewrite <- (undig_digits (2 ^ b) (B_ge1 b) (N.to_nat V) (nth c raw 0) Hx).
    f_equal. apply map_ext_in. intros k Hk. apply in_seq in Hk.
    assert (Hs : slotN b raw (N.of_nat (c * N.to_nat V + k)) = (nth c raw 0 / (2 ^ b) ^ N.of_nat k) mod 2 ^ b).
    { unfold slotN. fold V.
      replace (N.of_nat (c * N.to_nat V + k)) with (N.of_nat c * V + N.of_nat k) by lia.
      destruct (split_index V (N.of_nat c) (N.of_nat k) ltac:(lia)) as [-> ->].
      rewrite Nat2N.id, pow_B. reflexivity. }
    rewrite <- Hs.
    destruct (Nat.lt_ge_cases (c * N.to_nat V + k) n) as [L|L].
    + unfold unpack. rewrite nth_map_seq by exact L. apply slot_slotN.
    + rewrite nth_overflow by (rewrite Hul; exact L). symmetry. apply Hpad. lia.
Qed.

Lemma clean_zero b n m : clean b n (repeat 0 m).
Proof.
  split.
  - induction m; cbn; constructor; auto. apply pow2_pos.
  - intros j _. unfold slotN. rewrite repeat_nth0.
    rewrite N.div_0_l by (apply N.pow_nonzero; discriminate).
    apply N.mod_0_l. apply N.pow_nonzero; discriminate.
Qed.

Lemma clean_stored st i v : wf st -> (Z.of_N i < blen st)%Z -> v < 2 ^ wbits st ->
  clean (wbits st) (Z.to_nat (blen st)) (data st) ->
  clean (wbits st) (Z.to_nat (blen st)) (data (stored st i v)).
Proof.
  intros W Hi Hv [Hlt Hpad]. pose proof (wf_bits st W) as Hb.
  destruct (locate_ok st i W Hi) as [_ Hc].
  pose proof (vpl_pos (wbits st) ltac:(lia)) as HV.
  assert (Hk : i mod spec_vpl (wbits st) < spec_vpl (wbits st)) by (apply N.mod_lt; lia).
  unfold stored. cbn [set_data data]. rewrite (wf_mask st W). split.
  - apply Forall_upd_nth; [exact Hlt|].
    set (b := wbits st) in *. set (V := spec_vpl b) in *.
    assert (Hl : nth (N.to_nat (i / V)) (data st) 0 < 2 ^ (b * V)).
    { rewrite Forall_forall in Hlt. apply Hlt. apply nth_In. exact Hc. }
    assert (HbV : b * V <= 64) by (apply vpl_fit; lia).
    assert (Hf : b * (i mod V) + b <= b * V) by nia.
    apply lt_pow2_of_bits. intros j Hj.
    rewrite set_long_bit; auto; [| apply nth_lt64, W | lia].
    destruct (N.leb_spec (b * (i mod V)) j); destruct (N.ltb_spec j (b * (i mod V) + b)); try lia; cbn [andb];
      apply testbit_high with (n := b * V); auto.
  - intros j Hj. rewrite slot_set; auto; [|lia|apply W].
    destruct (N.eqb_spec j i); [lia|]. apply Hpad. exact Hj.
Qed.

(* where the state goes in one step: nowhere, or to `stored` with an accepted index and value *)
Lemma step_state st o : wf st -> op_ints o ->
  fst (bs_step st o) = st \/
  exists i v, (Z.of_N i < blen st)%Z /\ v < 2 ^ wbits st /\ fst (bs_step st o) = stored st i v.
Proof.
  intros W Hop. pose proof (wf_bits st W) as Hb. pose proof (wf_len st W) as Hlen.
  assert (Key : forall i v, in_sw 64 v -> bad_value st v = false -> bad_index st i = false ->
    exists l, locate st i = Some (N.to_nat (Z.to_N i / spec_vpl (wbits st)),
                                  wbits st * (Z.to_N i mod spec_vpl (wbits st)), l) /\
              l = nth (N.to_nat (Z.to_N i / spec_vpl (wbits st))) (data st) 0 /\
              (Z.of_N (Z.to_N i) < blen st)%Z /\ u64 v = Z.to_N v /\ Z.to_N v < 2 ^ wbits st).
  { intros i v Hv Bv Bi. unfold bad_index in Bi.
    assert (Hi : (Z.of_N (Z.to_N i) < blen st)%Z) by lia.
    destruct (locate_ok st (Z.to_N i) W Hi) as [Hloc Hc].
    replace (Z.of_N (Z.to_N i)) with i in Hloc by lia.
    eexists. split; [exact Hloc|]. split; [reflexivity|]. split; [exact Hi|].
    rewrite (bad_value_spec st v W Hv) in Bv.
    assert (E : Z.of_N (2 ^ wbits st) = (2 ^ Z.of_N (wbits st))%Z) by (rewrite N2Z.inj_pow; reflexivity).
    split; [|lia]. apply u64_small. unfold in_sw in Hv. change (Z.of_N 64 - 1)%Z with 63%Z in Hv. lia. }
  destruct o as [i|i v|i v]; cbn [bs_step op_ints] in *.
  - left. unfold bs_get. destruct (vpl st =? 0)%Z; [reflexivity|].
    destruct (bad_index st i); [reflexivity|]. destruct (locate st i) as [[[c off] l]|]; reflexivity.
  - unfold bs_set. rewrite (vpl_nz st W).
    destruct (bad_value st v) eqn:Bv; [left; reflexivity|].
    destruct (bad_index st i) eqn:Bi; [left; reflexivity|].
    destruct (Key i v Hop Bv Bi) as (l & Hloc & -> & Hi & Hu & Hv). rewrite Hloc, Hu. right.
    exists (Z.to_N i), (Z.to_N v). repeat split; auto.
  - unfold bs_swap. rewrite (vpl_nz st W).
    destruct (bad_value st v) eqn:Bv; [left; reflexivity|].
    destruct (bad_index st i) eqn:Bi; [left; reflexivity|].
    destruct (Key i v Hop Bv Bi) as (l & Hloc & -> & Hi & Hu & Hv). rewrite Hloc, Hu. right.
    exists (Z.to_N i), (Z.to_N v). repeat split; auto.
Qed.

Lemma clean_run : forall ops st, wf st -> Forall op_ints ops ->
  clean (wbits st) (Z.to_nat (blen st)) (data st) ->
  clean (wbits st) (Z.to_nat (blen st)) (data (fst (bs_run st ops))).
Proof.
  induction ops as [|o t IH]; intros st W Hops Hc; [exact Hc|].
  inversion Hops as [|? ? Ho Ht]; subst.
  destruct (step_refines st o W Ho) as (W1 & B1 & L1 & _).
  assert (C1 : clean (wbits st) (Z.to_nat (blen st)) (data (fst (bs_step st o)))).
  { destruct (step_state st o W Ho) as [E|(i & v & Hi & Hv & E)]; rewrite E; auto.
    apply clean_stored; auto. }
  cbn [bs_run]. destruct (bs_step st o) as [s1 r] eqn:E1. cbn [fst snd] in *.
  assert (Eb : wbits s1 = wbits st) by (unfold wbits; rewrite B1; reflexivity).
  specialize (IH s1 W1 Ht). rewrite Eb, L1 in IH. specialize (IH C1).
  destruct (bs_run s1 t) as [s2 rs]. exact IH.
Qed.

(* Raw() of a storage built from zero by any history is the packing of its contents *)
Theorem raw_is_pack bts n ops st0 : (1 <= bts <= 63)%Z -> (0 <= n)%Z -> Forall op_ints ops ->
  bs_new bts n None = ROk st0 ->
  data (fst (bs_run st0 ops)) = pack (Z.to_N bts) (abs (fst (bs_run st0 ops))).
Proof.
  intros Hb Hn Hops Hnew.
  destruct (new_zero bts n Hb Hn) as (st & Hst & W & Bst & Lst & _ & Dst).
  rewrite Hnew in Hst. inversion Hst; subst st0. clear Hst.
  destruct (run_refines ops st W Hops) as (W2 & B2 & L2 & _).
  assert (C0 : clean (wbits st) (Z.to_nat (blen st)) (data st)) by (rewrite Dst; apply clean_zero).
  pose proof (clean_run ops st W Hops C0) as C2.
  set (s2 := fst (bs_run st ops)) in *.
  assert (Eb : wbits s2 = Z.to_N bts) by (unfold wbits; rewrite B2, Bst; reflexivity).
  unfold abs. rewrite Eb, L2. rewrite <- Eb.
  assert (Eb' : wbits s2 = wbits st) by (unfold wbits; rewrite B2; reflexivity).
  symmetry. apply pack_unpack_clean.
  - pose proof (wf_bits s2 W2). lia.
  - pose proof (wf_size_of s2 W2) as Hs. rewrite size_of_spec in Hs by apply W2.
    fold (wbits s2) in Hs. rewrite L2 in Hs. lia.
  - rewrite Eb'. exact C2.
Qed.
