(* Tie lemmas (C11): the definitions that tools/gotrans TRANSLATES from the Go source on every run
   (coq/Gen/Funcs.v) agree with the hand-written model the property theorems are about. A source edit of one
   of these functions changes Gen/Funcs.v; these lemmas are then re-checked. *)
From Coq Require Import List Arith NArith ZArith Lia Bool ZifyN ZifyNat ZifyBool.
From GoMC Require Import Base.Bytes Base.Bits Base.GoInt Gen.Consts Gen.Funcs.
From GoMC Require Model.C11.
Import ListNotations.
Ltac Zify.zify_post_hook ::= Z.div_mod_to_equations.
Local Open Scope Z_scope.

(* C11: bit-storage index arithmetic *)
Definition in_int (z : Z) : Prop := - 2 ^ 62 <= z < 2 ^ 62.

Lemma tie_calcBitStorageSize b n r : 0 <= b <= 64 -> 0 <= n < 2 ^ 62 ->
  C11.calc_size b n = Some r -> level_calcBitStorageSize b n = r.
Proof.
  intros Hb Hn. unfold C11.calc_size, level_calcBitStorageSize. change (2 ^ 62) with 4611686018427387904 in Hn.
  destruct (b =? 0) eqn:E0; [intros H; inversion H; reflexivity|].
  destruct (Z.quot 64 b =? 0) eqn:Ev; [discriminate|]. intros H; inversion H; subst r; clear H.
  assert (0 <= Z.quot 64 b <= 64) by (rewrite Z.quot_div_nonneg by lia; split; [apply Z.div_pos; lia|apply Z.div_le_upper_bound; lia]).
  rewrite (wrap_s_id 64 (n + Z.quot 64 b)) by (change (2 ^ (64 - 1)) with 9223372036854775808; lia).
  rewrite (wrap_s_id 64 (n + Z.quot 64 b - 1)) by (change (2 ^ (64 - 1)) with 9223372036854775808; lia).
  reflexivity.
Qed.

Lemma tie_calcBitsPerValue n l r : 0 <= n < 2 ^ 62 -> 0 <= l < 2 ^ 62 ->
  C11.calc_bits n l = Some r -> level_calcBitsPerValue n l = r.
Proof.
  intros Hn Hl. unfold C11.calc_bits, level_calcBitsPerValue. change (2 ^ 62) with 4611686018427387904 in *.
  destruct ((l =? 0) || (n =? 0))%bool eqn:E0; [intros H; inversion H; reflexivity|].
  rewrite (wrap_s_id 64 (n + l)) by (change (2 ^ (64 - 1)) with 9223372036854775808; lia).
  rewrite (wrap_s_id 64 (n + l - 1)) by (change (2 ^ (64 - 1)) with 9223372036854775808; lia).
  destruct (Z.quot (n + l - 1) l =? 0) eqn:Ev; [discriminate|]. intros H; inversion H; reflexivity.
Qed.

Lemma tie_calcIndex st n : 0 <= n < 2 ^ 31 -> 0 < C11.vpl st <= 64 -> 0 <= C11.bits st <= 64 ->
  level_BitStorage_calcIndex n (C11.vpl st) (C11.bits st) = C11.calc_index st n.
Proof.
  intros Hn Hv Hb. unfold level_BitStorage_calcIndex, C11.calc_index. cbv zeta.
  change (2 ^ 31) with 2147483648 in Hn.
  set (v := C11.vpl st) in *. set (b := C11.bits st) in *.
  assert (Hq : 0 <= Z.quot n v <= n).
  { rewrite Z.quot_div_nonneg by lia. split; [apply Z.div_pos; lia|]. apply Z.div_le_upper_bound; nia. }
  assert (Hm : 0 <= n - Z.quot n v * v < v).
  { rewrite Z.quot_div_nonneg by lia. pose proof (Z.mod_pos_bound n v ltac:(lia)). rewrite Z.mod_eq in * by lia. lia. }
  rewrite (wrap_s_id 64 (Z.quot n v * v)) by (change (2 ^ (64 - 1)) with 9223372036854775808; nia).
  rewrite (wrap_s_id 64 (n - Z.quot n v * v)) by (change (2 ^ (64 - 1)) with 9223372036854775808; lia).
  rewrite (wrap_s_id 64 ((n - Z.quot n v * v) * b)) by (change (2 ^ (64 - 1)) with 9223372036854775808; nia).
  reflexivity.
Qed.

