(* Tie lemmas (C11): the definitions that tools/gotrans TRANSLATES from the Go source on every run
   (coq/Gen/Funcs.v) agree with the hand-written model the property theorems are about. A source edit of one
   of these functions changes Gen/Funcs.v; these lemmas are then re-checked. *)
From Coq Require Import List Arith NArith ZArith Lia Bool ZifyN ZifyNat ZifyBool.
From GoMC Require Import Base.Bytes Base.Bits Base.GoInt Gen.Consts Gen.Funcs.
From GoMC Require Model.C11.
Import ListNotations.
Ltac Zify.zify_post_hook ::= Z.div_mod_to_equations.
Local Open Scope Z_scope.

(* C11: bit-storage index arithmetic *)
Definition in_int (z : Z) : Prop := - 2 ^ 62 <= z < 2 ^ 62.

Lemma tie_calcBitStorageSize b n r : 0 <= b <= 64 -> 0 <= n < 2 ^ 62 ->
  C11.calc_size b n = Some r -> level_calcBitStorageSize b n = r.
Proof.
  intros Hb Hn. unfold C11.calc_size, level_calcBitStorageSize. change (2 ^ 62) with 4611686018427387904 in Hn.
  destruct (b =? 0) eqn:E0; [intros H; inversion H; reflexivity|].
  destruct (Z.quot 64 b =? 0) eqn:Ev; [discriminate|]. intros H; inversion H; subst r; clear H.
  assert (0 <= Z.quot 64 b <= 64) by (rewrite Z.quot_div_nonneg by lia; split; [apply Z.div_pos; lia|apply Z.div_le_upper_bound; lia]).
  rewrite (wrap_s_id 64 (n + Z.quot 64 b)) by (change (2 ^ (64 - 1)) with 9223372036854775808; lia).
  rewrite (wrap_s_id 64 (n + Z.quot 64 b - 1)) by (change (2 ^ (64 - 1)) with 9223372036854775808; lia).
  reflexivity.
Qed.

Lemma tie_calcBitsPerValue n l r : 0 <= n < 2 ^ 62 -> 0 <= l < 2 ^ 62 ->
  C11.calc_bits n l = Some r -> level_calcBitsPerValue n l = r.
Proof.
  intros Hn Hl. unfold C11.calc_bits, level_calcBitsPerValue. change (2 ^ 62) with 4611686018427387904 in *.
  destruct ((l =? 0) || (n =? 0))%bool eqn:E0; [intros H; inversion H; reflexivity|].
  rewrite (wrap_s_id 64 (n + l)) by (change (2 ^ (64 - 1)) with 9223372036854775808; lia).
  rewrite (wrap_s_id 64 (n + l - 1)) by (change (2 ^ (64 - 1)) with 9223372036854775808; lia).
  destruct (Z.quot (n + l - 1) l =? 0) eqn:Ev; [discriminate|]. intros H; inversion H; reflexivity.
Qed.

Lemma tie_calcIndex st n : 0 <= n < 2 ^ 31 -> 0 < C11.vpl st <= 64 -> 0 <= C11.bits st <= 64 ->
  level_BitStorage_calcIndex n (C11.vpl st) (C11.bits st) = C11.calc_index st n.
Proof.
  intros Hn Hv Hb. unfold level_BitStorage_calcIndex, C11.calc_index. cbv zeta.
  change (2 ^ 31) with 2147483648 in Hn.
  set (v := C11.vpl st) in *. set (b := C11.bits st) in *.
  assert (Hq : 0 <= Z.quot n v <= n).
  { rewrite Z.quot_div_nonneg by lia. split; [apply Z.div_pos; lia|]. apply Z.div_le_upper_bound; nia. }
  assert (Hm : 0 <= n - Z.quot n v * v < v).
  { rewrite Z.quot_div_nonneg by lia. pose proof (Z.mod_pos_bound n v ltac:(lia)). rewrite Z.mod_eq in * by lia. lia. }
  rewrite (wrap_s_id 64 (Z.quot n v * v)) by (change (2 ^ (64 - 1)) with 9223372036854775808; nia).
  rewrite (wrap_s_id 64 (n - Z.quot n v * v)) by (change (2 ^ (64 - 1)) with 9223372036854775808; lia).
  rewrite (wrap_s_id 64 ((n - Z.quot n v * v) * b)) by (change (2 ^ (64 - 1)) with 9223372036854775808; nia).
  reflexivity.
Qed.


(* ------------------------------------------------------------------ C11: Get / Set / Swap, the whole bodies *)
(* Gen/Funcs.v has the three methods translated from level/bitstorage.go: receiver fields are parameters,
   b.data is a function Z -> Z, the write to b.data[c] is returned as a log, panic(...) is GoPanic.  They are
   proved equal to the model's bs_get / bs_set / bs_swap on every storage whose fields are in the stated
   ranges (which wf implies), relative to the model's own `locate` (index, shift count, long). *)
Ltac z_lits := repeat match goal with |- context [Zpos ?p] => change (Zpos p) with (Z.of_N (Npos p)) end.
Ltac z_to_n := repeat (progress rewrite ?zn_land, ?zn_lor, ?zn_lxor, ?zn_shiftl, ?zn_shiftr, ?zn_wrap_u, ?zn_eqb).

Definition dataf (st : C11.bstore) : Z -> Z := fun c => Z.of_N (nth (Z.to_nat c) (C11.data st) 0%N).

Definition fields_ok (st : C11.bstore) : Prop :=
  0 <= C11.blen st < 2 ^ 31 /\ 0 < C11.vpl st <= 64 /\ 0 <= C11.bits st <= 64 /\ (C11.mask st < 2 ^ 64)%N.

Lemma locate_inv st i c off l : C11.locate st i = Some (c, off, l) ->
  exists c0 off0, C11.calc_index st i = (c0, off0) /\ 0 <= c0 /\ 0 <= off0 /\
                  c = Z.to_nat c0 /\ off = Z.to_N off0 /\ nth (Z.to_nat c0) (C11.data st) 0%N = l.
Proof.
  unfold C11.locate. destruct (C11.calc_index st i) as [c0 off0].
  destruct ((c0 <? 0) || (off0 <? 0) || (Z.of_N (lenN (C11.data st)) <=? c0))%bool eqn:G; [discriminate|].
  destruct (nth_error (C11.data st) (Z.to_nat c0)) as [l0|] eqn:E; [|discriminate].
  intros H. inversion H; subst. exists c0, off0. repeat split; try lia.
  apply nth_error_nth with (d := 0%N) in E. exact E.
Qed.

Lemma bad_index_gen st i : fields_ok st ->
  ((i <? 0) || (wrap_s 64 (C11.blen st - 1) <? i))%bool = C11.bad_index st i.
Proof.
  intros (Hl & _ & _ & _). unfold C11.bad_index. change (2 ^ 31) with 2147483648 in Hl.
  rewrite wrap_s_id by (change (2 ^ (64 - 1)) with 9223372036854775808; lia).
  rewrite Z.gtb_ltb. reflexivity.
Qed.

Lemma bad_value_gen st v :
  ((v <? 0) || (Z.of_N (C11.mask st) <? wrap_u 64 v))%bool = C11.bad_value st v.
Proof.
  unfold C11.bad_value. rewrite (wrap_u_as_N 64 v) by lia. change (Z.to_N (v mod 2 ^ 64)) with (u64 v).
  f_equal. destruct (N.ltb_spec (C11.mask st) (u64 v)); [apply Z.ltb_lt|apply Z.ltb_ge]; lia.
Qed.

Lemma get_word st c0 off0 l : 0 <= off0 -> nth (Z.to_nat c0) (C11.data st) 0%N = l ->
  Z.land (Z.shiftr (dataf st c0) off0) (Z.of_N (C11.mask st)) = Z.of_N (C11.get_long l (C11.mask st) (Z.to_N off0)).
Proof.
  intros Ho Hl. unfold dataf, C11.get_long. rewrite Hl.
  rewrite <- (Z2N.id off0) at 1 by lia. z_to_n. reflexivity.
Qed.

Lemma set_word st c0 off0 l v : 0 <= off0 -> nth (Z.to_nat c0) (C11.data st) 0%N = l ->
  Z.lor (Z.land (dataf st c0) (Z.lxor (wrap_u 64 (Z.shiftl (Z.of_N (C11.mask st)) off0)) 18446744073709551615))
        (wrap_u 64 (Z.shiftl (Z.land (wrap_u 64 v) (Z.of_N (C11.mask st))) off0))
  = Z.of_N (C11.set_long l (C11.mask st) (Z.to_N off0) (u64 v)).
Proof.
  intros Ho Hl. unfold dataf, C11.set_long, C11.shl64, C11.two64, C11.max64. rewrite Hl.
  rewrite (wrap_u_as_N 64 v) by lia. change (Z.to_N (v mod 2 ^ 64)) with (u64 v).
  rewrite <- (Z2N.id off0) at 1 2 by lia. z_lits. z_to_n. reflexivity.
Qed.

Lemma land_lt_pow2 (a b k : N) : (b < 2 ^ k -> N.land a b < 2 ^ k)%N.
Proof.
  intros H. destruct (N.eq_dec (N.land a b) 0) as [E|Hz]; [rewrite E; apply pow2_pos|].
  apply N.log2_lt_pow2; [lia|].
  destruct (N.eq_dec b 0) as [->|Hb]; [rewrite N.land_0_r in Hz; contradiction|].
  pose proof (N.log2_land a b) as L. assert (N.log2 b < k)%N by (apply N.log2_lt_pow2; lia). lia.
Qed.

Lemma wrap_s_of_N (x : N) : (x < 2 ^ 64)%N -> wrap_s 64 (Z.of_N x) = sx64 x.
Proof.
  intros H. rewrite <- sx_wrapu_wrap_s64. f_equal. unfold u64, wrapu.
  change (Z.of_N 64) with 64. change (2 ^ 64) with (Z.of_N (2 ^ 64)).
  rewrite <- N2Z.inj_mod, N2Z.id. apply N.mod_small, H.
Qed.

(* Get: value or panic(indexOutOfBounds), for every index; rt = the model's run-time panic of b.data[c],
   which wf storages never reach (Proofs/C11.locate_ok) and the translation does not model *)
Lemma tie_Get st i : fields_ok st -> snd (C11.bs_get st i) <> C11.OPanic C11.pRt ->
  level_BitStorage_Get i (C11.vpl st) (C11.blen st) (C11.bits st) (dataf st) (Z.of_N (C11.mask st)) =
  match snd (C11.bs_get st i) with C11.ORet v => GoRet v | _ => GoPanic end.
Proof.
  intros F. pose proof F as (Hl & Hv & Hb & Hm).
  unfold level_BitStorage_Get, C11.bs_get.
  destruct (C11.vpl st =? 0); [reflexivity|].
  rewrite (bad_index_gen st i F). destruct (C11.bad_index st i) eqn:Bi; [reflexivity|].
  destruct (C11.locate st i) as [[[c off] l]|] eqn:L; cbn [snd]; [intros _|intros H; contradiction H; reflexivity].
  destruct (locate_inv st i c off l L) as (c0 & off0 & Ec & Hc & Ho & -> & -> & Hn).
  assert (Hi : 0 <= i < 2 ^ 31).
  { unfold C11.bad_index in Bi. change (2 ^ 31) with 2147483648 in *. lia. }
  rewrite (tie_calcIndex st i Hi Hv Hb), Ec.
  rewrite (get_word st c0 off0 l Ho Hn).
  rewrite wrap_s_of_N by (unfold C11.get_long; apply land_lt_pow2, Hm). reflexivity.
Qed.

(* Set: the single write b.data[c] = set_long ..., or the two documented panics *)
Lemma tie_Set st i v : fields_ok st -> snd (C11.bs_set st i v) <> C11.OPanic C11.pRt ->
  level_BitStorage_Set i v (C11.vpl st) (Z.of_N (C11.mask st)) (C11.blen st) (C11.bits st) (dataf st) =
  match C11.bs_set st i v, C11.locate st i with
  | (_, C11.OUnit), Some (c, off, l) =>
      if C11.vpl st =? 0 then GoRet [] else GoRet [(Z.of_nat c, Z.of_N (C11.set_long l (C11.mask st) off (u64 v)))]
  | (_, C11.OUnit), None => GoRet []
  | _, _ => GoPanic
  end.
Proof.
  intros F. pose proof F as (Hl & Hv & Hb & Hm).
  unfold level_BitStorage_Set, C11.bs_set.
  destruct (C11.vpl st =? 0) eqn:V0; [intros _; destruct (C11.locate st i) as [[[? ?] ?]|]; reflexivity|].
  rewrite bad_value_gen. destruct (C11.bad_value st v); [intros _; reflexivity|].
  rewrite (bad_index_gen st i F). destruct (C11.bad_index st i) eqn:Bi; [intros _; reflexivity|].
  destruct (C11.locate st i) as [[[c off] l]|] eqn:L; cbn [snd]; [intros _|intros H; contradiction H; reflexivity].
  destruct (locate_inv st i c off l L) as (c0 & off0 & Ec & Hc & Ho & -> & -> & Hn).
  assert (Hi : 0 <= i < 2 ^ 31).
  { unfold C11.bad_index in Bi. change (2 ^ 31) with 2147483648 in *. lia. }
  rewrite (tie_calcIndex st i Hi Hv Hb), Ec. unfold read_buf. cbn [fold_left app].
  rewrite (set_word st c0 off0 l v Ho Hn). rewrite Z2Nat.id by lia. reflexivity.
Qed.

(* Swap: old value and the same single write *)
Lemma tie_Swap st i v : fields_ok st -> snd (C11.bs_swap st i v) <> C11.OPanic C11.pRt ->
  level_BitStorage_Swap i v (C11.vpl st) (Z.of_N (C11.mask st)) (C11.blen st) (C11.bits st) (dataf st) =
  match C11.bs_swap st i v, C11.locate st i with
  | (_, C11.ORet old), Some (c, off, l) =>
      if C11.vpl st =? 0 then GoRet (old, []) else GoRet (old, [(Z.of_nat c, Z.of_N (C11.set_long l (C11.mask st) off (u64 v)))])
  | (_, C11.ORet old), None => GoRet (old, [])
  | _, _ => GoPanic
  end.
Proof.
  intros F. pose proof F as (Hl & Hv & Hb & Hm).
  unfold level_BitStorage_Swap, C11.bs_swap.
  destruct (C11.vpl st =? 0) eqn:V0; [intros _; destruct (C11.locate st i) as [[[? ?] ?]|]; reflexivity|].
  rewrite bad_value_gen. destruct (C11.bad_value st v); [intros _; reflexivity|].
  rewrite (bad_index_gen st i F). destruct (C11.bad_index st i) eqn:Bi; [intros _; reflexivity|].
  destruct (C11.locate st i) as [[[c off] l]|] eqn:L; cbn [snd]; [intros _|intros H; contradiction H; reflexivity].
  destruct (locate_inv st i c off l L) as (c0 & off0 & Ec & Hc & Ho & -> & -> & Hn).
  assert (Hi : 0 <= i < 2 ^ 31).
  { unfold C11.bad_index in Bi. change (2 ^ 31) with 2147483648 in *. lia. }
  rewrite (tie_calcIndex st i Hi Hv Hb), Ec. unfold read_buf. cbn [fold_left app].
  rewrite (get_word st c0 off0 l Ho Hn), (set_word st c0 off0 l v Ho Hn). rewrite Z2Nat.id by lia.
  rewrite wrap_s_of_N by (unfold C11.get_long; apply land_lt_pow2, Hm). reflexivity.
Qed.
