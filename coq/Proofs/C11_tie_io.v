(* Tie lemmas (C11), part 2: the constructor, Fix, ReadFrom, WriteTo, Len and Raw of level/bitstorage.go as
   tools/gotrans/c11.go TRANSLATES them on every run (coq/Gen/C11gen.v: the struct as the record gbs, field
   writes as record updates, run-time panics as explicit guards, the reader as a Base.Dec term with the prior
   state of the destination as an argument) equal the hand-written model (Model/C11.v: bs_new, bs_fix,
   bs_read, bs_write) for ALL arguments, all prior destination states and all byte strings.  A source edit
   of one of these functions changes Gen/C11gen.v; these lemmas are then re-checked. *)
From Coq Require Import List Arith NArith ZArith Lia Bool ZifyN ZifyNat ZifyBool.
From GoMC Require Import Base.Bytes Base.Bits Base.Dec Base.GoInt Gen.Consts Gen.Funcs Gen.C06gen Gen.C11gen
  Model.C05 Model.C06_syntax Model.C11_syntax.
From GoMC Require Model.C11 Proofs.C11 Proofs.C11_laws Proofs.C11_pack Proofs.C11_wire Proofs.C11_tie Proofs.C06_tie_r Proofs.C06_tie_w Model.C06.
Import ListNotations.
Ltac Zify.zify_post_hook ::= Z.div_mod_to_equations.
Local Open Scope Z_scope.

(* ---- the translated state against the model's state *)
Definition abs (b : gbs) : C11.bstore :=
  C11.mkBS (map Z.to_N (g_data b)) (Z.to_N (g_mask b)) (g_bits b) (g_length b) (g_valuesPerLong b).
Definition inj (st : C11.bstore) (sp : list Z) : gbs :=
  mkG (map Z.of_N (C11.data st)) sp (Z.of_N (C11.mask st)) (C11.bits st) (C11.blen st) (C11.vpl st).
Definition pclass (v : gval) : N := match v with GV_runtime => C11.pRt | GV_newBitStorageErr _ _ => C11.pNew end.

Lemma map_to_N_of_N l : map Z.to_N (map Z.of_N l) = l.
Proof. induction l as [|x l IH]; [reflexivity|]. cbn [map]. rewrite N2Z.id, IH. reflexivity. Qed.
Lemma abs_inj st sp : abs (inj st sp) = st.
Proof. destruct st. unfold abs, inj. cbn. rewrite map_to_N_of_N, N2Z.id. reflexivity. Qed.

Definition in_int (z : Z) : Prop := - 2 ^ 62 <= z < 2 ^ 62.

Ltac w64 := change (2 ^ (64 - 1)) with 9223372036854775808.

Lemma quot_abs_le a b : b <> 0 -> Z.abs (Z.quot a b) <= Z.abs a.
Proof.
  intros Hb. rewrite <- Z.quot_abs by exact Hb. rewrite Z.quot_div_nonneg by lia.
  apply Z.div_le_upper_bound; [lia|]. nia.
Qed.

Lemma wrap_quot a b : b <> 0 -> - 2 ^ 63 < a < 2 ^ 63 -> wrap_s 64 (Z.quot a b) = Z.quot a b.
Proof.
  intros Hb Ha. change (2 ^ 63) with 9223372036854775808 in Ha. pose proof (quot_abs_le a b Hb).
  apply wrap_s_id; [lia|]. w64. lia.
Qed.

Lemma quot64_small b : b <> 0 -> - 64 <= Z.quot 64 b <= 64.
Proof. intros Hb. pose proof (quot_abs_le 64 b Hb). lia. Qed.

(* ---- calcBitStorageSize with its run-time panics (divide by zero when bits > 64) *)
Lemma tie_calc b n : in_int n ->
  c11_calcBitStorageSize b n = match C11.calc_size b n with Some r => GRet r | None => GPanic GV_runtime end.
Proof.
  intros Hn. unfold in_int in Hn. change (2 ^ 62) with 4611686018427387904 in Hn.
  unfold c11_calcBitStorageSize, C11.calc_size. cbv zeta.
  destruct (Z.eqb_spec b 0) as [E|E]; [reflexivity|].
  pose proof (quot64_small b E) as Q.
  rewrite (wrap_quot 64 b E) by (change (2 ^ 63) with 9223372036854775808; lia).
  destruct (Z.eqb_spec (Z.quot 64 b) 0) as [V|V]; [reflexivity|].
  rewrite (wrap_s_id 64 (n + Z.quot 64 b)) by (w64; lia).
  rewrite (wrap_s_id 64 (n + Z.quot 64 b - 1)) by (w64; lia).
  rewrite wrap_quot by (try exact V; change (2 ^ 63) with 9223372036854775808; lia).
  reflexivity.
Qed.

(* 1<<bits - 1 in uint64 *)
Lemma tie_mask b : 0 <= b -> wrap_u 64 (wrap_u 64 (Z.shiftl 1 b) - 1) = Z.of_N (C11.mk_mask b).
Proof.
  intros Hb. unfold C11.mk_mask, C11.shl64, C11.two64, wrap_u.
  assert (E : Z.shiftl 1 b mod 2 ^ 64 = Z.of_N (N.shiftl 1 (Z.to_N b) mod 2 ^ 64)).
  { rewrite N.shiftl_mul_pow2, N.mul_1_l. rewrite Z.shiftl_mul_pow2, Z.mul_1_l by exact Hb.
    rewrite N2Z.inj_mod, N2Z.inj_pow, Z2N.id by exact Hb. reflexivity. }
  rewrite E. set (y := (N.shiftl 1 (Z.to_N b) mod 2 ^ 64)%N).
  assert (y < 2 ^ 64)%N by (apply N.mod_lt; discriminate). clearbody y.
  change (2 ^ 64)%N with 18446744073709551616%N in *. change (2 ^ 64) with 18446744073709551616. lia.
Qed.

(* ---- NewBitStorage *)
Lemma zlen_map_of_N (d : list N) : zlen (map Z.of_N d) = Z.of_N (lenN d).
Proof. unfold zlen, lenN. rewrite map_length. reflexivity. Qed.
Lemma zcopy_same dst src : length dst = length src -> zcopy dst src = src.
Proof.
  intros H. unfold zcopy. rewrite H, firstn_all, skipn_all2 by lia. apply app_nil_r.
Qed.
Lemma map_of_N_repeat0 k : map Z.of_N (repeat 0%N k) = repeat 0 k.
Proof. induction k as [|k IH]; [reflexivity|]. cbn [repeat map]. rewrite IH. reflexivity. Qed.

(* what the translated constructor panics with when the model panics with class w *)
Definition new_panic (bts n : Z) (raw : option (list N)) (w : N) : gval :=
  if (w =? C11.pNew)%N
  then GV_newBitStorageErr (match raw with Some d => Z.of_N (lenN d) | None => 0 end)
                           (match C11.calc_size bts n with Some r => r | None => 0 end)
  else GV_runtime.

Lemma tie_New bts n raw : in_int n ->
  c11_NewBitStorage bts n (option_map (map Z.of_N) raw) =
  match C11.bs_new bts n raw with
  | C11.ROk st => GRet (inj st [])
  | C11.RPanic w => GPanic (new_panic bts n raw w)
  end.
Proof.
  intros Hn. unfold c11_NewBitStorage, C11.bs_new, new_panic. cbv zeta.
  destruct (Z.eqb_spec bts 0) as [E|E]; [reflexivity|].
  destruct (Z.ltb_spec bts 0) as [Neg|Pos]; [reflexivity|].
  rewrite (tie_calc bts n Hn). rewrite tie_mask by exact Pos.
  rewrite (wrap_quot 64 bts E) by (change (2 ^ 63) with 9223372036854775808; lia).
  destruct (C11.calc_size bts n) as [dl|]; [|reflexivity].
  destruct (Z.ltb_spec dl 0) as [Ndl|Pdl]; [reflexivity|].
  destruct raw as [d|]; cbn [option_map].
  - rewrite zlen_map_of_N. destruct (Z.eqb_spec (Z.of_N (lenN d)) dl) as [L|L]; cbn [negb]; [|reflexivity].
    unfold set_g_data. cbn [fst snd g_data g_data_spare g_mask g_bits g_length g_valuesPerLong].
    rewrite zcopy_same; [reflexivity|].
    unfold zrepeat. rewrite repeat_length, map_length. unfold lenN in L. lia.
  - unfold set_g_data, inj. cbn [fst snd g_data g_data_spare g_mask g_bits g_length g_valuesPerLong C11.data C11.mask C11.bits C11.blen C11.vpl].
    rewrite map_of_N_repeat0. reflexivity.
Qed.

(* ---- Fix: the three fields are assigned before the size check, on every path that gets past the shift *)
Definition fix_out (st : C11.bstore) (bts : Z) (o : C11.outcome) : gres gval (option gval) :=
  match o with
  | C11.OUnit => GRet None
  | C11.OErr => GRet (Some (GV_newBitStorageErr (Z.of_N (lenN (C11.data st)))
                                                 (match C11.calc_size bts (C11.blen st) with Some r => r | None => 0 end)))
  | _ => GPanic GV_runtime
  end.

Lemma tie_Fix st sp bts : in_int (C11.blen st) ->
  c11_BitStorage_Fix (inj st sp) bts = (inj (fst (C11.bs_fix st bts)) sp, fix_out st bts (snd (C11.bs_fix st bts))).
Proof.
  intros Hn. unfold c11_BitStorage_Fix, C11.bs_fix, fix_out. cbv zeta.
  destruct (Z.eqb_spec bts 0) as [E|E]; [reflexivity|].
  destruct (Z.ltb_spec bts 0) as [Neg|Pos]; [destruct st; reflexivity|].
  rewrite tie_mask by exact Pos.
  rewrite (wrap_quot 64 bts E) by (change (2 ^ 63) with 9223372036854775808; lia).
  unfold set_g_mask, set_g_bits, set_g_valuesPerLong, inj.
  cbn [fst snd g_data g_data_spare g_mask g_bits g_length g_valuesPerLong C11.data C11.mask C11.bits C11.blen C11.vpl].
  rewrite (tie_calc bts (C11.blen st) Hn).
  destruct (C11.calc_size bts (C11.blen st)) as [dl|]; [|reflexivity].
  rewrite zlen_map_of_N.
  destruct (Z.eqb_spec (Z.of_N (lenN (C11.data st))) dl); reflexivity.
Qed.

(* ---- Len and Raw *)
Lemma tie_Len st sp : c11_BitStorage_Len (inj st sp) = C11.blen st.
Proof. reflexivity. Qed.
Lemma tie_Raw st sp : c11_BitStorage_Raw (Some (inj st sp)) = map Z.of_N (C11.data st) /\ c11_BitStorage_Raw None = [].
Proof. split; reflexivity. Qed.

(* ---- WriteTo: VarInt(len(b.data)).WriteTo(w), then `for _, v := range b.data { Long(v).WriteTo(w) }` *)
Import Proofs.C06_tie_w.
Lemma write32_sx_u z : write32 (sx32 (u32 z)) = write32 z.
Proof.
  unfold write32. replace (u32 (sx32 (u32 z))) with (u32 z); [reflexivity|].
  unfold u32, sx32. symmetry. apply wrapu_sx; [lia|].
  unfold wrapu. change (Z.of_N 32) with 32. change (2 ^ 32)%N with 4294967296%N. change (2 ^ 32) with 4294967296.
  pose proof (Z.mod_pos_bound z 4294967296 ltac:(lia)). lia.
Qed.

Lemma tie_wloop (rng : list Z) : Z.of_nat (length rng) < 2 ^ 59 -> forall k i out n,
  (i + k = length rng)%nat -> 0 <= n -> n + 8 * Z.of_nat k < 2 ^ 63 ->
  c11_BitStorage_WriteTo_loop1 k rng (Z.of_nat i) out n
  = ((out ++ concat (map longimg (skipn i rng)))%list, n + 8 * Z.of_nat k).
Proof.
  intros Hb. change (2 ^ 59) with 576460752303423488 in Hb.
  induction k as [|k IH]; intros i out n Hik Hn Hs; change (2 ^ 63) with 9223372036854775808 in Hs.
  - cbn [c11_BitStorage_WriteTo_loop1]. replace i with (length rng) by lia. rewrite skipn_all. cbn [map concat].
    rewrite app_nil_r. f_equal. lia.
  - cbn [c11_BitStorage_WriteTo_loop1]. cbv zeta. rewrite tie_Long_write. unfold wimg, C06.w_long, C06.wbytes. cbn [fst snd].
    rewrite u64_wrap_s. unfold znth. rewrite Nat2Z.id.
    change (Z.of_N (lenN (be 8 (u64 (nth i rng 0))))) with 8.
    rewrite (wrap_s_id 64 (Z.of_nat i + 1)) by (w64; lia).
    rewrite (wrap_s_id 64 (n + 8)) by (w64; lia).
    replace (Z.of_nat i + 1) with (Z.of_nat (S i)) by lia.
    rewrite IH by (change (2 ^ 63) with 9223372036854775808; lia).
    rewrite (skipn_nth_cons rng i) by lia. cbn [map concat]. rewrite <- app_assoc. f_equal. lia.
Qed.

Lemma longimg_of_N (d : list N) : Forall (fun l => (l < 2 ^ 64)%N) d ->
  concat (map longimg (map Z.of_N d)) = map Z.of_N (concat (map (be 8) d)).
Proof.
  induction 1 as [|x d Hx Hd IH]; [reflexivity|]. cbn [map concat]. rewrite map_app, IH. f_equal.
  unfold longimg. do 2 f_equal. unfold u64, wrapu. change (Z.of_N 64) with 64.
  rewrite Z.mod_small by (change (2 ^ 64)%N with 18446744073709551616%N in Hx; change (2 ^ 64) with 18446744073709551616; lia).
  apply N2Z.id.
Qed.

Lemma image_len' d : lenN (concat (map (be 8) d)) = (8 * lenN d)%N.
Proof.
  induction d as [|x t IH]; [reflexivity|].
  cbn [map concat]. rewrite lenN_app, IH, lenN_cons. unfold lenN at 1. rewrite be_length. lia.
Qed.

Lemma tie_Write st sp : Forall (fun l => (l < 2 ^ 64)%N) (C11.data st) -> (lenN (C11.data st) < 2 ^ 59)%N ->
  c11_BitStorage_WriteTo (Some (inj st sp)) =
  (Z.of_N (snd (C11.bs_write st)), 0%N, map Z.of_N (fst (C11.bs_write st))).
Proof.
  intros Hd H. change (2 ^ 59)%N with 576460752303423488%N in H.
  unfold c11_BitStorage_WriteTo, C11.bs_write, inj. cbv zeta. cbn [g_data fst snd].
  rewrite tie_VarInt_write. unfold wimg at 1, C06.w_varint, C06.wbytes. cbn [fst snd app].
  rewrite write32_wrap_s, zlen_map_of_N, write32_sx_u.
  set (L := lenN (C11.data st)) in *.
  pose proof (write32_len5 (Z.of_N L)) as L5.
  assert (El : length (map Z.of_N (C11.data st)) = N.to_nat L) by (rewrite map_length; unfold L, lenN; lia).
  replace (Z.to_nat (Z.of_N L)) with (length (map Z.of_N (C11.data st))) by lia.
  change 0 with (Z.of_nat 0) at 1.
  rewrite (tie_wloop (map Z.of_N (C11.data st))) by (try change (2 ^ 59) with 576460752303423488; try change (2 ^ 63) with 9223372036854775808; lia).
  cbn [skipn]. rewrite longimg_of_N by exact Hd. rewrite map_app.
  rewrite lenN_app, image_len'. fold L. f_equal. f_equal. lia.
Qed.
Lemma tie_Write_nil : c11_BitStorage_WriteTo None = (1, 0%N, [0]).
Proof. vm_compute. reflexivity. Qed.

(* ---- ReadFrom.  The model issues ONE ReadFull of 8*Len bytes and cuts it into longs; the code (and its
   translation) issues Len reads of 8 bytes each and stores long i into b.data[i].  read_longs is the
   common description: k big-endian longs, one after the other. *)
Import Proofs.C06_tie_r. From GoMC Require Proofs.C05.
Fixpoint read_longs (k : nat) (s : list N) : option (list N * list N) :=
  match k with
  | O => Some ([], s)
  | S k' => if (8 <=? lenN s)%N
            then match read_longs k' (dropN 8 s) with
                 | Some (l, r) => Some (unbe (takeN 8 s) :: l, r)
                 | None => None
                 end
            else None
  end.

Lemma read_longs_len k : forall s ls r, read_longs k s = Some (ls, r) -> length ls = k.
Proof.
  induction k as [|k IH]; intros s ls r H; cbn [read_longs] in H.
  - injection H as <- _. reflexivity.
  - destruct (8 <=? lenN s)%N; [|discriminate].
    destruct (read_longs k (dropN 8 s)) as [[l r']|] eqn:E; [|discriminate].
    injection H as <- _. cbn [length]. f_equal. eapply IH. exact E.
Qed.

Lemma longs_of_app8 a t : length a = 8%nat -> C11.longs_of (a ++ t) = unbe a :: C11.longs_of t.
Proof.
  intros H. destruct a as [|x1 [|x2 [|x3 [|x4 [|x5 [|x6 [|x7 [|x8 [|x9 a]]]]]]]]]; try discriminate. reflexivity.
Qed.

Lemma firstn_add' {A} n m (l : list A) : firstn (n + m) l = firstn n l ++ firstn m (skipn n l).
Proof.
  revert l. induction n as [|n IH]; intros l; [reflexivity|].
  destruct l as [|x l]; [cbn; rewrite firstn_nil; reflexivity|]. cbn [Nat.add firstn skipn app]. rewrite IH. reflexivity.
Qed.
Lemma skipn_add' {A} n m (l : list A) : skipn (n + m) l = skipn m (skipn n l).
Proof.
  revert l. induction n as [|n IH]; intros l; [reflexivity|].
  destruct l as [|x l]; [cbn; rewrite skipn_nil; reflexivity|]. cbn [Nat.add skipn]. apply IH.
Qed.

Lemma read_longs_spec k : forall s, read_longs k s =
  if (8 * N.of_nat k <=? lenN s)%N
  then Some (C11.longs_of (takeN (8 * N.of_nat k) s), dropN (8 * N.of_nat k) s) else None.
Proof.
  induction k as [|k IH]; intros s.
  - cbn [read_longs]. change (8 * N.of_nat 0)%N with 0%N. destruct (N.leb_spec 0 (lenN s)); [reflexivity|lia].
  - cbn [read_longs]. destruct (N.leb_spec 8 (lenN s)) as [L8|L8].
    + rewrite IH. assert (Ed : lenN (dropN 8 s) = (lenN s - 8)%N).
      { unfold lenN, dropN. rewrite skipn_length. unfold lenN in L8. lia. }
      rewrite Ed.
      destruct (N.leb_spec (8 * N.of_nat k) (lenN s - 8)) as [A|A];
      destruct (N.leb_spec (8 * N.of_nat (S k)) (lenN s)) as [B|B]; try lia; [|reflexivity].
      unfold takeN, dropN. replace (N.to_nat (8 * N.of_nat (S k))) with (8 + N.to_nat (8 * N.of_nat k))%nat by lia.
      change (N.to_nat 8) with 8%nat. rewrite firstn_add', skipn_add'. rewrite longs_of_app8; [reflexivity|].
      rewrite firstn_length. unfold lenN in L8. lia.
    + destruct (N.leb_spec (8 * N.of_nat (S k)) (lenN s)) as [B|B]; [lia|reflexivity].
Qed.

Lemma set_g_data_id b : set_g_data b (g_data b, g_data_spare b) = b.
Proof. destruct b; reflexivity. Qed.

Lemma zcopy_grow (d : list Z) n : (length d <= n)%nat -> zcopy (repeat 0 n) d = (d ++ repeat 0 (n - length d))%list.
Proof.
  intros H. unfold zcopy. rewrite repeat_length, firstn_all2 by exact H. f_equal.
  replace n with (length d + (n - length d))%nat at 1 by lia. rewrite repeat_app, skipn_app, repeat_length, Nat.sub_diag.
  rewrite skipn_all2 by (rewrite repeat_length; lia). reflexivity.
Qed.

(* the growth rule of ReadFrom, as the translated make lengths state it: first = min(Len, maxPreallocLongs)
   longs; when every allocated long has been read (i = len(b.data)) the array grows to i + min(Len - i, i) *)
Definition grow_len (l i : Z) : Z := wrap_s 64 (i + Z.min (wrap_s 64 (wrap_s 64 l - i)) i).
Lemma grow_len_small l i : 0 <= i < l -> l < 2 ^ 31 -> grow_len l i = i + Z.min (l - i) i.
Proof.
  intros Hi Hl. change (2 ^ 31) with 2147483648 in Hl. unfold grow_len.
  rewrite (wrap_s_id 64 l) by (w64; lia). rewrite (wrap_s_id 64 (l - i)) by (w64; lia).
  apply wrap_s_id; [lia|]. w64. lia.
Qed.

Section RdLoop.
Variable L : Z -> nat -> Z -> gbs -> Z -> Z -> dec (gbs * Z * Z).
Hypothesis L0 : forall l i b n v, L l 0%nat i b n v = Ret (b, n, v).
Hypothesis LS : forall l k i b n v, L l (S k) i b n v =
  if i =? zlen (g_data b)
  then if grow_len l i <? 0 then Crash crash_make else
       bind packet_Long_ReadFrom_io (fun p => let '(v2, nn) := p in
         if ((i <? 0) || (zlen (g_data (set_g_data b (zcopy (zrepeat (grow_len l i)) (g_data b), []))) <=? i))%bool then Crash crash_index else
         L l k (wrap_s 64 (i + 1))
           (set_g_data (set_g_data b (zcopy (zrepeat (grow_len l i)) (g_data b), []))
              (zupd (g_data (set_g_data b (zcopy (zrepeat (grow_len l i)) (g_data b), []))) i (wrap_u 64 v2),
               g_data_spare (set_g_data b (zcopy (zrepeat (grow_len l i)) (g_data b), []))))
           (wrap_s 64 (n + nn)) v2)
  else bind packet_Long_ReadFrom_io (fun p => let '(v2, nn) := p in
         if ((i <? 0) || (zlen (g_data b) <=? i))%bool then Crash crash_index else
         L l k (wrap_s 64 (i + 1)) (set_g_data b (zupd (g_data b) i (wrap_u 64 v2), g_data_spare b)) (wrap_s 64 (n + nn)) v2).

Lemma L_robust : forall k l i b n v, robust (L l k i b n v).
Proof.
  induction k as [|k IH]; intros; [rewrite L0; constructor|]. rewrite LS.
  destruct (i =? zlen (g_data b)); [destruct (grow_len l i <? 0); [constructor|]|];
  (apply robust_bind; [apply robust_Long_io|]; intros [v2 nn]; destruct (_ || _)%bool; [constructor|apply IH]).
Qed.

Lemma rloop_tie : forall k i l b n v s, all_bytes s -> 0 <= l < 2 ^ 31 -> Z.of_nat (i + k) = l ->
  (i <= length (g_data b) <= i + k)%nat -> (length (g_data b) = i -> (1 <= i)%nat \/ k = 0%nat) ->
  ((length (g_data b) < i + k)%nat -> g_data_spare b = []) ->
  (* the allocation invariant, carried through every iteration: the array at hand is the caller's own
     (in-place branch), or holds at most 1024 longs, or at most twice the longs already read *)
  (length (g_data b) = i + k \/ length (g_data b) <= 1024 \/ length (g_data b) <= 2 * i)%nat ->
  0 <= n -> n + 8 * Z.of_nat k < 2 ^ 62 ->
  match read_longs k s with
  | Some (ls, rest) => exists v',
      run_flat (L l k (Z.of_nat i) b n v) s =
      FOk (set_g_data b ((firstn i (g_data b) ++ map Z.of_N ls)%list, g_data_spare b), n + 8 * Z.of_nat k, v') rest
  | None => run_flat (L l k (Z.of_nat i) b n v) s = FErr eEOF
  end.
Proof.
  induction k as [|k IH]; intros i l b n v s Hs Hl Hik Hb Hpos Hsp Hal Hn Hn2;
    change (2 ^ 62) with 4611686018427387904 in *; change (2 ^ 31) with 2147483648 in *.
  - cbn [read_longs]. exists v. rewrite L0. cbn [run_flat map]. rewrite app_nil_r.
    rewrite firstn_all2 by lia. rewrite set_g_data_id. replace (n + 8 * Z.of_nat 0) with n by lia. reflexivity.
  - (* what follows the growth test, for any record b' that has room for long i *)
    assert (HK : forall b', (i < length (g_data b') <= i + S k)%nat ->
              ((length (g_data b') < i + S k)%nat -> g_data_spare b' = []) ->
              (length (g_data b') = i + S k \/ length (g_data b') <= 1024 \/ length (g_data b') <= 2 * S i)%nat ->
              match read_longs (S k) s with
              | Some (ls, rest) => exists v',
                  run_flat (bind packet_Long_ReadFrom_io (fun p => let '(v2, nn) := p in
                     if ((Z.of_nat i <? 0) || (zlen (g_data b') <=? Z.of_nat i))%bool then Crash crash_index else
                     L l k (wrap_s 64 (Z.of_nat i + 1))
                       (set_g_data b' (zupd (g_data b') (Z.of_nat i) (wrap_u 64 v2), g_data_spare b')) (wrap_s 64 (n + nn)) v2)) s =
                  FOk (set_g_data b' ((firstn i (g_data b') ++ map Z.of_N ls)%list, g_data_spare b'), n + 8 * Z.of_nat (S k), v') rest
              | None => run_flat (bind packet_Long_ReadFrom_io (fun p => let '(v2, nn) := p in
                     if ((Z.of_nat i <? 0) || (zlen (g_data b') <=? Z.of_nat i))%bool then Crash crash_index else
                     L l k (wrap_s 64 (Z.of_nat i + 1))
                       (set_g_data b' (zupd (g_data b') (Z.of_nat i) (wrap_u 64 v2), g_data_spare b')) (wrap_s 64 (n + nn)) v2)) s = FErr eEOF
              end).
    { intros b' Hb' Hsp' Hal'. cbn [read_longs]. rewrite run_flat_bind by apply robust_Long_io.
      rewrite run_Long_io by exact Hs.
      destruct (N.leb_spec 8 (lenN s)) as [L8|L8]; [|reflexivity].
      pose proof (unbe_take_lt 8 s Hs L8) as B. set (u := unbe (takeN 8 s)) in *.
      assert (Ex : wrap_u 64 (wrap_s 64 (Z.of_N u)) = Z.of_N u).
      { rewrite wrap_u_of_s by lia. apply wrap_u_id; [lia|].
        change (256 ^ 8)%N with 18446744073709551616%N in B. change (2 ^ 64) with 18446744073709551616. lia. }
      rewrite Ex.
      assert (Eg : ((Z.of_nat i <? 0) || (zlen (g_data b') <=? Z.of_nat i))%bool = false) by (unfold zlen, lenN; lia).
      rewrite Eg.
      rewrite (wrap_s_id 64 (Z.of_nat i + 1)) by (w64; lia).
      rewrite (wrap_s_id 64 (n + 8)) by (w64; lia).
      replace (Z.of_nat i + 1) with (Z.of_nat (S i)) by lia.
      set (b1 := set_g_data b' (zupd (g_data b') (Z.of_nat i) (Z.of_N u), g_data_spare b')).
      assert (Hd1 : g_data b1 = upd_nth (g_data b') i (Z.of_N u)).
      { unfold b1, set_g_data, zupd. cbn [g_data fst]. rewrite Nat2Z.id. reflexivity. }
      assert (Hs1 : g_data_spare b1 = g_data_spare b') by reflexivity.
      specialize (IH (S i) l b1 (n + 8) (wrap_s 64 (Z.of_N u)) (dropN 8 s) (all_bytes_dropN 8 s Hs)).
      rewrite Hd1, Hs1, upd_nth_length in IH.
      specialize (IH ltac:(lia) ltac:(lia) ltac:(lia) ltac:(lia) ltac:(intros; apply Hsp'; lia) ltac:(lia) ltac:(lia) ltac:(lia)).
      destruct (read_longs k (dropN 8 s)) as [[ls rest]|]; [|exact IH].
      destruct IH as [v' IH]. exists v'. rewrite IH.
      replace (n + 8 + 8 * Z.of_nat k) with (n + 8 * Z.of_nat (S k)) by lia.
      assert (Eb : set_g_data b1 ((firstn (S i) (upd_nth (g_data b') i (Z.of_N u)) ++ map Z.of_N ls)%list, g_data_spare b')
                   = set_g_data b' ((firstn i (g_data b') ++ map Z.of_N (u :: ls))%list, g_data_spare b')).
      { unfold b1, set_g_data. cbn [g_data g_data_spare g_mask g_bits g_length g_valuesPerLong fst snd].
        f_equal. cbn [map]. rewrite (firstn_S_nth (upd_nth (g_data b') i (Z.of_N u)) i) by (rewrite upd_nth_length; lia).
        rewrite upd_nth_firstn, upd_nth_nth by lia. rewrite <- app_assoc. reflexivity. }
      rewrite Eb. reflexivity. }
    rewrite LS.
    destruct (Z.eqb_spec (Z.of_nat i) (zlen (g_data b))) as [E|E]; unfold zlen, lenN in E.
    + (* every allocated long has been read: grow *)
      assert (Ei : length (g_data b) = i) by lia.
      destruct (Hpos Ei) as [Hi1|?]; [|discriminate].
      rewrite (grow_len_small l (Z.of_nat i)) by lia.
      set (X := Z.of_nat i + Z.min (l - Z.of_nat i) (Z.of_nat i)).
      assert (HX : Z.of_nat i + 1 <= X <= l) by (unfold X; lia).
      destruct (Z.ltb_spec X 0) as [?|_]; [lia|].
      set (b3 := set_g_data b (zcopy (zrepeat X) (g_data b), [])).
      assert (Hd3 : g_data b3 = (g_data b ++ repeat 0 (Z.to_nat X - i))%list).
      { unfold b3, set_g_data, zrepeat. cbn [g_data fst]. rewrite zcopy_grow by lia. rewrite Ei. reflexivity. }
      specialize (HK b3). rewrite Hd3, app_length, repeat_length in HK.
      specialize (HK ltac:(lia) ltac:(intros; reflexivity) ltac:(lia)).
      rewrite <- Hd3 in HK.
      destruct (read_longs (S k) s) as [[ls rest]|]; [|exact HK].
      destruct HK as [v' HK]. exists v'. rewrite HK. f_equal. f_equal. f_equal.
      rewrite (Hsp ltac:(lia)).
      unfold b3 at 1, set_g_data. cbn [g_data g_data_spare g_mask g_bits g_length g_valuesPerLong fst snd].
      f_equal. f_equal. rewrite Hd3. rewrite firstn_app, Ei, Nat.sub_diag. cbn [firstn]. rewrite app_nil_r. reflexivity.
    + (* room left *)
      apply HK; [lia|exact Hsp|lia].
Qed.

Lemma rd_finish l n0 b1 rest : all_bytes rest -> 0 <= l < 2 ^ 31 -> (n0 <= 5)%N ->
  (length (g_data b1) <= Z.to_nat l)%nat -> (1 <= length (g_data b1))%nat \/ l = 0 ->
  ((length (g_data b1) < Z.to_nat l)%nat -> g_data_spare b1 = []) ->
  (length (g_data b1) = Z.to_nat l \/ length (g_data b1) <= 1024)%nat ->
  run_flat (bind (L l (Z.to_nat l) 0 b1 (Z.of_N n0) 0) (fun p => let '(b4, n3, _) := p in Ret (b4, n3))) rest =
  if (8 * Z.to_N l <=? lenN rest)%N
  then FOk (set_g_data b1 (map Z.of_N (C11.longs_of (takeN (8 * Z.to_N l) rest)), g_data_spare b1),
            Z.of_N (n0 + 8 * Z.to_N l)) (dropN (8 * Z.to_N l) rest)
  else FErr eEOF.
Proof.
  intros Hr Hl Hn Hb Hpos Hsp Hal. change (2 ^ 31) with 2147483648 in Hl.
  rewrite run_flat_bind by apply L_robust.
  pose proof (rloop_tie (Z.to_nat l) 0 l b1 (Z.of_N n0) 0 rest Hr) as T. cbn [Nat.add firstn app] in T.
  change (Z.of_nat 0) with 0 in T.
  specialize (T ltac:(change (2 ^ 31) with 2147483648; lia) ltac:(lia) ltac:(lia) ltac:(lia) Hsp ltac:(lia) ltac:(lia)
                ltac:(change (2 ^ 62) with 4611686018427387904; lia)).
  rewrite read_longs_spec in T. replace (N.of_nat (Z.to_nat l)) with (Z.to_N l) in T by lia.
  destruct (8 * Z.to_N l <=? lenN rest)%N.
  - destruct T as [v' T]. rewrite T. cbn [run_flat]. do 2 f_equal. lia.
  - rewrite T. reflexivity.
Qed.
End RdLoop.

(* the spare capacity the destination is left with: the tail of the old backing array when it is reused
   (cap(b.data) >= Len), none when a fresh array is allocated *)
Definition spare_after (b : gbs) (len : Z) : list Z :=
  if len <=? zlen (g_data b) + zlen (g_data_spare b) then zdrop len (g_data b ++ g_data_spare b) else [].

(* ReadFrom into ANY prior destination state b (any longs, any spare capacity, any field values), on ANY
   byte string: the translated reader and the model's reader agree on the outcome class, the error class,
   the bytes left, the count, and the state left in the destination - the decoded longs ARE b.data, the
   other fields are untouched *)
Lemma tie_Read b s : all_bytes s ->
  run_flat (c11_BitStorage_ReadFrom varint_rd b) s =
  match run_flat (C11.bs_read (abs b)) s with
  | FOk (st', n) rest =>
      FOk (set_g_data b (map Z.of_N (C11.data st'), spare_after b (Z.of_N (lenN (C11.data st')))), Z.of_N n) rest
  | FErr e => FErr e
  | FPanic w => FPanic w
  | FFuel => FFuel
  end.
Proof.
  intros Hs. unfold c11_BitStorage_ReadFrom, C11.bs_read. cbv zeta.
  rewrite run_flat_bind by apply robust_varint_rd. rewrite run_flat_bind by apply Proofs.C05.read32_robust.
  rewrite run_varint_rd. destruct (run_flat read32 s) as [[l n] rest| | |] eqn:E; try reflexivity.
  destruct (read32_facts s l n rest Hs E) as (Rl & Rn & Hr).
  cbv beta iota. change (2 ^ 31) with 2147483648 in Rl.
  destruct (Z.ltb_spec l 0) as [Neg|Pos]; [reflexivity|].
  rewrite (wrap_s_id 64 l) by (w64; lia).
  assert (Hlen : forall ls, (8 * Z.to_N l <= lenN rest)%N -> ls = C11.longs_of (takeN (8 * Z.to_N l) rest) ->
                 Z.of_N (lenN ls) = l).
  { intros ls Hle ->. pose proof (read_longs_spec (Z.to_nat l) rest) as R.
    replace (N.of_nat (Z.to_nat l)) with (Z.to_N l) in R by lia.
    destruct (N.leb_spec (8 * Z.to_N l) (lenN rest)); [|lia].
    apply read_longs_len in R. unfold lenN. lia. }
  unfold spare_after. rewrite Z.sub_0_r.
  destruct (Z.leb_spec l (zlen (g_data b) + zlen (g_data_spare b))) as [Fit|Small].
  - rewrite zlen_app. destruct (Z.ltb_spec l 0) as [?|_]; [lia|].
    destruct (Z.ltb_spec (zlen (g_data b) + zlen (g_data_spare b)) l) as [?|_]; [lia|]. cbn [orb].
    set (b1 := set_g_data b (ztake l (g_data b ++ g_data_spare b), zdrop l (g_data b ++ g_data_spare b))).
    assert (Hb1 : length (g_data b1) = Z.to_nat l).
    { unfold b1, set_g_data. cbn [g_data fst]. apply ztake_length. rewrite zlen_app. lia. }
    rewrite (rd_finish c11_BitStorage_ReadFrom_loop1 (fun _ _ _ _ _ => eq_refl) (fun _ _ _ _ _ _ => eq_refl)
               l n b1 rest Hr ltac:(change (2 ^ 31) with 2147483648; lia) Rn ltac:(lia) ltac:(lia) ltac:(lia) ltac:(lia)).
    cbn [run_flat C11.set_data C11.data].
    destruct (N.leb_spec (8 * Z.to_N l) (lenN rest)) as [Le|Le]; [|reflexivity].
    cbn [run_flat C11.set_data C11.data].
    rewrite (Hlen _ Le eq_refl).
    destruct (Z.leb_spec l (zlen (g_data b) + zlen (g_data_spare b))) as [_|?]; [|lia].
    unfold b1, set_g_data. cbn [g_data g_data_spare g_mask g_bits g_length g_valuesPerLong fst snd]. reflexivity.
  - unfold c11_BitStorage_ReadFrom_make2. rewrite (wrap_s_id 64 l) by (w64; lia).
    destruct (Z.ltb_spec (Z.min l 1024) 0) as [?|_]; [lia|].
    set (b1 := set_g_data b (zrepeat (Z.min l 1024), [])).
    assert (Hb1 : length (g_data b1) = Z.to_nat (Z.min l 1024)).
    { unfold b1, set_g_data. cbn [g_data fst]. apply zrepeat_length. }
    assert (Hl1 : 1 <= l) by (unfold zlen in Small; lia).
    rewrite (rd_finish c11_BitStorage_ReadFrom_loop2 (fun _ _ _ _ _ => eq_refl) (fun _ _ _ _ _ _ => eq_refl)
               l n b1 rest Hr ltac:(change (2 ^ 31) with 2147483648; lia) Rn ltac:(lia) ltac:(lia) ltac:(intros; reflexivity) ltac:(lia)).
    cbn [run_flat C11.set_data C11.data].
    destruct (N.leb_spec (8 * Z.to_N l) (lenN rest)) as [Le|Le]; [|reflexivity].
    cbn [run_flat C11.set_data C11.data].
    rewrite (Hlen _ Le eq_refl).
    destruct (Z.leb_spec l (zlen (g_data b) + zlen (g_data_spare b))) as [?|_]; [lia|].
    unfold b1, set_g_data. cbn [g_data g_data_spare g_mask g_bits g_length g_valuesPerLong fst snd]. reflexivity.
Qed.

(* ---- ALLOCATION (the defect fixed in level/bitstorage.go lived here: make([]uint64, Len) with the declared count
   before any long had arrived).  With the make lengths TRANSLATED from ReadFrom - first = make2 Len =
   min(Len, maxPreallocLongs), grown to make3 Len i = i + min(Len - i, i) only when every allocated long has been
   read (the test i == len(b.data) of the loop, see LS above) - in every reachable state (a longs allocated, r
   read) of a read that declares n longs: r <= a <= n, and a <= 1024 or a <= 2 r.  Nothing is allocated in
   proportion to a declared count that the stream has not backed. *)
Inductive rd_areach (first : Z -> Z) (grow : Z -> Z -> Z) (n : Z) : Z -> Z -> Prop :=
| ra_init : rd_areach first grow n (first n) 0
| ra_read a r : rd_areach first grow n a r -> r < a -> rd_areach first grow n a (r + 1)
| ra_grow a r : rd_areach first grow n a r -> r = a -> a < n -> rd_areach first grow n (grow n r) r.

Definition rd_alloc_inv (n a r : Z) : Prop := 0 <= r <= a /\ a <= n /\ (a <= 1024 \/ a <= 2 * r).

Theorem read_alloc_bounded n : 0 <= n < 2 ^ 31 -> forall a r,
  rd_areach c11_BitStorage_ReadFrom_make2 c11_BitStorage_ReadFrom_make3 n a r -> rd_alloc_inv n a r.
Proof.
  intros Hn a r H. change (2 ^ 31) with 2147483648 in Hn. unfold rd_alloc_inv.
  induction H as [|a r H IH Hr|a r H IH -> Ha].
  - unfold c11_BitStorage_ReadFrom_make2. rewrite (wrap_s_id 64 n) by (w64; lia). lia.
  - lia.
  - change (c11_BitStorage_ReadFrom_make3 n a) with (grow_len n a).
    rewrite grow_len_small by (try change (2 ^ 31) with 2147483648; lia). lia.
Qed.
(* the copy of the loop that runs on the caller's own array has the same rule (it never fires there) *)
Lemma read_grow_rules_agree l i : c11_BitStorage_ReadFrom_make1 l i = c11_BitStorage_ReadFrom_make3 l i.
Proof. reflexivity. Qed.

(* ================= headline theorems over translated code only ================= *)
Lemma write32_bytes v : all_bytes (write32 v).
Proof.
  unfold write32. cbv zeta.
  repeat match goal with |- all_bytes (if ?c then _ else _) => destruct c end;
  unfold all_bytes; repeat (apply Forall_app; split); try apply be_bytes;
  repeat constructor; unfold is_byte; apply N.mod_lt; discriminate.
Qed.

Lemma image_bytes st : all_bytes (fst (C11.bs_write st)).
Proof.
  unfold C11.bs_write. cbn [fst]. unfold all_bytes. apply Forall_app. split; [apply write32_bytes|].
  induction (C11.data st) as [|x t IH]; [constructor|]. cbn [map concat]. apply Forall_app. split; [apply be_bytes|exact IH].
Qed.

(* ---- wire round trip: translated WriteTo, translated ReadFrom into any destination, translated Fix *)
Theorem wire_roundtrip_translated st sp dm dsp rest :
  Proofs.C11.wf st -> (lenN (C11.data st) < 2 ^ 31)%N -> C11.blen dm = C11.blen st -> all_bytes rest ->
  exists n img d' sp',
    c11_BitStorage_WriteTo (Some (inj st sp)) = (n, 0%N, img) /\ n = zlen img /\
    run_flat (c11_BitStorage_ReadFrom varint_rd (inj dm dsp)) (map Z.to_N img ++ rest) = FOk (d', n) rest /\
    c11_BitStorage_Fix d' (C11.bits st) = (inj st sp', GRet None) /\
    c11_BitStorage_Raw (Some (inj st sp')) = c11_BitStorage_Raw (Some (inj st sp)).
Proof.
  intros W HL Hlen Hrest.
  destruct (Proofs.C11_wire.wire_roundtrip st dm rest W HL Hlen) as (d'm & Hrd & Hcnt & Hfix).
  exists (Z.of_N (snd (C11.bs_write st))), (map Z.of_N (fst (C11.bs_write st))).
  assert (Hab : all_bytes (fst (C11.bs_write st) ++ rest)) by (apply Forall_app; split; [apply image_bytes|exact Hrest]).
  pose proof (tie_Read (inj dm dsp) (fst (C11.bs_write st) ++ rest) Hab) as TR.
  rewrite abs_inj, Hrd in TR.
  eexists. eexists. split.
  { apply tie_Write; [apply W|]. change (2 ^ 31)%N with 2147483648%N in HL. change (2 ^ 59)%N with 576460752303423488%N. lia. }
  split; [rewrite Hcnt, zlen_map_of_N; reflexivity|].
  split; [rewrite map_to_N_of_N; exact TR|].
  assert (Hb : in_int (C11.blen d'm)).
  { assert (E : C11.blen d'm = C11.blen dm).
    { unfold C11.bs_read in Hrd. rewrite run_flat_bind in Hrd by apply Proofs.C05.read32_robust.
      destruct (run_flat read32 _) as [[cnt n0] r| | |]; try discriminate.
      destruct (cnt <? 0); [discriminate|]. cbn [run_flat] in Hrd.
      destruct (_ <=? _)%N; [|discriminate]. cbn [run_flat] in Hrd. injection Hrd as <- _ _. reflexivity. }
    rewrite E, Hlen. pose proof (Proofs.C11.wf_len st W). pose proof (Proofs.C11.wf_size st W) as S.
    pose proof (Proofs.C11.wf_bits st W) as Bb. pose proof (Proofs.C11.vpl_pos (Proofs.C11.wbits st) ltac:(lia)) as V.
    rewrite (Proofs.C11.wf_vpl st W) in S. change (2 ^ 31)%N with 2147483648%N in HL. unfold lenN in HL.
    assert (Vle : (C11.spec_vpl (Proofs.C11.wbits st) <= 64)%N).
    { unfold C11.spec_vpl. apply N.div_le_upper_bound; lia. }
    unfold in_int. change (2 ^ 62) with 4611686018427387904. nia. }
  replace (set_g_data (inj dm dsp) (map Z.of_N (C11.data d'm), spare_after (inj dm dsp) (Z.of_N (lenN (C11.data d'm)))))
    with (inj d'm (spare_after (inj dm dsp) (Z.of_N (lenN (C11.data d'm))))).
  - rewrite tie_Fix by exact Hb. rewrite Hfix. split; reflexivity.
  - assert (E : d'm = C11.set_data dm (C11.data d'm)).
    { unfold C11.bs_read in Hrd. rewrite run_flat_bind in Hrd by apply Proofs.C05.read32_robust.
      destruct (run_flat read32 _) as [[cnt n0] r| | |]; try discriminate.
      destruct (cnt <? 0); [discriminate|]. cbn [run_flat] in Hrd.
      destruct (_ <=? _)%N; [|discriminate]. cbn [run_flat] in Hrd. injection Hrd as <- _ _. reflexivity. }
    rewrite E at 1. reflexivity.
Qed.

(* ---- histories of the TRANSLATED Get / Set / Swap (Gen/Funcs.v) on the record the TRANSLATED constructor
   returns: the receiver's fields are read from the record, b.data[c] is znth, the write log a call returns
   is applied to b.data *)
Inductive tout := TRet (v : Z) | TUnit | TPanic.
Definition gdataf (b : gbs) : Z -> Z := fun c => znth (g_data b) c.
Definition apply_log (ws : list (Z * Z)) (b : gbs) : gbs :=
  set_g_data b (fold_left (fun d w => zupd d (fst w) (snd w)) ws (g_data b), g_data_spare b).
Definition t_step (b : gbs) (o : C11.aop) : gbs * tout :=
  match o with
  | C11.AGet i =>
      match level_BitStorage_Get i (g_valuesPerLong b) (g_length b) (g_bits b) (gdataf b) (g_mask b) with
      | GoRet v => (b, TRet v) | GoPanic => (b, TPanic) end
  | C11.ASet i v =>
      match level_BitStorage_Set i v (g_valuesPerLong b) (g_mask b) (g_length b) (g_bits b) (gdataf b) with
      | GoRet ws => (apply_log ws b, TUnit) | GoPanic => (b, TPanic) end
  | C11.ASwap i v =>
      match level_BitStorage_Swap i v (g_valuesPerLong b) (g_mask b) (g_length b) (g_bits b) (gdataf b) with
      | GoRet (old, ws) => (apply_log ws b, TRet old) | GoPanic => (b, TPanic) end
  end.
Fixpoint t_run (b : gbs) (ops : list C11.aop) : gbs * list tout :=
  match ops with
  | [] => (b, [])
  | o :: t => let '(b1, r) := t_step b o in let '(b2, rs) := t_run b1 t in (b2, r :: rs)
  end.
(* the specification's outcomes with the panic value forgotten (gores carries none) *)
Definition erase (o : C11.outcome) : tout :=
  match o with C11.ORet v => TRet v | C11.OUnit => TUnit | C11.OErr => TUnit | C11.OPanic _ => TPanic end.

Lemma Get_ext i a l bt f g m : (forall c, f c = g c) ->
  level_BitStorage_Get i a l bt f m = level_BitStorage_Get i a l bt g m.
Proof.
  intros H. unfold level_BitStorage_Get. destruct (a =? 0); [reflexivity|].
  destruct (_ || _)%bool; [reflexivity|]. destruct (level_BitStorage_calcIndex i a bt) as [c off]. rewrite H. reflexivity.
Qed.
Lemma Set_ext i v a m l bt f g : (forall c, f c = g c) ->
  level_BitStorage_Set i v a m l bt f = level_BitStorage_Set i v a m l bt g.
Proof.
  intros H. unfold level_BitStorage_Set. cbv zeta. destruct (a =? 0); [reflexivity|].
  destruct (_ || _)%bool; [reflexivity|]. destruct (_ || _)%bool; [reflexivity|].
  destruct (level_BitStorage_calcIndex i a bt) as [c off]. unfold read_buf. cbn [fold_left]. rewrite H. reflexivity.
Qed.
Lemma Swap_ext i v a m l bt f g : (forall c, f c = g c) ->
  level_BitStorage_Swap i v a m l bt f = level_BitStorage_Swap i v a m l bt g.
Proof.
  intros H. unfold level_BitStorage_Swap. cbv zeta. destruct (a =? 0); [reflexivity|].
  destruct (_ || _)%bool; [reflexivity|]. destruct (_ || _)%bool; [reflexivity|].
  destruct (level_BitStorage_calcIndex i a bt) as [c off]. unfold read_buf. cbn [fold_left]. rewrite H. reflexivity.
Qed.

Lemma gdataf_inj st sp c : gdataf (inj st sp) c = C11_tie.dataf st c.
Proof. unfold gdataf, inj, C11_tie.dataf, znth. cbn [g_data]. change 0 with (Z.of_N 0). apply map_nth. Qed.

Lemma upd_nth_map d : forall c w, upd_nth (map Z.of_N d) c (Z.of_N w) = map Z.of_N (C11.upd_nth d c w).
Proof. induction d as [|x d IH]; intros [|c] w; cbn; try reflexivity. rewrite IH. reflexivity. Qed.

Lemma apply_one st sp c w :
  apply_log [(Z.of_nat c, Z.of_N w)] (inj st sp) = inj (C11.set_data st (C11.upd_nth (C11.data st) c w)) sp.
Proof.
  unfold apply_log, inj, set_g_data, zupd. cbn [fold_left fst snd g_data g_data_spare g_mask g_bits g_length g_valuesPerLong
    C11.set_data C11.data C11.mask C11.bits C11.blen C11.vpl].
  rewrite Nat2Z.id, upd_nth_map. reflexivity.
Qed.
Lemma apply_none st sp : apply_log [] (inj st sp) = inj st sp.
Proof. unfold apply_log. cbn [fold_left]. apply set_g_data_id. Qed.

Lemma wf_fields_ok st : Proofs.C11.wf st -> C11.blen st < 2 ^ 31 -> C11_tie.fields_ok st.
Proof.
  intros W Hl. pose proof (Proofs.C11.wf_bits st W) as Bb.
  pose proof (Proofs.C11.vpl_pos (Proofs.C11.wbits st) ltac:(lia)) as V.
  unfold C11_tie.fields_ok. rewrite (Proofs.C11.wf_vpl st W), (Proofs.C11.wf_mask st W).
  pose proof (Proofs.C11.wf_len st W). pose proof (Proofs.C11.wf_b st W).
  assert (Vle : (C11.spec_vpl (Proofs.C11.wbits st) <= 64)%N) by (unfold C11.spec_vpl; apply N.div_le_upper_bound; lia).
  repeat split; try lia.
  eapply N.lt_le_trans; [apply Proofs.C11.ones_lt|]. apply Proofs.C11.pow2_mono. lia.
Qed.

Lemma no_rt st o : Proofs.C11.wf st -> Proofs.C11.op_ints o -> snd (C11.bs_step st o) <> C11.OPanic C11.pRt.
Proof.
  intros W Ho. destruct (Proofs.C11.step_refines st o W Ho) as (_ & _ & _ & S).
  assert (E : snd (C11.bs_step st o) = snd (C11.spec_step (Proofs.C11.wbits st) (Proofs.C11.abs st) o)) by (rewrite S; reflexivity).
  rewrite E. unfold C11.spec_step. destruct o; cbv zeta;
  repeat match goal with |- context [if ?c then _ else _] => destruct c end; cbn [snd]; discriminate.
Qed.

Lemma t_step_sim st sp o : Proofs.C11.wf st -> C11.blen st < 2 ^ 31 -> Proofs.C11.op_ints o ->
  t_step (inj st sp) o = (inj (fst (C11.bs_step st o)) sp, erase (snd (C11.bs_step st o))).
Proof.
  intros W Hl Ho. pose proof (wf_fields_ok st W Hl) as F. pose proof (no_rt st o W Ho) as NR.
  pose proof (Proofs.C11.vpl_nz st W) as VZ.
  destruct o as [i|i v|i v]; cbn [C11.bs_step] in *; unfold t_step, inj at 1 2 3 4 5 6;
    cbn [g_data g_data_spare g_mask g_bits g_length g_valuesPerLong]; fold (inj st sp).
  - rewrite (Get_ext _ _ _ _ _ (C11_tie.dataf st)) by (intros; apply gdataf_inj).
    rewrite (C11_tie.tie_Get st i F NR). rewrite Proofs.C11_laws.get_state.
    unfold C11.bs_get in *. rewrite VZ in *. destruct (C11.bad_index st i); [reflexivity|].
    destruct (C11.locate st i) as [[[c off] l]|]; cbn [snd] in *; [reflexivity|congruence].
  - rewrite (Set_ext _ _ _ _ _ _ _ (C11_tie.dataf st)) by (intros; apply gdataf_inj).
    rewrite (C11_tie.tie_Set st i v F NR).
    unfold C11.bs_set in *. rewrite VZ in *. destruct (C11.bad_value st v); [destruct (C11.locate st i) as [[[? ?] ?]|]; reflexivity|].
    destruct (C11.bad_index st i); [destruct (C11.locate st i) as [[[? ?] ?]|]; reflexivity|].
    destruct (C11.locate st i) as [[[c off] l]|]; cbn [fst snd] in *; [|congruence].
    rewrite apply_one. reflexivity.
  - rewrite (Swap_ext _ _ _ _ _ _ _ (C11_tie.dataf st)) by (intros; apply gdataf_inj).
    rewrite (C11_tie.tie_Swap st i v F NR).
    unfold C11.bs_swap in *. rewrite VZ in *. destruct (C11.bad_value st v); [destruct (C11.locate st i) as [[[? ?] ?]|]; reflexivity|].
    destruct (C11.bad_index st i); [destruct (C11.locate st i) as [[[? ?] ?]|]; reflexivity|].
    destruct (C11.locate st i) as [[[c off] l]|]; cbn [fst snd] in *; [|congruence].
    rewrite apply_one. reflexivity.
Qed.

Lemma t_run_sim : forall ops st sp, Proofs.C11.wf st -> C11.blen st < 2 ^ 31 -> Forall Proofs.C11.op_ints ops ->
  t_run (inj st sp) ops = (inj (fst (C11.bs_run st ops)) sp, map erase (snd (C11.bs_run st ops))).
Proof.
  induction ops as [|o t IH]; intros st sp W Hl Hops; [reflexivity|].
  inversion Hops as [|? ? Ho Ht]; subst.
  cbn [t_run C11.bs_run]. rewrite (t_step_sim st sp o W Hl Ho).
  destruct (Proofs.C11.step_refines st o W Ho) as (W1 & _ & L1 & _).
  destruct (C11.bs_step st o) as [s1 r]. cbn [fst snd] in *.
  rewrite (IH s1 sp W1 ltac:(lia) Ht). destruct (C11.bs_run s1 t) as [s2 rs]. reflexivity.
Qed.

(* ANY history of translated Get / Set / Swap on the storage the translated NewBitStorage(bits, n, nil)
   returns behaves as the checked array of n unsigned b-bit integers, initially all 0: same outcomes (value,
   normal return, panic), and the raw longs afterwards are the 1.16+ packing of the array's final contents *)
Theorem array_semantics_translated bts n ops b0 :
  1 <= bts <= 63 -> 0 <= n < 2 ^ 31 -> Forall Proofs.C11.op_ints ops ->
  c11_NewBitStorage bts n None = GRet b0 ->
  let r := t_run b0 ops in
  let sp := C11.spec_run (Z.to_N bts) (repeat 0%N (Z.to_nat n)) ops in
  snd r = map erase (snd sp) /\
  c11_BitStorage_Raw (Some (fst r)) = map Z.of_N (C11.pack (Z.to_N bts) (fst sp)) /\
  c11_BitStorage_Len (fst r) = n /\ length (fst sp) = Z.to_nat n.
Proof.
  intros Hb Hn Hops Hnew. change (2 ^ 31) with 2147483648 in Hn.
  destruct (Proofs.C11.new_zero bts n Hb ltac:(lia)) as (st0 & N0 & W0 & B0 & L0 & A0 & D0).
  pose proof (tie_New bts n None ltac:(unfold in_int; change (2 ^ 62) with 4611686018427387904; lia)) as T.
  cbn [option_map] in T. rewrite N0, Hnew in T. injection T as ->.
  cbv zeta. rewrite (t_run_sim ops st0 [] W0 ltac:(change (2 ^ 31) with 2147483648; lia) Hops). cbn [fst snd].
  destruct (Proofs.C11.run_refines ops st0 W0 Hops) as (W1 & B1 & L1 & S1).
  assert (Ew : Proofs.C11.wbits st0 = Z.to_N bts) by (unfold Proofs.C11.wbits; rewrite B0; reflexivity).
  rewrite Ew, A0 in S1. rewrite S1. cbn [fst snd].
  split; [reflexivity|]. split; [|split].
  - cbn [c11_BitStorage_Raw inj g_data]. f_equal.
    exact (Proofs.C11_pack.raw_is_pack bts n ops st0 Hb ltac:(lia) Hops N0).
  - cbn [c11_BitStorage_Len inj g_length]. rewrite L1. exact L0.
  - rewrite Proofs.C11.abs_length, L1, L0. reflexivity.
Qed.
