(* C11 proofs, part 2: WriteTo / ReadFrom / Fix *)
From Coq Require Import List Arith NArith ZArith Lia Bool ZifyN ZifyNat ZifyBool.
From GoMC Require Import Base.Bytes Base.Bits Base.Dec Gen.Consts Model.C05 Proofs.C05 Model.C11 Proofs.C11.
Import ListNotations.
Open Scope N_scope.
Ltac Zify.zify_post_hook ::= Z.to_euclidean_division_equations.

Lemma be8_eq v : be 8 v =
  [ (v/256/256/256/256/256/256/256) mod 256; (v/256/256/256/256/256/256) mod 256;
    (v/256/256/256/256/256) mod 256; (v/256/256/256/256) mod 256;
    (v/256/256/256) mod 256; (v/256/256) mod 256; (v/256) mod 256; v mod 256 ].
Proof. reflexivity. Qed.

Lemma longs_of_be8 x t : x < 2^64 -> longs_of (be 8 x ++ t) = x :: longs_of t.
Proof.
  intros Hx. rewrite be8_eq. cbn [app longs_of]. rewrite <- be8_eq. rewrite unbe_be.
  change (256 ^ N.of_nat 8) with (2^64). rewrite N.mod_small by exact Hx. reflexivity.
Qed.

Lemma longs_of_image d : Forall (fun l => l < 2^64) d -> longs_of (concat (map (be 8) d)) = d.
Proof.
  induction 1 as [|x t Hx Ht IH]; [reflexivity|].
  cbn [map concat]. rewrite longs_of_be8 by exact Hx. rewrite IH. reflexivity.
Qed.

Lemma image_len d : lenN (concat (map (be 8) d)) = 8 * lenN d.
Proof.
  induction d as [|x t IH]; [reflexivity|].
  cbn [map concat]. rewrite lenN_app, IH, lenN_cons. unfold lenN at 1. rewrite be_length. lia.
Qed.

Lemma takeN_exact {A} (a b : list A) : takeN (lenN a) (a ++ b) = a.
Proof. unfold takeN, lenN. rewrite Nat2N.id. apply firstn_app_exact. Qed.
Lemma dropN_exact {A} (a b : list A) : dropN (lenN a) (a ++ b) = b.
Proof. unfold dropN, lenN. rewrite Nat2N.id. apply skipn_app_exact. Qed.

Lemma count32 L : L < 2^31 -> sx32 (u32 (Z.of_N L)) = Z.of_N L.
Proof.
  intros H. unfold sx32, u32. apply sx_wrapu; [lia|].
  unfold in_sw. change (Z.of_N 32 - 1)%Z with 31%Z. change (2^31) with 2147483648 in H.
  change (2^31)%Z with 2147483648%Z. lia.
Qed.

(* reading the image of st into ANY storage d replaces d's longs by st's, consumes exactly the
   image and reports its length *)
Lemma read_write st d rest : Forall (fun l => l < 2^64) (data st) -> lenN (data st) < 2^31 ->
  run_flat (bs_read d) (fst (bs_write st) ++ rest) = FOk (set_data d (data st), snd (bs_write st)) rest.
Proof.
  intros Hd HL. unfold bs_write, bs_read. cbn [fst snd].
  rewrite count32 by exact HL. rewrite <- app_assoc.
  rewrite run_flat_bind by apply read32_robust.
  rewrite read32_write32.
  2:{ unfold in_sw. change (Z.of_N 32 - 1)%Z with 31%Z. change (2^31) with 2147483648 in HL.
      change (2^31)%Z with 2147483648%Z. lia. }
  destruct (Z.ltb_spec (Z.of_N (lenN (data st))) 0) as [L|L]; [lia|].
  rewrite N2Z.id. cbn [run_flat].
  rewrite <- image_len. rewrite lenN_app.
  destruct (N.leb_spec (lenN (concat (map (be 8) (data st)))) (lenN (concat (map (be 8) (data st))) + lenN rest)) as [L2|L2]; [|lia].
  rewrite takeN_exact, dropN_exact. cbn [run_flat]. rewrite longs_of_image by exact Hd.
  rewrite lenN_app. reflexivity.
Qed.

(* wire round trip followed by Fix, into any destination of the same length *)
Theorem wire_roundtrip st d rest : wf st -> lenN (data st) < 2^31 -> blen d = blen st ->
  exists d', run_flat (bs_read d) (fst (bs_write st) ++ rest) = FOk (d', snd (bs_write st)) rest /\
             snd (bs_write st) = lenN (fst (bs_write st)) /\
             bs_fix d' (bits st) = (st, OUnit).
Proof.
  intros W HL Hlen. exists (set_data d (data st)). split; [apply read_write; [apply W|exact HL]|].
  split; [reflexivity|].
  rewrite fix_result; cbn [set_data data blen]; try rewrite Hlen; try apply W.
  rewrite (wf_size_of st W), Z.eqb_refl. rewrite wf_record by exact W. reflexivity.
Qed.

Lemma read_robust d : robust (bs_read d).
Proof.
  unfold bs_read. apply robust_bind; [apply read32_robust|].
  intros [cnt n0]. destruct (cnt <? 0)%Z; constructor. intros bs. constructor.
Qed.

(* ReadFrom never panics and never runs out of fuel, whatever the bytes (negative count included) *)
Lemma read_total d s : ok_or_err (run_flat (bs_read d) s).
Proof.
  unfold bs_read. rewrite run_flat_bind by apply read32_robust.
  pose proof (read32_cap s) as H.
  destruct (run_flat read32 s) as [[cnt n0] r| | |]; try contradiction; [|exact I].
  destruct (cnt <? 0)%Z; [exact I|]. cbn [run_flat].
  destruct (8 * Z.to_N cnt <=? lenN r); exact I.
Qed.

Lemma read_negative d s cnt n0 r : run_flat read32 s = FOk (cnt, n0) r -> (cnt < 0)%Z ->
  is_err (run_flat (bs_read d) s) = true.
Proof.
  intros H Hc. unfold bs_read. rewrite run_flat_bind by apply read32_robust. rewrite H.
  destruct (Z.ltb_spec cnt 0); [reflexivity|lia].
Qed.

(* calcBitsPerValue: exact when the array fills its longs, wrong in general *)
Lemma infer_refuted : exists b n : Z, (1 <= b <= 32)%Z /\ (0 < n)%Z /\
  match calc_size b n with Some s => calc_bits n s <> Some b | None => False end.
Proof. exists 3%Z, 64%Z. vm_compute. repeat split; try discriminate. Qed.

Lemma infer_refuted_4096 : calc_size 15 4096 = Some 1024%Z /\ calc_bits 4096 1024 = Some 16%Z.
Proof. vm_compute. auto. Qed.

Lemma infer_partial b n : (1 <= b <= 63)%Z -> (0 < n)%Z -> (n mod Z.quot 64 b = 0)%Z ->
  exists s, calc_size b n = Some s /\ calc_bits n s = Some (Z.quot 64 (Z.quot 64 b)).
Proof.
  intros Hb Hn Hm. destruct (calc_size_ok b n Hb ltac:(lia)) as [Hs _].
  exists (size_of b n). split; [exact Hs|].
  pose proof (quot64 b Hb) as Q. pose proof (vpl_pos (Z.to_N b) ltac:(lia)) as P.
  unfold size_of, calc_bits. set (v := Z.quot 64 b) in *.
  assert (Hv : (1 <= v)%Z) by lia.
  assert (E : ((n + v - 1) / v = n / v)%Z).
  { assert (n = v * (n / v))%Z by (pose proof (Z.div_mod n v ltac:(lia)); lia).
    symmetry. apply Z.div_unique with (r := (v - 1)%Z); lia. }
  rewrite E. set (q := (n / v)%Z) in *.
  assert (Hq : (n = v * q)%Z) by (unfold q; pose proof (Z.div_mod n v ltac:(lia)); lia).
  assert (Hq1 : (1 <= q)%Z) by nia.
  destruct (Z.eqb_spec q 0); [lia|]. destruct (Z.eqb_spec n 0); [lia|]. cbn [orb].
  assert (E2 : Z.quot (n + q - 1) q = v).
  { rewrite Z.quot_div_nonneg by lia. symmetry. apply Z.div_unique with (r := (q - 1)%Z); lia. }
  rewrite E2. destruct (Z.eqb_spec v 0); [lia|]. reflexivity.
Qed.
