(* C12: the PaletteContainer model (Model/C12.v) refines an array of state ids.
   Invariant, the step lemma for the non-resizing path, the copy loop, refinement of Set across every
   representation change, histories. *)
From Coq Require Import List Arith NArith ZArith Lia Bool ZifyN ZifyNat ZifyBool.
From GoMC Require Import Base.Bytes Base.Bits Base.Dec Gen.Consts Model.C05 Model.C11 Model.C12.
From GoMC Require Import Proofs.C11 Proofs.C11_laws.
Import ListNotations.
Open Scope Z_scope.
Ltac Zify.zify_post_hook ::= Z.to_euclidean_division_equations.

(* ---------- list helpers ---------- *)

Lemma upd_nth_repeat {A} (x : A) n i : upd_nth (repeat x n) i x = repeat x n.
Proof. revert i; induction n as [|n IH]; intros [|i]; cbn; auto. f_equal. apply IH. Qed.

Lemma nth_map_lt {A B} (f : A -> B) l j d d' : (j < length l)%nat -> nth j (map f l) d' = f (nth j l d).
Proof. intros H. rewrite (nth_indep _ d' (f d)) by (rewrite map_length; exact H). apply map_nth. Qed.

Lemma nth_upd_nth {A} (l : list A) i j x d : (i < length l)%nat ->
  nth j (upd_nth l i x) d = if (j =? i)%nat then x else nth j l d.
Proof.
  intros H. destruct (Nat.eqb_spec j i) as [->|E].
  - apply nth_upd_nth_eq. exact H.
  - apply nth_upd_nth_neq. auto.
Qed.

Lemma eq_upd_nth {A} (l l' : list A) i x d : (i < length l)%nat -> length l' = length l ->
  (forall j, (j < length l)%nat -> nth j l' d = if (j =? i)%nat then x else nth j l d) -> l' = upd_nth l i x.
Proof.
  intros Hi Hl H. apply (nth_ext _ _ d d).
  - rewrite upd_nth_length. exact Hl.
  - intros j Hj. rewrite Hl in Hj. rewrite H by exact Hj. rewrite nth_upd_nth by exact Hi. reflexivity.
Qed.

Lemma zlen_app {A} (a b : list A) : zlen (a ++ b) = zlen a + zlen b.
Proof. unfold zlen. rewrite app_length. lia. Qed.
Lemma zlen_nonneg {A} (l : list A) : 0 <= zlen l.
Proof. unfold zlen. lia. Qed.

(* ---------- palette lookups ---------- *)

Lemma index_of_some v l : forall s r, index_of v l s = Some r ->
  s <= r < s + zlen l /\ nth_error l (Z.to_nat (r - s)) = Some v.
Proof.
  induction l as [|x t IH]; intros s r H; cbn in H; [discriminate|].
  destruct (Z.eqb_spec x v) as [->|E].
  - inversion H; subst. unfold zlen. cbn [length]. rewrite Z.sub_diag. cbn. split; [lia|reflexivity].
  - destruct (IH _ _ H) as [Hr Hn]. unfold zlen in *. cbn [length]. split; [lia|].
    replace (Z.to_nat (r - s)) with (S (Z.to_nat (r - (s + 1)))) by lia. exact Hn.
Qed.
Lemma index_of_none v l : forall s, index_of v l s = None -> ~ In v l.
Proof.
  induction l as [|x t IH]; intros s H; cbn in *; [tauto|].
  destruct (Z.eqb_spec x v) as [->|E]; [discriminate|].
  intros [A|A]; [congruence|]. exact (IH _ H A).
Qed.
Lemma last_index_of_some v l : forall s r, last_index_of v l s = Some r ->
  s <= r < s + zlen l /\ nth_error l (Z.to_nat (r - s)) = Some v.
Proof.
  induction l as [|x t IH]; intros s r H; cbn in H; [discriminate|].
  destruct (last_index_of v t (s + 1)) as [j|] eqn:E.
  - inversion H; subst. destruct (IH _ _ E) as [Hr Hn]. unfold zlen in *. cbn [length]. split; [lia|].
    replace (Z.to_nat (r - s)) with (S (Z.to_nat (r - (s + 1)))) by lia. exact Hn.
  - destruct (Z.eqb_spec x v) as [->|E2]; [|discriminate].
    inversion H; subst. unfold zlen. cbn [length]. rewrite Z.sub_diag. cbn. split; [lia|reflexivity].
Qed.
Lemma last_index_of_none v l : forall s, last_index_of v l s = None -> ~ In v l.
Proof.
  induction l as [|x t IH]; intros s H; cbn in *; [tauto|].
  destruct (last_index_of v t (s + 1)) eqn:E; [discriminate|].
  destruct (Z.eqb_spec x v) as [->|E2]; [discriminate|].
  intros [A|A]; [congruence|]. exact (IH _ E A).
Qed.
(* under the no-duplicates invariant the Go map (last index) and the linear scan (first index) agree *)
Lemma index_first_last v l : NoDup l -> forall s, last_index_of v l s = index_of v l s.
Proof.
  induction 1 as [|x t Hx Hn IH]; intros s; cbn; [reflexivity|].
  rewrite IH. destruct (Z.eqb_spec x v) as [->|E].
  - destruct (index_of v t (s + 1)) eqn:F; [|reflexivity].
    destruct (index_of_some _ _ _ _ F) as [_ G]. apply nth_error_In in G. contradiction.
  - destruct (index_of v t (s + 1)); reflexivity.
Qed.

(* ---------- the data array seen as a list of palette indices ---------- *)

Definition dwf (d : bstore) : Prop :=
  (vpl d = 0 /\ bits d = 0 /\ 0 <= blen d /\ Forall (fun l => (l < 2^64)%N) (data d)) \/ wf d.
Definition didx (d : bstore) : list N :=
  if vpl d =? 0 then repeat 0%N (Z.to_nat (blen d)) else Proofs.C11.abs d.

Lemma didx_length d : length (didx d) = Z.to_nat (blen d).
Proof. unfold didx. destruct (vpl d =? 0); [apply repeat_length | apply abs_length]. Qed.

Lemma dwf_len d : dwf d -> 0 <= blen d.
Proof. intros [(_ & _ & H & _)|W]; [exact H | apply W]. Qed.

Lemma dget d j : dwf d -> 0 <= j < blen d ->
  bs_get d j = (d, ORet (Z.of_N (nth (Z.to_nat j) (didx d) 0%N))).
Proof.
  intros [(Hv & Hb & Hl & Hf)|W] Hj.
  - unfold bs_get, didx. rewrite Hv. cbn [Z.eqb]. rewrite repeat_nth0. reflexivity.
  - unfold didx. rewrite (vpl_nz d W). apply get_in_range; auto.
Qed.

Lemma dset d i k : dwf d -> 0 <= i < blen d -> 0 <= k < 2 ^ bits d ->
  exists d', bs_set d i k = (d', OUnit) /\ dwf d' /\ bits d' = bits d /\ blen d' = blen d /\
             didx d' = upd_nth (didx d) (Z.to_nat i) (Z.to_N k).
Proof.
  intros [(Hv & Hb & Hl & Hf)|W] Hi Hk.
  - exists d. unfold bs_set, didx. rewrite Hv. cbn [Z.eqb]. rewrite Hb in Hk. change (2 ^ 0) with 1 in Hk.
    replace k with 0 by lia. cbn [Z.to_N]. rewrite upd_nth_repeat.
    repeat split; auto. left. auto.
  - destruct (set_in_range d i k W Hi Hk) as (W1 & O1 & B1 & L1 & A1).
    exists (fst (bs_set d i k)). split; [rewrite <- O1; apply surjective_pairing|].
    split; [right; exact W1|]. split; [exact B1|]. split; [exact L1|].
    unfold didx. rewrite (vpl_nz _ W1), (vpl_nz d W). exact A1.
Qed.

(* ---------- invariant ---------- *)

Definition wfcfg (cf : cfg) : Prop :=
  match ckind cf with KStates => 9 <= gbits cf <= 31 | KBiomes => 4 <= gbits cf <= 31 end.
Definition inreg (cf : cfg) (v : Z) : Prop := 0 <= v < 2 ^ gbits cf.

Definition pval (p : pal) (k : N) : option Z := pal_value p (Z.of_N k).
Definition pvald (p : pal) (k : N) : Z := match pval p k with Some v => v | None => 0 end.

(* the array of state ids a container denotes *)
Definition pabs (c : pc) : list Z := map (pvald (cpal c)) (didx (cdata c)).

(* shape of the palette for the logical width b, against the width dbits of the data array *)
Definition pal_wf (cf : cfg) (b : Z) (p : pal) (dbits : Z) : Prop :=
  match p with
  | PSingle v => b = 0 /\ dbits = 0 /\ inreg cf v
  | PLinear vals cap pb =>
      match ckind cf with KStates => 1 <= b <= 4 /\ pb = 4 | KBiomes => 1 <= b <= 3 /\ pb = b end /\
      dbits = pb /\ zlen vals <= cap <= 2 ^ pb /\ Forall (inreg cf) vals
  | PHash vals cap pb =>
      ckind cf = KStates /\ 5 <= b <= 8 /\ pb = b /\
      dbits = pb /\ zlen vals <= cap <= 2 ^ pb /\ Forall (inreg cf) vals
  | PGlobal =>
      match ckind cf with KStates => 9 <= b | KBiomes => 4 <= b end /\ b <= 255 /\ dbits = gbits cf
  end.

Record CI (c : pc) : Prop := mkCI {
  ci_cfg : wfcfg (ccfg c);
  ci_data : dwf (cdata c);
  ci_pal : pal_wf (ccfg c) (cbits c) (cpal c) (bits (cdata c)) }.

Definition getv (c : pc) (j : nat) : option Z := pval (cpal c) (nth j (didx (cdata c)) 0%N).

Definition Inv (c : pc) : Prop :=
  CI c /\ forall j, (j < Z.to_nat (blen (cdata c)))%nat -> exists v, getv c j = Some v.

Lemma pabs_length c : length (pabs c) = Z.to_nat (blen (cdata c)).
Proof. unfold pabs. rewrite map_length. apply didx_length. Qed.

Lemma pabs_nth c j v : (j < Z.to_nat (blen (cdata c)))%nat -> getv c j = Some v -> nth j (pabs c) 0 = v.
Proof.
  intros Hj Hv. unfold pabs. rewrite (nth_map_lt _ _ _ 0%N) by (rewrite didx_length; exact Hj).
  unfold pvald. unfold getv in Hv. rewrite Hv. reflexivity.
Qed.

Lemma get_val c j : dwf (cdata c) -> 0 <= j < blen (cdata c) ->
  pc_get c j = match getv c (Z.to_nat j) with Some v => ORet v | None => OPanic pPal end.
Proof. intros W Hj. unfold pc_get. rewrite (dget _ _ W Hj). cbn [snd]. reflexivity. Qed.

(* Get on a container satisfying the invariant: the element of the array *)
Lemma get_abs c j : Inv c -> 0 <= j < blen (cdata c) -> pc_get c j = ORet (nth (Z.to_nat j) (pabs c) 0).
Proof.
  intros [C V] Hj. rewrite get_val by (auto; apply C).
  destruct (V (Z.to_nat j)) as [v Hv]; [lia|]. rewrite Hv. erewrite pabs_nth; eauto. lia.
Qed.

(* ---------- the non-resizing path of Set ---------- *)

Lemma pc_set_ok f c i v p' k : pal_id (cpal c) v = (p', k, true) ->
  pc_set (S f) c i v = (let '(d', o) := bs_set (cdata c) i k in (mkPC (cbits c) (ccfg c) p' d', o)).
Proof. intros H. cbn [pc_set]. rewrite H. reflexivity. Qed.

Lemma vals_lookup (vals : list Z) k v : 0 <= k < zlen vals -> nth_error vals (Z.to_nat k) = Some v ->
  (if (0 <=? Z.of_N (Z.to_N k)) && (Z.of_N (Z.to_N k) <? zlen vals)
   then nth_error vals (Z.to_nat (Z.of_N (Z.to_N k))) else None) = Some v.
Proof.
  intros Hk Hn. rewrite Z2N.id by lia.
  destruct (Z.leb_spec 0 k); [|lia]. destruct (Z.ltb_spec k (zlen vals)); [|lia]. exact Hn.
Qed.

Lemma vals_keep (vals : list Z) x k0 y :
  (if (0 <=? Z.of_N k0) && (Z.of_N k0 <? zlen vals) then nth_error vals (Z.to_nat (Z.of_N k0)) else None) = Some y ->
  (if (0 <=? Z.of_N k0) && (Z.of_N k0 <? zlen (vals ++ [x]))
   then nth_error (vals ++ [x]) (Z.to_nat (Z.of_N k0)) else None) = Some y.
Proof.
  rewrite zlen_app. destruct (Z.leb_spec 0 (Z.of_N k0)); [|lia]. cbn [andb].
  destruct (Z.ltb_spec (Z.of_N k0) (zlen vals)); [|discriminate].
  destruct (Z.ltb_spec (Z.of_N k0) (zlen vals + zlen [x])); [|pose proof (zlen_nonneg [x]); lia].
  intros HH. rewrite nth_error_app1; [exact HH|]. unfold zlen in *. lia.
Qed.

Lemma vals_new (vals : list Z) x :
  (if (0 <=? Z.of_N (Z.to_N (zlen vals))) && (Z.of_N (Z.to_N (zlen vals)) <? zlen (vals ++ [x]))
   then nth_error (vals ++ [x]) (Z.to_nat (Z.of_N (Z.to_N (zlen vals)))) else None) = Some x.
Proof.
  pose proof (zlen_nonneg vals). rewrite Z2N.id by lia. rewrite zlen_app.
  destruct (Z.leb_spec 0 (zlen vals)); [|lia].
  destruct (Z.ltb_spec (zlen vals) (zlen vals + zlen [x])); [|unfold zlen in *; cbn [length] in *; lia].
  cbn [andb]. unfold zlen. rewrite Nat2Z.id. rewrite nth_error_app2 by lia. rewrite Nat.sub_diag. reflexivity.
Qed.

Lemma step_ok c i v p' k : CI c -> inreg (ccfg c) v -> 0 <= i < blen (cdata c) ->
  pal_id (cpal c) v = (p', k, true) ->
  exists d', bs_set (cdata c) i k = (d', OUnit) /\
    CI (mkPC (cbits c) (ccfg c) p' d') /\ blen d' = blen (cdata c) /\ 0 <= k /\
    didx d' = upd_nth (didx (cdata c)) (Z.to_nat i) (Z.to_N k) /\
    pval p' (Z.to_N k) = Some v /\
    (forall k0 y, pval (cpal c) k0 = Some y -> pval p' k0 = Some y).
Proof.
  intros [Cc Cd Cp] Hv Hi Hid. destruct c as [b cf p d]. cbn [cbits ccfg cpal cdata] in *.
  assert (FIN : forall k, 0 <= k < 2 ^ bits d -> pal_wf cf b p' (bits d) ->
            pval p' (Z.to_N k) = Some v -> (forall k0 y, pval p k0 = Some y -> pval p' k0 = Some y) ->
            exists d', bs_set d i k = (d', OUnit) /\
              CI (mkPC b cf p' d') /\ blen d' = blen d /\ 0 <= k /\
              didx d' = upd_nth (didx d) (Z.to_nat i) (Z.to_N k) /\
              pval p' (Z.to_N k) = Some v /\
              (forall k0 y, pval p k0 = Some y -> pval p' k0 = Some y)).
  { intros k1 Hk Hp Hval Hkeep. destruct (dset d i k1 Cd Hi Hk) as (d' & E & W' & B' & L' & A').
    exists d'. split; [exact E|]. split.
    - constructor; cbn [cbits ccfg cpal cdata]; auto. rewrite B'. exact Hp.
    - repeat split; auto; lia. }
  destruct p as [v0|vals cap pb|vals cap pb|]; cbn [pal_id] in Hid.
  - (* single value *)
    destruct (Z.eqb_spec v0 v) as [->|E]; [|discriminate]. inversion Hid; subst p' k.
    destruct Cp as (Hb & Hd & Hr). apply FIN; auto.
    + rewrite Hd. cbn. lia.
    + cbn. auto.
  - (* linear *)
    destruct Cp as (Hk & Hd & Hc & Hr).
    destruct (index_of v vals 0) as [r|] eqn:F.
    + inversion Hid; subst p' k. destruct (index_of_some _ _ _ _ F) as [Hr1 Hr2].
      rewrite Z.sub_0_r in Hr2. apply FIN; auto.
      * rewrite Hd. lia.
      * cbn [pal_wf]. auto.
      * unfold pval. cbn [pal_value]. apply vals_lookup; auto; lia.
    + destruct (Z.ltb_spec 0 (cap - zlen vals)) as [Hroom|]; [|discriminate].
      inversion Hid; subst p' k. pose proof (zlen_nonneg vals).
      apply FIN.
      * rewrite Hd. lia.
      * cbn [pal_wf]. split; [exact Hk|]. split; [exact Hd|]. split.
        { rewrite zlen_app. unfold zlen at 2. cbn [length]. lia. }
        { apply Forall_app. split; [exact Hr|]. constructor; auto. }
      * unfold pval. cbn [pal_value]. apply vals_new.
      * intros k0 y. unfold pval. cbn [pal_value]. apply vals_keep.
  - (* hash *)
    destruct Cp as (Hs & Hk & Hpb & Hd & Hc & Hr).
    destruct (last_index_of v vals 0) as [r|] eqn:F.
    + inversion Hid; subst p' k. destruct (last_index_of_some _ _ _ _ F) as [Hr1 Hr2].
      rewrite Z.sub_0_r in Hr2. apply FIN; auto.
      * rewrite Hd. lia.
      * cbn [pal_wf]. auto 10.
      * unfold pval. cbn [pal_value]. apply vals_lookup; auto; lia.
    + destruct (Z.ltb_spec 0 (cap - zlen vals)) as [Hroom|]; [|discriminate].
      inversion Hid; subst p' k. pose proof (zlen_nonneg vals).
      apply FIN.
      * rewrite Hd. lia.
      * cbn [pal_wf]. split; [exact Hs|]. split; [exact Hk|]. split; [exact Hpb|]. split; [exact Hd|]. split.
        { rewrite zlen_app. unfold zlen at 2. cbn [length]. lia. }
        { apply Forall_app. split; [exact Hr|]. constructor; auto. }
      * unfold pval. cbn [pal_value]. apply vals_new.
      * intros k0 y. unfold pval. cbn [pal_value]. apply vals_keep.
  - (* global *)
    inversion Hid; subst p' k. destruct Cp as (Hk & Hb & Hd). apply FIN; auto.
    + rewrite Hd. exact Hv.
    + cbn [pal_wf]. auto.
    + unfold pval. cbn [pal_value]. f_equal. unfold inreg in Hv. lia.
Qed.

(* ---------- a Set that finds room in the palette ---------- *)

Definition room (p : pal) (x : Z) : Prop :=
  match p with
  | PSingle _ => False
  | PLinear vals cap _ | PHash vals cap _ => zlen vals < cap \/ In x vals
  | PGlobal => True
  end.
Definition pal_ext (p p' : pal) (x : Z) : Prop :=
  p' = p \/
  match p with
  | PLinear vals cap pb => p' = PLinear (vals ++ [x]) cap pb /\ ~ In x vals
  | PHash vals cap pb => p' = PHash (vals ++ [x]) cap pb /\ ~ In x vals
  | _ => False
  end.

Lemma id_room p x : room p x -> exists p' k, pal_id p x = (p', k, true) /\ pal_ext p p' x.
Proof.
  destruct p as [v0|vals cap pb|vals cap pb|]; cbn [room pal_id]; intros R.
  - contradiction.
  - destruct (index_of x vals 0) as [r|] eqn:F.
    + eexists _, _. split; [reflexivity|left; reflexivity].
    + pose proof (index_of_none _ _ _ F) as Hn. destruct R as [R|R]; [|contradiction].
      destruct (Z.ltb_spec 0 (cap - zlen vals)); [|lia].
      eexists _, _. split; [reflexivity|]. right. auto.
  - destruct (last_index_of x vals 0) as [r|] eqn:F.
    + eexists _, _. split; [reflexivity|left; reflexivity].
    + pose proof (last_index_of_none _ _ _ F) as Hn. destruct R as [R|R]; [|contradiction].
      destruct (Z.ltb_spec 0 (cap - zlen vals)); [|lia].
      eexists _, _. split; [reflexivity|]. right. auto.
  - eexists _, _. split; [reflexivity|left; reflexivity].
Qed.

Lemma set_room f c j x : CI c -> room (cpal c) x -> inreg (ccfg c) x -> 0 <= j < blen (cdata c) ->
  exists c', pc_set (S f) c j x = (c', OUnit) /\ CI c' /\ ccfg c' = ccfg c /\ cbits c' = cbits c /\
    blen (cdata c') = blen (cdata c) /\ pal_ext (cpal c) (cpal c') x /\
    getv c' (Z.to_nat j) = Some x /\
    (forall j' y, j' <> Z.to_nat j -> getv c j' = Some y -> getv c' j' = Some y).
Proof.
  intros C R Hx Hj. destruct (id_room _ _ R) as (p' & k & Hid & Hext).
  rewrite (pc_set_ok f c j x p' k Hid).
  destruct (step_ok c j x p' k C Hx Hj Hid) as (d' & E & C' & L' & Hk & A' & Hnew & Hkeep).
  rewrite E. eexists. split; [reflexivity|]. split; [exact C'|]. cbn [ccfg cbits cdata cpal].
  repeat split; auto.
  - unfold getv. cbn [cpal cdata]. rewrite A'.
    rewrite nth_upd_nth by (rewrite didx_length; lia). rewrite Nat.eqb_refl. exact Hnew.
  - intros j' y Hne Hy. unfold getv in *. cbn [cpal cdata]. rewrite A'.
    destruct (Nat.lt_ge_cases (Z.to_nat j) (length (didx (cdata c)))) as [Hlt|Hge].
    + rewrite nth_upd_nth by exact Hlt. destruct (Nat.eqb_spec j' (Z.to_nat j)); [contradiction|].
      apply Hkeep. exact Hy.
    + rewrite didx_length in Hge. lia.
Qed.

(* ---------- the copy loop of the resize ---------- *)

Lemma NoDup_snoc {A} (l : list A) x : NoDup l -> ~ In x l -> NoDup (l ++ [x]).
Proof.
  induction 1 as [|y t Hy Hn IH]; intros Hx; cbn.
  - constructor; [tauto|constructor].
  - constructor.
    + rewrite in_app_iff. cbn. intros [A1|[A1|[]]]; [contradiction|]. subst. apply Hx. left. reflexivity.
    + apply IH. intros A1. apply Hx. right. exact A1.
Qed.

(* the destination of the copy: a container of the new width whose palette holds, without
   duplicates, only values of the source palette U, which is strictly smaller than its capacity *)
Definition DI (cf : cfg) (b n : Z) (U : list Z) (dst : pc) : Prop :=
  CI dst /\ ccfg dst = cf /\ cbits dst = b /\ blen (cdata dst) = n /\
  match cpal dst with
  | PSingle _ => False
  | PLinear vals cap _ | PHash vals cap _ => NoDup vals /\ incl vals U /\ zlen U < cap
  | PGlobal => True
  end.

(* key lemma: copying values of the source palette never overflows the new palette, and one more
   value still fits afterwards *)
Lemma di_room cf b n U dst x : DI cf b n U dst -> room (cpal dst) x.
Proof.
  intros (_ & _ & _ & _ & Hp). unfold room.
  destruct (cpal dst) as [v0|vals cap pb|vals cap pb|]; auto.
  - destruct Hp as (Hnd & Hin & Hc). left.
    pose proof (NoDup_incl_length Hnd Hin). unfold zlen in *. lia.
  - destruct Hp as (Hnd & Hin & Hc). left.
    pose proof (NoDup_incl_length Hnd Hin). unfold zlen in *. lia.
Qed.

Lemma di_ext cf b n U dst dst' x : DI cf b n U dst -> In x U ->
  CI dst' -> ccfg dst' = ccfg dst -> cbits dst' = cbits dst -> blen (cdata dst') = blen (cdata dst) ->
  pal_ext (cpal dst) (cpal dst') x -> DI cf b n U dst'.
Proof.
  intros (C & Hcf & Hb & Hn & Hp) Hx C' E1 E2 E3 Hext.
  split; [exact C'|]. split; [congruence|]. split; [congruence|]. split; [congruence|].
  destruct Hext as [->|Hext]; [exact Hp|].
  destruct (cpal dst) as [v0|vals cap pb|vals cap pb|]; try contradiction.
  - destruct Hext as [-> Hni]. destruct Hp as (Hnd & Hin & Hc).
    split; [apply NoDup_snoc; auto|]. split; [|exact Hc].
    apply incl_app; [exact Hin|]. intros y [<-|[]]. exact Hx.
  - destruct Hext as [-> Hni]. destruct Hp as (Hnd & Hin & Hc).
    split; [apply NoDup_snoc; auto|]. split; [|exact Hc].
    apply incl_app; [exact Hin|]. intros y [<-|[]]. exact Hx.
Qed.

Lemma copy_ok f src cf b n U :
  (forall j, 0 <= j < n -> exists x, pc_get src j = ORet x /\ getv src (Z.to_nat j) = Some x /\
                                     In x U /\ inreg cf x) ->
  forall idxs dst (D : nat -> Prop),
    (forall j, In j idxs -> 0 <= j < n) -> DI cf b n U dst ->
    (forall j, D j -> (j < Z.to_nat n)%nat /\ getv dst j = getv src j) ->
    exists dst', copy_loop (pc_set (S f)) src dst idxs = (dst', OUnit) /\ DI cf b n U dst' /\
      (forall j, D j \/ In (Z.of_nat j) idxs -> (j < Z.to_nat n)%nat /\ getv dst' j = getv src j).
Proof.
  intros Hsrc. induction idxs as [|j t IH]; intros dst D Hin Hdi HD.
  - exists dst. cbn [copy_loop]. split; [reflexivity|]. split; [exact Hdi|].
    intros j [Hj|[]]. apply HD. exact Hj.
  - cbn [copy_loop]. assert (Hj : 0 <= j < n) by (apply Hin; left; reflexivity).
    destruct (Hsrc j Hj) as (x & Hg & Hgv & HxU & Hxr). rewrite Hg.
    pose proof Hdi as (C & Hcf & Hb & Hn & Hp).
    assert (Hj' : 0 <= j < blen (cdata dst)) by lia.
    assert (Hxr' : inreg (ccfg dst) x) by (rewrite Hcf; exact Hxr).
    destruct (set_room f dst j x C (di_room _ _ _ _ _ x Hdi) Hxr' Hj')
      as (dst1 & E & C1 & E1 & E2 & E3 & Hext & Hnew & Hkeep).
    rewrite E.
    assert (Hdi1 : DI cf b n U dst1) by (eapply di_ext; eauto).
    destruct (IH dst1 (fun j' => D j' \/ j' = Z.to_nat j)) as (dst' & Ec & Hdi' & Hall).
    + intros j' Hj'in. apply Hin. right. exact Hj'in.
    + exact Hdi1.
    + intros j' [Hd| ->].
      * destruct (HD j' Hd) as [Hlt Heq]. split; [exact Hlt|].
        destruct (Nat.eq_dec j' (Z.to_nat j)) as [->|Hne]; [congruence|].
        destruct (Hsrc (Z.of_nat j') ltac:(lia)) as (y & _ & Hy & _). rewrite Nat2Z.id in Hy.
        rewrite Hy. apply Hkeep; [exact Hne|]. rewrite Heq. exact Hy.
      * split; [lia|]. congruence.
    + exists dst'. split; [exact Ec|]. split; [exact Hdi'|].
      intros j' [Hd|[Hh|Ht]].
      * apply Hall. left. left. exact Hd.
      * apply Hall. left. right. lia.
      * apply Hall. right. exact Ht.
Qed.

(* ---------- Set refines the point update, across every representation change ---------- *)

Lemma pc_set_resize f c i v p k : pal_id (cpal c) v = (p, k, false) ->
  pc_set (S f) c i v =
    match bs_new (cfg_bits (ccfg c) k) (blen (cdata c)) None with
    | RPanic w => (c, OPanic w)
    | ROk d0 =>
        match copy_loop (pc_set f) c (mkPC k (ccfg c) (cfg_create (ccfg c) k) d0) (positions (blen (cdata c))) with
        | (nc, OUnit) =>
            let '(p2, k2, ok2) := pal_id (cpal nc) v in
            if ok2 then
              let '(d2, o2) := bs_set (cdata nc) i k2 in
              match o2 with OUnit => (mkPC (cbits nc) (ccfg nc) p2 d2, OUnit) | _ => (c, o2) end
            else (c, OPanic pUnreach)
        | (_, o) => (c, o)
        end
    end.
Proof. intros H. cbn [pc_set]. rewrite H. reflexivity. Qed.

Lemma finish c c' i v : blen (cdata c') = blen (cdata c) -> CI c' -> 0 <= i < blen (cdata c) ->
  (forall j, (j < Z.to_nat (blen (cdata c)))%nat -> exists y, getv c j = Some y) ->
  getv c' (Z.to_nat i) = Some v ->
  (forall j y, (j < Z.to_nat (blen (cdata c)))%nat -> j <> Z.to_nat i -> getv c j = Some y -> getv c' j = Some y) ->
  Inv c' /\ pabs c' = upd_nth (pabs c) (Z.to_nat i) v.
Proof.
  intros L C' Hi V Hnew Hkeep.
  assert (V' : forall j, (j < Z.to_nat (blen (cdata c')))%nat -> exists y, getv c' j = Some y).
  { intros j Hj. rewrite L in Hj. destruct (Nat.eq_dec j (Z.to_nat i)) as [->|Hne]; [eauto|].
    destruct (V j Hj) as [y Hy]. exists y. apply Hkeep; auto. }
  split; [split; assumption|].
  apply (eq_upd_nth _ _ _ _ 0).
  - rewrite pabs_length. lia.
  - rewrite !pabs_length. rewrite L. reflexivity.
  - intros j Hj. rewrite pabs_length in Hj.
    destruct (Nat.eqb_spec j (Z.to_nat i)) as [->|Hne].
    + apply pabs_nth; [lia|exact Hnew].
    + destruct (V j Hj) as [y Hy]. rewrite (pabs_nth c j y Hj Hy).
      apply pabs_nth; [lia|]. apply Hkeep; auto.
Qed.

(* what the resize builds: the fresh container is a legal copy destination *)
Lemma resize_shape c v p k : CI c -> pal_id (cpal c) v = (p, k, false) ->
  1 <= cfg_bits (ccfg c) k <= 63 /\
  pal_wf (ccfg c) k (cfg_create (ccfg c) k) (cfg_bits (ccfg c) k) /\
  match cfg_create (ccfg c) k with
  | PSingle _ => False
  | PLinear vals cap _ | PHash vals cap _ => vals = [] /\ zlen (pal_export (cpal c)) < cap
  | PGlobal => True
  end.
Proof.
  intros [Cc Cd Cp] Hid. destruct c as [b [kd g] p0 d]. cbn [cbits ccfg cpal cdata] in *.
  unfold wfcfg in Cc. cbn [ckind gbits] in Cc.
  destruct p0 as [v0|vals cap pb|vals cap pb|]; cbn [pal_id] in Hid.
  - destruct (v0 =? v); inversion Hid; subst. destruct kd; cbn; repeat split; auto; try lia; try constructor.
  - destruct (index_of v vals 0); [discriminate|].
    destruct (Z.ltb_spec 0 (cap - zlen vals)) as [|Hfull]; [discriminate|]. inversion Hid; subst p k.
    destruct Cp as (Hk & Hd & Hc & Hr). cbn [pal_export]. destruct kd; cbn [ckind] in Hk.
    + destruct Hk as [Hb ->]. cbn. repeat split; auto; try lia; try constructor.
    + destruct Hk as [Hb ->]. assert (Hb' : b = 1 \/ b = 2 \/ b = 3) by lia.
      destruct Hb' as [->|[->| ->]]; cbn in *; repeat split; auto; try lia; try constructor.
  - destruct (last_index_of v vals 0); [discriminate|].
    destruct (Z.ltb_spec 0 (cap - zlen vals)) as [|Hfull]; [discriminate|]. inversion Hid; subst p k.
    destruct Cp as (Hs & Hb & -> & Hd & Hc & Hr). cbn [pal_export]. cbn [ckind] in Hs. subst kd.
    assert (Hb' : b = 5 \/ b = 6 \/ b = 7 \/ b = 8) by lia.
    destruct Hb' as [->|[->|[->| ->]]]; cbn in *; repeat split; auto; try lia; try constructor.
  - discriminate.
Qed.

Lemma positions_in n j : (j < Z.to_nat n)%nat -> In (Z.of_nat j) (positions n).
Proof. intros H. unfold positions. apply in_map. apply in_seq. lia. Qed.
Lemma positions_range n j : In j (positions n) -> 0 <= j < n.
Proof.
  unfold positions. rewrite in_map_iff. intros (k & <- & Hk). apply in_seq in Hk. lia.
Qed.

Lemma getv_in_export c j x : getv c j = Some x -> cpal c <> PGlobal -> In x (pal_export (cpal c)).
Proof.
  unfold getv, pval. destruct (cpal c) as [v0|vals cap pb|vals cap pb|]; cbn [pal_value pal_export]; intros H Hg.
  - destruct (_ =? 0); inversion H. left. reflexivity.
  - destruct (_ && _); [|discriminate]. eapply nth_error_In; eauto.
  - destruct (_ && _); [|discriminate]. eapply nth_error_In; eauto.
  - congruence.
Qed.

Lemma export_inreg c : CI c -> Forall (inreg (ccfg c)) (pal_export (cpal c)).
Proof.
  intros [_ _ Cp]. destruct (cpal c) as [v0|vals cap pb|vals cap pb|]; cbn [pal_wf pal_export] in *.
  - constructor; [apply Cp|constructor].
  - apply Cp.
  - apply Cp.
  - constructor.
Qed.

Theorem set_refines f c i v : Inv c -> 0 <= i < blen (cdata c) -> inreg (ccfg c) v ->
  exists c', pc_set (S (S f)) c i v = (c', OUnit) /\ Inv c' /\ ccfg c' = ccfg c /\
             blen (cdata c') = blen (cdata c) /\ pabs c' = upd_nth (pabs c) (Z.to_nat i) v.
Proof.
  intros [C V] Hi Hv. destruct (pal_id (cpal c) v) as [[p k] ok] eqn:Hid. destruct ok.
  - (* the value is in the palette or fits *)
    rewrite (pc_set_ok _ c i v p k Hid).
    destruct (step_ok c i v p k C Hv Hi Hid) as (d' & E & C' & L' & Hk & A' & Hnew & Hkeep).
    rewrite E. eexists. split; [reflexivity|].
    assert (F : Inv (mkPC (cbits c) (ccfg c) p d') /\
                pabs (mkPC (cbits c) (ccfg c) p d') = upd_nth (pabs c) (Z.to_nat i) v).
    { apply finish; auto.
      - unfold getv. cbn [cpal cdata]. rewrite A'.
        rewrite nth_upd_nth by (rewrite didx_length; lia). rewrite Nat.eqb_refl. exact Hnew.
      - intros j y Hj Hne Hy. unfold getv in *. cbn [cpal cdata]. rewrite A'.
        rewrite nth_upd_nth by (rewrite didx_length; lia).
        destruct (Nat.eqb_spec j (Z.to_nat i)); [contradiction|]. apply Hkeep. exact Hy. }
    destruct F as [F1 F2]. repeat split; auto; apply F1.
  - (* resize: rebuild with the next width and copy *)
    rewrite (pc_set_resize _ c i v p k Hid).
    destruct (resize_shape c v p k C Hid) as (Hb & Hpw & Hshape).
    pose proof (dwf_len _ (ci_data c C)) as Hn.
    destruct (new_zero _ _ Hb Hn) as (d0 & En & W0 & B0 & L0 & _). rewrite En.
    set (n := blen (cdata c)) in *. set (U := pal_export (cpal c)) in *.
    set (dst0 := mkPC k (ccfg c) (cfg_create (ccfg c) k) d0).
    assert (Hglob : cpal c <> PGlobal).
    { intros Hg. rewrite Hg in Hid. cbn in Hid. discriminate. }
    assert (Hsrc : forall j, 0 <= j < n -> exists x, pc_get c j = ORet x /\ getv c (Z.to_nat j) = Some x /\
                                                      In x U /\ inreg (ccfg c) x).
    { intros j Hj. destruct (V (Z.to_nat j)) as [x Hx]; [fold n; lia|]. exists x.
      split; [rewrite get_val by (auto; apply C); rewrite Hx; reflexivity|]. split; [exact Hx|].
      assert (In x U) by (eapply getv_in_export; eauto). split; [assumption|].
      pose proof (export_inreg c C) as Hr. rewrite Forall_forall in Hr. apply Hr. assumption. }
    assert (Hdi : DI (ccfg c) k n U dst0).
    { unfold dst0. split.
      - constructor; cbn [ccfg cdata cpal cbits]; [apply C | right; exact W0 | rewrite B0; exact Hpw].
      - cbn [ccfg cbits cdata cpal]. repeat split; auto.
        destruct (cfg_create (ccfg c) k) as [?|vals cap pb|vals cap pb|]; auto.
        + destruct Hshape as [-> Hc]. split; [constructor|]. split; [intros y []|exact Hc].
        + destruct Hshape as [-> Hc]. split; [constructor|]. split; [intros y []|exact Hc]. }
    destruct (copy_ok f c (ccfg c) k n U Hsrc (positions n) dst0 (fun _ => False))
      as (nc & Ec & Hdinc & Hall).
    { apply positions_range. } { exact Hdi. } { intros j []. }
    rewrite Ec.
    pose proof Hdinc as (Cn & Hcf & Hbn & Hln & _).
    assert (Hroom := di_room _ _ _ _ _ v Hdinc).
    destruct (id_room _ _ Hroom) as (p2 & k2 & Hid2 & _). rewrite Hid2.
    assert (Hv' : inreg (ccfg nc) v) by (rewrite Hcf; exact Hv).
    assert (Hi' : 0 <= i < blen (cdata nc)) by (rewrite Hln; exact Hi).
    destruct (step_ok nc i v p2 k2 Cn Hv' Hi' Hid2) as (d2 & E2 & C2 & L2 & Hk2 & A2 & Hnew & Hkeep).
    rewrite E2. eexists. split; [reflexivity|].
    assert (F : Inv (mkPC (cbits nc) (ccfg nc) p2 d2) /\
                pabs (mkPC (cbits nc) (ccfg nc) p2 d2) = upd_nth (pabs c) (Z.to_nat i) v).
    { apply finish; auto.
      - cbn [cdata]. lia.
      - unfold getv. cbn [cpal cdata]. rewrite A2.
        rewrite nth_upd_nth by (rewrite didx_length; lia). rewrite Nat.eqb_refl. exact Hnew.
      - intros j y Hj Hne Hy. unfold getv at 1. cbn [cpal cdata]. rewrite A2.
        rewrite nth_upd_nth by (rewrite didx_length; lia).
        destruct (Nat.eqb_spec j (Z.to_nat i)); [contradiction|]. apply Hkeep.
        destruct (Hall j) as [_ Hg]; [right; apply positions_in; exact Hj|].
        unfold getv in Hg. rewrite Hg. exact Hy. }
    destruct F as [F1 F2]. cbn [ccfg cdata]. repeat split; auto; try apply F1; lia.
Qed.

(* ---------- construction, histories ---------- *)

Lemma map_repeat' {A B} (f : A -> B) x n : map f (repeat x n) = repeat (f x) n.
Proof. induction n; cbn; congruence. Qed.

Lemma new_inv cf n dflt : wfcfg cf -> 0 <= n -> inreg cf dflt ->
  exists c, pc_new cf n dflt = ROk c /\ Inv c /\ ccfg c = cf /\ blen (cdata c) = n /\
            pabs c = repeat dflt (Z.to_nat n).
Proof.
  intros Hc Hn Hd. unfold pc_new. rewrite b0_new. eexists. split; [reflexivity|].
  assert (C : CI (mkPC 0 cf (PSingle dflt) (mkBS [] 0%N 0 n 0))).
  { constructor; cbn; auto. left. cbn. auto. }
  split; [split; [exact C|]|].
  - intros j Hj. cbn [cdata blen] in Hj. unfold getv, didx. cbn [cdata cpal vpl blen Z.eqb].
    rewrite repeat_nth0. exists dflt. reflexivity.
  - cbn [ccfg cdata blen]. repeat split; auto.
    unfold pabs, didx. cbn [cdata cpal vpl blen Z.eqb]. rewrite map_repeat'. reflexivity.
Qed.

Definition valid_pop (cf : cfg) (n : Z) (o : pop) : Prop :=
  match o with PGet i => 0 <= i < n | PSet i v => 0 <= i < n /\ inreg cf v end.

Lemma spec_get_in a i : 0 <= i < Z.of_nat (length a) -> spec_get a i = Some (nth (Z.to_nat i) a 0).
Proof.
  intros H. unfold spec_get. destruct (Z.ltb_spec i 0); [lia|].
  destruct (Z.leb_spec (Z.of_nat (length a)) i); [lia|]. cbn [orb].
  apply nth_error_nth'. lia.
Qed.

Lemma step_refines c o : Inv c -> valid_pop (ccfg c) (blen (cdata c)) o ->
  Inv (fst (pc_step c o)) /\ ccfg (fst (pc_step c o)) = ccfg c /\
  blen (cdata (fst (pc_step c o))) = blen (cdata c) /\
  spec_pstep (pabs c) o = (pabs (fst (pc_step c o)), snd (pc_step c o)).
Proof.
  intros I Hv. destruct o as [i|i v]; cbn [valid_pop pc_step spec_pstep fst snd] in *.
  - split; [exact I|]. split; [reflexivity|]. split; [reflexivity|]. rewrite get_abs by auto.
    rewrite spec_get_in; [reflexivity|]. rewrite pabs_length.
    pose proof (dwf_len _ (ci_data c (proj1 I))). lia.
  - destruct Hv as [Hi Hr]. destruct (set_refines 2 c i v I Hi Hr) as (c' & E & I' & Ecf & El & Ea).
    change (S (S 2)) with set_fuel in E. rewrite E. cbn [fst snd].
    split; [exact I'|]. split; [exact Ecf|]. split; [exact El|].
    unfold spec_set. rewrite Ea. reflexivity.
Qed.

Theorem run_refines : forall ops c, Inv c -> Forall (valid_pop (ccfg c) (blen (cdata c))) ops ->
  Inv (fst (pc_run c ops)) /\ ccfg (fst (pc_run c ops)) = ccfg c /\
  blen (cdata (fst (pc_run c ops))) = blen (cdata c) /\
  spec_prun (pabs c) ops = (pabs (fst (pc_run c ops)), snd (pc_run c ops)).
Proof.
  induction ops as [|o t IH]; intros c I Hv.
  - cbn. auto.
  - inversion Hv as [|? ? Ho Ht]; subst. cbn [pc_run spec_prun].
    destruct (step_refines c o I Ho) as (I1 & C1 & L1 & S1).
    destruct (pc_step c o) as [c1 r] eqn:E1. cbn [fst snd] in *.
    rewrite S1. rewrite <- C1, <- L1 in Ht.
    destruct (IH c1 I1 Ht) as (I2 & C2 & L2 & S2).
    destruct (pc_run c1 t) as [c2 rs] eqn:E2. cbn [fst snd] in *.
    rewrite S2. split; [exact I2|]. split; [congruence|]. split; [congruence|]. reflexivity.
Qed.

(* Get after Set, pointwise *)
Theorem get_set f c i v j : Inv c -> 0 <= i < blen (cdata c) -> inreg (ccfg c) v -> 0 <= j < blen (cdata c) ->
  pc_get (fst (pc_set (S (S f)) c i v)) j = if i =? j then ORet v else pc_get c j.
Proof.
  intros I Hi Hv Hj. destruct (set_refines f c i v I Hi Hv) as (c' & E & I' & _ & El & Ea).
  rewrite E. cbn [fst]. rewrite get_abs by (auto; lia). rewrite get_abs by auto. rewrite Ea.
  assert (Hl : (Z.to_nat i < length (pabs c))%nat) by (rewrite pabs_length; lia).
  rewrite nth_upd_nth by exact Hl.
  destruct (Z.eqb_spec i j) as [->|Hne].
  - rewrite Nat.eqb_refl. reflexivity.
  - destruct (Nat.eqb_spec (Z.to_nat j) (Z.to_nat i)); [lia|reflexivity].
Qed.
