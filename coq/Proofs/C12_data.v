(* C12: New*PaletteContainerWithData builds, from a saved section in the vanilla layout, a container
   that satisfies the invariant and denotes the array the save-layout specification gives. *)
From Coq Require Import List Arith NArith ZArith Lia Bool ZifyN ZifyNat ZifyBool.
From GoMC Require Import Base.Bytes Base.Bits Base.Dec Gen.Consts Model.C05 Model.C11 Model.C12.
From GoMC Require Import Proofs.C11 Proofs.C11_laws Proofs.C12 Proofs.C12_spec.
Import ListNotations.
Open Scope Z_scope.
Ltac Zify.zify_post_hook ::= Z.to_euclidean_division_equations.

(* what a successful resolve_all says, position by position *)
Lemma resolve_all_nth pat : forall idxs a, resolve_all pat idxs = Some a ->
  length a = length idxs /\
  forall j, (j < length idxs)%nat -> nth_error pat (N.to_nat (nth j idxs 0%N)) = Some (nth j a 0).
Proof.
  induction idxs as [|k t IH]; intros a H; cbn [resolve_all] in H.
  - inversion H. split; [reflexivity|]. intros j Hj. cbn in Hj. lia.
  - destruct (resolve pat k) as [v|] eqn:Ek; [|discriminate].
    destruct (resolve_all pat t) as [r|] eqn:Er; [|discriminate]. inversion H; subst a.
    destruct (IH r eq_refl) as [Hl Hn]. split; [cbn; lia|].
    intros [|j] Hj; cbn [nth]; [exact Ek|]. apply Hn. cbn in Hj. lia.
Qed.

Lemma pval_vals (mk : list Z -> Z -> Z -> pal) vals cap pb k v : (mk = PLinear \/ mk = PHash) ->
  nth_error vals (N.to_nat k) = Some v -> pval (mk vals cap pb) k = Some v.
Proof.
  intros Hmk Hn. assert (Hlt : (N.to_nat k < length vals)%nat) by (apply nth_error_Some; congruence).
  unfold pval. destruct Hmk as [-> | ->]; cbn [pal_value];
    (destruct (Z.leb_spec 0 (Z.of_N k)); [|lia]);
    (destruct (Z.ltb_spec (Z.of_N k) (zlen vals)); [|unfold zlen in *; lia]); cbn [andb];
    replace (Z.to_nat (Z.of_N k)) with (N.to_nat k) by lia; exact Hn.
Qed.

(* ---------- palettes the library represents indirectly ---------- *)

Lemma with_data_indirect cf b pb (mk : list Z -> Z -> Z -> pal) cap n data pat a :
  (mk = PLinear \/ mk = PHash) -> wfcfg cf -> 1 <= pb <= 8 -> 0 <= n ->
  pal_wf cf b (mk pat cap pb) pb ->
  Z.of_nat (length data) = size_of pb n -> Forall (fun l => (l < 2^64)%N) data ->
  resolve_all pat (unpack (Z.to_N pb) (Z.to_nat n) data) = Some a ->
  exists d, bs_new pb n (Some data) = ROk d /\ Inv (mkPC b cf (mk pat cap pb) d) /\
            blen d = n /\ pabs (mkPC b cf (mk pat cap pb) d) = a.
Proof.
  intros Hmk Hc Hpb Hn Hpw Hlen Hdat Hres.
  rewrite new_raw by lia. rewrite Hlen, Z.eqb_refl. eexists. split; [reflexivity|].
  set (d := mkBS data (mk_mask pb) pb n (Z.quot 64 pb)).
  assert (W : wf d) by (unfold d; apply new_wf; [lia|exact Hn|exact Hlen|exact Hdat]).
  assert (A : didx d = unpack (Z.to_N pb) (Z.to_nat n) data).
  { unfold didx. rewrite (vpl_nz d W). reflexivity. }
  destruct (resolve_all_nth _ _ _ Hres) as [Hla Hnth].
  assert (Hlu : length (unpack (Z.to_N pb) (Z.to_nat n) data) = Z.to_nat n)
    by (unfold unpack; rewrite map_length, seq_length; reflexivity).
  assert (V : forall j, (j < Z.to_nat n)%nat -> getv (mkPC b cf (mk pat cap pb) d) j = Some (nth j a 0)).
  { intros j Hj. unfold getv. cbn [cpal cdata]. rewrite A. apply pval_vals; auto. apply Hnth. lia. }
  split; [split|split].
  - constructor; cbn [ccfg cdata cpal cbits]; auto. right. exact W.
  - intros j Hj. unfold d in Hj. cbn [cdata blen] in Hj. eauto.
  - reflexivity.
  - apply (nth_ext _ _ 0 0).
    + rewrite pabs_length. unfold d. cbn [cdata blen]. lia.
    + intros j Hj. rewrite pabs_length in Hj. unfold d in Hj. cbn [cdata blen] in Hj.
      apply pabs_nth; [exact Hj|]. apply V. exact Hj.
Qed.

(* ---------- wider palettes: resolveIndirect ---------- *)

Section Resolve.
Variables (idx : bstore) (pat : list Z) (g n : Z).
Hypothesis Widx : wf idx.
Hypothesis Hnidx : blen idx = n.
Hypothesis Hg : 1 <= g <= 63.
(* the id position j resolves to *)
Definition pat_at (j : nat) : Z := nth (N.to_nat (nth j (Proofs.C11.abs idx) 0%N)) pat 0.
Hypothesis Hres : forall j, (j < Z.to_nat n)%nat ->
  nth_error pat (N.to_nat (nth j (Proofs.C11.abs idx) 0%N)) = Some (pat_at j) /\ 0 <= pat_at j < 2 ^ g.

Lemma resolve_loop_ok : forall ps direct (D : nat -> Prop),
  (forall j, In j ps -> 0 <= j < n) -> wf direct -> bits direct = g -> blen direct = n ->
  (forall j, D j -> nth j (Proofs.C11.abs direct) 0%N = Z.to_N (pat_at j)) ->
  exists d', resolve_loop idx pat direct ps = ROk d' /\ wf d' /\ bits d' = g /\ blen d' = n /\
    (forall j, D j \/ In (Z.of_nat j) ps -> nth j (Proofs.C11.abs d') 0%N = Z.to_N (pat_at j)).
Proof.
  induction ps as [|i t IH]; intros direct D Hin W B L HD.
  - exists direct. cbn [resolve_loop]. split; [reflexivity|]. split; [exact W|]. split; [exact B|]. split; [exact L|].
    intros j [Hj|[]]. auto.
  - cbn [resolve_loop]. assert (Hi : 0 <= i < n) by (apply Hin; left; reflexivity).
    rewrite (get_in_range idx i Widx) by lia. cbn [snd].
    destruct (Hres (Z.to_nat i) ltac:(lia)) as [Hp Hr].
    destruct (Z.ltb_spec (Z.of_N (nth (Z.to_nat i) (Proofs.C11.abs idx) 0%N)) 0); [lia|].
    replace (Z.to_nat (Z.of_N (nth (Z.to_nat i) (Proofs.C11.abs idx) 0%N)))
      with (N.to_nat (nth (Z.to_nat i) (Proofs.C11.abs idx) 0%N)) by lia.
    rewrite Hp.
    destruct (set_in_range direct i (pat_at (Z.to_nat i)) W ltac:(lia) ltac:(rewrite B; exact Hr))
      as (W1 & O1 & B1 & L1 & A1).
    rewrite (surjective_pairing (bs_set direct i (pat_at (Z.to_nat i)))). rewrite O1.
    destruct (IH (fst (bs_set direct i (pat_at (Z.to_nat i)))) (fun j => D j \/ j = Z.to_nat i))
      as (d' & E & W' & B' & L' & H').
    + intros j Hj. apply Hin. right. exact Hj.
    + exact W1.
    + congruence.
    + congruence.
    + intros j Hj. rewrite A1.
      assert (Hlen : (Z.to_nat i < length (Proofs.C11.abs direct))%nat) by (rewrite abs_length; lia).
      rewrite nth_upd_nth by exact Hlen.
      destruct (Nat.eqb_spec j (Z.to_nat i)) as [->|Hne]; [reflexivity|].
      destruct Hj as [Hj|Hj]; [apply HD; exact Hj|contradiction].
    + exists d'. split; [exact E|]. split; [exact W'|]. split; [exact B'|]. split; [exact L'|].
      intros j [Hj|[Hj|Hj]].
      * apply H'. left. left. exact Hj.
      * apply H'. left. right. lia.
      * apply H'. right. exact Hj.
Qed.
End Resolve.

Lemma with_data_wide cf n0 n data pat a w :
  wfcfg cf -> pal_wf cf n0 PGlobal (gbits cf) -> 0 <= n -> Forall (inreg cf) pat ->
  w = bit_len (zlen pat - 1) -> 1 <= w <= 63 ->
  Z.of_nat (length data) = size_of w n -> Forall (fun l => (l < 2^64)%N) data ->
  resolve_all pat (unpack (Z.to_N w) (Z.to_nat n) data) = Some a ->
  exists dfin, resolve_indirect n data pat (gbits cf) = ROk (C11.data dfin) /\
    bs_new (gbits cf) n (Some (C11.data dfin)) = ROk dfin /\
    Inv (mkPC n0 cf PGlobal dfin) /\ blen dfin = n /\ pabs (mkPC n0 cf PGlobal dfin) = a.
Proof.
  intros Hc Hpw Hn Hreg Hw Hwb Hlen Hdat Hres.
  assert (Hg : 1 <= gbits cf <= 63) by (unfold wfcfg in Hc; destruct (ckind cf); lia).
  unfold resolve_indirect. rewrite <- Hw. rewrite new_raw by lia. rewrite Hlen, Z.eqb_refl.
  set (idx := mkBS data (mk_mask w) w n (Z.quot 64 w)).
  assert (Widx : wf idx) by (unfold idx; apply new_wf; [lia|exact Hn|exact Hlen|exact Hdat]).
  assert (Aidx : Proofs.C11.abs idx = unpack (Z.to_N w) (Z.to_nat n) data) by reflexivity.
  destruct (new_zero _ _ Hg Hn) as (d0 & E0 & W0 & B0 & L0 & A0 & _). rewrite E0.
  destruct (resolve_all_nth _ _ _ Hres) as [Hla Hnth].
  assert (Hlu : length (unpack (Z.to_N w) (Z.to_nat n) data) = Z.to_nat n)
    by (unfold unpack; rewrite map_length, seq_length; reflexivity).
  assert (PA : forall j, (j < Z.to_nat n)%nat -> pat_at idx pat j = nth j a 0).
  { intros j Hj. unfold pat_at. rewrite Aidx. apply nth_error_nth. apply Hnth. lia. }
  assert (HR : forall j, (j < Z.to_nat n)%nat ->
            nth_error pat (N.to_nat (nth j (Proofs.C11.abs idx) 0%N)) = Some (pat_at idx pat j) /\
            0 <= pat_at idx pat j < 2 ^ gbits cf).
  { intros j Hj. rewrite Aidx. pose proof (Hnth j ltac:(lia)) as Hp. rewrite (PA j Hj).
    split; [exact Hp|]. apply nth_error_In in Hp. rewrite Forall_forall in Hreg. apply Hreg. exact Hp. }
  destruct (resolve_loop_ok idx pat (gbits cf) n Widx eq_refl Hg HR (positions n) d0 (fun _ => False))
    as (dfin & El & Wf & Bf & Lf & Hall).
  { apply positions_range. } { exact W0. } { exact B0. } { exact L0. } { intros j []. }
  rewrite El. exists dfin. split; [reflexivity|].
  split; [rewrite <- Bf, <- Lf; apply accept_back; exact Wf|].
  assert (V : forall j, (j < Z.to_nat n)%nat -> getv (mkPC n0 cf PGlobal dfin) j = Some (nth j a 0)).
  { intros j Hj. unfold getv, pval, didx. cbn [cpal cdata pal_value]. rewrite (vpl_nz _ Wf).
    rewrite Hall by (right; apply positions_in; exact Hj).
    destruct (HR j Hj) as [Hp Hr]. f_equal. rewrite Z2N.id by lia. apply PA. exact Hj. }
  split; [split|split].
  - constructor; cbn [ccfg cdata cpal cbits]; auto. { right. exact Wf. } rewrite Bf. exact Hpw.
  - intros j Hj. cbn [cdata] in Hj. rewrite Lf in Hj. eauto.
  - exact Lf.
  - apply (nth_ext _ _ 0 0).
    + rewrite pabs_length. cbn [cdata]. lia.
    + intros j Hj. rewrite pabs_length in Hj. cbn [cdata] in Hj.
      apply pabs_nth; [exact Hj|]. apply V. lia.
Qed.

(* ---------- the constructor on a saved section in the vanilla layout ---------- *)

(* the width class the constructor infers from the number of longs is the class of the save width *)
Definition width_recovered (cf : cfg) (n w plen : Z) : Prop :=
  exists n0, infer_bits cf n (if w =? 0 then 0 else size_of w n) plen = Some n0 /\
    match ckind cf with
    | KStates => (w = 0 /\ n0 = 0) \/ (w = 4 /\ 1 <= n0 <= 4) \/ (5 <= w <= 8 /\ n0 = w) \/ (9 <= w /\ 9 <= n0 <= 255)
    | KBiomes => (w <= 3 /\ n0 = w) \/ (4 <= w /\ 4 <= n0 <= 255)
    end.

Lemma log2_up_facts plen : 1 <= plen ->
  0 <= Z.log2_up plen /\ plen <= 2 ^ Z.log2_up plen /\
  (forall b, 0 <= b -> (plen <= 2 ^ b <-> Z.log2_up plen <= b)) /\
  (2 <= plen -> Z.log2_up plen = bit_len (plen - 1) /\ 1 <= Z.log2_up plen).
Proof.
  intros H. split; [apply Z.log2_up_nonneg|]. split.
  - destruct (Z.eq_dec plen 1) as [->|]; [cbn; lia|]. apply Z.log2_up_spec. lia.
  - split.
    + intros b Hb. apply Z.log2_up_le_pow2; lia.
    + intros H2. rewrite Z.log2_up_eqn by lia. unfold bit_len.
      destruct (Z.leb_spec (plen - 1) 0); [lia|]. replace (Z.pred plen) with (plen - 1) by lia.
      pose proof (Z.log2_nonneg (plen - 1)). lia.
Qed.

Lemma single_case cf n v data : wfcfg cf -> 0 <= n -> inreg cf v ->
  exists d, bs_new 0 n (Some data) = ROk d /\ Inv (mkPC 0 cf (PSingle v) d) /\ blen d = n /\
            pabs (mkPC 0 cf (PSingle v) d) = repeat v (Z.to_nat n).
Proof.
  intros Hc Hn Hv. destruct (new_inv cf n v Hc Hn Hv) as (c & E & I & _ & L & A).
  unfold pc_new in E. rewrite b0_new in E. inversion E; subst c.
  rewrite b0_new. eexists. split; [reflexivity|]. auto.
Qed.

Theorem with_data cf n data pat a :
  wfcfg cf -> 0 <= n -> pat <> [] -> Forall (inreg cf) pat -> zlen pat <= 2 ^ gbits cf ->
  let w := save_width (ckind cf) (zlen pat) in
  Z.of_nat (length data) = (if w =? 0 then 0 else size_of w n) ->
  Forall (fun l => (l < 2^64)%N) data ->
  spec_saved (Z.to_N w) (Z.to_nat n) pat data = Some a ->
  width_recovered cf n w (zlen pat) ->
  exists c, pc_with_data cf n data pat = ROk c /\ Inv c /\ ccfg c = cf /\ blen (cdata c) = n /\ pabs c = a.
Proof.
  intros Hc Hn Hne Hreg Hpl w Hlen Hdat Hspec (n0 & Hinf & Hcls).
  destruct pat as [|v pt]; [contradiction|]. set (pat := v :: pt) in *.
  assert (Hp1 : 1 <= zlen pat) by (unfold zlen, pat; cbn [length]; lia).
  destruct (log2_up_facts (zlen pat) Hp1) as (L0 & L1 & L2 & L3).
  assert (Hg : 4 <= gbits cf <= 31) by (unfold wfcfg in Hc; destruct (ckind cf); lia).
  assert (Hlg : Z.log2_up (zlen pat) <= gbits cf) by (apply L2; lia).
  assert (Hv : inreg cf v) by (inversion Hreg; auto).
  unfold pc_with_data. replace (zlen data) with (if w =? 0 then 0 else size_of w n) by (unfold zlen; lia).
  rewrite Hinf. unfold spec_saved in Hspec.
  (* the three shapes *)
  assert (SINGLE : w = 0 -> n0 = 0 -> zlen pat = 1 ->
     exists c, match (if n0 =? 0 then ROk (0, PSingle v, data) else @RPanic (Z * pal * list N) pRt) with
               | ROk (n1, p, data1) => match bs_new (cfg_bits cf n1) n (Some data1) with
                                       | ROk d => ROk (mkPC n1 cf p d) | RPanic w0 => RPanic w0 end
               | RPanic w0 => RPanic w0 end = ROk c /\ Inv c /\ ccfg c = cf /\ blen (cdata c) = n /\ pabs c = a).
  { intros Hw0 Hn0 Hpl1. subst n0. cbn [Z.eqb].
    assert (Eb : cfg_bits cf 0 = 0) by (unfold cfg_bits; destruct (ckind cf); reflexivity). rewrite Eb.
    destruct (single_case cf n v data Hc Hn Hv) as (d & E & I & L & A). rewrite E.
    eexists. split; [reflexivity|]. split; [exact I|]. split; [reflexivity|]. split; [exact L|].
    rewrite A. rewrite Hw0 in Hspec. cbn in Hspec. inversion Hspec. reflexivity. }
  destruct (ckind cf) eqn:Ek; unfold save_width in w.
  - (* block states *)
    destruct (Z.leb_spec (zlen pat) 1) as [Hle|Hgt].
    + destruct Hcls as [[_ Hn0]|[[Hw _]|[[Hw _]|[Hw _]]]]; try (unfold w in Hw; lia).
      destruct (SINGLE eq_refl Hn0 ltac:(lia)) as (c & E & R). exists c. split; [|exact R].
      rewrite Hn0 in *. cbn [Z.eqb] in *. exact E.
    + destruct (L3 ltac:(lia)) as [Lb L4].
      assert (Hw4 : 4 <= w) by (unfold w; lia).
      assert (Hpw : zlen pat <= 2 ^ w).
      { apply L2; unfold w; lia. }
      destruct (Z.eqb_spec w 0) as [?|_]; [lia|].
      destruct (N.eqb_spec (Z.to_N w) 0) as [?|_]; [lia|].
      fold pat in Hspec. unfold pat in Hspec at 1. fold pat in Hspec.
      destruct Hcls as [[Hw _]|[[Hw Hn0]|[[Hw Hn0]|[Hw Hn0]]]]; [lia| | |].
      * (* 4 bits, linear *)
        destruct (Z.eqb_spec n0 0); [lia|].
        assert (Er : in_range 1 4 n0 = true) by (unfold in_range; lia). rewrite Er.
        assert (Eb : cfg_bits cf 4 = 4) by (unfold cfg_bits; rewrite Ek; reflexivity). rewrite Eb.
        rewrite Hw in *.
        destruct (with_data_indirect cf 4 4 PLinear (with_cap pat 16) n data pat a) as (d & E & I & L & A); auto; try lia.
        { cbn [pal_wf]. rewrite Ek. unfold with_cap. change (2 ^ 4) with 16 in *. repeat split; auto; lia. }
        rewrite E. eexists. split; [reflexivity|]. auto.
      * (* 5..8 bits, hash *)
        subst n0. destruct (Z.eqb_spec w 0); [lia|].
        assert (Er : in_range 1 4 w = false) by (unfold in_range; lia). rewrite Er.
        assert (Er2 : in_range 5 8 w = true) by (unfold in_range; lia). rewrite Er2.
        assert (Eb : cfg_bits cf w = w).
        { unfold cfg_bits. rewrite Ek. destruct (Z.eqb_spec w 0); [lia|]. rewrite Er, Er2. reflexivity. }
        rewrite Eb.
        destruct (with_data_indirect cf w w PHash (with_cap pat (2 ^ w)) n data pat a) as (d & E & I & L & A); auto; try lia.
        { cbn [pal_wf]. unfold with_cap. repeat split; auto; lia. }
        rewrite E. eexists. split; [reflexivity|]. auto.
      * (* more than 256 states: resolved into direct ids *)
        destruct (Z.eqb_spec n0 0); [lia|].
        assert (Er : in_range 1 4 n0 = false) by (unfold in_range; lia). rewrite Er.
        assert (Er2 : in_range 5 8 n0 = false) by (unfold in_range; lia). rewrite Er2.
        assert (Hwl : w = Z.log2_up (zlen pat)) by (unfold w; lia).
        assert (Hwide : 256 < zlen pat).
        { destruct (Z.le_gt_cases (zlen pat) 256) as [Hc2|]; [|lia].
          change 256 with (2 ^ 8) in Hc2. apply L2 in Hc2; lia. }
        cbn [wide_limit]. destruct (Z.ltb_spec 256 (zlen pat)); [|lia].
        assert (Eb : cfg_bits cf n0 = gbits cf).
        { unfold cfg_bits. rewrite Ek. destruct (Z.eqb_spec n0 0); [lia|]. rewrite Er, Er2. reflexivity. }
        destruct (with_data_wide cf n0 n data pat a w) as (dfin & E1 & E2 & I & L & A); auto; try lia.
        { cbn [pal_wf]. rewrite Ek. repeat split; lia. }
        rewrite E1, Eb, E2. eexists. split; [reflexivity|]. auto.
  - (* biomes *)
    destruct Hcls as [[Hw Hn0]|[Hw Hn0]].
    + destruct (Z.eq_dec (zlen pat) 1) as [Hp|Hp].
      * assert (Hw0 : w = 0) by (unfold w; rewrite Hp; reflexivity).
        rewrite Hw0 in Hn0. subst n0.
        destruct (SINGLE Hw0 eq_refl Hp) as (c & E & R). exists c. split; [|exact R].
        cbn [Z.eqb] in *. exact E.
      * destruct (L3 ltac:(lia)) as [Lb L4]. subst n0.
        assert (Hpw : zlen pat <= 2 ^ w) by exact L1.
        destruct (Z.eqb_spec w 0) as [?|_]; [unfold w in *; lia|].
        destruct (N.eqb_spec (Z.to_N w) 0) as [?|_]; [unfold w in *; lia|].
        fold pat in Hspec. unfold pat in Hspec at 1. fold pat in Hspec.
        assert (Er : in_range 1 3 w = true) by (unfold in_range, w in *; lia). rewrite Er.
        assert (Eb : cfg_bits cf w = w).
        { unfold cfg_bits. rewrite Ek. destruct (Z.eqb_spec w 0); [unfold w in *; lia|]. rewrite Er. reflexivity. }
        rewrite Eb.
        destruct (with_data_indirect cf w w PLinear (with_cap pat (2 ^ w)) n data pat a) as (d & E & I & L & A);
          auto; try (unfold w in *; lia).
        { cbn [pal_wf]. rewrite Ek. unfold with_cap. repeat split; auto; unfold w in *; lia. }
        rewrite E. eexists. split; [reflexivity|]. auto.
    + destruct (Z.eqb_spec n0 0); [lia|].
      assert (Er : in_range 1 3 n0 = false) by (unfold in_range; lia). rewrite Er.
      assert (Hwide : 8 < zlen pat).
      { destruct (Z.le_gt_cases (zlen pat) 8) as [Hc2|]; [|lia].
        change 8 with (2 ^ 3) in Hc2. apply L2 in Hc2; unfold w in *; lia. }
      destruct (L3 ltac:(lia)) as [Lb L4].
      destruct (Z.eqb_spec w 0) as [?|_]; [lia|].
      destruct (N.eqb_spec (Z.to_N w) 0) as [?|_]; [lia|].
      fold pat in Hspec. unfold pat in Hspec at 1. fold pat in Hspec.
      cbn [wide_limit]. destruct (Z.ltb_spec 8 (zlen pat)); [|lia].
      assert (Eb : cfg_bits cf n0 = gbits cf).
      { unfold cfg_bits. rewrite Ek. destruct (Z.eqb_spec n0 0); [lia|]. rewrite Er. reflexivity. }
      destruct (with_data_wide cf n0 n data pat a w) as (dfin & E1 & E2 & I & L & A); auto; try (unfold w in *; lia).
      { cbn [pal_wf]. rewrite Ek. repeat split; lia. }
      rewrite E1, Eb, E2. eexists. split; [reflexivity|]. auto.
Qed.

(* ---------- the section lengths of the chunk format: the width is always recovered ---------- *)

Lemma recovered_states g plen : 9 <= g <= 31 -> 1 <= plen <= 2 ^ g ->
  width_recovered (mkCfg KStates g) 4096 (save_width KStates plen) plen.
Proof.
  intros Hg Hp. destruct (log2_up_facts plen ltac:(lia)) as (L0 & L1 & L2 & L3).
  assert (Hl : Z.log2_up plen <= g) by (apply L2; lia).
  unfold width_recovered, infer_bits. cbn [ckind]. unfold save_width.
  destruct (Z.leb_spec plen 1).
  - exists 0. split; [reflexivity|]. left. auto.
  - set (w := Z.max 4 (Z.log2_up plen)).
    assert (Hw : 4 <= w <= 31) by (unfold w; lia).
    assert (Hc : w = 4 \/ w = 5 \/ w = 6 \/ w = 7 \/ w = 8 \/ w = 9 \/ w = 10 \/ w = 11 \/ w = 12 \/ w = 13 \/
                 w = 14 \/ w = 15 \/ w = 16 \/ w = 17 \/ w = 18 \/ w = 19 \/ w = 20 \/ w = 21 \/ w = 22 \/ w = 23 \/
                 w = 24 \/ w = 25 \/ w = 26 \/ w = 27 \/ w = 28 \/ w = 29 \/ w = 30 \/ w = 31) by lia.
    clearbody w.
    repeat (destruct Hc as [->|Hc]; [eexists; split; [vm_compute; reflexivity|lia]|]).
    subst w. eexists; split; [vm_compute; reflexivity|lia].
Qed.

Lemma recovered_biomes g plen : 4 <= g <= 31 -> 1 <= plen <= 2 ^ g ->
  width_recovered (mkCfg KBiomes g) 64 (save_width KBiomes plen) plen.
Proof.
  intros Hg Hp. destruct (log2_up_facts plen ltac:(lia)) as (L0 & L1 & L2 & L3).
  assert (Hl : Z.log2_up plen <= g) by (apply L2; lia).
  assert (H3 : plen <= 8 <-> Z.log2_up plen <= 3) by (change 8 with (2 ^ 3); apply L2; lia).
  unfold width_recovered, infer_bits. cbn [ckind]. unfold save_width.
  set (w := Z.log2_up plen) in *.
  assert (Hc : w = 0 \/ w = 1 \/ w = 2 \/ w = 3 \/ w = 4 \/ w = 5 \/ w = 6 \/ w = 7 \/ w = 8 \/ w = 9 \/ w = 10 \/ w = 11 \/
               w = 12 \/ w = 13 \/ w = 14 \/ w = 15 \/ w = 16 \/ w = 17 \/ w = 18 \/ w = 19 \/ w = 20 \/ w = 21 \/ w = 22 \/
               w = 23 \/ w = 24 \/ w = 25 \/ w = 26 \/ w = 27 \/ w = 28 \/ w = 29 \/ w = 30 \/ w = 31) by lia.
  clearbody w.
  destruct (Z.ltb_spec 0 plen); [|lia].
  destruct (Z.leb_spec plen 8) as [Hle|Hgt].
  - assert (w <= 3) by (apply H3; exact Hle).
    repeat (destruct Hc as [->|Hc]; [first [lia | eexists; split; [vm_compute; reflexivity|lia]]|]). lia.
  - assert (3 < w) by (destruct (Z.le_gt_cases w 3) as [Hc2|]; [apply H3 in Hc2; lia|lia]).
    repeat (destruct Hc as [->|Hc]; [first [lia | eexists; split; [vm_compute; reflexivity|lia]]|]).
    subst w. eexists; split; [vm_compute; reflexivity|lia].
Qed.

(* number of entries of a section's block-state / biome container in the chunk format *)
Definition section_len (k : kind) : Z := match k with KStates => 4096 | KBiomes => 64 end.

Theorem with_data_section cf data pat a :
  wfcfg cf -> pat <> [] -> Forall (inreg cf) pat -> zlen pat <= 2 ^ gbits cf ->
  let n := section_len (ckind cf) in
  let w := save_width (ckind cf) (zlen pat) in
  Z.of_nat (length data) = (if w =? 0 then 0 else size_of w n) ->
  Forall (fun l => (l < 2^64)%N) data ->
  spec_saved (Z.to_N w) (Z.to_nat n) pat data = Some a ->
  exists c, pc_with_data cf n data pat = ROk c /\ Inv c /\ ccfg c = cf /\ blen (cdata c) = n /\ pabs c = a.
Proof.
  intros Hc Hne Hreg Hpl n w Hlen Hdat Hspec.
  apply with_data; auto.
  - unfold n. destruct (ckind cf); cbn; lia.
  - assert (Hp1 : 1 <= zlen pat) by (destruct pat; [contradiction|unfold zlen; cbn [length]; lia]).
    destruct cf as [kd g]. unfold wfcfg in Hc. cbn [ckind gbits] in *. unfold n, w. destruct kd; cbn [section_len].
    + apply recovered_states; lia.
    + apply recovered_biomes; lia.
Qed.
