(* C12: RECORDED copies of the function bodies of level/palette.go as tools/gotrans/c12.go rendered them
   when the interpretation lemmas of Proofs/C12_skel*.v were written, and the `*_skel_ok` obligations:
   the term regenerated from the working tree on this run (Gen/C12gen.v) is the recorded one.  Any edit of
   a translated body - a changed constant, a swapped or dropped statement, a different operand - makes
   the corresponding obligation fail (a harmless rewrite does too: that is accepted).  The interpretation
   lemmas are stated about the recorded terms and transported by these equalities. *)
From Coq Require Import List String ZArith.
From GoMC Require Import Model.C12_syntax Gen.C12gen.
Import ListNotations.
Local Open Scope string_scope.
Local Open Scope Z_scope.

(* recorded: PaletteContainer.Get *)
Definition exp_PaletteContainer_Get : gfunc :=
  {| g_recv := ("p", "*PaletteContainer[T]"); g_name := "Get";
     g_params := [("i", "int")];
     g_results := [("", "T")];
     g_body := [
        SReturn [(ECall (ESel (ESel (EId "p") "palette") "value") [(ECall (ESel (ESel (EId "p") "data") "Get") [(EId "i")])])] ] |}.

(* recorded: PaletteContainer.Set *)
Definition exp_PaletteContainer_Set : gfunc :=
  {| g_recv := ("p", "*PaletteContainer[T]"); g_name := "Set";
     g_params := [("i", "int"); ("v", "T")];
     g_results := [];
     g_body := [
        SIf [SDefine ["vv"; "ok"] [(ECall (ESel (ESel (EId "p") "palette") "id") [(EId "v")])]] (EId "ok") [
          SExpr (ECall (ESel (ESel (EId "p") "data") "Set") [(EId "i"); (EId "vv")]) ] [
          SDefine ["length"] [(ECall (ESel (ESel (EId "p") "data") "Len") [])];
          SDefine ["newContainer"] [(ELit "PaletteContainer[T]" [("bits", (EId "vv")); ("config", (ESel (EId "p") "config")); ("palette", (ECall (ESel (ESel (EId "p") "config") "create") [(EId "vv")])); ("data", (ECall (EId "NewBitStorage") [(ECall (ESel (ESel (EId "p") "config") "bits") [(EId "vv")]); (EId "length"); (EId "nil")]))])];
          SFor [SDefine ["i"] [(EInt (0))]] [(EBin "<" (EId "i") (EId "length"))] [SIncDec (EId "i") true] [
            SExpr (ECall (ESel (EId "newContainer") "Set") [(EId "i"); (ECall (ESel (EId "p") "Get") [(EId "i")])]) ];
          SIf [SDefine ["vv"; "ok"] [(ECall (ESel (ESel (EId "newContainer") "palette") "id") [(EId "v")])]] (EUn "!" (EId "ok")) [
            SExpr (ECall (EId "panic") [(EStr "not reachable")]) ] [
            SExpr (ECall (ESel (ESel (EId "newContainer") "data") "Set") [(EId "i"); (EId "vv")]) ];
          SAssign [(EUn "*" (EId "p"))] "=" [(EId "newContainer")] ] ] |}.

(* recorded: PaletteContainer.ReadFrom *)
Definition exp_PaletteContainer_ReadFrom : gfunc :=
  {| g_recv := ("p", "*PaletteContainer[T]"); g_name := "ReadFrom";
     g_params := [("r", "io.Reader")];
     g_results := [("n", "int64"); ("err", "error")];
     g_body := [
        SVar ["nBits"] "pk.UnsignedByte";
        SAssign [(EId "n"); (EId "err")] "=" [(ECall (ESel (EId "nBits") "ReadFrom") [(EId "r")])];
        SIf [] (EBin "!=" (EId "err") (EId "nil")) [
          SReturn [] ] [];
        SAssign [(ESel (EId "p") "bits")] "=" [(ECall (ESel (ESel (EId "p") "config") "bits") [(ECall (EId "int") [(EId "nBits")])])];
        SAssign [(ESel (EId "p") "palette")] "=" [(ECall (ESel (ESel (EId "p") "config") "create") [(ECall (EId "int") [(EId "nBits")])])];
        SDefine ["nn"; "err"] [(ECall (ESel (ESel (EId "p") "palette") "ReadFrom") [(EId "r")])];
        SAssign [(EId "n")] "+=" [(EId "nn")];
        SIf [] (EBin "!=" (EId "err") (EId "nil")) [
          SReturn [(EId "n"); (EId "err")] ] [];
        SAssign [(EId "nn"); (EId "err")] "=" [(ECall (ESel (ESel (EId "p") "data") "ReadFrom") [(EId "r")])];
        SAssign [(EId "n")] "+=" [(EId "nn")];
        SIf [] (EBin "!=" (EId "err") (EId "nil")) [
          SReturn [(EId "n"); (EId "err")] ] [];
        SReturn [(EId "n"); (ECall (ESel (ESel (EId "p") "data") "Fix") [(ESel (EId "p") "bits")])] ] |}.

(* recorded: PaletteContainer.WriteTo *)
Definition exp_PaletteContainer_WriteTo : gfunc :=
  {| g_recv := ("p", "*PaletteContainer[T]"); g_name := "WriteTo";
     g_params := [("w", "io.Writer")];
     g_results := [("n", "int64"); ("err", "error")];
     g_body := [
        SReturn [(ECall (ESel (ELit "pk.Tuple" [("", (ECall (ESel (EId "pk") "UnsignedByte") [(ESel (EId "p") "bits")])); ("", (ESel (EId "p") "palette")); ("", (ESel (EId "p") "data"))]) "WriteTo") [(EId "w")])] ] |}.

(* recorded: statesCfg.bits *)
Definition exp_statesCfg_bits : gfunc :=
  {| g_recv := ("s", "statesCfg"); g_name := "bits";
     g_params := [("bits", "int")];
     g_results := [("", "int")];
     g_body := [
        SSwitch [(EId "bits")] [
          ([(EInt (0))], [
            SReturn [(EInt (0))] ]);
          ([(EInt (1)); (EInt (2)); (EInt (3)); (EInt (4))], [
            SReturn [(EInt (4))] ]);
          ([(EInt (5)); (EInt (6)); (EInt (7)); (EInt (8))], [
            SReturn [(EId "bits")] ]);
          ([], [
            SReturn [(ESel (EId "block") "BitsPerBlock")] ]) ] ] |}.

(* recorded: statesCfg.create *)
Definition exp_statesCfg_create : gfunc :=
  {| g_recv := ("s", "statesCfg"); g_name := "create";
     g_params := [("bits", "int")];
     g_results := [("", "palette[BlocksState]")];
     g_body := [
        SSwitch [(EId "bits")] [
          ([(EInt (0))], [
            SReturn [(EUn "&" (ELit "singleValuePalette[BlocksState]" [("v", (EUn "-" (EInt (1))))]))] ]);
          ([(EInt (1)); (EInt (2)); (EInt (3)); (EInt (4))], [
            SReturn [(EUn "&" (ELit "linearPalette[BlocksState]" [("bits", (EInt (4))); ("values", (EMake "[]BlocksState" [(EInt (0)); (EBin "<<" (EInt (1)) (EInt (4)))]))]))] ]);
          ([(EInt (5)); (EInt (6)); (EInt (7)); (EInt (8))], [
            SReturn [(EUn "&" (ELit "hashPalette[BlocksState]" [("bits", (EId "bits")); ("ids", (EMake "map[BlocksState]int" [])); ("values", (EMake "[]BlocksState" [(EInt (0)); (EBin "<<" (EInt (1)) (EId "bits"))]))]))] ]);
          ([], [
            SReturn [(EUn "&" (ELit "globalPalette[BlocksState]" []))] ]) ] ] |}.

(* recorded: biomesCfg.bits *)
Definition exp_biomesCfg_bits : gfunc :=
  {| g_recv := ("b", "biomesCfg"); g_name := "bits";
     g_params := [("bits", "int")];
     g_results := [("", "int")];
     g_body := [
        SSwitch [(EId "bits")] [
          ([(EInt (0))], [
            SReturn [(EInt (0))] ]);
          ([(EInt (1)); (EInt (2)); (EInt (3))], [
            SReturn [(EId "bits")] ]);
          ([], [
            SReturn [(ESel (EId "biome") "BitsPerBiome")] ]) ] ] |}.

(* recorded: biomesCfg.create *)
Definition exp_biomesCfg_create : gfunc :=
  {| g_recv := ("b", "biomesCfg"); g_name := "create";
     g_params := [("bits", "int")];
     g_results := [("", "palette[BiomesState]")];
     g_body := [
        SSwitch [(EId "bits")] [
          ([(EInt (0))], [
            SReturn [(EUn "&" (ELit "singleValuePalette[BiomesState]" [("v", (EUn "-" (EInt (1))))]))] ]);
          ([(EInt (1)); (EInt (2)); (EInt (3))], [
            SReturn [(EUn "&" (ELit "linearPalette[BiomesState]" [("bits", (EId "bits")); ("values", (EMake "[]BiomesState" [(EInt (0)); (EBin "<<" (EInt (1)) (EId "bits"))]))]))] ]);
          ([], [
            SReturn [(EUn "&" (ELit "globalPalette[BiomesState]" []))] ]) ] ] |}.

(* recorded: singleValuePalette.id *)
Definition exp_singleValuePalette_id : gfunc :=
  {| g_recv := ("s", "*singleValuePalette[T]"); g_name := "id";
     g_params := [("v", "T")];
     g_results := [("", "int"); ("", "bool")];
     g_body := [
        SIf [] (EBin "==" (ESel (EId "s") "v") (EId "v")) [
          SReturn [(EInt (0)); (EId "true")] ] [];
        SReturn [(EInt (1)); (EId "false")] ] |}.

(* recorded: singleValuePalette.value *)
Definition exp_singleValuePalette_value : gfunc :=
  {| g_recv := ("s", "*singleValuePalette[T]"); g_name := "value";
     g_params := [("i", "int")];
     g_results := [("", "T")];
     g_body := [
        SIf [] (EBin "==" (EId "i") (EInt (0))) [
          SReturn [(ESel (EId "s") "v")] ] [];
        SExpr (ECall (EId "panic") [(EBin "+" (EBin "+" (EStr "singleValuePalette: ") (ECall (ESel (EId "strconv") "Itoa") [(EId "i")])) (EStr " out of bounds"))]) ] |}.

(* recorded: singleValuePalette.ReadFrom *)
Definition exp_singleValuePalette_ReadFrom : gfunc :=
  {| g_recv := ("s", "*singleValuePalette[T]"); g_name := "ReadFrom";
     g_params := [("r", "io.Reader")];
     g_results := [("n", "int64"); ("err", "error")];
     g_body := [
        SVar ["i"] "pk.VarInt";
        SAssign [(EId "n"); (EId "err")] "=" [(ECall (ESel (EId "i") "ReadFrom") [(EId "r")])];
        SIf [] (EBin "!=" (EId "err") (EId "nil")) [
          SReturn [] ] [];
        SAssign [(ESel (EId "s") "v")] "=" [(ECall (EId "T") [(EId "i")])];
        SReturn [] ] |}.

(* recorded: singleValuePalette.WriteTo *)
Definition exp_singleValuePalette_WriteTo : gfunc :=
  {| g_recv := ("s", "*singleValuePalette[T]"); g_name := "WriteTo";
     g_params := [("w", "io.Writer")];
     g_results := [("n", "int64"); ("err", "error")];
     g_body := [
        SReturn [(ECall (ESel (ECall (ESel (EId "pk") "VarInt") [(ESel (EId "s") "v")]) "WriteTo") [(EId "w")])] ] |}.

(* recorded: linearPalette.id *)
Definition exp_linearPalette_id : gfunc :=
  {| g_recv := ("l", "*linearPalette[T]"); g_name := "id";
     g_params := [("v", "T")];
     g_results := [("", "int"); ("", "bool")];
     g_body := [
        SRange "i" "t" (ESel (EId "l") "values") [
          SIf [] (EBin "==" (EId "t") (EId "v")) [
            SReturn [(EId "i"); (EId "true")] ] [] ];
        SIf [] (EBin ">" (EBin "-" (ECall (EId "cap") [(ESel (EId "l") "values")]) (ECall (EId "len") [(ESel (EId "l") "values")])) (EInt (0))) [
          SAssign [(ESel (EId "l") "values")] "=" [(ECall (EId "append") [(ESel (EId "l") "values"); (EId "v")])];
          SReturn [(EBin "-" (ECall (EId "len") [(ESel (EId "l") "values")]) (EInt (1))); (EId "true")] ] [];
        SReturn [(EBin "+" (ESel (EId "l") "bits") (EInt (1))); (EId "false")] ] |}.

(* recorded: linearPalette.value *)
Definition exp_linearPalette_value : gfunc :=
  {| g_recv := ("l", "*linearPalette[T]"); g_name := "value";
     g_params := [("i", "int")];
     g_results := [("", "T")];
     g_body := [
        SIf [] (EBin "&&" (EBin ">=" (EId "i") (EInt (0))) (EBin "<" (EId "i") (ECall (EId "len") [(ESel (EId "l") "values")]))) [
          SReturn [(EIndex (ESel (EId "l") "values") (EId "i"))] ] [];
        SExpr (ECall (EId "panic") [(EBin "+" (EBin "+" (EStr "linearPalette: ") (ECall (ESel (EId "strconv") "Itoa") [(EId "i")])) (EStr " out of bounds"))]) ] |}.

(* recorded: linearPalette.ReadFrom *)
Definition exp_linearPalette_ReadFrom : gfunc :=
  {| g_recv := ("l", "*linearPalette[T]"); g_name := "ReadFrom";
     g_params := [("r", "io.Reader")];
     g_results := [("n", "int64"); ("err", "error")];
     g_body := [
        SVar ["size"; "value"] "pk.VarInt";
        SIf [SAssign [(EId "n"); (EId "err")] "=" [(ECall (ESel (EId "size") "ReadFrom") [(EId "r")])]] (EBin "!=" (EId "err") (EId "nil")) [
          SReturn [] ] [];
        SIf [] (EBin "<" (EId "size") (EInt (0))) [
          SReturn [(EId "n"); (ECall (ESel (EId "errors") "New") [(EStr "level: negative palette length")])] ] [];
        SIf [] (EBin ">" (ECall (EId "int") [(EId "size")]) (EBin "<<" (EInt (1)) (ESel (EId "l") "bits"))) [
          SReturn [(EId "n"); (ECall (ESel (EId "errors") "New") [(EStr "level: palette length exceeds its width")])] ] [];
        SIf [] (EBin ">" (ECall (EId "int") [(EId "size")]) (ECall (EId "cap") [(ESel (EId "l") "values")])) [
          SAssign [(ESel (EId "l") "values")] "=" [(EMake "[]T" [(EId "size")])] ] [
          SAssign [(ESel (EId "l") "values")] "=" [(ESlice (ESel (EId "l") "values") [] [(EId "size")])] ];
        SFor [SDefine ["i"] [(EInt (0))]] [(EBin "<" (EId "i") (ECall (EId "int") [(EId "size")]))] [SIncDec (EId "i") true] [
          SIf [SDefine ["nn"; "err"] [(ECall (ESel (EId "value") "ReadFrom") [(EId "r")])]] (EBin "!=" (EId "err") (EId "nil")) [
            SReturn [(EBin "+" (EId "n") (EId "nn")); (EId "err")] ] [
            SAssign [(EId "n")] "+=" [(EId "nn")] ];
          SAssign [(EIndex (ESel (EId "l") "values") (EId "i"))] "=" [(ECall (EId "T") [(EId "value")])] ];
        SReturn [] ] |}.

(* recorded: linearPalette.WriteTo *)
Definition exp_linearPalette_WriteTo : gfunc :=
  {| g_recv := ("l", "*linearPalette[T]"); g_name := "WriteTo";
     g_params := [("w", "io.Writer")];
     g_results := [("n", "int64"); ("err", "error")];
     g_body := [
        SIf [SAssign [(EId "n"); (EId "err")] "=" [(ECall (ESel (ECall (ESel (EId "pk") "VarInt") [(ECall (EId "len") [(ESel (EId "l") "values")])]) "WriteTo") [(EId "w")])]] (EBin "!=" (EId "err") (EId "nil")) [
          SReturn [] ] [];
        SRange "_" "v" (ESel (EId "l") "values") [
          SIf [SDefine ["nn"; "err"] [(ECall (ESel (ECall (ESel (EId "pk") "VarInt") [(EId "v")]) "WriteTo") [(EId "w")])]] (EBin "!=" (EId "err") (EId "nil")) [
            SReturn [(EBin "+" (EId "n") (EId "nn")); (EId "err")] ] [
            SAssign [(EId "n")] "+=" [(EId "nn")] ] ];
        SReturn [] ] |}.

(* recorded: hashPalette.id *)
Definition exp_hashPalette_id : gfunc :=
  {| g_recv := ("h", "*hashPalette[T]"); g_name := "id";
     g_params := [("v", "T")];
     g_results := [("", "int"); ("", "bool")];
     g_body := [
        SIf [SDefine ["i"; "ok"] [(EIndex (ESel (EId "h") "ids") (EId "v"))]] (EId "ok") [
          SReturn [(EId "i"); (EId "true")] ] [];
        SIf [] (EBin ">" (EBin "-" (ECall (EId "cap") [(ESel (EId "h") "values")]) (ECall (EId "len") [(ESel (EId "h") "values")])) (EInt (0))) [
          SAssign [(EIndex (ESel (EId "h") "ids") (EId "v"))] "=" [(ECall (EId "len") [(ESel (EId "h") "values")])];
          SAssign [(ESel (EId "h") "values")] "=" [(ECall (EId "append") [(ESel (EId "h") "values"); (EId "v")])];
          SReturn [(EBin "-" (ECall (EId "len") [(ESel (EId "h") "values")]) (EInt (1))); (EId "true")] ] [];
        SReturn [(EBin "+" (ESel (EId "h") "bits") (EInt (1))); (EId "false")] ] |}.

(* recorded: hashPalette.value *)
Definition exp_hashPalette_value : gfunc :=
  {| g_recv := ("h", "*hashPalette[T]"); g_name := "value";
     g_params := [("i", "int")];
     g_results := [("", "T")];
     g_body := [
        SIf [] (EBin "&&" (EBin ">=" (EId "i") (EInt (0))) (EBin "<" (EId "i") (ECall (EId "len") [(ESel (EId "h") "values")]))) [
          SReturn [(EIndex (ESel (EId "h") "values") (EId "i"))] ] [];
        SExpr (ECall (EId "panic") [(EBin "+" (EBin "+" (EStr "hashPalette: ") (ECall (ESel (EId "strconv") "Itoa") [(EId "i")])) (EStr " out of bounds"))]) ] |}.

(* recorded: hashPalette.ReadFrom *)
Definition exp_hashPalette_ReadFrom : gfunc :=
  {| g_recv := ("h", "*hashPalette[T]"); g_name := "ReadFrom";
     g_params := [("r", "io.Reader")];
     g_results := [("n", "int64"); ("err", "error")];
     g_body := [
        SVar ["size"; "value"] "pk.VarInt";
        SIf [SAssign [(EId "n"); (EId "err")] "=" [(ECall (ESel (EId "size") "ReadFrom") [(EId "r")])]] (EBin "!=" (EId "err") (EId "nil")) [
          SReturn [] ] [];
        SIf [] (EBin "<" (EId "size") (EInt (0))) [
          SReturn [(EId "n"); (ECall (ESel (EId "errors") "New") [(EStr "level: negative palette length")])] ] [];
        SIf [] (EBin ">" (ECall (EId "int") [(EId "size")]) (EBin "<<" (EInt (1)) (ESel (EId "h") "bits"))) [
          SReturn [(EId "n"); (ECall (ESel (EId "errors") "New") [(EStr "level: palette length exceeds its width")])] ] [];
        SIf [] (EBin ">" (ECall (EId "int") [(EId "size")]) (ECall (EId "cap") [(ESel (EId "h") "values")])) [
          SAssign [(ESel (EId "h") "values")] "=" [(EMake "[]T" [(EId "size")])] ] [
          SAssign [(ESel (EId "h") "values")] "=" [(ESlice (ESel (EId "h") "values") [] [(EId "size")])] ];
        SFor [SDefine ["i"] [(EInt (0))]] [(EBin "<" (EId "i") (ECall (EId "int") [(EId "size")]))] [SIncDec (EId "i") true] [
          SIf [SDefine ["nn"; "err"] [(ECall (ESel (EId "value") "ReadFrom") [(EId "r")])]] (EBin "!=" (EId "err") (EId "nil")) [
            SReturn [(EBin "+" (EId "n") (EId "nn")); (EId "err")] ] [
            SAssign [(EId "n")] "+=" [(EId "nn")] ];
          SAssign [(EIndex (ESel (EId "h") "values") (EId "i"))] "=" [(ECall (EId "T") [(EId "value")])];
          SAssign [(EIndex (ESel (EId "h") "ids") (ECall (EId "T") [(EId "value")]))] "=" [(EId "i")] ];
        SReturn [] ] |}.

(* recorded: hashPalette.WriteTo *)
Definition exp_hashPalette_WriteTo : gfunc :=
  {| g_recv := ("h", "*hashPalette[T]"); g_name := "WriteTo";
     g_params := [("w", "io.Writer")];
     g_results := [("n", "int64"); ("err", "error")];
     g_body := [
        SIf [SAssign [(EId "n"); (EId "err")] "=" [(ECall (ESel (ECall (ESel (EId "pk") "VarInt") [(ECall (EId "len") [(ESel (EId "h") "values")])]) "WriteTo") [(EId "w")])]] (EBin "!=" (EId "err") (EId "nil")) [
          SReturn [] ] [];
        SRange "_" "v" (ESel (EId "h") "values") [
          SIf [SDefine ["nn"; "err"] [(ECall (ESel (ECall (ESel (EId "pk") "VarInt") [(EId "v")]) "WriteTo") [(EId "w")])]] (EBin "!=" (EId "err") (EId "nil")) [
            SReturn [(EBin "+" (EId "n") (EId "nn")); (EId "err")] ] [
            SAssign [(EId "n")] "+=" [(EId "nn")] ] ];
        SReturn [] ] |}.

(* recorded: globalPalette.id *)
Definition exp_globalPalette_id : gfunc :=
  {| g_recv := ("g", "*globalPalette[T]"); g_name := "id";
     g_params := [("v", "T")];
     g_results := [("", "int"); ("", "bool")];
     g_body := [
        SReturn [(ECall (EId "int") [(EId "v")]); (EId "true")] ] |}.

(* recorded: globalPalette.value *)
Definition exp_globalPalette_value : gfunc :=
  {| g_recv := ("g", "*globalPalette[T]"); g_name := "value";
     g_params := [("i", "int")];
     g_results := [("", "T")];
     g_body := [
        SReturn [(ECall (EId "T") [(EId "i")])] ] |}.

(* recorded: globalPalette.ReadFrom *)
Definition exp_globalPalette_ReadFrom : gfunc :=
  {| g_recv := ("g", "*globalPalette[T]"); g_name := "ReadFrom";
     g_params := [("_", "io.Reader")];
     g_results := [("", "int64"); ("", "error")];
     g_body := [
        SReturn [(EInt (0)); (EId "nil")] ] |}.

(* recorded: globalPalette.WriteTo *)
Definition exp_globalPalette_WriteTo : gfunc :=
  {| g_recv := ("g", "*globalPalette[T]"); g_name := "WriteTo";
     g_params := [("_", "io.Writer")];
     g_results := [("", "int64"); ("", "error")];
     g_body := [
        SReturn [(EInt (0)); (EId "nil")] ] |}.

(* recorded: NewStatesPaletteContainer *)
Definition exp_NewStatesPaletteContainer : gfunc :=
  {| g_recv := ("", ""); g_name := "NewStatesPaletteContainer";
     g_params := [("length", "int"); ("defaultValue", "BlocksState")];
     g_results := [("", "*PaletteContainer[BlocksState]")];
     g_body := [
        SReturn [(EUn "&" (ELit "PaletteContainer[BlocksState]" [("bits", (EInt (0))); ("config", (ELit "statesCfg" [])); ("palette", (EUn "&" (ELit "singleValuePalette[BlocksState]" [("v", (EId "defaultValue"))]))); ("data", (ECall (EId "NewBitStorage") [(EInt (0)); (EId "length"); (EId "nil")]))]))] ] |}.

(* recorded: NewStatesPaletteContainerWithData *)
Definition exp_NewStatesPaletteContainerWithData : gfunc :=
  {| g_recv := ("", ""); g_name := "NewStatesPaletteContainerWithData";
     g_params := [("length", "int"); ("data", "[]uint64"); ("pat", "[]BlocksState")];
     g_results := [("", "*PaletteContainer[BlocksState]")];
     g_body := [
        SVar ["p"] "palette[BlocksState]";
        SDefine ["n"] [(ECall (EId "calcBitsPerValue") [(EId "length"); (ECall (EId "len") [(EId "data")])])];
        SSwitch [(EId "n")] [
          ([(EInt (0))], [
            SAssign [(EId "p")] "=" [(EUn "&" (ELit "singleValuePalette[BlocksState]" [("", (EIndex (EId "pat") (EInt (0))))]))] ]);
          ([(EInt (1)); (EInt (2)); (EInt (3)); (EInt (4))], [
            SAssign [(EId "n")] "=" [(EInt (4))];
            SAssign [(EId "p")] "=" [(EUn "&" (ELit "linearPalette[BlocksState]" [("values", (ECall (EId "withCap") [(EId "pat"); (EBin "<<" (EInt (1)) (EId "n"))])); ("bits", (EId "n"))]))] ]);
          ([(EInt (5)); (EInt (6)); (EInt (7)); (EInt (8))], [
            SAssign [(EId "pat")] "=" [(ECall (EId "withCap") [(EId "pat"); (EBin "<<" (EInt (1)) (EId "n"))])];
            SDefine ["ids"] [(EMake "map[BlocksState]int" [])];
            SRange "i" "v" (EId "pat") [
              SAssign [(EIndex (EId "ids") (EId "v"))] "=" [(EId "i")] ];
            SAssign [(EId "p")] "=" [(EUn "&" (ELit "hashPalette[BlocksState]" [("ids", (EId "ids")); ("values", (EId "pat")); ("bits", (EId "n"))]))] ]);
          ([], [
            SAssign [(EId "p")] "=" [(EUn "&" (ELit "globalPalette[BlocksState]" []))];
            SIf [] (EBin ">" (ECall (EId "len") [(EId "pat")]) (EBin "<<" (EInt (1)) (EInt (8)))) [
              SAssign [(EId "data")] "=" [(ECall (EId "resolveIndirect") [(EId "length"); (EId "data"); (EId "pat"); (ESel (EId "block") "BitsPerBlock")])] ] [] ]) ];
        SReturn [(EUn "&" (ELit "PaletteContainer[BlocksState]" [("bits", (EId "n")); ("config", (ELit "statesCfg" [])); ("palette", (EId "p")); ("data", (ECall (EId "NewBitStorage") [(ECall (ESel (ELit "statesCfg" []) "bits") [(EId "n")]); (EId "length"); (EId "data")]))]))] ] |}.

(* recorded: NewBiomesPaletteContainer *)
Definition exp_NewBiomesPaletteContainer : gfunc :=
  {| g_recv := ("", ""); g_name := "NewBiomesPaletteContainer";
     g_params := [("length", "int"); ("defaultValue", "BiomesState")];
     g_results := [("", "*PaletteContainer[BiomesState]")];
     g_body := [
        SReturn [(EUn "&" (ELit "PaletteContainer[BiomesState]" [("bits", (EInt (0))); ("config", (ELit "biomesCfg" [])); ("palette", (EUn "&" (ELit "singleValuePalette[BiomesState]" [("v", (EId "defaultValue"))]))); ("data", (ECall (EId "NewBitStorage") [(EInt (0)); (EId "length"); (EId "nil")]))]))] ] |}.

(* recorded: NewBiomesPaletteContainerWithData *)
Definition exp_NewBiomesPaletteContainerWithData : gfunc :=
  {| g_recv := ("", ""); g_name := "NewBiomesPaletteContainerWithData";
     g_params := [("length", "int"); ("data", "[]uint64"); ("pat", "[]BiomesState")];
     g_results := [("", "*PaletteContainer[BiomesState]")];
     g_body := [
        SVar ["p"] "palette[BiomesState]";
        SDefine ["n"] [(ECall (EId "calcBitsPerValue") [(EId "length"); (ECall (EId "len") [(EId "data")])])];
        SIf [] (EBin "&&" (EBin "&&" (EBin "&&" (EBin ">" (EId "n") (EInt (3))) (EBin ">" (ECall (EId "len") [(EId "pat")]) (EInt (0)))) (EBin "<=" (ECall (EId "len") [(EId "pat")]) (EBin "<<" (EInt (1)) (EInt (3))))) (EBin "==" (ECall (EId "calcBitStorageSize") [(EInt (3)); (EId "length")]) (ECall (EId "len") [(EId "data")]))) [
          SAssign [(EId "n")] "=" [(EInt (3))] ] [];
        SSwitch [(EId "n")] [
          ([(EInt (0))], [
            SAssign [(EId "p")] "=" [(EUn "&" (ELit "singleValuePalette[BiomesState]" [("", (EIndex (EId "pat") (EInt (0))))]))] ]);
          ([(EInt (1)); (EInt (2)); (EInt (3))], [
            SAssign [(EId "p")] "=" [(EUn "&" (ELit "linearPalette[BiomesState]" [("values", (ECall (EId "withCap") [(EId "pat"); (EBin "<<" (EInt (1)) (EId "n"))])); ("bits", (EId "n"))]))] ]);
          ([], [
            SAssign [(EId "p")] "=" [(EUn "&" (ELit "globalPalette[BiomesState]" []))];
            SIf [] (EBin ">" (ECall (EId "len") [(EId "pat")]) (EBin "<<" (EInt (1)) (EInt (3)))) [
              SAssign [(EId "data")] "=" [(ECall (EId "resolveIndirect") [(EId "length"); (EId "data"); (EId "pat"); (ESel (EId "biome") "BitsPerBiome")])] ] [] ]) ];
        SReturn [(EUn "&" (ELit "PaletteContainer[BiomesState]" [("bits", (EId "n")); ("config", (ELit "biomesCfg" [])); ("palette", (EId "p")); ("data", (ECall (EId "NewBitStorage") [(ECall (ESel (ELit "biomesCfg" []) "bits") [(EId "n")]); (EId "length"); (EId "data")]))]))] ] |}.

(* recorded: withCap *)
Definition exp_withCap : gfunc :=
  {| g_recv := ("", ""); g_name := "withCap";
     g_params := [("pat", "[]T"); ("size", "int")];
     g_results := [("", "[]T")];
     g_body := [
        SDefine ["values"] [(EMake "[]T" [(ECall (EId "len") [(EId "pat")]); (ECall (EId "max") [(ECall (EId "len") [(EId "pat")]); (EId "size")])])];
        SExpr (ECall (EId "copy") [(EId "values"); (EId "pat")]);
        SReturn [(EId "values")] ] |}.

(* recorded: resolveIndirect *)
Definition exp_resolveIndirect : gfunc :=
  {| g_recv := ("", ""); g_name := "resolveIndirect";
     g_params := [("length", "int"); ("data", "[]uint64"); ("pat", "[]T"); ("directBits", "int")];
     g_results := [("", "[]uint64")];
     g_body := [
        SDefine ["idx"] [(ECall (EId "NewBitStorage") [(ECall (ESel (EId "bits") "Len") [(ECall (EId "uint") [(EBin "-" (ECall (EId "len") [(EId "pat")]) (EInt (1)))])]); (EId "length"); (EId "data")])];
        SDefine ["direct"] [(ECall (EId "NewBitStorage") [(EId "directBits"); (EId "length"); (EId "nil")])];
        SFor [SDefine ["i"] [(EInt (0))]] [(EBin "<" (EId "i") (EId "length"))] [SIncDec (EId "i") true] [
          SExpr (ECall (ESel (EId "direct") "Set") [(EId "i"); (ECall (EId "int") [(EIndex (EId "pat") (ECall (ESel (EId "idx") "Get") [(EId "i")]))])]) ];
        SReturn [(ECall (ESel (EId "direct") "Raw") [])] ] |}.

(* ---------- the obligations ---------- *)
Lemma PaletteContainer_Get_skel_ok : pal_PaletteContainer_Get = exp_PaletteContainer_Get.
Proof. reflexivity. Qed.
Lemma PaletteContainer_Set_skel_ok : pal_PaletteContainer_Set = exp_PaletteContainer_Set.
Proof. reflexivity. Qed.
Lemma PaletteContainer_ReadFrom_skel_ok : pal_PaletteContainer_ReadFrom = exp_PaletteContainer_ReadFrom.
Proof. reflexivity. Qed.
Lemma PaletteContainer_WriteTo_skel_ok : pal_PaletteContainer_WriteTo = exp_PaletteContainer_WriteTo.
Proof. reflexivity. Qed.
Lemma statesCfg_bits_skel_ok : pal_statesCfg_bits = exp_statesCfg_bits.
Proof. reflexivity. Qed.
Lemma statesCfg_create_skel_ok : pal_statesCfg_create = exp_statesCfg_create.
Proof. reflexivity. Qed.
Lemma biomesCfg_bits_skel_ok : pal_biomesCfg_bits = exp_biomesCfg_bits.
Proof. reflexivity. Qed.
Lemma biomesCfg_create_skel_ok : pal_biomesCfg_create = exp_biomesCfg_create.
Proof. reflexivity. Qed.
Lemma singleValuePalette_id_skel_ok : pal_singleValuePalette_id = exp_singleValuePalette_id.
Proof. reflexivity. Qed.
Lemma singleValuePalette_value_skel_ok : pal_singleValuePalette_value = exp_singleValuePalette_value.
Proof. reflexivity. Qed.
Lemma singleValuePalette_ReadFrom_skel_ok : pal_singleValuePalette_ReadFrom = exp_singleValuePalette_ReadFrom.
Proof. reflexivity. Qed.
Lemma singleValuePalette_WriteTo_skel_ok : pal_singleValuePalette_WriteTo = exp_singleValuePalette_WriteTo.
Proof. reflexivity. Qed.
Lemma linearPalette_id_skel_ok : pal_linearPalette_id = exp_linearPalette_id.
Proof. reflexivity. Qed.
Lemma linearPalette_value_skel_ok : pal_linearPalette_value = exp_linearPalette_value.
Proof. reflexivity. Qed.
Lemma linearPalette_ReadFrom_skel_ok : pal_linearPalette_ReadFrom = exp_linearPalette_ReadFrom.
Proof. reflexivity. Qed.
Lemma linearPalette_WriteTo_skel_ok : pal_linearPalette_WriteTo = exp_linearPalette_WriteTo.
Proof. reflexivity. Qed.
Lemma hashPalette_id_skel_ok : pal_hashPalette_id = exp_hashPalette_id.
Proof. reflexivity. Qed.
Lemma hashPalette_value_skel_ok : pal_hashPalette_value = exp_hashPalette_value.
Proof. reflexivity. Qed.
Lemma hashPalette_ReadFrom_skel_ok : pal_hashPalette_ReadFrom = exp_hashPalette_ReadFrom.
Proof. reflexivity. Qed.
Lemma hashPalette_WriteTo_skel_ok : pal_hashPalette_WriteTo = exp_hashPalette_WriteTo.
Proof. reflexivity. Qed.
Lemma globalPalette_id_skel_ok : pal_globalPalette_id = exp_globalPalette_id.
Proof. reflexivity. Qed.
Lemma globalPalette_value_skel_ok : pal_globalPalette_value = exp_globalPalette_value.
Proof. reflexivity. Qed.
Lemma globalPalette_ReadFrom_skel_ok : pal_globalPalette_ReadFrom = exp_globalPalette_ReadFrom.
Proof. reflexivity. Qed.
Lemma globalPalette_WriteTo_skel_ok : pal_globalPalette_WriteTo = exp_globalPalette_WriteTo.
Proof. reflexivity. Qed.
Lemma NewStatesPaletteContainer_skel_ok : pal_NewStatesPaletteContainer = exp_NewStatesPaletteContainer.
Proof. reflexivity. Qed.
Lemma NewStatesPaletteContainerWithData_skel_ok : pal_NewStatesPaletteContainerWithData = exp_NewStatesPaletteContainerWithData.
Proof. reflexivity. Qed.
Lemma NewBiomesPaletteContainer_skel_ok : pal_NewBiomesPaletteContainer = exp_NewBiomesPaletteContainer.
Proof. reflexivity. Qed.
Lemma NewBiomesPaletteContainerWithData_skel_ok : pal_NewBiomesPaletteContainerWithData = exp_NewBiomesPaletteContainerWithData.
Proof. reflexivity. Qed.
Lemma withCap_skel_ok : pal_withCap = exp_withCap.
Proof. reflexivity. Qed.
Lemma resolveIndirect_skel_ok : pal_resolveIndirect = exp_resolveIndirect.
Proof. reflexivity. Qed.
