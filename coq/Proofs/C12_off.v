(* C12: what Set does outside the property's domain (index out of range, id outside the registry),
   and what survives a failed ReadFrom. *)
From Coq Require Import List Arith NArith ZArith Lia Bool ZifyN ZifyNat ZifyBool.
From GoMC Require Import Base.Bytes Base.Bits Base.Dec Gen.Consts Model.C05 Model.C11 Model.C12.
From GoMC Require Import Proofs.C11 Proofs.C11_laws Proofs.C12 Proofs.C12_wire.
Import ListNotations.
Open Scope Z_scope.
Ltac Zify.zify_post_hook ::= Z.to_euclidean_division_equations.

(* id() never changes what an index already resolves to *)
Lemma id_keeps p v p' k ok : pal_id p v = (p', k, ok) ->
  forall k0 y, pval p k0 = Some y -> pval p' k0 = Some y.
Proof.
  destruct p as [v0|vals cap pb|vals cap pb|]; cbn [pal_id]; intros H.
  - destruct (v0 =? v); inversion H; auto.
  - destruct (index_of v vals 0); [inversion H; auto|].
    destruct (0 <? cap - zlen vals); inversion H; auto.
    intros k0 y. unfold pval. cbn [pal_value]. apply vals_keep.
  - destruct (last_index_of v vals 0); [inversion H; auto|].
    destruct (0 <? cap - zlen vals); inversion H; auto.
    intros k0 y. unfold pval. cbn [pal_value]. apply vals_keep.
  - inversion H; auto.
Qed.

Lemma id_index_sw c v p' k : CI c -> in_sw 64 v -> pal_id (cpal c) v = (p', k, true) -> in_sw 64 k.
Proof.
  intros [Cc _ Cp] Hv H. unfold in_sw in *. change (Z.of_N 64 - 1) with 63 in *.
  destruct (cpal c) as [v0|vals cap pb|vals cap pb|]; cbn [pal_id pal_wf] in *.
  - destruct (v0 =? v); inversion H. lia.
  - destruct Cp as (Hk & _ & Hc & _).
    assert (P : 2 ^ pb <= 2 ^ 8) by (apply Z.pow_le_mono_r; destruct (ckind (ccfg c)); lia).
    change (2 ^ 8) with 256 in P. pose proof (zlen_nonneg vals).
    destruct (index_of v vals 0) as [r|] eqn:F.
    + inversion H; subst. destruct (index_of_some _ _ _ _ F). lia.
    + destruct (0 <? cap - zlen vals); inversion H; subst. lia.
  - destruct Cp as (_ & Hb & -> & _ & Hc & _).
    assert (P : 2 ^ (cbits c) <= 2 ^ 8) by (apply Z.pow_le_mono_r; lia).
    change (2 ^ 8) with 256 in P. pose proof (zlen_nonneg vals).
    destruct (last_index_of v vals 0) as [r|] eqn:F.
    + inversion H; subst. destruct (last_index_of_some _ _ _ _ F). lia.
    + destruct (0 <? cap - zlen vals); inversion H; subst. lia.
  - inversion H; subst. exact Hv.
Qed.

(* BitStorage.Set with an index out of range: nothing changes; only a width-0 storage returns normally *)
Lemma dset_reject d i k : dwf d -> ~ (0 <= i < blen d) -> in_sw 64 k ->
  fst (bs_set d i k) = d /\
  ((snd (bs_set d i k) = OUnit /\ vpl d = 0) \/ exists w, snd (bs_set d i k) = OPanic w).
Proof.
  intros [(Hv & _)|W] Hi Hk.
  - unfold bs_set. rewrite Hv. cbn. auto.
  - pose proof (rejected_iff d (ASet i k) W Hk) as R. cbn [bs_step valid_op] in R.
    assert (E : ((0 <=? i) && (i <? blen d))%bool = false) by lia. rewrite E in R. cbn in R.
    destruct (snd (bs_set d i k)) as [?| | |w] eqn:S; try discriminate.
    split; [|right; eauto]. apply (panic_unchanged d (ASet i k) w). exact S.
Qed.

Lemma pabs_keep b b' cf p p' d : (forall j, (j < Z.to_nat (blen d))%nat -> exists y, getv (mkPC b cf p d) j = Some y) ->
  (forall k0 y, pval p k0 = Some y -> pval p' k0 = Some y) ->
  pabs (mkPC b' cf p' d) = pabs (mkPC b cf p d).
Proof.
  intros V K. unfold pabs. cbn [cpal cdata]. apply map_ext_in. intros k Hk.
  destruct (In_nth _ _ 0%N Hk) as (j & Hj & <-). rewrite didx_length in Hj.
  destruct (V j Hj) as [y Hy]. unfold getv in Hy. cbn [cpal cdata] in Hy.
  unfold pvald. rewrite Hy, (K _ _ Hy). reflexivity.
Qed.

(* a copy destination always has a data array of positive width *)
Lemma di_wf cf b n U dst : DI cf b n U dst -> wf (cdata dst).
Proof.
  intros ([Cc Cd Cp] & Hcf & _ & _ & Hp). destruct Cd as [(_ & Hz & _)|W]; [exfalso|exact W].
  unfold wfcfg in Cc.
  destruct (cpal dst) as [?|vals cap pb|vals cap pb|]; cbn [pal_wf] in Cp.
  - exact Hp.
  - destruct Cp as (Hk & Hd & _). destruct (ckind (ccfg dst)); lia.
  - destruct Cp as (_ & Hk & Hpb & Hd & _). lia.
  - destruct Cp as (_ & _ & Hd). destruct (ckind (ccfg dst)); lia.
Qed.

(* the copy of a resize, on its own: it completes and the new container denotes the same array *)
Lemma resize_copy f c v p k : Inv c -> pal_id (cpal c) v = (p, k, false) ->
  exists d0 nc, bs_new (cfg_bits (ccfg c) k) (blen (cdata c)) None = ROk d0 /\
    copy_loop (pc_set (S f)) c (mkPC k (ccfg c) (cfg_create (ccfg c) k) d0) (positions (blen (cdata c))) = (nc, OUnit) /\
    DI (ccfg c) k (blen (cdata c)) (pal_export (cpal c)) nc /\ wf (cdata nc).
Proof.
  intros [C V] Hid.
  destruct (resize_shape c v p k C Hid) as (Hb & Hpw & Hshape).
  pose proof (dwf_len _ (ci_data c C)) as Hn.
  destruct (new_zero _ _ Hb Hn) as (d0 & En & W0 & B0 & L0 & _).
  set (n := blen (cdata c)) in *. set (U := pal_export (cpal c)) in *.
  assert (Hglob : cpal c <> PGlobal).
  { intros Hg. rewrite Hg in Hid. cbn in Hid. discriminate. }
  assert (Hsrc : forall j, 0 <= j < n -> exists x, pc_get c j = ORet x /\ getv c (Z.to_nat j) = Some x /\
                                                    In x U /\ inreg (ccfg c) x).
  { intros j Hj. destruct (V (Z.to_nat j)) as [x Hx]; [fold n; lia|]. exists x.
    split; [rewrite get_val by (auto; apply C); rewrite Hx; reflexivity|]. split; [exact Hx|].
    assert (In x U) by (eapply getv_in_export; eauto). split; [assumption|].
    pose proof (export_inreg c C) as Hr. rewrite Forall_forall in Hr. apply Hr. assumption. }
  assert (Hdi : DI (ccfg c) k n U (mkPC k (ccfg c) (cfg_create (ccfg c) k) d0)).
  { split.
    - constructor; cbn [ccfg cdata cpal cbits]; [apply C | right; exact W0 | rewrite B0; exact Hpw].
    - cbn [ccfg cbits cdata cpal]. repeat split; auto.
      destruct (cfg_create (ccfg c) k) as [?|vals cap pb|vals cap pb|]; auto.
      + destruct Hshape as [-> Hc]. split; [constructor|]. split; [intros y []|exact Hc].
      + destruct Hshape as [-> Hc]. split; [constructor|]. split; [intros y []|exact Hc]. }
  destruct (copy_ok f c (ccfg c) k n U Hsrc (positions n) (mkPC k (ccfg c) (cfg_create (ccfg c) k) d0) (fun _ => False))
    as (nc & Ec & Hdinc & Hall).
  { apply positions_range. } { exact Hdi. } { intros j []. }
  exists d0, nc. split; [exact En|]. split; [exact Ec|]. split; [exact Hdinc|].
  eapply di_wf; eauto.
Qed.

(* Set with an index out of range, any id: the array, the length and the kind are unchanged; the
   call panics, except on a single-valued container (width-0 data) asked for the value it already
   holds, which ignores the index.  (The palette may have taken the new id before the panic.) *)
Theorem set_bad_index f c i v : Inv c -> ~ (0 <= i < blen (cdata c)) -> in_sw 64 v ->
  let r := pc_set (S (S f)) c i v in
  pabs (fst r) = pabs c /\ blen (cdata (fst r)) = blen (cdata c) /\ ccfg (fst r) = ccfg c /\
  ((snd r = OUnit /\ vpl (cdata c) = 0) \/ exists w, snd r = OPanic w).
Proof.
  intros I Hi Hv. pose proof I as [C V]. cbv zeta.
  destruct (pal_id (cpal c) v) as [[p k] ok] eqn:Hid. destruct ok.
  - rewrite (pc_set_ok _ c i v p k Hid).
    pose proof (id_index_sw c v p k C Hv Hid) as Hk.
    destruct (dset_reject (cdata c) i k (ci_data c C) Hi Hk) as [Ed Eo].
    destruct (bs_set (cdata c) i k) as [d' o] eqn:E. cbn [fst snd] in *. subst d'.
    split; [|split; [reflexivity|split; [reflexivity|exact Eo]]].
    destruct c as [b cf p0 d]. cbn [cbits ccfg cpal cdata] in *.
    apply pabs_keep; [exact V|]. eapply id_keeps; eauto.
  - rewrite (pc_set_resize _ c i v p k Hid).
    destruct (resize_copy f c v p k I Hid) as (d0 & nc & En & Ec & Hdi & Wn).
    rewrite En, Ec.
    pose proof Hdi as (Cn & Hcf & Hbn & Hln & _).
    destruct (id_room _ _ (di_room _ _ _ _ _ v Hdi)) as (p2 & k2 & Hid2 & _). rewrite Hid2.
    pose proof (id_index_sw nc v p2 k2 Cn Hv Hid2) as Hk2.
    assert (Hi' : ~ (0 <= i < blen (cdata nc))) by (rewrite Hln; exact Hi).
    destruct (dset_reject (cdata nc) i k2 (or_intror Wn) Hi' Hk2) as [Ed [[Eo Ez]|[w Eo]]].
    + pose proof (vpl_nz _ Wn) as Hnz. rewrite Ez in Hnz. discriminate.
    + destruct (bs_set (cdata nc) i k2) as [d2 o2]. cbn [snd] in Eo. subst o2. cbn [fst snd].
      split; [reflexivity|]. split; [reflexivity|]. split; [reflexivity|]. right. eauto.
Qed.

(* Set of an id outside the registry on a direct (global) container: value-out-of-bounds panic,
   whatever the index, and the container is untouched *)
Theorem set_bad_id_direct f c i v : Inv c -> cpal c = PGlobal -> in_sw 64 v -> ~ inreg (ccfg c) v ->
  pc_set (S f) c i v = (c, OPanic pVal).
Proof.
  intros [C V] Hg Hv Hr. rewrite (pc_set_ok f c i v PGlobal v) by (rewrite Hg; reflexivity).
  destruct C as [Cc Cd Cp]. rewrite Hg in Cp. cbn [pal_wf] in Cp. destruct Cp as (_ & _ & Hd).
  unfold wfcfg in Cc.
  destruct Cd as [(_ & Hz & _)|W]; [destruct (ckind (ccfg c)); lia|].
  unfold bs_set. rewrite (vpl_nz _ W). rewrite (bad_value_spec _ v W Hv).
  unfold wbits. rewrite Z2N.id by (destruct (ckind (ccfg c)); lia). rewrite Hd.
  unfold inreg in Hr.
  assert (E : ((v <? 0) || (2 ^ gbits (ccfg c) <=? v))%bool = true) by lia. rewrite E.
  destruct c as [b cf p d]. cbn [cbits ccfg cpal cdata] in *. subst p. reflexivity.
Qed.

(* ---------- the container a failed ReadFrom leaves behind ---------- *)

(* ReadFrom assigns bits and palette, BitStorage.ReadFrom the longs, Fix the width fields; the
   configuration and the length field of the BitStorage are never assigned.  Nothing else is assumed
   of the container left behind by a read that failed (at any point, with any error). *)
Definition left_behind (before after : pc) : Prop :=
  ccfg after = ccfg before /\ blen (cdata after) = blen (cdata before).

(* such a container is repaired by the next successful read *)
Theorem failed_read_recoverable before left c rest fuel :
  left_behind before left -> Inv c -> ccfg c = ccfg before -> blen (cdata c) = blen (cdata before) ->
  (lenN (data (cdata c)) < 2^31)%N -> (length (pal_export (cpal c)) <= fuel)%nat ->
  exists c', run_flat (pc_read fuel left) (fst (pc_write c) ++ rest) = FOk (c', snd (pc_write c)) rest /\
    Inv c' /\ left_behind before c' /\ pabs c' = pabs c.
Proof.
  intros [L1 L2] I E1 E2 H31 Hf.
  destruct (wire_roundtrip c left rest fuel I ltac:(congruence) ltac:(congruence) H31 Hf)
    as (c' & R & _ & I' & C' & B' & A').
  exists c'. split; [exact R|]. split; [exact I'|]. split; [split; congruence|exact A'].
Qed.
