(* C12: INTERPRETATION lemmas.  The functions of level/palette.go as translated by tools/gotrans/c12.go
   (recorded copies: Proofs/C12_expected.v), run by the interpreter of Model/C12_syntax.v, ARE the
   model's functions (Model/C12.v) - for every palette, every container, every argument. *)
From Coq Require Import List String Arith NArith ZArith Lia Bool.
From GoMC Require Import Base.Bytes Base.Dec Model.C05 Model.C11 Model.C12 Model.C12_syntax.
From GoMC Require Import Proofs.C12_expected.
Import ListNotations.
Local Open Scope string_scope.
Local Open Scope Z_scope.

(* what a call of id / value returned, and the receiver afterwards *)
Definition id_result (fn : gfunc) (r : sres) : option (pal * Z * bool) :=
  match r with
  | SR e [VZ k; VB ok] => match recv_of fn e with Some (VPal p) => Some (p, k, ok) | _ => None end
  | _ => None
  end.
(* Some (Some v) = returned v, Some None = panicked with the palette-bounds code *)
Definition value_result (r : sres) : option (option Z) :=
  match r with
  | SR _ [VZ v] => Some (Some v)
  | SP _ w => if (w =? pPal)%N then Some None else None
  | _ => None
  end.

(* ---------- stepping through a body: unfolding equations and evaluation of closed pieces ---------- *)
Lemma seq_cons step e s t :
  seq_exec step e (s :: t) = match step e s with SN e1 => seq_exec step e1 t | r => r end.
Proof. reflexivity. Qed.
Lemma seq_nil step e : seq_exec step e [] = SN e.
Proof. reflexivity. Qed.
Lemma exec_if setf f e init c th el :
  exec setf (S f) e (SIf init c th el) =
  match seq_exec (exec setf f) e init with
  | SN e1 =>
      match eval setf (S f) e1 c with
      | EV e2 (VB b) =>
          if b
          then match scoped_exec (exec setf f) e2 th with SN e3 => SN (pop_to (List.length e) e3) | r => r end
          else match scoped_exec (exec setf f) e2 el with SN e3 => SN (pop_to (List.length e) e3) | r => r end
      | EV _ _ => SStuck | EP e2 w => SP e2 w | EStuck => SStuck
      end
  | r => r
  end.
Proof. reflexivity. Qed.
Lemma exec_range setf f e k v x body :
  exec setf (S f) e (SRange k v x body) =
  match eval setf (S f) e x with
  | EV e1 (VSlice l _) => range_loop (fun e' => scoped_exec (exec setf f) e' body) k v e1 0 l
  | EV _ _ => SStuck | EP e1 w => SP e1 w | EStuck => SStuck
  end.
Proof. reflexivity. Qed.

Ltac lz t := eval lazy -[Z.add Z.sub Z.mul Z.ltb Z.leb Z.eqb Z.opp Z.shiftl Z.of_nat Z.to_nat zlen index_of last_index_of
                          range_loop count_loop app nth_error pal_id pal_value bs_get bs_set bs_new blen
                          cfg_bits cfg_create pc_get pc_set copy_loop positions zlist_eqb p_set p_pread run_flat pal_read bs_read read32 bs_fix Z.of_N Z.to_N N.add N.modulo] in t.
(* evaluate one closed exec / eval / scoped_exec occurrence *)
Ltac ev1 :=
  match goal with
  | |- context [exec ?s ?f ?e ?st] => let r := lz (exec s f e st) in change (exec s f e st) with r
  | |- context [eval ?s ?f ?e ?x] => let r := lz (eval s f e x) in change (eval s f e x) with r
  end; cbv beta iota.
Ltac step := rewrite seq_cons; ev1.

Ltac run_closed := match goal with |- context [run ?s ?f ?r ?a] => let t := lz (run s f r a) in change (run s f r a) with t end; cbv beta iota.

(* ---------- singleValuePalette ---------- *)
Lemma tie_single_id v0 v :
  id_result exp_singleValuePalette_id (run no_set exp_singleValuePalette_id (VPal (PSingle v0)) [VZ v])
  = Some (pal_id (PSingle v0) v).
Proof. run_closed. cbn [pal_id]. destruct (v0 =? v); reflexivity. Qed.

Lemma tie_single_value v0 i :
  value_result (run no_set exp_singleValuePalette_value (VPal (PSingle v0)) [VZ i]) = Some (pal_value (PSingle v0) i).
Proof. run_closed. cbn [pal_value]. destruct (i =? 0); reflexivity. Qed.

(* ---------- globalPalette ---------- *)
Lemma tie_global_id v :
  id_result exp_globalPalette_id (run no_set exp_globalPalette_id (VPal PGlobal) [VZ v]) = Some (pal_id PGlobal v).
Proof. reflexivity. Qed.
Lemma tie_global_value i :
  value_result (run no_set exp_globalPalette_value (VPal PGlobal) [VZ i]) = Some (pal_value PGlobal i).
Proof. run_closed. reflexivity. Qed.

Lemma zlen_snoc (l : list Z) x : zlen (l ++ [x])%list - 1 = zlen l.
Proof. unfold zlen. rewrite app_length. cbn [List.length]. lia. Qed.

(* ---------- linearPalette ---------- *)
Definition find_body : list gstmt :=
  [SIf [] (EBin "==" (EId "t") (EId "v")) [SReturn [(EId "i"); (EId "true")]] []].

(* the range loop of linearPalette.id is the first-index scan *)
Lemma range_find v X f : forall l idx,
  range_loop (fun e' => scoped_exec (exec no_set (S (S (S (S f))))) e' find_body) "i" "t" [("v", VZ v); ("l", X)] idx l =
  match index_of v l idx with
  | Some r => SR [("t", VZ v); ("i", VZ r); ("v", VZ v); ("l", X)] [VZ r; VB true]
  | None => SN [("v", VZ v); ("l", X)]
  end.
Proof.
  induction l as [|y t IH]; intros idx; [reflexivity|].
  cbn [range_loop index_of].
  match goal with |- context [scoped_exec ?st ?e ?b] => let r := lz (scoped_exec st e b) in change (scoped_exec st e b) with r end.
  cbv beta iota.
  destruct (Z.eqb_spec y v) as [->|Hne].
  - reflexivity.
  - cbv beta iota. match goal with |- context [pop_to ?n ?e] => let r := lz (pop_to n e) in change (pop_to n e) with r end. apply IH.
Qed.

Lemma tie_linear_id vals cap pb v :
  id_result exp_linearPalette_id (run no_set exp_linearPalette_id (VPal (PLinear vals cap pb)) [VZ v])
  = Some (pal_id (PLinear vals cap pb) v).
Proof.
  unfold run, exec_body, run_fuel. cbn [g_recv g_params g_body exp_linearPalette_id bind_all map fst].
  rewrite seq_cons, exec_range. ev1. fold find_body.
  rewrite (range_find v (VPal (PLinear vals cap pb)) 7 vals 0).
  cbn [pal_id]. destruct (index_of v vals 0) as [r|]; [reflexivity|].
  step. destruct (Z.ltb_spec 0 (cap - zlen vals)) as [Hroom|Hfull].
  - destruct (Z.ltb_spec (zlen vals) cap) as [_|Hc]; [|lia]. cbv beta iota.
    match goal with |- context [id_result ?f ?r] => let t := lz (id_result f r) in change (id_result f r) with t end.
    rewrite zlen_snoc. reflexivity.
  - cbv beta iota. step. reflexivity.
Qed.

Ltac value_proof vals i :=
  run_closed; cbn [pal_value];
  destruct (0 <=? i) eqn:E1; cbv beta iota; rewrite ?E1; cbn [andb]; cbv beta iota; [|reflexivity];
  destruct (i <? zlen vals) eqn:E2; cbv beta iota; rewrite ?E2; cbv beta iota; [|reflexivity];
  destruct (nth_error vals (Z.to_nat i)) eqn:E3; cbv beta iota; [reflexivity|];
  exfalso; apply nth_error_None in E3; unfold zlen in E2; lia.

Lemma tie_linear_value vals cap pb i :
  value_result (run no_set exp_linearPalette_value (VPal (PLinear vals cap pb)) [VZ i])
  = Some (pal_value (PLinear vals cap pb) i).
Proof. value_proof vals i. Qed.

Lemma tie_hash_value vals cap pb i :
  value_result (run no_set exp_hashPalette_value (VPal (PHash vals cap pb)) [VZ i])
  = Some (pal_value (PHash vals cap pb) i).
Proof. value_proof vals i. Qed.

(* ---------- hashPalette.id: the map is the last-index view of values ---------- *)
Lemma tie_hash_id vals cap pb v :
  id_result exp_hashPalette_id (run no_set exp_hashPalette_id (VPal (PHash vals cap pb)) [VZ v])
  = Some (pal_id (PHash vals cap pb) v).
Proof.
  unfold run, exec_body, run_fuel. cbn [g_recv g_params g_body exp_hashPalette_id bind_all map fst].
  rewrite seq_cons, exec_if. step. cbn [pal_id].
  destruct (last_index_of v vals 0) as [r|]; cbv beta iota.
  - rewrite seq_nil. cbv beta iota. ev1.
    match goal with |- context [scoped_exec ?st ?e ?b] => let t := lz (scoped_exec st e b) in change (scoped_exec st e b) with t end.
    reflexivity.
  - rewrite seq_nil. cbv beta iota. ev1.
    match goal with |- context [scoped_exec ?st ?e ?b] => let t := lz (scoped_exec st e b) in change (scoped_exec st e b) with t end.
    cbv beta iota.
    match goal with |- context [pop_to ?n ?e] => let t := lz (pop_to n e) in change (pop_to n e) with t end.
    step. destruct (Z.ltb_spec 0 (cap - zlen vals)) as [Hroom|Hfull].
    + rewrite Z.eqb_refl. cbv beta iota.
      destruct (Z.ltb_spec (zlen vals) cap) as [_|Hc]; [|lia]. cbv beta iota.
      assert (Eq : zlist_eqb (vals ++ [v])%list (vals ++ [v])%list = true).
      { generalize (vals ++ [v])%list. induction l as [|x t IH]; cbn; [reflexivity|]. rewrite Z.eqb_refl. exact IH. }
      rewrite Eq. cbn [andb]. rewrite !Z.eqb_refl. cbv beta iota.
      match goal with |- context [id_result ?f ?r] => let t := lz (id_result f r) in change (id_result f r) with t end.
      rewrite zlen_snoc. reflexivity.
    + cbv beta iota. step. reflexivity.
Qed.

(* ---------- the configuration tables: create ---------- *)
Definition create_result (r : sres) : option pal := match r with SR _ [VPal p] => Some p | _ => None end.

Ltac split_b b :=
  repeat match goal with
         | |- context [b =? ?k] => destruct (Z.eqb_spec b k); [subst b; reflexivity|]; cbv beta iota
         end.

Lemma tie_biomes_create g b :
  create_result (run no_set exp_biomesCfg_create (VCfg (mkCfg KBiomes g)) [VZ b]) = Some (cfg_create (mkCfg KBiomes g) b).
Proof.
  run_closed. unfold cfg_create, in_range. cbn [ckind]. split_b b.
  destruct (Z.leb_spec 1 b); destruct (Z.leb_spec b 3); cbn [andb]; try reflexivity; lia.
Qed.

Lemma tie_states_create g b :
  create_result (run no_set exp_statesCfg_create (VCfg (mkCfg KStates g)) [VZ b]) = Some (cfg_create (mkCfg KStates g) b).
Proof.
  run_closed. unfold cfg_create, in_range. cbn [ckind]. split_b b.
  destruct (Z.leb_spec 1 b); destruct (Z.leb_spec b 4); destruct (Z.leb_spec 5 b); destruct (Z.leb_spec b 8);
    cbn [andb]; try reflexivity; lia.
Qed.

(* ---------- PaletteContainer.Get ---------- *)
Definition out_result (r : sres) : option outcome :=
  match r with SR _ [VZ v] => Some (ORet v) | SN _ => Some OUnit | SP _ w => Some (OPanic w) | _ => None end.

Lemma bs_get_outcome d i : (exists v, snd (bs_get d i) = ORet v) \/ (exists w, snd (bs_get d i) = OPanic w).
Proof.
  unfold bs_get. destruct (vpl d =? 0); [left; eexists; reflexivity|].
  destruct (bad_index d i); [right; eexists; reflexivity|].
  destruct (locate d i) as [[[c off] l]|]; [left|right]; eexists; reflexivity.
Qed.
Lemma bs_set_outcome d i v : snd (bs_set d i v) = OUnit \/ (exists w, snd (bs_set d i v) = OPanic w).
Proof.
  unfold bs_set. destruct (vpl d =? 0); [left; reflexivity|].
  destruct (bad_value d v); [right; eexists; reflexivity|].
  destruct (bad_index d i); [right; eexists; reflexivity|].
  destruct (locate d i) as [[[c off] l]|]; [left|right; eexists]; reflexivity.
Qed.

Lemma tie_get c i : out_result (run no_set exp_PaletteContainer_Get (VCont c) [VZ i]) = Some (pc_get c i).
Proof.
  destruct c as [b cf p d]. run_closed. unfold pc_get. cbn [cdata cpal].
  destruct (bs_get_outcome d i) as [[k E]|[w E]]; destruct (bs_get d i) as [d' o]; cbn [snd] in E; subst o; cbv beta iota; cbn [snd].
  - destruct (pal_value p k); reflexivity.
  - reflexivity.
Qed.

(* ---------- PaletteContainer.WriteTo: the order of the three fields ---------- *)
Definition write_piece (c : pc) (x : gexpr) : option (list N) :=
  match x with
  | ECall (ESel (EId "pk") "UnsignedByte") [ESel (EId "p") "bits"] => Some [Z.to_N (cbits c mod 256)]
  | ESel (EId "p") "palette" => Some (pal_write (cpal c))
  | ESel (EId "p") "data" => Some (fst (bs_write (cdata c)))
  | _ => None
  end.
Fixpoint write_pieces (c : pc) (xs : list (string * gexpr)) : option (list N) :=
  match xs with
  | [] => Some []
  | ("", x) :: t => match write_piece c x, write_pieces c t with
                    | Some a, Some b => Some (a ++ b)%list
                    | _, _ => None
                    end
  | _ => None
  end.
(* pk.Tuple{...}.WriteTo(w) writes its fields in order *)
Definition interp_writeto (fn : gfunc) (c : pc) : option (list N) :=
  match g_body fn with
  | [SReturn [ECall (ESel (ELit "pk.Tuple" fs) "WriteTo") [EId "w"]]] => write_pieces c fs
  | _ => None
  end.
Lemma tie_writeto c : interp_writeto exp_PaletteContainer_WriteTo c = Some (fst (pc_write c)).
Proof. unfold pc_write. cbn. rewrite app_nil_r. reflexivity. Qed.
