(* C12: INTERPRETATION of the translated withCap and resolveIndirect (recorded copies:
   Proofs/C12_expected.v): run by the interpreter of Model/C12_syntax.v they ARE the model's with_cap and
   resolve_indirect (Model/C12.v) - for every palette slice, size, length, data and width. *)
From Coq Require Import List String Arith NArith ZArith Lia Bool.
From GoMC Require Import Base.Bytes Base.Dec Model.C05 Model.C11 Model.C12 Model.C12_syntax.
From GoMC Require Import Gen.C12gen Proofs.C12_expected Proofs.C12_skel Proofs.C12_skel_set.
Import ListNotations.
Local Open Scope string_scope.
Local Open Scope Z_scope.

Ltac lzc t := eval lazy -[Z.add Z.sub Z.mul Z.ltb Z.leb Z.eqb Z.opp Z.shiftl Z.of_nat Z.to_nat Z.max Nat.min zlen
                          firstn skipn repeat List.length
                          range_loop count_loop app nth_error bs_get bs_set bs_new blen bit_len data
                          resolve_loop positions Z.of_N Z.to_N N.add N.modulo] in t.
Ltac evc :=
  match goal with
  | |- context [exec ?s ?f ?e ?st] => let r := lzc (exec s f e st) in change (exec s f e st) with r
  | |- context [eval ?s ?f ?e ?x] => let r := lzc (eval s f e x) in change (eval s f e x) with r
  end; cbv beta iota.
Ltac stepc := rewrite seq_cons; evc.

(* ---------- withCap ---------- *)
Definition cap_result (r : sres) : option (list Z * Z) :=
  match r with SR _ [VSlice l c] => Some (l, c) | _ => None end.

Lemma tie_with_cap pat c0 size :
  cap_result (run no_set exp_withCap VNil [VSlice pat c0; VZ size]) = Some (pat, with_cap pat size).
Proof.
  unfold run, exec_body, run_fuel. cbn [g_recv g_params g_body exp_withCap bind_all map fst].
  stepc. unfold with_cap.
  assert (Hn : Z.to_nat (zlen pat) = List.length pat) by (unfold zlen; lia).
  assert (H0 : 0 <= zlen pat) by (unfold zlen; lia).
  remember (zlen pat) as n eqn:En.
  destruct n as [|p|p]; [| |lia].
  - assert (pat = []) by (destruct pat; [reflexivity|unfold zlen in En; cbn [List.length] in En; lia]). subst pat.
    destruct (Z.leb_spec 0 (Z.max 0 size)); [|lia]. cbv beta iota. stepc. stepc. reflexivity.
  - destruct (Z.leb_spec 0 (Z.pos p)); [|lia].
    destruct (Z.leb_spec (Z.pos p) (Z.max (Z.pos p) size)); [|lia]. cbv beta iota. stepc. stepc.
    cbn [cap_result]. rewrite Hn, repeat_length, Nat.min_id, firstn_all, skipn_all2, app_nil_r; [reflexivity|].
    rewrite repeat_length. lia.
Qed.

Lemma tr_with_cap pat c0 size :
  cap_result (run no_set pal_withCap VNil [VSlice pat c0; VZ size]) = Some (pat, with_cap pat size).
Proof. rewrite withCap_skel_ok. apply tie_with_cap. Qed.

(* ---------- resolveIndirect ---------- *)
Definition ri_result (r : sres) : option (res (list N)) :=
  match r with SR _ [VData l] => Some (ROk l) | SP _ w => Some (RPanic w) | _ => None end.

Lemma bs_get_fst d i : fst (bs_get d i) = d.
Proof.
  unfold bs_get. destruct (vpl d =? 0); [reflexivity|].
  destruct (bad_index d i); [reflexivity|].
  destruct (locate d i) as [[[c off] l]|]; reflexivity.
Qed.

Definition ri_body : list gstmt :=
  [SExpr (ECall (ESel (EId "direct") "Set")
            [(EId "i"); (ECall (EId "int") [(EIndex (EId "pat") (ECall (ESel (EId "idx") "Get") [(EId "i")]))])])].

Definition ri_env (dd ix : bstore) (g : Z) (pat : list Z) (c0 : Z) (d : list N) (n : Z) : env :=
  [("direct", VStore dd); ("idx", VStore ix); ("directBits", VZ g); ("pat", VSlice pat c0);
   ("data", VData d); ("length", VZ n); ("", VNil)].

Lemma ri_loop_tie ix g pat c0 d n : forall idxs dd,
  match resolve_loop ix pat dd idxs with
  | ROk dd' =>
      count_loop (fun e' => scoped_exec (exec no_set 11) e' ri_body) "i" (ri_env dd ix g pat c0 d n) idxs
      = SN (ri_env dd' ix g pat c0 d n)
  | RPanic w =>
      exists e, count_loop (fun e' => scoped_exec (exec no_set 11) e' ri_body) "i" (ri_env dd ix g pat c0 d n) idxs
                = SP e w
  end.
Proof.
  induction idxs as [|j t IH]; intros dd; cbn [resolve_loop count_loop]; [reflexivity|].
  lz_scoped.
  pose proof (bs_get_fst ix j) as Hf.
  destruct (bs_get_outcome ix j) as [[k E]|[w E]]; rewrite E;
    destruct (bs_get ix j) as [ix' o]; cbn [fst snd] in E, Hf; subst ix' o; cbv beta iota;
    [|eexists; reflexivity].
  destruct (Z.ltb_spec k 0) as [Hk|Hk].
  - destruct (Z.leb_spec 0 k); [lia|]. cbv beta iota. eexists; reflexivity.
  - destruct (Z.leb_spec 0 k); [|lia]. destruct (Z.ltb_spec k (zlen pat)) as [Hl|Hl]; cbv beta iota.
    + destruct (nth_error pat (Z.to_nat k)) as [v|] eqn:En;
        [|exfalso; apply nth_error_None in En; unfold zlen in Hl; lia].
      cbv beta iota.
      pose proof (bs_set_outcome dd j v) as Ho. destruct (bs_set dd j v) as [dd1 o]. cbn [snd] in Ho.
      destruct Ho as [->|[w ->]]; cbv beta iota.
      * lz_pop. apply IH.
      * eexists; reflexivity.
    + assert (En : nth_error pat (Z.to_nat k) = None) by (apply nth_error_None; unfold zlen in Hl; lia).
      rewrite En. eexists; reflexivity.
Qed.

Ltac lzr t := eval lazy -[Z.add Z.sub Z.mul Z.ltb Z.leb Z.eqb Z.opp Z.shiftl Z.of_nat Z.to_nat zlen
                          range_loop count_loop app nth_error bs_get bs_set bs_new blen bit_len data
                          resolve_loop positions Z.of_N Z.to_N N.add N.modulo] in t.
Ltac evr :=
  match goal with
  | |- context [exec ?s ?f ?e ?st] => let r := lzr (exec s f e st) in change (exec s f e st) with r
  | |- context [eval ?s ?f ?e ?x] => let r := lzr (eval s f e x) in change (eval s f e x) with r
  end; cbv beta iota.
Ltac rstep := rewrite seq_cons; evr.

Lemma tie_resolve_indirect n d pat c0 g : pat <> [] ->
  ri_result (run no_set exp_resolveIndirect VNil [VZ n; VData d; VSlice pat c0; VZ g]) = Some (resolve_indirect n d pat g).
Proof.
  intros Hne.
  assert (Hp : 0 <= zlen pat - 1) by (destruct pat; [congruence|unfold zlen; cbn [List.length]; lia]).
  unfold run, exec_body, run_fuel. cbn [g_recv g_params g_body exp_resolveIndirect bind_all map fst].
  unfold resolve_indirect.
  rstep.
  assert (Hb : (0 <=? zlen pat - 1) = true) by (apply Z.leb_le; exact Hp).
  rewrite Hb. cbv beta iota. rewrite Hb. cbv beta iota.
  destruct (bs_new (bit_len (zlen pat - 1)) n (Some d)) as [ix|w]; cbv beta iota; [|reflexivity].
  rstep.
  destruct (bs_new g n None) as [d0|w]; cbv beta iota; [|reflexivity].
  rewrite seq_cons, exec_for_i. evr. evr. rewrite positions_eq. fold ri_body.
  change [("direct", VStore d0); ("idx", VStore ix); ("directBits", VZ g); ("pat", VSlice pat c0);
          ("data", VData d); ("length", VZ n); ("", VNil)] with (ri_env d0 ix g pat c0 d n).
  pose proof (ri_loop_tie ix g pat c0 d n (positions n) d0) as HL.
  destruct (resolve_loop ix pat d0 (positions n)) as [d1|w].
  - rewrite HL. cbv beta iota. unfold ri_env. rstep. reflexivity.
  - destruct HL as (e & ->). reflexivity.
Qed.

Lemma tr_resolve_indirect n d pat c0 g : pat <> [] ->
  ri_result (run no_set pal_resolveIndirect VNil [VZ n; VData d; VSlice pat c0; VZ g]) = Some (resolve_indirect n d pat g).
Proof. rewrite resolveIndirect_skel_ok. apply tie_resolve_indirect. Qed.
