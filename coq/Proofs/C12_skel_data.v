(* C12: INTERPRETATION of the translated New{States,Biomes}PaletteContainerWithData, withCap and
   resolveIndirect: they ARE pc_with_data / with_cap / resolve_indirect of Model/C12.v for every length,
   every long array and every palette slice (any capacity). *)
From Coq Require Import List String Arith NArith ZArith Lia Bool.
From GoMC Require Import Base.Bytes Base.Dec Model.C05 Model.C11 Model.C12 Model.C12_syntax.
From GoMC Require Import Proofs.C12_expected Proofs.C12_skel Proofs.C12_skel_set.
Import ListNotations.
Local Open Scope string_scope.
Local Open Scope Z_scope.

Ltac lzd t := eval lazy -[Z.add Z.sub Z.mul Z.ltb Z.leb Z.eqb Z.opp Z.shiftl Z.of_nat Z.to_nat Z.max zlen
                          range_loop count_loop app nth_error bs_get bs_set bs_new blen calc_bits calc_size
                          cfg_bits cfg_create with_cap resolve_indirect zlist_eqb last_index_of] in t.
Ltac ev1d :=
  match goal with
  | |- context [exec ?s ?f ?e ?st] => let r := lzd (exec s f e st) in change (exec s f e st) with r
  end; cbv beta iota.
Ltac stepd := rewrite seq_cons; ev1d.

Ltac evd :=
  match goal with
  | |- context [eval ?s ?f ?e ?x] => let r := lzd (eval s f e x) in change (eval s f e x) with r
  end; cbv beta iota.
Ltac lzd_scoped :=
  match goal with |- context [scoped_exec ?st ?e ?b] => let t := lzd (scoped_exec st e b) in change (scoped_exec st e b) with t end;
  cbv beta iota.
Ltac lzd_pop :=
  match goal with |- context [pop_to ?n ?e] => let t := lzd (pop_to n e) in change (pop_to n e) with t end.

Ltac relz := cbv beta iota; match goal with |- ?l = _ => let t := lzd l in change l with t end; cbv beta iota.
Ltac nums := cbn [Z.eqb Z.leb Z.ltb Z.compare Pos.compare Pos.compare_cont Pos.eqb in_range andb orb negb cfg_bits ckind gbits wide_limit]; cbv beta iota.

Lemma calc_size_3 n : calc_size 3 n = Some (Z.quot (n + 21 - 1) 21).
Proof. reflexivity. Qed.

Lemma tie_biomes_with_data gs gb n data pat capp :
  new_result (run_g (cfg_env gs gb) no_set exp_NewBiomesPaletteContainerWithData VNil [VZ n; VData data; VSlice pat capp])
  = Some (pc_with_data (mkCfg KBiomes gb) n data pat).
Proof.
  unfold run_g, exec_body, run_fuel, cfg_env.
  cbn [g_recv g_params g_body exp_NewBiomesPaletteContainerWithData bind_all map fst].
  unfold pc_with_data, infer_bits. cbn [ckind gbits].
  stepd. stepd.
  destruct (calc_bits n (zlen data)) as [n0|]; cbv beta iota; [|reflexivity].
  rewrite seq_cons, exec_if, seq_nil. cbv beta iota. evd.
  rewrite calc_size_3. cbv beta iota. change (Z.shiftl 1 3) with 8.
  destruct (3 <? n0) eqn:E1; destruct (0 <? zlen pat) eqn:E2; destruct (zlen pat <=? 8) eqn:E3;
    cbn [andb]; cbv beta iota.
  all: try (destruct ((n + 21 - 1) ÷ 21 =? zlen data); cbv beta iota).
  all: lzd_scoped; repeat lzd_pop.
  1: { (* 3-bit data recognised by the palette length *)
    stepd. nums. stepd. nums.
    destruct (bs_new 3 n (Some data)); relz; reflexivity. }
  all: stepd; nums.
  all: destruct (Z.eqb_spec n0 0) as [->|H0]; nums; try (cbn in E1; discriminate E1).
  all: try (destruct (Z.eqb_spec n0 1) as [->|H1]; nums; try (cbn in E1; discriminate E1)).
  all: try (destruct (Z.eqb_spec n0 2) as [->|H2]; nums; try (cbn in E1; discriminate E1)).
  all: try (destruct (Z.eqb_spec n0 3) as [->|H3]; nums; try (cbn in E1; discriminate E1)).
  all: try solve [stepd; nums; unfold cfg_bits, in_range; cbn [ckind gbits]; nums;
                  match goal with |- context [bs_new ?b ?n ?d] => destruct (bs_new b n d) end; relz; reflexivity].
  all: try solve [
       change (Z.shiftl 1 3) with 8; destruct (8 <? zlen pat); cbv beta iota;
       [destruct (resolve_indirect n data pat gb); cbv beta iota|];
       relz; unfold cfg_bits, in_range; cbn [ckind gbits];
       try (destruct (Z.eqb_spec n0 0); [lia|]); destruct (Z.leb_spec 1 n0); destruct (Z.leb_spec n0 3); try lia; cbn [andb];
       try reflexivity;
       cbv beta iota; unfold cfg_bits, in_range; cbn [ckind gbits];
       try (destruct (Z.eqb_spec n0 0); [lia|]); try (destruct (Z.leb_spec 1 n0)); try (destruct (Z.leb_spec n0 3)); try lia; cbn [andb];
       match goal with |- context [bs_new ?b ?n ?d] => destruct (bs_new b n d) end; relz; reflexivity ].
  all: destruct pat as [|v0 pt].
  all: try solve [change (zlen (@nil Z)) with 0; nums; relz; reflexivity].
  all: assert (Hz : (0 <? zlen (v0 :: pt)) = true) by (unfold zlen; cbn [List.length]; lia); rewrite Hz;
       cbn [Z.to_nat nth_error]; cbv beta iota; relz; unfold cfg_bits, in_range; cbn [ckind gbits]; nums;
       match goal with |- context [bs_new ?b ?n ?d] => destruct (bs_new b n d) end; relz; reflexivity.
Qed.

(* ---------- NewStatesPaletteContainerWithData ---------- *)
Lemma exec_switch setf f e tag cases :
  exec setf (S f) e (SSwitch [tag] cases) =
  match eval setf (S f) e tag with
  | EV e1 (VZ t) => pick_case (scoped_exec (exec setf f) e1) t cases None
  | EV _ _ => SStuck | EP e1 w => SP e1 w | EStuck => SStuck
  end.
Proof. reflexivity. Qed.

Lemma zlist_eqb_refl l : zlist_eqb l l = true.
Proof. induction l as [|x t IH]; cbn; [reflexivity|]. rewrite Z.eqb_refl. exact IH. Qed.

(* the environment inside the hash branch, after `ids := make(map[BlocksState]int)` *)
Definition hash_env (acc : list Z) (xn xp xpat xdata xlen : val) (gs gb : Z) : env :=
  ("ids", VIds acc) :: ("n", xn) :: ("p", xp) :: ("pat", xpat) :: ("data", xdata) :: ("length", xlen) :: ("", VNil)
  :: cfg_env gs gb.

Definition ids_body : list gstmt := [SAssign [EIndex (EId "ids") (EId "v")] "=" [EId "i"]].

(* for i, v := range pat { ids[v] = i } builds the index of pat *)
Lemma ids_loop xn xp xpat xdata xlen gs gb : forall l acc idx, idx = zlen acc ->
  range_loop (fun e' => scoped_exec (exec no_set 10) e' ids_body) "i" "v" (hash_env acc xn xp xpat xdata xlen gs gb) idx l
  = SN (hash_env (acc ++ l)%list xn xp xpat xdata xlen gs gb).
Proof.
  induction l as [|y t IH]; intros acc idx Hidx; cbn [range_loop].
  - rewrite app_nil_r. reflexivity.
  - unfold hash_env, cfg_env. lzd_scoped. subst idx. rewrite Z.eqb_refl. cbv beta iota. lzd_pop.
    change (hash_env (acc ++ [y])%list xn xp xpat xdata xlen gs gb) with (hash_env (acc ++ [y])%list xn xp xpat xdata xlen gs gb).
    fold (cfg_env gs gb). fold (hash_env (acc ++ [y])%list xn xp xpat xdata xlen gs gb).
    rewrite (IH (acc ++ [y])%list (zlen acc + 1)).
    + rewrite <- app_assoc. reflexivity.
    + unfold zlen. rewrite app_length. cbn [List.length]. lia.
Qed.

Lemma tie_states_with_data gs gb n data pat capp :
  new_result (run_g (cfg_env gs gb) no_set exp_NewStatesPaletteContainerWithData VNil [VZ n; VData data; VSlice pat capp])
  = Some (pc_with_data (mkCfg KStates gs) n data pat).
Proof.
  unfold run_g, exec_body, run_fuel, cfg_env.
  cbn [g_recv g_params g_body exp_NewStatesPaletteContainerWithData bind_all map fst].
  unfold pc_with_data, infer_bits. cbn [ckind gbits].
  stepd. stepd.
  destruct (calc_bits n (zlen data)) as [n0|]; cbv beta iota; [|reflexivity].
  rewrite seq_cons, exec_switch. evd. cbn [pick_case int_lits existsb].
  destruct (Z.eqb_spec n0 0) as [->|H0]; cbn [orb]; cbv beta iota.
  { (* single value *)
    destruct pat as [|v0 pt].
    - lzd_scoped. relz. reflexivity.
    - lzd_scoped.
      assert (Hz : (0 <? zlen (v0 :: pt)) = true) by (unfold zlen; cbn [List.length]; lia). rewrite ?Hz.
      cbn [Z.to_nat nth_error]. cbv beta iota. relz. unfold cfg_bits, in_range; cbn [ckind gbits]; nums.
      match goal with |- context [bs_new ?b ?n ?d] => destruct (bs_new b n d) end; relz; reflexivity. }
  assert (LIN : forall k, k = 1 \/ k = 2 \/ k = 3 \/ k = 4 -> n0 = k -> True) by auto.
  destruct (Z.eqb_spec n0 1) as [->|H1]; [|destruct (Z.eqb_spec n0 2) as [->|H2]; [|destruct (Z.eqb_spec n0 3) as [->|H3];
    [|destruct (Z.eqb_spec n0 4) as [->|H4]]]]; cbn [orb]; cbv beta iota.
  1-4: (nums; lzd_scoped; repeat lzd_pop; cbv beta iota; stepd; nums; unfold cfg_bits, in_range; cbn [ckind gbits]; nums;
        match goal with |- context [bs_new ?b ?n ?d] => destruct (bs_new b n d) end; relz; reflexivity).
  destruct (Z.eqb_spec n0 5) as [->|H5]; [|destruct (Z.eqb_spec n0 6) as [->|H6]; [|destruct (Z.eqb_spec n0 7) as [->|H7];
    [|destruct (Z.eqb_spec n0 8) as [->|H8]]]]; cbn [orb]; cbv beta iota.
  1-4: (nums; rewrite scoped_unfold; stepd; stepd; rewrite seq_cons, exec_range; evd;
        match goal with |- context [range_loop _ _ _ (("ids", VIds []) :: ("n", ?xn) :: ("p", ?xp) :: ("pat", ?xpat) :: _) 0 ?l] =>
          pose proof (ids_loop xn xp xpat (VData data) (VZ n) gs gb l [] 0 eq_refl) as HL end;
        unfold hash_env, cfg_env, ids_body in HL; rewrite HL; clear HL; cbn [app]; cbv beta iota;
        stepd; rewrite zlist_eqb_refl; relz; unfold cfg_bits, in_range; cbn [ckind gbits]; nums;
        match goal with |- context [bs_new ?b ?n ?d] => destruct (bs_new b n d) end; relz; reflexivity).
  (* direct ids; more than 256 palette entries are resolved first *)
  rewrite scoped_unfold. stepd. stepd.
  change (Z.shiftl 1 8) with 256. cbn [wide_limit].
  assert (R14 : in_range 1 4 n0 = false) by (unfold in_range; lia).
  assert (R58 : in_range 5 8 n0 = false) by (unfold in_range; lia).
  assert (E0 : (n0 =? 0) = false) by lia.
  rewrite ?R14, ?R58.
  destruct (256 <? zlen pat); cbv beta iota.
  1: destruct (resolve_indirect n data pat gs); cbv beta iota.
  all: relz; unfold cfg_bits; cbn [ckind gbits]; rewrite ?E0, ?R14, ?R58; try reflexivity.
  all: match goal with |- context [bs_new ?b ?n ?d] => destruct (bs_new b n d) end; relz; reflexivity.
Qed.
