(* C12: INTERPRETATION of the translated New{States,Biomes}PaletteContainerWithData, withCap and
   resolveIndirect: they ARE pc_with_data / with_cap / resolve_indirect of Model/C12.v for every length,
   every long array and every palette slice (any capacity). *)
From Coq Require Import List String Arith NArith ZArith Lia Bool.
From GoMC Require Import Base.Bytes Base.Dec Model.C05 Model.C11 Model.C12 Model.C12_syntax.
From GoMC Require Import Proofs.C12_expected Proofs.C12_skel Proofs.C12_skel_set.
Import ListNotations.
Local Open Scope string_scope.
Local Open Scope Z_scope.

Ltac lzd t := eval lazy -[Z.add Z.sub Z.mul Z.ltb Z.leb Z.eqb Z.opp Z.shiftl Z.of_nat Z.to_nat Z.max zlen
                          range_loop count_loop app nth_error bs_get bs_set bs_new blen calc_bits calc_size
                          cfg_bits cfg_create with_cap resolve_indirect zlist_eqb last_index_of] in t.
Ltac ev1d :=
  match goal with
  | |- context [exec ?s ?f ?e ?st] => let r := lzd (exec s f e st) in change (exec s f e st) with r
  end; cbv beta iota.
Ltac stepd := rewrite seq_cons; ev1d.

Ltac evd :=
  match goal with
  | |- context [eval ?s ?f ?e ?x] => let r := lzd (eval s f e x) in change (eval s f e x) with r
  end; cbv beta iota.
Ltac lzd_scoped :=
  match goal with |- context [scoped_exec ?st ?e ?b] => let t := lzd (scoped_exec st e b) in change (scoped_exec st e b) with t end;
  cbv beta iota.
Ltac lzd_pop :=
  match goal with |- context [pop_to ?n ?e] => let t := lzd (pop_to n e) in change (pop_to n e) with t end.

Ltac relz := cbv beta iota; match goal with |- ?l = _ => let t := lzd l in change l with t end; cbv beta iota.
Ltac nums := cbn [Z.eqb Z.leb Z.ltb Z.compare Pos.compare Pos.compare_cont Pos.eqb in_range andb orb negb cfg_bits ckind gbits wide_limit]; cbv beta iota.

Lemma calc_size_3 n : calc_size 3 n = Some (Z.quot (n + 21 - 1) 21).
Proof. reflexivity. Qed.

Lemma tie_biomes_with_data gs gb n data pat capp :
  new_result (run_g (cfg_env gs gb) no_set exp_NewBiomesPaletteContainerWithData VNil [VZ n; VData data; VSlice pat capp])
  = Some (pc_with_data (mkCfg KBiomes gb) n data pat).
Proof.
  unfold run_g, exec_body, run_fuel, cfg_env.
  cbn [g_recv g_params g_body exp_NewBiomesPaletteContainerWithData bind_all map fst].
  unfold pc_with_data, infer_bits. cbn [ckind gbits].
  stepd. stepd.
  destruct (calc_bits n (zlen data)) as [n0|]; cbv beta iota; [|reflexivity].
  rewrite seq_cons, exec_if, seq_nil. cbv beta iota. evd.
  rewrite calc_size_3. cbv beta iota. change (Z.shiftl 1 3) with 8.
  destruct (3 <? n0) eqn:E1; destruct (0 <? zlen pat) eqn:E2; destruct (zlen pat <=? 8) eqn:E3;
    cbn [andb]; cbv beta iota.
  all: try (destruct ((n + 21 - 1) ÷ 21 =? zlen data); cbv beta iota).
  all: lzd_scoped; repeat lzd_pop.
  1: { (* 3-bit data recognised by the palette length *)
    stepd. nums. stepd. nums.
    destruct (bs_new 3 n (Some data)); relz; reflexivity. }
  all: stepd; nums.
  all: destruct (Z.eqb_spec n0 0) as [->|H0]; nums; try (cbn in E1; discriminate E1).
  all: try (destruct (Z.eqb_spec n0 1) as [->|H1]; nums; try (cbn in E1; discriminate E1)).
  all: try (destruct (Z.eqb_spec n0 2) as [->|H2]; nums; try (cbn in E1; discriminate E1)).
  all: try (destruct (Z.eqb_spec n0 3) as [->|H3]; nums; try (cbn in E1; discriminate E1)).
  all: try solve [stepd; nums; unfold cfg_bits, in_range; cbn [ckind gbits]; nums;
                  match goal with |- context [bs_new ?b ?n ?d] => destruct (bs_new b n d) end; relz; reflexivity].
  all: try solve [
       change (Z.shiftl 1 3) with 8; destruct (8 <? zlen pat); cbv beta iota;
       [destruct (resolve_indirect n data pat gb); cbv beta iota|];
       relz; unfold cfg_bits, in_range; cbn [ckind gbits];
       try (destruct (Z.eqb_spec n0 0); [lia|]); destruct (Z.leb_spec 1 n0); destruct (Z.leb_spec n0 3); try lia; cbn [andb];
       try reflexivity;
       cbv beta iota; unfold cfg_bits, in_range; cbn [ckind gbits];
       try (destruct (Z.eqb_spec n0 0); [lia|]); try (destruct (Z.leb_spec 1 n0)); try (destruct (Z.leb_spec n0 3)); try lia; cbn [andb];
       match goal with |- context [bs_new ?b ?n ?d] => destruct (bs_new b n d) end; relz; reflexivity ].
  all: destruct pat as [|v0 pt].
  all: try solve [change (zlen (@nil Z)) with 0; nums; relz; reflexivity].
  all: assert (Hz : (0 <? zlen (v0 :: pt)) = true) by (unfold zlen; cbn [List.length]; lia); rewrite Hz;
       cbn [Z.to_nat nth_error]; cbv beta iota; relz; unfold cfg_bits, in_range; cbn [ckind gbits]; nums;
       match goal with |- context [bs_new ?b ?n ?d] => destruct (bs_new b n d) end; relz; reflexivity.
Qed.
