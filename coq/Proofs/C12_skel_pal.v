(* C12: INTERPRETATION of the translated linearPalette.ReadFrom against pal_read (flat input semantics):
   size read, negative test, the `> 1<<bits` test of 5ccdbc5, make or reslice of values, the value loop
   (by induction against read_vals), for every prior palette state and every input. *)
From Coq Require Import List String Arith NArith ZArith Lia Bool.
From GoMC Require Import Base.Bytes Base.Dec Model.C05 Model.C11 Model.C12 Model.C12_syntax.
From GoMC Require Import Proofs.C05 Proofs.C12_wire Proofs.C12_expected Proofs.C12_skel Proofs.C12_skel_read.
Import ListNotations.
Local Open Scope string_scope.
Local Open Scope Z_scope.

Ltac lzp t := eval lazy -[Z.add Z.sub Z.mul Z.ltb Z.leb Z.eqb Z.opp Z.shiftl Z.of_nat Z.to_nat Z.of_N Z.to_N N.add Z.max zlen
                          app repeat upd_nth firstn run_flat read32 range_loop count_loop seq map] in t.
Ltac lzp_scoped :=
  match goal with |- context [scoped_exec ?st ?e ?b] => let t := lzp (scoped_exec st e b) in change (scoped_exec st e b) with t end;
  cbv beta iota.
Ltac lzp_pop :=
  match goal with |- context [pop_to ?n ?e] => let t := lzp (pop_to n e) in change (pop_to n e) with t end.

Lemma upd_nth_app_len {A} (acc : list A) x y t : upd_nth (acc ++ x :: t)%list (List.length acc) y = ((acc ++ [y]) ++ t)%list.
Proof. induction acc as [|a r IH]; cbn; [reflexivity|]. f_equal. exact IH. Qed.

Definition lin_body : list gstmt :=
  [SIf [SDefine ["nn"; "err"] [(ECall (ESel (EId "value") "ReadFrom") [(EId "r")])]] (EBin "!=" (EId "err") (EId "nil")) [
     SReturn [(EBin "+" (EId "n") (EId "nn")); (EId "err")] ] [
     SAssign [(EId "n")] "+=" [(EId "nn")] ];
   SAssign [(EIndex (ESel (EId "l") "values") (EId "i"))] "=" [(ECall (EId "T") [(EId "value")])]].

Definition lin_env (lastv size : Z) (rest : list N) (vs : list Z) (cp pb nz : Z) : env :=
  [("value", VTyped "pk.VarInt" lastv); ("size", VTyped "pk.VarInt" size); ("r", VReader rest);
   ("l", VPal (PLinear vs cp pb)); ("n", VZ nz); ("err", VNil)].

(* the value loop against read_vals *)
Lemma lin_loop size cp pb n0 : forall m acc a nN rest lastv fuel, a = List.length acc ->
  run_flat (read_vals fuel (Z.of_nat m) (rev acc) nN) rest <> FFuel ->
  match run_flat (read_vals fuel (Z.of_nat m) (rev acc) nN) rest with
  | FOk (vs, mN) rest' =>
      exists lastv',
      count_loop (fun e' => scoped_exec (exec no_set 10) e' lin_body) "i"
        (lin_env lastv size rest (acc ++ repeat 0 m)%list cp pb (Z.of_N n0 + Z.of_N nN))
        (map (fun k => 0 + Z.of_nat k) (seq a m))
      = SN (lin_env lastv' size rest' vs cp pb (Z.of_N n0 + Z.of_N mN))
  | FErr e =>
      exists env' k,
      count_loop (fun e' => scoped_exec (exec no_set 10) e' lin_body) "i"
        (lin_env lastv size rest (acc ++ repeat 0 m)%list cp pb (Z.of_N n0 + Z.of_N nN))
        (map (fun k => 0 + Z.of_nat k) (seq a m))
      = SR env' [VZ k; VErr e]
  | _ => False
  end.
Proof.
  induction m as [|m IH]; intros acc a nN rest lastv fuel Ha Hnf.
  - destruct fuel; cbn [read_vals Z.of_nat Z.leb Z.compare run_flat seq map count_loop repeat];
      rewrite rev_involutive, app_nil_r; eexists; reflexivity.
  - destruct fuel as [|f]; [cbn [read_vals] in Hnf; rewrite Nat2Z.inj_succ in Hnf;
      destruct (Z.leb_spec (Z.succ (Z.of_nat m)) 0); [lia|]; exfalso; apply Hnf; reflexivity|].
    cbn [read_vals] in *. rewrite Nat2Z.inj_succ in *.
    destruct (Z.leb_spec (Z.succ (Z.of_nat m)) 0); [lia|].
    rewrite run_flat_bind in * by apply read32_robust.
    cbn [seq map count_loop]. unfold lin_env. lzp_scoped.
    pose proof (read32_ok_err rest) as Hok.
    destruct (run_flat read32 rest) as [[v m1] rest1|e|w|]; try contradiction; cbv beta iota.
    + replace (Z.succ (Z.of_nat m) - 1) with (Z.of_nat m) in * by lia.
      specialize (IH (acc ++ [v])%list (S a) (nN + m1)%N rest1 v f).
      rewrite rev_app_distr in IH. cbn [rev app] in IH.
      specialize (IH ltac:(rewrite app_length; cbn [List.length]; lia) Hnf).
      assert (Hb1 : (0 <=? 0 + Z.of_nat a) = true) by lia.
      assert (Hb2 : (0 + Z.of_nat a <? zlen (acc ++ repeat 0 (S m))%list) = true)
        by (unfold zlen; rewrite app_length, repeat_length; lia).
      rewrite Hb1, Hb2. cbv beta iota.
      replace (Z.to_nat (0 + Z.of_nat a)) with (List.length acc) by lia.
      cbn [repeat]. rewrite upd_nth_app_len.
      replace (Z.of_N n0 + Z.of_N nN + Z.of_N m1) with (Z.of_N n0 + Z.of_N (nN + m1)) by lia.
      match goal with |- context [count_loop ?f ?i ?e ?l] => let t := lzp e in change e with t end.
      unfold lin_env in IH.
      destruct (run_flat (read_vals f (Z.of_nat m) (v :: rev acc) (nN + m1)) rest1) as [[vs mN] rest'|e|w|];
        try contradiction.
      * destruct IH as [lv' E]. exists lv'. unfold lin_env. exact E.
      * destruct IH as (env' & k & E). exists env', k. exact E.
    + (* the source ended inside the palette *)
      eexists _, _. reflexivity.
Qed.

(* the loop as the interpreter runs it from the state after |acc| values *)
Definition lin_loop_run (lastv size : Z) (rest : list N) (acc : list Z) (m : nat) (cp pb nz : Z) (a : nat) : sres :=
  count_loop (fun e' => scoped_exec (exec no_set 10) e' lin_body) "i"
    (lin_env lastv size rest (acc ++ repeat 0 m)%list cp pb nz) (map (fun k => 0 + Z.of_nat k) (seq a m)).

(* lin_body is the body of the loop of the recorded linearPalette.ReadFrom *)
Lemma lin_body_is_recorded :
  match g_body exp_linearPalette_ReadFrom with
  | [_; _; _; _; _; SFor _ _ _ body; _] => body = lin_body
  | _ => False
  end.
Proof. reflexivity. Qed.
