(* C12: INTERPRETATION of the translated linearPalette.ReadFrom and hashPalette.ReadFrom (whole bodies) against
   the model's pal_read over the flat input semantics: size read, negative test, the `> 1<<bits` test of
   5ccdbc5, make or reslice of values, the value loop (by induction against read_vals), the final return -
   for every input and every prior palette state.
   hashPalette.ReadFrom does NOT clear its map: the receiver is run with the map spelled out (VHashRaw) and
   the map afterwards is the prior map overlaid with key -> last index among the values read.  Started from
   an empty map (what create returns, and PaletteContainer.ReadFrom always creates the palette it reads
   into) it is exactly the last-index view of the values read, i.e. the model's PHash. *)
From Coq Require Import List String Arith NArith ZArith Lia Bool.
From GoMC Require Import Base.Bytes Base.Dec Model.C05 Model.C11 Model.C12 Model.C12_syntax.
From GoMC Require Import Proofs.C05 Proofs.C12_wire Proofs.C12_expected Proofs.C12_skel Proofs.C12_skel_read Proofs.C12_skel_pal.
Import ListNotations.
Local Open Scope string_scope.
Local Open Scope Z_scope.

Ltac lzq t := eval lazy -[Z.add Z.sub Z.mul Z.ltb Z.leb Z.eqb Z.opp Z.shiftl Z.of_nat Z.to_nat Z.of_N Z.to_N N.add Z.max zlen
                          app repeat upd_nth firstn run_flat read32 range_loop count_loop seq map push_ids] in t.
Ltac lzq_scoped :=
  match goal with |- context [scoped_exec ?st ?e ?b] => let t := lzq (scoped_exec st e b) in change (scoped_exec st e b) with t end;
  cbv beta iota.
Ltac evq :=
  match goal with
  | |- context [exec ?s ?f ?e ?st] => let r := lzq (exec s f e st) in change (exec s f e st) with r
  end; cbv beta iota.
Ltac stepq := rewrite seq_cons; evq.

(* ---------- the map of a hashPalette ---------- *)
Lemma push_ids_snoc : forall l i v ids, push_ids i (l ++ [v])%list ids = (v, i + zlen l) :: push_ids i l ids.
Proof.
  induction l as [|x t IH]; intros i v ids.
  - cbn [app push_ids]. unfold zlen. cbn [List.length Z.of_nat]. rewrite Z.add_0_r. reflexivity.
  - cbn [app push_ids]. rewrite IH. unfold zlen. cbn [List.length]. rewrite Nat2Z.inj_succ.
    replace (i + 1 + Z.of_nat (List.length t)) with (i + Z.succ (Z.of_nat (List.length t))) by lia. reflexivity.
Qed.

(* the prior map overlaid with key -> last index *)
Lemma raw_lookup_push k : forall vs i ids,
  raw_lookup k (push_ids i vs ids) = match last_index_of k vs i with Some j => Some j | None => raw_lookup k ids end.
Proof.
  induction vs as [|v t IH]; intros i ids; [reflexivity|].
  cbn [push_ids last_index_of]. rewrite IH.
  destruct (last_index_of k t (i + 1)); [reflexivity|]. cbn [raw_lookup].
  destruct (v =? k); reflexivity.
Qed.
(* from the empty map: exactly the model's view *)
Lemma raw_lookup_fresh k vs : raw_lookup k (push_ids 0 vs []) = last_index_of k vs 0.
Proof. rewrite raw_lookup_push. destruct (last_index_of k vs 0); reflexivity. Qed.

(* ---------- linearPalette.ReadFrom: the value loop from any slice contents ---------- *)
Lemma lin_loop2 size cp pb n0 : forall m acc tl a nN rest lastv fuel, a = List.length acc -> List.length tl = m ->
  run_flat (read_vals fuel (Z.of_nat m) (rev acc) nN) rest <> FFuel ->
  match run_flat (read_vals fuel (Z.of_nat m) (rev acc) nN) rest with
  | FOk (vs, mN) rest' =>
      exists lastv',
      count_loop (fun e' => scoped_exec (exec no_set 11) e' lin_body) "i"
        (lin_env lastv size rest (acc ++ tl)%list cp pb (Z.of_N n0 + Z.of_N nN))
        (map (fun k => 0 + Z.of_nat k) (seq a m))
      = SN (lin_env lastv' size rest' vs cp pb (Z.of_N n0 + Z.of_N mN))
  | FErr e =>
      exists env' k,
      count_loop (fun e' => scoped_exec (exec no_set 11) e' lin_body) "i"
        (lin_env lastv size rest (acc ++ tl)%list cp pb (Z.of_N n0 + Z.of_N nN))
        (map (fun k => 0 + Z.of_nat k) (seq a m))
      = SR env' [VZ k; VErr e]
  | _ => False
  end.
Proof.
  induction m as [|m IH]; intros acc tl a nN rest lastv fuel Ha Htl Hnf.
  - destruct tl; [|discriminate].
    destruct fuel; cbn [read_vals Z.of_nat Z.leb Z.compare run_flat seq map count_loop];
      rewrite rev_involutive, app_nil_r; eexists; reflexivity.
  - destruct tl as [|x tl]; [discriminate|]. injection Htl as Htl.
    destruct fuel as [|f]; [cbn [read_vals] in Hnf; rewrite Nat2Z.inj_succ in Hnf;
      destruct (Z.leb_spec (Z.succ (Z.of_nat m)) 0); [lia|]; exfalso; apply Hnf; reflexivity|].
    cbn [read_vals] in *. rewrite Nat2Z.inj_succ in *.
    destruct (Z.leb_spec (Z.succ (Z.of_nat m)) 0); [lia|].
    rewrite run_flat_bind in * by apply read32_robust.
    cbn [seq map count_loop]. unfold lin_env. lzq_scoped.
    pose proof (read32_ok_err rest) as Hok.
    destruct (run_flat read32 rest) as [[v m1] rest1|e|w|]; try contradiction; cbv beta iota.
    + replace (Z.succ (Z.of_nat m) - 1) with (Z.of_nat m) in * by lia.
      specialize (IH (acc ++ [v])%list tl (S a) (nN + m1)%N rest1 v f).
      rewrite rev_app_distr in IH. cbn [rev app] in IH.
      specialize (IH ltac:(rewrite app_length; cbn [List.length]; lia) Htl Hnf).
      assert (Hb1 : (0 <=? 0 + Z.of_nat a) = true) by lia.
      assert (Hb2 : (0 + Z.of_nat a <? zlen (acc ++ x :: tl)%list) = true)
        by (unfold zlen; rewrite app_length; cbn [List.length]; lia).
      rewrite Hb1, Hb2. cbv beta iota.
      replace (Z.to_nat (0 + Z.of_nat a)) with (List.length acc) by lia.
      rewrite upd_nth_app_len.
      replace (Z.of_N n0 + Z.of_N nN + Z.of_N m1) with (Z.of_N n0 + Z.of_N (nN + m1)) by lia.
      match goal with |- context [count_loop ?f ?i ?e ?l] => let t := lzq e in change e with t end.
      unfold lin_env in IH.
      destruct (run_flat (read_vals f (Z.of_nat m) (v :: rev acc) (nN + m1)) rest1) as [[vs mN] rest'|e|w|];
        try contradiction.
      * destruct IH as [lv' E]. exists lv'. unfold lin_env. exact E.
      * destruct IH as (env' & k & E). exists env', k. exact E.
    + eexists _, _. reflexivity.
Qed.

(* ---------- hashPalette.ReadFrom: the same loop, and the map ---------- *)
Definition hash_body : list gstmt :=
  [SIf [SDefine ["nn"; "err"] [(ECall (ESel (EId "value") "ReadFrom") [(EId "r")])]] (EBin "!=" (EId "err") (EId "nil")) [
     SReturn [(EBin "+" (EId "n") (EId "nn")); (EId "err")] ] [
     SAssign [(EId "n")] "+=" [(EId "nn")] ];
   SAssign [(EIndex (ESel (EId "h") "values") (EId "i"))] "=" [(ECall (EId "T") [(EId "value")])];
   SAssign [(EIndex (ESel (EId "h") "ids") (ECall (EId "T") [(EId "value")]))] "=" [(EId "i")]].

Lemma hash_body_is_recorded :
  match g_body exp_hashPalette_ReadFrom with
  | [_; _; _; _; _; SFor _ _ _ body; _] => body = hash_body
  | _ => False
  end.
Proof. reflexivity. Qed.

Definition hash_env (lastv size : Z) (rest : list N) (ids : list (Z * Z)) (vs : list Z) (cp pb nz : Z) : env :=
  [("value", VTyped "pk.VarInt" lastv); ("size", VTyped "pk.VarInt" size); ("r", VReader rest);
   ("h", VHashRaw ids vs cp pb); ("n", VZ nz); ("err", VNil)].

Lemma hash_loop2 size cp pb n0 ids0 : forall m acc tl a nN rest lastv fuel, a = List.length acc -> List.length tl = m ->
  run_flat (read_vals fuel (Z.of_nat m) (rev acc) nN) rest <> FFuel ->
  match run_flat (read_vals fuel (Z.of_nat m) (rev acc) nN) rest with
  | FOk (vs, mN) rest' =>
      exists lastv',
      count_loop (fun e' => scoped_exec (exec no_set 11) e' hash_body) "i"
        (hash_env lastv size rest (push_ids 0 acc ids0) (acc ++ tl)%list cp pb (Z.of_N n0 + Z.of_N nN))
        (map (fun k => 0 + Z.of_nat k) (seq a m))
      = SN (hash_env lastv' size rest' (push_ids 0 vs ids0) vs cp pb (Z.of_N n0 + Z.of_N mN))
  | FErr e =>
      exists env' k,
      count_loop (fun e' => scoped_exec (exec no_set 11) e' hash_body) "i"
        (hash_env lastv size rest (push_ids 0 acc ids0) (acc ++ tl)%list cp pb (Z.of_N n0 + Z.of_N nN))
        (map (fun k => 0 + Z.of_nat k) (seq a m))
      = SR env' [VZ k; VErr e]
  | _ => False
  end.
Proof.
  induction m as [|m IH]; intros acc tl a nN rest lastv fuel Ha Htl Hnf.
  - destruct tl; [|discriminate].
    destruct fuel; cbn [read_vals Z.of_nat Z.leb Z.compare run_flat seq map count_loop];
      rewrite rev_involutive, app_nil_r; eexists; reflexivity.
  - destruct tl as [|x tl]; [discriminate|]. injection Htl as Htl.
    destruct fuel as [|f]; [cbn [read_vals] in Hnf; rewrite Nat2Z.inj_succ in Hnf;
      destruct (Z.leb_spec (Z.succ (Z.of_nat m)) 0); [lia|]; exfalso; apply Hnf; reflexivity|].
    cbn [read_vals] in *. rewrite Nat2Z.inj_succ in *.
    destruct (Z.leb_spec (Z.succ (Z.of_nat m)) 0); [lia|].
    rewrite run_flat_bind in * by apply read32_robust.
    cbn [seq map count_loop]. unfold hash_env. lzq_scoped.
    pose proof (read32_ok_err rest) as Hok.
    destruct (run_flat read32 rest) as [[v m1] rest1|e|w|]; try contradiction; cbv beta iota.
    + replace (Z.succ (Z.of_nat m) - 1) with (Z.of_nat m) in * by lia.
      specialize (IH (acc ++ [v])%list tl (S a) (nN + m1)%N rest1 v f).
      rewrite rev_app_distr in IH. cbn [rev app] in IH.
      specialize (IH ltac:(rewrite app_length; cbn [List.length]; lia) Htl Hnf).
      assert (Hb1 : (0 <=? 0 + Z.of_nat a) = true) by lia.
      assert (Hb2 : (0 + Z.of_nat a <? zlen (acc ++ x :: tl)%list) = true)
        by (unfold zlen; rewrite app_length; cbn [List.length]; lia).
      rewrite Hb1, Hb2. cbv beta iota.
      replace (Z.to_nat (0 + Z.of_nat a)) with (List.length acc) by lia.
      rewrite upd_nth_app_len.
      replace (Z.of_N n0 + Z.of_N nN + Z.of_N m1) with (Z.of_N n0 + Z.of_N (nN + m1)) by lia.
      replace (0 + Z.of_nat a) with (0 + zlen acc) by (unfold zlen; lia).
      rewrite <- push_ids_snoc.
      match goal with |- context [count_loop ?f ?i ?e ?l] => let t := lzq e in change e with t end.
      unfold hash_env in IH.
      destruct (run_flat (read_vals f (Z.of_nat m) (v :: rev acc) (nN + m1)) rest1) as [[vs mN] rest'|e|w|];
        try contradiction.
      * destruct IH as [lv' E]. exists lv'. unfold hash_env. exact E.
      * destruct IH as (env' & k & E). exists env', k. exact E.
    + eexists _, _. reflexivity.
Qed.

(* ---------- the whole bodies ---------- *)
Lemma shiftl1_pow2 pb : Z.shiftl 1 pb = 2 ^ pb.
Proof.
  destruct (Z.leb_spec 0 pb) as [H|H].
  - rewrite Z.shiftl_mul_pow2 by exact H. lia.
  - rewrite Z.shiftl_div_pow2 by lia. rewrite (Z.pow_neg_r 2 pb) by lia.
    apply Z.div_small. split; [lia|]. apply (Z.pow_gt_1 2 (- pb)); lia.
Qed.

Lemma reslice_len (l : list Z) h : List.length (firstn h l ++ repeat 0 (h - List.length l))%list = h.
Proof. rewrite app_length, firstn_length, repeat_length. lia. Qed.

Lemma exec_for_size setf f e a body :
  exec setf (S f) e (SFor [SDefine ["i"] [a]] [EBin "<" (EId "i") (ECall (EId "int") [EId "size"])] [SIncDec (EId "i") true] body) =
  if negb (existsb (stmt_assigns 4 "size") body) then
    match eval setf (S f) e a with
    | EV e1 (VZ lo) =>
        match eval setf (S f) e1 (EId "size") with
        | EV e2 vh =>
            match as_int vh with
            | Some hi => count_loop (fun e' => scoped_exec (exec setf f) e' body) "i" e2
                           (map (fun k => lo + Z.of_nat k) (seq 0 (Z.to_nat (hi - lo))))
            | None => SStuck
            end
        | EP e2 w => SP e2 w | EStuck => SStuck
        end
    | EV _ _ => SStuck | EP e1 w => SP e1 w | EStuck => SStuck
    end
  else SStuck.
Proof. reflexivity. Qed.

Ltac evq2 :=
  match goal with
  | |- context [eval ?s ?f ?e ?x] => let r := lzq (eval s f e x) in change (eval s f e x) with r
  end; cbv beta iota.
Ltac for_size :=
  rewrite seq_cons, exec_for_size;
  match goal with |- context [existsb ?f ?b] => let t := eval lazy in (existsb f b) in change (existsb f b) with t end;
  cbn [negb]; cbv beta iota; evq2; evq2; cbn [as_int]; cbv beta iota.

Lemma lin_finish fuel size cp pb n1 s1 L : 0 <= size -> List.length L = Z.to_nat size ->
  run_flat (read_vals fuel size [] 0) s1 <> FFuel ->
  read_result "l"
    match count_loop (fun e' => scoped_exec (exec no_set 11) e' lin_body) "i"
            (lin_env 0 size s1 L cp pb (Z.of_N n1)) (map (fun k => 0 + Z.of_nat k) (seq 0 (Z.to_nat (size - 0)))) with
    | SN e1 => seq_exec (exec no_set 12) e1 [SReturn []]
    | SR e0 vs => SR e0 vs
    | SP e0 w => SP e0 w
    | SStuck => SStuck
    end
  = Some (map_fres VPal
       match run_flat (read_vals fuel size [] 0) s1 with
       | FOk a r => run_flat (let '(vs, m) := a in Ret (PLinear vs cp pb, (n1 + m)%N)) r
       | FErr e => FErr e
       | FPanic w => FPanic w
       | FFuel => FFuel
       end).
Proof.
  intros Hpos HL Hnf.
  pose proof (lin_loop2 size cp pb n1 (Z.to_nat size) [] L 0%nat 0%N s1 0 fuel eq_refl HL) as H.
  cbn [rev app] in H. rewrite Z2Nat.id in H by exact Hpos. specialize (H Hnf).
  change (Z.of_N 0) with 0 in H. rewrite Z.add_0_r in H. rewrite Z.sub_0_r.
  destruct (run_flat (read_vals fuel size [] 0) s1) as [[vs mN] rest'|e|w|]; try contradiction.
  - destruct H as [lv' ->]. unfold lin_env.
    match goal with |- read_result ?r ?x = _ => let t := lzq (read_result r x) in change (read_result r x) with t end.
    cbn [run_flat map_fres]. f_equal. f_equal. f_equal. lia.
  - destruct H as (env' & k & ->). reflexivity.
Qed.

Lemma tie_linear_read vals cap pb s fuel : run_flat (pal_read fuel (PLinear vals cap pb)) s <> FFuel ->
  read_result "l" (run_g res_env no_set exp_linearPalette_ReadFrom (VPal (PLinear vals cap pb)) [VReader s])
  = Some (map_fres VPal (run_flat (pal_read fuel (PLinear vals cap pb)) s)).
Proof.
  intros Hnf. unfold run_g, exec_body, run_fuel, res_env.
  cbn [g_recv g_params g_body exp_linearPalette_ReadFrom bind_all map fst].
  cbn [pal_read] in *. unfold read_sized in *. rewrite run_flat_bind in * by apply read32_robust.
  stepq. stepq.
  pose proof (read32_ok_err s) as Hok.
  destruct (run_flat read32 s) as [[size n1] s1|e|w|]; try contradiction; cbv beta iota; [|reflexivity].
  stepq. destruct (Z.ltb_spec size 0) as [Hneg|Hpos]; cbv beta iota; [reflexivity|].
  stepq. rewrite shiftl1_pow2. destruct (Z.ltb_spec (2 ^ pb) size) as [Hbig|Hfit]; cbv beta iota; [reflexivity|].
  rewrite run_flat_bind in * by apply read_vals_robust.
  stepq. destruct (Z.ltb_spec cap size) as [Hmk|Hre]; cbv beta iota.
  - (* make([]T, size) *)
    destruct (Z.leb_spec 0 size) as [_|]; [|lia]. cbv beta iota.
    for_size.
    fold lin_body. rewrite Z.max_r by lia.
    apply lin_finish; [lia|apply repeat_length|].
    intros E. apply Hnf. rewrite E. reflexivity.
  - (* l.values[:size] *)
    destruct (Z.leb_spec 0 size) as [_|]; [|lia]. destruct (Z.leb_spec size cap) as [_|]; [|lia]. cbn [andb]. cbv beta iota.
    for_size.
    fold lin_body. rewrite Z.max_l by lia.
    apply lin_finish; [lia|apply reslice_len|].
    intros E. apply Hnf. rewrite E. reflexivity.
Qed.

(* ---------- hashPalette.ReadFrom ---------- *)
(* what the model's result looks like on the receiver with its map spelled out: the prior map ids0 stays
   underneath the bindings of the values read *)
Definition raw_over (ids0 : list (Z * Z)) (p : pal) : val :=
  match p with PHash vs cp pb => VHashRaw (push_ids 0 vs ids0) vs cp pb | _ => VPal p end.

Lemma hash_finish fuel size cp pb n1 s1 L ids0 : 0 <= size -> List.length L = Z.to_nat size ->
  run_flat (read_vals fuel size [] 0) s1 <> FFuel ->
  read_result "h"
    match count_loop (fun e' => scoped_exec (exec no_set 11) e' hash_body) "i"
            (hash_env 0 size s1 ids0 L cp pb (Z.of_N n1)) (map (fun k => 0 + Z.of_nat k) (seq 0 (Z.to_nat (size - 0)))) with
    | SN e1 => seq_exec (exec no_set 12) e1 [SReturn []]
    | SR e0 vs => SR e0 vs
    | SP e0 w => SP e0 w
    | SStuck => SStuck
    end
  = Some (map_fres (raw_over ids0)
       match run_flat (read_vals fuel size [] 0) s1 with
       | FOk a r => run_flat (let '(vs, m) := a in Ret (PHash vs cp pb, (n1 + m)%N)) r
       | FErr e => FErr e
       | FPanic w => FPanic w
       | FFuel => FFuel
       end).
Proof.
  intros Hpos HL Hnf.
  pose proof (hash_loop2 size cp pb n1 ids0 (Z.to_nat size) [] L 0%nat 0%N s1 0 fuel eq_refl HL) as H.
  cbn [rev app push_ids] in H. rewrite Z2Nat.id in H by exact Hpos. specialize (H Hnf).
  change (Z.of_N 0) with 0 in H. rewrite Z.add_0_r in H. rewrite Z.sub_0_r.
  destruct (run_flat (read_vals fuel size [] 0) s1) as [[vs mN] rest'|e|w|]; try contradiction.
  - destruct H as [lv' ->]. unfold hash_env.
    match goal with |- read_result ?r ?x = _ => let t := lzq (read_result r x) in change (read_result r x) with t end.
    cbn [run_flat map_fres raw_over]. f_equal. f_equal. f_equal. lia.
  - destruct H as (env' & k & ->). reflexivity.
Qed.

(* for every prior map, every prior slice and every input *)
Lemma tie_hash_read_raw ids0 vals cap pb s fuel : run_flat (pal_read fuel (PHash vals cap pb)) s <> FFuel ->
  read_result "h" (run_g res_env no_set exp_hashPalette_ReadFrom (VHashRaw ids0 vals cap pb) [VReader s])
  = Some (map_fres (raw_over ids0) (run_flat (pal_read fuel (PHash vals cap pb)) s)).
Proof.
  intros Hnf. unfold run_g, exec_body, run_fuel, res_env.
  cbn [g_recv g_params g_body exp_hashPalette_ReadFrom bind_all map fst].
  cbn [pal_read] in *. unfold read_sized in *. rewrite run_flat_bind in * by apply read32_robust.
  stepq. stepq.
  pose proof (read32_ok_err s) as Hok.
  destruct (run_flat read32 s) as [[size n1] s1|e|w|]; try contradiction; cbv beta iota; [|reflexivity].
  stepq. destruct (Z.ltb_spec size 0) as [Hneg|Hpos]; cbv beta iota; [reflexivity|].
  stepq. rewrite shiftl1_pow2. destruct (Z.ltb_spec (2 ^ pb) size) as [Hbig|Hfit]; cbv beta iota; [reflexivity|].
  rewrite run_flat_bind in * by apply read_vals_robust.
  stepq. destruct (Z.ltb_spec cap size) as [Hmk|Hre]; cbv beta iota.
  - destruct (Z.leb_spec 0 size) as [_|]; [|lia]. cbv beta iota.
    for_size.
    fold hash_body. rewrite Z.max_r by lia.
    apply hash_finish; [lia|apply repeat_length|].
    intros E. apply Hnf. rewrite E. reflexivity.
  - destruct (Z.leb_spec 0 size) as [_|]; [|lia]. destruct (Z.leb_spec size cap) as [_|]; [|lia]. cbn [andb]. cbv beta iota.
    for_size.
    fold hash_body. rewrite Z.max_l by lia.
    apply hash_finish; [lia|apply reslice_len|].
    intros E. apply Hnf. rewrite E. reflexivity.
Qed.

(* a hashPalette whose map is empty (as create returns it): the result IS the model's palette, the map
   being exactly the last-index view of the values read *)
Lemma tie_hash_read cap pb s fuel : run_flat (pal_read fuel (PHash [] cap pb)) s <> FFuel ->
  read_result "h" (run_g res_env no_set exp_hashPalette_ReadFrom (raw_of_pal (PHash [] cap pb)) [VReader s])
  = Some (map_fres raw_of_pal (run_flat (pal_read fuel (PHash [] cap pb)) s)).
Proof.
  intros Hnf. cbn [raw_of_pal push_ids]. rewrite (tie_hash_read_raw [] [] cap pb s fuel Hnf). reflexivity.
Qed.
