(* C12: INTERPRETATION of the translated PaletteContainer.ReadFrom and singleValuePalette.ReadFrom over the
   flat input semantics: the reader is the list of bytes not yet consumed; x.ReadFrom(r) of a pk.VarInt,
   a pk.UnsignedByte, the palette (interface) and the BitStorage are the model's read32, one byte,
   pal_read and bs_read run on it; data.Fix is bs_fix.  For every container and every input the
   translated body returns what run_flat (pc_read fuel c) returns. *)
From Coq Require Import List String Arith NArith ZArith Lia Bool.
From GoMC Require Import Base.Bytes Base.Dec Model.C05 Model.C11 Model.C12 Model.C12_syntax.
From GoMC Require Import Proofs.C05 Proofs.C11_wire Proofs.C12_wire Proofs.C12_expected Proofs.C12_skel.
Import ListNotations.
Local Open Scope string_scope.
Local Open Scope Z_scope.

Definition res_env : env := [("n", VZ 0); ("err", VNil)].

(* (n, err), the receiver and the reader when the call returned *)
Definition read_final (recv : string) (e : env) (n err : val) : option (fres (val * N)) :=
  match err, n with
  | VErr x, _ => Some (FErr x)
  | VNil, VZ k => match lookup e recv, lookup e "r" with
                  | Some o, Some (VReader rest) => Some (FOk (o, Z.to_N k) rest)
                  | _, _ => None
                  end
  | _, _ => None
  end.
Definition read_result (recv : string) (r : sres) : option (fres (val * N)) :=
  match r with
  | SR e [n; err] => read_final recv e n err
  | SR e [] => match lookup e "n", lookup e "err" with Some n, Some err => read_final recv e n err | _, _ => None end
  | SP _ w => Some (FPanic w)
  | _ => None
  end.
Definition map_fres {A B} (f : A -> B) (r : fres (A * N)) : fres (B * N) :=
  match r with FOk (a, n) rest => FOk (f a, n) rest | FErr e => FErr e | FPanic w => FPanic w | FFuel => FFuel end.

Ltac run_g_closed :=
  match goal with |- context [run_g ?g ?s ?f ?r ?a] => let t := lz (run_g g s f r a) in change (run_g g s f r a) with t end;
  cbv beta iota.

(* ---------- singleValuePalette.ReadFrom ---------- *)
Lemma read32_ok_err s : match run_flat read32 s with FOk _ _ | FErr _ => True | _ => False end.
Proof. pose proof (read32_cap s) as H. destruct (run_flat read32 s) as [[v n] r| | |]; auto. Qed.

Lemma tie_single_read v0 s :
  read_result "s" (run_g res_env no_set exp_singleValuePalette_ReadFrom (VPal (PSingle v0)) [VReader s])
  = Some (map_fres VPal (run_flat (pal_read 0 (PSingle v0)) s)).
Proof.
  run_g_closed. cbn [pal_read]. rewrite run_flat_bind by apply read32_robust.
  pose proof (read32_ok_err s) as H.
  destruct (run_flat read32 s) as [[v n] rest|e|w|]; cbv beta iota; try contradiction; [|reflexivity].
  cbn [read_result read_final lookup String.eqb Ascii.eqb Bool.eqb run_flat map_fres]. rewrite N2Z.id. reflexivity.
Qed.

(* ---------- PaletteContainer.ReadFrom ---------- *)
Definition cont_res (r : fres (val * N)) : option (fres (pc * N)) :=
  match r with
  | FOk (VCont c, n) rest => Some (FOk (c, n) rest)
  | FOk _ _ => None
  | FErr e => Some (FErr e) | FPanic w => Some (FPanic w) | FFuel => Some FFuel
  end.
Definition opt_bind {A B} (o : option A) (f : A -> option B) : option B := match o with Some a => f a | None => None end.

Lemma bs_read_no_fuel d s : match run_flat (bs_read d) s with FOk _ _ | FErr _ => True | _ => False end.
Proof. pose proof (read_total d s) as H. destruct (run_flat (bs_read d) s); auto. Qed.

Lemma bs_fix_outcome d b : match snd (bs_fix d b) with ORet _ => False | _ => True end.
Proof.
  unfold bs_fix. destruct (b =? 0); [exact I|]. destruct (b <? 0); [exact I|].
  destruct (calc_size b (blen d)); [|exact I]. destruct (_ =? _); exact I.
Qed.

(* the palette read is a parameter of the interpreter: any reader that agrees with the model's pal_read on the
   palette the configuration creates (wherever that one does not run out of fuel) *)
Theorem tie_readfrom_gen (sf : prims) fuel c s :
  (forall b s', run_flat (pal_read fuel (cfg_create (ccfg c) b)) s' <> FFuel ->
                p_pread sf (cfg_create (ccfg c) b) s' = run_flat (pal_read fuel (cfg_create (ccfg c) b)) s') ->
  run_flat (pc_read fuel c) s <> FFuel ->
  opt_bind (read_result "p" (run_g res_env sf exp_PaletteContainer_ReadFrom (VCont c) [VReader s]))
           cont_res
  = Some (run_flat (pc_read fuel c) s).
Proof.
  intros Hp Hnf. destruct c as [b cf p d]. cbn [ccfg] in Hp.
  unfold run_g, exec_body, run_fuel, res_env.
  cbn [g_recv g_params g_body exp_PaletteContainer_ReadFrom bind_all map fst].
  step. step.
  destruct s as [|b0 s]; cbv beta iota.
  - (* no byte for the width *)
    step. reflexivity.
  - step. step. step. step.
    unfold pc_read. cbn [run_flat ccfg cdata]. cbv zeta.
    rewrite run_flat_bind by apply pal_read_robust.
    set (bb := Z.of_N (b0 mod 256)).
    assert (Hnf1 : run_flat (pal_read fuel (cfg_create cf bb)) s <> FFuel).
    { intros E1. apply Hnf. unfold pc_read. cbn [run_flat ccfg cdata]. cbv zeta.
      rewrite run_flat_bind by apply pal_read_robust. fold bb. rewrite E1. reflexivity. }
    rewrite (Hp bb s Hnf1).
    destruct (run_flat (pal_read fuel (cfg_create cf bb)) s) as [[p1 n1] s1|e|w|] eqn:E1; cbv beta iota.
    + step. step. step.
      rewrite run_flat_bind by apply read_robust.
      pose proof (bs_read_no_fuel d s1) as Hd.
      destruct (run_flat (bs_read d) s1) as [[d1 n2] s2|e|w|]; cbv beta iota; try contradiction.
      * step. step. step.
        subst bb. pose proof (bs_fix_outcome d1 (cfg_bits cf (Z.of_N (b0 mod 256)))) as Hf.
        destruct (bs_fix d1 (cfg_bits cf (Z.of_N (b0 mod 256)))) as [d2 o]. cbn [fst snd] in *.
        destruct o; cbv beta iota; try contradiction; try reflexivity.
        match goal with |- ?l = _ => let t := lz l in change l with t end. cbn [app].
        match goal with |- ?l = _ => let t := lz l in change l with t end.
        cbn [run_flat]. f_equal. f_equal. f_equal. lia.
      * step. step. reflexivity.
    + step. step. reflexivity.
    + reflexivity.
    + exfalso. apply Hnf1. reflexivity.
Qed.

Theorem tie_readfrom fuel c s : run_flat (pc_read fuel c) s <> FFuel ->
  opt_bind (read_result "p" (run_g res_env (mkPrims (fun c _ _ => (c, OErr)) fuel) exp_PaletteContainer_ReadFrom (VCont c) [VReader s]))
           cont_res
  = Some (run_flat (pc_read fuel c) s).
Proof. intros H. apply tie_readfrom_gen; [reflexivity|exact H]. Qed.
