(* C12: INTERPRETATION of the translated PaletteContainer.Set (recorded copy: Proofs/C12_expected.v):
   run by the interpreter of Model/C12_syntax.v with the model's pc_set f for the recursive
   newContainer.Set, it IS pc_set (S f) - hit path, miss/upgrade path (new container of the next width,
   copy loop through the old container's Get, final lookup and store, *p = newContainer) and every
   panic exit - for every container, index, id and fuel. *)
From Coq Require Import List String Arith NArith ZArith Lia Bool.
From GoMC Require Import Base.Bytes Base.Dec Model.C05 Model.C11 Model.C12 Model.C12_syntax.
From GoMC Require Import Proofs.C12_expected Proofs.C12_skel.
Import ListNotations.
Local Open Scope string_scope.
Local Open Scope Z_scope.

(* ---------- outcomes the model can produce ---------- *)
Definition unit_or_panic (o : outcome) : Prop := o = OUnit \/ exists w, o = OPanic w.
Definition ret_or_panic (o : outcome) : Prop := (exists v, o = ORet v) \/ exists w, o = OPanic w.

Lemma pc_get_outcome c i : ret_or_panic (pc_get c i).
Proof.
  unfold pc_get. destruct (bs_get_outcome (cdata c) i) as [[k E]|[w E]]; rewrite E.
  - destruct (pal_value (cpal c) k); [left|right]; eexists; reflexivity.
  - right. eexists. reflexivity.
Qed.

Lemma copy_loop_outcome setf src : (forall d i v, unit_or_panic (snd (setf d i v))) ->
  forall idxs dst, unit_or_panic (snd (copy_loop setf src dst idxs)).
Proof.
  intros Hs. induction idxs as [|j t IH]; intros dst; cbn [copy_loop]; [left; reflexivity|].
  destruct (pc_get_outcome src j) as [[x E]|[w E]]; rewrite E.
  - pose proof (Hs dst j x) as H. destruct (setf dst j x) as [dst' o]. cbn [snd] in H.
    destruct H as [->|[w ->]]; [apply IH|right; eexists; reflexivity].
  - right. eexists. reflexivity.
Qed.

Lemma pc_set_outcome : forall f c i v, unit_or_panic (snd (pc_set f c i v)).
Proof.
  induction f as [|f IH]; intros c i v; cbn [pc_set]; [right; eexists; reflexivity|].
  destruct (pal_id (cpal c) v) as [[p' k] ok]. destruct ok.
  - pose proof (bs_set_outcome (cdata c) i k) as H. destruct (bs_set (cdata c) i k) as [d' o]. exact H.
  - destruct (bs_new (cfg_bits (ccfg c) k) (blen (cdata c)) None) as [d0|w]; [|right; eexists; reflexivity].
    pose proof (copy_loop_outcome (pc_set f) c IH (positions (blen (cdata c)))
                  (mkPC k (ccfg c) (cfg_create (ccfg c) k) d0)) as H.
    destruct (copy_loop (pc_set f) c _ _) as [nc o]. cbn [snd] in H. destruct H as [->|[w ->]]; [|right; eexists; reflexivity].
    destruct (pal_id (cpal nc) v) as [[p2 k2] ok2]. destruct ok2; [|right; eexists; reflexivity].
    pose proof (bs_set_outcome (cdata nc) i k2) as H. destruct (bs_set (cdata nc) i k2) as [d2 o2]. cbn [snd] in H.
    destruct H as [->|[w ->]]; [left|right; eexists]; reflexivity.
Qed.

(* a miss leaves the palette as it was *)
Lemma id_miss_same p v p' k : pal_id p v = (p', k, false) -> p' = p.
Proof.
  destruct p as [v0|vals cap pb|vals cap pb|]; cbn [pal_id]; intros H.
  - destruct (v0 =? v); inversion H; reflexivity.
  - destruct (index_of v vals 0); [discriminate|]. destruct (0 <? cap - zlen vals); inversion H; reflexivity.
  - destruct (last_index_of v vals 0); [discriminate|]. destruct (0 <? cap - zlen vals); inversion H; reflexivity.
  - discriminate.
Qed.

(* ---------- the container after the call, and how the call ended ---------- *)
Definition set_result (r : sres) : option (pc * outcome) :=
  match r with
  | SN e => match lookup e "p" with Some (VCont c) => Some (c, OUnit) | _ => None end
  | SR e [] => match lookup e "p" with Some (VCont c) => Some (c, OUnit) | _ => None end
  | SP e w => match lookup e "p" with Some (VCont c) => Some (c, OPanic w) | _ => None end
  | _ => None
  end.

(* ---------- the copy loop ---------- *)
Definition copy_body : list gstmt :=
  [SExpr (ECall (ESel (EId "newContainer") "Set") [(EId "i"); (ECall (ESel (EId "p") "Get") [(EId "i")])])].

(* the environment inside the upgrade branch *)
Definition up_env (nc : pc) (n k v i : Z) (c : pc) : env :=
  [("newContainer", VCont nc); ("length", VZ n); ("ok", VB false); ("vv", VZ k);
   ("v", VZ v); ("i", VZ i); ("p", VCont c)].

Ltac lz_scoped :=
  match goal with |- context [scoped_exec ?st ?e ?b] => let t := lz (scoped_exec st e b) in change (scoped_exec st e b) with t end;
  cbv beta iota.
Ltac lz_pop :=
  match goal with |- context [pop_to ?n ?e] => let t := lz (pop_to n e) in change (pop_to n e) with t end.

Lemma copy_loop_tie (sf : prims) f (Hsf : forall c i v, p_set sf c i v = pc_set f c i v) c n k v i : forall idxs nc,
  match copy_loop (pc_set f) c nc idxs with
  | (nc', OUnit) =>
      count_loop (fun e' => scoped_exec (exec sf 10) e' copy_body) "i" (up_env nc n k v i c) idxs
      = SN (up_env nc' n k v i c)
  | (_, OPanic w) =>
      exists e, count_loop (fun e' => scoped_exec (exec sf 10) e' copy_body) "i" (up_env nc n k v i c) idxs
                = SP e w /\ lookup e "p" = Some (VCont c)
  | _ => False
  end.
Proof.
  induction idxs as [|j t IH]; intros nc; cbn [copy_loop count_loop]; [reflexivity|].
  lz_scoped.
  destruct (pc_get_outcome c j) as [[x E]|[w E]]; rewrite E; cbv beta iota.
  - rewrite !(Hsf nc j x). pose proof (pc_set_outcome f nc j x) as Ho.
    destruct (pc_set f nc j x) as [nc1 o]. cbn [snd] in Ho. destruct Ho as [->|[w ->]]; cbv beta iota.
    + lz_pop. apply IH.
    + eexists. split; reflexivity.
  - eexists. split; reflexivity.
Qed.

Lemma exec_for_i setf f e a y g args :
  exec setf (S f) e (SFor [SDefine ["i"] [a]] [EBin "<" (EId "i") (EId y)] [SIncDec (EId "i") true] [SExpr (ECall g args)]) =
  match eval setf (S f) e a with
  | EV e1 (VZ lo) =>
      match eval setf (S f) e1 (EId y) with
      | EV e2 (VZ hi) =>
          count_loop (fun e' => scoped_exec (exec setf f) e' [SExpr (ECall g args)]) "i" e2
            (map (fun k => lo + Z.of_nat k) (seq 0 (Z.to_nat (hi - lo))))
      | EV _ _ => SStuck | EP e2 w => SP e2 w | EStuck => SStuck
      end
  | EV _ _ => SStuck | EP e1 w => SP e1 w | EStuck => SStuck
  end.
Proof. reflexivity. Qed.

Lemma positions_eq n : map (fun k => 0 + Z.of_nat k) (seq 0 (Z.to_nat (n - 0))) = positions n.
Proof. unfold positions. rewrite Z.sub_0_r. apply map_ext. intros k. apply Z.add_0_l. Qed.

Lemma scoped_unfold step e ss :
  scoped_exec step e ss = match seq_exec step e ss with SN e1 => SN (pop_to (List.length e) e1) | r => r end.
Proof. reflexivity. Qed.

Theorem tie_set (sf : prims) f (Hsf : forall c i v, p_set sf c i v = pc_set f c i v) c i v :
  set_result (run sf exp_PaletteContainer_Set (VCont c) [VZ i; VZ v]) = Some (pc_set (S f) c i v).
Proof.
  destruct c as [b cf p d].
  unfold run, exec_body, run_fuel. cbn [g_recv g_params g_body exp_PaletteContainer_Set bind_all map fst].
  rewrite seq_cons, exec_if. step. cbn [pc_set cpal cdata ccfg cbits].
  destruct (pal_id p v) as [[p' k] ok] eqn:Hid. cbn [fst snd]. rewrite seq_nil. cbv beta iota.
  ev1. destruct ok; cbv beta iota.
  - (* hit *)
    rewrite scoped_unfold. step.
    pose proof (bs_set_outcome d i k) as Ho. destruct (bs_set d i k) as [d' o]. cbn [fst snd] in *.
    destruct Ho as [->|[w ->]]; cbv beta iota.
    + rewrite seq_nil. cbv beta iota. repeat lz_pop. reflexivity.
    + reflexivity.
  - (* miss: upgrade *)
    apply id_miss_same in Hid as Hp. subst p'.
    rewrite scoped_unfold. step. step.
    destruct (bs_new (cfg_bits cf k) (blen d) None) as [d0|w]; cbv beta iota; [|reflexivity].
    rewrite seq_cons, exec_for_i. ev1. ev1. rewrite positions_eq.
    fold copy_body.
    change [("newContainer", VCont (mkPC k cf (cfg_create cf k) d0)); ("length", VZ (blen d)); ("ok", VB false);
            ("vv", VZ k); ("v", VZ v); ("i", VZ i); ("p", VCont (mkPC b cf p d))]
      with (up_env (mkPC k cf (cfg_create cf k) d0) (blen d) k v i (mkPC b cf p d)).
    pose proof (copy_loop_tie sf f Hsf (mkPC b cf p d) (blen d) k v i (positions (blen d)) (mkPC k cf (cfg_create cf k) d0)) as HL.
    pose proof (copy_loop_outcome (pc_set f) (mkPC b cf p d) (pc_set_outcome f) (positions (blen d))
                  (mkPC k cf (cfg_create cf k) d0)) as HO.
    destruct (copy_loop (pc_set f) (mkPC b cf p d) (mkPC k cf (cfg_create cf k) d0) (positions (blen d))) as [nc o].
    cbn [snd] in HO. destruct HO as [->|[w ->]].
    + rewrite HL. cbv beta iota. unfold up_env.
      destruct nc as [nb ncf np nd].
      rewrite seq_cons, exec_if. step. cbn [cpal cdata ccfg cbits].
      destruct (pal_id np v) as [[p2 k2] ok2]. cbn [fst snd]. rewrite seq_nil. cbv beta iota. ev1.
      destruct ok2; cbn [negb]; cbv beta iota.
      * rewrite scoped_unfold. step.
        pose proof (bs_set_outcome nd i k2) as Ho. destruct (bs_set nd i k2) as [d2 o2]. cbn [fst snd] in *.
        destruct Ho as [->|[w ->]]; cbv beta iota.
        -- rewrite seq_nil. cbv beta iota. repeat lz_pop. step. rewrite seq_nil. cbv beta iota. repeat lz_pop. reflexivity.
        -- reflexivity.
      * rewrite scoped_unfold. step. reflexivity.
    + destruct HL as (e & -> & He). cbv beta iota. cbn [set_result]. rewrite He. reflexivity.
Qed.

(* ---------- New{States,Biomes}PaletteContainer ---------- *)
Definition new_result (r : sres) : option (res pc) :=
  match r with SR _ [VCont c] => Some (ROk c) | SP _ w => Some (RPanic w) | _ => None end.

Lemma tie_new_states gs gb n dflt :
  new_result (run_g (cfg_env gs gb) no_set exp_NewStatesPaletteContainer VNil [VZ n; VZ dflt])
  = Some (pc_new (mkCfg KStates gs) n dflt).
Proof.
  match goal with |- context [run_g ?g ?s ?f ?r ?a] => let t := lz (run_g g s f r a) in change (run_g g s f r a) with t end.
  unfold pc_new. cbn [bs_new Z.eqb]. reflexivity.
Qed.
Lemma tie_new_biomes gs gb n dflt :
  new_result (run_g (cfg_env gs gb) no_set exp_NewBiomesPaletteContainer VNil [VZ n; VZ dflt])
  = Some (pc_new (mkCfg KBiomes gb) n dflt).
Proof.
  match goal with |- context [run_g ?g ?s ?f ?r ?a] => let t := lz (run_g g s f r a) in change (run_g g s f r a) with t end.
  unfold pc_new. cbn [bs_new Z.eqb]. reflexivity.
Qed.
