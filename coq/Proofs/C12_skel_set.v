(* C12: INTERPRETATION of the translated PaletteContainer.Set (recorded copy: Proofs/C12_expected.v):
   run by the interpreter of Model/C12_syntax.v with the model's pc_set f for the recursive
   newContainer.Set, it IS pc_set (S f) - hit path, miss/upgrade path (new container of the next width,
   copy loop through the old container's Get, final lookup and store, *p = newContainer) and every
   panic exit - for every container, index, id and fuel. *)
From Coq Require Import List String Arith NArith ZArith Lia Bool.
From GoMC Require Import Base.Bytes Base.Dec Model.C05 Model.C11 Model.C12 Model.C12_syntax.
From GoMC Require Import Proofs.C12_expected Proofs.C12_skel.
Import ListNotations.
Local Open Scope string_scope.
Local Open Scope Z_scope.

(* ---------- outcomes the model can produce ---------- *)
Definition unit_or_panic (o : outcome) : Prop := o = OUnit \/ exists w, o = OPanic w.
Definition ret_or_panic (o : outcome) : Prop := (exists v, o = ORet v) \/ exists w, o = OPanic w.

Lemma pc_get_outcome c i : ret_or_panic (pc_get c i).
Proof.
  unfold pc_get. destruct (bs_get_outcome (cdata c) i) as [[k E]|[w E]]; rewrite E.
  - destruct (pal_value (cpal c) k); [left|right]; eexists; reflexivity.
  - right. eexists. reflexivity.
Qed.

Lemma copy_loop_outcome setf src : (forall d i v, unit_or_panic (snd (setf d i v))) ->
  forall idxs dst, unit_or_panic (snd (copy_loop setf src dst idxs)).
Proof.
  intros Hs. induction idxs as [|j t IH]; intros dst; cbn [copy_loop]; [left; reflexivity|].
  destruct (pc_get_outcome src j) as [[x E]|[w E]]; rewrite E.
  - pose proof (Hs dst j x) as H. destruct (setf dst j x) as [dst' o]. cbn [snd] in H.
    destruct H as [->|[w ->]]; [apply IH|right; eexists; reflexivity].
  - right. eexists. reflexivity.
Qed.

Lemma pc_set_outcome : forall f c i v, unit_or_panic (snd (pc_set f c i v)).
Proof.
  induction f as [|f IH]; intros c i v; cbn [pc_set]; [right; eexists; reflexivity|].
  destruct (pal_id (cpal c) v) as [[p' k] ok]. destruct ok.
  - pose proof (bs_set_outcome (cdata c) i k) as H. destruct (bs_set (cdata c) i k) as [d' o]. exact H.
  - destruct (bs_new (cfg_bits (ccfg c) k) (blen (cdata c)) None) as [d0|w]; [|right; eexists; reflexivity].
    pose proof (copy_loop_outcome (pc_set f) c IH (positions (blen (cdata c)))
                  (mkPC k (ccfg c) (cfg_create (ccfg c) k) d0)) as H.
    destruct (copy_loop (pc_set f) c _ _) as [nc o]. cbn [snd] in H. destruct H as [->|[w ->]]; [|right; eexists; reflexivity].
    destruct (pal_id (cpal nc) v) as [[p2 k2] ok2]. destruct ok2; [|right; eexists; reflexivity].
    pose proof (bs_set_outcome (cdata nc) i k2) as H. destruct (bs_set (cdata nc) i k2) as [d2 o2]. cbn [snd] in H.
    destruct H as [->|[w ->]]; [left|right; eexists]; reflexivity.
Qed.

(* a miss leaves the palette as it was *)
Lemma id_miss_same p v p' k : pal_id p v = (p', k, false) -> p' = p.
Proof.
  destruct p as [v0|vals cap pb|vals cap pb|]; cbn [pal_id]; intros H.
  - destruct (v0 =? v); inversion H; reflexivity.
  - destruct (index_of v vals 0); [discriminate|]. destruct (0 <? cap - zlen vals); inversion H; reflexivity.
  - destruct (last_index_of v vals 0); [discriminate|]. destruct (0 <? cap - zlen vals); inversion H; reflexivity.
  - discriminate.
Qed.

(* ---------- the container after the call, and how the call ended ---------- *)
Definition set_result (r : sres) : option (pc * outcome) :=
  match r with
  | SN e => match lookup e "p" with Some (VCont c) => Some (c, OUnit) | _ => None end
  | SR e [] => match lookup e "p" with Some (VCont c) => Some (c, OUnit) | _ => None end
  | SP e w => match lookup e "p" with Some (VCont c) => Some (c, OPanic w) | _ => None end
  | _ => None
  end.

(* ---------- the copy loop ---------- *)
Definition copy_body : list gstmt :=
  [SExpr (ECall (ESel (EId "newContainer") "Set") [(EId "i"); (ECall (ESel (EId "p") "Get") [(EId "i")])])].

(* the environment inside the upgrade branch *)
Definition up_env (nc : pc) (n k v i : Z) (c : pc) : env :=
  [("newContainer", VCont nc); ("length", VZ n); ("ok", VB false); ("vv", VZ k);
   ("v", VZ v); ("i", VZ i); ("p", VCont c)].

Lemma copy_loop_tie f c n k v i : forall idxs nc,
  count_loop (fun e' => scoped_exec (exec (pc_set f) 9) e' copy_body) "i" (up_env nc n k v i c) idxs =
  match copy_loop (pc_set f) c nc idxs with
  | (nc', OUnit) => SN (up_env nc' n k v i c)
  | (nc', OPanic w) => SP (("i", VZ (last (firstn 1 (rev idxs)) 0)) :: up_env nc' n k v i c) w
  | _ => SStuck
  end.
Proof.
Abort.
