(* C12: INTERPRETATION of the translated palette WriteTo bodies (singleValuePalette, linearPalette,
   hashPalette, globalPalette) against pal_write: the writer is the list of bytes written so far (it
   accepts every Write), pk.VarInt(x).WriteTo(w) appends write32 x.  For every palette state and every
   prior writer content the translated body appends exactly pal_write p, returns n = its length and
   err = nil. *)
From Coq Require Import List String Arith NArith ZArith Lia Bool.
From GoMC Require Import Base.Bytes Base.Dec Model.C05 Model.C11 Model.C12 Model.C12_syntax.
From GoMC Require Import Gen.C12gen Proofs.C12_expected Proofs.C12_skel Proofs.C12_skel_read.
Import ListNotations.
Local Open Scope string_scope.
Local Open Scope Z_scope.

(* the writer content afterwards and n *)
Definition write_result (r : sres) : option (list N * Z) :=
  match r with
  | SR e [] => match lookup e "w", lookup e "n", lookup e "err" with
               | Some (VWriter w), Some (VZ n), Some VNil => Some (w, n)
               | _, _, _ => None
               end
  | SR e [VZ n; VNil] => match lookup e "w" with Some (VWriter w) => Some (w, n) | _ => None end
  (* `return x.WriteTo(w)`: the interpreter hands the call's (n, err) pair on as one tuple value *)
  | SR e [VTup [VZ n; VNil]] => match lookup e "w" with Some (VWriter w) => Some (w, n) | _ => None end
  | _ => None
  end.

Ltac lzw t := eval lazy -[Z.add Z.sub Z.mul Z.of_nat zlen app write32 range_loop List.concat map] in t.
Ltac lzw_scoped :=
  match goal with |- context [scoped_exec ?st ?e ?b] => let t := lzw (scoped_exec st e b) in change (scoped_exec st e b) with t end;
  cbv beta iota.
Ltac lzw_pop :=
  match goal with |- context [pop_to ?n ?e] => let t := lzw (pop_to n e) in change (pop_to n e) with t end.
Ltac lzw_ev1 :=
  match goal with
  | |- context [exec ?s ?f ?e ?st] => let r := lzw (exec s f e st) in change (exec s f e st) with r
  | |- context [eval ?s ?f ?e ?x] => let r := lzw (eval s f e x) in change (eval s f e x) with r
  end; cbv beta iota.
Ltac lzw_step := rewrite seq_cons; lzw_ev1.

Lemma zlen_app {A} (a b : list A) : zlen (a ++ b)%list = zlen a + zlen b.
Proof. unfold zlen. rewrite app_length. lia. Qed.

(* the body of the value loop of linearPalette.WriteTo / hashPalette.WriteTo *)
Definition wr_body : list gstmt :=
  [SIf [SDefine ["nn"; "err"] [(ECall (ESel (ECall (ESel (EId "pk") "VarInt") [(EId "v")]) "WriteTo") [(EId "w")])]] (EBin "!=" (EId "err") (EId "nil")) [
     SReturn [(EBin "+" (EId "n") (EId "nn")); (EId "err")] ] [
     SAssign [(EId "n")] "+=" [(EId "nn")] ]].

Lemma wr_body_is_recorded_linear :
  match g_body exp_linearPalette_WriteTo with
  | [_; SRange _ _ _ body; _] => body = wr_body
  | _ => False
  end.
Proof. reflexivity. Qed.
Lemma wr_body_is_recorded_hash :
  match g_body exp_hashPalette_WriteTo with
  | [_; SRange _ _ _ body; _] => body = wr_body
  | _ => False
  end.
Proof. reflexivity. Qed.

(* the value loop appends the images of the values in order and adds their lengths to n *)
Ltac wr_loop_proof :=
  let l := fresh "l" in let IH := fresh "IH" in
  intro l; induction l as [|y t IH]; intros w n idx;
  [ cbn [range_loop map List.concat]; rewrite app_nil_r; unfold zlen; cbn [List.length Z.of_nat];
    rewrite Z.add_0_r; reflexivity
  | cbn [range_loop]; lzw_scoped; lzw_pop; rewrite IH; cbn [map List.concat];
    rewrite zlen_app, app_assoc, Z.add_assoc; reflexivity ].

Lemma wr_loop_l X : forall l w n idx,
  range_loop (fun e' => scoped_exec (exec no_set 11) e' wr_body) "_" "v"
    [("w", VWriter w); ("l", X); ("n", VZ n); ("err", VNil)] idx l =
  SN [("w", VWriter (w ++ List.concat (map write32 l))%list); ("l", X);
      ("n", VZ (n + zlen (List.concat (map write32 l)))); ("err", VNil)].
Proof. wr_loop_proof. Qed.

Lemma wr_loop_h X : forall l w n idx,
  range_loop (fun e' => scoped_exec (exec no_set 11) e' wr_body) "_" "v"
    [("w", VWriter w); ("h", X); ("n", VZ n); ("err", VNil)] idx l =
  SN [("w", VWriter (w ++ List.concat (map write32 l))%list); ("h", X);
      ("n", VZ (n + zlen (List.concat (map write32 l)))); ("err", VNil)].
Proof. wr_loop_proof. Qed.

(* ---------- linearPalette.WriteTo ---------- *)
Lemma tie_linear_write vals cap pb w0 :
  write_result (run_g res_env no_set exp_linearPalette_WriteTo (VPal (PLinear vals cap pb)) [VWriter w0])
  = Some ((w0 ++ pal_write (PLinear vals cap pb))%list, zlen (pal_write (PLinear vals cap pb))).
Proof.
  unfold run_g, exec_body, run_fuel, res_env.
  cbn [g_recv g_params g_body exp_linearPalette_WriteTo bind_all map fst].
  lzw_step. rewrite seq_cons, exec_range. lzw_ev1. fold wr_body.
  rewrite wr_loop_l. lzw_step.
  cbn [write_result lookup String.eqb Ascii.eqb Bool.eqb pal_write].
  rewrite zlen_app, app_assoc. reflexivity.
Qed.

(* ---------- hashPalette.WriteTo ---------- *)
Lemma tie_hash_write vals cap pb w0 :
  write_result (run_g res_env no_set exp_hashPalette_WriteTo (VPal (PHash vals cap pb)) [VWriter w0])
  = Some ((w0 ++ pal_write (PHash vals cap pb))%list, zlen (pal_write (PHash vals cap pb))).
Proof.
  unfold run_g, exec_body, run_fuel, res_env.
  cbn [g_recv g_params g_body exp_hashPalette_WriteTo bind_all map fst].
  lzw_step. rewrite seq_cons, exec_range. lzw_ev1. fold wr_body.
  rewrite wr_loop_h. lzw_step.
  cbn [write_result lookup String.eqb Ascii.eqb Bool.eqb pal_write].
  rewrite zlen_app, app_assoc. reflexivity.
Qed.

(* ---------- singleValuePalette.WriteTo ---------- *)
Lemma tie_single_write v0 w0 :
  write_result (run_g res_env no_set exp_singleValuePalette_WriteTo (VPal (PSingle v0)) [VWriter w0])
  = Some ((w0 ++ pal_write (PSingle v0))%list, zlen (pal_write (PSingle v0))).
Proof.
  unfold run_g, exec_body, run_fuel, res_env.
  cbn [g_recv g_params g_body exp_singleValuePalette_WriteTo bind_all map fst].
  lzw_step. reflexivity.
Qed.

(* ---------- globalPalette.WriteTo: the writer is bound to "_", nothing is written ---------- *)
Lemma tie_global_write w0 :
  exists e, run_g res_env no_set exp_globalPalette_WriteTo (VPal PGlobal) [VWriter w0] = SR e [VZ 0; VNil].
Proof. eexists. reflexivity. Qed.

(* ---------- the generated terms, dispatched on the palette ---------- *)
Definition tr_pal_write (p : pal) (w0 : list N) : option (list N * Z) :=
  match p with
  | PSingle _ => write_result (run_g res_env no_set pal_singleValuePalette_WriteTo (VPal p) [VWriter w0])
  | PLinear _ _ _ => write_result (run_g res_env no_set pal_linearPalette_WriteTo (VPal p) [VWriter w0])
  | PHash _ _ _ => write_result (run_g res_env no_set pal_hashPalette_WriteTo (VPal p) [VWriter w0])
  | PGlobal => match run_g res_env no_set pal_globalPalette_WriteTo (VPal p) [VWriter w0] with
               | SR _ [VZ 0; VNil] => Some (w0, 0)
               | _ => None
               end
  end.

Theorem tr_pal_write_is_model p w0 :
  tr_pal_write p w0 = Some ((w0 ++ pal_write p)%list, zlen (pal_write p)).
Proof.
  destruct p as [v0|vals cap pb|vals cap pb|]; unfold tr_pal_write.
  - rewrite singleValuePalette_WriteTo_skel_ok. apply tie_single_write.
  - rewrite linearPalette_WriteTo_skel_ok. apply tie_linear_write.
  - rewrite hashPalette_WriteTo_skel_ok. apply tie_hash_write.
  - rewrite globalPalette_WriteTo_skel_ok. destruct (tie_global_write w0) as [e ->].
    cbn [pal_write]. rewrite app_nil_r. reflexivity.
Qed.
