(* C12: the image written by the model is the protocol's paletted container, as judged by the
   independent specification reader spec_container of Model/C12.v. *)
From Coq Require Import List Arith NArith ZArith Lia Bool ZifyN ZifyNat ZifyBool.
From GoMC Require Import Base.Bytes Base.Bits Base.Dec Gen.Consts Model.C05 Model.C11 Model.C12.
From GoMC Require Import Proofs.C05 Proofs.C11 Proofs.C11_laws Proofs.C11_wire Proofs.C12 Proofs.C12_wire.
Import ListNotations.
Open Scope Z_scope.
Ltac Zify.zify_post_hook ::= Z.to_euclidean_division_equations.

Lemma spec_longs_image d rest : Forall (fun l => (l < 2^64)%N) (data d) -> (lenN (data d) < 2^31)%N ->
  run_flat spec_longs (fst (bs_write d) ++ rest) = FOk (data d) rest.
Proof.
  intros Hd HL. unfold bs_write, spec_longs. cbn [fst snd].
  rewrite count32 by exact HL. rewrite <- app_assoc.
  rewrite run_flat_bind by apply read32_robust.
  rewrite read32_write32.
  2:{ unfold in_sw. change (Z.of_N 32 - 1)%Z with 31%Z. change (2^31)%N with 2147483648%N in HL.
      change (2^31)%Z with 2147483648%Z. lia. }
  cbv beta iota.
  destruct (Z.ltb_spec (Z.of_N (lenN (data d))) 0) as [L|L]; [lia|].
  rewrite N2Z.id. cbn [run_flat].
  rewrite <- image_len. rewrite lenN_app.
  destruct (N.leb_spec (lenN (concat (map (be 8) (data d)))) (lenN (concat (map (be 8) (data d))) + lenN rest)) as [L2|L2]; [|lia].
  rewrite takeN_exact, dropN_exact. cbn [run_flat]. rewrite longs_of_image by exact Hd. reflexivity.
Qed.

Lemma spec_longs_robust : robust spec_longs.
Proof.
  unfold spec_longs. apply robust_bind; [apply read32_robust|]. intros [cnt m].
  destruct (cnt <? 0); constructor. intros bs. constructor.
Qed.

Lemma spec_varints_robust : forall fuel cnt, robust (spec_varints fuel cnt).
Proof.
  induction fuel as [|f IH]; intros cnt; cbn [spec_varints]; destruct (cnt <=? 0).
  - constructor.
  - constructor.
  - constructor.
  - apply robust_bind; [apply read32_robust|]. intros [v m].
    apply robust_bind; [apply IH|]. intros t. constructor.
Qed.

Lemma spec_varints_image : forall vals fuel rest, Forall (in_sw 32) vals -> (length vals <= fuel)%nat ->
  run_flat (spec_varints fuel (zlen vals)) (concat (map write32 vals) ++ rest) = FOk vals rest.
Proof.
  induction vals as [|x t IH]; intros fuel rest Hsw Hf.
  - destruct fuel; reflexivity.
  - destruct fuel as [|f]; [cbn in Hf; lia|]. inversion Hsw as [|? ? Hx Ht]; subst.
    cbn [spec_varints]. pose proof (zlen_nonneg t).
    assert (Hz : zlen (x :: t) = zlen t + 1) by (unfold zlen; cbn [length]; lia).
    destruct (Z.leb_spec (zlen (x :: t)) 0); [lia|].
    cbn [map concat]. rewrite <- app_assoc.
    rewrite run_flat_bind by apply read32_robust. rewrite read32_write32 by exact Hx. cbv beta iota.
    replace (zlen (x :: t) - 1) with (zlen t) by lia.
    rewrite run_flat_bind by apply spec_varints_robust.
    rewrite IH by (auto; cbn in Hf; lia). reflexivity.
Qed.

(* indices that the palette resolves are resolved by the specification to the same values *)
Lemma resolve_all_vals vals cap pb (mk : list Z -> Z -> Z -> pal) idxs :
  (mk = PLinear \/ mk = PHash) ->
  Forall (fun k => exists v, pval (mk vals cap pb) k = Some v) idxs ->
  resolve_all vals idxs = Some (map (pvald (mk vals cap pb)) idxs).
Proof.
  intros Hmk. induction 1 as [|k t [v Hv] Ht IH]; [reflexivity|].
  cbn [resolve_all map]. rewrite IH.
  assert (E : resolve vals k = Some v /\ pvald (mk vals cap pb) k = v).
  { unfold pvald. rewrite Hv. split; [|reflexivity]. unfold resolve, pval in *.
    destruct Hmk as [-> | ->]; cbn [pal_value] in Hv;
      (destruct (_ && _); [|discriminate]); replace (Z.to_nat (Z.of_N k)) with (N.to_nat k) in Hv by lia; exact Hv. }
  destruct E as [-> ->]. reflexivity.
Qed.

Lemma valid_forall c : Inv c -> Forall (fun k => exists v, pval (cpal c) k = Some v) (didx (cdata c)).
Proof.
  intros [C V]. apply Forall_forall. intros k Hk. destruct (In_nth _ _ 0%N Hk) as (j & Hj & <-).
  rewrite didx_length in Hj. apply V. exact Hj.
Qed.

Lemma wf_spec_size d : wf d -> length (data d) = spec_size (wbits d) (Z.to_nat (blen d)).
Proof.
  intros W. pose proof (wf_size_of d W) as H. rewrite size_of_spec in H by apply W.
  unfold wbits. lia.
Qed.

Theorem conformance c rest fuel : Inv c -> (lenN (data (cdata c)) < 2^31)%N ->
  (length (pal_export (cpal c)) <= fuel)%nat ->
  run_flat (spec_container (ckind (ccfg c)) (Z.to_N (gbits (ccfg c))) (Z.to_nat (blen (cdata c))) fuel)
           (fst (pc_write c) ++ rest) = FOk (pabs c) rest.
Proof.
  intros I H31 Hf. pose proof (valid_forall c I) as VF. destruct I as [C V]. pose proof C as [Cc Cd Cp].
  pose proof (dwf_data _ Cd) as Hdat.
  unfold pc_write, spec_container. cbn [fst app run_flat].
  destruct c as [b [kd g] p d]. cbn [cbits ccfg cpal cdata ckind gbits] in *.
  unfold wfcfg in Cc. cbn [ckind gbits] in Cc.
  assert (SW : forall vals, Forall (inreg (mkCfg kd g)) vals -> Forall (in_sw 32) vals).
  { intros vals H. eapply Forall_impl; [|exact H]. intros a. apply inreg_sw. exact Cc. }
  assert (IND : forall (w : N) vals cap pb (mk : list Z -> Z -> Z -> pal), (mk = PLinear \/ mk = PHash) ->
            p = mk vals cap pb -> Z.of_N w = bits d -> (1 <= bits d <= 63) -> zlen vals < 2 ^ 31 ->
            Forall (inreg (mkCfg kd g)) vals ->
            run_flat ('(plen, _) <- read32 ;;
                      if plen <? 0 then Fail eSpec else
                      pal <- spec_varints fuel plen ;;
                      longs <- spec_longs ;;
                      if negb (length longs =? spec_size w (Z.to_nat (blen d)))%nat then Fail eSpec else
                      match resolve_all pal (unpack w (Z.to_nat (blen d)) longs) with
                      | Some a => Ret a
                      | None => Fail eSpec
                      end)
                     ((pal_write p ++ fst (bs_write d)) ++ rest) = FOk (pabs (mkPC b (mkCfg kd g) p d)) rest).
  { intros w vals cap pb mk Hmk -> Hw Hb Hlen Hr. cbn [pal_export] in Hf.
    assert (Hpw : pal_write (mk vals cap pb) = write32 (zlen vals) ++ concat (map write32 vals))
      by (destruct Hmk as [-> | ->]; reflexivity).
    assert (Hexp : (length vals <= fuel)%nat) by (destruct Hmk as [-> | ->]; exact Hf).
    rewrite Hpw. rewrite <- !app_assoc.
    rewrite run_flat_bind by apply read32_robust. pose proof (zlen_nonneg vals).
    rewrite read32_write32 by (unfold in_sw; change (Z.of_N 32 - 1) with 31; lia). cbv beta iota.
    destruct (Z.ltb_spec (zlen vals) 0); [lia|].
    rewrite run_flat_bind by apply spec_varints_robust.
    rewrite spec_varints_image by auto.
    rewrite run_flat_bind by apply spec_longs_robust.
    rewrite spec_longs_image by auto.
    destruct Cd as [(Hv0 & Hb0 & _)|W]; [lia|].
    assert (Ew : w = wbits d) by (unfold wbits; lia). subst w.
    rewrite (wf_spec_size d W), Nat.eqb_refl. cbn [negb].
    unfold pabs. cbn [cpal cdata]. unfold didx in *. cbn [cdata] in VF. rewrite (vpl_nz d W) in *.
    unfold Proofs.C11.abs in *.
    rewrite (resolve_all_vals vals cap pb mk _ Hmk VF). reflexivity. }
  destruct p as [v0|vals cap pb|vals cap pb|]; cbn [pal_wf] in Cp.
  - (* single *)
    destruct Cp as (-> & Hd0 & Hr). change (Z.to_N (0 mod 256)) with 0%N.
    assert (E : spec_layout kd (Z.to_N g) 0 = LSingle) by (destruct kd; reflexivity). rewrite E.
    cbn [pal_write]. rewrite <- app_assoc.
    rewrite run_flat_bind by apply read32_robust.
    rewrite read32_write32 by (eapply inreg_sw; eauto; exact Cc). cbv beta iota.
    rewrite run_flat_bind by apply spec_longs_robust.
    rewrite spec_longs_image by auto. cbn [run_flat].
    destruct Cd as [(Hv0 & _)|W]; [|pose proof (wf_b _ W); lia].
    unfold pabs, didx. cbn [cpal cdata]. rewrite Hv0. cbn [Z.eqb]. rewrite map_repeat'. reflexivity.
  - (* linear *)
    destruct Cp as (Hk & Hd & Hcap & Hr).
    assert (H8 : 2 ^ pb <= 2 ^ 8 /\ 0 <= pb).
    { destruct kd; cbn [ckind] in Hk; split; try lia; apply Z.pow_le_mono_r; lia. }
    change (2 ^ 8) with 256 in H8.
    destruct kd; cbn [ckind] in Hk.
    + destruct Hk as [Hb ->]. assert (Hb' : b = 1 \/ b = 2 \/ b = 3 \/ b = 4) by lia.
      destruct Hb' as [->|[->|[->| ->]]];
        (apply (IND 4%N vals cap 4 PLinear); auto; cbn in *; lia).
    + destruct Hk as [Hb ->]. assert (Hb' : b = 1 \/ b = 2 \/ b = 3) by lia.
      destruct Hb' as [->|[->| ->]].
      * apply (IND 1%N vals cap 1 PLinear); auto; cbn in *; lia.
      * apply (IND 2%N vals cap 2 PLinear); auto; cbn in *; lia.
      * apply (IND 3%N vals cap 3 PLinear); auto; cbn in *; lia.
  - (* hash *)
    destruct Cp as (Hs & Hb & -> & Hd & Hcap & Hr). cbn [ckind] in Hs. subst kd.
    assert (Hb' : b = 5 \/ b = 6 \/ b = 7 \/ b = 8) by lia.
    destruct Hb' as [->|[->|[->| ->]]].
    + apply (IND 5%N vals cap 5 PHash); auto; cbn in *; lia.
    + apply (IND 6%N vals cap 6 PHash); auto; cbn in *; lia.
    + apply (IND 7%N vals cap 7 PHash); auto; cbn in *; lia.
    + apply (IND 8%N vals cap 8 PHash); auto; cbn in *; lia.
  - (* direct *)
    destruct Cp as (Hk & Hb & Hd). cbn [gbits] in Hd.
    assert (E : spec_layout kd (Z.to_N g) (Z.to_N (b mod 256)) = LDirect (Z.to_N g)).
    { unfold spec_layout. destruct kd; cbn [ckind] in Hk.
      - destruct (N.eqb_spec (Z.to_N (b mod 256)) 0); [lia|].
        destruct (N.leb_spec (Z.to_N (b mod 256)) 4); [lia|].
        destruct (N.leb_spec (Z.to_N (b mod 256)) 8); [lia|]. reflexivity.
      - destruct (N.eqb_spec (Z.to_N (b mod 256)) 0); [lia|].
        destruct (N.leb_spec (Z.to_N (b mod 256)) 3); [lia|]. reflexivity. }
    rewrite E. cbn [pal_write app].
    rewrite run_flat_bind by apply spec_longs_robust.
    rewrite spec_longs_image by auto.
    destruct Cd as [(Hv0 & Hb0 & _)|W]; [destruct kd; lia|].
    assert (Ew : Z.to_N g = wbits d) by (unfold wbits; lia). rewrite Ew.
    rewrite (wf_spec_size d W), Nat.eqb_refl. cbn [negb run_flat].
    unfold pabs, didx. cbn [cpal cdata]. rewrite (vpl_nz d W). unfold Proofs.C11.abs.
    reflexivity.
Qed.
