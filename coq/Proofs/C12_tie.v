(* Tie lemmas (C12): statesCfg.bits and biomesCfg.bits, TRANSLATED from level/palette.go (Gen/Funcs.v: switch
   statements with case lists; the registry widths block.BitsPerBlock / biome.BitsPerBiome are parameters), are
   the model's cfg_bits for every logical width. *)
From Coq Require Import ZArith Lia Bool.
From GoMC Require Import Base.GoInt Gen.Funcs.
From GoMC Require Model.C12.
Local Open Scope Z_scope.

Lemma tie_statesCfg_bits b g :
  level_statesCfg_bits b g = C12.cfg_bits (C12.mkCfg C12.KStates g) b.
Proof.
  unfold level_statesCfg_bits, C12.cfg_bits, C12.in_range. cbn [C12.ckind C12.gbits].
  destruct (Z.eqb_spec b 0); [reflexivity|].
  destruct (Z.eqb_spec b 1), (Z.eqb_spec b 2), (Z.eqb_spec b 3), (Z.eqb_spec b 4);
  destruct (Z.eqb_spec b 5), (Z.eqb_spec b 6), (Z.eqb_spec b 7), (Z.eqb_spec b 8);
  destruct (Z.leb_spec 1 b), (Z.leb_spec b 4), (Z.leb_spec 5 b), (Z.leb_spec b 8); cbn [orb andb]; try reflexivity; lia.
Qed.

Lemma tie_biomesCfg_bits b g :
  level_biomesCfg_bits b g = C12.cfg_bits (C12.mkCfg C12.KBiomes g) b.
Proof.
  unfold level_biomesCfg_bits, C12.cfg_bits, C12.in_range. cbn [C12.ckind C12.gbits].
  destruct (Z.eqb_spec b 0); [reflexivity|].
  destruct (Z.eqb_spec b 1), (Z.eqb_spec b 2), (Z.eqb_spec b 3);
  destruct (Z.leb_spec 1 b), (Z.leb_spec b 3); cbn [orb andb]; try reflexivity; lia.
Qed.
