(* C12: the TRANSLATED container operations as functions - Set with the recursive newContainer.Set tied
   back to the translated Set itself, Get, the constructors - and the headline theorems over them. *)
From Coq Require Import List String Arith NArith ZArith Lia Bool.
From GoMC Require Import Base.Bytes Base.Dec Model.C05 Model.C11 Model.C12 Model.C12_syntax Gen.C12gen.
From GoMC Require Import Proofs.C11 Proofs.C12 Proofs.C12_wire Proofs.C12_expected Proofs.C12_skel Proofs.C12_skel_set Proofs.C12_skel_read.
Import ListNotations.
Local Open Scope Z_scope.

(* the translated Set, the recursive call being the translated Set with one unit of fuel less *)
Fixpoint tr_set (fuel : nat) (c : pc) (i v : Z) : pc * outcome :=
  match fuel with
  | O => (c, OPanic pFuel)
  | S f => match set_result (run (mkPrims (tr_set f) 0) pal_PaletteContainer_Set (VCont c) [VZ i; VZ v]) with
           | Some r => r
           | None => (c, OErr)          (* the interpreter got stuck: never happens (tr_set_is_pc_set) *)
           end
  end.
Definition tr_get (c : pc) (i : Z) : outcome :=
  match out_result (run no_set pal_PaletteContainer_Get (VCont c) [VZ i]) with Some o => o | None => OErr end.
Definition tr_new (k : kind) (gs gb n dflt : Z) : option (res pc) :=
  match k with
  | KStates => new_result (run_g (cfg_env gs gb) no_set pal_NewStatesPaletteContainer VNil [VZ n; VZ dflt])
  | KBiomes => new_result (run_g (cfg_env gs gb) no_set pal_NewBiomesPaletteContainer VNil [VZ n; VZ dflt])
  end.

Lemma tr_set_is_pc_set : forall f c i v, tr_set f c i v = pc_set f c i v.
Proof.
  induction f as [|f IH]; intros c i v; [reflexivity|].
  cbn [tr_set]. rewrite PaletteContainer_Set_skel_ok. rewrite (tie_set (mkPrims (tr_set f) 0) f IH c i v). reflexivity.
Qed.
Lemma tr_get_is_pc_get c i : tr_get c i = pc_get c i.
Proof. unfold tr_get. rewrite PaletteContainer_Get_skel_ok, tie_get. reflexivity. Qed.
Lemma tr_new_is_pc_new k gs gb n dflt :
  tr_new k gs gb n dflt = Some (pc_new (mkCfg k (match k with KStates => gs | KBiomes => gb end)) n dflt).
Proof.
  destruct k; unfold tr_new.
  - rewrite NewStatesPaletteContainer_skel_ok. apply tie_new_states.
  - rewrite NewBiomesPaletteContainer_skel_ok. apply tie_new_biomes.
Qed.

(* histories of the translated operations *)
Definition tr_step (c : pc) (o : pop) : pc * outcome :=
  match o with PGet i => (c, tr_get c i) | PSet i v => tr_set set_fuel c i v end.
Fixpoint tr_run (c : pc) (ops : list pop) : pc * list outcome :=
  match ops with
  | [] => (c, [])
  | o :: t => let '(c1, r) := tr_step c o in let '(c2, rs) := tr_run c1 t in (c2, r :: rs)
  end.
Lemma tr_run_is_pc_run : forall ops c, tr_run c ops = pc_run c ops.
Proof.
  induction ops as [|o t IH]; intros c; [reflexivity|]. cbn [tr_run pc_run].
  assert (E : tr_step c o = pc_step c o).
  { destruct o; cbn [tr_step pc_step]; [rewrite tr_get_is_pc_get|rewrite tr_set_is_pc_set]; reflexivity. }
  rewrite E. destruct (pc_step c o) as [c1 r]. rewrite IH. reflexivity.
Qed.

(* HEADLINE: a container made by the translated constructor, driven by any history of the translated
   Set / Get with in-range arguments, behaves as the array with point update - across every upgrade *)
Theorem set_get_translated k gs gb n dflt ops :
  let cf := mkCfg k (match k with KStates => gs | KBiomes => gb end) in
  wfcfg cf -> 0 <= n -> inreg cf dflt -> Forall (valid_pop cf n) ops ->
  exists c0, tr_new k gs gb n dflt = Some (ROk c0) /\
    spec_prun (repeat dflt (Z.to_nat n)) ops = (pabs (fst (tr_run c0 ops)), snd (tr_run c0 ops)) /\
    Inv (fst (tr_run c0 ops)).
Proof.
  intros cf Hc Hn Hd Hv. rewrite tr_new_is_pc_new. fold cf.
  destruct (new_inv cf n dflt Hc Hn Hd) as (c0 & E & I & Ecf & El & Ea).
  exists c0. split; [rewrite E; reflexivity|]. rewrite tr_run_is_pc_run.
  rewrite <- Ecf, <- El in Hv. destruct (run_refines ops c0 I Hv) as (I' & _ & _ & S).
  rewrite <- Ea. split; [exact S|exact I'].
Qed.

(* ---------- the wire, translated ---------- *)
(* the bytes the translated WriteTo emits *)
Definition tr_write (c : pc) : option (list N) := interp_writeto pal_PaletteContainer_WriteTo c.
(* the translated ReadFrom run on a byte string into the container `used` *)
Definition tr_read (fuel : nat) (used : pc) (s : list N) : option (fres (pc * N)) :=
  opt_bind (read_result "p" (run_g res_env (mkPrims (fun c _ _ => (c, OErr)) fuel) pal_PaletteContainer_ReadFrom
                                   (VCont used) [VReader s])) cont_res.

Lemma tr_write_is_pc_write c : tr_write c = Some (fst (pc_write c)).
Proof. unfold tr_write. rewrite PaletteContainer_WriteTo_skel_ok. apply tie_writeto. Qed.
Lemma tr_read_is_pc_read fuel used s : run_flat (pc_read fuel used) s <> FFuel ->
  tr_read fuel used s = Some (run_flat (pc_read fuel used) s).
Proof. intros H. unfold tr_read. rewrite PaletteContainer_ReadFrom_skel_ok. apply tie_readfrom. exact H. Qed.

(* HEADLINE: the image written by the translated WriteTo, followed by any bytes, read by the translated
   ReadFrom into any container of the same kind and length, gives back the array, the byte count and
   exactly the trailing bytes *)
Theorem wire_roundtrip_translated c used rest fuel : Inv c -> ccfg used = ccfg c ->
  blen (cdata used) = blen (cdata c) -> (lenN (data (cdata c)) < 2^31)%N ->
  (List.length (pal_export (cpal c)) <= fuel)%nat ->
  exists img c', tr_write c = Some img /\ tr_read fuel used (img ++ rest) = Some (FOk (c', lenN img) rest) /\
                 Inv c' /\ ccfg c' = ccfg c /\ blen (cdata c') = blen (cdata c) /\ pabs c' = pabs c.
Proof.
  intros I Hcf Hl H31 Hf.
  destruct (wire_roundtrip c used rest fuel I Hcf Hl H31 Hf) as (c' & R & Ec & I' & C' & L' & A').
  exists (fst (pc_write c)), c'. split; [apply tr_write_is_pc_write|].
  split; [|auto]. rewrite tr_read_is_pc_read by (rewrite R; discriminate). rewrite R, Ec. reflexivity.
Qed.

(* without the fuel hypothesis: fuel at least the input length is always enough *)
Lemma tr_read_total fuel used s : (List.length s <= fuel)%nat ->
  tr_read fuel used s = Some (run_flat (pc_read fuel used) s).
Proof. intros H. apply tr_read_is_pc_read. apply pc_read_no_fuel. exact H. Qed.
