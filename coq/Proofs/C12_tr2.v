(* C12: the wire round trip over the INTERPRETED palette codecs.  C12_tr.v runs the translated
   PaletteContainer.ReadFrom with the palette read entering as the model's pal_read; here the palette read is
   the translated singleValue/linear/hash/globalPalette.ReadFrom run by the interpreter (tr_pal_read) and the
   palette piece of WriteTo is the translated palette WriteTo run by the interpreter (tr_pal_write). *)
From Coq Require Import List String Arith NArith ZArith Lia Bool.
From GoMC Require Import Base.Bytes Base.Dec Model.C05 Model.C11 Model.C12 Model.C12_syntax Gen.C12gen.
From GoMC Require Import Proofs.C05 Proofs.C11 Proofs.C12 Proofs.C12_wire Proofs.C12_expected Proofs.C12_skel Proofs.C12_skel_read
                         Proofs.C12_skel_pal2 Proofs.C12_skel_wr Proofs.C12_tr.
Import ListNotations.
Local Open Scope string_scope.
Local Open Scope Z_scope.

(* ---------- the palette read, interpreted ---------- *)
Fixpoint raw_eqb (a b : list (Z * Z)) : bool :=
  match a, b with
  | [], [] => true
  | (x, i) :: s, (y, j) :: t => (x =? y) && (i =? j) && raw_eqb s t
  | _, _ => false
  end.
Lemma raw_eqb_refl a : raw_eqb a a = true.
Proof. induction a as [|[x i] t IH]; [reflexivity|]. cbn [raw_eqb]. rewrite !Z.eqb_refl, IH. reflexivity. Qed.

(* back to the model's palette: a hashPalette only if its map is exactly the last-index view of its values *)
Definition pal_of_val (v : val) : option pal :=
  match v with
  | VPal p => Some p
  | VHashRaw ids vs cp pb => if raw_eqb ids (push_ids 0 vs []) then Some (PHash vs cp pb) else None
  | _ => None
  end.
Lemma pal_of_raw p : pal_of_val (raw_of_pal p) = Some p.
Proof. destruct p; cbn [raw_of_pal pal_of_val]; try reflexivity. rewrite raw_eqb_refl. reflexivity. Qed.

Definition back (r : fres (val * N)) : option (fres (pal * N)) :=
  match r with
  | FOk (v, n) rest => match pal_of_val v with Some p => Some (FOk (p, n) rest) | None => None end
  | FErr e => Some (FErr e) | FPanic w => Some (FPanic w) | FFuel => Some FFuel
  end.
Lemma back_raw r : back (map_fres raw_of_pal r) = Some r.
Proof. destruct r as [[p n] rest|e|w|]; try reflexivity. cbn [map_fres back]. rewrite pal_of_raw. reflexivity. Qed.
Lemma back_pal r : back (map_fres VPal r) = Some r.
Proof. destruct r as [[p n] rest|e|w|]; reflexivity. Qed.

(* the translated ReadFrom of the palette's own kind, run on the byte string s; globalPalette.ReadFrom does
   not name its reader (`_`): it returns 0, nil and the input is untouched *)
Definition tr_pal_read (p : pal) (s : list N) : option (fres (pal * N)) :=
  match p with
  | PSingle _ =>
      opt_bind (read_result "s" (run_g res_env no_set pal_singleValuePalette_ReadFrom (VPal p) [VReader s])) back
  | PLinear _ _ _ =>
      opt_bind (read_result "l" (run_g res_env no_set pal_linearPalette_ReadFrom (VPal p) [VReader s])) back
  | PHash _ _ _ =>
      opt_bind (read_result "h" (run_g res_env no_set pal_hashPalette_ReadFrom (raw_of_pal p) [VReader s])) back
  | PGlobal =>
      match run_g res_env no_set pal_globalPalette_ReadFrom (VPal p) [VReader s] with
      | SR _ [VZ 0; VNil] => Some (FOk (PGlobal, 0%N) s)
      | _ => None
      end
  end.

(* a palette whose map is known to be empty when it is a hashPalette: what create returns *)
Definition fresh (p : pal) : Prop := match p with PHash vals _ _ => vals = [] | _ => True end.
Lemma fresh_create cf b : fresh (cfg_create cf b).
Proof.
  unfold cfg_create. destruct (ckind cf); destruct (b =? 0); cbn [fresh]; auto;
    destruct (in_range 1 4 b); cbn [fresh]; auto; destruct (in_range 5 8 b); cbn [fresh]; auto;
    destruct (in_range 1 3 b); cbn [fresh]; auto.
Qed.

Theorem tr_pal_read_is_model fuel p s : fresh p -> run_flat (pal_read fuel p) s <> FFuel ->
  tr_pal_read p s = Some (run_flat (pal_read fuel p) s).
Proof.
  intros Hf Hnf. destruct p as [v0|vals cap pb|vals cap pb|]; cbn [tr_pal_read].
  - rewrite singleValuePalette_ReadFrom_skel_ok, tie_single_read. cbn [opt_bind]. rewrite back_pal. reflexivity.
  - rewrite linearPalette_ReadFrom_skel_ok, (tie_linear_read vals cap pb s fuel Hnf). cbn [opt_bind]. apply back_pal.
  - cbn [fresh] in Hf. subst vals.
    rewrite hashPalette_ReadFrom_skel_ok, (tie_hash_read cap pb s fuel Hnf). cbn [opt_bind]. apply back_raw.
  - rewrite globalPalette_ReadFrom_skel_ok. reflexivity.
Qed.

(* ---------- PaletteContainer.ReadFrom over the interpreted palette read ---------- *)
Definition tr_prims : prims :=
  mkPrimsR (fun c _ _ => (c, OErr)) (fun p s => match tr_pal_read p s with Some r => r | None => FFuel end).

Definition tr_read2 (used : pc) (s : list N) : option (fres (pc * N)) :=
  opt_bind (read_result "p" (run_g res_env tr_prims pal_PaletteContainer_ReadFrom (VCont used) [VReader s])) cont_res.

Theorem tr_read2_is_pc_read fuel used s : run_flat (pc_read fuel used) s <> FFuel ->
  tr_read2 used s = Some (run_flat (pc_read fuel used) s).
Proof.
  intros H. unfold tr_read2. rewrite PaletteContainer_ReadFrom_skel_ok.
  apply tie_readfrom_gen; [|exact H].
  intros b s' Hn. cbn [p_pread tr_prims].
  rewrite (tr_pal_read_is_model fuel _ s' (fresh_create (ccfg used) b) Hn). reflexivity.
Qed.

(* ---------- PaletteContainer.WriteTo over the interpreted palette WriteTo ---------- *)
(* pk.Tuple{...}.WriteTo(w) writes its fields in order into the same writer *)
Definition write_piece2 (c : pc) (w : list N) (x : gexpr) : option (list N) :=
  match x with
  | ECall (ESel (EId "pk") "UnsignedByte") [ESel (EId "p") "bits"] => Some (w ++ [Z.to_N (cbits c mod 256)])%list
  | ESel (EId "p") "palette" => match tr_pal_write (cpal c) w with Some (w', _) => Some w' | None => None end
  | ESel (EId "p") "data" => Some (w ++ fst (bs_write (cdata c)))%list
  | _ => None
  end.
Fixpoint write_pieces2 (c : pc) (w : list N) (xs : list (string * gexpr)) : option (list N) :=
  match xs with
  | [] => Some w
  | ("", x) :: t => match write_piece2 c w x with Some w' => write_pieces2 c w' t | None => None end
  | _ => None
  end.
Definition tr_write2 (c : pc) : option (list N) :=
  match g_body pal_PaletteContainer_WriteTo with
  | [SReturn [ECall (ESel (ELit "pk.Tuple" fs) "WriteTo") [EId "w"]]] => write_pieces2 c [] fs
  | _ => None
  end.

Theorem tr_write2_is_pc_write c : tr_write2 c = Some (fst (pc_write c)).
Proof.
  unfold tr_write2. rewrite PaletteContainer_WriteTo_skel_ok.
  cbn [g_body exp_PaletteContainer_WriteTo write_pieces2 write_piece2 app].
  rewrite tr_pal_write_is_model. unfold pc_write. cbn [fst app]. reflexivity.
Qed.

(* HEADLINE: as C12_tr.wire_roundtrip_translated, with the palette written by the translated palette WriteTo
   and read back by the translated palette ReadFrom; no fuel is left in the statement *)
Theorem wire_roundtrip_translated2 c used rest : Inv c -> ccfg used = ccfg c ->
  blen (cdata used) = blen (cdata c) -> (lenN (data (cdata c)) < 2^31)%N ->
  exists img c', tr_write2 c = Some img /\ tr_read2 used (img ++ rest) = Some (FOk (c', lenN img) rest) /\
                 Inv c' /\ ccfg c' = ccfg c /\ blen (cdata c') = blen (cdata c) /\ pabs c' = pabs c.
Proof.
  intros I Hcf Hl H31.
  destruct (wire_roundtrip c used rest (List.length (pal_export (cpal c))) I Hcf Hl H31 (le_n _))
    as (c' & R & Ec & I' & C' & L' & A').
  exists (fst (pc_write c)), c'. split; [apply tr_write2_is_pc_write|].
  split; [|auto].
  rewrite (tr_read2_is_pc_read (List.length (pal_export (cpal c)))) by (rewrite R; discriminate).
  rewrite R, Ec. reflexivity.
Qed.

(* ---------- the palette readers over the regenerated terms ---------- *)
Theorem tr_linear_readfrom vals cap pb s fuel : run_flat (pal_read fuel (PLinear vals cap pb)) s <> FFuel ->
  read_result "l" (run_g res_env no_set pal_linearPalette_ReadFrom (VPal (PLinear vals cap pb)) [VReader s])
  = Some (map_fres VPal (run_flat (pal_read fuel (PLinear vals cap pb)) s)).
Proof. rewrite linearPalette_ReadFrom_skel_ok. apply tie_linear_read. Qed.

Theorem tr_hash_readfrom_raw ids0 vals cap pb s fuel : run_flat (pal_read fuel (PHash vals cap pb)) s <> FFuel ->
  read_result "h" (run_g res_env no_set pal_hashPalette_ReadFrom (VHashRaw ids0 vals cap pb) [VReader s])
  = Some (map_fres (raw_over ids0) (run_flat (pal_read fuel (PHash vals cap pb)) s)).
Proof. rewrite hashPalette_ReadFrom_skel_ok. apply tie_hash_read_raw. Qed.

(* the map after a successful read: the prior map overlaid with key -> last index among the values read;
   nothing else when the prior map was empty *)
Theorem hash_ids_after_read ids0 vals cap pb s fuel v n rest k :
  run_flat (pal_read fuel (PHash vals cap pb)) s = FOk (v, n) rest ->
  exists vs cp, v = PHash vs cp pb /\
    read_result "h" (run_g res_env no_set pal_hashPalette_ReadFrom (VHashRaw ids0 vals cap pb) [VReader s])
    = Some (FOk (VHashRaw (push_ids 0 vs ids0) vs cp pb, n) rest) /\
    raw_lookup k (push_ids 0 vs ids0) = match last_index_of k vs 0 with Some j => Some j | None => raw_lookup k ids0 end /\
    (ids0 = [] -> raw_lookup k (push_ids 0 vs ids0) = last_index_of k vs 0).
Proof.
  intros E.
  assert (Hnf : run_flat (pal_read fuel (PHash vals cap pb)) s <> FFuel) by (rewrite E; discriminate).
  pose proof (tr_hash_readfrom_raw ids0 vals cap pb s fuel Hnf) as T. rewrite E in T. cbn [map_fres] in T.
  assert (Hv : exists vs cp, v = PHash vs cp pb).
  { cbn [pal_read] in E. unfold read_sized in E. rewrite run_flat_bind in E by apply read32_robust.
    destruct (run_flat read32 s) as [[size n1] s1|e|w|]; try discriminate.
    destruct (size <? 0); [discriminate|]. destruct (2 ^ pb <? size); [discriminate|].
    rewrite run_flat_bind in E by apply read_vals_robust.
    destruct (run_flat (read_vals fuel size [] 0) s1) as [[vs m] s2|e|w|]; try discriminate.
    cbn [run_flat] in E. injection E as E _ _. eexists _, _. symmetry. exact E. }
  destruct Hv as (vs & cp & ->). exists vs, cp. cbn [raw_over] in T.
  split; [reflexivity|]. split; [exact T|]. split; [apply raw_lookup_push|].
  intros ->. apply raw_lookup_fresh.
Qed.
