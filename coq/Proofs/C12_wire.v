(* C12: wire codec of the PaletteContainer model: write, then read into ANY used container. *)
From Coq Require Import List Arith NArith ZArith Lia Bool ZifyN ZifyNat ZifyBool.
From GoMC Require Import Base.Bytes Base.Bits Base.Dec Gen.Consts Model.C05 Model.C11 Model.C12.
From GoMC Require Import Proofs.C05 Proofs.C11 Proofs.C11_laws Proofs.C11_wire Proofs.C12.
Import ListNotations.
Open Scope Z_scope.
Ltac Zify.zify_post_hook ::= Z.to_euclidean_division_equations.

Lemma inreg_sw cf v : wfcfg cf -> inreg cf v -> in_sw 32 v.
Proof.
  unfold wfcfg, inreg, in_sw. intros Hc Hv. change (Z.of_N 32 - 1) with 31.
  assert (2 ^ gbits cf <= 2 ^ 31) by (apply Z.pow_le_mono_r; destruct (ckind cf); lia). lia.
Qed.

Lemma read_vals_robust : forall fuel cnt acc n, robust (read_vals fuel cnt acc n).
Proof.
  induction fuel as [|f IH]; intros cnt acc n; cbn [read_vals]; destruct (cnt <=? 0).
  - constructor.
  - constructor.
  - constructor.
  - apply robust_bind; [apply read32_robust|]. intros [v m]. apply IH.
Qed.

Lemma pal_read_robust fuel p : robust (pal_read fuel p).
Proof.
  destruct p as [v0|vals cap pb|vals cap pb|]; cbn [pal_read]; unfold read_sized;
    try (apply robust_bind; [apply read32_robust|]; intros [v m]); try constructor.
  - destruct (v <? 0); [constructor|]. destruct (2 ^ pb <? v); [constructor|].
    apply robust_bind; [apply read_vals_robust|]. intros [vs k]. constructor.
  - destruct (v <? 0); [constructor|]. destruct (2 ^ pb <? v); [constructor|].
    apply robust_bind; [apply read_vals_robust|]. intros [vs k]. constructor.
Qed.

Lemma read_vals_image : forall vals fuel acc n rest, Forall (in_sw 32) vals -> (length vals <= fuel)%nat ->
  run_flat (read_vals fuel (zlen vals) acc n) (concat (map write32 vals) ++ rest) =
  FOk (rev acc ++ vals, (n + lenN (concat (map write32 vals)))%N) rest.
Proof.
  induction vals as [|x t IH]; intros fuel acc n rest Hsw Hf.
  - destruct fuel; cbn; rewrite app_nil_r, N.add_0_r; reflexivity.
  - destruct fuel as [|f]; [cbn in Hf; lia|]. inversion Hsw as [|? ? Hx Ht]; subst.
    cbn [read_vals]. pose proof (zlen_nonneg t).
    assert (Hz : zlen (x :: t) = zlen t + 1) by (unfold zlen; cbn [length]; lia).
    destruct (Z.leb_spec (zlen (x :: t)) 0); [lia|].
    cbn [map concat]. rewrite <- app_assoc.
    rewrite run_flat_bind by apply read32_robust. rewrite read32_write32 by exact Hx.
    replace (zlen (x :: t) - 1) with (zlen t) by lia.
    rewrite IH by (auto; cbn in Hf; lia). cbn [rev]. rewrite <- app_assoc. cbn [app].
    rewrite lenN_app. f_equal. f_equal. lia.
Qed.

(* the palette that comes back: same values, capacity normalised *)
Definition pal_norm (p : pal) : pal :=
  match p with
  | PLinear vals _ pb => PLinear vals (2 ^ pb) pb
  | PHash vals _ pb => PHash vals (2 ^ pb) pb
  | _ => p
  end.

Lemma pval_norm p k : pval (pal_norm p) k = pval p k.
Proof. destruct p; reflexivity. Qed.

Lemma pal_read_write cf b p dbits fuel rest : wfcfg cf -> pal_wf cf b p dbits ->
  (length (pal_export p) <= fuel)%nat ->
  run_flat (pal_read fuel (cfg_create cf b)) (pal_write p ++ rest) = FOk (pal_norm p, lenN (pal_write p)) rest /\
  dbits = cfg_bits cf b /\ pal_wf cf (cfg_bits cf b) (pal_norm p) dbits.
Proof.
  intros Hc Hp Hf. destruct cf as [kd g]. unfold wfcfg in Hc. cbn [ckind gbits] in Hc.
  assert (SW : forall vals, Forall (inreg (mkCfg kd g)) vals -> Forall (in_sw 32) vals).
  { intros vals H. eapply Forall_impl; [|exact H]. intros a. apply inreg_sw. exact Hc. }
  assert (SIZED : forall vals cap0 pb0 (mk : list Z -> Z -> pal), Forall (inreg (mkCfg kd g)) vals ->
            (length vals <= fuel)%nat -> zlen vals <= cap0 -> zlen vals < 2 ^ 31 -> zlen vals <= 2 ^ pb0 ->
            run_flat (read_sized fuel cap0 pb0 mk) ((write32 (zlen vals) ++ concat (map write32 vals)) ++ rest) =
            FOk (mk vals cap0, lenN (write32 (zlen vals) ++ concat (map write32 vals))) rest).
  { intros vals cap0 pb0 mk Hr Hl Hcap H31 Hpb. unfold read_sized. rewrite <- app_assoc.
    rewrite run_flat_bind by apply read32_robust.
    pose proof (zlen_nonneg vals).
    rewrite read32_write32 by (unfold in_sw; change (Z.of_N 32 - 1) with 31; lia).
    destruct (Z.ltb_spec (zlen vals) 0); [lia|].
    destruct (Z.ltb_spec (2 ^ pb0) (zlen vals)); [lia|].
    rewrite run_flat_bind by apply read_vals_robust.
    rewrite read_vals_image by (auto). cbn [rev app run_flat].
    rewrite Z.max_l by lia. rewrite lenN_app, N.add_0_l. reflexivity. }
  destruct p as [v0|vals cap pb|vals cap pb|]; cbn [pal_wf pal_export pal_write pal_norm] in *.
  - destruct Hp as (-> & -> & Hr).
    assert (E : cfg_create (mkCfg kd g) 0 = PSingle (-1) /\ cfg_bits (mkCfg kd g) 0 = 0) by (destruct kd; auto).
    destruct E as [E1 E2]. rewrite E1, E2. cbn [pal_read]. split; [|cbn; auto].
    rewrite run_flat_bind by apply read32_robust.
    rewrite read32_write32 by (eapply inreg_sw; eauto; exact Hc). reflexivity.
  - destruct Hp as (Hk & -> & Hcap & Hr).
    assert (H31 : 2 ^ pb <= 2 ^ 8 /\ 0 <= pb).
    { destruct kd; cbn [ckind] in Hk; split; try lia; apply Z.pow_le_mono_r; lia. }
    destruct kd; cbn [ckind] in Hk.
    + destruct Hk as [Hb ->]. assert (Hb' : b = 1 \/ b = 2 \/ b = 3 \/ b = 4) by lia.
      destruct Hb' as [->|[->|[->| ->]]]; cbn [cfg_create cfg_bits ckind in_range Z.eqb Z.leb Z.compare Pos.compare Pos.compare_cont andb pal_read];
        (split; [rewrite (SIZED vals) by (auto; cbn in *; lia); reflexivity | cbn; repeat split; auto; lia]).
    + destruct Hk as [Hb ->]. assert (Hb' : b = 1 \/ b = 2 \/ b = 3) by lia.
      destruct Hb' as [->|[->| ->]]; cbn [cfg_create cfg_bits ckind in_range Z.eqb Z.leb Z.compare Pos.compare Pos.compare_cont andb pal_read];
        (split; [rewrite (SIZED vals) by (auto; cbn in *; lia); reflexivity | cbn; repeat split; auto; lia]).
  - destruct Hp as (Hs & Hb & -> & -> & Hcap & Hr). cbn [ckind] in Hs. subst kd.
    assert (Hb' : b = 5 \/ b = 6 \/ b = 7 \/ b = 8) by lia.
    destruct Hb' as [->|[->|[->| ->]]]; cbn [cfg_create cfg_bits ckind in_range Z.eqb Z.leb Z.compare Pos.compare Pos.compare_cont andb pal_read];
        (split; [rewrite (SIZED vals) by (auto; cbn in *; lia); reflexivity | cbn; repeat split; auto; lia]).
  - destruct Hp as (Hk & Hb & ->). destruct kd; cbn [ckind] in Hk.
    + assert (E : cfg_create (mkCfg KStates g) b = PGlobal /\ cfg_bits (mkCfg KStates g) b = g).
      { unfold cfg_create, cfg_bits, in_range. cbn [ckind gbits].
        destruct (Z.eqb_spec b 0); [lia|]. destruct (Z.leb_spec 1 b); [|lia].
        destruct (Z.leb_spec b 4); [lia|]. destruct (Z.leb_spec 5 b); [|lia].
        destruct (Z.leb_spec b 8); [lia|]. cbn. auto. }
      destruct E as [E1 E2]. rewrite E1, E2. cbn. repeat split; auto; lia.
    + assert (E : cfg_create (mkCfg KBiomes g) b = PGlobal /\ cfg_bits (mkCfg KBiomes g) b = g).
      { unfold cfg_create, cfg_bits, in_range. cbn [ckind gbits].
        destruct (Z.eqb_spec b 0); [lia|]. destruct (Z.leb_spec 1 b); [|lia].
        destruct (Z.leb_spec b 3); [lia|]. cbn. auto. }
      destruct E as [E1 E2]. rewrite E1, E2. cbn. repeat split; auto; lia.
Qed.

Lemma pal_wf_byte cf b p dbits : pal_wf cf b p dbits -> 0 <= b <= 255.
Proof.
  destruct p as [v0|vals cap pb|vals cap pb|]; cbn [pal_wf]; destruct (ckind cf); intros H; lia.
Qed.

Lemma dwf_data d : dwf d -> Forall (fun l => (l < 2^64)%N) (data d).
Proof. intros [(_ & _ & _ & H)|W]; [exact H|apply W]. Qed.

Lemma pvald_norm p k : pvald (pal_norm p) k = pvald p k.
Proof. unfold pvald. rewrite pval_norm. reflexivity. Qed.

(* write c, then read the image - followed by anything - into ANY container of the same kind and
   length, whatever its palette, width and contents were *)
Theorem wire_roundtrip c used rest fuel : Inv c -> ccfg used = ccfg c ->
  blen (cdata used) = blen (cdata c) -> (lenN (data (cdata c)) < 2^31)%N ->
  (length (pal_export (cpal c)) <= fuel)%nat ->
  exists c', run_flat (pc_read fuel used) (fst (pc_write c) ++ rest) = FOk (c', snd (pc_write c)) rest /\
    snd (pc_write c) = lenN (fst (pc_write c)) /\ Inv c' /\ ccfg c' = ccfg c /\
    blen (cdata c') = blen (cdata c) /\ pabs c' = pabs c.
Proof.
  intros [C V] Hcf Hl H31 Hf. pose proof C as [Cc Cd Cp].
  pose proof (pal_wf_byte _ _ _ _ Cp) as Hbyte.
  destruct (pal_read_write _ _ _ _ fuel (fst (bs_write (cdata c)) ++ rest) Cc Cp Hf) as (Hpr & Hsb & Hpw).
  unfold pc_write, pc_read. cbn [fst snd app run_flat]. rewrite Hcf.
  replace (Z.of_N (Z.to_N (cbits c mod 256) mod 256)) with (cbits c) by lia.
  rewrite run_flat_bind by apply pal_read_robust.
  rewrite <- app_assoc. rewrite Hpr. cbv beta iota.
  rewrite run_flat_bind by apply read_robust.
  rewrite read_write by (auto using dwf_data). cbv beta iota.
  set (sb := cfg_bits (ccfg c) (cbits c)) in *.
  assert (COUNT : (1 + lenN (pal_write (cpal c)) + snd (bs_write (cdata c)))%N =
                  lenN (Z.to_N (cbits c mod 256) :: pal_write (cpal c) ++ fst (bs_write (cdata c)))).
  { rewrite lenN_cons, lenN_app. unfold bs_write. cbn [fst snd]. lia. }
  assert (FIN : forall d2, dwf d2 -> bits d2 = bits (cdata c) -> blen d2 = blen (cdata c) ->
            didx d2 = didx (cdata c) ->
            Inv (mkPC sb (ccfg c) (pal_norm (cpal c)) d2) /\
            pabs (mkPC sb (ccfg c) (pal_norm (cpal c)) d2) = pabs c).
  { intros d2 W2 B2 L2 A2. split; [split|].
    - constructor; cbn [ccfg cdata cpal cbits]; auto. rewrite B2. exact Hpw.
    - intros j Hj. cbn [cdata] in Hj. rewrite L2 in Hj. destruct (V j Hj) as [y Hy]. exists y.
      unfold getv in *. cbn [cpal cdata]. rewrite pval_norm, A2. exact Hy.
    - unfold pabs. cbn [cpal cdata]. rewrite A2. apply map_ext. intros k. apply pvald_norm. }
  destruct Cd as [(Hv0 & Hb0 & Hn0 & Hf0)|W].
  - (* no data array: single value *)
    assert (Hsb0 : sb = 0) by lia.
    assert (Efix : bs_fix (set_data (cdata used) (data (cdata c))) sb =
                   (mkBS (data (cdata c)) 0%N 0 (blen (cdata used)) 0, OUnit)) by (rewrite Hsb0; reflexivity).
    rewrite Efix. cbv beta iota. cbn [run_flat].
    destruct (FIN (mkBS (data (cdata c)) 0%N 0 (blen (cdata used)) 0)) as [F1 F2].
    + left. cbn [vpl bits blen data]. rewrite Hl. auto.
    + cbn. lia.
    + cbn. exact Hl.
    + unfold didx. cbn [vpl blen]. rewrite Hv0, Hl. reflexivity.
    + eexists. split; [rewrite COUNT; reflexivity|].
      split; [reflexivity|]. split; [exact F1|]. cbn [ccfg cdata blen]. auto.
  - pose proof (wf_b _ W) as Hb. rewrite fix_result by (cbn [set_data blen]; rewrite ?Hl; try apply W; lia).
    cbn [set_data data blen]. rewrite Hl, <- Hsb. rewrite (wf_size_of _ W), Z.eqb_refl.
    rewrite wf_record by exact W. cbv beta iota. cbn [run_flat]. rewrite Hsb.
    destruct (FIN (cdata c)) as [F1 F2]; auto. { right. exact W. }
    eexists. split; [rewrite COUNT; reflexivity|].
    split; [reflexivity|]. split; [exact F1|]. cbn [ccfg cdata]. auto.
Qed.

(* ---------- the long count is below 2^31 whenever the length is ---------- *)
Lemma data_len_bound d : wf d \/ data d = [] -> blen d < 2 ^ 31 -> (lenN (data d) < 2 ^ 31)%N.
Proof.
  intros [W| ->] Hl; [|reflexivity].
  pose proof (wf_size d W) as Hs. pose proof (wf_len d W) as Hn. pose proof (wf_vpl d W) as Hv.
  pose proof (vpl_pos (wbits d) ltac:(pose proof (wf_bits d W); lia)) as Hp.
  assert (Hb : (blen d + vpl d - 1) / vpl d <= blen d).
  { destruct (Z.eq_dec (blen d) 0) as [E|E].
    - rewrite E. rewrite Z.div_small; lia.
    - apply Z.div_le_upper_bound; nia. }
  unfold lenN. change (2 ^ 31)%N with 2147483648%N. change (2 ^ 31) with 2147483648 in Hl. lia.
Qed.

(* the wire round trip with the bound on the LENGTH (a chunk section has 4096 / 64 entries) *)
Theorem wire_roundtrip_len c used rest fuel : Inv c -> ccfg used = ccfg c ->
  blen (cdata used) = blen (cdata c) -> (wf (cdata c) \/ data (cdata c) = []) -> blen (cdata c) < 2 ^ 31 ->
  (length (pal_export (cpal c)) <= fuel)%nat ->
  exists c', run_flat (pc_read fuel used) (fst (pc_write c) ++ rest) = FOk (c', snd (pc_write c)) rest /\
    snd (pc_write c) = lenN (fst (pc_write c)) /\ Inv c' /\ ccfg c' = ccfg c /\
    blen (cdata c') = blen (cdata c) /\ pabs c' = pabs c.
Proof.
  intros I Hcf Hl Hd Hn Hf. apply wire_roundtrip; auto. apply data_len_bound; auto.
Qed.

(* ---------- fuel: the palette reader never runs out of it when it is at least the input length ---------- *)
Lemma read32_consumes s v m rest : run_flat read32 s = FOk (v, m) rest -> (length rest < length s)%nat.
Proof.
  intros H. pose proof (read32_cap s) as Hcap. rewrite H in Hcap. destruct Hcap as [_ Hl].
  assert (Hm : (1 <= m)%N).
  { unfold read32 in H. rewrite run_flat_bind in H by apply read_var_robust. rewrite max_varint_len in H.
    change (Z.to_N 5) with 5%N in H.
    change (read_var 32 5 12 0 0) with
      (ReadByte (fun b => let acc' := N.lor 0 ((N.shiftl (N.land b 127) (7 * 0)) mod 2^32) in
                          if (N.land b 128 =? 0)%N then Ret (acc', (0 + 1)%N) else read_var 32 5 11 acc' (0 + 1)%N)) in H.
    destruct s as [|b s']; [discriminate|]. cbn [run_flat] in H. cbv zeta in H.
    destruct (N.land b 128 =? 0)%N.
    - cbn [run_flat] in H. inversion H. lia.
    - pose proof (read_var_cap 32 5 11 (N.lor 0 (N.shiftl (N.land b 127) (7 * 0) mod 2 ^ 32)) (0 + 1) s' ltac:(cbn; lia)) as Hc.
      destruct (run_flat _ s') as [[u k] r| | |]; try discriminate. cbn [run_flat] in H. inversion H; subst. lia. }
  unfold lenN in Hl. lia.
Qed.

Lemma read_vals_no_fuel : forall fuel s cnt acc n, (length s < fuel)%nat ->
  run_flat (read_vals fuel cnt acc n) s <> FFuel.
Proof.
  induction fuel as [|f IH]; intros s cnt acc n Hf; [lia|].
  cbn [read_vals]. destruct (cnt <=? 0); [cbn; discriminate|].
  rewrite run_flat_bind by apply read32_robust.
  destruct (run_flat read32 s) as [[v m] rest| | |] eqn:E; try discriminate.
  - apply IH. apply read32_consumes in E. lia.
  - pose proof (read32_cap s) as Hc. rewrite E in Hc. contradiction.
Qed.

Lemma pal_read_no_fuel fuel p s : (length s < fuel)%nat -> run_flat (pal_read fuel p) s <> FFuel.
Proof.
  intros Hf. destruct p as [v0|vals cap pb|vals cap pb|]; cbn [pal_read]; unfold read_sized.
  - rewrite run_flat_bind by apply read32_robust. pose proof (read32_cap s) as Hc.
    destruct (run_flat read32 s) as [[v m] rest| | |]; try contradiction; cbn; discriminate.
  - rewrite run_flat_bind by apply read32_robust. pose proof (read32_cap s) as Hc.
    destruct (run_flat read32 s) as [[v m] rest| | |] eqn:E; try contradiction; try discriminate.
    destruct (v <? 0); [cbn; discriminate|]. destruct (2 ^ pb <? v); [cbn; discriminate|].
    rewrite run_flat_bind by apply read_vals_robust.
    apply read32_consumes in E.
    pose proof (read_vals_no_fuel fuel rest v [] 0%N ltac:(lia)) as Hn.
    destruct (run_flat (read_vals fuel v [] 0%N) rest) as [[vs k] r| | |]; try contradiction; cbn; discriminate.
  - rewrite run_flat_bind by apply read32_robust. pose proof (read32_cap s) as Hc.
    destruct (run_flat read32 s) as [[v m] rest| | |] eqn:E; try contradiction; try discriminate.
    destruct (v <? 0); [cbn; discriminate|]. destruct (2 ^ pb <? v); [cbn; discriminate|].
    rewrite run_flat_bind by apply read_vals_robust.
    apply read32_consumes in E.
    pose proof (read_vals_no_fuel fuel rest v [] 0%N ltac:(lia)) as Hn.
    destruct (run_flat (read_vals fuel v [] 0%N) rest) as [[vs k] r| | |]; try contradiction; cbn; discriminate.
  - cbn. discriminate.
Qed.

(* the container reader never runs out of fuel when the fuel is at least the input length *)
Theorem pc_read_no_fuel fuel c s : (length s <= fuel)%nat -> run_flat (pc_read fuel c) s <> FFuel.
Proof.
  intros Hf. unfold pc_read. destruct s as [|b0 s]; [cbn; discriminate|]. cbn [run_flat]. cbv zeta.
  rewrite run_flat_bind by apply pal_read_robust.
  pose proof (pal_read_no_fuel fuel (cfg_create (ccfg c) (Z.of_N (b0 mod 256))) s ltac:(cbn [length] in Hf; lia)) as Hn.
  destruct (run_flat (pal_read fuel _) s) as [[p1 n1] s1| | |]; try contradiction; try discriminate.
  rewrite run_flat_bind by apply read_robust.
  pose proof (read_total (cdata c) s1) as Ht.
  destruct (run_flat (bs_read (cdata c)) s1) as [[d1 n2] s2| | |]; try contradiction; try discriminate.
  destruct (bs_fix d1 _) as [d2 o]. destruct o; cbn; discriminate.
Qed.

(* ---------- the declared palette length is tested before anything is allocated for it ---------- *)
Definition indirect (p : pal) (cap pb : Z) : Prop := exists vals, p = PLinear vals cap pb \/ p = PHash vals cap pb.

(* a declared length above 1<<bits is refused as soon as the length has been read - with the same
   error whatever follows, before any entry is read: the make([]T, size) of the code is never reached *)
Theorem palette_alloc_refused fuel p cap pb s size n0 rest0 : indirect p cap pb ->
  run_flat read32 s = FOk (size, n0) rest0 -> 2 ^ pb < size ->
  run_flat (pal_read fuel p) s = FErr eBigPal.
Proof.
  intros [vals [-> | ->]] H Hb; cbn [pal_read]; unfold read_sized;
    rewrite run_flat_bind by apply read32_robust; rewrite H; cbv beta iota;
    (destruct (Z.ltb_spec size 0); [assert (0 < 2 ^ pb) by (destruct (Z.le_gt_cases 0 pb); [apply Z.pow_pos_nonneg; lia|rewrite Z.pow_neg_r in Hb by lia; lia]); lia|]);
    (destruct (Z.ltb_spec (2 ^ pb) size); [reflexivity|lia]).
Qed.

Lemma read_vals_len : forall fuel cnt acc n s vs m rest,
  run_flat (read_vals fuel cnt acc n) s = FOk (vs, m) rest -> zlen vs = zlen acc + Z.max 0 cnt.
Proof.
  induction fuel as [|f IH]; intros cnt acc n s vs m rest H; cbn [read_vals] in H.
  - destruct (Z.leb_spec cnt 0); [|discriminate]. cbn in H. inversion H; subst. unfold zlen. rewrite rev_length. lia.
  - destruct (Z.leb_spec cnt 0).
    + cbn in H. inversion H; subst. unfold zlen. rewrite rev_length. lia.
    + rewrite run_flat_bind in H by apply read32_robust.
      destruct (run_flat read32 s) as [[v k] r| | |]; try discriminate.
      apply IH in H. unfold zlen in *. cbn [length] in H. lia.
Qed.

(* what an accepted palette looks like: as many entries as declared, at most 1<<bits of them, so the
   slice the code makes for them has at most max(cap, 1<<bits) elements *)
Theorem palette_alloc_bounded fuel p cap pb s p' n rest : indirect p cap pb -> 0 <= pb ->
  run_flat (pal_read fuel p) s = FOk (p', n) rest ->
  exists vs cp, (p' = PLinear vs cp pb \/ p' = PHash vs cp pb) /\ zlen vs <= 2 ^ pb /\ cp = Z.max cap (zlen vs) /\
                cp <= Z.max cap (2 ^ pb).
Proof.
  intros [vals [-> | ->]] Hpb H; cbn [pal_read] in H; unfold read_sized in H;
    rewrite run_flat_bind in H by apply read32_robust;
    (destruct (run_flat read32 s) as [[size k] r| | |]; try discriminate);
    (destruct (Z.ltb_spec size 0); [discriminate|]);
    (destruct (Z.ltb_spec (2 ^ pb) size); [discriminate|]);
    rewrite run_flat_bind in H by apply read_vals_robust;
    (destruct (run_flat (read_vals fuel size [] 0%N) r) as [[vs m] r2| | |] eqn:E; try discriminate);
    apply read_vals_len in E; change (zlen []) with 0 in E; cbn in H; inversion H; subst;
    exists vs, (Z.max cap size); (split; [auto|]); repeat split; lia.
Qed.
