(* C13 proofs, part 1 *)
From Coq Require Import List Arith NArith ZArith Lia Bool ZifyN ZifyNat ZifyBool.
From GoMC Require Import Base.Bytes Base.Bits Base.Dec Gen.Consts Model.C05 Model.C06 Model.C11 Model.C13.
Import ListNotations.
Open Scope N_scope.

Lemma hm_bits_24 : hm_bits 24 = 9%Z. Proof. reflexivity. Qed.
