(* C13 proofs, part 1: SetBlock and the non-air counter *)
From Coq Require Import List Arith NArith ZArith Lia Bool ZifyN ZifyNat ZifyBool.
From GoMC Require Import Base.Bytes Base.Bits Base.Dec Gen.Consts Model.C05 Model.C06 Model.C11 Model.C13.
Import ListNotations.
Open Scope Z_scope.
Ltac Zify.zify_post_hook ::= Z.div_mod_to_equations.

Lemma hm_bits_24 : hm_bits 24 = 9. Proof. reflexivity. Qed.

(* ---------- counting ---------- *)
Definition cnt (is_air : Z -> bool) (a : list Z) : nat := length (filter (fun v => negb (is_air v)) a).
Definition one (is_air : Z -> bool) (v : Z) : nat := if is_air v then 0%nat else 1%nat.

Lemma non_air_cnt is_air a : non_air is_air a = Z.of_nat (cnt is_air a).
Proof. reflexivity. Qed.

Lemma cnt_le is_air a : (cnt is_air a <= length a)%nat.
Proof.
  unfold cnt. induction a as [|h t IH]; cbn [filter length]; [lia|].
  destruct (negb (is_air h)); cbn [length]; lia.
Qed.

Lemma upd_nth_length {A} (l : list A) n x : length (upd_nth l n x) = length l.
Proof. revert n; induction l as [|h t IH]; intros [|n]; cbn [upd_nth length]; auto. Qed.

(* a point update changes the count by the old and the new element only *)
Lemma cnt_upd is_air : forall a n v, (n < length a)%nat ->
  (cnt is_air (upd_nth a n v) + one is_air (nth n a 0%Z) = cnt is_air a + one is_air v)%nat.
Proof.
  unfold cnt, one. induction a as [|h t IH]; intros [|n] v Hn; cbn [length] in Hn; try lia.
  - cbn [upd_nth nth filter]. destruct (is_air h), (is_air v); cbn [negb length]; lia.
  - cbn [upd_nth nth filter]. specialize (IH n v ltac:(lia)).
    destruct (is_air h); cbn [negb length]; lia.
Qed.

Lemma sx16_u16_small z : -32768 <= z < 32768 -> sx16 (u16 z) = z.
Proof. intros H. apply sx_wrapu; [reflexivity|]. unfold in_sw. cbn. lia. Qed.

Section Count.
Variable cont : Type.
Variable pc_get : cont -> Z -> Z.
Variable pc_set : cont -> Z -> Z -> cont.
Variable is_air : Z -> bool.
Variable abs : cont -> list Z.
(* what C12 proves of the container across every change of representation *)
Hypothesis get_abs : forall c i, 0 <= i < Z.of_nat (length (abs c)) -> pc_get c i = nth (Z.to_nat i) (abs c) 0.
Hypothesis set_abs : forall c i v, 0 <= i < Z.of_nat (length (abs c)) ->
  abs (pc_set c i v) = upd_nth (abs c) (Z.to_nat i) v.

Definition counted (s : Z * cont) : Prop := fst s = non_air is_air (abs (snd s)).
Definition op_ok (s : Z * cont) (iv : Z * Z) : Prop := 0 <= fst iv < Z.of_nat (length (abs (snd s))).

Lemma set_block_counted s iv : Z.of_nat (length (abs (snd s))) <= 32767 -> counted s -> op_ok s iv ->
  counted (set_block cont pc_get pc_set is_air s iv) /\
  abs (snd (set_block cont pc_get pc_set is_air s iv)) = upd_nth (abs (snd s)) (Z.to_nat (fst iv)) (snd iv).
Proof.
  destruct s as [c0 c], iv as [i v]. unfold counted, op_ok. cbn [fst snd]. intros Hl Hc Hi.
  unfold set_block. cbn [fst snd]. rewrite set_abs by exact Hi. split; [|reflexivity].
  rewrite get_abs by exact Hi. rewrite !non_air_cnt in *.
  pose proof (cnt_upd is_air (abs c) (Z.to_nat i) v ltac:(lia)) as E. unfold one in E.
  pose proof (cnt_le is_air (abs c)) as L1.
  pose proof (cnt_le is_air (upd_nth (abs c) (Z.to_nat i) v)) as L2. rewrite upd_nth_length in L2.
  subst c0.
  destruct (is_air (nth (Z.to_nat i) (abs c) 0)) eqn:Ea, (is_air v) eqn:Ev.
  - lia.
  - rewrite sx16_u16_small by lia. lia.
  - rewrite sx16_u16_small by lia. lia.
  - rewrite (sx16_u16_small (Z.of_nat (cnt is_air (abs c)) - 1)) by lia.
    rewrite sx16_u16_small by lia. lia.
Qed.

(* every history of in-range SetBlock calls: the counter is the number of non-air blocks, and the
   section holds exactly what the same history of point updates gives *)
Lemma set_blocks_counted : forall ops s, Z.of_nat (length (abs (snd s))) <= 32767 -> counted s ->
  Forall (fun iv => 0 <= fst iv < Z.of_nat (length (abs (snd s)))) ops ->
  counted (set_blocks cont pc_get pc_set is_air s ops) /\
  abs (snd (set_blocks cont pc_get pc_set is_air s ops)) =
    fold_left (fun a iv => upd_nth a (Z.to_nat (fst iv)) (snd iv)) ops (abs (snd s)).
Proof.
  unfold set_blocks. induction ops as [|iv ops IH]; intros s Hl Hc Hops.
  - cbn [fold_left]. auto.
  - inversion Hops as [|? ? Hiv Hrest]; subst. cbn [fold_left].
    destruct (set_block_counted s iv Hl Hc Hiv) as [Hc' Ha'].
    specialize (IH (set_block cont pc_get pc_set is_air s iv)).
    rewrite Ha' in IH. rewrite upd_nth_length in IH. apply IH; auto.
Qed.
End Count.

(* the array container satisfies the hypotheses *)
Lemma arr_get_abs : forall (c : list Z) i, 0 <= i < Z.of_nat (length c) -> arr_get c i = nth (Z.to_nat i) c 0.
Proof. reflexivity. Qed.
Lemma arr_set_abs : forall (c : list Z) i v, 0 <= i < Z.of_nat (length c) -> arr_set c i v = upd_nth c (Z.to_nat i) v.
Proof. reflexivity. Qed.
