(* C13 proofs, part 9: the block-entity loop of ChunkFromSave - coordinates relative to the chunk, packed and
   recovered; tie of its expressions to the translated ones *)
From Coq Require Import List Arith NArith ZArith Lia Bool ZifyN ZifyNat ZifyBool.
From GoMC Require Import Base.Bytes Base.Dec Base.GoInt Model.C05 Model.C06 Model.C11 Model.C13 Model.C13_syntax
  Gen.C13gen Proofs.C13_tie Proofs.C13_wire.
Import ListNotations.
Open Scope Z_scope.

(* the translated coordinate expressions are the model's *)
Lemma tie_be_local w pos : be_local w pos = c13_ChunkFromSave_x w pos /\ be_local w pos = c13_ChunkFromSave_z w pos.
Proof.
  unfold be_local, c13_ChunkFromSave_x, c13_ChunkFromSave_z. rewrite !sx32_wrap.
  assert (R: forall t, wrap_s 64 (wrap_s 32 t) = wrap_s 32 t).
  { intros t. pose proof (wrap_s_range 32 t ltac:(lia)) as B. change (2 ^ (32 - 1)) with 2147483648 in B.
    apply wrap_s_id; [lia|]. change (2 ^ (64 - 1)) with 9223372036854775808. lia. }
  rewrite R. auto.
Qed.
Lemma tie_entity_y y : sx16 (u16 y) = c13_ChunkFromSave_entity_y y.
Proof. apply sx16_wrap. Qed.

(* inside the coordinate range of the game the local coordinate is x - 16 * chunk position *)
Lemma be_local_plain w pos : -2^30 <= w < 2^30 -> -2^26 <= pos < 2^26 -> be_local w pos = w - 16 * pos.
Proof.
  intros Hw Hp. unfold be_local. rewrite !sx32_wrap. rewrite Z.shiftl_mul_pow2 by lia. change (2 ^ 4) with 16.
  change (2^30) with 1073741824 in Hw. change (2^26) with 67108864 in Hp.
  rewrite (wrap_s_id 32 (pos * 16)) by (try lia; change (2 ^ (32 - 1)) with 2147483648; lia).
  rewrite wrap_s_id by (try lia; change (2 ^ (32 - 1)) with 2147483648; lia). lia.
Qed.

Section Entities.
Variable be_fields : N * list N -> option (list N * Z * Z * Z).
Variable entity_type : list N -> Z.

Theorem from_save_be_spec xpos zpos v id x y z : be_fields v = Some (id, x, y, z) ->
  let lx := be_local x xpos in let lz := be_local z zpos in
  (0 <= lx <= 15 -> 0 <= lz <= 15 ->
     exists b, from_save_be be_fields entity_type xpos zpos v = SOk b /\
       unpack_xz (e_xz b) = (lx, lz) /\ -128 <= e_xz b < 128 /\
       e_y b = sx16 (u16 y) /\ (-32768 <= y < 32768 -> e_y b = y) /\
       e_type b = entity_type id /\ (e_nt b, e_data b) = v) /\
  (~ (0 <= lx <= 15 /\ 0 <= lz <= 15) -> from_save_be be_fields entity_type xpos zpos v = SErr).
Proof.
  intros Hf lx lz. unfold from_save_be. rewrite Hf. fold lx lz. split.
  - intros Hx Hz. destruct (pack_unpack_all lx lz Hx Hz) as (p & Hp & Hu & Hr). rewrite Hp.
    eexists. split; [reflexivity|]. cbn [e_xz e_y e_type e_nt e_data].
    split; [exact Hu|]. split; [exact Hr|]. split; [reflexivity|]. split.
    + intros Hy. apply sx_wrapu; [reflexivity|]. unfold in_sw. cbn. lia.
    + split; [reflexivity|]. destruct v; reflexivity.
  - intros Hn. rewrite (pack_rejects lx lz Hn). reflexivity.
Qed.

(* a failing Unmarshal is an error *)
Lemma from_save_be_unmarshal xpos zpos v : be_fields v = None -> from_save_be be_fields entity_type xpos zpos v = SErr.
Proof. intros H. unfold from_save_be. rewrite H. reflexivity. Qed.

(* the loop: every entity converted in order, the first failure is the result *)
Lemma from_save_bes_spec xpos zpos : forall vs bs,
  Forall2 (fun v b => from_save_be be_fields entity_type xpos zpos v = SOk b) vs bs ->
  from_save_bes be_fields entity_type xpos zpos vs = SOk bs.
Proof.
  induction 1 as [|v b vs bs Hv _ IH]; [reflexivity|]. cbn [from_save_bes]. rewrite Hv, IH. reflexivity.
Qed.

(* save -> level -> wire -> level: the entity read back from the network form is the one ChunkFromSave made,
   so its in-chunk position, height, type and NBT are those of the save entity *)
Theorem entity_save_wire xpos zpos v id x y z t fuel oldv rest :
  be_fields v = Some (id, x, y, z) ->
  0 <= be_local x xpos <= 15 -> 0 <= be_local z zpos <= 15 -> -32768 <= y < 32768 ->
  -2^31 <= entity_type id < 2^31 ->
  C01.wf t -> Proofs.C01_dec.nest_ok t -> v = (C01.tag_id t, C01.payload t) -> (length (snd v) < fuel)%nat ->
  exists b, from_save_be be_fields entity_type xpos zpos v = SOk b /\
    run_flat (be_read fuel oldv) (fst (be_write (bent_val b)) ++ rest) = FOk (bent_val b, lenN (fst (be_write (bent_val b)))) rest /\
    unpack_xz (e_xz b) = (be_local x xpos, be_local z zpos) /\ e_y b = y /\ e_type b = entity_type id /\
    (e_nt b, e_data b) = v.
Proof.
  intros Hf Hx Hz Hy Ht W Nn Hv Hl.
  destruct (from_save_be_spec xpos zpos v id x y z Hf) as [H _].
  destruct (H Hx Hz) as (b & Hb & Hu & Hr & _ & Hyy & Hty & Hd).
  exists b. split; [exact Hb|]. specialize (Hyy Hy).
  assert (Bok: bent_ok b).
  { unfold bent_ok. rewrite Hyy, Hty. split; [exact Hr|]. split; [exact Hy|]. split; [exact Ht|].
    right. exists t. rewrite Hv in Hd. inversion Hd. auto. }
  assert (Hl': (length (e_data b) < fuel)%nat) by (rewrite <- Hd in Hl; exact Hl).
  destruct (be_elem_ok fuel b Bok Hl' oldv rest) as (r & R & E). subst r.
  split; [exact R|]. auto.
Qed.
End Entities.
