(* C13: the recorded copy of what tools/gotrans/c13.go translated from level/chunk.go when the model was
   last reconciled with the source (function bodies, tuple element lists, height-map tables).  The
   *_skel_ok obligations of Proofs/C13_skel.v compare the translation of every run with this copy. *)
From Coq Require Import List String ZArith.
From GoMC Require Import Model.C13_syntax.
Import ListNotations.
Local Open Scope string_scope.

Definition x13_ChunkPos_WriteTo_body : list gstmt :=
  [
    GS "n, err = pk.Int(c[0]).WriteTo(w)";
    GIf "" "err != nil" [
      GS "return"
    ] [];
    GS "n1, err := pk.Int(c[1]).WriteTo(w)";
    GS "return n + n1, err"
  ].

Definition x13_ChunkPos_ReadFrom_body : list gstmt :=
  [
    GS "var x, z pk.Int";
    GIf "n, err = x.ReadFrom(r)" "err != nil" [
      GS "return n, err"
    ] [];
    GS "var n1 int64";
    GIf "n1, err = z.ReadFrom(r)" "err != nil" [
      GS "return n + n1, err"
    ] [];
    GS "*c = ChunkPos{int32(x), int32(z)}";
    GS "return n + n1, nil"
  ].

Definition x13_EmptyChunk_body : list gstmt :=
  [
    GS "sections := make([]Section, secs)";
    GFor "i := range sections" [
      GS "sections[i] = Section{ BlockCount: 0, States: NewStatesPaletteContainer(16*16*16, 0), Biomes: NewBiomesPaletteContainer(4*4*4, 0), }"
    ];
    GS "return &Chunk{ Sections: sections, HeightMaps: HeightMaps{ WorldSurfaceWG: NewBitStorage(bits.Len(uint(secs)*16+1), 16*16, nil), WorldSurface: NewBitStorage(bits.Len(uint(secs)*16+1), 16*16, nil), OceanFloorWG: NewBitStorage(bits.Len(uint(secs)*16+1), 16*16, nil), OceanFloor: NewBitStorage(bits.Len(uint(secs)*16+1), 16*16, nil), MotionBlocking: NewBitStorage(bits.Len(uint(secs)*16+1), 16*16, nil), MotionBlockingNoLeaves: NewBitStorage(bits.Len(uint(secs)*16+1), 16*16, nil), }, Status: StatusEmpty, }"
  ].

Definition x13_ChunkFromSave_body : list gstmt :=
  [
    GS "secs := len(c.Sections)";
    GS "sections := make([]Section, secs)";
    GFor "_, v := range c.Sections" [
      GS "i := int32(v.Y) - c.YPos";
      GIf "" "i < 0 || i >= int32(secs)" [
        GS "return nil, fmt.Errorf(""section Y value %d out of bounds"", v.Y)"
      ] [];
      GS "var err error";
      GS "sections[i].States, err = readStatesPalette(v.BlockStates.Palette, v.BlockStates.Data)";
      GIf "" "err != nil" [
        GS "return nil, err"
      ] [];
      GS "sections[i].BlockCount = countNoneAirBlocks(&sections[i])";
      GS "sections[i].Biomes, err = readBiomesPalette(v.Biomes.Palette, v.Biomes.Data)";
      GIf "" "err != nil" [
        GS "return nil, err"
      ] [];
      GS "sections[i].SkyLight = v.SkyLight";
      GS "sections[i].BlockLight = v.BlockLight"
    ];
    GS "blockEntities := make([]BlockEntity, len(c.BlockEntities))";
    GFor "i, v := range c.BlockEntities" [
      GS "var tmp struct { ID string `nbt:""id""` X int32 `nbt:""x""` Y int32 `nbt:""y""` Z int32 `nbt:""z""` }";
      GIf "err := v.Unmarshal(&tmp)" "err != nil" [
        GS "return nil, err"
      ] [];
      GS "blockEntities[i].Data = v";
      GIf "x, z := int(tmp.X-c.XPos<<4), int(tmp.Z-c.ZPos<<4)" "!blockEntities[i].PackXZ(x, z)" [
        GS "return nil, errors.New(""Packing a XZ("" + strconv.Itoa(x) + "", "" + strconv.Itoa(z) + "") out of bound"")"
      ] [];
      GS "blockEntities[i].Y = int16(tmp.Y)";
      GS "blockEntities[i].Type = block.EntityTypes[tmp.ID]"
    ];
    GS "bitsForHeight := bits.Len(uint(secs)*16 + 1)";
    GS "wantLen := calcBitStorageSize(bitsForHeight, 16*16)";
    GFor "_, name := range []string{""WORLD_SURFACE_WG"", ""WORLD_SURFACE"", ""OCEAN_FLOOR_WG"", ""OCEAN_FLOOR"", ""MOTION_BLOCKING"", ""MOTION_BLOCKING_NO_LEAVES""}" [
      GIf "hm := c.Heightmaps[name]" "hm != nil && len(hm) != wantLen" [
        GS "return nil, fmt.Errorf(""heightmap %s: %w"", name, newBitStorageErr{ArrlLen: len(hm), WantLen: wantLen})"
      ] []
    ];
    GS "return &Chunk{ Sections: sections, HeightMaps: HeightMaps{ WorldSurface: NewBitStorage(bitsForHeight, 16*16, c.Heightmaps[""WORLD_SURFACE""]), WorldSurfaceWG: NewBitStorage(bitsForHeight, 16*16, c.Heightmaps[""WORLD_SURFACE_WG""]), OceanFloorWG: NewBitStorage(bitsForHeight, 16*16, c.Heightmaps[""OCEAN_FLOOR_WG""]), OceanFloor: NewBitStorage(bitsForHeight, 16*16, c.Heightmaps[""OCEAN_FLOOR""]), MotionBlocking: NewBitStorage(bitsForHeight, 16*16, c.Heightmaps[""MOTION_BLOCKING""]), MotionBlockingNoLeaves: NewBitStorage(bitsForHeight, 16*16, c.Heightmaps[""MOTION_BLOCKING_NO_LEAVES""]), }, BlockEntity: blockEntities, Status: ChunkStatus(c.Status), }, nil"
  ].

Definition x13_readStatesPalette_body : list gstmt :=
  [
    GS "statePalette := make([]BlocksState, len(palette))";
    GFor "i, v := range palette" [
      GS "b, ok := block.FromID[v.Name]";
      GIf "" "!ok" [
        GS "return nil, fmt.Errorf(""unknown block id: %v"", v.Name)"
      ] [];
      GIf "" "v.Properties.Data != nil" [
        GIf "err := v.Properties.Unmarshal(&b)" "err != nil" [
          GS "return nil, fmt.Errorf(""unmarshal block properties fail: %v"", err)"
        ] []
      ] [];
      GS "s, ok := block.ToStateID[b]";
      GIf "" "!ok" [
        GS "return nil, fmt.Errorf(""unknown block: %v"", b)"
      ] [];
      GS "statePalette[i] = s"
    ];
    GS "paletteData = NewStatesPaletteContainerWithData(16*16*16, data, statePalette)";
    GS "return"
  ].

Definition x13_readBiomesPalette_body : list gstmt :=
  [
    GS "biomesRawPalette := make([]BiomesState, len(palette))";
    GFor "i, v := range palette" [
      GS "err := biomesRawPalette[i].UnmarshalText([]byte(v))";
      GIf "" "err != nil" [
        GS "return nil, err"
      ] []
    ];
    GS "return NewBiomesPaletteContainerWithData(4*4*4, data, biomesRawPalette), nil"
  ].

Definition x13_countNoneAirBlocks_body : list gstmt :=
  [
    GFor "i := 0; i < 16*16*16; i++" [
      GS "b := sec.GetBlock(i)";
      GIf "" "!block.IsAir(b)" [
        GS "blockCount++"
      ] []
    ];
    GS "return"
  ].

Definition x13_ChunkToSave_body : list gstmt :=
  [
    GS "secs := len(c.Sections)";
    GS "sections := make([]save.Section, secs)";
    GFor "i, v := range c.Sections" [
      GS "s := &sections[i]";
      GS "states := &s.BlockStates";
      GS "biomes := &s.Biomes";
      GS "s.Y = int8(int32(i) + dst.YPos)";
      GS "states.Palette, states.Data, err = writeStatesPalette(v.States)";
      GIf "" "err != nil" [
        GS "return"
      ] [];
      GS "biomes.Palette, biomes.Data, err = writeBiomesPalette(v.Biomes)";
      GIf "" "err != nil" [
        GS "return"
      ] [];
      GS "s.SkyLight = v.SkyLight";
      GS "s.BlockLight = v.BlockLight"
    ];
    GS "dst.Sections = sections";
    GIf "" "dst.Heightmaps == nil" [
      GS "dst.Heightmaps = make(map[string][]uint64)"
    ] [];
    GS "dst.Heightmaps[""WORLD_SURFACE_WG""] = c.HeightMaps.WorldSurfaceWG.Raw()";
    GS "dst.Heightmaps[""WORLD_SURFACE""] = c.HeightMaps.WorldSurface.Raw()";
    GS "dst.Heightmaps[""OCEAN_FLOOR_WG""] = c.HeightMaps.OceanFloorWG.Raw()";
    GS "dst.Heightmaps[""OCEAN_FLOOR""] = c.HeightMaps.OceanFloor.Raw()";
    GS "dst.Heightmaps[""MOTION_BLOCKING""] = c.HeightMaps.MotionBlocking.Raw()";
    GS "dst.Heightmaps[""MOTION_BLOCKING_NO_LEAVES""] = c.HeightMaps.MotionBlockingNoLeaves.Raw()";
    GS "dst.Status = string(c.Status)";
    GS "return"
  ].

Definition x13_writeStatesPalette_body : list gstmt :=
  [
    GS "rawPalette := paletteData.palette.export()";
    GS "palette = make([]save.BlockState, len(rawPalette))";
    GS "var buffer bytes.Buffer";
    GFor "i, v := range rawPalette" [
      GS "b := block.StateList[v]";
      GS "palette[i].Name = b.ID()";
      GS "buffer.Reset()";
      GS "err = nbt.NewEncoder(&buffer).Encode(b, """")";
      GIf "" "err != nil" [
        GS "return"
      ] [];
      GS "_, err = nbt.NewDecoder(&buffer).Decode(&palette[i].Properties)";
      GIf "" "err != nil" [
        GS "return"
      ] []
    ];
    GS "data = make([]uint64, len(paletteData.data.Raw()))";
    GS "copy(data, paletteData.data.Raw())";
    GS "return"
  ].

Definition x13_writeBiomesPalette_body : list gstmt :=
  [
    GS "rawPalette := paletteData.palette.export()";
    GS "palette = make([]save.BiomeState, len(rawPalette))";
    GS "var biomeID []byte";
    GFor "i, v := range rawPalette" [
      GS "biomeID, err = v.MarshalText()";
      GIf "" "err != nil" [
        GS "return"
      ] [];
      GS "palette[i] = save.BiomeState(biomeID)"
    ];
    GS "data = make([]uint64, len(paletteData.data.Raw()))";
    GS "copy(data, paletteData.data.Raw())";
    GS "return"
  ].

Definition x13_Chunk_WriteTo_body : list gstmt :=
  [
    GS "data, err := c.Data()";
    GIf "" "err != nil" [
      GS "return 0, err"
    ] [];
    GS "light := lightData{ SkyLightMask: make(pk.BitSet, (16*16*16-1)>>6+1), BlockLightMask: make(pk.BitSet, (16*16*16-1)>>6+1), SkyLight: []pk.ByteArray{}, BlockLight: []pk.ByteArray{}, }";
    GFor "i, v := range c.Sections" [
      GIf "" "v.SkyLight != nil" [
        GS "light.SkyLightMask.Set(i, true)";
        GS "light.SkyLight = append(light.SkyLight, v.SkyLight)"
      ] [];
      GIf "" "v.BlockLight != nil" [
        GS "light.BlockLightMask.Set(i, true)";
        GS "light.BlockLight = append(light.BlockLight, v.BlockLight)"
      ] []
    ];
    GS "return pk.Tuple{ pk.NBT(struct { MotionBlocking []uint64 `nbt:""MOTION_BLOCKING""` WorldSurface []uint64 `nbt:""WORLD_SURFACE""` }{ MotionBlocking: c.HeightMaps.MotionBlocking.Raw(), WorldSurface: c.HeightMaps.WorldSurface.Raw(), }), pk.ByteArray(data), pk.Array(c.BlockEntity), &light, }.WriteTo(w)"
  ].

Definition x13_Chunk_ReadFrom_body : list gstmt :=
  [
    GS "var ( heightmaps struct { MotionBlocking []uint64 `nbt:""MOTION_BLOCKING""` WorldSurface []uint64 `nbt:""WORLD_SURFACE""` } data pk.ByteArray )";
    GS "n, err := pk.Tuple{ pk.NBT(&heightmaps), &data, pk.Array(&c.BlockEntity), &lightData{ SkyLightMask: make(pk.BitSet, (16*16*16-1)>>6+1), BlockLightMask: make(pk.BitSet, (16*16*16-1)>>6+1), SkyLight: []pk.ByteArray{}, BlockLight: []pk.ByteArray{}, }, }.ReadFrom(r)";
    GIf "" "err != nil" [
      GS "return n, err"
    ] [];
    GS "bitsForHeight := bits.Len(uint(len(c.Sections))*16 + 1)";
    GS "wantLen := calcBitStorageSize(bitsForHeight, 16*16)";
    GFor "_, hm := range [][]uint64{heightmaps.MotionBlocking, heightmaps.WorldSurface}" [
      GIf "" "hm != nil && len(hm) != wantLen" [
        GS "return n, newBitStorageErr{ArrlLen: len(hm), WantLen: wantLen}"
      ] []
    ];
    GS "c.HeightMaps.MotionBlocking = NewBitStorage(bitsForHeight, 16*16, heightmaps.MotionBlocking)";
    GS "c.HeightMaps.WorldSurface = NewBitStorage(bitsForHeight, 16*16, heightmaps.WorldSurface)";
    GS "err = c.PutData(data)";
    GS "return n, err"
  ].

Definition x13_Chunk_Data_body : list gstmt :=
  [
    GS "var buff bytes.Buffer";
    GFor "i := range c.Sections" [
      GS "_, err := c.Sections[i].WriteTo(&buff)";
      GIf "" "err != nil" [
        GS "return nil, err"
      ] []
    ];
    GS "return buff.Bytes(), nil"
  ].

Definition x13_Chunk_PutData_body : list gstmt :=
  [
    GS "r := bytes.NewReader(data)";
    GFor "i := range c.Sections" [
      GS "_, err := c.Sections[i].ReadFrom(r)";
      GIf "" "err != nil" [
        GS "return err"
      ] []
    ];
    GS "return nil"
  ].

Definition x13_BlockEntity_UnpackXZ_body : list gstmt :=
  [
    GS "return int((uint8(b.XZ) >> 4) & 0xF), int(uint8(b.XZ) & 0xF)"
  ].

Definition x13_BlockEntity_PackXZ_body : list gstmt :=
  [
    GIf "" "X > 0xF || Z > 0xF || X < 0 || Z < 0" [
      GS "return false"
    ] [];
    GS "b.XZ = int8(X<<4 | Z)";
    GS "return true"
  ].

Definition x13_BlockEntity_WriteTo_body : list gstmt :=
  [
    GS "data := pk.NBT(b.Data)";
    GIf "" "b.Data.Type == nbt.TagEnd" [
      GS "data = pk.NBT(nil)"
    ] [];
    GS "return pk.Tuple{ pk.Byte(b.XZ), pk.Short(b.Y), pk.VarInt(b.Type), data, }.WriteTo(w)"
  ].

Definition x13_BlockEntity_ReadFrom_body : list gstmt :=
  [
    GS "b.Data.Type, b.Data.Data = nbt.TagEnd, b.Data.Data[:0]";
    GS "return pk.Tuple{ (*pk.Byte)(&b.XZ), (*pk.Short)(&b.Y), (*pk.VarInt)(&b.Type), pk.NBT(&b.Data), }.ReadFrom(r)"
  ].

Definition x13_Section_GetBlock_body : list gstmt :=
  [
    GS "return s.States.Get(i)"
  ].

Definition x13_Section_SetBlock_body : list gstmt :=
  [
    GIf "" "!block.IsAir(s.States.Get(i))" [
      GS "s.BlockCount--"
    ] [];
    GIf "" "!block.IsAir(v)" [
      GS "s.BlockCount++"
    ] [];
    GS "s.States.Set(i, v)"
  ].

Definition x13_Section_WriteTo_body : list gstmt :=
  [
    GS "return pk.Tuple{ pk.Short(s.BlockCount), s.States, s.Biomes, }.WriteTo(w)"
  ].

Definition x13_Section_ReadFrom_body : list gstmt :=
  [
    GS "return pk.Tuple{ (*pk.Short)(&s.BlockCount), s.States, s.Biomes, }.ReadFrom(r)"
  ].

Definition x13_bitSetRev_body : list gstmt :=
  [
    GS "rev := make(pk.BitSet, len(set))";
    GFor "i := range rev" [
      GS "rev[i] = ^set[i]"
    ];
    GS "return rev"
  ].

Definition x13_lightData_WriteTo_body : list gstmt :=
  [
    GS "return pk.Tuple{ l.SkyLightMask, l.BlockLightMask, bitSetRev(l.SkyLightMask), bitSetRev(l.BlockLightMask), pk.Array(l.SkyLight), pk.Array(l.BlockLight), }.WriteTo(w)"
  ].

Definition x13_lightData_ReadFrom_body : list gstmt :=
  [
    GS "var RevSkyLightMask, RevBlockLightMask pk.BitSet";
    GS "return pk.Tuple{ &l.SkyLightMask, &l.BlockLightMask, &RevSkyLightMask, &RevBlockLightMask, pk.Array(&l.SkyLight), pk.Array(&l.BlockLight), }.ReadFrom(r)"
  ].

Definition x13_functions : list string := ["ChunkPos_WriteTo"; "ChunkPos_ReadFrom"; "EmptyChunk"; "ChunkFromSave"; "readStatesPalette"; "readBiomesPalette"; "countNoneAirBlocks"; "ChunkToSave"; "writeStatesPalette"; "writeBiomesPalette"; "Chunk_WriteTo"; "Chunk_ReadFrom"; "Chunk_Data"; "Chunk_PutData"; "BlockEntity_UnpackXZ"; "BlockEntity_PackXZ"; "BlockEntity_WriteTo"; "BlockEntity_ReadFrom"; "Section_GetBlock"; "Section_SetBlock"; "Section_WriteTo"; "Section_ReadFrom"; "bitSetRev"; "lightData_WriteTo"; "lightData_ReadFrom"].

Definition x13_Section_WriteTo_fields : list cfield := [
  FConv "pk.Short" "s.BlockCount";
  FSel "s.States";
  FSel "s.Biomes"
].

Definition x13_Section_ReadFrom_fields : list cfield := [
  FPtrConv "pk.Short" "s.BlockCount";
  FSel "s.States";
  FSel "s.Biomes"
].

Definition x13_BlockEntity_WriteTo_fields : list cfield := [
  FConv "pk.Byte" "b.XZ";
  FConv "pk.Short" "b.Y";
  FConv "pk.VarInt" "b.Type";
  FSel "data"
].

Definition x13_BlockEntity_ReadFrom_fields : list cfield := [
  FPtrConv "pk.Byte" "b.XZ";
  FPtrConv "pk.Short" "b.Y";
  FPtrConv "pk.VarInt" "b.Type";
  FCallAddr "pk.NBT" "b.Data"
].

Definition x13_lightData_WriteTo_fields : list cfield := [
  FSel "l.SkyLightMask";
  FSel "l.BlockLightMask";
  FCall "bitSetRev" "l.SkyLightMask";
  FCall "bitSetRev" "l.BlockLightMask";
  FCall "pk.Array" "l.SkyLight";
  FCall "pk.Array" "l.BlockLight"
].

Definition x13_lightData_ReadFrom_fields : list cfield := [
  FAddr "l.SkyLightMask";
  FAddr "l.BlockLightMask";
  FAddr "RevSkyLightMask";
  FAddr "RevBlockLightMask";
  FCallAddr "pk.Array" "l.SkyLight";
  FCallAddr "pk.Array" "l.BlockLight"
].

Definition x13_Chunk_WriteTo_fields : list cfield := [
  FNBTStruct [("MotionBlocking", "MOTION_BLOCKING", "c.HeightMaps.MotionBlocking.Raw()"); ("WorldSurface", "WORLD_SURFACE", "c.HeightMaps.WorldSurface.Raw()")];
  FConv "pk.ByteArray" "data";
  FCall "pk.Array" "c.BlockEntity";
  FAddr "light"
].

Definition x13_Chunk_ReadFrom_fields : list cfield := [
  FCallAddr "pk.NBT" "heightmaps";
  FAddr "data";
  FCallAddr "pk.Array" "c.BlockEntity";
  FNew "lightData" [("SkyLightMask", "make(pk.BitSet, (16*16*16-1)>>6+1)"); ("BlockLightMask", "make(pk.BitSet, (16*16*16-1)>>6+1)"); ("SkyLight", "[]pk.ByteArray{}"); ("BlockLight", "[]pk.ByteArray{}")]
].

Definition x13_ChunkFromSave_heightmaps : list (string * string * string * string) := [
  ("WorldSurface", "WORLD_SURFACE", "bitsForHeight", "16 * 16");
  ("WorldSurfaceWG", "WORLD_SURFACE_WG", "bitsForHeight", "16 * 16");
  ("OceanFloorWG", "OCEAN_FLOOR_WG", "bitsForHeight", "16 * 16");
  ("OceanFloor", "OCEAN_FLOOR", "bitsForHeight", "16 * 16");
  ("MotionBlocking", "MOTION_BLOCKING", "bitsForHeight", "16 * 16");
  ("MotionBlockingNoLeaves", "MOTION_BLOCKING_NO_LEAVES", "bitsForHeight", "16 * 16")
].

Definition x13_ChunkToSave_heightmaps : list (string * string) := [
  ("WORLD_SURFACE_WG", "WorldSurfaceWG");
  ("WORLD_SURFACE", "WorldSurface");
  ("OCEAN_FLOOR_WG", "OceanFloorWG");
  ("OCEAN_FLOOR", "OceanFloor");
  ("MOTION_BLOCKING", "MotionBlocking");
  ("MOTION_BLOCKING_NO_LEAVES", "MotionBlockingNoLeaves")
].

Definition x13_Chunk_ReadFrom_heightmaps : list (string * string * string * string) := [
  ("MotionBlocking", "heightmaps.MotionBlocking", "bitsForHeight", "16 * 16");
  ("WorldSurface", "heightmaps.WorldSurface", "bitsForHeight", "16 * 16")
].

Definition x13_Chunk_ReadFrom_struct : list (string * string * string) := [
  ("MotionBlocking", "MOTION_BLOCKING", "[]uint64");
  ("WorldSurface", "WORLD_SURFACE", "[]uint64")
].
