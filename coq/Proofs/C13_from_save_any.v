(* C13: ChunkFromSave on an ARBITRARY save chunk - any section list (any order, duplicate Y, Y outside the chunk),
   any height-map table (keys present, absent, of the wrong length).  What the code does with it, stated
   without the loop: slot j of the result is the conversion of the LAST save section whose index
   int32(Y) - YPos is j, a slot no section names stays the zero Section, nothing else is written; the first
   section (in list order) that is out of range or does not convert decides the failure; each of the six height
   maps is the storage over the longs found under ITS OWN key (zero-filled when the key is absent), a present
   key of the wrong length is an error; the status is kept.  Then the same for chunks whose sections are in the
   vanilla layout (any palette size), where the converted section is described by C12's independent reader of
   the layout (through from_save_sec_refines: the field-level constructor IS C12's). *)
From Coq Require Import List Arith NArith ZArith Lia Bool.
From GoMC Require Import Base.Bytes Base.Dec Model.C05 Model.C11 Model.C13 Proofs.C13 Proofs.C13_save Proofs.C13_vanilla
  Proofs.C13_refine Proofs.C13_refine_full.
From GoMC Require Model.C12 Proofs.C11 Proofs.C12.
Import ListNotations.
Open Scope Z_scope.

Section FromSaveAny.
Variable st_id : list N * (N * list N) -> option Z.
Variable bio_id : list N -> option Z.
Variable is_air : Z -> bool.
Variable gs gb : Z.

Definition conv (v : ssect) : sres (sect wcont) := from_save_sec st_id bio_id is_air gs gb v.
(* i := int32(v.Y) - c.YPos ; i < 0 || i >= int32(secs) *)
Definition sidx (ypos : Z) (v : ssect) : Z := sx32 (u32 (ss_y v - ypos)).
Definition oob (ypos secs : Z) (v : ssect) : bool := (sidx ypos v <? 0) || (secs <=? sidx ypos v).
Definition sec_good (ypos secs : Z) (v : ssect) : Prop := oob ypos secs v = false /\ exists s, conv v = SOk s.
(* what the loop returns at the first section that is not good *)
Definition bad_result {A} (ypos secs : Z) (v : ssect) : sres A :=
  if oob ypos secs v then SErr else match conv v with SPanic w => SPanic w | _ => SErr end.

(* the LAST save section whose index is j *)
Fixpoint last_for (ypos : Z) (j : nat) (vs : list ssect) : option ssect :=
  match vs with
  | [] => None
  | v :: t => match last_for ypos j t with
              | Some x => Some x
              | None => if sidx ypos v =? Z.of_nat j then Some v else None
              end
  end.
Definition conv_opt (v : ssect) : option (sect wcont) := match conv v with SOk s => Some s | _ => None end.

Lemma last_for_in ypos j : forall vs v, last_for ypos j vs = Some v -> In v vs /\ sidx ypos v = Z.of_nat j.
Proof.
  induction vs as [|x t IH]; intros v H; cbn [last_for] in H; [discriminate|].
  destruct (last_for ypos j t) as [y|] eqn:E.
  - inversion H; subst y. destruct (IH v eq_refl) as [A B]. split; [right; exact A|exact B].
  - destruct (Z.eqb_spec (sidx ypos x) (Z.of_nat j)) as [Ej|]; [|discriminate]. inversion H; subst x.
    split; [left; reflexivity|exact Ej].
Qed.
Lemma last_for_none ypos j : forall vs, last_for ypos j vs = None <-> (forall v, In v vs -> sidx ypos v <> Z.of_nat j).
Proof.
  induction vs as [|x t IH]; cbn [last_for]; [split; [intros _ v []|reflexivity]|].
  destruct (last_for ypos j t) as [y|] eqn:E.
  - split; [discriminate|]. intros H. destruct (last_for_in ypos j t y E) as [A B].
    exfalso. exact (H y (or_intror A) B).
  - destruct (Z.eqb_spec (sidx ypos x) (Z.of_nat j)) as [Ej|Nj].
    + split; [discriminate|]. intros H. exfalso. exact (H x (or_introl eq_refl) Ej).
    + split; [|reflexivity]. intros _ v [<-|Hv]; [exact Nj|]. apply (proj1 IH eq_refl). exact Hv.
Qed.

(* ---------- the section loop ---------- *)
Lemma secs_any_ok ypos secs : forall vs acc, Forall (sec_good ypos secs) vs -> secs <= Z.of_nat (length acc) ->
  exists ss, from_save_secs st_id bio_id is_air gs gb ypos secs vs acc = SOk ss /\ length ss = length acc /\
    forall j, nth j ss None = match last_for ypos j vs with Some v => conv_opt v | None => nth j acc None end.
Proof.
  induction vs as [|v t IH]; intros acc Hg Hl.
  - exists acc. split; [reflexivity|]. split; [reflexivity|]. intros j. reflexivity.
  - inversion Hg as [|? ? [Ho [s Hs]] Ht]; subst.
    destruct (IH (upd_at acc (Z.to_nat (sidx ypos v)) (Some s)) Ht
                 ltac:(unfold upd_at; rewrite Proofs.C11.upd_nth_length; exact Hl)) as (ss & E & L & Hn).
    exists ss. split; [|split].
    + cbn [from_save_secs]. cbv zeta. fold (sidx ypos v). unfold oob in Ho. rewrite Ho.
      unfold conv in Hs. rewrite Hs. exact E.
    + rewrite L. unfold upd_at. apply Proofs.C11.upd_nth_length.
    + intros j. rewrite Hn. cbn [last_for]. destruct (last_for ypos j t) as [y|]; [reflexivity|].
      unfold oob in Ho. apply orb_false_iff in Ho. destruct Ho as [Ho1 Ho2].
      apply Z.ltb_ge in Ho1. apply Z.leb_gt in Ho2.
      destruct (Z.eqb_spec (sidx ypos v) (Z.of_nat j)) as [Ej|Nj].
      * unfold upd_at. rewrite Ej, Nat2Z.id. rewrite Proofs.C11.nth_upd_nth_eq by lia.
        unfold conv_opt. rewrite Hs. reflexivity.
      * unfold upd_at. apply Proofs.C11.nth_upd_nth_neq. lia.
Qed.

Lemma secs_any_bad ypos secs : forall pre v post acc, Forall (sec_good ypos secs) pre -> ~ sec_good ypos secs v ->
  from_save_secs st_id bio_id is_air gs gb ypos secs (pre ++ v :: post) acc = bad_result ypos secs v.
Proof.
  induction pre as [|p pre IH]; intros v post acc Hg Hb.
  - cbn [app from_save_secs]. cbv zeta. fold (sidx ypos v). unfold bad_result.
    change ((sidx ypos v <? 0) || (secs <=? sidx ypos v)) with (oob ypos secs v).
    destruct (oob ypos secs v) eqn:Ho; [reflexivity|]. fold (conv v).
    destruct (conv v) as [s| |w] eqn:Ec; try reflexivity.
    exfalso. apply Hb. split; [exact Ho|exists s; exact Ec].
  - inversion Hg as [|? ? [Ho [s Hs]] Ht]; subst. cbn [app from_save_secs]. cbv zeta. fold (sidx ypos p).
    unfold oob in Ho. rewrite Ho. unfold conv in Hs. rewrite Hs. apply IH; assumption.
Qed.

(* a list of sections is all good or has a first bad one *)
Lemma good_or_first_bad ypos secs : forall vs,
  Forall (sec_good ypos secs) vs \/
  exists pre v post, vs = pre ++ v :: post /\ Forall (sec_good ypos secs) pre /\ ~ sec_good ypos secs v.
Proof.
  induction vs as [|x t IH]; [left; constructor|].
  assert (D: sec_good ypos secs x \/ ~ sec_good ypos secs x).
  { unfold sec_good. destruct (oob ypos secs x); [right; intros [H _]; discriminate|].
    destruct (conv x) as [s| |w]; [left; split; [reflexivity|exists s; reflexivity]| |];
      right; intros [_ [s H]]; discriminate. }
  destruct D as [Gx|Bx].
  - destruct IH as [Gt|(pre & v & post & E & Gp & Bv)]; [left; constructor; assumption|].
    right. exists (x :: pre), v, post. subst t. split; [reflexivity|]. split; [constructor; assumption|exact Bv].
  - right. exists [], x, t. split; [reflexivity|]. split; [constructor|exact Bx].
Qed.

(* ---------- the height maps ---------- *)
Lemma hm_bits_pos n : 1 <= hm_bits n.
Proof.
  unfold hm_bits, bitlen. destruct (Z.to_N (Z.of_N n * 16 + 1)) as [|p] eqn:E; [lia|].
  cbn [N.size Z.of_N]. lia.
Qed.
Lemma want_nonneg b want : 1 <= b -> calc_size b hm_len = Some want -> 0 <= want.
Proof.
  intros Hb H. unfold calc_size in H. replace (b =? 0) with false in H by lia.
  pose proof (Z.quot_pos 64 b ltac:(lia) ltac:(lia)) as Hv.
  destruct (Z.eqb_spec (Z.quot 64 b) 0) as [|Hn]; [discriminate|].
  assert (SI: forall x y : Z, Some x = Some y -> x = y) by (intros x y E; inversion E; reflexivity).
  apply SI in H. rewrite <- H. set (v := Z.quot 64 b) in *. clearbody v. apply Z.quot_pos; unfold hm_len; lia.
Qed.

(* NewBitStorage(bitsForHeight, 256, raw) for raw nil or of the wanted length *)
Definition hm_store (n : N) (want : Z) (raw : option (list N)) : option bstore :=
  let b := hm_bits n in
  Some (mkBS (match raw with Some l => l | None => repeat 0%N (Z.to_nat want) end) (mk_mask b) b hm_len (Z.quot 64 b)).
Definition len_ok (want : Z) (raw : option (list N)) : Prop :=
  match raw with Some l => Z.of_N (lenN l) = want | None => True end.

Lemma new_hm_save_any n want raw : calc_size (hm_bits n) hm_len = Some want -> len_ok want raw ->
  new_hm_save n raw = SOk (hm_store n want raw).
Proof.
  intros Hc Hl. pose proof (hm_bits_pos n) as Hb. pose proof (want_nonneg _ _ Hb Hc) as Hw.
  unfold new_hm_save, bs_new, hm_store. rewrite Hc.
  replace (hm_bits n =? 0) with false by lia. replace (hm_bits n <? 0) with false by lia.
  replace (want <? 0) with false by lia.
  destruct raw as [l|]; [|reflexivity]. cbn [len_ok] in Hl. rewrite Hl, Z.eqb_refl. reflexivity.
Qed.

Definition hm_lens_ok (c : schunk) (want : Z) : Prop :=
  forall k, In k six_keys -> len_ok want (hm_lookup k (sc_hm c)).

(* ---------- ChunkFromSave, any save chunk ---------- *)
Definition nsecs (c : schunk) : Z := Z.of_N (lenN (sc_secs c)).

(* SUCCESS: exactly when every section is in range and converts, and every present height map has the wanted length *)
Theorem from_save_any_ok (c : schunk) want :
  Forall (sec_good (sc_ypos c) (nsecs c)) (sc_secs c) ->
  calc_size (hm_bits (lenN (sc_secs c))) hm_len = Some want -> hm_lens_ok c want ->
  exists ss, from_save st_id bio_id is_air gs gb c =
    SOk (ss, mkHM (hm_store (lenN (sc_secs c)) want (hm_lookup kWSWG (sc_hm c)))
                  (hm_store (lenN (sc_secs c)) want (hm_lookup kWS (sc_hm c)))
                  (hm_store (lenN (sc_secs c)) want (hm_lookup kOFWG (sc_hm c)))
                  (hm_store (lenN (sc_secs c)) want (hm_lookup kOF (sc_hm c)))
                  (hm_store (lenN (sc_secs c)) want (hm_lookup kMB (sc_hm c)))
                  (hm_store (lenN (sc_secs c)) want (hm_lookup kMBNL (sc_hm c))), sc_status c) /\
    length ss = length (sc_secs c) /\
    forall j, nth j ss None = match last_for (sc_ypos c) j (sc_secs c) with Some v => conv_opt v | None => None end.
Proof.
  intros Hg Hc Hh.
  destruct (secs_any_ok (sc_ypos c) (nsecs c) (sc_secs c) (repeat None (length (sc_secs c))) Hg
              ltac:(rewrite repeat_length; unfold nsecs, lenN; lia)) as (ss & E & L & Hn).
  exists ss. split; [|split].
  - unfold from_save. unfold nsecs in E. rewrite E, Hc.
    assert (X: existsb (fun k => match hm_lookup k (sc_hm c) with
                                 | Some l => negb (Z.of_N (lenN l) =? want) | None => false end)
                       [kWSWG; kWS; kOFWG; kOF; kMB; kMBNL] = false).
    { apply not_true_is_false. intros T. apply existsb_exists in T. destruct T as (k & Hk & Tk).
      pose proof (Hh k Hk) as Hlk. destruct (hm_lookup k (sc_hm c)) as [l|]; [|discriminate].
      cbn [len_ok] in Hlk. rewrite Hlk, Z.eqb_refl in Tk. discriminate. }
    rewrite X.
    rewrite (new_hm_save_any _ want (hm_lookup kWS (sc_hm c)) Hc) by (apply Hh; cbn; tauto).
    rewrite (new_hm_save_any _ want (hm_lookup kWSWG (sc_hm c)) Hc) by (apply Hh; cbn; tauto).
    rewrite (new_hm_save_any _ want (hm_lookup kOFWG (sc_hm c)) Hc) by (apply Hh; cbn; tauto).
    rewrite (new_hm_save_any _ want (hm_lookup kOF (sc_hm c)) Hc) by (apply Hh; cbn; tauto).
    rewrite (new_hm_save_any _ want (hm_lookup kMB (sc_hm c)) Hc) by (apply Hh; cbn; tauto).
    rewrite (new_hm_save_any _ want (hm_lookup kMBNL (sc_hm c)) Hc) by (apply Hh; cbn; tauto).
    reflexivity.
  - rewrite L. apply repeat_length.
  - intros j. rewrite Hn. destruct (last_for (sc_ypos c) j (sc_secs c)); [reflexivity|].
    clear. generalize (length (sc_secs c)). intros n. revert j. induction n as [|n IH]; intros [|j]; cbn [repeat nth]; auto.
Qed.

(* FAILURE 1: the first section that is out of range or does not convert decides *)
Theorem from_save_any_bad_section (c : schunk) pre v post :
  sc_secs c = pre ++ v :: post -> Forall (sec_good (sc_ypos c) (nsecs c)) pre -> ~ sec_good (sc_ypos c) (nsecs c) v ->
  from_save st_id bio_id is_air gs gb c = bad_result (sc_ypos c) (nsecs c) v.
Proof.
  intros Es Hg Hb. unfold from_save.
  pose proof (secs_any_bad (sc_ypos c) (nsecs c) pre v post (repeat None (length (sc_secs c))) Hg Hb) as E.
  rewrite <- Es in E. unfold nsecs in *. rewrite E. unfold bad_result.
  destruct (oob (sc_ypos c) (Z.of_N (lenN (sc_secs c))) v); [reflexivity|]. destruct (conv v); reflexivity.
Qed.

(* FAILURE 2: a present height map of the wrong length is an error (fix 7330cba) *)
Theorem from_save_any_bad_heightmap (c : schunk) want k l :
  Forall (sec_good (sc_ypos c) (nsecs c)) (sc_secs c) ->
  calc_size (hm_bits (lenN (sc_secs c))) hm_len = Some want ->
  In k six_keys -> hm_lookup k (sc_hm c) = Some l -> Z.of_N (lenN l) <> want ->
  from_save st_id bio_id is_air gs gb c = SErr.
Proof.
  intros Hg Hc Hk Hl Hne.
  destruct (secs_any_ok (sc_ypos c) (nsecs c) (sc_secs c) (repeat None (length (sc_secs c))) Hg
              ltac:(rewrite repeat_length; unfold nsecs, lenN; lia)) as (ss & E & _).
  unfold from_save. unfold nsecs in E. rewrite E, Hc.
  assert (X: existsb (fun k => match hm_lookup k (sc_hm c) with
                               | Some l => negb (Z.of_N (lenN l) =? want) | None => false end)
                     [kWSWG; kWS; kOFWG; kOF; kMB; kMBNL] = true).
  { apply existsb_exists. exists k. split; [exact Hk|]. rewrite Hl. apply negb_true_iff. apply Z.eqb_neq. exact Hne. }
  rewrite X. reflexivity.
Qed.

(* and these are all the cases: success implies the premises of from_save_any_ok *)
Theorem from_save_any_inv (c : schunk) r :
  from_save st_id bio_id is_air gs gb c = SOk r ->
  Forall (sec_good (sc_ypos c) (nsecs c)) (sc_secs c) /\
  exists want, calc_size (hm_bits (lenN (sc_secs c))) hm_len = Some want /\ hm_lens_ok c want.
Proof.
  intros H.
  assert (G: Forall (sec_good (sc_ypos c) (nsecs c)) (sc_secs c)).
  { destruct (good_or_first_bad (sc_ypos c) (nsecs c) (sc_secs c)) as [G|(pre & v & post & Es & Gp & Bv)]; [exact G|].
    rewrite (from_save_any_bad_section c pre v post Es Gp Bv) in H. unfold bad_result in H.
    destruct (oob (sc_ypos c) (nsecs c) v); [discriminate|]. destruct (conv v); discriminate. }
  split; [exact G|].
  destruct (calc_size (hm_bits (lenN (sc_secs c))) hm_len) as [want|] eqn:Hc.
  - exists want. split; [reflexivity|]. intros k Hk. unfold len_ok.
    destruct (hm_lookup k (sc_hm c)) as [l|] eqn:Hl; [|exact I].
    destruct (Z.eq_dec (Z.of_N (lenN l)) want) as [|Hne]; [assumption|].
    rewrite (from_save_any_bad_heightmap c want k l G Hc Hk Hl Hne) in H. discriminate.
  - exfalso. unfold from_save in H. rewrite Hc in H.
    destruct (from_save_secs st_id bio_id is_air gs gb (sc_ypos c) (Z.of_N (lenN (sc_secs c))) (sc_secs c)
                (repeat None (length (sc_secs c)))); discriminate.
Qed.
End FromSaveAny.

(* ---------- sections in the vanilla layout: what the converted section holds ---------- *)
Section VanillaChunk.
Variable st_id : list N * (N * list N) -> option Z.
Variable bio_id : list N -> option Z.
Variable is_air : Z -> bool.
Variable gs gb : Z.
Hypothesis gs_ok : Proofs.C12.wfcfg (cf_of gs gb false).
Hypothesis gb_ok : Proofs.C12.wfcfg (cf_of gs gb true).

(* the save section v is in the vanilla layout and denotes block states a, biomes b *)
Definition vanilla_sec (v : ssect) (a b : list Z) : Prop :=
  exists ids bids, opt_all (map st_id (ss_bpal v)) = Some ids /\ opt_all (map bio_id (ss_biopal v)) = Some bids /\
    vanilla_ok (cf_of gs gb false) ids (ss_bdata v) a /\ vanilla_ok (cf_of gs gb true) bids (ss_biodata v) b.
(* the level section s holds a, b, the recount and v's light *)
Definition sec_holds (v : ssect) (a b : list Z) (s : sect wcont) : Prop :=
  length a = 4096%nat /\ length b = 64%nat /\
  (forall i, (i < 4096)%nat -> wc_get (s_states s) (Z.of_nat i) = ORet (nth i a 0)) /\
  (forall i, (i < 64)%nat -> wc_get (s_biomes s) (Z.of_nat i) = ORet (nth i b 0)) /\
  s_count s = non_air is_air a /\ s_sky s = ss_sky v /\ s_blk s = ss_blk v.

Lemma vanilla_conv v a b : vanilla_sec v a b ->
  exists s, conv st_id bio_id is_air gs gb v = SOk s /\ sec_holds v a b s.
Proof.
  intros (ids & bids & E1 & E2 & V1 & V2).
  destruct (vanilla_section st_id bio_id is_air gs gb gs_ok gb_ok v ids bids a b E1 E2 V1 V2)
    as (s & Hs & Is & Ib & As & Ab & La & Lb & Hc & Hsky & Hblk).
  pose proof (from_save_sec_refines st_id bio_id is_air gs gb v) as R. rewrite Hs in R. unfold conv.
  destruct (from_save_sec st_id bio_id is_air gs gb v) as [w| |w]; cbn in R; try contradiction. subst w.
  exists (sec_to_w s). split; [reflexivity|]. unfold sec_holds, sec_to_w. cbn [s_states s_biomes s_count s_sky s_blk].
  split; [exact La|]. split; [exact Lb|].
  assert (B1: blen (C12.cdata (s_states s)) = 4096).
  { pose proof (Proofs.C12.pabs_length (s_states s)) as P. rewrite As, La in P. lia. }
  assert (B2: blen (C12.cdata (s_biomes s)) = 64).
  { pose proof (Proofs.C12.pabs_length (s_biomes s)) as P. rewrite Ab, Lb in P. lia. }
  split; [|split; [|auto]].
  - intros i Hi. rewrite get_same. rewrite (Proofs.C12.get_abs _ (Z.of_nat i) Is) by lia.
    rewrite Nat2Z.id, As. reflexivity.
  - intros i Hi. rewrite get_same. rewrite (Proofs.C12.get_abs _ (Z.of_nat i) Ib) by lia.
    rewrite Nat2Z.id, Ab. reflexivity.
Qed.

(* ChunkFromSave of a save chunk whose sections - in ANY order, with ANY repetition of Y - are in range and in the
   vanilla layout, with each height-map key absent or of the wanted length: it succeeds; slot j holds the arrays of
   the LAST section naming j (every block state, every biome, the recount, its light arrays); a slot no section
   names is the zero Section; the six height maps come each from its own key; the status is kept *)
Theorem from_save_vanilla_chunk (c : schunk) want :
  (forall v, In v (sc_secs c) -> oob (sc_ypos c) (nsecs c) v = false /\ exists a b, vanilla_sec v a b) ->
  calc_size (hm_bits (lenN (sc_secs c))) hm_len = Some want -> hm_lens_ok c want ->
  exists ss, from_save st_id bio_id is_air gs gb c =
    SOk (ss, mkHM (hm_store (lenN (sc_secs c)) want (hm_lookup kWSWG (sc_hm c)))
                  (hm_store (lenN (sc_secs c)) want (hm_lookup kWS (sc_hm c)))
                  (hm_store (lenN (sc_secs c)) want (hm_lookup kOFWG (sc_hm c)))
                  (hm_store (lenN (sc_secs c)) want (hm_lookup kOF (sc_hm c)))
                  (hm_store (lenN (sc_secs c)) want (hm_lookup kMB (sc_hm c)))
                  (hm_store (lenN (sc_secs c)) want (hm_lookup kMBNL (sc_hm c))), sc_status c) /\
    length ss = length (sc_secs c) /\
    forall j, match last_for (sc_ypos c) j (sc_secs c) with
              | None => nth j ss None = None
              | Some v => sidx (sc_ypos c) v = Z.of_nat j /\ In v (sc_secs c) /\
                          exists s, nth j ss None = Some s /\ forall a b, vanilla_sec v a b -> sec_holds v a b s
              end.
Proof.
  intros Hv Hc Hh.
  assert (G: Forall (sec_good st_id bio_id is_air gs gb (sc_ypos c) (nsecs c)) (sc_secs c)).
  { apply Forall_forall. intros v Iv. destruct (Hv v Iv) as [Ho (a & b & Va)].
    destruct (vanilla_conv v a b Va) as (s & Hs & _). split; [exact Ho|exists s; exact Hs]. }
  destruct (from_save_any_ok st_id bio_id is_air gs gb c want G Hc Hh) as (ss & E & L & Hn).
  exists ss. split; [exact E|]. split; [exact L|]. intros j. specialize (Hn j).
  destruct (last_for (sc_ypos c) j (sc_secs c)) as [v|] eqn:El; [|exact Hn].
  destruct (last_for_in (sc_ypos c) j _ v El) as [Iv Ej]. split; [exact Ej|]. split; [exact Iv|].
  destruct (Hv v Iv) as [_ (a0 & b0 & Va0)]. destruct (vanilla_conv v a0 b0 Va0) as (s & Hs & _).
  exists s. unfold conv_opt in Hn. rewrite Hs in Hn. split; [exact Hn|].
  intros a b Vab. destruct (vanilla_conv v a b Vab) as (s' & Hs' & Hold). rewrite Hs in Hs'. inversion Hs'; subst s'. exact Hold.
Qed.
End VanillaChunk.
