(* C13 proofs, part 7: fuel.  The fuel the network-form theorem asks for (wire_fuel) is bounded by the length
   of the image plus a constant: every loop of the reader consumes input the writer produced *)
From Coq Require Import List Arith NArith ZArith Lia Bool ZifyN ZifyNat ZifyBool.
From GoMC Require Import Base.Bytes Base.Dec Model.C05 Model.C06 Model.C11 Model.C13 Proofs.C13_nbt Proofs.C13_wire.
From GoMC Require Model.C01 Proofs.C01.
Import ListNotations.
Open Scope nat_scope.

Lemma concat_be8_length l : length (concat (map (be 8) l)) = 8 * length l.
Proof. induction l as [|x l IH]; [reflexivity|]. cbn [map concat]. rewrite app_length, be_length, IH. cbn [length]. lia. Qed.

Lemma hm_write_length mb ws : 8 * length mb + 8 * length ws <= length (hm_write mb ws).
Proof.
  unfold hm_write, nbt_longs. repeat (rewrite app_length || cbn [length]). rewrite !concat_be8_length. lia.
Qed.

Lemma w_seq_cons f x t : fst (w_seq f (x :: t)) = fst (f x) ++ fst (w_seq f t).
Proof. reflexivity. Qed.

Lemma be_write_length b : bent_ok b -> 4 + length (e_data b) <= length (fst (be_write (bent_val b))).
Proof.
  intros (_ & _ & _ & Hn). rewrite be_write_img. rewrite !app_length.
  assert (1 <= length (fst (w_byte (e_xz b)))) by (cbn; lia).
  assert (2 <= length (fst (w_short (e_y b)))) by (unfold w_short, wbytes; cbn [fst]; rewrite be_length; lia).
  assert (1 + length (e_data b) <= length (raw_img b)).
  { unfold raw_img. destruct Hn as [[Hn Hd]|(t & _ & _ & Hn & Hd)].
    - rewrite Hn, Hd. cbn. lia.
    - pose proof (Proofs.C01.tag_id_range t) as R. rewrite Hn. rewrite (N.mod_small (C01.tag_id t) 256) by lia.
      destruct (N.eqb_spec (C01.tag_id t) C01.idEnd) as [E|_]; [change C01.idEnd with 0%N in E; lia|].
      cbn [length]. lia. }
  lia.
Qed.

Lemma bes_length : forall bes, Forall bent_ok bes ->
  length bes + list_max (map (fun b => S (length (e_data b))) bes) <= length (fst (w_seq be_write (map bent_val bes))).
Proof.
  induction 1 as [|b t Hb Ht IH]; [cbn; lia|].
  cbn [map]. rewrite w_seq_cons, app_length. pose proof (be_write_length b Hb).
  change (list_max (S (length (e_data b)) :: map (fun b0 => S (length (e_data b0))) t))
    with (Nat.max (S (length (e_data b))) (list_max (map (fun b0 => S (length (e_data b0))) t))).
  cbn [length]. lia.
Qed.

Lemma some_inj {A} (a b : A) : Some a = Some b -> a = b.
Proof. congruence. Qed.

Section Fuel.
Variable cont : Type.
Variable pc_write : cont -> list N.

Lemma data_length : forall ss : list (sect cont), 2 * length ss <= length (concat (map (sec_write cont pc_write) ss)).
Proof.
  induction ss as [|s t IH]; [cbn; lia|]. cbn [map concat length]. rewrite app_length.
  unfold sec_write at 1. rewrite !app_length. unfold w_short, wbytes. cbn [fst]. rewrite be_length. lia.
Qed.

(* the constant the drivers add to the length of the input *)
Definition fuel_slack : nat := 68.

Lemma wire_fuel_bound (c : chunk cont) img : Forall bent_ok (c_bes c) ->
  chunk_write cont pc_write c = Some img -> wire_fuel cont c <= length img + fuel_slack.
Proof.
  intros Hb Hw. unfold chunk_write in Hw. destruct (4096 <? lenN (c_secs c))%N; [discriminate|].
  apply some_inj in Hw. subst img. unfold wire_fuel, fuel_slack. rewrite !app_length.
  pose proof (hm_write_length (raw_of (hMB (c_hm c))) (raw_of (hWS (c_hm c)))).
  pose proof (data_length (c_secs c)). pose proof (bes_length (c_bes c) Hb).
  assert (length (chunk_data cont pc_write c) <= length (fst (wr TByteArray (VBytes (chunk_data cont pc_write c) [])))).
  { cbn [wr bytes_of fst]. unfold w_lenbytes, wcat, wbytes. cbn [fst]. rewrite app_length. lia. }
  assert (length (fst (w_seq be_write (map bent_val (c_bes c)))) <=
          length (fst (wcat (w_len LVarInt (Z.of_N (lenN (c_bes c)))) (w_seq be_write (map bent_val (c_bes c)))))).
  { unfold wcat. cbn [fst]. rewrite app_length. lia. }
  unfold chunk_data in *. lia.
Qed.
End Fuel.

(* the network-form theorem with the fuel premise in terms of the input: |input| + fuel_slack suffices *)
Section WireInput.
Variable cont : Type.
Variable pc_write : cont -> list N.
Variable pc_read : bool -> cont -> dec (cont * N).
Variable X : Type.
Variable pc_abs : cont -> X.
Variable pc_good : cont -> Prop.
Variable pc_compat : cont -> cont -> Prop.
Hypothesis pc_robust : forall b d, robust (pc_read b d).
Hypothesis pc_rt : forall b c d rest, pc_good c -> pc_compat c d ->
  exists c' n, run_flat (pc_read b d) (pc_write c ++ rest) = FOk (c', n) rest /\ pc_abs c' = pc_abs c.

Theorem wire_roundtrip_input (c d : chunk cont) : chunk_ok cont pc_write pc_good pc_compat c d ->
  exists img, chunk_write cont pc_write c = Some img /\
  forall rest fuel, length (img ++ rest) + fuel_slack <= fuel ->
  exists c', run_flat (chunk_read cont pc_read fuel d) (img ++ rest) = FOk (c', lenN img) rest /\
    Forall3 (sec_rel cont X pc_abs) (c_secs c) (c_secs d) (c_secs c') /\
    hMB (c_hm c') = hMB (c_hm c) /\ hWS (c_hm c') = hWS (c_hm c) /\
    hWSWG (c_hm c') = hWSWG (c_hm d) /\ hOFWG (c_hm c') = hOFWG (c_hm d) /\
    hOF (c_hm c') = hOF (c_hm d) /\ hMBNL (c_hm c') = hMBNL (c_hm d) /\
    c_bes c' = c_bes c /\ c_status c' = c_status d.
Proof.
  intros Hok.
  destruct (wire_roundtrip cont pc_write pc_read X pc_abs pc_good pc_compat pc_robust pc_rt c d
              (wire_fuel cont c) [] Hok (le_n _)) as (img & c0 & Hw & _).
  exists img. split; [exact Hw|]. intros rest fuel Hf.
  assert (Hb: Forall bent_ok (c_bes c)) by apply Hok.
  pose proof (wire_fuel_bound cont pc_write c img Hb Hw) as B. rewrite app_length in Hf.
  destruct (wire_roundtrip cont pc_write pc_read X pc_abs pc_good pc_compat pc_robust pc_rt c d
              fuel rest Hok ltac:(lia)) as (img' & c' & Hw' & R).
  rewrite Hw in Hw'. apply some_inj in Hw'. subst img'. exists c'. exact R.
Qed.
End WireInput.
