(* C13 proofs, part 4: the network-form theorem instantiated with C12's PaletteContainer model and
   C12's wire theorem - no container hypothesis left *)
From Coq Require Import List Arith NArith ZArith Lia Bool.
From GoMC Require Import Base.Bytes Base.Dec Model.C05 Model.C06 Model.C11 Model.C13 Proofs.C13_wire.
From GoMC Require Model.C12 Proofs.C11 Proofs.C11_wire Proofs.C12 Proofs.C12_wire.
Import ListNotations.
Open Scope N_scope.

Section Inst.
Variable fuelc : nat.                 (* fuel of the palette value loop of PaletteContainer.ReadFrom *)

Definition i_write (c : C12.pc) : list N := fst (C12.pc_write c).
(* the configuration (block states / biomes) is a field of the destination container *)
Definition i_read (_ : bool) (d : C12.pc) : dec (C12.pc * N) := C12.pc_read fuelc d.
Definition i_good (c : C12.pc) : Prop :=
  Proofs.C12.Inv c /\ lenN (data (C12.cdata c)) < 2^31 /\ (length (C12.pal_export (C12.cpal c)) <= fuelc)%nat.
(* source, destination: same kind (and registry width) and same length *)
Definition i_compat (c d : C12.pc) : Prop :=
  C12.ccfg d = C12.ccfg c /\ blen (C12.cdata d) = blen (C12.cdata c).

Lemma i_robust b d : robust (i_read b d).
Proof.
  unfold i_read, C12.pc_read. constructor. intros nb. cbv zeta.
  apply robust_bind; [apply Proofs.C12_wire.pal_read_robust|]. intros [p1 n1].
  apply robust_bind; [apply Proofs.C11_wire.read_robust|]. intros [d1 n2].
  destruct (bs_fix d1 _) as [d2 [v| | |w]]; constructor.
Qed.

Lemma i_rt b c d rest : i_good c -> i_compat c d ->
  exists c' n, run_flat (i_read b d) (i_write c ++ rest) = FOk (c', n) rest /\ Proofs.C12.pabs c' = Proofs.C12.pabs c.
Proof.
  intros (HI & Hl & Hf) (Hc & Hb).
  destruct (Proofs.C12_wire.wire_roundtrip c d rest fuelc HI Hc Hb Hl Hf) as (c' & R & _ & _ & _ & _ & A).
  exists c', (snd (C12.pc_write c)). split; [exact R|exact A].
Qed.

Definition wire_instantiated :=
  wire_roundtrip C12.pc i_write i_read (list Z) Proofs.C12.pabs i_good i_compat i_robust i_rt.
End Inst.
