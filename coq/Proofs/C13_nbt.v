(* C13 proofs, part 2: the NBT pieces of the network form - height-map compound, block-entity data *)
From Coq Require Import List Arith NArith ZArith Lia Bool ZifyN ZifyNat ZifyBool.
From GoMC Require Import Base.Bytes Base.Bits Base.Dec Gen.Consts Model.C05 Model.C06 Model.C11 Model.C13.
From GoMC Require Model.C01 Proofs.C01_dec Proofs.C01_more.
From GoMC Require Import Proofs.C01.
Import ListNotations.
Open Scope N_scope.
Ltac Zify.zify_post_hook ::= Z.div_mod_to_equations.

(* ---------- catch_end ---------- *)
Lemma catch_end_robust {A} (d : dec A) : robust d -> robust (catch_end d).
Proof.
  induction 1; cbn [catch_end]; try (constructor; auto; fail).
  destruct (e =? C01.eEND); constructor.
Qed.
Lemma catch_end_ok {A} (d : dec A) : robust d -> forall s a r,
  run_flat d s = FOk a r -> run_flat (catch_end d) s = FOk (Some a) r.
Proof.
  induction 1 as [a0|e|w| |k Hk IH|n k Hk IH]; intros s a r Hs; cbn [run_flat catch_end] in *; try discriminate.
  - inversion Hs; subst; reflexivity.
  - destruct s as [|b s']; [discriminate|]. apply IH; exact Hs.
  - destruct (n <=? lenN s); [|discriminate]. apply IH; exact Hs.
Qed.

(* ---------- a []uint64 field ---------- *)
Lemma ty_longarray f : C01.dec_ty (S f) (C01.GSl C01.GU64) C01.idLongArray =
  (n <- C01.rd_i32 ;;
   if (n <? 0)%Z then Fail C01.eNeg
   else l <- C01.rep f (Z.to_N n) C01.rd_i64 [] ;; Ret (C01.XSlice (map (fun v => C01.XInt (Z.of_N (u64 v))) l))).
Proof. reflexivity. Qed.

Definition longs_ok (l : list N) : Prop := Forall (fun x => x < 2^64) l /\ lenN l < 2^31.

Lemma u32_of_small x : x < 2^31 -> u32 (Z.of_N x) = x.
Proof.
  intros H. unfold u32, wrapu. change (2 ^ Z.of_N 32)%Z with 4294967296%Z.
  rewrite Z.mod_small by lia. lia.
Qed.
Lemma u16_of_small x : x < 2^15 -> u16 (Z.of_N x) = x.
Proof.
  intros H. unfold u16, wrapu. change (2 ^ Z.of_N 16)%Z with 65536%Z.
  rewrite Z.mod_small by lia. lia.
Qed.

Lemma longs_back l : Forall (fun x => x < 2^64) l ->
  map (fun x => match x with C01.XInt z => Z.to_N z | _ => 0 end)
      (map (fun v => C01.XInt (Z.of_N (u64 v))) (map sx64 l)) = l.
Proof.
  induction 1 as [|x l Hx Hl IH]; [reflexivity|]. cbn [map]. rewrite IH. f_equal.
  unfold u64, sx64. rewrite wrapu_sx by (try exact Hx; reflexivity). lia.
Qed.

Lemma hm_field_rt l f rest : longs_ok l -> (length l <= f)%nat ->
  run_flat (hm_field (S f) C01.idLongArray) (nbt_longs l ++ rest) = FOk (Some l) rest.
Proof.
  intros [Hv Hn] Hf. unfold hm_field. apply catch_end_ok.
  { apply robust_bind; [apply Proofs.C01.dec_ty_robust|]. intros; constructor. }
  rewrite run_flat_bind by apply Proofs.C01.dec_ty_robust.
  rewrite ty_longarray. rewrite run_flat_bind by auto with rb.
  unfold nbt_longs. rewrite u32_of_small by exact Hn. rewrite <- app_assoc.
  rewrite Proofs.C01.rd_i32_len by exact Hn.
  destruct (Z.ltb_spec (Z.of_N (lenN l)) 0) as [Hneg|_]; [lia|].
  rewrite run_flat_bind by auto with rb. rewrite N2Z.id.
  rewrite <- flat_map_concat_map.
  assert (HF: Forall (fun x => forall r0, run_flat C01.rd_i64 (be 8 x ++ r0) = FOk (sx64 x) r0) l).
  { eapply Forall_impl; [|exact Hv]. intros x Hx r0. apply Proofs.C01.rd_i64_bits. exact Hx. }
  rewrite (Proofs.C01_dec.rep_spec C01.rd_i64 (be 8) sx64 rd_i64_robust l HF f [] rest Hf).
  cbn [rev app run_flat longs_of_tval]. rewrite longs_back by exact Hv. reflexivity.
Qed.

(* ---------- the height-map compound ---------- *)
Lemma hm_write_app mb ws rest : hm_write mb ws ++ rest =
  10 :: (12 :: be 2 (lenN nameMB) ++ nameMB ++ (nbt_longs mb ++
        (12 :: be 2 (lenN nameWS) ++ nameWS ++ (nbt_longs ws ++ (0 :: rest))))).
Proof.
  unfold hm_write, nbt_name. rewrite !u16_of_small by (vm_compute; reflexivity).
  change C01.idCompound with 10. change C01.idLongArray with 12. change C01.idEnd with 0.
  cbn [app]. rewrite <- !app_assoc. cbn [app]. rewrite <- !app_assoc. reflexivity.
Qed.

Lemma hm_loop_unfold f mb ws : hm_loop (S f) mb ws =
  (tn <- C01.rd_tag ;;
   if fst tn =? C01.idEnd then Ret (mb, ws)
   else if eqfold (snd tn) nameMB then
     r <- hm_field f (fst tn) ;;
     match r with None => Ret (mb, ws) | Some v => hm_loop f (Some v) ws end
   else if eqfold (snd tn) nameWS then
     r <- hm_field f (fst tn) ;;
     match r with None => Ret (mb, ws) | Some v => hm_loop f mb (Some v) end
   else Fail eField).
Proof. reflexivity. Qed.

Lemma hm_field_robust f id : robust (hm_field f id).
Proof.
  unfold hm_field. apply catch_end_robust. apply robust_bind; [apply Proofs.C01.dec_ty_robust|]. intros; constructor.
Qed.
Lemma hm_loop_robust : forall f mb ws, robust (hm_loop f mb ws).
Proof.
  induction f as [|f IH]; intros mb ws; [constructor|]. rewrite hm_loop_unfold.
  apply robust_bind; [auto with rb|]. intros tn.
  destruct (fst tn =? C01.idEnd); [constructor|].
  destruct (eqfold (snd tn) nameMB).
  { apply robust_bind; [apply hm_field_robust|]. intros [v|]; [apply IH|constructor]. }
  destruct (eqfold (snd tn) nameWS); [|constructor].
  apply robust_bind; [apply hm_field_robust|]. intros [v|]; [apply IH|constructor].
Qed.
Lemma hm_read_robust f : robust (hm_read f).
Proof.
  unfold hm_read. constructor. intros id. destruct (id =? C01.idEnd); [constructor|].
  destruct (id =? C01.idCompound); [apply hm_loop_robust|constructor].
Qed.

Lemma hm_read_rt mb ws fuel rest : longs_ok mb -> longs_ok ws -> (length mb + length ws + 4 <= fuel)%nat ->
  run_flat (hm_read fuel) (hm_write mb ws ++ rest) = FOk (Some mb, Some ws) rest.
Proof.
  intros Hmb Hws Hf. rewrite hm_write_app. unfold hm_read. cbn [run_flat].
  change (10 =? C01.idEnd) with false. change (10 =? C01.idCompound) with true. cbn iota.
  destruct fuel as [|[|[|f]]]; try lia.
  destruct Proofs.C01_dec.rd_tag_ok as (_ & Htag & Hend).
  (* first entry *)
  rewrite hm_loop_unfold. rewrite run_flat_bind by auto with rb.
  rewrite Htag by (try lia; vm_compute; reflexivity). cbn [fst snd].
  change (12 =? C01.idEnd) with false. cbn iota.
  replace (eqfold nameMB nameMB) with true by (vm_compute; reflexivity). cbn iota.
  rewrite run_flat_bind by apply hm_field_robust.
  destruct f as [|f]; [lia|].
  change 12 with C01.idLongArray at 1.
  rewrite (hm_field_rt mb (S (S f))) by (auto; lia).
  (* second entry *)
  rewrite hm_loop_unfold. rewrite run_flat_bind by auto with rb.
  rewrite Htag by (try lia; vm_compute; reflexivity). cbn [fst snd].
  change (12 =? C01.idEnd) with false. cbn iota.
  replace (eqfold nameWS nameMB) with false by (vm_compute; reflexivity).
  replace (eqfold nameWS nameWS) with true by (vm_compute; reflexivity). cbn iota.
  rewrite run_flat_bind by apply hm_field_robust.
  change 12 with C01.idLongArray at 1.
  rewrite (hm_field_rt ws (S f)) by (auto; lia).
  (* End *)
  rewrite hm_loop_unfold. rewrite run_flat_bind by auto with rb.
  change 0 with C01.idEnd at 1. rewrite Hend. reflexivity.
Qed.

(* with the countingReader: the bytes consumed are exactly the image *)
Lemma hm_tee_rt mb ws fuel rest : longs_ok mb -> longs_ok ws -> (length mb + length ws + 4 <= fuel)%nat ->
  run_flat (C01.tee (hm_read fuel)) (hm_write mb ws ++ rest) = FOk ((Some mb, Some ws), hm_write mb ws) rest.
Proof.
  intros Hmb Hws Hf.
  destruct (Proofs.C01_more.tee_spec _ (hm_read_robust fuel) _ _ _ (hm_read_rt mb ws fuel rest Hmb Hws Hf)) as (c & Hc & Ht).
  apply app_inv_tail in Hc. subst c. exact Ht.
Qed.

(* the image is the network-format document of the compound {MOTION_BLOCKING: [L; ...], WORLD_SURFACE: [L; ...]} *)
Lemma hm_write_doc mb ws : longs_ok mb -> longs_ok ws ->
  hm_write mb ws = C01.doc C01.Net [] (C01.TCompound [(nameMB, C01.TLongArray (map sx64 mb)); (nameWS, C01.TLongArray (map sx64 ws))]).
Proof.
  intros [Hmb Hnm] [Hws Hnw]. unfold hm_write, C01.doc, C01.doc_net. cbn [C01.tag_id C01.payload flat_map fst snd app].
  unfold nbt_name, nbt_longs. rewrite !u16_of_small by (vm_compute; reflexivity).
  rewrite !u32_of_small by assumption.
  assert (E: forall l, Forall (fun x => x < 2^64) l -> flat_map (fun z => be 8 (u64 z)) (map sx64 l) = concat (map (be 8) l)).
  { induction 1 as [|x l Hx Hl IH]; [reflexivity|]. cbn [map flat_map concat]. rewrite IH. f_equal.
    unfold u64, sx64. rewrite wrapu_sx by (try exact Hx; reflexivity). reflexivity. }
  unfold lenN. rewrite !map_length. fold (lenN mb). fold (lenN ws). rewrite !E by assumption.
  rewrite <- !app_assoc. cbn [app]. rewrite <- !app_assoc. reflexivity.
Qed.
