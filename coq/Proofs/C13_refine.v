(* C13: the two models of New{States,Biomes}PaletteContainerWithData - Model/C13.v with_data (field level, used by
   C13_save and by the driver) and Model/C12.v pc_with_data (used by C13_from_save_vanilla) - agree: same outcome
   class, and on success the C12 container, viewed at field level, IS the C13 container.  Guard: the
   resolveIndirect branch (a palette longer than 256 / 8 entries with direct data), where the two models call
   two separately written resolve loops. *)
From Coq Require Import List Arith NArith ZArith Lia Bool.
From GoMC Require Import Base.Bytes Base.Dec Model.C05 Model.C11 Model.C13 Proofs.C13_vanilla.
From GoMC Require Model.C12.
Import ListNotations.
Open Scope Z_scope.

Definition pal_kind (p : C12.pal) : N :=
  match p with C12.PSingle _ => kSingle | C12.PLinear _ _ _ => kLinear | C12.PHash _ _ _ => kHash | C12.PGlobal => kGlobal end.
Definition pal_list (p : C12.pal) : list Z :=
  match p with C12.PSingle v => [v] | C12.PLinear vals _ _ | C12.PHash vals _ _ => vals | C12.PGlobal => [] end.
(* the C12 container at field level *)
Definition to_w (c : C12.pc) : wcont := mkWC (C12.cbits c) (pal_kind (C12.cpal c)) (pal_list (C12.cpal c)) (C12.cdata c).

Definition refines (r : res C12.pc) (s : sres wcont) : Prop :=
  match r, s with
  | ROk c, SOk w => to_w c = w
  | RPanic _, SPanic _ => True
  | _, _ => False
  end.

Lemma zlen_lenN {A} (l : list A) : C12.zlen l = Z.of_N (lenN l).
Proof. unfold C12.zlen, lenN. lia. Qed.

Lemma cfg_bits_same gs gb biome n :
  C12.cfg_bits (cf_of gs gb biome) n = cfg_bits biome (if biome then gb else gs) n.
Proof.
  unfold C12.cfg_bits, cfg_bits, cf_of, C12.in_range. destruct biome; cbn [C12.ckind C12.gbits];
    destruct (n =? 0); try reflexivity;
    repeat (match goal with |- context [if ?b then _ else _] => destruct b end); reflexivity.
Qed.

Theorem with_data_refines gs gb biome len dat pat :
  C12.zlen pat <= C12.wide_limit (C12.ckind (cf_of gs gb biome)) ->
  refines (C12.pc_with_data (cf_of gs gb biome) len dat pat) (with_data gs gb biome len dat pat).
Proof.
  intros Hg. unfold C12.pc_with_data, with_data, C12.infer_bits. rewrite !zlen_lenN in *.
  destruct (calc_bits len (Z.of_N (lenN dat))) as [n0|]; [|exact I].
  rewrite <- (cfg_bits_same gs gb biome).
  destruct biome; cbn [cf_of C12.ckind C12.gbits C12.wide_limit] in *.
  - (* biomes *)
    set (n := if (3 <? n0) && (0 <? Z.of_N (lenN pat)) && (Z.of_N (lenN pat) <=? 8) &&
                 match calc_size 3 len with Some s => s =? Z.of_N (lenN dat) | None => false end then 3 else n0).
    replace (if (3 <? n0) && (0 <? Z.of_N (lenN pat)) && (Z.of_N (lenN pat) <=? 8) &&
                match calc_size 3 len with Some s => s =? Z.of_N (lenN dat) | None => false end then Some 3 else Some n0)
      with (Some n) by (unfold n; destruct ((3 <? n0) && (0 <? Z.of_N (lenN pat)) && (Z.of_N (lenN pat) <=? 8) &&
                match calc_size 3 len with Some s => s =? Z.of_N (lenN dat) | None => false end); reflexivity).
    clearbody n. cbv beta iota. replace (8 <? Z.of_N (lenN pat)) with false by lia.
    unfold cfg_kind, C12.in_range. destruct (Z.eqb_spec n 0) as [E0|N0].
    + subst n. change (kSingle =? kSingle)%N with true. destruct pat as [|v pt]; cbn [andb]; [exact I|].
      change (kSingle =? kGlobal)%N with false. cbn [andb hd].
      destruct (bs_new (C12.cfg_bits (C12.mkCfg C12.KBiomes gb) 0) len (Some dat)); [|exact I].
      reflexivity.
    + destruct ((1 <=? n) && (n <=? 3)).
      * change (kLinear =? kSingle)%N with false. change (kLinear =? kGlobal)%N with false. cbn [andb].
        destruct (bs_new (C12.cfg_bits (C12.mkCfg C12.KBiomes gb) n) len (Some dat)); [|exact I].
        reflexivity.
      * change (kGlobal =? kSingle)%N with false. change (kGlobal =? kGlobal)%N with true. cbn [andb].
        destruct (bs_new (C12.cfg_bits (C12.mkCfg C12.KBiomes gb) n) len (Some dat)); [|exact I].
        reflexivity.
  - (* block states *)
    cbv beta iota. replace (256 <? Z.of_N (lenN pat)) with false by lia.
    unfold cfg_kind, C12.in_range. destruct (Z.eqb_spec n0 0) as [E0|N0].
    + subst n0. change ((1 <=? 0) && (0 <=? 4)) with false. cbv iota. change (0 =? 0) with true. cbv iota.
      change (kSingle =? kSingle)%N with true. destruct pat as [|v pt]; cbn [andb]; [exact I|].
      change (kSingle =? kGlobal)%N with false. cbn [andb hd].
      destruct (bs_new (C12.cfg_bits (C12.mkCfg C12.KStates gs) 0) len (Some dat)); [|exact I]. reflexivity.
    + destruct ((1 <=? n0) && (n0 <=? 4)) eqn:C14.
      * change (4 =? 0) with false. change ((1 <=? 4) && (4 <=? 4)) with true. cbv iota.
        change (kLinear =? kSingle)%N with false. change (kLinear =? kGlobal)%N with false. cbn [andb].
        destruct (bs_new (C12.cfg_bits (C12.mkCfg C12.KStates gs) 4) len (Some dat)); [|exact I]. reflexivity.
      * replace (n0 =? 0) with false by lia. rewrite C14.
        destruct ((5 <=? n0) && (n0 <=? 8)).
        -- change (kHash =? kSingle)%N with false. change (kHash =? kGlobal)%N with false. cbn [andb].
           destruct (bs_new (C12.cfg_bits (C12.mkCfg C12.KStates gs) n0) len (Some dat)); [|exact I]. reflexivity.
        -- change (kGlobal =? kSingle)%N with false. change (kGlobal =? kGlobal)%N with true. cbn [andb].
           destruct (bs_new (C12.cfg_bits (C12.mkCfg C12.KStates gs) n0) len (Some dat)); [|exact I]. reflexivity.
Qed.
