(* C13: the two models of New{States,Biomes}PaletteContainerWithData - Model/C13.v with_data and Model/C12.v
   pc_with_data - agree for ALL inputs, the resolveIndirect branch included: the two separately written resolve
   loops (Model/C13.v resolve_loop over nth with an explicit bounds test, Model/C12.v resolve_loop over nth_error)
   and the two index widths (bitlen through N.size, bit_len through Z.log2) are proved equal.  Consequences: Get on
   the C12 container and on its field-level view are the same function, and the section part of ChunkFromSave over
   the two container models gives the same section (same outcome class; on success the C12 section viewed at field
   level IS the C13 section), so C12's theorems about pc_with_data speak about the function C13's save-form theorems
   use. *)
From Coq Require Import List Arith NArith ZArith Lia Bool.
From GoMC Require Import Base.Bytes Base.Dec Model.C05 Model.C11 Model.C13 Proofs.C13_vanilla Proofs.C13_refine.
From GoMC Require Model.C12.
Import ListNotations.
Open Scope Z_scope.

(* bits.Len written twice *)
Lemma bitlen_bit_len x : bitlen x = C12.bit_len x.
Proof.
  unfold bitlen, C12.bit_len. destruct x as [|p|p]; try reflexivity.
  change (Z.pos p <=? 0) with false. cbv iota. cbn [Z.to_N N.size Z.of_N].
  destruct p as [p|p|]; cbn [Z.log2 Pos.size]; try reflexivity; rewrite Pos2Z.inj_succ; lia.
Qed.

Definition res_same {A} (r : res A) (s : sres A) : Prop :=
  match r, s with
  | ROk a, SOk b => a = b
  | RPanic w, SPanic w' => w = w'
  | _, _ => False
  end.

Lemma resolve_loop_same pat idx is : forall direct,
  res_same (C12.resolve_loop idx pat direct is) (resolve_loop pat idx direct is).
Proof.
  induction is as [|i t IH]; intros direct; [reflexivity|].
  cbn [C12.resolve_loop resolve_loop].
  destruct (snd (bs_get idx i)) as [k| | |w]; try reflexivity.
  destruct (Z.ltb_spec k 0) as [Hk|Hk]; cbn [orb]; [reflexivity|].
  destruct (Z.leb_spec (Z.of_N (lenN pat)) k) as [Hl|Hl].
  - replace (nth_error pat (Z.to_nat k)) with (@None Z); [reflexivity|].
    symmetry. apply nth_error_None. unfold lenN in Hl. lia.
  - rewrite (nth_error_nth' pat 0) by (unfold lenN in Hl; lia).
    destruct (bs_set direct i (nth (Z.to_nat k) pat 0)) as [d' [v| | |w]]; try reflexivity.
    apply IH.
Qed.

Lemma resolve_same len dat pat dbits :
  res_same (C12.resolve_indirect len dat pat dbits) (resolve len dat pat dbits).
Proof.
  unfold C12.resolve_indirect, resolve. rewrite zlen_lenN, <- bitlen_bit_len.
  destruct (bs_new (bitlen (Z.of_N (lenN pat) - 1)) len (Some dat)) as [idx|w]; [|reflexivity].
  destruct (bs_new dbits len None) as [d0|w]; [|reflexivity].
  pose proof (resolve_loop_same pat idx (C12.positions len) d0) as H. unfold C12.positions in *.
  destruct (C12.resolve_loop idx pat d0 (map Z.of_nat (seq 0 (Z.to_nat len)))) as [a|w];
    destruct (resolve_loop pat idx d0 (map Z.of_nat (seq 0 (Z.to_nat len)))) as [b| |w']; cbn in H; try contradiction.
  - subst b. reflexivity.
  - exact H.
Qed.

(* the refinement without the guard on the palette length *)
Theorem with_data_refines_full gs gb biome len dat pat :
  refines (C12.pc_with_data (cf_of gs gb biome) len dat pat) (with_data gs gb biome len dat pat).
Proof.
  destruct (Z.leb_spec (C12.zlen pat) (C12.wide_limit (C12.ckind (cf_of gs gb biome)))) as [Hg|Hg];
    [exact (with_data_refines gs gb biome len dat pat Hg)|].
  unfold C12.pc_with_data, with_data, C12.infer_bits. rewrite !zlen_lenN in *.
  destruct (calc_bits len (Z.of_N (lenN dat))) as [n0|]; [|exact I].
  rewrite <- (cfg_bits_same gs gb biome).
  pose proof (resolve_same len dat pat (if biome then gb else gs)) as HR.
  destruct biome; cbn [cf_of C12.ckind C12.gbits C12.wide_limit] in *.
  - (* biomes: more than 8 entries, so the 3-bit special case is off *)
    replace ((3 <? n0) && (0 <? Z.of_N (lenN pat)) && (Z.of_N (lenN pat) <=? 8) &&
             match calc_size 3 len with Some s => s =? Z.of_N (lenN dat) | None => false end) with false
      by (replace (Z.of_N (lenN pat) <=? 8) with false by lia; rewrite andb_false_r; reflexivity).
    cbv beta iota. replace (8 <? Z.of_N (lenN pat)) with true by lia.
    unfold cfg_kind, C12.in_range. destruct (Z.eqb_spec n0 0) as [E0|N0].
    + subst n0. change (kSingle =? kSingle)%N with true. destruct pat as [|v pt]; cbn [andb]; [exact I|].
      change (kSingle =? kGlobal)%N with false. cbn [andb hd].
      destruct (bs_new (C12.cfg_bits (C12.mkCfg C12.KBiomes gb) 0) len (Some dat)); [|exact I].
      reflexivity.
    + destruct ((1 <=? n0) && (n0 <=? 3)).
      * change (kLinear =? kSingle)%N with false. change (kLinear =? kGlobal)%N with false. cbn [andb].
        destruct (bs_new (C12.cfg_bits (C12.mkCfg C12.KBiomes gb) n0) len (Some dat)); [|exact I].
        reflexivity.
      * change (kGlobal =? kSingle)%N with false. change (kGlobal =? kGlobal)%N with true. cbn [andb].
        destruct (C12.resolve_indirect len dat pat gb) as [a|w]; destruct (resolve len dat pat gb) as [b| |w'];
          cbn in HR; try contradiction; [subst b|exact I].
        destruct (bs_new (C12.cfg_bits (C12.mkCfg C12.KBiomes gb) n0) len (Some a)); [|exact I].
        reflexivity.
  - (* block states *)
    cbv beta iota. replace (256 <? Z.of_N (lenN pat)) with true by lia.
    unfold cfg_kind, C12.in_range. destruct (Z.eqb_spec n0 0) as [E0|N0].
    + subst n0. change ((1 <=? 0) && (0 <=? 4)) with false. cbv iota. change (0 =? 0) with true. cbv iota.
      change (kSingle =? kSingle)%N with true. destruct pat as [|v pt]; cbn [andb]; [exact I|].
      change (kSingle =? kGlobal)%N with false. cbn [andb hd].
      destruct (bs_new (C12.cfg_bits (C12.mkCfg C12.KStates gs) 0) len (Some dat)); [|exact I]. reflexivity.
    + destruct ((1 <=? n0) && (n0 <=? 4)) eqn:C14.
      * change (4 =? 0) with false. change ((1 <=? 4) && (4 <=? 4)) with true. cbv iota.
        change (kLinear =? kSingle)%N with false. change (kLinear =? kGlobal)%N with false. cbn [andb].
        destruct (bs_new (C12.cfg_bits (C12.mkCfg C12.KStates gs) 4) len (Some dat)); [|exact I]. reflexivity.
      * replace (n0 =? 0) with false by lia. rewrite C14.
        destruct ((5 <=? n0) && (n0 <=? 8)).
        -- change (kHash =? kSingle)%N with false. change (kHash =? kGlobal)%N with false. cbn [andb].
           destruct (bs_new (C12.cfg_bits (C12.mkCfg C12.KStates gs) n0) len (Some dat)); [|exact I]. reflexivity.
        -- change (kGlobal =? kSingle)%N with false. change (kGlobal =? kGlobal)%N with true. cbn [andb].
           destruct (C12.resolve_indirect len dat pat gs) as [a|w]; destruct (resolve len dat pat gs) as [b| |w'];
             cbn in HR; try contradiction; [subst b|exact I].
           destruct (bs_new (C12.cfg_bits (C12.mkCfg C12.KStates gs) n0) len (Some a)); [|exact I]. reflexivity.
Qed.

(* Get on the C12 container and on its field-level view: the same function (panic codes included) *)
Lemma get_same (c : C12.pc) i : wc_get (to_w c) i = C12.pc_get c i.
Proof.
  unfold wc_get, C12.pc_get, to_w. cbn [w_data w_kind w_pal].
  destruct (snd (bs_get (C12.cdata c) i)) as [k| | |w]; try reflexivity.
  destruct (C12.cpal c) as [v|vals cap pb|vals cap pb|]; cbn [pal_kind pal_list C12.pal_value].
  - change (kSingle =? kGlobal)%N with false. change (kSingle =? kSingle)%N with true. cbv iota.
    destruct (k =? 0); reflexivity.
  - change (kLinear =? kGlobal)%N with false. change (kLinear =? kSingle)%N with false. cbv iota.
    rewrite zlen_lenN. destruct ((0 <=? k) && (k <? Z.of_N (lenN vals))) eqn:E; [|reflexivity].
    rewrite (nth_error_nth' vals 0) by (unfold lenN in E; lia). reflexivity.
  - change (kHash =? kGlobal)%N with false. change (kHash =? kSingle)%N with false. cbv iota.
    rewrite zlen_lenN. destruct ((0 <=? k) && (k <? Z.of_N (lenN vals))) eqn:E; [|reflexivity].
    rewrite (nth_error_nth' vals 0) by (unfold lenN in E; lia). reflexivity.
  - reflexivity.
Qed.

Lemma all_gets_same n (c : C12.pc) : all_gets wcont wc_get n (to_w c) = all_gets C12.pc C12.pc_get n c.
Proof.
  unfold all_gets. induction (seq 0 n) as [|i t IH]; [reflexivity|].
  cbn [fold_right]. rewrite IH, get_same. reflexivity.
Qed.
Lemma count_same is_air (c : C12.pc) : count_g wcont wc_get is_air (to_w c) = count_g C12.pc C12.pc_get is_air c.
Proof. unfold count_g. rewrite all_gets_same. reflexivity. Qed.

(* the section of ChunkFromSave over the two container models *)
Definition sec_to_w (s : sect C12.pc) : sect wcont :=
  mkSec (s_count s) (to_w (s_states s)) (to_w (s_biomes s)) (s_sky s) (s_blk s).
Definition sec_refines (r : sres (sect C12.pc)) (s : sres (sect wcont)) : Prop :=
  match r, s with
  | SOk a, SOk b => sec_to_w a = b
  | SErr, SErr => True
  | SPanic _, SPanic _ => True
  | _, _ => False
  end.

Theorem from_save_sec_refines st_id bio_id is_air gs gb v :
  sec_refines (from_save_sec_g C12.pc (c12_mk gs gb) C12.pc_get st_id bio_id is_air v)
              (from_save_sec st_id bio_id is_air gs gb v).
Proof.
  rewrite <- from_save_sec_generic_eq. unfold from_save_sec_g.
  destruct (opt_all (map st_id (ss_bpal v))) as [ids|]; [|exact I].
  pose proof (with_data_refines_full gs gb false sec_len (ss_bdata v) ids) as H1.
  unfold c12_mk, wc_mk. cbv iota.
  destruct (C12.pc_with_data (cf_of gs gb false) sec_len (ss_bdata v) ids) as [cs|w];
    destruct (with_data gs gb false sec_len (ss_bdata v) ids) as [ws| |w']; cbn in H1; try contradiction; [|exact I].
  subst ws. rewrite count_same.
  destruct (count_g C12.pc C12.pc_get is_air cs) as [cnt| |w]; try exact I.
  destruct (opt_all (map bio_id (ss_biopal v))) as [bids|]; [|exact I].
  pose proof (with_data_refines_full gs gb true bio_len (ss_biodata v) bids) as H2.
  destruct (C12.pc_with_data (cf_of gs gb true) bio_len (ss_biodata v) bids) as [cb|w];
    destruct (with_data gs gb true bio_len (ss_biodata v) bids) as [wb| |w']; cbn in H2; try contradiction; [|exact I].
  subst wb. reflexivity.
Qed.
