(* C13 proofs, part 6: the block-state registry table (Gen/Registry.v, dumped by running level/block
   through the code paths of writeStatesPalette / readStatesPalette) - a finite sweep re-checked by the kernel *)
From Coq Require Import List Arith NArith ZArith Lia Bool Sorting.Mergesort Orders Permutation ZifyN ZifyNat ZifyBool.
From GoMC Require Import Base.Bytes Gen.Registry.
Import ListNotations.
Open Scope N_scope.

(* row i is read back as i *)
Fixpoint check_back (k : N) (l : list (N * N)) : bool :=
  match l with [] => true | r :: t => (snd r =? k) && check_back (k + 1) t end.
Lemma check_back_sound : forall l k, check_back k l = true ->
  forall j, (j < length l)%nat -> snd (nth j l (0, 0)) = k + N.of_nat j.
Proof.
  induction l as [|r t IH]; intros k H j Hj; cbn [length] in Hj; [lia|].
  cbn [check_back] in H. apply andb_true_iff in H. destruct H as [H1 H2]. apply N.eqb_eq in H1.
  destruct j as [|j]; cbn [nth]; [lia|]. rewrite (IH (k + 1) H2 j) by lia. lia.
Qed.

(* strictly increasing lists have no duplicates *)
Fixpoint incr (l : list N) : bool :=
  match l with
  | a :: t => match t with b :: _ => (a <? b) && incr t | [] => true end
  | [] => true
  end.
Lemma incr_lower : forall l a, incr (a :: l) = true -> forall x, In x l -> a < x.
Proof.
  induction l as [|b t IH]; intros a H x Hx; [contradiction|].
  cbn [incr] in H. apply andb_true_iff in H. destruct H as [H1 H2]. apply N.ltb_lt in H1.
  destruct Hx as [->|Hx]; [exact H1|]. specialize (IH b H2 x Hx). lia.
Qed.
Lemma incr_nodup : forall l, incr l = true -> NoDup l.
Proof.
  induction l as [|a t IH]; intros H; constructor.
  - intros Hin. pose proof (incr_lower t a H a Hin). lia.
  - apply IH. cbn [incr] in H. destruct t as [|b t']; [reflexivity|].
    apply andb_true_iff in H. apply H.
Qed.

Module NOrder <: TotalLeBool.
  Definition t := N.
  Definition leb := N.leb.
  Theorem leb_total : forall a1 a2, leb a1 a2 = true \/ leb a2 a1 = true.
  Proof. intros a b. unfold leb. destruct (N.leb_spec a b); [left; reflexivity|right; apply N.leb_le; lia]. Qed.
End NOrder.
Module NSort := Sort NOrder.

(* the check and its meaning, for ANY table (the big literal never appears in a proof term but as an argument) *)
Definition table_check (rows : list (N * N)) (n : N) : bool :=
  (lenN rows =? n) && check_back 0 rows && incr (NSort.sort (map fst rows)).
Definition key_of (rows : list (N * N)) (i : N) : N := fst (nth (N.to_nat i) rows (0, 0)).
Definition back_of (rows : list (N * N)) (i : N) : N := snd (nth (N.to_nat i) rows (0, 0)).

Lemma table_facts (rows : list (N * N)) (n : N) : table_check rows n = true ->
  lenN rows = n /\
  (forall i, i < n -> back_of rows i = i) /\
  NoDup (map fst rows) /\
  (forall i j, i < n -> j < n -> key_of rows i = key_of rows j -> i = j).
Proof.
  intros H. unfold table_check in H.
  apply andb_true_iff in H. destruct H as [H H3]. apply andb_true_iff in H. destruct H as [H1 H2].
  apply N.eqb_eq in H1.
  assert (ND: NoDup (map fst rows)).
  { apply (Permutation_NoDup (l := NSort.sort (map fst rows))).
    - apply Permutation_sym. apply NSort.Permuted_sort.
    - apply incr_nodup. exact H3. }
  split; [exact H1|]. split; [|split; [exact ND|]].
  - intros i Hi. unfold back_of. rewrite (check_back_sound rows 0 H2) by (unfold lenN in H1; lia). lia.
  - intros i j Hi Hj E. unfold key_of in E.
    assert (Li: (N.to_nat i < length (map fst rows))%nat) by (rewrite map_length; unfold lenN in H1; lia).
    assert (Lj: (N.to_nat j < length (map fst rows))%nat) by (rewrite map_length; unfold lenN in H1; lia).
    pose proof (proj1 (NoDup_nth (map fst rows) 0) ND (N.to_nat i) (N.to_nat j) Li Lj) as Inj.
    change 0 with (fst (0, 0)) in Inj at 1 2. rewrite !map_nth in Inj. specialize (Inj E). lia.
Qed.

Lemma reg_check_ok : table_check reg_rows reg_count = true.
Proof. vm_compute. reflexivity. Qed.

Definition reg_key : N -> N := key_of reg_rows.
Definition reg_back : N -> N := back_of reg_rows.
Definition registry_facts := table_facts reg_rows reg_count reg_check_ok.

(* the biome names: the same check on the second table *)
Lemma bio_check_ok : table_check bio_rows bio_count = true.
Proof. vm_compute. reflexivity. Qed.
Definition bio_key : N -> N := key_of bio_rows.
Definition bio_back : N -> N := back_of bio_rows.
Definition biome_facts := table_facts bio_rows bio_count bio_check_ok.

(* the air states: the three ids the generator found BY NAME in the running registry *)
Definition reg_is_air (v : Z) : bool := existsb (fun a => (Z.of_N a =? v)%Z) reg_air.
Definition air_check : bool :=
  (lenN reg_air =? 3) && incr (NSort.sort reg_air) &&
  forallb (fun a => (a <? reg_count) && (reg_back a =? a)) reg_air && reg_is_air 0%Z.
Lemma air_check_ok : air_check = true.
Proof. vm_compute. reflexivity. Qed.
Lemma air_facts :
  lenN reg_air = 3 /\ NoDup reg_air /\ (forall a, In a reg_air -> a < reg_count /\ reg_back a = a) /\
  reg_is_air 0%Z = true /\ (forall v, reg_is_air v = true <-> exists a, In a reg_air /\ Z.of_N a = v).
Proof.
  pose proof air_check_ok as H. unfold air_check in H.
  apply andb_true_iff in H. destruct H as [H H4]. apply andb_true_iff in H. destruct H as [H H3].
  apply andb_true_iff in H. destruct H as [H1 H2]. apply N.eqb_eq in H1.
  split; [exact H1|]. split.
  { apply (Permutation_NoDup (l := NSort.sort reg_air)); [apply Permutation_sym, NSort.Permuted_sort|apply incr_nodup, H2]. }
  split.
  { intros a Ha. rewrite forallb_forall in H3. specialize (H3 a Ha). apply andb_true_iff in H3. destruct H3 as [A B].
    apply N.ltb_lt in A. apply N.eqb_eq in B. auto. }
  split; [exact H4|]. intros v. unfold reg_is_air. rewrite existsb_exists. split.
  - intros (a & Ha & E). exists a. split; [exact Ha|]. apply Z.eqb_eq in E. exact E.
  - intros (a & Ha & E). exists a. split; [exact Ha|]. apply Z.eqb_eq. exact E.
Qed.
