(* C13 proofs, part 5: the save form - width recovery of New*PaletteContainerWithData over all palette
   classes, the height-map map, section order, ChunkFromSave after ChunkToSave *)
From Coq Require Import List Arith NArith ZArith Lia Bool ZifyN ZifyNat ZifyBool.
From GoMC Require Import Base.Bytes Base.Bits Base.Dec Gen.Consts Model.C05 Model.C06 Model.C11 Model.C13.
From GoMC Require Import Proofs.C13 Proofs.C13_wire.
From GoMC Require Proofs.C11.
Import ListNotations.
Open Scope Z_scope.
Ltac Zify.zify_post_hook ::= Z.div_mod_to_equations.

Notation size_of := Proofs.C11.size_of.

(* ---------- the width tables: calcBitsPerValue o calcBitStorageSize per class ---------- *)
Lemma st_class_4_8 : forall B, 4 <= B <= 8 -> calc_bits 4096 (size_of B 4096) = Some B.
Proof. intros B H. assert (B = 4 \/ B = 5 \/ B = 6 \/ B = 7 \/ B = 8) as [->|[->|[->|[->| ->]]]] by lia; reflexivity. Qed.

Definition range (lo n : nat) : list Z := map Z.of_nat (seq lo n).
Lemma in_range lo n z : Z.of_nat lo <= z < Z.of_nat (lo + n) -> In z (range lo n).
Proof. intros H. unfold range. apply in_map_iff. exists (Z.to_nat z). split; [lia|]. apply in_seq. lia. Qed.

Lemma st_class_global : forall g, 9 <= g <= 32 -> exists n0, calc_bits 4096 (size_of g 4096) = Some n0 /\ 9 <= n0.
Proof.
  intros g H.
  assert (E: forallb (fun g => match calc_bits 4096 (size_of g 4096) with Some n0 => 9 <=? n0 | None => false end) (range 9 24) = true)
    by (vm_compute; reflexivity).
  rewrite forallb_forall in E. specialize (E g (in_range 9 24 g ltac:(lia))).
  destruct (calc_bits 4096 (size_of g 4096)) as [n0|]; [|discriminate]. exists n0. split; [reflexivity|lia].
Qed.
Lemma bio_class_global : forall g, 4 <= g <= 32 -> exists n0, calc_bits 64 (size_of g 64) = Some n0 /\ 4 <= n0.
Proof.
  intros g H.
  assert (E: forallb (fun g => match calc_bits 64 (size_of g 64) with Some n0 => 4 <=? n0 | None => false end) (range 4 29) = true)
    by (vm_compute; reflexivity).
  rewrite forallb_forall in E. specialize (E g (in_range 4 29 g ltac:(lia))).
  destruct (calc_bits 64 (size_of g 64)) as [n0|]; [|discriminate]. exists n0. split; [reflexivity|lia].
Qed.

(* ---------- the container invariant at field level (what New*, Set and ReadFrom leave) ---------- *)
Record wc_inv (biome : bool) (g n : Z) (c : wcont) : Prop := mkWI {
  wi_b : 0 <= w_bits c;
  wi_kind : w_kind c = cfg_kind biome (w_bits c);
  wi_bits : bits (w_data c) = cfg_bits biome g (w_bits c);
  wi_len : blen (w_data c) = n;
  wi_data : if bits (w_data c) =? 0 then w_data c = mkBS [] 0%N 0 n 0 else Proofs.C11.wf (w_data c);
  wi_pal : if (w_kind c =? kSingle)%N then exists v, w_pal c = [v]
           else if (w_kind c =? kGlobal)%N then True
           else 1 <= Z.of_N (lenN (w_pal c)) <= 2 ^ bits (w_data c);
  wi_get : forall i, 0 <= i < n -> exists v, wc_get c i = ORet v }.

(* same kind, same data, same palette where the kind has one: every Get agrees *)
Definition wc_same (c c' : wcont) : Prop :=
  w_kind c' = w_kind c /\ w_data c' = w_data c /\ (w_kind c <> kGlobal -> w_pal c' = w_pal c).
Lemma wc_same_get c c' : wc_same c c' -> forall i, wc_get c' i = wc_get c i.
Proof.
  intros (Hk & Hd & Hp) i. unfold wc_get. rewrite Hk, Hd.
  destruct (snd (bs_get (w_data c) i)); try reflexivity.
  destruct (N.eqb_spec (w_kind c) kGlobal) as [E|NE]; [reflexivity|]. rewrite (Hp NE). reflexivity.
Qed.

Lemma lenN_Z {A} (l : list A) : Z.of_N (lenN l) = Z.of_nat (length l).
Proof. unfold lenN. lia. Qed.

Lemma data_len c : bits (w_data c) <> 0 -> Proofs.C11.wf (w_data c) ->
  Z.of_N (lenN (data (w_data c))) = size_of (bits (w_data c)) (blen (w_data c)).
Proof. intros _ W. rewrite lenN_Z. apply Proofs.C11.wf_size_of. exact W. Qed.

(* ---------- block states: 4096 entries ---------- *)
Lemma with_data_states gs gb c : 9 <= gs <= 32 -> wc_inv false gs 4096 c ->
  exists c', with_data gs gb false 4096 (data (w_data c)) (wc_export c) = SOk c' /\ wc_same c c'.
Proof.
  intros Hg [Hb Hk Hbits Hlen Hdata Hpal _]. unfold with_data, wc_export.
  unfold cfg_bits in Hbits. unfold cfg_kind in Hk. cbn [negb] in *.
  destruct (Z.eqb_spec (w_bits c) 0) as [B0|B0].
  { (* single value *)
    rewrite Hbits in Hdata. cbn [Z.eqb] in Hdata. rewrite Hdata. cbn [data lenN length N.of_nat Z.of_N].
    change (calc_bits 4096 0) with (Some 0). cbv beta iota zeta.
    change ((1 <=? 0) && (0 <=? 4)) with false. cbv iota.
    rewrite Hk in Hpal |- *. change (kSingle =? kSingle)%N with true in *. change (kSingle =? kGlobal)%N with false. cbv iota.
    destruct Hpal as [v Hv]. rewrite Hv.
    change (cfg_kind false 0) with kSingle. change (kSingle =? kSingle)%N with true. cbn [andb hd].
    change (kSingle =? kGlobal)%N with false. cbn [andb]. cbv iota.
    change (cfg_bits false gs 0) with 0. rewrite Proofs.C11.b0_new.
    eexists. split; [reflexivity|]. repeat split; cbn [w_kind w_data w_pal]; auto. }
  assert (Hnz: bits (w_data c) <> 0).
  { rewrite Hbits. destruct ((1 <=? w_bits c) && (w_bits c <=? 4)); [lia|].
    destruct ((5 <=? w_bits c) && (w_bits c <=? 8)); lia. }
  destruct (Z.eqb_spec (bits (w_data c)) 0) as [E|_]; [contradiction|].
  rewrite (data_len c Hnz Hdata), Hlen.
  pose proof (Proofs.C11.accept_back (w_data c) Hdata) as Hacc. rewrite Hlen in Hacc.
  destruct ((1 <=? w_bits c) && (w_bits c <=? 4)) eqn:C14.
  { (* linear, 4 bits *)
    rewrite Hbits in Hacc |- *. rewrite (st_class_4_8 4) by lia. cbv beta iota zeta.
    change ((1 <=? 4) && (4 <=? 4)) with true. cbv iota.
    change (cfg_kind false 4) with kLinear. change (kLinear =? kSingle)%N with false. cbn [andb]. cbv iota.
    change (kLinear =? kGlobal)%N with false. cbn [andb]. cbv iota. change (cfg_bits false gs 4) with 4.
    rewrite Hk. change (kLinear =? kGlobal)%N with false. cbv iota. rewrite Hacc.
    eexists. split; [reflexivity|]. repeat split; cbn [w_kind w_data w_pal]; auto. }
  destruct ((5 <=? w_bits c) && (w_bits c <=? 8)) eqn:C58.
  { (* hash, 5..8 bits *)
    rewrite Hbits in Hacc |- *. rewrite (st_class_4_8 (w_bits c)) by lia. cbv beta iota zeta.
    replace ((1 <=? w_bits c) && (w_bits c <=? 4)) with false by lia. cbv iota.
    unfold cfg_kind, cfg_bits. replace (w_bits c =? 0) with false by lia. rewrite C14, C58. cbv iota.
    change (kHash =? kSingle)%N with false. cbn [andb]. cbv iota. change (kHash =? kGlobal)%N with false. cbn [andb]. cbv iota.
    rewrite Hk. change (kHash =? kGlobal)%N with false. cbv iota. rewrite Hacc.
    eexists. split; [reflexivity|]. repeat split; cbn [w_kind w_data w_pal]; auto. }
  (* direct *)
  rewrite Hbits in Hacc |- *. destruct (st_class_global gs Hg) as (n0 & Hn0 & Hge). rewrite Hn0. cbv beta iota zeta.
  replace ((1 <=? n0) && (n0 <=? 4)) with false by lia. cbv iota.
  assert (Ek: cfg_kind false n0 = kGlobal).
  { unfold cfg_kind. replace (n0 =? 0) with false by lia. replace ((1 <=? n0) && (n0 <=? 4)) with false by lia.
    replace ((5 <=? n0) && (n0 <=? 8)) with false by lia. reflexivity. }
  assert (Eb: cfg_bits false gs n0 = gs).
  { unfold cfg_bits. replace (n0 =? 0) with false by lia. replace ((1 <=? n0) && (n0 <=? 4)) with false by lia.
    replace ((5 <=? n0) && (n0 <=? 8)) with false by lia. reflexivity. }
  rewrite Ek, Eb. change (kGlobal =? kSingle)%N with false. cbn [andb]. cbv iota.
  change (kGlobal =? kGlobal)%N with true. cbv iota. rewrite Hk. change (kGlobal =? kGlobal)%N with true. cbv iota.
  cbn [lenN length N.of_nat Z.of_N andb]. change (256 <? 0) with false. cbv iota. rewrite Hacc.
  eexists. split; [reflexivity|]. split; [|split]; cbn [w_kind w_data w_pal]; auto.
  intros NE. rewrite Hk in NE. contradiction.
Qed.

(* ---------- biomes: 64 entries ---------- *)
Lemma with_data_biomes gs gb c : 4 <= gb <= 32 -> wc_inv true gb 64 c ->
  exists c', with_data gs gb true 64 (data (w_data c)) (wc_export c) = SOk c' /\ wc_same c c'.
Proof.
  intros Hg [Hb Hk Hbits Hlen Hdata Hpal _]. unfold with_data, wc_export.
  unfold cfg_bits in Hbits. unfold cfg_kind in Hk.
  destruct (Z.eqb_spec (w_bits c) 0) as [B0|B0].
  { rewrite Hbits in Hdata. cbn [Z.eqb] in Hdata. rewrite Hdata. cbn [data lenN length N.of_nat Z.of_N].
    change (calc_bits 64 0) with (Some 0). cbv beta iota zeta.
    change (3 <? 0) with false. cbn [andb]. cbv iota.
    rewrite Hk in Hpal |- *. change (kSingle =? kSingle)%N with true in *. change (kSingle =? kGlobal)%N with false. cbv iota.
    destruct Hpal as [v Hv]. rewrite Hv.
    change (cfg_kind true 0) with kSingle. change (kSingle =? kSingle)%N with true. cbn [andb hd].
    change (kSingle =? kGlobal)%N with false. cbn [andb]. cbv iota.
    change (cfg_bits true gb 0) with 0. rewrite Proofs.C11.b0_new.
    eexists. split; [reflexivity|]. repeat split; cbn [w_kind w_data w_pal]; auto. }
  assert (Hnz: bits (w_data c) <> 0).
  { rewrite Hbits. destruct ((1 <=? w_bits c) && (w_bits c <=? 3)); lia. }
  destruct (Z.eqb_spec (bits (w_data c)) 0) as [E|_]; [contradiction|].
  rewrite (data_len c Hnz Hdata), Hlen.
  pose proof (Proofs.C11.accept_back (w_data c) Hdata) as Hacc. rewrite Hlen in Hacc.
  destruct ((1 <=? w_bits c) && (w_bits c <=? 3)) eqn:C13.
  { (* linear, 1..3 bits *)
    rewrite Hk in Hpal. change (kLinear =? kSingle)%N with false in Hpal. change (kLinear =? kGlobal)%N with false in Hpal.
    cbv iota in Hpal. rewrite Hbits in Hacc, Hpal |- *.
    assert (w_bits c = 1 \/ w_bits c = 2 \/ w_bits c = 3) as [E|[E|E]] by lia; rewrite E in *.
    - change (calc_bits 64 (size_of 1 64)) with (Some 1). cbv beta iota zeta.
      change (3 <? 1) with false. cbn [andb]. cbv iota.
      change (cfg_kind true 1) with kLinear. change (kLinear =? kSingle)%N with false. cbn [andb]. cbv iota.
      change (kLinear =? kGlobal)%N with false. cbn [andb]. cbv iota. change (cfg_bits true gb 1) with 1.
      rewrite Hk. change (kLinear =? kGlobal)%N with false. cbv iota. rewrite Hacc.
      eexists. split; [reflexivity|]. repeat split; cbn [w_kind w_data w_pal]; auto.
    - change (calc_bits 64 (size_of 2 64)) with (Some 2). cbv beta iota zeta.
      change (3 <? 2) with false. cbn [andb]. cbv iota.
      change (cfg_kind true 2) with kLinear. change (kLinear =? kSingle)%N with false. cbn [andb]. cbv iota.
      change (kLinear =? kGlobal)%N with false. cbn [andb]. cbv iota. change (cfg_bits true gb 2) with 2.
      rewrite Hk. change (kLinear =? kGlobal)%N with false. cbv iota. rewrite Hacc.
      eexists. split; [reflexivity|]. repeat split; cbn [w_kind w_data w_pal]; auto.
    - (* 64 three-bit ids take 4 longs, as many as 64 four-bit ids: the palette length decides *)
      change (calc_bits 64 (size_of 3 64)) with (Some 4). cbv beta iota zeta.
      change (size_of 3 64) with 4. change (calc_size 3 64) with (Some 4). cbv beta iota.
      rewrite Hk. change (kLinear =? kGlobal)%N with false. cbv iota.
      change (2 ^ 3) with 8 in Hpal.
      replace ((3 <? 4) && (0 <? Z.of_N (lenN (w_pal c))) && (Z.of_N (lenN (w_pal c)) <=? 8) && (4 =? 4)) with true by lia.
      cbv iota.
      change (cfg_kind true 3) with kLinear. change (kLinear =? kSingle)%N with false. cbn [andb]. cbv iota.
      change (kLinear =? kGlobal)%N with false. cbn [andb]. cbv iota. change (cfg_bits true gb 3) with 3.
      rewrite Hacc.
      eexists. split; [reflexivity|]. repeat split; cbn [w_kind w_data w_pal]; auto. }
  (* direct *)
  rewrite Hbits in Hacc |- *. destruct (bio_class_global gb Hg) as (n0 & Hn0 & Hge). rewrite Hn0. cbv beta iota zeta.
  rewrite Hk. change (kGlobal =? kGlobal)%N with true. cbv iota.
  cbn [lenN length N.of_nat Z.of_N]. change (0 <? 0) with false. rewrite !andb_false_r. cbn [andb]. cbv iota.
  assert (Ek: cfg_kind true n0 = kGlobal).
  { unfold cfg_kind. replace (n0 =? 0) with false by lia. replace ((1 <=? n0) && (n0 <=? 3)) with false by lia. reflexivity. }
  assert (Eb: cfg_bits true gb n0 = gb).
  { unfold cfg_bits. replace (n0 =? 0) with false by lia. replace ((1 <=? n0) && (n0 <=? 3)) with false by lia. reflexivity. }
  rewrite Ek, Eb. change (kGlobal =? kSingle)%N with false. cbn [andb]. cbv iota.
  change (kGlobal =? kGlobal)%N with true. cbn [andb]. change (8 <? 0) with false. cbv iota. rewrite Hacc.
  eexists. split; [reflexivity|]. split; [|split]; cbn [w_kind w_data w_pal]; auto.
  intros NE. rewrite Hk in NE. contradiction.
Qed.

(* ---------- all positions; the recount ---------- *)
Definition wc_vals (n : nat) (c : wcont) : list Z :=
  map (fun i => match wc_get c (Z.of_nat i) with ORet v => v | _ => 0 end) (seq 0 n).

Lemma wc_abs_vals n c : (forall i, 0 <= i < Z.of_nat n -> exists v, wc_get c i = ORet v) ->
  wc_abs n c = Some (wc_vals n c).
Proof.
  intros H. unfold wc_abs, wc_vals.
  assert (G: forall l, (forall i, In i l -> (i < n)%nat) ->
    fold_right (fun i acc => match wc_get c (Z.of_nat i), acc with ORet v, Some l => Some (v :: l) | _, _ => None end) (Some []) l
    = Some (map (fun i => match wc_get c (Z.of_nat i) with ORet v => v | _ => 0 end) l)).
  { induction l as [|i l IH]; intros Hl; [reflexivity|]. cbn [fold_right map].
    rewrite IH by (intros j Hj; apply Hl; right; exact Hj).
    destruct (H (Z.of_nat i)) as [v Hv]; [specialize (Hl i (or_introl eq_refl)); lia|]. rewrite Hv. reflexivity. }
  apply G. intros i Hi. apply in_seq in Hi. lia.
Qed.

Lemma wc_vals_same n c c' : wc_same c c' -> wc_vals n c' = wc_vals n c.
Proof. intros S. unfold wc_vals. apply map_ext. intros i. rewrite (wc_same_get c c' S). reflexivity. Qed.

(* the number of positions of a section, kept folded (a unary 4096 must never be unfolded by conversion) *)
Definition nsec : nat := Z.to_nat sec_len.
Lemma nsec_Z : Z.of_nat nsec = 4096. Proof. vm_compute. reflexivity. Qed.
Global Opaque nsec.

Lemma count_same is_air gs c c' : wc_inv false gs 4096 c -> wc_same c c' ->
  count_non_air is_air c' = SOk (non_air is_air (wc_vals nsec c)).
Proof.
  intros I S. unfold count_non_air. change (Z.to_nat sec_len) with nsec.
  rewrite (wc_abs_vals nsec c').
  - rewrite (wc_vals_same nsec c c' S). reflexivity.
  - intros i Hi. rewrite nsec_Z in Hi. rewrite (wc_same_get c c' S). apply (wi_get _ _ _ _ I). exact Hi.
Qed.

(* ---------- the registry round trip of a palette ---------- *)
Lemma opt_all_inv {A B} (f : A -> option B) (g : B -> option A) :
  (forall v x, f v = Some x -> g x = Some v) ->
  forall l, Forall (fun v => exists x, f v = Some x) l ->
  exists xs, opt_all (map f l) = Some xs /\ opt_all (map g xs) = Some l.
Proof.
  intros Hinv. induction 1 as [|v l [x Hx] Hl (xs & E1 & E2)]; [exists []; split; reflexivity|].
  exists (x :: xs). cbn [map opt_all]. rewrite Hx, E1. split; [reflexivity|].
  cbn [map opt_all]. rewrite (Hinv v x Hx), E2. reflexivity.
Qed.

(* ---------- the key -> longs map ---------- *)
Lemma bytes_eq_iff a : forall b, bytes_eq a b = true <-> a = b.
Proof.
  induction a as [|x a IH]; intros [|y b]; cbn [bytes_eq]; split; intros H; try discriminate; try reflexivity.
  - apply andb_true_iff in H. destruct H as [H1 H2]. apply N.eqb_eq in H1. apply IH in H2. subst. reflexivity.
  - inversion H; subst. rewrite N.eqb_refl. cbn [andb]. apply IH. reflexivity.
Qed.
Lemma lookup_set_same k v m : hm_lookup k (hm_set k v m) = Some v.
Proof.
  assert (R: bytes_eq k k = true) by (apply bytes_eq_iff; reflexivity).
  induction m as [|[k' v'] m IH]; cbn [hm_set hm_lookup]; [rewrite R; reflexivity|].
  destruct (bytes_eq k k') eqn:E; cbn [hm_lookup]; [rewrite R; reflexivity|]. rewrite E. exact IH.
Qed.
Lemma lookup_set_other k1 k2 v m : bytes_eq k1 k2 = false -> hm_lookup k1 (hm_set k2 v m) = hm_lookup k1 m.
Proof.
  intros NE. induction m as [|[k' v'] m IH]; cbn [hm_set hm_lookup]; [rewrite NE; reflexivity|].
  destruct (bytes_eq k2 k') eqn:E; cbn [hm_lookup].
  - apply bytes_eq_iff in E. subst k'. rewrite NE. reflexivity.
  - destruct (bytes_eq k1 k'); [reflexivity|exact IH].
Qed.

Lemma new_hm_save_ok n o : hm_ok n o -> new_hm_save n (Some (raw_of o)) = SOk o.
Proof.
  intros (st & -> & W & Hb & Hl). cbn [raw_of]. unfold new_hm_save. rewrite <- Hb, <- Hl.
  rewrite Proofs.C11.accept_back by exact W. reflexivity.
Qed.

Lemma hm_want n o : hm_ok n o ->
  exists w, calc_size (hm_bits n) hm_len = Some w /\ Z.of_N (lenN (raw_of o)) = w.
Proof.
  intros (st & -> & W & Hb & Hl). cbn [raw_of].
  pose proof (Proofs.C11.wf_size_of st W) as Hs. pose proof (Proofs.C11.wf_b st W) as Hbits.
  rewrite Hb, Hl in Hs.
  destruct (Proofs.C11.calc_size_ok (hm_bits n) hm_len ltac:(rewrite <- Hb; exact Hbits) ltac:(unfold hm_len; lia)) as [Hcs _].
  eexists. split; [exact Hcs|]. rewrite lenN_Z. exact Hs.
Qed.

Lemma upd_nth_mid {A} (pre : list A) y rest x : upd_nth (pre ++ y :: rest) (length pre) x = pre ++ x :: rest.
Proof. induction pre as [|p pre IH]; cbn [app length upd_nth]; [reflexivity|]. rewrite IH. reflexivity. Qed.

(* ---------- sections ---------- *)
Section SaveRT.
Variable st_name : Z -> option (list N * (N * list N)).
Variable st_id : list N * (N * list N) -> option Z.
Variable bio_name : Z -> option (list N).
Variable bio_id : list N -> option Z.
Variable is_air : Z -> bool.
Variable gs gb : Z.
(* the registry functions are mutually inverse where they are defined (C13_registry's subject) *)
Hypothesis st_inverse : forall v x, st_name v = Some x -> st_id x = Some v.
Hypothesis bio_inverse : forall v x, bio_name v = Some x -> bio_id x = Some v.
Hypothesis gs_range : 9 <= gs <= 32.
Hypothesis gb_range : 4 <= gb <= 32.

Definition sec_inv (s : sect wcont) : Prop :=
  wc_inv false gs 4096 (s_states s) /\ wc_inv true gb 64 (s_biomes s) /\
  Forall (fun v => exists x, st_name v = Some x) (wc_export (s_states s)) /\
  Forall (fun v => exists x, bio_name v = Some x) (wc_export (s_biomes s)).
(* what the property asks of a section that went through the save form *)
Definition sec_same (s s' : sect wcont) : Prop :=
  (forall i, wc_get (s_states s') i = wc_get (s_states s) i) /\
  (forall i, wc_get (s_biomes s') i = wc_get (s_biomes s) i) /\
  s_sky s' = s_sky s /\ s_blk s' = s_blk s /\
  s_count s' = non_air is_air (wc_vals nsec (s_states s)).

Lemma non_air_small a : Z.of_nat (length a) <= 4096 -> sx16 (u16 (non_air is_air a)) = non_air is_air a.
Proof.
  intros H. apply sx16_u16_small. rewrite non_air_cnt. pose proof (cnt_le is_air a). lia.
Qed.

Lemma sec_rt ypos i s : sec_inv s ->
  exists x s', to_save_sec st_name bio_name ypos i s = SOk x /\ ss_y x = sx8 (u8 (Z.of_nat i + ypos)) /\
               from_save_sec st_id bio_id is_air gs gb x = SOk s' /\ sec_same s s'.
Proof.
  intros (Is & Ib & Rs & Rb). unfold to_save_sec.
  destruct (opt_all_inv st_name st_id st_inverse _ Rs) as (bp & E1 & E2).
  destruct (opt_all_inv bio_name bio_id bio_inverse _ Rb) as (biop & E3 & E4).
  rewrite E1, E3. eexists. 
  destruct (with_data_states gs gb (s_states s) gs_range Is) as (st' & Ws & Ss).
  destruct (with_data_biomes gs gb (s_biomes s) gb_range Ib) as (bi' & Wb & Sb).
  exists (mkSec (non_air is_air (wc_vals nsec (s_states s))) st' bi' (s_sky s) (s_blk s)).
  split; [reflexivity|]. split; [reflexivity|]. split.
  - unfold from_save_sec. cbn [ss_bpal ss_bdata ss_biopal ss_biodata ss_sky ss_blk].
    rewrite E2. change sec_len with 4096. rewrite Ws. rewrite (count_same is_air gs _ _ Is Ss).
    rewrite E4. change bio_len with 64. rewrite Wb.
    rewrite non_air_small by (unfold wc_vals; rewrite map_length, seq_length, nsec_Z; lia). reflexivity.
  - unfold sec_same. cbn [s_states s_biomes s_sky s_blk s_count].
    split; [apply wc_same_get; exact Ss|]. split; [apply wc_same_get; exact Sb|]. auto.
Qed.

Lemma y_back ypos j : -128 <= ypos < 2^31 -> -128 <= Z.of_nat j + ypos < 128 ->
  sx32 (u32 (sx8 (u8 (Z.of_nat j + ypos)) - ypos)) = Z.of_nat j.
Proof.
  intros Hy Hj. unfold sx8, u8. rewrite sx_wrapu by (try reflexivity; unfold in_sw; cbn; lia).
  replace (Z.of_nat j + ypos - ypos) with (Z.of_nat j) by lia.
  unfold sx32, u32. apply sx_wrapu; [reflexivity|]. unfold in_sw. cbn. lia.
Qed.

Lemma secs_rt ypos : -2^31 <= ypos < 2^31 -> forall ss i pre, length pre = i -> Forall sec_inv ss ->
  -128 <= ypos -> Z.of_nat (i + length ss) + ypos <= 128 ->
  exists xs ss', to_save_secs st_name bio_name ypos i ss = SOk xs /\
    from_save_secs st_id bio_id is_air gs gb ypos (Z.of_nat (i + length ss)) xs (pre ++ repeat None (length ss))
      = SOk (pre ++ map Some ss') /\ Forall2 sec_same ss ss'.
Proof.
  intros Hy. induction ss as [|s t IH]; intros i pre Hpre Hinv Hlo Hhi.
  - exists [], []. cbn [to_save_secs from_save_secs length repeat map]. repeat split; constructor.
  - inversion Hinv as [|? ? Hs Ht]; subst. cbn [length] in *.
    destruct (sec_rt ypos (length pre) s Hs) as (x & s' & T1 & Yx & F1 & Same1).
    destruct (IH (S (length pre)) (pre ++ [Some s']) ltac:(rewrite app_length; cbn [length]; lia) Ht Hlo ltac:(lia))
      as (xs & ss' & T2 & F2 & Same2).
    exists (x :: xs), (s' :: ss'). cbn [to_save_secs]. rewrite T1, T2. split; [reflexivity|]. split; [|constructor; assumption].
    cbn [from_save_secs]. rewrite Yx. rewrite (y_back ypos (length pre)) by lia.
    replace ((Z.of_nat (length pre) <? 0) || (Z.of_nat (length pre + S (length t)) <=? Z.of_nat (length pre))) with false by lia.
    rewrite F1. rewrite Nat2Z.id. cbn [repeat]. unfold upd_at. rewrite upd_nth_mid.
    replace (length pre + S (length t))%nat with (S (length pre) + length t)%nat by lia.
    replace (pre ++ Some s' :: repeat None (length t)) with ((pre ++ [Some s']) ++ repeat None (length t))
      by (rewrite <- app_assoc; reflexivity).
    rewrite F2. rewrite <- app_assoc. reflexivity.
Qed.
End SaveRT.

(* ---------- ChunkFromSave after ChunkToSave ---------- *)
Lemma to_save_secs_length st_name bio_name ypos : forall ss i xs,
  to_save_secs st_name bio_name ypos i ss = SOk xs -> length xs = length ss.
Proof.
  induction ss as [|s t IH]; intros i xs T; cbn [to_save_secs] in T.
  - inversion T; reflexivity.
  - destruct (to_save_sec st_name bio_name ypos i s); try discriminate.
    destruct (to_save_secs st_name bio_name ypos (S i) t) eqn:E; try discriminate.
    inversion T; subst. cbn [length]. f_equal. eapply IH. exact E.
Qed.
Definition six_keys : list (list N) := [kWSWG; kWS; kOFWG; kOF; kMB; kMBNL].

Definition save_ok (st_name : Z -> option (list N * (N * list N))) (bio_name : Z -> option (list N))
           (gs gb : Z) (c : wchunk) (dst : schunk) : Prop :=
  Forall (sec_inv st_name bio_name gs gb) (c_secs c) /\
  (let n := lenN (c_secs c) in
   hm_ok n (hWSWG (c_hm c)) /\ hm_ok n (hWS (c_hm c)) /\ hm_ok n (hOFWG (c_hm c)) /\
   hm_ok n (hOF (c_hm c)) /\ hm_ok n (hMB (c_hm c)) /\ hm_ok n (hMBNL (c_hm c))) /\
  -128 <= sc_ypos dst /\ Z.of_nat (length (c_secs c)) + sc_ypos dst <= 128.    (* Y is an int8 *)

Theorem save_roundtrip st_name st_id bio_name bio_id is_air gs gb (c : wchunk) (dst : schunk) :
  (forall v x, st_name v = Some x -> st_id x = Some v) ->
  (forall v x, bio_name v = Some x -> bio_id x = Some v) ->
  9 <= gs <= 32 -> 4 <= gb <= 32 ->
  save_ok st_name bio_name gs gb c dst ->
  exists s secs',
    to_save st_name bio_name c dst = SOk s /\
    (* every height map under its own key, the status, and nothing else of the destination's map touched *)
    hm_lookup kWSWG (sc_hm s) = Some (raw_of (hWSWG (c_hm c))) /\ hm_lookup kWS (sc_hm s) = Some (raw_of (hWS (c_hm c))) /\
    hm_lookup kOFWG (sc_hm s) = Some (raw_of (hOFWG (c_hm c))) /\ hm_lookup kOF (sc_hm s) = Some (raw_of (hOF (c_hm c))) /\
    hm_lookup kMB (sc_hm s) = Some (raw_of (hMB (c_hm c))) /\ hm_lookup kMBNL (sc_hm s) = Some (raw_of (hMBNL (c_hm c))) /\
    (forall k, Forall (fun k' => bytes_eq k k' = false) six_keys -> hm_lookup k (sc_hm s) = hm_lookup k (sc_hm dst)) /\
    sc_status s = c_status c /\ length (sc_secs s) = length (c_secs c) /\
    (* and back *)
    from_save st_id bio_id is_air gs gb s = SOk (map Some secs', c_hm c, c_status c) /\
    Forall2 (sec_same is_air) (c_secs c) secs'.
Proof.
  intros Hst Hbio Hgs Hgb (Hsecs & (H1 & H2 & H3 & H4 & H5 & H6) & Hlo & Hhi).
  assert (Hy: -2^31 <= sc_ypos dst < 2^31) by lia.
  destruct (secs_rt st_name st_id bio_name bio_id is_air gs gb Hst Hbio Hgs Hgb (sc_ypos dst) Hy
              (c_secs c) O [] eq_refl Hsecs Hlo ltac:(cbn [Nat.add]; lia)) as (xs & ss' & T & F & Same).
  cbn [Nat.add app] in F.
  pose proof (to_save_secs_length st_name bio_name (sc_ypos dst) (c_secs c) O xs T) as Lx.
  unfold to_save. rewrite T. eexists. exists ss'. split; [reflexivity|]. cbn [sc_hm sc_status sc_secs].
  repeat match goal with |- _ /\ _ => split end.
  - rewrite !lookup_set_other by reflexivity. apply lookup_set_same.
  - rewrite !lookup_set_other by reflexivity. apply lookup_set_same.
  - rewrite !lookup_set_other by reflexivity. apply lookup_set_same.
  - rewrite !lookup_set_other by reflexivity. apply lookup_set_same.
  - rewrite !lookup_set_other by reflexivity. apply lookup_set_same.
  - apply lookup_set_same.
  - intros k Hk. unfold six_keys in Hk.
    inversion Hk as [|? ? K1 Hk1]; subst. inversion Hk1 as [|? ? K2 Hk2]; subst. inversion Hk2 as [|? ? K3 Hk3]; subst.
    inversion Hk3 as [|? ? K4 Hk4]; subst. inversion Hk4 as [|? ? K5 Hk5]; subst. inversion Hk5 as [|? ? K6 _]; subst.
    rewrite !lookup_set_other by assumption. reflexivity.
  - reflexivity.
  - exact Lx.
  - unfold from_save. cbn [sc_secs sc_ypos sc_hm sc_status].
    assert (EL: lenN xs = lenN (c_secs c)) by (unfold lenN; rewrite Lx; reflexivity). rewrite !EL.
    rewrite lenN_Z. rewrite Lx. rewrite F.
    destruct (hm_want _ _ H1) as (w & Hcs & W1). rewrite Hcs.
    destruct (hm_want _ _ H2) as (w2 & Hcs2 & W2). rewrite Hcs in Hcs2. assert (w2 = w) by congruence. rewrite H in W2. clear H.
    destruct (hm_want _ _ H3) as (w3 & Hcs3 & W3). rewrite Hcs in Hcs3. assert (w3 = w) by congruence. rewrite H in W3. clear H.
    destruct (hm_want _ _ H4) as (w4 & Hcs4 & W4). rewrite Hcs in Hcs4. assert (w4 = w) by congruence. rewrite H in W4. clear H.
    destruct (hm_want _ _ H5) as (w5 & Hcs5 & W5). rewrite Hcs in Hcs5. assert (w5 = w) by congruence. rewrite H in W5. clear H.
    destruct (hm_want _ _ H6) as (w6 & Hcs6 & W6). rewrite Hcs in Hcs6. assert (w6 = w) by congruence. rewrite H in W6. clear H.
    cbn [existsb].
    rewrite !(lookup_set_other kWSWG) by reflexivity. rewrite !(lookup_set_other kWS) by reflexivity.
    rewrite !(lookup_set_other kOFWG) by reflexivity. rewrite !(lookup_set_other kOF) by reflexivity.
    rewrite !(lookup_set_other kMB) by reflexivity. rewrite !lookup_set_same.
    rewrite W1, W2, W3, W4, W5, W6, Z.eqb_refl. cbn [negb orb].
    rewrite (new_hm_save_ok _ _ H2), (new_hm_save_ok _ _ H1), (new_hm_save_ok _ _ H3), (new_hm_save_ok _ _ H4),
            (new_hm_save_ok _ _ H5), (new_hm_save_ok _ _ H6).
    destruct (c_hm c); reflexivity.
  - exact Same.
Qed.
