(* C13: the translated skeletons of level/chunk.go against the recorded copy *)
From Coq Require Import List String ZArith.
From GoMC Require Import Model.C13_syntax Gen.C13gen Proofs.C13_expected.
Import ListNotations.

Lemma ChunkPos_WriteTo_body_skel_ok : c13_ChunkPos_WriteTo_body = x13_ChunkPos_WriteTo_body.
Proof. reflexivity. Qed.
Lemma ChunkPos_ReadFrom_body_skel_ok : c13_ChunkPos_ReadFrom_body = x13_ChunkPos_ReadFrom_body.
Proof. reflexivity. Qed.
Lemma EmptyChunk_body_skel_ok : c13_EmptyChunk_body = x13_EmptyChunk_body.
Proof. reflexivity. Qed.
Lemma ChunkFromSave_body_skel_ok : c13_ChunkFromSave_body = x13_ChunkFromSave_body.
Proof. reflexivity. Qed.
Lemma readStatesPalette_body_skel_ok : c13_readStatesPalette_body = x13_readStatesPalette_body.
Proof. reflexivity. Qed.
Lemma readBiomesPalette_body_skel_ok : c13_readBiomesPalette_body = x13_readBiomesPalette_body.
Proof. reflexivity. Qed.
Lemma countNoneAirBlocks_body_skel_ok : c13_countNoneAirBlocks_body = x13_countNoneAirBlocks_body.
Proof. reflexivity. Qed.
Lemma ChunkToSave_body_skel_ok : c13_ChunkToSave_body = x13_ChunkToSave_body.
Proof. reflexivity. Qed.
Lemma writeStatesPalette_body_skel_ok : c13_writeStatesPalette_body = x13_writeStatesPalette_body.
Proof. reflexivity. Qed.
Lemma writeBiomesPalette_body_skel_ok : c13_writeBiomesPalette_body = x13_writeBiomesPalette_body.
Proof. reflexivity. Qed.
Lemma Chunk_WriteTo_body_skel_ok : c13_Chunk_WriteTo_body = x13_Chunk_WriteTo_body.
Proof. reflexivity. Qed.
Lemma Chunk_ReadFrom_body_skel_ok : c13_Chunk_ReadFrom_body = x13_Chunk_ReadFrom_body.
Proof. reflexivity. Qed.
Lemma Chunk_Data_body_skel_ok : c13_Chunk_Data_body = x13_Chunk_Data_body.
Proof. reflexivity. Qed.
Lemma Chunk_PutData_body_skel_ok : c13_Chunk_PutData_body = x13_Chunk_PutData_body.
Proof. reflexivity. Qed.
Lemma BlockEntity_UnpackXZ_body_skel_ok : c13_BlockEntity_UnpackXZ_body = x13_BlockEntity_UnpackXZ_body.
Proof. reflexivity. Qed.
Lemma BlockEntity_PackXZ_body_skel_ok : c13_BlockEntity_PackXZ_body = x13_BlockEntity_PackXZ_body.
Proof. reflexivity. Qed.
Lemma BlockEntity_WriteTo_body_skel_ok : c13_BlockEntity_WriteTo_body = x13_BlockEntity_WriteTo_body.
Proof. reflexivity. Qed.
Lemma BlockEntity_ReadFrom_body_skel_ok : c13_BlockEntity_ReadFrom_body = x13_BlockEntity_ReadFrom_body.
Proof. reflexivity. Qed.
Lemma Section_GetBlock_body_skel_ok : c13_Section_GetBlock_body = x13_Section_GetBlock_body.
Proof. reflexivity. Qed.
Lemma Section_SetBlock_body_skel_ok : c13_Section_SetBlock_body = x13_Section_SetBlock_body.
Proof. reflexivity. Qed.
Lemma Section_WriteTo_body_skel_ok : c13_Section_WriteTo_body = x13_Section_WriteTo_body.
Proof. reflexivity. Qed.
Lemma Section_ReadFrom_body_skel_ok : c13_Section_ReadFrom_body = x13_Section_ReadFrom_body.
Proof. reflexivity. Qed.
Lemma bitSetRev_body_skel_ok : c13_bitSetRev_body = x13_bitSetRev_body.
Proof. reflexivity. Qed.
Lemma lightData_WriteTo_body_skel_ok : c13_lightData_WriteTo_body = x13_lightData_WriteTo_body.
Proof. reflexivity. Qed.
Lemma lightData_ReadFrom_body_skel_ok : c13_lightData_ReadFrom_body = x13_lightData_ReadFrom_body.
Proof. reflexivity. Qed.
Lemma functions_skel_ok : c13_functions = x13_functions.
Proof. reflexivity. Qed.
Lemma Section_WriteTo_fields_skel_ok : c13_Section_WriteTo_fields = x13_Section_WriteTo_fields.
Proof. reflexivity. Qed.
Lemma Section_ReadFrom_fields_skel_ok : c13_Section_ReadFrom_fields = x13_Section_ReadFrom_fields.
Proof. reflexivity. Qed.
Lemma BlockEntity_WriteTo_fields_skel_ok : c13_BlockEntity_WriteTo_fields = x13_BlockEntity_WriteTo_fields.
Proof. reflexivity. Qed.
Lemma BlockEntity_ReadFrom_fields_skel_ok : c13_BlockEntity_ReadFrom_fields = x13_BlockEntity_ReadFrom_fields.
Proof. reflexivity. Qed.
Lemma lightData_WriteTo_fields_skel_ok : c13_lightData_WriteTo_fields = x13_lightData_WriteTo_fields.
Proof. reflexivity. Qed.
Lemma lightData_ReadFrom_fields_skel_ok : c13_lightData_ReadFrom_fields = x13_lightData_ReadFrom_fields.
Proof. reflexivity. Qed.
Lemma Chunk_WriteTo_fields_skel_ok : c13_Chunk_WriteTo_fields = x13_Chunk_WriteTo_fields.
Proof. reflexivity. Qed.
Lemma Chunk_ReadFrom_fields_skel_ok : c13_Chunk_ReadFrom_fields = x13_Chunk_ReadFrom_fields.
Proof. reflexivity. Qed.
Lemma ChunkFromSave_heightmaps_skel_ok : c13_ChunkFromSave_heightmaps = x13_ChunkFromSave_heightmaps.
Proof. reflexivity. Qed.
Lemma ChunkToSave_heightmaps_skel_ok : c13_ChunkToSave_heightmaps = x13_ChunkToSave_heightmaps.
Proof. reflexivity. Qed.
Lemma Chunk_ReadFrom_heightmaps_skel_ok : c13_Chunk_ReadFrom_heightmaps = x13_Chunk_ReadFrom_heightmaps.
Proof. reflexivity. Qed.
Lemma Chunk_ReadFrom_struct_skel_ok : c13_Chunk_ReadFrom_struct = x13_Chunk_ReadFrom_struct.
Proof. reflexivity. Qed.

(* every translated body, element list and table equals the recorded one *)
Definition all_skel_ok : Prop :=
  c13_ChunkPos_WriteTo_body = x13_ChunkPos_WriteTo_body /\
  c13_ChunkPos_ReadFrom_body = x13_ChunkPos_ReadFrom_body /\
  c13_EmptyChunk_body = x13_EmptyChunk_body /\
  c13_ChunkFromSave_body = x13_ChunkFromSave_body /\
  c13_readStatesPalette_body = x13_readStatesPalette_body /\
  c13_readBiomesPalette_body = x13_readBiomesPalette_body /\
  c13_countNoneAirBlocks_body = x13_countNoneAirBlocks_body /\
  c13_ChunkToSave_body = x13_ChunkToSave_body /\
  c13_writeStatesPalette_body = x13_writeStatesPalette_body /\
  c13_writeBiomesPalette_body = x13_writeBiomesPalette_body /\
  c13_Chunk_WriteTo_body = x13_Chunk_WriteTo_body /\
  c13_Chunk_ReadFrom_body = x13_Chunk_ReadFrom_body /\
  c13_Chunk_Data_body = x13_Chunk_Data_body /\
  c13_Chunk_PutData_body = x13_Chunk_PutData_body /\
  c13_BlockEntity_UnpackXZ_body = x13_BlockEntity_UnpackXZ_body /\
  c13_BlockEntity_PackXZ_body = x13_BlockEntity_PackXZ_body /\
  c13_BlockEntity_WriteTo_body = x13_BlockEntity_WriteTo_body /\
  c13_BlockEntity_ReadFrom_body = x13_BlockEntity_ReadFrom_body /\
  c13_Section_GetBlock_body = x13_Section_GetBlock_body /\
  c13_Section_SetBlock_body = x13_Section_SetBlock_body /\
  c13_Section_WriteTo_body = x13_Section_WriteTo_body /\
  c13_Section_ReadFrom_body = x13_Section_ReadFrom_body /\
  c13_bitSetRev_body = x13_bitSetRev_body /\
  c13_lightData_WriteTo_body = x13_lightData_WriteTo_body /\
  c13_lightData_ReadFrom_body = x13_lightData_ReadFrom_body /\
  c13_functions = x13_functions /\
  c13_Section_WriteTo_fields = x13_Section_WriteTo_fields /\
  c13_Section_ReadFrom_fields = x13_Section_ReadFrom_fields /\
  c13_BlockEntity_WriteTo_fields = x13_BlockEntity_WriteTo_fields /\
  c13_BlockEntity_ReadFrom_fields = x13_BlockEntity_ReadFrom_fields /\
  c13_lightData_WriteTo_fields = x13_lightData_WriteTo_fields /\
  c13_lightData_ReadFrom_fields = x13_lightData_ReadFrom_fields /\
  c13_Chunk_WriteTo_fields = x13_Chunk_WriteTo_fields /\
  c13_Chunk_ReadFrom_fields = x13_Chunk_ReadFrom_fields /\
  c13_ChunkFromSave_heightmaps = x13_ChunkFromSave_heightmaps /\
  c13_ChunkToSave_heightmaps = x13_ChunkToSave_heightmaps /\
  c13_Chunk_ReadFrom_heightmaps = x13_Chunk_ReadFrom_heightmaps /\
  c13_Chunk_ReadFrom_struct = x13_Chunk_ReadFrom_struct.
Lemma all_skeletons_ok : all_skel_ok.
Proof. repeat split; reflexivity. Qed.
