(* C13: INTERPRETATION of three translated bodies of level/chunk.go that were under skeleton comparison only:
   Section.SetBlock (the incremental non-air counter), bitSetRev (the inverted light masks on the wire) and
   BlockEntity.WriteTo (the TagEnd branch in front of the tuple).  In each case the model's function IS the
   statement-by-statement interpretation of the translated body (interp_c / interp_g of the earlier phases). *)
From Coq Require Import List String Arith NArith ZArith Lia Bool.
From GoMC Require Import Base.Bytes Base.Dec Base.GoInt Model.C05 Model.C06 Model.C11 Model.C13 Model.C13_syntax Gen.C13gen.
From GoMC Require Import Proofs.C13 Proofs.C13_wire Proofs.C13_save Proofs.C13_tie Proofs.C13_skel_interp Proofs.C13_skel_loops
  Proofs.C13_skel_count.
From GoMC Require Model.C01.
Import ListNotations.
Local Open Scope string_scope.
Local Open Scope list_scope.
Open Scope Z_scope.

(* ---------- Section.SetBlock ---------- *)
Section SetBlockBody.
Variable cont : Type.
Variable pc_get : cont -> Z -> Z.
Variable pc_set : cont -> Z -> Z -> cont.
Variable is_air : Z -> bool.

(* state: s.BlockCount and s.States *)
Definition sb_step (i v : Z) (txt : string) : option (Z * cont -> sres (Z * cont)) :=
  match txt with
  | "s.BlockCount--" => Some (fun s => SOk (c13_Section_SetBlock_dec (fst s), snd s))
  | "s.BlockCount++" => Some (fun s => SOk (c13_Section_SetBlock_inc (fst s), snd s))
  | "s.States.Set(i, v)" => Some (fun s => SOk (fst s, pc_set (snd s) i v))
  | _ => None
  end.
Definition sb_test (i v : Z) (cond : string) : option (Z * cont -> bool) :=
  match cond with
  | "!block.IsAir(s.States.Get(i))" => Some (fun s => negb (is_air (pc_get (snd s) i)))
  | "!block.IsAir(v)" => Some (fun _ => negb (is_air v))
  | _ => None
  end.
Definition sb_body (s : Z * cont) (iv : Z * Z) : sres (Z * cont) :=
  interp_c 8 (sb_step (fst iv) (snd iv)) (sb_test (fst iv) (snd iv)) c13_Section_SetBlock_body s.

Lemma set_block_interp s iv : sb_body s iv = SOk (set_block cont pc_get pc_set is_air s iv).
Proof.
  destruct s as [cnt c], iv as [i v]. unfold sb_body, set_block. cbn [fst snd].
  destruct (tie_SetBlock cnt) as [D1 I1]. rewrite D1.
  change c13_Section_SetBlock_body with
    [GIf "" "!block.IsAir(s.States.Get(i))" [GS "s.BlockCount--"] [];
     GIf "" "!block.IsAir(v)" [GS "s.BlockCount++"] [];
     GS "s.States.Set(i, v)"].
  rewrite (interp_c_GIf 7 (sb_step i v) (sb_test i v) "!block.IsAir(s.States.Get(i))" _ _ _ (cnt, c)
             (fun s => negb (is_air (pc_get (snd s) i))) eq_refl eq_refl).
  cbn [snd].
  assert (E1: interp_c 7 (sb_step i v) (sb_test i v) (if negb (is_air (pc_get c i)) then [GS "s.BlockCount--"] else []) (cnt, c)
              = SOk (if is_air (pc_get c i) then cnt else c13_Section_SetBlock_dec cnt, c)).
  { destruct (is_air (pc_get c i)); cbn [negb]; [reflexivity|].
    rewrite (interp_c_GS 6 (sb_step i v) (sb_test i v) "s.BlockCount--" _ _
               (fun s => SOk (c13_Section_SetBlock_dec (fst s), snd s)) eq_refl). reflexivity. }
  rewrite E1. clear E1. set (c1 := if is_air (pc_get c i) then cnt else c13_Section_SetBlock_dec cnt).
  destruct (tie_SetBlock c1) as [_ I2]. rewrite I2.
  rewrite (interp_c_GIf 6 (sb_step i v) (sb_test i v) "!block.IsAir(v)" _ _ _ (c1, c)
             (fun _ => negb (is_air v)) eq_refl eq_refl).
  assert (E2: interp_c 6 (sb_step i v) (sb_test i v) (if negb (is_air v) then [GS "s.BlockCount++"] else []) (c1, c)
              = SOk (if is_air v then c1 else c13_Section_SetBlock_inc c1, c)).
  { destruct (is_air v); cbn [negb]; [reflexivity|].
    rewrite (interp_c_GS 5 (sb_step i v) (sb_test i v) "s.BlockCount++" _ _
               (fun s => SOk (c13_Section_SetBlock_inc (fst s), snd s)) eq_refl). reflexivity. }
  rewrite E2. clear E2.
  rewrite (interp_c_GS 5 (sb_step i v) (sb_test i v) "s.States.Set(i, v)" _ _
             (fun s => SOk (fst s, pc_set (snd s) i v)) eq_refl).
  reflexivity.
Qed.

(* a whole history of SetBlock calls is the translated body run once per call *)
Fixpoint sb_run (s : Z * cont) (ops : list (Z * Z)) : sres (Z * cont) :=
  match ops with
  | [] => SOk s
  | iv :: t => match sb_body s iv with SOk s' => sb_run s' t | SErr => SErr | SPanic w => SPanic w end
  end.
Lemma set_blocks_interp : forall ops s, sb_run s ops = SOk (set_blocks cont pc_get pc_set is_air s ops).
Proof.
  induction ops as [|iv t IH]; intros s; [reflexivity|].
  cbn [sb_run]. rewrite set_block_interp. rewrite IH. reflexivity.
Qed.
End SetBlockBody.

(* ---------- bitSetRev: rev := make(pk.BitSet, len(set)); for i := range rev { rev[i] = ^set[i] }; return rev ---------- *)
Definition rv_step (set : list N) (i : nat) (txt : string) : option (list N -> sres (list N)) :=
  match txt with
  | "rev[i] = ^set[i]" =>
      Some (fun rev => if ((i <? List.length rev) && (i <? List.length set))%nat
                       then SOk (upd_nth rev i (2^64 - 1 - nth i set 0)%N) else SPanic pRt)
  | _ => None
  end.
Fixpoint rv_loop (set : list N) (is : list nat) (rev : list N) : sres (list N) :=
  match is with
  | [] => SOk rev
  | i :: t => match interp_g (rv_step set i) (fun _ => None) (loop_body c13_bitSetRev_body 1) rev with
              | SOk r => rv_loop set t r
              | SErr => SErr | SPanic w => SPanic w
              end
  end.
(* the statements around the loop: the allocation gives len(set) zero words, the range is over rev, rev is returned *)
Definition rv_run (set : list N) : sres (list N) :=
  match c13_bitSetRev_body with
  | [GS mk; GFor hdr _; GS ret] =>
      if (String.eqb mk "rev := make(pk.BitSet, len(set))" && String.eqb hdr "i := range rev" && String.eqb ret "return rev")%bool
      then rv_loop set (seq 0 (List.length set)) (repeat 0%N (List.length set))
      else SPanic 99
  | _ => SPanic 99
  end.

Lemma firstn_S_nth {A} (d : A) : forall k l, (k < List.length l)%nat -> firstn (S k) l = firstn k l ++ [nth k l d].
Proof.
  induction k as [|k IH]; intros [|x l] H; cbn [List.length] in H; try lia; [reflexivity|].
  cbn [firstn nth app]. f_equal. apply IH. lia.
Qed.

Lemma upd_nth_mid_at {A} (pre : list A) y rest x k : List.length pre = k ->
  upd_nth (pre ++ y :: rest) k x = pre ++ x :: rest.
Proof. intros <-. apply upd_nth_mid. Qed.

Lemma rv_loop_inv set : forall k, (k <= List.length set)%nat ->
  rv_loop set (seq 0 k) (repeat 0%N (List.length set)) =
  SOk (map (fun l => (2^64 - 1 - l)%N) (firstn k set) ++ repeat 0%N (List.length set - k)).
Proof.
  assert (App: forall a b r, rv_loop set (a ++ b) r =
               match rv_loop set a r with SOk r' => rv_loop set b r' | SErr => SErr | SPanic w => SPanic w end).
  { induction a as [|i a IH]; intros b r; [reflexivity|]. cbn [app rv_loop].
    destruct (interp_g (rv_step set i) (fun _ => None) (loop_body c13_bitSetRev_body 1) r); try reflexivity. apply IH. }
  induction k as [|k IH]; intros Hk.
  - cbn [seq rv_loop firstn map app]. rewrite Nat.sub_0_r. reflexivity.
  - rewrite seq_S, App, IH by lia. cbn [Nat.add rv_loop].
    change (loop_body c13_bitSetRev_body 1) with [GS "rev[i] = ^set[i]"].
    cbv beta iota delta [interp_g rv_step String.eqb Ascii.eqb Bool.eqb].
    set (pre := map (fun l => (2^64 - 1 - l)%N) (firstn k set)).
    assert (Lp: List.length pre = k) by (unfold pre; rewrite map_length, firstn_length; lia).
    replace (List.length set - k)%nat with (S (List.length set - S k)) by lia. cbn [repeat].
    rewrite app_length. cbn [List.length]. rewrite Lp, repeat_length.
    replace (k <? k + S (List.length set - S k))%nat with true by (symmetry; apply Nat.ltb_lt; lia).
    replace (k <? List.length set)%nat with true by (symmetry; apply Nat.ltb_lt; lia). cbn [andb]. cbv iota.
    rewrite (upd_nth_mid_at pre 0%N _ _ k Lp).
    rewrite (firstn_S_nth 0%N) by lia. rewrite map_app. cbn [map]. rewrite <- app_assoc. reflexivity.
Qed.

Theorem bitSetRev_interp set : rv_run set = SOk (rev_longs set).
Proof.
  unfold rv_run.
  change c13_bitSetRev_body with
    [GS "rev := make(pk.BitSet, len(set))"; GFor "i := range rev" [GS "rev[i] = ^set[i]"]; GS "return rev"].
  cbv beta iota delta [String.eqb Ascii.eqb Bool.eqb andb].
  rewrite (rv_loop_inv set (List.length set)) by lia.
  rewrite firstn_all, Nat.sub_diag. cbn [repeat]. rewrite app_nil_r. reflexivity.
Qed.

(* ---------- BlockEntity.WriteTo: data := pk.NBT(b.Data); if b.Data.Type == nbt.TagEnd { data = pk.NBT(nil) };
              return pk.Tuple{ ..., data }.WriteTo(w) ---------- *)
(* state: the image of `data`, and what was returned *)
Definition be_wenv_d (b : bent) (d : list N) (f : cfield) : option (list N) :=
  match f with
  | FSel "data" => Some d
  | _ => be_wenv b f
  end.
Definition bw_step (b : bent) (txt : string) : option (list N * option (list N) -> sres (list N * option (list N))) :=
  match txt with
  | "data := pk.NBT(b.Data)" => Some (fun s => SOk ((e_nt b mod 256)%N :: e_data b, snd s))
  | "data = pk.NBT(nil)" => Some (fun s => SOk ([C01.idEnd], snd s))
  | "return pk.Tuple{ pk.Byte(b.XZ), pk.Short(b.Y), pk.VarInt(b.Type), data, }.WriteTo(w)" =>
      Some (fun s => match interp_w (be_wenv_d b (fst s)) c13_BlockEntity_WriteTo_fields with
                     | Some img => SOk (fst s, Some img)
                     | None => SPanic 99
                     end)
  | _ => None
  end.
Definition bw_test (b : bent) (cond : string) : option (list N * option (list N) -> bool) :=
  match cond with
  | "b.Data.Type == nbt.TagEnd" => Some (fun _ => (e_nt b mod 256 =? C01.idEnd)%N)
  | _ => None
  end.

Theorem be_write_body_interp b :
  interp_c 8 (bw_step b) (bw_test b) c13_BlockEntity_WriteTo_body ([], None)
  = SOk (raw_img b, Some (fst (be_write (bent_val b)))).
Proof.
  change c13_BlockEntity_WriteTo_body with
    [GS "data := pk.NBT(b.Data)";
     GIf "" "b.Data.Type == nbt.TagEnd" [GS "data = pk.NBT(nil)"] [];
     GS "return pk.Tuple{ pk.Byte(b.XZ), pk.Short(b.Y), pk.VarInt(b.Type), data, }.WriteTo(w)"].
  rewrite (interp_c_GS 7 (bw_step b) (bw_test b) "data := pk.NBT(b.Data)" _ _
             (fun s => SOk ((e_nt b mod 256)%N :: e_data b, snd s)) eq_refl).
  cbn [snd].
  rewrite (interp_c_GIf 6 (bw_step b) (bw_test b) "b.Data.Type == nbt.TagEnd" _ _ _ _
             (fun _ => (e_nt b mod 256 =? C01.idEnd)%N) eq_refl eq_refl).
  assert (E: interp_c 6 (bw_step b) (bw_test b)
               (if (e_nt b mod 256 =? C01.idEnd)%N then [GS "data = pk.NBT(nil)"] else [])
               ((e_nt b mod 256)%N :: e_data b, None) = SOk (raw_img b, None)).
  { unfold raw_img. destruct (e_nt b mod 256 =? C01.idEnd)%N; [|reflexivity].
    rewrite (interp_c_GS 5 (bw_step b) (bw_test b) "data = pk.NBT(nil)" _ _ (fun s => SOk ([C01.idEnd], snd s)) eq_refl).
    reflexivity. }
  rewrite E. clear E.
  rewrite (interp_c_GS 5 (bw_step b) (bw_test b)
             "return pk.Tuple{ pk.Byte(b.XZ), pk.Short(b.Y), pk.VarInt(b.Type), data, }.WriteTo(w)" _ _
             (fun s => match interp_w (be_wenv_d b (fst s)) c13_BlockEntity_WriteTo_fields with
                       | Some img => SOk (fst s, Some img) | None => SPanic 99 end) eq_refl).
  cbn [fst].
  assert (W: interp_w (be_wenv_d b (raw_img b)) c13_BlockEntity_WriteTo_fields = interp_w (be_wenv b) c13_BlockEntity_WriteTo_fields)
    by reflexivity.
  rewrite W, be_write_interp. reflexivity.
Qed.
