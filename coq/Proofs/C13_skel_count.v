(* C13: INTERPRETATION of the loop of countNoneAirBlocks and of the light-collection loop of Chunk.WriteTo *)
From Coq Require Import List String Arith NArith ZArith Lia Bool.
From GoMC Require Import Base.Bytes Base.Dec Base.GoInt Model.C05 Model.C06 Model.C11 Model.C13 Model.C13_syntax Gen.C13gen.
From GoMC Require Import Proofs.C13 Proofs.C13_tie Proofs.C13_skel_loops.
Import ListNotations.
Local Open Scope string_scope.
Local Open Scope list_scope.
Open Scope Z_scope.

(* statements with conditional blocks: `if cond { th } else { el }` runs the branch the test selects *)
Fixpoint interp_c {St} (fuel : nat) (step : string -> option (St -> sres St)) (test : string -> option (St -> bool))
         (l : list gstmt) (s : St) : sres St :=
  match fuel with
  | O => SPanic 97
  | S f =>
      match l with
      | [] => SOk s
      | GS txt :: t =>
          match step txt with
          | Some g => match g s with SOk s' => interp_c f step test t s' | SErr => SErr | SPanic w => SPanic w end
          | None => SPanic 99
          end
      | GIf init cond th el :: t =>
          (* `if init; cond { th } else { el }`: the init statement first *)
          match (if String.eqb init "" then Some (fun x => SOk x) else step init) with
          | None => SPanic 99
          | Some g =>
              match g s with
              | SErr => SErr | SPanic w => SPanic w
              | SOk s1 =>
                  if String.eqb cond "err != nil" then interp_c f step test t s1   (* propagation: the monad has it *)
                  else match test cond with
                       | Some b => match interp_c f step test (if b s1 then th else el) s1 with
                                   | SOk s' => interp_c f step test t s'
                                   | SErr => SErr | SPanic w => SPanic w
                                   end
                       | None => SPanic 99
                       end
              end
          end
      | GFor _ _ :: _ => SPanic 99
      end
  end.

(* one-step equations (proofs run the interpreter step by step: normalising it whole is too costly) *)
Lemma interp_c_nil {St} f step test (s : St) : interp_c (S f) step test [] s = SOk s.
Proof. reflexivity. Qed.
Lemma interp_c_GS {St} f step test txt t (s : St) g : step txt = Some g ->
  interp_c (S f) step test (GS txt :: t) s =
  match g s with SOk s' => interp_c f step test t s' | SErr => SErr | SPanic w => SPanic w end.
Proof. intros H. cbn [interp_c]. rewrite H. reflexivity. Qed.
Lemma interp_c_GIf {St} f step test cond th el t (s : St) b : test cond = Some b -> String.eqb cond "err != nil" = false ->
  interp_c (S f) step test (GIf "" cond th el :: t) s =
  match interp_c f step test (if b s then th else el) s with
  | SOk s' => interp_c f step test t s' | SErr => SErr | SPanic w => SPanic w
  end.
Proof. intros H E. cbn [interp_c String.eqb]. rewrite E, H. reflexivity. Qed.
Lemma interp_c_GIf_err {St} f step test th el t (s : St) :
  interp_c (S f) step test (GIf "" "err != nil" th el :: t) s = interp_c f step test t s.
Proof. reflexivity. Qed.
Lemma interp_c_GIf_init_err {St} f step test init th el t (s : St) g : String.eqb init "" = false -> step init = Some g ->
  interp_c (S f) step test (GIf init "err != nil" th el :: t) s =
  match g s with SOk s1 => interp_c f step test t s1 | SErr => SErr | SPanic w => SPanic w end.
Proof. intros E H. cbn [interp_c]. rewrite E, H. destruct (g s); reflexivity. Qed.

(* ---------- countNoneAirBlocks: for i := 0; i < 16*16*16; i++ { b := sec.GetBlock(i); if !IsAir(b) { blockCount++ } } ---------- *)
Section CountLoop.
Variable cont : Type.
Variable get : cont -> Z -> outcome.
Variable is_air : Z -> bool.

(* state: the counter and the block just fetched *)
Definition cnt_step (c : cont) (i : nat) (txt : string) : option (Z * Z -> sres (Z * Z)) :=
  match txt with
  | "b := sec.GetBlock(i)" =>
      Some (fun s => match get c (Z.of_nat i) with ORet v => SOk (fst s, v) | _ => SPanic pOOB end)
  | "blockCount++" => Some (fun s => SOk (c13_countNoneAirBlocks_inc (fst s), snd s))
  | _ => None
  end.
Definition cnt_test (cond : string) : option (Z * Z -> bool) :=
  match cond with
  | "!block.IsAir(b)" => Some (fun s => negb (is_air (snd s)))
  | _ => None
  end.
Definition cnt_iter (c : cont) (cnt : Z) (i : nat) : sres Z :=
  match interp_c 8 (cnt_step c i) cnt_test (loop_body c13_countNoneAirBlocks_body 0) (cnt, 0) with
  | SOk s => SOk (fst s) | SErr => SErr | SPanic w => SPanic w
  end.
Fixpoint cnt_loop (c : cont) (is : list nat) (cnt : Z) : sres Z :=
  match is with
  | [] => SOk cnt
  | i :: t => match cnt_iter c cnt i with SOk n => cnt_loop c t n | SErr => SErr | SPanic w => SPanic w end
  end.

Definition gets_on (c : cont) (is : list nat) : option (list Z) :=
  fold_right (fun i acc => match get c (Z.of_nat i), acc with
                           | ORet v, Some l => Some (v :: l)
                           | _, _ => None
                           end) (Some []) is.

Lemma cnt_iter_eq c cnt i :
  cnt_iter c cnt i = match get c (Z.of_nat i) with
                     | ORet v => SOk (if is_air v then cnt else c13_countNoneAirBlocks_inc cnt)
                     | _ => SPanic pOOB
                     end.
Proof.
  unfold cnt_iter.
  change (loop_body c13_countNoneAirBlocks_body 0) with
    [GS "b := sec.GetBlock(i)"; GIf "" "!block.IsAir(b)" [GS "blockCount++"] []].
  rewrite (interp_c_GS 7 (cnt_step c i) cnt_test "b := sec.GetBlock(i)" _ (cnt, 0)
             (fun s => match get c (Z.of_nat i) with ORet v => SOk (fst s, v) | _ => SPanic pOOB end) eq_refl).
  destruct (get c (Z.of_nat i)) as [v| | |w]; try reflexivity.
  rewrite (interp_c_GIf 6 (cnt_step c i) cnt_test "!block.IsAir(b)" _ _ _ _ (fun s => negb (is_air (snd s))) eq_refl eq_refl).
  cbn [snd fst].
  destruct (is_air v); cbn [negb].
  - rewrite interp_c_nil, interp_c_nil. reflexivity.
  - rewrite (interp_c_GS 5 (cnt_step c i) cnt_test "blockCount++" _ _ (fun s => SOk (c13_countNoneAirBlocks_inc (fst s), snd s)) eq_refl).
    rewrite interp_c_nil, interp_c_nil. reflexivity.
Qed.

Lemma cnt_loop_spec c : forall is cnt, 0 <= cnt -> cnt + Z.of_nat (List.length is) <= 32767 ->
  cnt_loop c is cnt =
  match gets_on c is with
  | None => SPanic pOOB
  | Some l => SOk (cnt + Z.of_nat (List.length (filter (fun v => negb (is_air v)) l)))
  end.
Proof.
  induction is as [|i t IH]; intros cnt H0 Hb; cbn [cnt_loop gets_on fold_right].
  - cbn [filter List.length]. f_equal. lia.
  - rewrite cnt_iter_eq. cbn [List.length] in Hb. fold (gets_on c t).
    destruct (get c (Z.of_nat i)) as [v| | |w].
    + assert (E: c13_countNoneAirBlocks_inc cnt = cnt + 1).
      { unfold c13_countNoneAirBlocks_inc. apply wrap_s_id; [lia|]. change (2 ^ (16 - 1)) with 32768. lia. }
      destruct (is_air v) eqn:A.
      * rewrite IH by lia. destruct (gets_on c t) as [l|]; [|reflexivity]. cbn [filter]. rewrite A. reflexivity.
      * rewrite E, IH by lia. destruct (gets_on c t) as [l|]; [|reflexivity]. cbn [filter]. rewrite A.
        cbn [negb List.length]. f_equal. lia.
    + destruct (gets_on c t); reflexivity.
    + destruct (gets_on c t); reflexivity.
    + destruct (gets_on c t); reflexivity.
Qed.

(* the whole loop over the translated bound, from 0: the recount of the model (count_g, count_non_air) *)
Theorem count_g_interp c :
  count_g cont get is_air c = cnt_loop c (seq 0 (Z.to_nat c13_countNoneAirBlocks_bound)) 0.
Proof.
  rewrite cnt_loop_spec; [| lia | rewrite seq_length; vm_compute; discriminate].
  unfold count_g. change (all_gets cont get (Z.to_nat sec_len) c) with (gets_on c (seq 0 (Z.to_nat c13_countNoneAirBlocks_bound))).
  destruct (gets_on c (seq 0 (Z.to_nat c13_countNoneAirBlocks_bound))); reflexivity.
Qed.
End CountLoop.

(* the field-level container of Model/C13.v *)
Lemma count_non_air_interp is_air c :
  count_non_air is_air c = cnt_loop wcont wc_get is_air c (seq 0 (Z.to_nat c13_countNoneAirBlocks_bound)) 0.
Proof. rewrite <- count_g_interp. reflexivity. Qed.
