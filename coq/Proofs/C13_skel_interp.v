(* C13: INTERPRETATION of the translated tuple element lists (Gen/C13gen.v): the model's writers and readers
   of Section, BlockEntity, lightData and Chunk ARE the element-by-element interpretation of the lists
   tools/gotrans/c13.go extracts from level/chunk.go, in source order - for every value and every input *)
From Coq Require Import List String Arith NArith ZArith Lia Bool.
From GoMC Require Import Base.Bytes Base.Dec Model.C05 Model.C06 Model.C11 Model.C13 Model.C13_syntax Gen.C13gen.
From GoMC Require Import Proofs.C06_read Proofs.C13_wire.
From GoMC Require Model.C01.
Import ListNotations.
Local Open Scope string_scope.
Local Open Scope list_scope.
Open Scope N_scope.

(* a writer: the elements in order, each written by what the environment says it is *)
Fixpoint interp_w (env : cfield -> option (list N)) (fs : list cfield) : option (list N) :=
  match fs with
  | [] => Some []
  | f :: t => match env f, interp_w env t with Some a, Some b => Some (a ++ b) | _, _ => None end
  end.
(* a reader: the elements in order, each updating the destination; an element the environment does not
   know is a Crash (never the case for the translated lists: the lemmas below would fail) *)
Fixpoint interp_r {St} (env : cfield -> option (St -> dec St)) (fs : list cfield) (s : St) : dec St :=
  match fs with
  | [] => Ret s
  | f :: t => match env f with Some rd => s' <- rd s ;; interp_r env t s' | None => Crash 0 end
  end.

Lemma run_step_ret {A B C} (m : dec A) (h : A -> B) (g : B -> dec C) s : robust m ->
  run_flat (bind (bind m (fun x => Ret (h x))) g) s =
  match run_flat m s with
  | FOk a r => run_flat (g (h a)) r
  | FErr e => FErr e | FPanic w => FPanic w | FFuel => FFuel
  end.
Proof.
  intros R. rewrite run_flat_bind by (apply robust_bind; [exact R|intros; constructor]).
  rewrite run_flat_bind by exact R. destruct (run_flat m s); reflexivity.
Qed.

Section Sect.
Variable cont : Type.
Variable pc_write : cont -> list N.
Variable pc_read : bool -> cont -> dec (cont * N).
Hypothesis pc_robust : forall b d, robust (pc_read b d).

(* Section.WriteTo: pk.Short(s.BlockCount), s.States, s.Biomes *)
Definition sec_wenv (s : sect cont) (f : cfield) : option (list N) :=
  match f with
  | FConv "pk.Short" "s.BlockCount" => Some (fst (w_short (s_count s)))
  | FSel "s.States" => Some (pc_write (s_states s))
  | FSel "s.Biomes" => Some (pc_write (s_biomes s))
  | _ => None
  end.
Lemma sec_write_interp s : interp_w (sec_wenv s) c13_Section_WriteTo_fields = Some (sec_write cont pc_write s).
Proof.
  cbv beta iota delta [interp_w c13_Section_WriteTo_fields sec_wenv]. unfold sec_write. rewrite app_nil_r. reflexivity.
Qed.

(* Section.ReadFrom: ( *pk.Short)(&s.BlockCount), s.States, s.Biomes - into the section that is there *)
Definition sec_renv (f : cfield) : option (sect cont -> dec (sect cont)) :=
  match f with
  | FPtrConv "pk.Short" "s.BlockCount" =>
      Some (fun s => x <- r_short ;; Ret (mkSec (zof (fst x)) (s_states s) (s_biomes s) (s_sky s) (s_blk s)))
  | FSel "s.States" =>
      Some (fun s => x <- pc_read false (s_states s) ;; Ret (mkSec (s_count s) (fst x) (s_biomes s) (s_sky s) (s_blk s)))
  | FSel "s.Biomes" =>
      Some (fun s => x <- pc_read true (s_biomes s) ;; Ret (mkSec (s_count s) (s_states s) (fst x) (s_sky s) (s_blk s)))
  | _ => None
  end.
Lemma sec_read_interp s inp :
  run_flat (interp_r sec_renv c13_Section_ReadFrom_fields s) inp = run_flat (sec_read cont pc_read s) inp.
Proof.
  cbv beta iota delta [interp_r c13_Section_ReadFrom_fields sec_renv]. unfold sec_read.
  assert (R1: robust r_short) by apply (read_f_robust O TShort (VZ 0)).
  rewrite run_step_ret by exact R1. rewrite (run_flat_bind r_short) by exact R1.
  destruct (run_flat r_short inp) as [[c n] r| | |]; try reflexivity. cbn [fst s_states s_biomes s_count s_sky s_blk].
  rewrite run_step_ret by apply pc_robust. rewrite (run_flat_bind (pc_read false (s_states s))) by apply pc_robust.
  destruct (run_flat (pc_read false (s_states s)) r) as [[st n1] r1| | |]; try reflexivity. cbn [fst s_states s_biomes s_count s_sky s_blk].
  rewrite run_step_ret by apply pc_robust. rewrite (run_flat_bind (pc_read true (s_biomes s))) by apply pc_robust.
  destruct (run_flat (pc_read true (s_biomes s)) r1) as [[bi n2] r2| | |]; reflexivity.
Qed.

(* Chunk.WriteTo: the height-map NBT, the data byte array, the block-entity array, the light data *)
Definition bytes_of_string (s : string) : list N := map (fun a => N.of_nat (Ascii.nat_of_ascii a)) (list_ascii_of_string s).
Definition hm_by_text (c : chunk cont) (txt : string) : option (list N) :=
  match txt with
  | "c.HeightMaps.MotionBlocking.Raw()" => Some (raw_of (hMB (c_hm c)))
  | "c.HeightMaps.WorldSurface.Raw()" => Some (raw_of (hWS (c_hm c)))
  | _ => None
  end.
(* a struct of []uint64 fields as the NBT encoder writes it: compound, one TagLongArray entry per field in
   declaration order under its tag, End *)
Fixpoint nbt_struct_entries (c : chunk cont) (fs : list (string * string * string)) : option (list N) :=
  match fs with
  | [] => Some [C01.idEnd]
  | (_, tag, v) :: t =>
      match hm_by_text c v, nbt_struct_entries c t with
      | Some l, Some rest => Some ((C01.idLongArray :: nbt_name (bytes_of_string tag) ++ nbt_longs l) ++ rest)
      | _, _ => None
      end
  end.
Definition chunk_wenv (c : chunk cont) (f : cfield) : option (list N) :=
  match f with
  | FNBTStruct fs => match nbt_struct_entries c fs with Some e => Some (C01.idCompound :: e) | None => None end
  | FConv "pk.ByteArray" "data" => Some (fst (wr TByteArray (VBytes (chunk_data cont pc_write c) [])))
  | FCall "pk.Array" "c.BlockEntity" =>
      Some (fst (wcat (w_len LVarInt (Z.of_N (lenN (c_bes c)))) (w_seq be_write (map bent_val (c_bes c)))))
  | FAddr "light" => Some (fst (wr t_light (light_val (map s_sky (c_secs c)) (map s_blk (c_secs c)))))
  | _ => None
  end.
Lemma chunk_write_interp c :
  chunk_write cont pc_write c =
  if 4096 <? lenN (c_secs c) then None else interp_w (chunk_wenv c) c13_Chunk_WriteTo_fields.
Proof.
  unfold chunk_write. destruct (4096 <? lenN (c_secs c)); [reflexivity|].
  cbv beta iota delta [interp_w c13_Chunk_WriteTo_fields chunk_wenv nbt_struct_entries hm_by_text].
  change (bytes_of_string "MOTION_BLOCKING") with nameMB. change (bytes_of_string "WORLD_SURFACE") with nameWS.
  unfold hm_write. rewrite app_nil_r. cbn [app]. rewrite <- !app_assoc. cbn [app]. rewrite <- !app_assoc. reflexivity.
Qed.
End Sect.

(* BlockEntity.WriteTo: pk.Byte(b.XZ), pk.Short(b.Y), pk.VarInt(b.Type), data - where the body (skeleton) sets
   data to pk.NBT(b.Data), or to pk.NBT(nil) when b.Data.Type is TagEnd *)
Definition be_wenv (b : bent) (f : cfield) : option (list N) :=
  match f with
  | FConv "pk.Byte" "b.XZ" => Some (fst (w_byte (e_xz b)))
  | FConv "pk.Short" "b.Y" => Some (fst (w_short (e_y b)))
  | FConv "pk.VarInt" "b.Type" => Some (fst (w_varint (e_type b)))
  | FSel "data" => Some (raw_img b)
  | _ => None
  end.
Lemma be_write_interp b : interp_w (be_wenv b) c13_BlockEntity_WriteTo_fields = Some (fst (be_write (bent_val b))).
Proof.
  cbv beta iota delta [interp_w c13_BlockEntity_WriteTo_fields be_wenv]. rewrite be_write_img, app_nil_r. reflexivity.
Qed.

(* BlockEntity.ReadFrom: ( *pk.Byte)(&b.XZ), ( *pk.Short)(&b.Y), ( *pk.VarInt)(&b.Type), pk.NBT(&b.Data); the state
   is the entity being filled and the byte count *)
Definition be_renv (fuel : nat) (f : cfield) : option (bent * N -> dec (bent * N)) :=
  match f with
  | FPtrConv "pk.Byte" "b.XZ" =>
      Some (fun s => x <- r_byte ;; Ret (mkBE (zof (fst x)) (e_y (fst s)) (e_type (fst s)) (e_nt (fst s)) (e_data (fst s)), snd s + snd x))
  | FPtrConv "pk.Short" "b.Y" =>
      Some (fun s => x <- r_short ;; Ret (mkBE (e_xz (fst s)) (zof (fst x)) (e_type (fst s)) (e_nt (fst s)) (e_data (fst s)), snd s + snd x))
  | FPtrConv "pk.VarInt" "b.Type" =>
      Some (fun s => x <- r_varint ;; Ret (mkBE (e_xz (fst s)) (e_y (fst s)) (zof (fst x)) (e_nt (fst s)) (e_data (fst s)), snd s + snd x))
  | FCallAddr "pk.NBT" "b.Data" =>
      Some (fun s => x <- raw_read fuel (fst s) ;; Ret (mkBE (e_xz (fst s)) (e_y (fst s)) (e_type (fst s)) (fst (fst x)) (snd (fst x)), snd s + snd x))
  | _ => None
  end.
Lemma be_read_interp fuel oldv inp :
  run_flat (be_read fuel oldv) inp =
  match run_flat (interp_r (be_renv fuel) c13_BlockEntity_ReadFrom_fields (val_bent oldv, 0)) inp with
  | FOk (b, n) r => FOk (bent_val b, n) r
  | FErr e => FErr e | FPanic w => FPanic w | FFuel => FFuel
  end.
Proof.
  cbv beta iota delta [interp_r c13_BlockEntity_ReadFrom_fields be_renv]. unfold be_read.
  assert (R1: robust r_byte) by apply (read_f_robust O TByte (VZ 0)).
  assert (R2: robust r_short) by apply (read_f_robust O TShort (VZ 0)).
  assert (R3: robust r_varint) by apply (read_f_robust O TVarInt (VZ 0)).
  assert (R4: forall o, robust (raw_read fuel o)).
  { intros o. unfold raw_read. apply robust_bind; [apply Proofs.C01.tee_robust, raw_body_robust|]. intros; constructor. }
  rewrite run_step_ret by exact R1. rewrite (run_flat_bind r_byte) by exact R1.
  destruct (run_flat r_byte inp) as [[xz n1] r1| | |]; try reflexivity. cbn [fst snd e_xz e_y e_type e_nt e_data].
  rewrite run_step_ret by exact R2. rewrite (run_flat_bind r_short) by exact R2.
  destruct (run_flat r_short r1) as [[y n2] r2| | |]; try reflexivity. cbn [fst snd e_xz e_y e_type e_nt e_data].
  rewrite run_step_ret by exact R3. rewrite (run_flat_bind r_varint) by exact R3.
  destruct (run_flat r_varint r2) as [[ty n3] r3| | |]; try reflexivity. cbn [fst snd e_xz e_y e_type e_nt e_data].
  rewrite run_step_ret by apply R4. rewrite (run_flat_bind (raw_read fuel (val_bent oldv))) by apply R4.
  (* the NBT reader does not look at the destination (BlockEntity.ReadFrom resets it first) *)
  assert (E: forall o1 o2, raw_read fuel o1 = raw_read fuel o2) by reflexivity.
  rewrite (E (val_bent oldv) (mkBE (zof xz) (zof y) (zof ty) (e_nt (val_bent oldv)) (e_data (val_bent oldv)))).
  destruct (run_flat (raw_read fuel _) r3) as [[raw n4] r4| | |]; reflexivity.
Qed.

(* lightData: the element lists give the C06 field type the model reads and writes the light data with *)
Fixpoint fields_fty (env : cfield -> option fty) (fs : list cfield) : option fty :=
  match fs with
  | [] => Some TUnit
  | f :: t => match env f, fields_fty env t with Some a, Some b => Some (TPair a b) | _, _ => None end
  end.
Definition light_tenv (f : cfield) : option fty :=
  match f with
  | FSel "l.SkyLightMask" | FSel "l.BlockLightMask" => Some TBitSet           (* pk.BitSet *)
  | FCall "bitSetRev" "l.SkyLightMask" | FCall "bitSetRev" "l.BlockLightMask" => Some TBitSet
  | FCall "pk.Array" "l.SkyLight" | FCall "pk.Array" "l.BlockLight" => Some t_bytearrays   (* []pk.ByteArray *)
  | FAddr "l.SkyLightMask" | FAddr "l.BlockLightMask" | FAddr "RevSkyLightMask" | FAddr "RevBlockLightMask" => Some TBitSet
  | FCallAddr "pk.Array" "l.SkyLight" | FCallAddr "pk.Array" "l.BlockLight" => Some t_bytearrays
  | _ => None
  end.
Lemma light_fields_type :
  fields_fty light_tenv c13_lightData_WriteTo_fields = Some t_light /\
  fields_fty light_tenv c13_lightData_ReadFrom_fields = Some t_light.
Proof. split; reflexivity. Qed.
(* and the value written, element by element: sky mask, block mask, their complements, sky arrays, block arrays *)
Fixpoint fields_val (env : cfield -> option fval) (fs : list cfield) : option fval :=
  match fs with
  | [] => Some VUnit
  | f :: t => match env f, fields_val env t with Some a, Some b => Some (VPair a b) | _, _ => None end
  end.
Definition light_venv (sky blk : list (option (list N))) (f : cfield) : option fval :=
  match f with
  | FSel "l.SkyLightMask" => Some (bitset_val (mask_longs (present sky)))
  | FSel "l.BlockLightMask" => Some (bitset_val (mask_longs (present blk)))
  | FCall "bitSetRev" "l.SkyLightMask" => Some (bitset_val (rev_longs (mask_longs (present sky))))
  | FCall "bitSetRev" "l.BlockLightMask" => Some (bitset_val (rev_longs (mask_longs (present blk))))
  | FCall "pk.Array" "l.SkyLight" => Some (arrays_val sky)
  | FCall "pk.Array" "l.BlockLight" => Some (arrays_val blk)
  | _ => None
  end.
Lemma light_fields_value sky blk :
  fields_val (light_venv sky blk) c13_lightData_WriteTo_fields = Some (light_val sky blk).
Proof. reflexivity. Qed.

(* ---------- Chunk.ReadFrom: pk.NBT(&heightmaps), &data, pk.Array(&c.BlockEntity), &lightData{...}, then the
   statements after the tuple (size tests, NewBitStorage, PutData) ---------- *)
Section ChunkRead.
Variable cont : Type.
Variable pc_read : bool -> cont -> dec (cont * N).

Record rstate := mkRS { r_hm : option (list N) * option (list N); r_data : fval; r_bes : fval; r_n : N }.

Definition chunk_renv (fuel : nat) (d : chunk cont) (f : cfield) : option (rstate -> dec rstate) :=
  match f with
  | FCallAddr "pk.NBT" "heightmaps" =>
      Some (fun s => x <- C01.tee (hm_read fuel) ;; Ret (mkRS (fst x) (r_data s) (r_bes s) (r_n s + lenN (snd x))))
  | FAddr "data" =>
      Some (fun s => x <- read_f fuel TByteArray (VBytes [] []) ;; Ret (mkRS (r_hm s) (fst x) (r_bes s) (r_n s + snd x)))
  | FCallAddr "pk.Array" "c.BlockEntity" =>
      Some (fun s => x <- r_ary fuel LVarInt (be_read fuel) bent_zero (bes_val cont d) ;;
                     Ret (mkRS (r_hm s) (r_data s) (fst x) (r_n s + snd x)))
  | FNew "lightData" [("SkyLightMask", "make(pk.BitSet, (16*16*16-1)>>6+1)");
                      ("BlockLightMask", "make(pk.BitSet, (16*16*16-1)>>6+1)");
                      ("SkyLight", "[]pk.ByteArray{}"); ("BlockLight", "[]pk.ByteArray{}")] =>
      (* two masks of c13_Chunk_ReadFrom_mask_len_0 = 64 zero longs, two empty arrays: light_dest *)
      Some (fun s => x <- read_f fuel t_light light_dest ;; Ret (mkRS (r_hm s) (r_data s) (r_bes s) (r_n s + snd x)))
  | _ => None
  end.

(* what Chunk.ReadFrom does after the tuple was read *)
Definition chunk_tail (d : chunk cont) (s : rstate) : dec (chunk cont * N) :=
  let nsec := lenN (c_secs d) in
  bad1 <- hm_len_bad nsec (fst (r_hm s)) ;;
  bad2 <- hm_len_bad nsec (snd (r_hm s)) ;;
  if bad1 || bad2 then Fail eHmLen else
  mb <- new_hm nsec (fst (r_hm s)) ;;
  ws <- new_hm nsec (snd (r_hm s)) ;;
  let h := c_hm d in
  let hm' := mkHM (hWSWG h) ws (hOFWG h) (hOF h) mb (hMBNL h) in
  let bes := map val_bent (fst (list_of (r_bes s))) in
  match run_fast (secs_read cont pc_read (c_secs d)) (fst (bytes_of (r_data s))) with
  | FOk ss _ => Ret (mkChunk ss hm' bes [] (c_status d), r_n s)
  | FErr e => Fail e
  | FPanic w => Crash w
  | FFuel => NoFuel
  end.

Lemma chunk_read_interp fuel d inp :
  run_flat (chunk_read cont pc_read fuel d) inp =
  run_flat (s <- interp_r (chunk_renv fuel d) c13_Chunk_ReadFrom_fields (mkRS (None, None) VUnit VUnit 0) ;; chunk_tail d s) inp.
Proof.
  cbv beta iota delta [interp_r c13_Chunk_ReadFrom_fields chunk_renv]. unfold chunk_read.
  assert (R1: robust (C01.tee (hm_read fuel))) by (apply Proofs.C01.tee_robust, Proofs.C13_nbt.hm_read_robust).
  assert (R2: robust (read_f fuel TByteArray (VBytes [] []))) by apply read_f_robust.
  assert (R3: robust (r_ary fuel LVarInt (be_read fuel) bent_zero (bes_val cont d))).
  { unfold r_ary. apply robust_bind; [apply r_len_robust|]. intros [z n]. cbn beta iota.
    destruct (z <? 0)%Z; [constructor|].
    apply robust_bind; [apply r_elems_robust; apply be_read_robust|]. intros [vs n2]. constructor. }
  assert (R4: robust (read_f fuel t_light light_dest)) by apply read_f_robust.
  rewrite (run_flat_bind (bind _ _)).
  2:{ apply robust_bind; [apply robust_bind; [exact R1|intros; constructor]|]. intros s1.
      apply robust_bind; [apply robust_bind; [exact R2|intros; constructor]|]. intros s2.
      apply robust_bind; [apply robust_bind; [exact R3|intros; constructor]|]. intros s3.
      apply robust_bind; [apply robust_bind; [exact R4|intros; constructor]|]. intros; constructor. }
  rewrite run_step_ret by exact R1. rewrite (run_flat_bind (C01.tee (hm_read fuel))) by exact R1.
  destruct (run_flat (C01.tee (hm_read fuel)) inp) as [[hm hrest] r1| | |]; try reflexivity.
  cbn [fst snd r_hm r_data r_bes r_n].
  rewrite run_step_ret by exact R2. rewrite (run_flat_bind (read_f fuel TByteArray _)) by exact R2.
  destruct (run_flat (read_f fuel TByteArray (VBytes [] [])) r1) as [[dv n2] r2| | |]; try reflexivity.
  cbn [fst snd r_hm r_data r_bes r_n].
  rewrite run_step_ret by exact R3. rewrite (run_flat_bind (r_ary _ _ _ _ _)) by exact R3.
  destruct (run_flat (r_ary fuel LVarInt (be_read fuel) bent_zero (bes_val cont d)) r2) as [[bv n3] r3| | |]; try reflexivity.
  cbn [fst snd r_hm r_data r_bes r_n].
  rewrite run_step_ret by exact R4. rewrite (run_flat_bind (read_f fuel t_light _)) by exact R4.
  destruct (run_flat (read_f fuel t_light light_dest) r3) as [[lv n4] r4| | |]; try reflexivity.
Qed.
End ChunkRead.

(* ---------- the height-map tables against the keys and fields the model uses ---------- *)
Lemma heightmap_tables :
  map (fun r => (fst (fst (fst r)), bytes_of_string (snd (fst (fst r))))) c13_ChunkFromSave_heightmaps =
    [("WorldSurface", kWS); ("WorldSurfaceWG", kWSWG); ("OceanFloorWG", kOFWG); ("OceanFloor", kOF);
     ("MotionBlocking", kMB); ("MotionBlockingNoLeaves", kMBNL)] /\
  map (fun r => (snd (fst r), snd r)) c13_ChunkFromSave_heightmaps = repeat ("bitsForHeight", "16 * 16") 6 /\
  map (fun r => (bytes_of_string (fst r), snd r)) c13_ChunkToSave_heightmaps =
    [(kWSWG, "WorldSurfaceWG"); (kWS, "WorldSurface"); (kOFWG, "OceanFloorWG"); (kOF, "OceanFloor");
     (kMB, "MotionBlocking"); (kMBNL, "MotionBlockingNoLeaves")] /\
  c13_Chunk_ReadFrom_heightmaps =
    [("MotionBlocking", "heightmaps.MotionBlocking", "bitsForHeight", "16 * 16");
     ("WorldSurface", "heightmaps.WorldSurface", "bitsForHeight", "16 * 16")] /\
  map (fun r => (fst (fst r), bytes_of_string (snd (fst r)), snd r)) c13_Chunk_ReadFrom_struct =
    [("MotionBlocking", nameMB, "[]uint64"); ("WorldSurface", nameWS, "[]uint64")].
Proof. repeat split; reflexivity. Qed.
