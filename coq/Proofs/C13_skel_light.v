(* C13: the light-collection loop of Chunk.WriteTo - the BitSet.Set folds ARE mask_longs, the appended arrays ARE
   arrays_val (the chunked-sum argument), then the interpretation of the translated loop body *)
From Coq Require Import List String Arith NArith ZArith Lia Bool.
From GoMC Require Import Base.Bytes Base.Bits Base.Dec Model.C05 Model.C06 Model.C11 Model.C13 Model.C13_syntax Gen.C13gen.
From GoMC Require Import Proofs.C13 Proofs.C13_wire Proofs.C13_skel_loops Proofs.C13_skel_count Proofs.C13_skel_palette.
Import ListNotations.
Local Open Scope string_scope.
Local Open Scope list_scope.
Open Scope N_scope.

(* BitSet.Set(i, true) on a slice of 64-bit words:  b[i/64] |= 1 << (i%64) *)
Definition bs_set (m : list N) (i : nat) : list N :=
  upd_nth m (i / 64) (N.lor (nth (i / 64) m 0) (2 ^ N.of_nat (i mod 64))).

(* ---------- lists ---------- *)
Lemma nth_upd_nth {A} (d : A) : forall l n j x, (n < List.length l)%nat ->
  nth j (upd_nth l n x) d = if (j =? n)%nat then x else nth j l d.
Proof.
  induction l as [|h t IH]; intros n j x Hn; cbn [List.length] in Hn; [lia|].
  destruct n as [|n], j as [|j]; cbn [upd_nth nth Nat.eqb]; try reflexivity.
  apply IH. lia.
Qed.
Lemma skipn_skipn' {A} : forall b a (l : list A), skipn a (skipn b l) = skipn (b + a) l.
Proof.
  induction b as [|b IH]; intros a l; [reflexivity|]. destruct l as [|x l]; [rewrite !skipn_nil; reflexivity|].
  cbn [skipn Nat.add]. apply IH.
Qed.
Lemma nth_chunks64 : forall n l j, (j < n)%nat -> nth j (chunks64 n l) [] = firstn 64 (skipn (64 * j) l).
Proof.
  induction n as [|n IH]; intros l j Hj; [lia|]. cbn [chunks64].
  destruct j as [|j]; [reflexivity|]. cbn [nth]. rewrite IH by lia. rewrite skipn_skipn'.
  replace (64 + 64 * j)%nat with (64 * S j)%nat by lia. reflexivity.
Qed.
Lemma nth_mask_longs p j : (j < 64)%nat -> nth j (mask_longs p) 0 = mask_bits (firstn 64 (skipn (64 * j) p)) 0.
Proof.
  intros Hj. unfold mask_longs.
  transitivity ((fun c => mask_bits c 0) (nth j (chunks64 64 p) [])).
  - exact (map_nth (fun c => mask_bits c 0) (chunks64 64 p) [] j).
  - cbv beta. rewrite nth_chunks64 by exact Hj. reflexivity.
Qed.
Lemma mask_bits_app : forall a b i, mask_bits (a ++ b) i = mask_bits a i + mask_bits b (i + lenN a).
Proof.
  induction a as [|x a IH]; intros b i; cbn [app mask_bits].
  - rewrite (lenN_nil (A:=bool)), N.add_0_r. reflexivity.
  - rewrite IH, lenN_cons. replace (i + 1 + lenN a) with (i + (1 + lenN a)) by lia. lia.
Qed.

(* ---------- the key step: one more flag at position 64*q + r ---------- *)
Lemma mask_longs_snoc pre b q r : List.length pre = (64 * q + r)%nat -> (r < 64)%nat -> (q < 64)%nat ->
  mask_longs (pre ++ [b]) =
  if b then upd_nth (mask_longs pre) q (N.lor (nth q (mask_longs pre) 0) (2 ^ N.of_nat r)) else mask_longs pre.
Proof.
  intros Hl Hr Hq.
  destruct (mask_longs_spec pre) as [L1 _]. destruct (mask_longs_spec (pre ++ [b])) as [L2 _].
  apply (nth_ext _ _ 0 0).
  { destruct b; [rewrite upd_nth_length|]; lia. }
  intros j Hj. rewrite L2 in Hj. rewrite nth_mask_longs by exact Hj.
  assert (RHS: nth j (if b then upd_nth (mask_longs pre) q (N.lor (nth q (mask_longs pre) 0) (2 ^ N.of_nat r)) else mask_longs pre) 0
               = if (b && (j =? q)%nat)%bool then N.lor (nth q (mask_longs pre) 0) (2 ^ N.of_nat r) else nth j (mask_longs pre) 0).
  { destruct b; cbn [andb]; [|reflexivity]. apply nth_upd_nth. lia. }
  rewrite RHS. clear RHS. rewrite !nth_mask_longs by lia.
  destruct (lt_eq_lt_dec j q) as [[Hlt|Heq]|Hgt].
  - (* an earlier, full word: untouched *)
    replace (j =? q)%nat with false by (symmetry; apply Nat.eqb_neq; lia). rewrite andb_false_r.
    rewrite skipn_app. rewrite firstn_app.
    assert (Hlen: (64 <= List.length (skipn (64 * j) pre))%nat) by (rewrite skipn_length; lia).
    replace (64 - List.length (skipn (64 * j) pre))%nat with 0%nat by lia.
    cbn [firstn]. rewrite app_nil_r. reflexivity.
  - (* the word of the new flag *)
    subst j. rewrite Nat.eqb_refl, andb_true_r.
    rewrite skipn_app. replace (64 * q - List.length pre)%nat with 0%nat by lia. cbn [skipn].
    set (X := skipn (64 * q) pre).
    assert (HX: List.length X = r) by (unfold X; rewrite skipn_length; lia).
    rewrite firstn_all2 by (rewrite app_length; cbn [List.length]; lia).
    rewrite (firstn_all2 (n := 64) X) by lia.
    rewrite mask_bits_app. cbn [mask_bits]. rewrite N.add_0_l, N.add_0_r.
    unfold lenN. rewrite HX.
    pose proof (mask_bits_bound X 0) as B. rewrite N.add_0_l in B. change (2 ^ 0) with 1 in B.
    unfold lenN in B. rewrite HX in B.
    destruct b; [|rewrite N.add_0_r; reflexivity].
    (* the bit is clear: or = plus *)
    assert (Hlt: mask_bits X 0 < 2 ^ N.of_nat r) by lia.
    replace (2 ^ N.of_nat r) with (1 * 2 ^ N.of_nat r) at 2 by lia.
    rewrite (lor_add_disjoint _ 1 _ Hlt). lia.
  - (* a later word: both empty *)
    replace (j =? q)%nat with false by (symmetry; apply Nat.eqb_neq; lia). rewrite andb_false_r.
    rewrite !skipn_all2 by (try rewrite app_length; cbn [List.length]; lia). reflexivity.
Qed.

(* ---------- the fold of Set calls over the flags, with the running index ---------- *)
Fixpoint set_flags (flags : list bool) (k : nat) (m : list N) : list N :=
  match flags with
  | [] => m
  | b :: t => set_flags t (S k) (if b then bs_set m k else m)
  end.
Lemma set_flags_spec : forall q pre, (List.length pre + List.length q <= 4096)%nat ->
  set_flags q (List.length pre) (mask_longs pre) = mask_longs (pre ++ q).
Proof.
  induction q as [|b t IH]; intros pre Hl; cbn [set_flags].
  - rewrite app_nil_r. reflexivity.
  - cbn [List.length] in Hl.
    pose proof (Nat.div_mod (List.length pre) 64 ltac:(lia)) as D.
    pose proof (Nat.mod_upper_bound (List.length pre) 64 ltac:(lia)) as R.
    assert (Q: (List.length pre / 64 < 64)%nat) by (apply Nat.div_lt_upper_bound; lia).
    pose proof (mask_longs_snoc pre b _ _ D R Q) as K. unfold bs_set. rewrite <- K.
    replace (S (List.length pre)) with (List.length (pre ++ [b])) by (rewrite app_length; cbn [List.length]; lia).
    rewrite IH by (rewrite app_length; cbn [List.length]; lia).
    rewrite <- app_assoc. reflexivity.
Qed.
Lemma set_flags_all p : (List.length p <= 4096)%nat -> set_flags p 0 (repeat 0 64) = mask_longs p.
Proof. intros H. exact (set_flags_spec p [] H). Qed.

(* ---------- the translated loop body ---------- *)
Section LightLoop.
Variable cont : Type.

Record lc_state := mkLC { lc_skym : list N; lc_blkm : list N; lc_sky : list (list N); lc_blk : list (list N) }.
Definition opt_list (o : option (list N)) : list (list N) := match o with Some a => [a] | None => [] end.
Definition is_some (o : option (list N)) : bool := match o with Some _ => true | None => false end.

Definition lc_step (i : nat) (v : sect cont) (txt : string) : option (lc_state -> sres lc_state) :=
  match txt with
  | "light.SkyLightMask.Set(i, true)" => Some (fun s => SOk (mkLC (bs_set (lc_skym s) i) (lc_blkm s) (lc_sky s) (lc_blk s)))
  | "light.SkyLight = append(light.SkyLight, v.SkyLight)" =>
      Some (fun s => SOk (mkLC (lc_skym s) (lc_blkm s) (lc_sky s ++ opt_list (s_sky v)) (lc_blk s)))
  | "light.BlockLightMask.Set(i, true)" => Some (fun s => SOk (mkLC (lc_skym s) (bs_set (lc_blkm s) i) (lc_sky s) (lc_blk s)))
  | "light.BlockLight = append(light.BlockLight, v.BlockLight)" =>
      Some (fun s => SOk (mkLC (lc_skym s) (lc_blkm s) (lc_sky s) (lc_blk s ++ opt_list (s_blk v))))
  | _ => None
  end.
Definition lc_test (v : sect cont) (cond : string) : option (lc_state -> bool) :=
  match cond with
  | "v.SkyLight != nil" => Some (fun _ => is_some (s_sky v))
  | "v.BlockLight != nil" => Some (fun _ => is_some (s_blk v))
  | _ => None
  end.
Definition lc_iter (i : nat) (v : sect cont) (s : lc_state) : sres lc_state :=
  interp_c 10 (lc_step i v) (lc_test v) (loop_body c13_Chunk_WriteTo_body 3) s.

Lemma lc_iter_eq i v s :
  lc_iter i v s = SOk (mkLC (if is_some (s_sky v) then bs_set (lc_skym s) i else lc_skym s)
                            (if is_some (s_blk v) then bs_set (lc_blkm s) i else lc_blkm s)
                            (lc_sky s ++ opt_list (s_sky v)) (lc_blk s ++ opt_list (s_blk v))).
Proof.
  unfold lc_iter.
  change (loop_body c13_Chunk_WriteTo_body 3) with
    [GIf "" "v.SkyLight != nil" [GS "light.SkyLightMask.Set(i, true)"; GS "light.SkyLight = append(light.SkyLight, v.SkyLight)"] [];
     GIf "" "v.BlockLight != nil" [GS "light.BlockLightMask.Set(i, true)"; GS "light.BlockLight = append(light.BlockLight, v.BlockLight)"] []].
  gif (fun _ : lc_state => is_some (s_sky v)).
  assert (B: forall f s0, interp_c (S (S (S (S f)))) (lc_step i v) (lc_test v)
               [GIf "" "v.BlockLight != nil" [GS "light.BlockLightMask.Set(i, true)"; GS "light.BlockLight = append(light.BlockLight, v.BlockLight)"] []] s0
             = SOk (mkLC (lc_skym s0) (if is_some (s_blk v) then bs_set (lc_blkm s0) i else lc_blkm s0)
                         (lc_sky s0) (lc_blk s0 ++ opt_list (s_blk v)))).
  { intros f s0. gif (fun _ : lc_state => is_some (s_blk v)).
    destruct (s_blk v) as [a|] eqn:Eb; cbn [is_some opt_list].
    - gs (fun s => SOk (mkLC (lc_skym s) (bs_set (lc_blkm s) i) (lc_sky s) (lc_blk s))).
      gs (fun s => SOk (mkLC (lc_skym s) (lc_blkm s) (lc_sky s) (lc_blk s ++ opt_list (s_blk v)))).
      rewrite !interp_c_nil. rewrite Eb. reflexivity.
    - rewrite !interp_c_nil. rewrite app_nil_r. destruct s0; reflexivity. }
  destruct (s_sky v) as [a|] eqn:Es; cbn [is_some opt_list].
  - gs (fun s => SOk (mkLC (bs_set (lc_skym s) i) (lc_blkm s) (lc_sky s) (lc_blk s))).
    gs (fun s => SOk (mkLC (lc_skym s) (lc_blkm s) (lc_sky s ++ opt_list (s_sky v)) (lc_blk s))).
    rewrite interp_c_nil. cbn [lc_skym lc_blkm lc_sky lc_blk]. rewrite (B 5%nat). rewrite Es. reflexivity.
  - rewrite interp_c_nil. rewrite (B 5%nat). rewrite app_nil_r. reflexivity.
Qed.

(* `for i, v := range c.Sections { body }` *)
Fixpoint lc_loop (i : nat) (secs : list (sect cont)) (s : lc_state) : sres lc_state :=
  match secs with
  | [] => SOk s
  | v :: t => match lc_iter i v s with SOk s' => lc_loop (S i) t s' | SErr => SErr | SPanic w => SPanic w end
  end.
Lemma present_is_some ls : present ls = map is_some ls.
Proof. reflexivity. Qed.
Lemma lc_loop_eq : forall secs i s,
  lc_loop i secs s = SOk (mkLC (set_flags (map is_some (map s_sky secs)) i (lc_skym s))
                               (set_flags (map is_some (map s_blk secs)) i (lc_blkm s))
                               (lc_sky s ++ flat_map opt_list (map s_sky secs))
                               (lc_blk s ++ flat_map opt_list (map s_blk secs))).
Proof.
  induction secs as [|v t IH]; intros i s; cbn [lc_loop map set_flags flat_map].
  - rewrite !app_nil_r. destruct s; reflexivity.
  - rewrite lc_iter_eq, IH. cbn [lc_skym lc_blkm lc_sky lc_blk]. rewrite <- !app_assoc. reflexivity.
Qed.

(* the value the writer hands to the tuple, from the loop's result *)
Definition light_of (s : lc_state) : fval :=
  VPair (bitset_val (lc_skym s)) (VPair (bitset_val (lc_blkm s))
  (VPair (bitset_val (rev_longs (lc_skym s))) (VPair (bitset_val (rev_longs (lc_blkm s)))
  (VPair (VList (map (fun a => VBytes a []) (lc_sky s)) []) (VPair (VList (map (fun a => VBytes a []) (lc_blk s)) []) VUnit))))).

(* THE LOOP: from the two zeroed 64-long masks (translated length) and the two empty array lists, the translated
   body iterated over the sections gives exactly the light data the model writes *)
Theorem light_collect_translated (secs : list (sect cont)) : (List.length secs <= 4096)%nat ->
  exists s, lc_loop 0 secs (mkLC (repeat 0 (Z.to_nat c13_Chunk_WriteTo_mask_len_0)) (repeat 0 (Z.to_nat c13_Chunk_WriteTo_mask_len_1)) [] []) = SOk s /\
            lc_skym s = mask_longs (present (map s_sky secs)) /\ lc_blkm s = mask_longs (present (map s_blk secs)) /\
            light_of s = light_val (map s_sky secs) (map s_blk secs).
Proof.
  intros H. rewrite lc_loop_eq. eexists. split; [reflexivity|].
  cbn [lc_skym lc_blkm lc_sky lc_blk app].
  change (Z.to_nat c13_Chunk_WriteTo_mask_len_0) with 64%nat. change (Z.to_nat c13_Chunk_WriteTo_mask_len_1) with 64%nat.
  rewrite !set_flags_all by (rewrite !map_length; exact H). rewrite <- !present_is_some.
  split; [reflexivity|]. split; [reflexivity|].
  unfold light_of, light_val, arrays_val. cbn [lc_skym lc_blkm lc_sky lc_blk].
  assert (E: forall ls, map (fun a => VBytes a []) (flat_map opt_list ls) =
                        flat_map (fun o : option (list N) => match o with Some bs => [VBytes bs []] | None => [] end) ls).
  { induction ls as [|[a|] t IH]; cbn [flat_map opt_list app map]; [reflexivity| |exact IH]. rewrite IH. reflexivity. }
  rewrite !E. reflexivity.
Qed.
End LightLoop.
