(* C13: INTERPRETATION of the translated loop bodies of level/chunk.go (Gen/C13gen.v, c13_*_body): the model's
   from_save_secs / to_save_secs / chunk_data / secs_read / count_non_air steps ARE the statement-by-statement
   interpretation of the translated bodies *)
From Coq Require Import List String Arith NArith ZArith Lia Bool.
From GoMC Require Import Base.Bytes Base.Dec Model.C05 Model.C06 Model.C11 Model.C13 Model.C13_syntax Gen.C13gen.
From GoMC Require Import Proofs.C13_tie Proofs.C06_read.
Import ListNotations.
Local Open Scope string_scope.
Local Open Scope list_scope.
Open Scope Z_scope.

(* the body of the k-th statement of a function body, when it is a loop *)
Definition loop_body (b : list gstmt) (k : nat) : list gstmt :=
  match nth_error b k with Some (GFor _ body) => body | _ => [] end.

(* straight-line interpretation in the result monad: a simple statement is what `step` says it is; the
   `if err != nil { return ... }` after a call is the propagation the monad already does; any other `if` must
   be a test `test` knows, whose branch returns an error; anything else is not interpreted (SPanic 99) *)
Fixpoint interp_g {St} (step : string -> option (St -> sres St)) (test : string -> option (St -> bool))
         (l : list gstmt) (s : St) : sres St :=
  match l with
  | [] => SOk s
  | GS txt :: t =>
      match step txt with
      | Some f => match f s with SOk s' => interp_g step test t s' | SErr => SErr | SPanic w => SPanic w end
      | None => SPanic 99
      end
  | GIf init cond (GS _ :: nil) nil :: t =>
      if negb (String.eqb init "") then SPanic 99
      else if String.eqb cond "err != nil" then interp_g step test t s
      else match test cond with
           | Some b => if b s then SErr else interp_g step test t s
           | None => SPanic 99
           end
  | _ => SPanic 99
  end.

(* ---------- ChunkFromSave: one iteration of the section loop ---------- *)
Section FromSaveLoop.
Variable st_id : list N * (N * list N) -> option Z.
Variable bio_id : list N -> option Z.
Variable is_air : Z -> bool.
Variable gs gb : Z.

Record fs_state := mkFS { fs_i : Z; fs_st : option wcont; fs_cnt : Z; fs_bi : option wcont;
                          fs_sky : option (list N); fs_blk : option (list N) }.
Definition fs_section (s : fs_state) : option (sect wcont) :=
  match fs_st s, fs_bi s with
  | Some st, Some bi => Some (mkSec (fs_cnt s) st bi (fs_sky s) (fs_blk s))
  | _, _ => None
  end.

Definition fs_step (v : ssect) (ypos : Z) (txt : string) : option (fs_state -> sres fs_state) :=
  match txt with
  | "i := int32(v.Y) - c.YPos" =>
      Some (fun s => SOk (mkFS (c13_ChunkFromSave_index (ss_y v) ypos) (fs_st s) (fs_cnt s) (fs_bi s) (fs_sky s) (fs_blk s)))
  | "var err error" => Some (fun s => SOk s)
  | "sections[i].States, err = readStatesPalette(v.BlockStates.Palette, v.BlockStates.Data)" =>
      Some (fun s => match opt_all (map st_id (ss_bpal v)) with
                     | None => SErr
                     | Some ids => match with_data gs gb false sec_len (ss_bdata v) ids with
                                   | SOk c => SOk (mkFS (fs_i s) (Some c) (fs_cnt s) (fs_bi s) (fs_sky s) (fs_blk s))
                                   | SErr => SErr | SPanic w => SPanic w
                                   end
                     end)
  | "sections[i].BlockCount = countNoneAirBlocks(&sections[i])" =>
      Some (fun s => match fs_st s with
                     | None => SPanic 98
                     | Some c => match count_non_air is_air c with
                                 | SOk n => SOk (mkFS (fs_i s) (fs_st s) (sx16 (u16 n)) (fs_bi s) (fs_sky s) (fs_blk s))
                                 | SErr => SErr | SPanic w => SPanic w
                                 end
                     end)
  | "sections[i].Biomes, err = readBiomesPalette(v.Biomes.Palette, v.Biomes.Data)" =>
      Some (fun s => match opt_all (map bio_id (ss_biopal v)) with
                     | None => SErr
                     | Some ids => match with_data gs gb true bio_len (ss_biodata v) ids with
                                   | SOk c => SOk (mkFS (fs_i s) (fs_st s) (fs_cnt s) (Some c) (fs_sky s) (fs_blk s))
                                   | SErr => SErr | SPanic w => SPanic w
                                   end
                     end)
  | "sections[i].SkyLight = v.SkyLight" =>
      Some (fun s => SOk (mkFS (fs_i s) (fs_st s) (fs_cnt s) (fs_bi s) (ss_sky v) (fs_blk s)))
  | "sections[i].BlockLight = v.BlockLight" =>
      Some (fun s => SOk (mkFS (fs_i s) (fs_st s) (fs_cnt s) (fs_bi s) (fs_sky s) (ss_blk v)))
  | _ => None
  end.
Definition fs_test (secs : Z) (cond : string) : option (fs_state -> bool) :=
  match cond with
  | "i < 0 || i >= int32(secs)" => Some (fun s => c13_ChunkFromSave_out_of_bounds (fs_i s) secs)
  | _ => None
  end.

Definition fs_iter (ypos secs : Z) (v : ssect) : sres fs_state :=
  interp_g (fs_step v ypos) (fs_test secs) (loop_body c13_ChunkFromSave_body 2) (mkFS 0 None 0 None None None).

Lemma from_save_secs_interp ypos secs v t acc : -128 <= ss_y v < 128 -> 0 <= secs < 2^31 ->
  from_save_secs st_id bio_id is_air gs gb ypos secs (v :: t) acc =
  match fs_iter ypos secs v with
  | SOk s => match fs_section s with
             | Some x => from_save_secs st_id bio_id is_air gs gb ypos secs t (upd_at acc (Z.to_nat (fs_i s)) (Some x))
             | None => SPanic 98
             end
  | SErr => SErr
  | SPanic w => SPanic w
  end.
Proof.
  intros Hy Hs. cbn [from_save_secs]. cbv zeta.
  rewrite (tie_FromSave_index (ss_y v) ypos Hy). rewrite (tie_FromSave_bounds _ secs Hs).
  unfold fs_iter.
  change (loop_body c13_ChunkFromSave_body 2) with
    [GS "i := int32(v.Y) - c.YPos";
     GIf "" "i < 0 || i >= int32(secs)" [GS "return nil, fmt.Errorf(""section Y value %d out of bounds"", v.Y)"] [];
     GS "var err error";
     GS "sections[i].States, err = readStatesPalette(v.BlockStates.Palette, v.BlockStates.Data)";
     GIf "" "err != nil" [GS "return nil, err"] [];
     GS "sections[i].BlockCount = countNoneAirBlocks(&sections[i])";
     GS "sections[i].Biomes, err = readBiomesPalette(v.Biomes.Palette, v.Biomes.Data)";
     GIf "" "err != nil" [GS "return nil, err"] [];
     GS "sections[i].SkyLight = v.SkyLight";
     GS "sections[i].BlockLight = v.BlockLight"].
  cbv beta iota delta [interp_g fs_step fs_test String.eqb Ascii.eqb Bool.eqb negb fs_i fs_st fs_cnt fs_bi fs_sky fs_blk].
  destruct (c13_ChunkFromSave_out_of_bounds (c13_ChunkFromSave_index (ss_y v) ypos) secs); [reflexivity|].
  unfold from_save_sec.
  destruct (opt_all (map st_id (ss_bpal v))) as [ids|]; [|reflexivity].
  destruct (with_data gs gb false sec_len (ss_bdata v) ids) as [st| |w]; try reflexivity.
  destruct (count_non_air is_air st) as [n| |w]; try reflexivity.
  destruct (opt_all (map bio_id (ss_biopal v))) as [bids|]; [|reflexivity].
  destruct (with_data gs gb true bio_len (ss_biodata v) bids) as [bi| |w]; reflexivity.
Qed.
(* what a successful iteration holds: the translated index, and the section from_save_sec builds *)
Lemma fs_iter_ok ypos secs v fs : fs_iter ypos secs v = SOk fs ->
  fs_i fs = c13_ChunkFromSave_index (ss_y v) ypos /\
  exists x, fs_section fs = Some x /\ from_save_sec st_id bio_id is_air gs gb v = SOk x.
Proof.
  unfold fs_iter.
  change (loop_body c13_ChunkFromSave_body 2) with
    [GS "i := int32(v.Y) - c.YPos";
     GIf "" "i < 0 || i >= int32(secs)" [GS "return nil, fmt.Errorf(""section Y value %d out of bounds"", v.Y)"] [];
     GS "var err error";
     GS "sections[i].States, err = readStatesPalette(v.BlockStates.Palette, v.BlockStates.Data)";
     GIf "" "err != nil" [GS "return nil, err"] [];
     GS "sections[i].BlockCount = countNoneAirBlocks(&sections[i])";
     GS "sections[i].Biomes, err = readBiomesPalette(v.Biomes.Palette, v.Biomes.Data)";
     GIf "" "err != nil" [GS "return nil, err"] [];
     GS "sections[i].SkyLight = v.SkyLight";
     GS "sections[i].BlockLight = v.BlockLight"].
  cbv beta iota delta [interp_g fs_step fs_test String.eqb Ascii.eqb Bool.eqb negb fs_i fs_st fs_cnt fs_bi fs_sky fs_blk].
  destruct (c13_ChunkFromSave_out_of_bounds (c13_ChunkFromSave_index (ss_y v) ypos) secs); [discriminate|].
  unfold from_save_sec.
  destruct (opt_all (map st_id (ss_bpal v))) as [ids|]; [|discriminate].
  destruct (with_data gs gb false sec_len (ss_bdata v) ids) as [st| |w]; try discriminate.
  destruct (count_non_air is_air st) as [n| |w]; try discriminate.
  destruct (opt_all (map bio_id (ss_biopal v))) as [bids|]; [|discriminate].
  destruct (with_data gs gb true bio_len (ss_biodata v) bids) as [bi| |w]; try discriminate.
  intros H. injection H as H. subst fs. cbn [fs_i fs_section fs_st fs_bi fs_cnt fs_sky fs_blk].
  split; [reflexivity|]. eexists. split; reflexivity.
Qed.
End FromSaveLoop.

(* ---------- ChunkToSave: one iteration of the section loop ---------- *)
Section ToSaveLoop.
Variable st_name : Z -> option (list N * (N * list N)).
Variable bio_name : Z -> option (list N).

Record ts_state := mkTS { ts_y : Z; ts_bp : list (list N * (N * list N)); ts_bd : list N;
                          ts_biop : list (list N); ts_biod : list N;
                          ts_sky : option (list N); ts_blk : option (list N) }.
Definition ts_step (i : nat) (ypos : Z) (v : sect wcont) (txt : string) : option (ts_state -> sres ts_state) :=
  match txt with
  | "s := &sections[i]" | "states := &s.BlockStates" | "biomes := &s.Biomes" => Some (fun s => SOk s)
  | "s.Y = int8(int32(i) + dst.YPos)" =>
      Some (fun s => SOk (mkTS (c13_ChunkToSave_Y (Z.of_nat i) ypos) (ts_bp s) (ts_bd s) (ts_biop s) (ts_biod s) (ts_sky s) (ts_blk s)))
  | "states.Palette, states.Data, err = writeStatesPalette(v.States)" =>
      Some (fun s => match opt_all (map st_name (wc_export (s_states v))) with
                     | None => SPanic pOOB                       (* block.StateList[v] out of range *)
                     | Some bp => SOk (mkTS (ts_y s) bp (data (w_data (s_states v))) (ts_biop s) (ts_biod s) (ts_sky s) (ts_blk s))
                     end)
  | "biomes.Palette, biomes.Data, err = writeBiomesPalette(v.Biomes)" =>
      Some (fun s => match opt_all (map bio_name (wc_export (s_biomes v))) with
                     | None => SErr                              (* Type.MarshalText: invalid type *)
                     | Some bp => SOk (mkTS (ts_y s) (ts_bp s) (ts_bd s) bp (data (w_data (s_biomes v))) (ts_sky s) (ts_blk s))
                     end)
  | "s.SkyLight = v.SkyLight" => Some (fun s => SOk (mkTS (ts_y s) (ts_bp s) (ts_bd s) (ts_biop s) (ts_biod s) (s_sky v) (ts_blk s)))
  | "s.BlockLight = v.BlockLight" => Some (fun s => SOk (mkTS (ts_y s) (ts_bp s) (ts_bd s) (ts_biop s) (ts_biod s) (ts_sky s) (s_blk v)))
  | _ => None
  end.
Definition ts_section (s : ts_state) : ssect := mkSS (ts_y s) (ts_bp s) (ts_bd s) (ts_biop s) (ts_biod s) (ts_sky s) (ts_blk s).

Lemma to_save_sec_interp ypos i v :
  to_save_sec st_name bio_name ypos i v =
  match interp_g (ts_step i ypos v) (fun _ => None) (loop_body c13_ChunkToSave_body 2) (mkTS 0 [] [] [] [] None None) with
  | SOk s => SOk (ts_section s)
  | SErr => SErr
  | SPanic w => SPanic w
  end.
Proof.
  unfold to_save_sec. rewrite (tie_ToSave_Y (Z.of_nat i) ypos).
  change (loop_body c13_ChunkToSave_body 2) with
    [GS "s := &sections[i]"; GS "states := &s.BlockStates"; GS "biomes := &s.Biomes";
     GS "s.Y = int8(int32(i) + dst.YPos)";
     GS "states.Palette, states.Data, err = writeStatesPalette(v.States)";
     GIf "" "err != nil" [GS "return"] [];
     GS "biomes.Palette, biomes.Data, err = writeBiomesPalette(v.Biomes)";
     GIf "" "err != nil" [GS "return"] [];
     GS "s.SkyLight = v.SkyLight"; GS "s.BlockLight = v.BlockLight"].
  cbv beta iota delta [interp_g ts_step String.eqb Ascii.eqb Bool.eqb negb ts_y ts_bp ts_bd ts_biop ts_biod ts_sky ts_blk].
  destruct (opt_all (map st_name (wc_export (s_states v)))) as [bp|]; [|reflexivity].
  destruct (opt_all (map bio_name (wc_export (s_biomes v)))) as [biop|]; reflexivity.
Qed.
End ToSaveLoop.

(* ---------- Chunk.Data: every section written into one buffer, in order ---------- *)
Section DataLoop.
Variable cont : Type.
Variable pc_write : cont -> list N.
Definition data_step (s : sect cont) (txt : string) : option (list N -> sres (list N)) :=
  match txt with
  | "_, err := c.Sections[i].WriteTo(&buff)" => Some (fun buf => SOk (buf ++ sec_write cont pc_write s))
  | _ => None
  end.
Definition data_iter (buf : list N) (s : sect cont) : list N :=
  match interp_g (data_step s) (fun _ => None) (loop_body c13_Chunk_Data_body 1) buf with SOk b => b | _ => buf end.
Lemma chunk_data_interp (c : chunk cont) : chunk_data cont pc_write c = fold_left data_iter (c_secs c) [].
Proof.
  unfold chunk_data.
  assert (E: forall buf s, data_iter buf s = buf ++ sec_write cont pc_write s) by reflexivity.
  assert (G: forall ss buf, fold_left data_iter ss buf = buf ++ List.concat (map (sec_write cont pc_write) ss)).
  { induction ss as [|s t IH]; intros buf; cbn [fold_left map List.concat]; [rewrite app_nil_r; reflexivity|].
    rewrite IH, E, <- app_assoc. reflexivity. }
  rewrite G. reflexivity.
Qed.
End DataLoop.

(* ---------- Chunk.PutData: every section read from one reader, in order ---------- *)
Fixpoint interp_d {St} (step : string -> option (St -> dec St)) (l : list gstmt) (s : St) : dec St :=
  match l with
  | [] => Ret s
  | GS txt :: t => match step txt with Some f => s' <- f s ;; interp_d step t s' | None => Crash 99 end
  | GIf init cond (GS _ :: nil) nil :: t =>
      if String.eqb init "" && String.eqb cond "err != nil" then interp_d step t s else Crash 99
  | _ => Crash 99
  end.
Section PutDataLoop.
Variable cont : Type.
Variable pc_read : bool -> cont -> dec (cont * N).
Hypothesis pc_robust : forall b d, robust (pc_read b d).
Definition putdata_step (txt : string) : option (sect cont -> dec (sect cont)) :=
  match txt with
  | "_, err := c.Sections[i].ReadFrom(r)" => Some (fun s => sec_read cont pc_read s)
  | _ => None
  end.
Lemma secs_read_interp s t inp :
  run_flat (secs_read cont pc_read (s :: t)) inp =
  run_flat (s' <- interp_d putdata_step (loop_body c13_Chunk_PutData_body 1) s ;;
            t' <- secs_read cont pc_read t ;; Ret (s' :: t')) inp.
Proof.
  cbn [secs_read].
  change (interp_d putdata_step (loop_body c13_Chunk_PutData_body 1) s)
    with (s' <- sec_read cont pc_read s ;; Ret s').
  assert (R: robust (sec_read cont pc_read s)).
  { unfold sec_read. apply robust_bind; [apply (read_f_robust O TShort (VZ 0%Z))|]. intros [c n].
    apply robust_bind; [apply pc_robust|]. intros [st n1].
    apply robust_bind; [apply pc_robust|]. intros [bi n2]. constructor. }
  rewrite (run_flat_bind (sec_read cont pc_read s)) by exact R.
  rewrite (run_flat_bind (bind _ _)) by (apply robust_bind; [exact R|intros; constructor]).
  rewrite (run_flat_bind (sec_read cont pc_read s)) by exact R.
  destruct (run_flat (sec_read cont pc_read s) inp); reflexivity.
Qed.
End PutDataLoop.

(* ==================== the WHOLE loops, by induction over the section list ==================== *)
Section WholeFromSave.
Variable st_id : list N * (N * list N) -> option Z.
Variable bio_id : list N -> option Z.
Variable is_air : Z -> bool.
Variable gs gb : Z.

(* `for _, v := range c.Sections { body }` of ChunkFromSave: the translated body, iterated *)
Fixpoint fs_loop (ypos secs : Z) (vs : list ssect) (acc : list (option (sect wcont))) : sres (list (option (sect wcont))) :=
  match vs with
  | [] => SOk acc
  | v :: t =>
      match fs_iter st_id bio_id is_air gs gb ypos secs v with
      | SOk s => match fs_section s with
                 | Some x => fs_loop ypos secs t (upd_at acc (Z.to_nat (fs_i s)) (Some x))
                 | None => SPanic 98
                 end
      | SErr => SErr
      | SPanic w => SPanic w
      end
  end.
Lemma from_save_secs_whole ypos secs : 0 <= secs < 2^31 -> forall vs acc,
  Forall (fun v => -128 <= ss_y v < 128) vs ->
  from_save_secs st_id bio_id is_air gs gb ypos secs vs acc = fs_loop ypos secs vs acc.
Proof.
  intros Hs. induction vs as [|v t IH]; intros acc Hy; [reflexivity|].
  inversion Hy as [|? ? Hv Ht]; subst.
  rewrite (from_save_secs_interp st_id bio_id is_air gs gb ypos secs v t acc Hv Hs). cbn [fs_loop].
  destruct (fs_iter st_id bio_id is_air gs gb ypos secs v) as [s| |w]; try reflexivity.
  destruct (fs_section s); [apply IH; exact Ht|reflexivity].
Qed.
End WholeFromSave.

Section WholeToSave.
Variable st_name : Z -> option (list N * (N * list N)).
Variable bio_name : Z -> option (list N).
(* `for i, v := range c.Sections { body }` of ChunkToSave *)
Definition ts_iter (ypos : Z) (i : nat) (v : sect wcont) : sres ssect :=
  match interp_g (ts_step st_name bio_name i ypos v) (fun _ => None) (loop_body c13_ChunkToSave_body 2)
                 (mkTS 0 [] [] [] [] None None) with
  | SOk s => SOk (ts_section s) | SErr => SErr | SPanic w => SPanic w
  end.
Fixpoint ts_loop (ypos : Z) (i : nat) (ss : list (sect wcont)) : sres (list ssect) :=
  match ss with
  | [] => SOk []
  | s :: t => match ts_iter ypos i s with
              | SOk x => match ts_loop ypos (S i) t with SOk r => SOk (x :: r) | SErr => SErr | SPanic w => SPanic w end
              | SErr => SErr | SPanic w => SPanic w
              end
  end.
Lemma to_save_secs_whole ypos : forall ss i, to_save_secs st_name bio_name ypos i ss = ts_loop ypos i ss.
Proof.
  induction ss as [|s t IH]; intros i; [reflexivity|]. cbn [to_save_secs ts_loop].
  unfold ts_iter. rewrite <- to_save_sec_interp. rewrite IH. reflexivity.
Qed.

(* the height-map assignments of ChunkToSave: the translated table (key, field), applied in order *)
Definition hm_field (h : hmaps) (f : string) : option (option bstore) :=
  match f with
  | "WorldSurfaceWG" => Some (hWSWG h) | "WorldSurface" => Some (hWS h)
  | "OceanFloorWG" => Some (hOFWG h) | "OceanFloor" => Some (hOF h)
  | "MotionBlocking" => Some (hMB h) | "MotionBlockingNoLeaves" => Some (hMBNL h)
  | _ => None
  end.
Definition string_bytes (s : string) : list N := map (fun a => N.of_nat (Ascii.nat_of_ascii a)) (list_ascii_of_string s).
Definition ts_heightmaps (h : hmaps) (m : list (list N * list N)) : option (list (list N * list N)) :=
  fold_left (fun acc row => match acc, hm_field h (snd row) with
                            | Some mm, Some o => Some (hm_set (string_bytes (fst row)) (raw_of o) mm)
                            | _, _ => None
                            end) c13_ChunkToSave_heightmaps (Some m).

(* ChunkToSave for whole chunks over the interpretation: the translated loop, then the translated table *)
Theorem to_save_translated (c : wchunk) (dst : schunk) :
  to_save st_name bio_name c dst =
  match ts_loop (sc_ypos dst) O (c_secs c), ts_heightmaps (c_hm c) (sc_hm dst) with
  | SOk secs, Some m => SOk (mkSC secs m (c_status c) (sc_ypos dst))
  | SOk _, None => SPanic 99
  | SErr, _ => SErr
  | SPanic w, _ => SPanic w
  end.
Proof.
  unfold to_save. rewrite to_save_secs_whole.
  destruct (ts_loop (sc_ypos dst) 0 (c_secs c)); reflexivity.
Qed.
End WholeToSave.

(* Chunk.PutData for whole chunks: the translated body once per section, in order *)
Section WholePutData.
Variable cont : Type.
Variable pc_read : bool -> cont -> dec (cont * N).
Hypothesis pc_robust : forall b d, robust (pc_read b d).
Fixpoint pd_loop (ds : list (sect cont)) : dec (list (sect cont)) :=
  match ds with
  | [] => Ret []
  | s :: t => s' <- interp_d (putdata_step cont pc_read) (loop_body c13_Chunk_PutData_body 1) s ;;
              t' <- pd_loop t ;; Ret (s' :: t')
  end.
Lemma sec_read_robust' s : robust (sec_read cont pc_read s).
Proof.
  unfold sec_read. apply robust_bind; [apply (read_f_robust O TShort (VZ 0%Z))|]. intros [c n].
  apply robust_bind; [apply pc_robust|]. intros [st n1].
  apply robust_bind; [apply pc_robust|]. intros [bi n2]. constructor.
Qed.
Lemma secs_read_robust' : forall ds, robust (secs_read cont pc_read ds).
Proof.
  induction ds as [|d ds IH]; cbn [secs_read]; [constructor|].
  apply robust_bind; [apply sec_read_robust'|]. intros s'. apply robust_bind; [exact IH|]. intros; constructor.
Qed.
Lemma pd_loop_robust : forall ds, robust (pd_loop ds).
Proof.
  induction ds as [|d ds IH]; cbn [pd_loop]; [constructor|].
  change (interp_d (putdata_step cont pc_read) (loop_body c13_Chunk_PutData_body 1) d) with (s' <- sec_read cont pc_read d ;; Ret s').
  apply robust_bind; [apply robust_bind; [apply sec_read_robust'|intros; constructor]|]. intros s'.
  apply robust_bind; [exact IH|]. intros; constructor.
Qed.
Lemma secs_read_whole : forall ds inp, run_flat (secs_read cont pc_read ds) inp = run_flat (pd_loop ds) inp.
Proof.
  induction ds as [|d ds IH]; intros inp; [reflexivity|].
  rewrite (secs_read_interp cont pc_read pc_robust d ds inp). cbn [pd_loop].
  change (interp_d (putdata_step cont pc_read) (loop_body c13_Chunk_PutData_body 1) d) with (s' <- sec_read cont pc_read d ;; Ret s').
  assert (R: robust (s' <- sec_read cont pc_read d ;; Ret s')) by (apply robust_bind; [apply sec_read_robust'|intros; constructor]).
  rewrite !(run_flat_bind (bind (sec_read cont pc_read d) _)) by exact R.
  destruct (run_flat (s' <- sec_read cont pc_read d;; Ret s') inp) as [s' r| | |]; try reflexivity.
  rewrite (run_flat_bind (secs_read cont pc_read ds)) by apply secs_read_robust'.
  rewrite (run_flat_bind (pd_loop ds)) by apply pd_loop_robust. rewrite IH. reflexivity.
Qed.
End WholePutData.

(* ChunkFromSave for whole chunks over the interpretation: the translated section loop, then the size test and the
   six height maps, each loaded from the key the translated table gives for its field *)
Section WholeFromSave2.
Variable st_id : list N * (N * list N) -> option Z.
Variable bio_id : list N -> option Z.
Variable is_air : Z -> bool.
Variable gs gb : Z.

Definition fs_key (f : string) : list N :=
  match find (fun r => String.eqb (fst (fst (fst r))) f) c13_ChunkFromSave_heightmaps with
  | Some r => string_bytes (snd (fst (fst r)))
  | None => []
  end.
Definition fs_keys : list (list N) := map (fun r => string_bytes (snd (fst (fst r)))) c13_ChunkFromSave_heightmaps.

Definition from_save_rest (c : schunk) (ss : list (option (sect wcont))) : sres (list (option (sect wcont)) * hmaps * list N) :=
  let n := lenN (sc_secs c) in
  match calc_size (hm_bits n) hm_len with
  | None => SPanic pRt
  | Some want =>
      if existsb (fun k => match hm_lookup k (sc_hm c) with
                           | Some l => negb (Z.of_N (lenN l) =? want) | None => false end)
                 [fs_key "WorldSurfaceWG"; fs_key "WorldSurface"; fs_key "OceanFloorWG"; fs_key "OceanFloor";
                  fs_key "MotionBlocking"; fs_key "MotionBlockingNoLeaves"] then SErr else
      let nh f := new_hm_save n (hm_lookup (fs_key f) (sc_hm c)) in
      match nh "WorldSurface", nh "WorldSurfaceWG", nh "OceanFloorWG", nh "OceanFloor", nh "MotionBlocking", nh "MotionBlockingNoLeaves" with
      | SOk ws, SOk wswg, SOk ofwg, SOk of_, SOk mb, SOk mbnl => SOk (ss, mkHM wswg ws ofwg of_ mb mbnl, sc_status c)
      | SPanic w, _, _, _, _, _ => SPanic w
      | _, SPanic w, _, _, _, _ => SPanic w
      | _, _, SPanic w, _, _, _ => SPanic w
      | _, _, _, SPanic w, _, _ => SPanic w
      | _, _, _, _, SPanic w, _ => SPanic w
      | _, _, _, _, _, SPanic w => SPanic w
      | _, _, _, _, _, _ => SErr
      end
  end.

Theorem from_save_translated (c : schunk) :
  Forall (fun v => -128 <= ss_y v < 128) (sc_secs c) -> Z.of_N (lenN (sc_secs c)) < 2^31 ->
  from_save st_id bio_id is_air gs gb c =
  match fs_loop st_id bio_id is_air gs gb (sc_ypos c) (Z.of_N (lenN (sc_secs c))) (sc_secs c)
                (repeat None (List.length (sc_secs c))) with
  | SOk ss => from_save_rest c ss
  | SErr => SErr
  | SPanic w => SPanic w
  end.
Proof.
  intros Hy Hn. unfold from_save. cbv zeta.
  rewrite (from_save_secs_whole st_id bio_id is_air gs gb (sc_ypos c) (Z.of_N (lenN (sc_secs c))) ltac:(lia) _ _ Hy).
  destruct (fs_loop st_id bio_id is_air gs gb (sc_ypos c) (Z.of_N (lenN (sc_secs c))) (sc_secs c)
              (repeat None (List.length (sc_secs c)))); reflexivity.
Qed.
End WholeFromSave2.
