(* C13: INTERPRETATION of the palette loops of readStatesPalette and readBiomesPalette (registry lookup per
   palette entry with its error branches), then the constructor call with the translated length *)
From Coq Require Import List String Arith NArith ZArith Lia Bool.
From GoMC Require Import Base.Bytes Base.Dec Model.C05 Model.C06 Model.C11 Model.C13 Model.C13_syntax Gen.C13gen.
From GoMC Require Import Proofs.C13_skel_loops Proofs.C13_skel_count.
Import ListNotations.
Local Open Scope string_scope.
Local Open Scope list_scope.
Open Scope Z_scope.

(* `for i, v := range xs { out[i] = f(v) or return error }`: the iterations in order, the first failure wins *)
Fixpoint map_loop {A B} (iter : A -> sres B) (xs : list A) : sres (list B) :=
  match xs with
  | [] => SOk []
  | x :: t => match iter x with
              | SOk y => match map_loop iter t with SOk r => SOk (y :: r) | SErr => SErr | SPanic w => SPanic w end
              | SErr => SErr | SPanic w => SPanic w
              end
  end.
Lemma map_loop_opt {A B} (iter : A -> sres B) (f : A -> option B) (bad : sres (list B)) :
  bad = SErr \/ (exists w, bad = SPanic w) ->
  (forall x, iter x = match f x with Some y => SOk y | None => match bad with SErr => SErr | SPanic w => SPanic w | SOk _ => SErr end end) ->
  forall xs, map_loop iter xs = match opt_all (map f xs) with Some ys => SOk ys | None => bad end.
Proof.
  intros Hb H. induction xs as [|x t IH]; [reflexivity|]. cbn [map_loop map opt_all]. rewrite H, IH.
  destruct (f x) as [y|]; [destruct (opt_all (map f t)); [reflexivity|]|]; destruct Hb as [->|[w ->]]; reflexivity.
Qed.

Ltac gs G := rewrite interp_c_GS with (g := G) by reflexivity.
Ltac gif B := rewrite interp_c_GIf with (b := B) by reflexivity.
Ltac gife G := rewrite interp_c_GIf_init_err with (g := G) by reflexivity.

(* ---------- readStatesPalette ---------- *)
Section ReadStates.
Variable Bk : Type.                                           (* block.Block *)
Variable from_id : list N -> option Bk.                       (* block.FromID[v.Name] *)
Variable unmarshal : Bk -> N * list N -> option Bk.           (* v.Properties.Unmarshal(&b); None = error *)
Variable to_state : Bk -> option Z.                           (* block.ToStateID[b] *)

(* what the loop body computes for one palette entry: the registry function st_id of the save theorems *)
Definition st_id_of (v : list N * (N * list N)) : option Z :=
  match from_id (fst v) with
  | None => None
  | Some b =>
      match (match snd (snd v) with [] => Some b | _ => unmarshal b (snd v) end) with
      | None => None
      | Some b' => to_state b'
      end
  end.

Record rs_state := mkRS2 { rs_ok : bool; rs_b : option Bk; rs_s : Z }.
Definition rs_step (v : list N * (N * list N)) (txt : string) : option (rs_state -> sres rs_state) :=
  if String.prefix "return nil, " txt then Some (fun _ => SErr) else
  match txt with
  | "b, ok := block.FromID[v.Name]" =>
      Some (fun s => match from_id (fst v) with Some b => SOk (mkRS2 true (Some b) (rs_s s)) | None => SOk (mkRS2 false None (rs_s s)) end)
  | "err := v.Properties.Unmarshal(&b)" =>
      Some (fun s => match rs_b s with
                     | Some b => match unmarshal b (snd v) with Some b' => SOk (mkRS2 (rs_ok s) (Some b') (rs_s s)) | None => SErr end
                     | None => SPanic 98
                     end)
  | "s, ok := block.ToStateID[b]" =>
      Some (fun s => match rs_b s with
                     | Some b => match to_state b with Some z => SOk (mkRS2 true (rs_b s) z) | None => SOk (mkRS2 false (rs_b s) 0) end
                     | None => SPanic 98
                     end)
  | "statePalette[i] = s" => Some (fun s => SOk s)
  | _ => None
  end.
Definition rs_test (v : list N * (N * list N)) (cond : string) : option (rs_state -> bool) :=
  match cond with
  | "!ok" => Some (fun s => negb (rs_ok s))
  | "v.Properties.Data != nil" => Some (fun _ => match snd (snd v) with [] => false | _ => true end)
  | _ => None
  end.
Definition rs_iter (v : list N * (N * list N)) : sres Z :=
  match interp_c 12 (rs_step v) (rs_test v) (loop_body c13_readStatesPalette_body 1) (mkRS2 false None 0) with
  | SOk s => SOk (rs_s s) | SErr => SErr | SPanic w => SPanic w
  end.

Lemma rs_iter_eq v : rs_iter v = match st_id_of v with Some z => SOk z | None => SErr end.
Proof.
  unfold rs_iter, st_id_of.
  change (loop_body c13_readStatesPalette_body 1) with
    [GS "b, ok := block.FromID[v.Name]";
     GIf "" "!ok" [GS "return nil, fmt.Errorf(""unknown block id: %v"", v.Name)"] [];
     GIf "" "v.Properties.Data != nil"
       [GIf "err := v.Properties.Unmarshal(&b)" "err != nil" [GS "return nil, fmt.Errorf(""unmarshal block properties fail: %v"", err)"] []] [];
     GS "s, ok := block.ToStateID[b]";
     GIf "" "!ok" [GS "return nil, fmt.Errorf(""unknown block: %v"", b)"] [];
     GS "statePalette[i] = s"].
  set (RET1 := "return nil, fmt.Errorf(""unknown block id: %v"", v.Name)").
  set (RET3 := "return nil, fmt.Errorf(""unknown block: %v"", b)").
  gs (fun s => match from_id (fst v) with Some b => SOk (mkRS2 true (Some b) (rs_s s)) | None => SOk (mkRS2 false None (rs_s s)) end).
  destruct (from_id (fst v)) as [b|].
  2:{ gif (fun s => negb (rs_ok s)). cbn [rs_ok negb].
      gs (fun _ : rs_state => @SErr rs_state). reflexivity. }
  gif (fun s => negb (rs_ok s)). cbn [rs_ok negb].
  rewrite interp_c_nil.
  gif (fun _ : rs_state => match snd (snd v) with [] => false | _ => true end).
  assert (Tail: forall f b0, (3 <= f)%nat ->
    match interp_c (S (S (S f))) (rs_step v) (rs_test v)
            [GS "s, ok := block.ToStateID[b]"; GIf "" "!ok" [GS RET3] []; GS "statePalette[i] = s"] (mkRS2 true (Some b0) 0) with
    | SOk s => SOk (rs_s s) | SErr => SErr | SPanic w => SPanic w end
    = match to_state b0 with Some z => SOk z | None => SErr end).
  { intros f b0 Hf.
    gs (fun s => match rs_b s with
                         | Some b => match to_state b with Some z => SOk (mkRS2 true (rs_b s) z) | None => SOk (mkRS2 false (rs_b s) 0) end
                         | None => SPanic 98 end).
    cbn [rs_b]. destruct (to_state b0) as [z|].
    - gif (fun s => negb (rs_ok s)). cbn [rs_ok negb].
      destruct f as [|[|[|f]]]; try lia.
      rewrite interp_c_nil.
      gs (fun s : rs_state => SOk s).
      rewrite interp_c_nil. reflexivity.
    - gif (fun s => negb (rs_ok s)). cbn [rs_ok negb].
      destruct f as [|f]; try lia.
      gs (fun _ : rs_state => @SErr rs_state). reflexivity. }
  destruct (snd (snd v)) as [|d0 dt] eqn:Ed.
  - rewrite interp_c_nil. cbn [rs_s]. apply (Tail 6%nat b). lia.
  - gife (fun s => match rs_b s with
                         | Some b => match unmarshal b (snd v) with Some b' => SOk (mkRS2 (rs_ok s) (Some b') (rs_s s)) | None => SErr end
                         | None => SPanic 98 end).
    cbn [rs_b rs_ok rs_s]. destruct (unmarshal b (snd v)) as [b'|]; [|reflexivity].
    rewrite interp_c_nil. apply (Tail 6%nat b'). lia.
Qed.

(* the whole function: the loop over the palette, then NewStatesPaletteContainerWithData(16*16*16, data, statePalette) *)
Theorem read_states_interp gs gb (pal : list (list N * (N * list N))) (dat : list N) :
  match opt_all (map st_id_of pal) with
  | None => SErr
  | Some ids => with_data gs gb false sec_len dat ids
  end =
  match map_loop rs_iter pal with
  | SOk ids => with_data gs gb false c13_readStatesPalette_length dat ids
  | SErr => SErr
  | SPanic w => SPanic w
  end.
Proof.
  rewrite (map_loop_opt rs_iter st_id_of SErr (or_introl eq_refl)) by (intros x; rewrite rs_iter_eq; destruct (st_id_of x); reflexivity).
  destruct (opt_all (map st_id_of pal)); reflexivity.
Qed.
End ReadStates.

(* ---------- readBiomesPalette ---------- *)
Section ReadBiomes.
Variable bio_id : list N -> option Z.                         (* Type.UnmarshalText *)
Definition rb_step (v : list N) (txt : string) : option (Z -> sres Z) :=
  match txt with
  | "err := biomesRawPalette[i].UnmarshalText([]byte(v))" =>
      Some (fun _ => match bio_id v with Some z => SOk z | None => SErr end)
  | _ => None
  end.
Definition rb_iter (v : list N) : sres Z :=
  interp_c 6 (rb_step v) (fun _ => None) (loop_body c13_readBiomesPalette_body 1) 0.
Lemma rb_iter_eq v : rb_iter v = match bio_id v with Some z => SOk z | None => SErr end.
Proof.
  unfold rb_iter.
  change (loop_body c13_readBiomesPalette_body 1) with
    [GS "err := biomesRawPalette[i].UnmarshalText([]byte(v))"; GIf "" "err != nil" [GS "return nil, err"] []].
  gs (fun _ : Z => match bio_id v with Some z => SOk z | None => @SErr Z end).
  destruct (bio_id v); [|reflexivity]. rewrite interp_c_GIf_err, interp_c_nil. reflexivity.
Qed.
Theorem read_biomes_interp gs gb (pal : list (list N)) (dat : list N) :
  match opt_all (map bio_id pal) with
  | None => SErr
  | Some ids => with_data gs gb true bio_len dat ids
  end =
  match map_loop rb_iter pal with
  | SOk ids => with_data gs gb true c13_readBiomesPalette_length dat ids
  | SErr => SErr
  | SPanic w => SPanic w
  end.
Proof.
  rewrite (map_loop_opt rb_iter bio_id SErr (or_introl eq_refl)) by (intros x; rewrite rb_iter_eq; destruct (bio_id x); reflexivity).
  destruct (opt_all (map bio_id pal)); reflexivity.
Qed.
End ReadBiomes.
