(* C13: INTERPRETATION of the palette loops of writeStatesPalette and writeBiomesPalette *)
From Coq Require Import List String Arith NArith ZArith Lia Bool.
From GoMC Require Import Base.Bytes Base.Dec Model.C05 Model.C06 Model.C11 Model.C13 Model.C13_syntax Gen.C13gen.
From GoMC Require Import Proofs.C13_skel_loops Proofs.C13_skel_count Proofs.C13_skel_palette.
Import ListNotations.
Local Open Scope string_scope.
Local Open Scope list_scope.
Open Scope Z_scope.

(* ---------- writeStatesPalette ---------- *)
Section WriteStates.
Variable Bk : Type.                                   (* block.Block *)
Variable state_list : Z -> option Bk.                 (* block.StateList[v]; None = index out of range (panic) *)
Variable id_of : Bk -> list N.                        (* b.ID() *)
Variable encode : Bk -> option (list N).              (* nbt.NewEncoder(&buffer).Encode(b, ""); None = error *)
Variable decode : list N -> option (N * list N).      (* Decode(&palette[i].Properties); None = error *)
(* a block of the registry always encodes, and what the encoder wrote always decodes (the save theorems' st_name is
   then defined exactly where StateList is) *)
Hypothesis encode_total : forall b, exists e, encode b = Some e.
Hypothesis decode_total : forall b e, encode b = Some e -> exists p, decode e = Some p.

Definition st_name_of (v : Z) : option (list N * (N * list N)) :=
  match state_list v with
  | None => None
  | Some b => match encode b with
              | None => None
              | Some e => match decode e with None => None | Some p => Some (id_of b, p) end
              end
  end.

Record ws_state := mkWS { ws_b : option Bk; ws_name : list N; ws_buf : list N; ws_props : N * list N }.
Definition ws_step (v : Z) (txt : string) : option (ws_state -> sres ws_state) :=
  match txt with
  | "b := block.StateList[v]" =>
      Some (fun s => match state_list v with
                     | Some b => SOk (mkWS (Some b) (ws_name s) (ws_buf s) (ws_props s))
                     | None => SPanic pOOB
                     end)
  | "palette[i].Name = b.ID()" =>
      Some (fun s => match ws_b s with Some b => SOk (mkWS (ws_b s) (id_of b) (ws_buf s) (ws_props s)) | None => SPanic 98 end)
  | "buffer.Reset()" => Some (fun s => SOk (mkWS (ws_b s) (ws_name s) [] (ws_props s)))
  | "err = nbt.NewEncoder(&buffer).Encode(b, """")" =>
      Some (fun s => match ws_b s with
                     | Some b => match encode b with Some e => SOk (mkWS (ws_b s) (ws_name s) e (ws_props s)) | None => SErr end
                     | None => SPanic 98
                     end)
  | "_, err = nbt.NewDecoder(&buffer).Decode(&palette[i].Properties)" =>
      Some (fun s => match decode (ws_buf s) with Some p => SOk (mkWS (ws_b s) (ws_name s) (ws_buf s) p) | None => SErr end)
  | _ => None
  end.
Definition ws_iter (v : Z) : sres (list N * (N * list N)) :=
  match interp_c 10 (ws_step v) (fun _ => None) (loop_body c13_writeStatesPalette_body 3) (mkWS None [] [] (0%N, [])) with
  | SOk s => SOk (ws_name s, ws_props s) | SErr => SErr | SPanic w => SPanic w
  end.

Lemma ws_iter_eq v : ws_iter v = match st_name_of v with Some x => SOk x | None => SPanic pOOB end.
Proof.
  unfold ws_iter, st_name_of.
  change (loop_body c13_writeStatesPalette_body 3) with
    [GS "b := block.StateList[v]"; GS "palette[i].Name = b.ID()"; GS "buffer.Reset()";
     GS "err = nbt.NewEncoder(&buffer).Encode(b, """")"; GIf "" "err != nil" [GS "return"] [];
     GS "_, err = nbt.NewDecoder(&buffer).Decode(&palette[i].Properties)"; GIf "" "err != nil" [GS "return"] []].
  gs (fun s => match state_list v with
               | Some b => SOk (mkWS (Some b) (ws_name s) (ws_buf s) (ws_props s))
               | None => @SPanic ws_state pOOB end).
  destruct (state_list v) as [b|]; [|reflexivity].
  gs (fun s => match ws_b s with Some b => SOk (mkWS (ws_b s) (id_of b) (ws_buf s) (ws_props s)) | None => @SPanic ws_state 98 end).
  cbn [ws_b ws_name ws_buf ws_props].
  gs (fun s => SOk (mkWS (ws_b s) (ws_name s) [] (ws_props s))). cbn [ws_b ws_name ws_buf ws_props].
  gs (fun s => match ws_b s with
               | Some b => match encode b with Some e => SOk (mkWS (ws_b s) (ws_name s) e (ws_props s)) | None => SErr end
               | None => @SPanic ws_state 98 end).
  cbn [ws_b ws_name ws_buf ws_props].
  destruct (encode_total b) as [e He]. rewrite He. destruct (decode_total b e He) as [p Hp].
  rewrite interp_c_GIf_err.
  gs (fun s => match decode (ws_buf s) with Some p => SOk (mkWS (ws_b s) (ws_name s) (ws_buf s) p) | None => @SErr ws_state end).
  cbn [ws_b ws_name ws_buf ws_props]. rewrite Hp.
  rewrite interp_c_GIf_err, interp_c_nil. reflexivity.
Qed.

(* the whole function: the loop over the exported palette, then the copy of the raw longs *)
Theorem write_states_interp (pal : list Z) (raw : list N) :
  match opt_all (map st_name_of pal) with
  | None => SPanic pOOB
  | Some bp => SOk (bp, raw)
  end =
  match map_loop ws_iter pal with
  | SOk bp => SOk (bp, raw)
  | SErr => SErr
  | SPanic w => SPanic w
  end.
Proof.
  rewrite (map_loop_opt ws_iter st_name_of (SPanic pOOB) (or_intror (ex_intro _ pOOB eq_refl)))
    by (intros x; rewrite ws_iter_eq; destruct (st_name_of x); reflexivity).
  destruct (opt_all (map st_name_of pal)); reflexivity.
Qed.
End WriteStates.

(* ---------- writeBiomesPalette ---------- *)
Section WriteBiomes.
Variable bio_name : Z -> option (list N).             (* Type.MarshalText; None = error (invalid type) *)
Definition wb_step (v : Z) (txt : string) : option (list N -> sres (list N)) :=
  match txt with
  | "biomeID, err = v.MarshalText()" => Some (fun _ => match bio_name v with Some n => SOk n | None => SErr end)
  | "palette[i] = save.BiomeState(biomeID)" => Some (fun s => SOk s)
  | _ => None
  end.
Definition wb_iter (v : Z) : sres (list N) :=
  interp_c 6 (wb_step v) (fun _ => None) (loop_body c13_writeBiomesPalette_body 3) [].
Lemma wb_iter_eq v : wb_iter v = match bio_name v with Some n => SOk n | None => SErr end.
Proof.
  unfold wb_iter.
  change (loop_body c13_writeBiomesPalette_body 3) with
    [GS "biomeID, err = v.MarshalText()"; GIf "" "err != nil" [GS "return"] []; GS "palette[i] = save.BiomeState(biomeID)"].
  gs (fun _ : list N => match bio_name v with Some n => SOk n | None => @SErr (list N) end).
  destruct (bio_name v); [|reflexivity].
  rewrite interp_c_GIf_err. gs (fun s : list N => SOk s). rewrite interp_c_nil. reflexivity.
Qed.
Theorem write_biomes_interp (pal : list Z) (raw : list N) :
  match opt_all (map bio_name pal) with
  | None => SErr
  | Some bp => SOk (bp, raw)
  end =
  match map_loop wb_iter pal with
  | SOk bp => SOk (bp, raw)
  | SErr => SErr
  | SPanic w => SPanic w
  end.
Proof.
  rewrite (map_loop_opt wb_iter bio_name SErr (or_introl eq_refl)) by (intros x; rewrite wb_iter_eq; destruct (bio_name x); reflexivity).
  destruct (opt_all (map bio_name pal)); reflexivity.
Qed.
End WriteBiomes.
