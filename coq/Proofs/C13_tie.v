(* C13: the integer expressions and conditions of level/chunk.go, translated on every run into
   Gen/C13gen.v, are the ones the model uses - for all arguments in the stated Go ranges *)
From Coq Require Import List Arith NArith ZArith Lia Bool ZifyN ZifyNat ZifyBool.
From GoMC Require Import Base.Bytes Base.Dec Base.GoInt Gen.Funcs Model.C05 Model.C06 Model.C11 Model.C13
  Model.C13_syntax Gen.C13gen.
From GoMC Require Proofs.C11_tie.
Import ListNotations.
Open Scope Z_scope.
Ltac Zify.zify_post_hook ::= Z.div_mod_to_equations.

(* Base.Bytes' conversions are the Go wraps *)
Lemma sx_wrapu_wrap_s (w : N) (W H P : Z) t : W = Z.of_N w -> (0 < w)%N -> P = 2 ^ W -> H = 2 ^ (W - 1) -> P = 2 * H ->
  sx w (wrapu w t) = wrap_s W t.
Proof.
  intros -> Hw -> -> E. unfold sx, wrapu, wrap_s.
  assert (Hpos: 0 < 2 ^ (Z.of_N w - 1)) by (apply Z.pow_pos_nonneg; lia).
  assert (EN: Z.of_N (2 ^ (w - 1)) = 2 ^ (Z.of_N w - 1)) by (rewrite N2Z.inj_pow; f_equal; lia).
  set (P := 2 ^ Z.of_N w) in *. set (Hh := 2 ^ (Z.of_N w - 1)) in *.
  assert (B: 0 <= t mod P < P) by (apply Z.mod_pos_bound; lia).
  rewrite Z2N.id by lia.
  destruct (N.ltb_spec (Z.to_N (t mod P)) (2 ^ (w - 1))) as [L|L].
  - assert (t mod P < Hh) by lia.
    assert ((t + Hh) mod P = t mod P + Hh); [|lia].
    rewrite <- (Zplus_mod_idemp_l t Hh P). apply Z.mod_small. lia.
  - assert (Hh <= t mod P) by lia.
    assert ((t + Hh) mod P = t mod P + Hh - P); [|lia].
    rewrite <- (Zplus_mod_idemp_l t Hh P). symmetry. apply (Z.mod_unique _ _ 1); lia.
Qed.
Lemma sx8_wrap t : sx8 (u8 t) = wrap_s 8 t.
Proof. apply (sx_wrapu_wrap_s 8 8 128 256); reflexivity. Qed.
Lemma sx16_wrap t : sx16 (u16 t) = wrap_s 16 t.
Proof. apply (sx_wrapu_wrap_s 16 16 32768 65536); reflexivity. Qed.
Lemma sx32_wrap t : sx32 (u32 t) = wrap_s 32 t.
Proof. apply (sx_wrapu_wrap_s 32 32 2147483648 4294967296); reflexivity. Qed.

(* ---------- BlockEntity.PackXZ / UnpackXZ ---------- *)
Lemma tie_PackXZ x z : pack_xz x z =
  if c13_BlockEntity_PackXZ_reject x z then None else Some (c13_BlockEntity_PackXZ_value x z).
Proof.
  unfold pack_xz, c13_BlockEntity_PackXZ_reject, c13_BlockEntity_PackXZ_value.
  destruct ((15 <? x) || (15 <? z) || (x <? 0) || (z <? 0)) eqn:E; [reflexivity|].
  f_equal. rewrite sx8_wrap. f_equal. f_equal.
  assert (0 <= x <= 15) by lia. rewrite Z.shiftl_mul_pow2 by lia. change (2 ^ 4) with 16.
  symmetry. apply wrap_s_id; [lia|]. change (2 ^ (64 - 1)) with 9223372036854775808. lia.
Qed.
Lemma tie_UnpackXZ xz : unpack_xz xz = (c13_BlockEntity_UnpackXZ_X xz, c13_BlockEntity_UnpackXZ_Z xz).
Proof.
  unfold unpack_xz, c13_BlockEntity_UnpackXZ_X, c13_BlockEntity_UnpackXZ_Z.
  assert (U: Z.of_N (u8 xz) = wrap_u 8 xz).
  { unfold u8, wrapu, wrap_u. change (Z.of_N 8) with 8. rewrite Z2N.id; [reflexivity|]. apply Z.mod_pos_bound. reflexivity. }
  assert (R: 0 <= wrap_u 8 xz < 256) by (apply (wrap_u_range 8); lia).
  rewrite <- U in *. change 4 with (Z.of_N 4). change 15 with (Z.of_N 15). rewrite zn_shiftr, !zn_land.
  assert (A: forall a : N, (N.land a 15 < 16)%N).
  { intros a. change 15%N with (N.ones 4). rewrite N.land_ones. apply N.mod_lt. discriminate. }
  pose proof (A (N.shiftr (u8 xz) 4)). pose proof (A (u8 xz)).
  rewrite !wrap_s_id by (try lia; change (2 ^ (64 - 1)) with 9223372036854775808; lia). reflexivity.
Qed.
(* what they compute: a 4+4 bit packing, exhaustively *)
Lemma pack_unpack_all : forall x z, 0 <= x <= 15 -> 0 <= z <= 15 ->
  exists p, pack_xz x z = Some p /\ unpack_xz p = (x, z) /\ -128 <= p < 128.
Proof.
  assert (E: forallb (fun x => forallb (fun z =>
     match pack_xz x z with
     | Some p => let '(a, b) := unpack_xz p in (a =? x) && (b =? z) && (-128 <=? p) && (p <? 128)
     | None => false end) (map Z.of_nat (seq 0 16))) (map Z.of_nat (seq 0 16)) = true) by (vm_compute; reflexivity).
  intros x z Hx Hz. rewrite forallb_forall in E.
  assert (Ix: In x (map Z.of_nat (seq 0 16))) by (apply in_map_iff; exists (Z.to_nat x); split; [lia|apply in_seq; lia]).
  assert (Iz: In z (map Z.of_nat (seq 0 16))) by (apply in_map_iff; exists (Z.to_nat z); split; [lia|apply in_seq; lia]).
  specialize (E x Ix). rewrite forallb_forall in E. specialize (E z Iz).
  destruct (pack_xz x z) as [p|]; [|discriminate]. exists p. split; [reflexivity|].
  destruct (unpack_xz p) as [a b]. split; [f_equal; lia|lia].
Qed.
Lemma pack_rejects x z : ~ (0 <= x <= 15 /\ 0 <= z <= 15) -> pack_xz x z = None.
Proof. intros H. unfold pack_xz. destruct ((15 <? x) || (15 <? z) || (x <? 0) || (z <? 0)) eqn:E; [reflexivity|lia]. Qed.

(* ---------- ChunkFromSave / ChunkToSave index arithmetic ---------- *)
Lemma tie_FromSave_index y ypos : -128 <= y < 128 ->
  sx32 (u32 (y - ypos)) = c13_ChunkFromSave_index y ypos.
Proof.
  intros H. unfold c13_ChunkFromSave_index. rewrite sx32_wrap.
  rewrite (wrap_s_id 32 y) by (try lia; change (2 ^ (32 - 1)) with 2147483648; lia). reflexivity.
Qed.
Lemma tie_FromSave_bounds i secs : 0 <= secs < 2^31 ->
  ((i <? 0) || (secs <=? i)) = c13_ChunkFromSave_out_of_bounds i secs.
Proof.
  intros H. unfold c13_ChunkFromSave_out_of_bounds.
  rewrite (wrap_s_id 32 secs) by (try lia; change (2 ^ (32 - 1)) with 2147483648; lia). reflexivity.
Qed.
Lemma wrap_s_32_shift a : exists k, wrap_s 32 a = a + k * 4294967296.
Proof.
  pose proof (wrap_s_mod 32 a ltac:(lia)) as M. change (2 ^ 32) with 4294967296 in M.
  exists ((wrap_s 32 a) / 4294967296 - a / 4294967296).
  rewrite !Z.mod_eq in M by lia. generalize dependent (wrap_s 32 a). intros b M.
  set (qb := b / 4294967296) in *. set (qa := a / 4294967296) in *. clearbody qa qb. lia.
Qed.
Lemma wrap_s_8_shift a k : wrap_s 8 (a + k * 4294967296) = wrap_s 8 a.
Proof.
  unfold wrap_s. change (2 ^ (8 - 1)) with 128. change (2 ^ 8) with 256.
  replace (a + k * 4294967296 + 128) with (a + 128 + (k * 16777216) * 256) by lia.
  rewrite Z.mod_add by lia. reflexivity.
Qed.
Lemma tie_ToSave_Y i ypos : sx8 (u8 (i + ypos)) = c13_ChunkToSave_Y i ypos.
Proof.
  unfold c13_ChunkToSave_Y. rewrite sx8_wrap.
  destruct (wrap_s_32_shift i) as [k1 E1]. rewrite E1.
  destruct (wrap_s_32_shift (i + k1 * 4294967296 + ypos)) as [k2 E2]. rewrite E2.
  replace (i + k1 * 4294967296 + ypos + k2 * 4294967296) with (i + ypos + (k1 + k2) * 4294967296) by lia.
  symmetry. apply wrap_s_8_shift.
Qed.

(* ---------- height-map geometry ---------- *)
Lemma tie_bitsForHeight (n : N) : (n < 2^59)%N ->
  hm_bits n = c13_Chunk_ReadFrom_bitsForHeight (Z.of_N n) /\
  hm_bits n = c13_ChunkFromSave_bitsForHeight (Z.of_N n) /\
  hm_bits n = c13_EmptyChunk_heightmap_bits_0 (Z.of_N n).
Proof.
  intros H. unfold hm_bits, bitlen, c13_Chunk_ReadFrom_bitsForHeight, c13_ChunkFromSave_bitsForHeight,
    c13_EmptyChunk_heightmap_bits_0, go_bits_len.
  change (2^59)%N with 576460752303423488%N in H.
  rewrite !(wrap_u_id 64 (Z.of_N n)) by (try lia; change (2 ^ 64) with 18446744073709551616; lia).
  rewrite !(wrap_u_id 64 (Z.of_N n * 16)) by (try lia; change (2 ^ 64) with 18446744073709551616; lia).
  rewrite !(wrap_u_id 64 (Z.of_N n * 16 + 1)) by (try lia; change (2 ^ 64) with 18446744073709551616; lia). auto.
Qed.
(* the size test Chunk.ReadFrom and ChunkFromSave make: the model's hm_len_bad is the translated wantLen
   and condition *)
Lemma tie_hm_len_bad nsec raw want : 0 <= hm_bits nsec <= 64 ->
  calc_size (hm_bits nsec) hm_len = Some want ->
  want = c13_Chunk_ReadFrom_wantLen (hm_bits nsec) /\ want = c13_ChunkFromSave_wantLen (hm_bits nsec) /\
  hm_len_bad nsec raw =
    Ret (c13_Chunk_ReadFrom_bad_heightmap (match raw with None => true | Some _ => false end)
           (match raw with None => 0 | Some l => Z.of_N (lenN l) end) want).
Proof.
  intros Hb Hc. pose proof (Proofs.C11_tie.tie_calcBitStorageSize (hm_bits nsec) 256 want Hb ltac:(lia) Hc) as T.
  unfold c13_Chunk_ReadFrom_wantLen, c13_ChunkFromSave_wantLen. rewrite T. split; [reflexivity|]. split; [reflexivity|].
  unfold hm_len_bad. rewrite Hc. unfold c13_Chunk_ReadFrom_bad_heightmap. destruct raw; reflexivity.
Qed.
Lemma tie_FromSave_bad_heightmap b l w : c13_ChunkFromSave_bad_heightmap b l w = c13_Chunk_ReadFrom_bad_heightmap b l w.
Proof. reflexivity. Qed.

(* ---------- constants ---------- *)
Lemma tie_constants :
  sec_len = c13_EmptyChunk_NewStatesPaletteContainer_length /\ bio_len = c13_EmptyChunk_NewBiomesPaletteContainer_length /\
  hm_len = c13_EmptyChunk_heightmap_len_0 /\ sec_len = c13_countNoneAirBlocks_bound /\
  c13_EmptyChunk_NewStatesPaletteContainer_default = 0 /\ c13_EmptyChunk_NewBiomesPaletteContainer_default = 0 /\
  c13_Chunk_WriteTo_mask_len_0 = 64 /\ c13_Chunk_WriteTo_mask_len_1 = 64 /\
  c13_Chunk_ReadFrom_mask_len_0 = 64 /\ c13_Chunk_ReadFrom_mask_len_1 = 64 /\
  (forall p, length (mask_longs p) = Z.to_nat c13_Chunk_WriteTo_mask_len_0).
Proof.
  repeat split; reflexivity.
Qed.
Lemma tie_EmptyChunk_heightmaps secs :
  c13_EmptyChunk_heightmap_bits_1 secs = c13_EmptyChunk_heightmap_bits_0 secs /\
  c13_EmptyChunk_heightmap_bits_2 secs = c13_EmptyChunk_heightmap_bits_0 secs /\
  c13_EmptyChunk_heightmap_bits_3 secs = c13_EmptyChunk_heightmap_bits_0 secs /\
  c13_EmptyChunk_heightmap_bits_4 secs = c13_EmptyChunk_heightmap_bits_0 secs /\
  c13_EmptyChunk_heightmap_bits_5 secs = c13_EmptyChunk_heightmap_bits_0 secs /\
  c13_EmptyChunk_heightmap_len_1 = 256 /\ c13_EmptyChunk_heightmap_len_2 = 256 /\ c13_EmptyChunk_heightmap_len_3 = 256 /\
  c13_EmptyChunk_heightmap_len_4 = 256 /\ c13_EmptyChunk_heightmap_len_5 = 256.
Proof. repeat split; reflexivity. Qed.

(* ---------- SetBlock: the int16 counter updates ---------- *)
Lemma tie_SetBlock cnt :
  sx16 (u16 (cnt - 1)) = c13_Section_SetBlock_dec cnt /\ sx16 (u16 (cnt + 1)) = c13_Section_SetBlock_inc cnt.
Proof. split; apply sx16_wrap. Qed.
