(* C13: the headline round-trip theorems restated over the INTERPRETATION of the translated element lists *)
From Coq Require Import List Arith NArith ZArith Lia Bool.
From GoMC Require Import Base.Bytes Base.Dec Model.C05 Model.C06 Model.C11 Model.C13 Model.C13_syntax Gen.C13gen.
From GoMC Require Import Proofs.C06_comb Proofs.C13_wire Proofs.C13_fuel Proofs.C13_skel_interp.
Import ListNotations.
Local Open Scope list_scope.
Open Scope N_scope.

Section Translated.
Variable cont : Type.
Variable pc_write : cont -> list N.
Variable pc_read : bool -> cont -> dec (cont * N).
Variable X : Type.
Variable pc_abs : cont -> X.
Variable pc_good : cont -> Prop.
Variable pc_compat : cont -> cont -> Prop.
Hypothesis pc_robust : forall b d, robust (pc_read b d).
Hypothesis pc_rt : forall b c d rest, pc_good c -> pc_compat c d ->
  exists c' n, run_flat (pc_read b d) (pc_write c ++ rest) = FOk (c', n) rest /\ pc_abs c' = pc_abs c.

(* one section: the translated Section.ReadFrom after the translated Section.WriteTo *)
Theorem section_translated s d rest : sec_ok cont pc_good pc_compat s d ->
  exists img s', interp_w (sec_wenv cont pc_write s) c13_Section_WriteTo_fields = Some img /\
    run_flat (interp_r (sec_renv cont pc_read) c13_Section_ReadFrom_fields d) (img ++ rest) = FOk s' rest /\
    sec_rel cont X pc_abs s d s'.
Proof.
  intros Hok. destruct (sec_read_rt cont pc_write pc_read X pc_abs pc_good pc_compat pc_robust pc_rt s d rest Hok) as (s' & R & Rel).
  exists (sec_write cont pc_write s), s'. split; [apply sec_write_interp|]. split; [|exact Rel].
  rewrite (sec_read_interp cont pc_read pc_robust). exact R.
Qed.

(* the whole chunk: the translated Chunk.ReadFrom (tuple, then the statements after it) after the
   translated Chunk.WriteTo, fuel = |input| + 68 *)
Theorem wire_translated (c d : chunk cont) : chunk_ok cont pc_write pc_good pc_compat c d ->
  exists img, (if 4096 <? lenN (c_secs c) then None else interp_w (chunk_wenv cont pc_write c) c13_Chunk_WriteTo_fields) = Some img /\
  forall rest fuel, (length (img ++ rest) + 68 <= fuel)%nat ->
  exists c', run_flat (s <- interp_r (chunk_renv cont fuel d) c13_Chunk_ReadFrom_fields (mkRS (None, None) VUnit VUnit 0) ;;
                       chunk_tail cont pc_read d s) (img ++ rest) = FOk (c', lenN img) rest /\
    Forall3 (sec_rel cont X pc_abs) (c_secs c) (c_secs d) (c_secs c') /\
    hMB (c_hm c') = hMB (c_hm c) /\ hWS (c_hm c') = hWS (c_hm c) /\
    hWSWG (c_hm c') = hWSWG (c_hm d) /\ hOFWG (c_hm c') = hOFWG (c_hm d) /\
    hOF (c_hm c') = hOF (c_hm d) /\ hMBNL (c_hm c') = hMBNL (c_hm d) /\
    c_bes c' = c_bes c /\ c_status c' = c_status d.
Proof.
  intros Hok.
  destruct (wire_roundtrip_input cont pc_write pc_read X pc_abs pc_good pc_compat pc_robust pc_rt c d Hok) as (img & Hw & H).
  exists img. split; [rewrite <- chunk_write_interp; exact Hw|]. intros rest fuel Hf.
  destruct (H rest fuel Hf) as (c' & R & P). exists c'. split; [|exact P].
  rewrite <- chunk_read_interp. exact R.
Qed.
End Translated.

(* one block entity: the translated BlockEntity.ReadFrom into ANY prior slot content after the translated
   BlockEntity.WriteTo *)
Theorem block_entity_translated fuel b oldv rest : bent_ok b -> (length (e_data b) < fuel)%nat ->
  exists img, interp_w (be_wenv b) c13_BlockEntity_WriteTo_fields = Some img /\
    run_flat (interp_r (be_renv fuel) c13_BlockEntity_ReadFrom_fields (val_bent oldv, 0)) (img ++ rest) = FOk (b, lenN img) rest.
Proof.
  intros Hb Hf. exists (fst (be_write (bent_val b))). split; [apply be_write_interp|].
  destruct (be_elem_ok fuel b Hb Hf oldv rest) as (r & R & E). subst r.
  rewrite be_read_interp in R.
  destruct (run_flat (interp_r (be_renv fuel) c13_BlockEntity_ReadFrom_fields (val_bent oldv, 0)) (fst (be_write (bent_val b)) ++ rest))
    as [[b' n] r| | |]; try discriminate.
  assert (E1: bent_val b' = bent_val b) by congruence.
  assert (E2: n = lenN (fst (be_write (bent_val b)))) by congruence.
  assert (E3: r = rest) by congruence.
  apply (f_equal val_bent) in E1. rewrite !val_bent_val in E1. subst. reflexivity.
Qed.
