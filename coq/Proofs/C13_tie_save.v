(* C13: the save round trip of one section over the INTERPRETATION of the translated loop bodies of ChunkToSave
   and ChunkFromSave *)
From Coq Require Import List Arith NArith ZArith Lia Bool.
From GoMC Require Import Base.Bytes Base.Dec Model.C05 Model.C06 Model.C11 Model.C13 Model.C13_syntax Gen.C13gen.
From GoMC Require Import Proofs.C13 Proofs.C13_save Proofs.C13_skel_loops.
Import ListNotations.
Open Scope Z_scope.

Section SaveTranslated.
Variable st_name : Z -> option (list N * (N * list N)).
Variable st_id : list N * (N * list N) -> option Z.
Variable bio_name : Z -> option (list N).
Variable bio_id : list N -> option Z.
Variable is_air : Z -> bool.
Variable gs gb : Z.
Hypothesis st_inverse : forall v x, st_name v = Some x -> st_id x = Some v.
Hypothesis bio_inverse : forall v x, bio_name v = Some x -> bio_id x = Some v.
Hypothesis gs_range : 9 <= gs <= 32.
Hypothesis gb_range : 4 <= gb <= 32.

(* section number i of a chunk with n sections: the translated body of the ChunkToSave loop, then the translated
   body of the ChunkFromSave loop on what it produced, put a section that agrees with s at every position into
   slot i of the section slice - and nowhere else *)
Theorem save_section_translated ypos (n i : nat) s (acc : list (option (sect wcont))) :
  sec_inv st_name bio_name gs gb s -> (i < n)%nat -> Z.of_nat n < 2^31 ->
  -128 <= ypos -> Z.of_nat n + ypos <= 128 ->
  exists ts fs s',
    interp_g (ts_step st_name bio_name i ypos s) (fun _ => None) (loop_body c13_ChunkToSave_body 2)
             (mkTS 0 [] [] [] [] None None) = SOk ts /\
    fs_iter st_id bio_id is_air gs gb ypos (Z.of_nat n) (ts_section ts) = SOk fs /\
    fs_i fs = Z.of_nat i /\ fs_section fs = Some s' /\ sec_same is_air s s'.
Proof.
  intros Hinv Hi Hn Hlo Hhi.
  destruct (sec_rt st_name st_id bio_name bio_id is_air gs gb st_inverse bio_inverse gs_range gb_range ypos i s Hinv)
    as (x & s' & T & Yx & F & Same).
  rewrite to_save_sec_interp in T.
  destruct (interp_g (ts_step st_name bio_name i ypos s) (fun _ => None) (loop_body c13_ChunkToSave_body 2)
              (mkTS 0 [] [] [] [] None None)) as [ts| |w]; try discriminate.
  injection T as T. exists ts.
  subst x.
  (* the iteration of ChunkFromSave on it succeeds (model loop through its interpretation), with index i *)
  set (x := ts_section ts) in *.
  assert (Yr: -128 <= ss_y x < 128).
  { rewrite Yx. pose proof (sx_range 8 (u8 (Z.of_nat i + ypos)) ltac:(reflexivity) (wrapu_lt 8 _)) as R.
    unfold in_sw in R. cbn in R. unfold sx8. lia. }
  pose proof (from_save_secs_interp st_id bio_id is_air gs gb ypos (Z.of_nat n) x [] [] Yr ltac:(lia)) as M.
  cbn [from_save_secs] in M. cbv zeta in M. rewrite Yx in M.
  assert (Yb: sx32 (u32 (sx8 (u8 (Z.of_nat i + ypos)) - ypos)) = Z.of_nat i).
  { unfold sx8, u8. rewrite sx_wrapu by (try reflexivity; unfold in_sw; cbn; lia).
    replace (Z.of_nat i + ypos - ypos) with (Z.of_nat i) by lia.
    unfold sx32, u32. apply sx_wrapu; [reflexivity|]. unfold in_sw. cbn. lia. }
  rewrite Yb in M.
  replace ((Z.of_nat i <? 0) || (Z.of_nat n <=? Z.of_nat i)) with false in M by lia.
  rewrite F in M.
  destruct (fs_iter st_id bio_id is_air gs gb ypos (Z.of_nat n) x) as [fs| |w] eqn:Efs; try discriminate.
  destruct (fs_iter_ok st_id bio_id is_air gs gb ypos (Z.of_nat n) x fs Efs) as (Hi' & x' & Hx' & Hfs).
  rewrite F in Hfs. injection Hfs as Hfs. subst x'.
  exists fs, s'. split; [reflexivity|]. split; [reflexivity|]. split; [|split; [exact Hx'|exact Same]].
  rewrite Hi'. rewrite <- (Proofs.C13_tie.tie_FromSave_index (ss_y x) ypos Yr). rewrite Yx. exact Yb.
Qed.
End SaveTranslated.
