(* C13 proofs, part 8: ChunkFromSave on sections in the vanilla save layout with ANY palette size, through
   C12's model of New*PaletteContainerWithData (resolveIndirect included) and C12's theorem *)
From Coq Require Import List Arith NArith ZArith Lia Bool ZifyN ZifyNat ZifyBool.
From GoMC Require Import Base.Bytes Base.Dec Model.C05 Model.C06 Model.C11 Model.C13 Proofs.C13 Proofs.C13_save.
From GoMC Require Model.C12 Proofs.C11 Proofs.C12 Proofs.C12_data.
Import ListNotations.
Open Scope Z_scope.

(* the generic section code instantiated with the concrete container IS from_save_sec *)
Lemma from_save_sec_generic_eq st_id bio_id is_air gs gb v :
  from_save_sec_g wcont (wc_mk gs gb) wc_get st_id bio_id is_air v = from_save_sec st_id bio_id is_air gs gb v.
Proof. reflexivity. Qed.

(* all positions through Get, when Get is the lookup in a list of the right length *)
Lemma all_gets_list {cont} (get : cont -> Z -> outcome) (c : cont) (l : list Z) :
  (forall i, (i < length l)%nat -> get c (Z.of_nat i) = ORet (nth i l 0)) ->
  all_gets cont get (length l) c = Some l.
Proof.
  intros H. unfold all_gets.
  assert (G: forall k m, (k + m = length l)%nat ->
    fold_right (fun i acc => match get c (Z.of_nat i), acc with ORet v, Some l0 => Some (v :: l0) | _, _ => None end)
               (Some []) (seq k m) = Some (skipn k l)).
  { intros k m. revert k. induction m as [|m IH]; intros k Hk.
    - cbn [seq fold_right]. rewrite skipn_all2 by lia. reflexivity.
    - cbn [seq fold_right]. rewrite (IH (S k)) by lia. rewrite H by lia.
      assert (Hlt: (k < length l)%nat) by lia.
      clear - Hlt. revert k Hlt. induction l as [|x l IHl]; intros k Hlt; [cbn in Hlt; lia|].
      destruct k as [|k]; [reflexivity|]. cbn [skipn nth]. apply IHl. cbn [length] in Hlt. lia. }
  apply (G O (length l)). lia.
Qed.

(* ---------- the instance: C12's model of the constructor and of Get ---------- *)
Definition cf_of (gs gb : Z) (biome : bool) : C12.cfg :=
  if biome then C12.mkCfg C12.KBiomes gb else C12.mkCfg C12.KStates gs.
Definition c12_mk (gs gb : Z) (biome : bool) (dat : list N) (pat : list Z) : sres C12.pc :=
  match C12.pc_with_data (cf_of gs gb biome) (if biome then bio_len else sec_len) dat pat with
  | ROk c => SOk c
  | RPanic w => SPanic w
  end.

(* a palette + index array in the vanilla save layout, and the array the independent reader of the
   layout (C12's spec_saved: index j of width w resolved through the palette) gives *)
Definition vanilla_ok (cf : C12.cfg) (pat : list Z) (dat : list N) (a : list Z) : Prop :=
  pat <> [] /\ Forall (Proofs.C12.inreg cf) pat /\ C12.zlen pat <= 2 ^ C12.gbits cf /\
  (let n := Proofs.C12_data.section_len (C12.ckind cf) in
   let w := C12.save_width (C12.ckind cf) (C12.zlen pat) in
   Z.of_nat (length dat) = (if w =? 0 then 0 else Proofs.C11.size_of w n) /\
   Forall (fun l => (l < 2^64)%N) dat /\
   C12.spec_saved (Z.to_N w) (Z.to_nat n) pat dat = Some a).

Section Vanilla.
Variable st_id : list N * (N * list N) -> option Z.
Variable bio_id : list N -> option Z.
Variable is_air : Z -> bool.
Variable gs gb : Z.
Hypothesis gs_ok : Proofs.C12.wfcfg (cf_of gs gb false).
Hypothesis gb_ok : Proofs.C12.wfcfg (cf_of gs gb true).

Theorem vanilla_section (v : ssect) ids bids a b :
  opt_all (map st_id (ss_bpal v)) = Some ids -> opt_all (map bio_id (ss_biopal v)) = Some bids ->
  vanilla_ok (cf_of gs gb false) ids (ss_bdata v) a ->
  vanilla_ok (cf_of gs gb true) bids (ss_biodata v) b ->
  exists s, from_save_sec_g C12.pc (c12_mk gs gb) C12.pc_get st_id bio_id is_air v = SOk s /\
    Proofs.C12.Inv (s_states s) /\ Proofs.C12.Inv (s_biomes s) /\
    Proofs.C12.pabs (s_states s) = a /\ Proofs.C12.pabs (s_biomes s) = b /\
    length a = 4096%nat /\ length b = 64%nat /\
    s_count s = non_air is_air a /\ s_sky s = ss_sky v /\ s_blk s = ss_blk v.
Proof.
  intros E1 E2 (P1 & R1 & L1 & D1 & F1 & S1) (P2 & R2 & L2 & D2 & F2 & S2).
  destruct (Proofs.C12_data.with_data_section (cf_of gs gb false) (ss_bdata v) ids a gs_ok P1 R1 L1 D1 F1 S1)
    as (cs & Ws & Is & Cs & Ls & As).
  destruct (Proofs.C12_data.with_data_section (cf_of gs gb true) (ss_biodata v) bids b gb_ok P2 R2 L2 D2 F2 S2)
    as (cb & Wb & Ib & Cb & Lb & Ab).
  cbn [cf_of C12.ckind Proofs.C12_data.section_len] in Ws, Wb, Ls, Lb.
  assert (La: length a = Z.to_nat sec_len).
  { rewrite <- As, Proofs.C12.pabs_length, Ls. reflexivity. }
  assert (Lbb: length b = 64%nat).
  { rewrite <- Ab, Proofs.C12.pabs_length, Lb. reflexivity. }
  assert (Hc: count_g C12.pc C12.pc_get is_air cs = SOk (non_air is_air a)).
  { unfold count_g. rewrite <- La. rewrite (all_gets_list C12.pc_get cs a); [reflexivity|].
    intros i Hi. rewrite (Proofs.C12.get_abs cs (Z.of_nat i) Is) by (rewrite Ls; change sec_len with 4096 in La; lia).
    rewrite Nat2Z.id, As. reflexivity. }
  exists (mkSec (non_air is_air a) cs cb (ss_sky v) (ss_blk v)).
  split.
  - unfold from_save_sec_g. rewrite E1. unfold c12_mk, cf_of. cbv iota. change sec_len with 4096 at 1. rewrite Ws.
    rewrite Hc. rewrite E2. change bio_len with 64. rewrite Wb.
    rewrite sx16_u16_small; [reflexivity|].
    rewrite non_air_cnt. pose proof (cnt_le is_air a) as Hle.
    assert (Z.of_nat (length a) = 4096) by (rewrite La; reflexivity). lia.
  - cbn [s_states s_biomes s_count s_sky s_blk].
    split; [exact Is|]. split; [exact Ib|]. split; [exact As|]. split; [exact Ab|].
    split; [rewrite La; reflexivity|]. split; [exact Lbb|]. auto.
Qed.
End Vanilla.
