(* C13 proofs, part 3: the network form - block entities, light data, sections, Chunk.ReadFrom after WriteTo *)
From Coq Require Import List Arith NArith ZArith Lia Bool ZifyN ZifyNat ZifyBool.
From GoMC Require Import Base.Bytes Base.Bits Base.Dec Gen.Consts Model.C05 Model.C06 Model.C11 Model.C13.
From GoMC Require Model.C01 Proofs.C01_dec Proofs.C01_more.
From GoMC Require Import Proofs.C01 Proofs.C06_read Proofs.C06_comb Proofs.C06_more Proofs.C13_nbt.
From GoMC Require Proofs.C11.
Import ListNotations.
Open Scope N_scope.
Ltac Zify.zify_post_hook ::= Z.div_mod_to_equations.

(* ---------- block entities ---------- *)
Definition nbt_ok (b : bent) : Prop :=
  (e_nt b = 0 /\ e_data b = []) \/
  (exists t, C01.wf t /\ Proofs.C01_dec.nest_ok t /\ e_nt b = C01.tag_id t /\ e_data b = C01.payload t).
Definition bent_ok (b : bent) : Prop :=
  (-128 <= e_xz b < 128)%Z /\ (-32768 <= e_y b < 32768)%Z /\ (-2^31 <= e_type b < 2^31)%Z /\ nbt_ok b.

Lemma val_bent_val b : val_bent (bent_val b) = b.
Proof. destruct b. unfold bent_val, val_bent. cbn. rewrite N2Z.id. reflexivity. Qed.

Definition raw_img (b : bent) : list N :=
  if e_nt b mod 256 =? C01.idEnd then [C01.idEnd] else e_nt b mod 256 :: e_data b.

Lemma raw_body_robust fuel old : robust (raw_body fuel old).
Proof.
  unfold raw_body. constructor. intros id. destruct (id =? C01.idEnd); [constructor|].
  apply robust_bind; [apply tee_robust, dec_skip_robust|]. intros; constructor.
Qed.

Lemma raw_body_rt b old fuel rest : nbt_ok b -> (length (e_data b) < fuel)%nat ->
  run_flat (raw_body fuel old) (raw_img b ++ rest) = FOk (e_nt b, e_data b) rest.
Proof.
  intros [[Hn Hd]|(t & W & Hnest & Hn & Hd)] Hf; unfold raw_img, raw_body.
  - rewrite Hn, Hd. reflexivity.
  - pose proof (tag_id_range t) as R. rewrite Hn.
    rewrite (N.mod_small (C01.tag_id t) 256) by lia.
    destruct (N.eqb_spec (C01.tag_id t) C01.idEnd) as [E|_]; [change C01.idEnd with 0 in E; lia|].
    cbn [app run_flat].
    destruct (N.eqb_spec (C01.tag_id t) C01.idEnd) as [E|_]; [change C01.idEnd with 0 in E; lia|].
    rewrite run_flat_bind by (apply tee_robust, dec_skip_robust).
    rewrite Hd in Hf |- *.
    destruct (Proofs.C01_more.tee_spec _ (dec_skip_robust fuel (C01.tag_id t)) _ _ _
                (Proofs.C01_more.dec_skip_conforms t W Hnest fuel rest Hf)) as (c & Hc & Ht).
    apply app_inv_tail in Hc. subst c. rewrite Ht. reflexivity.
Qed.

Lemma raw_read_rt b old fuel rest : nbt_ok b -> (length (e_data b) < fuel)%nat ->
  run_flat (raw_read fuel old) (raw_img b ++ rest) = FOk (e_nt b, e_data b, lenN (raw_img b)) rest.
Proof.
  intros Hb Hf. unfold raw_read.
  destruct (Proofs.C01_more.tee_spec _ (raw_body_robust fuel old) _ _ _ (raw_body_rt b old fuel rest Hb Hf)) as (c & Hc & Ht).
  apply app_inv_tail in Hc. subst c.
  rewrite run_flat_bind by (apply tee_robust, raw_body_robust). rewrite Ht. reflexivity.
Qed.

Lemma be_read_robust fuel o : robust (be_read fuel o).
Proof.
  unfold be_read. apply robust_bind; [apply (read_f_robust fuel TByte (VZ 0))|]. intros [xz n1].
  apply robust_bind; [apply (read_f_robust fuel TShort (VZ 0))|]. intros [y n2].
  apply robust_bind; [apply (read_f_robust fuel TVarInt (VZ 0))|]. intros [ty n3].
  apply robust_bind; [|intros [raw n4]; constructor].
  unfold raw_read. apply robust_bind; [apply tee_robust, raw_body_robust|]. intros; constructor.
Qed.

Lemma be_write_img b : fst (be_write (bent_val b)) =
  fst (w_byte (e_xz b)) ++ fst (w_short (e_y b)) ++ fst (w_varint (e_type b)) ++ raw_img b.
Proof.
  unfold be_write. rewrite val_bent_val. unfold raw_img.
  destruct (e_nt b mod 256 =? C01.idEnd); reflexivity.
Qed.

Lemma be_elem_ok fuel b : bent_ok b -> (length (e_data b) < fuel)%nat ->
  elem_ok (be_read fuel) be_write (fun v => v) (bent_val b).
Proof.
  intros (Hx & Hy & Ht & Hn) Hf old rest. exists (bent_val b). split; [|reflexivity].
  rewrite be_write_img. rewrite <- !app_assoc. unfold be_read.
  rewrite (run_bind_ok _ _ _ _ _ (read_f_robust fuel TByte (VZ 0)) (rt_byte (e_xz b) _ Hx)). cbn beta iota.
  rewrite (run_bind_ok _ _ _ _ _ (read_f_robust fuel TShort (VZ 0)) (rt_short (e_y b) _ Hy)). cbn beta iota.
  rewrite (run_bind_ok _ _ _ _ _ (read_f_robust fuel TVarInt (VZ 0)) (rt_varint (e_type b) _ Ht)). cbn beta iota.
  assert (R: robust (raw_read fuel (val_bent old))).
  { unfold raw_read. apply robust_bind; [apply tee_robust, raw_body_robust|]. intros; constructor. }
  rewrite (run_bind_ok _ _ _ _ _ R (raw_read_rt b (val_bent old) fuel rest Hn Hf)). cbn beta iota.
  cbn [run_flat fst snd zof].
  replace (mkBE (e_xz b) (e_y b) (e_type b) (e_nt b) (e_data b)) with b by (destruct b; reflexivity).
  rewrite !lenN_app, !N.add_assoc. reflexivity.
Qed.

(* ---------- light data ---------- *)
Definition light_ok (o : option (list N)) : Prop :=
  match o with None => True | Some bs => all_bytes bs /\ lenN bs < 2^31 end.

Lemma mask_bits_bound p : forall i, mask_bits p i + 2^i <= 2^(i + lenN p).
Proof.
  induction p as [|b t IH]; intros i.
  - cbn [mask_bits]. rewrite (lenN_nil (A:=bool)). rewrite N.add_0_r. lia.
  - cbn [mask_bits]. rewrite lenN_cons. specialize (IH (i + 1)).
    replace (i + (1 + lenN t)) with (i + 1 + lenN t) by lia.
    rewrite N.add_1_r in IH at 2. rewrite N.pow_succ_r' in IH.
    destruct b; lia.
Qed.
Lemma mask_bits_lt p : (length p <= 64)%nat -> mask_bits p 0 < 2^64.
Proof.
  intros H. pose proof (mask_bits_bound p 0) as B. rewrite N.add_0_l in B. change (2^0) with 1 in B.
  assert (2 ^ lenN p <= 2 ^ 64) by (apply N.pow_le_mono_r; unfold lenN; lia). lia.
Qed.
Lemma chunks64_spec : forall n l, length (chunks64 n l) = n /\ Forall (fun c => (length c <= 64)%nat) (chunks64 n l).
Proof.
  induction n as [|n IH]; intros l; cbn [chunks64 length]; [split; constructor|].
  destruct (IH (skipn 64 l)) as [E F]. split; [lia|]. constructor; [apply firstn_le_length|exact F].
Qed.
Lemma mask_longs_spec p : length (mask_longs p) = 64%nat /\ Forall (fun l => l < 2^64) (mask_longs p).
Proof.
  unfold mask_longs. destruct (chunks64_spec 64 p) as [E F]. rewrite map_length. split; [exact E|].
  apply Forall_map. eapply Forall_impl; [|exact F]. intros c Hc. apply mask_bits_lt. exact Hc.
Qed.
Lemma rev_longs_spec ls : length (rev_longs ls) = length ls /\ Forall (fun l => l < 2^64) (rev_longs ls).
Proof.
  unfold rev_longs. rewrite map_length. split; [reflexivity|]. apply Forall_map.
  apply Forall_forall. intros x _. change (2^64) with 18446744073709551616. lia.
Qed.

Lemma bitset_dom ls : Forall (fun l => l < 2^64) ls -> (length ls <= 64)%nat -> in_dom TBitSet (bitset_val ls).
Proof.
  intros F L. cbn [in_dom]. unfold bitset_val. eexists _, _. split; [reflexivity|]. split.
  - apply Forall_map. eapply Forall_impl; [|exact F]. intros l Hl. exists (sx64 l). split; [reflexivity|].
    pose proof (sx_range 64 l ltac:(reflexivity) Hl) as R. unfold in_sw in R. cbn in R. unfold sx64. lia.
  - unfold lenN. rewrite map_length. change (2^31) with 2147483648. lia.
Qed.
Lemma arrays_dom ls : Forall light_ok ls -> (length ls <= 4096)%nat -> in_dom t_bytearrays (arrays_val ls).
Proof.
  intros F L. unfold t_bytearrays, arrays_val. cbn [in_dom]. eexists _, _. split; [reflexivity|].
  assert (Hlen: (length (flat_map (fun o : option (list N) => match o with Some bs => [VBytes bs []] | None => [] end) ls) <= length ls)%nat).
  { clear. induction ls as [|[bs|] t IH]; cbn [flat_map app length]; lia. }
  split.
  - clear L Hlen. induction F as [|o t Ho Ht IH]; [constructor|]. cbn [flat_map]. destruct o as [bs|]; [|exact IH].
    cbn [app]. constructor; [|exact IH]. destruct Ho as [Hb Hl]. exists bs, []. auto.
  - unfold lenN, lenk_max. lia.
Qed.
Lemma list_max_zero {A} (l : list A) : list_max (map (fun _ => O) l) = O.
Proof. induction l; cbn; auto. Qed.

Lemma light_dom sky blk : Forall light_ok sky -> Forall light_ok blk ->
  (length sky <= 4096)%nat -> (length blk <= 4096)%nat ->
  in_dom t_light (light_val sky blk) /\ (need t_light (light_val sky blk) <= 64 + length sky + length blk)%nat.
Proof.
  intros Fs Fb Ls Lb. unfold light_val.
  destruct (mask_longs_spec (present sky)) as [E1 F1]. destruct (mask_longs_spec (present blk)) as [E2 F2].
  destruct (rev_longs_spec (mask_longs (present sky))) as [E3 F3].
  destruct (rev_longs_spec (mask_longs (present blk))) as [E4 F4].
  split.
  - unfold t_light. cbn [in_dom].
    eexists _, _; split; [reflexivity|]; split; [apply bitset_dom; [exact F1|lia]|].
    eexists _, _; split; [reflexivity|]; split; [apply bitset_dom; [exact F2|lia]|].
    eexists _, _; split; [reflexivity|]; split; [apply bitset_dom; [exact F3|lia]|].
    eexists _, _; split; [reflexivity|]; split; [apply bitset_dom; [exact F4|lia]|].
    eexists _, _; split; [reflexivity|]; split; [apply arrays_dom; assumption|].
    eexists _, _; split; [reflexivity|]; split; [apply arrays_dom; assumption|exact I].
  - unfold t_light, t_bytearrays, bitset_val, arrays_val. cbn [need list_of fst].
    rewrite !map_length.
    assert (H0: forall l : list fval, list_max (map (need TByteArray) l) = O).
    { intros l. induction l as [|x l IH]; [reflexivity|].
      change (list_max (map (need TByteArray) (x :: l))) with (Nat.max (need TByteArray x) (list_max (map (need TByteArray) l))).
      rewrite IH. reflexivity. }
    rewrite !H0.
    assert (Hlen: forall ls : list (option (list N)), (length (flat_map (fun o => match o with Some bs => [VBytes bs []] | None => [] end) ls) <= length ls)%nat).
    { induction ls as [|[bs|] t IH]; cbn [flat_map app length]; lia. }
    pose proof (Hlen sky). pose proof (Hlen blk). lia.
Qed.

(* ---------- sections and the whole chunk, parametric in the paletted container ---------- *)
Inductive Forall3 {A B C} (R : A -> B -> C -> Prop) : list A -> list B -> list C -> Prop :=
| F3_nil : Forall3 R [] [] []
| F3_cons a b c la lb lc : R a b c -> Forall3 R la lb lc -> Forall3 R (a :: la) (b :: lb) (c :: lc).

Section Wire.
Variable cont : Type.
Variable pc_write : cont -> list N.
Variable pc_read : bool -> cont -> dec (cont * N).
Variable X : Type.
Variable pc_abs : cont -> X.                        (* what the container denotes: its array of ids *)
Variable pc_good : cont -> Prop.                    (* the container invariant (C12's Inv) *)
Variable pc_compat : cont -> cont -> Prop.          (* source, destination: same geometry *)
Hypothesis pc_robust : forall b d, robust (pc_read b d).
Hypothesis pc_rt : forall b c d rest, pc_good c -> pc_compat c d ->
  exists c' n, run_flat (pc_read b d) (pc_write c ++ rest) = FOk (c', n) rest /\ pc_abs c' = pc_abs c.

Notation sect := (sect cont).
Notation chunk := (chunk cont).

Definition sec_ok (s d : sect) : Prop :=
  (-32768 <= s_count s < 32768)%Z /\ pc_good (s_states s) /\ pc_good (s_biomes s) /\
  pc_compat (s_states s) (s_states d) /\ pc_compat (s_biomes s) (s_biomes d).
(* what a read section is: counter and contents of the source, light arrays of the destination *)
Definition sec_rel (s d s' : sect) : Prop :=
  s_count s' = s_count s /\ pc_abs (s_states s') = pc_abs (s_states s) /\
  pc_abs (s_biomes s') = pc_abs (s_biomes s) /\ s_sky s' = s_sky d /\ s_blk s' = s_blk d.

Lemma sec_read_robust d : robust (sec_read cont pc_read d).
Proof.
  unfold sec_read. apply robust_bind; [apply (read_f_robust O TShort (VZ 0))|]. intros [c n].
  apply robust_bind; [apply pc_robust|]. intros [st n1].
  apply robust_bind; [apply pc_robust|]. intros [bi n2]. constructor.
Qed.
Lemma secs_read_robust : forall ds, robust (secs_read cont pc_read ds).
Proof.
  induction ds as [|d ds IH]; cbn [secs_read]; [constructor|].
  apply robust_bind; [apply sec_read_robust|]. intros s'. apply robust_bind; [exact IH|]. intros; constructor.
Qed.

Lemma sec_read_rt s d rest : sec_ok s d ->
  exists s', run_flat (sec_read cont pc_read d) (sec_write cont pc_write s ++ rest) = FOk s' rest /\ sec_rel s d s'.
Proof.
  intros (Hc & Hs & Hb & Cs & Cb). unfold sec_read, sec_write. rewrite <- !app_assoc.
  rewrite (run_bind_ok _ _ _ _ _ (read_f_robust O TShort (VZ 0)) (rt_short (s_count s) _ Hc)). cbn beta iota.
  destruct (pc_rt false _ _ (pc_write (s_biomes s) ++ rest) Hs Cs) as (st & n1 & R1 & A1).
  rewrite (run_bind_ok _ _ _ _ _ (pc_robust false (s_states d)) R1). cbn beta iota.
  destruct (pc_rt true _ _ rest Hb Cb) as (bi & n2 & R2 & A2).
  rewrite (run_bind_ok _ _ _ _ _ (pc_robust true (s_biomes d)) R2). cbn beta iota.
  eexists. split; [reflexivity|]. repeat split; assumption.
Qed.

Lemma secs_read_rt : forall ss ds rest, Forall2 sec_ok ss ds ->
  exists ss', run_flat (secs_read cont pc_read ds) (concat (map (sec_write cont pc_write) ss) ++ rest) = FOk ss' rest
              /\ Forall3 sec_rel ss ds ss'.
Proof.
  induction ss as [|s ss IH]; intros ds rest H; inversion H as [|? d ? ds' Hsd Hrest]; subst.
  - exists []. split; [reflexivity|constructor].
  - cbn [map concat secs_read]. rewrite <- app_assoc.
    destruct (sec_read_rt s d (concat (map (sec_write cont pc_write) ss) ++ rest) Hsd) as (s' & R1 & Rel1).
    rewrite (run_bind_ok _ _ _ _ _ (sec_read_robust d) R1).
    destruct (IH ds' rest Hrest) as (ss' & R2 & Rel2).
    rewrite (run_bind_ok _ _ _ _ _ (secs_read_robust ds') R2).
    exists (s' :: ss'). split; [reflexivity|constructor; assumption].
Qed.

Definition hm_ok (nsec : N) (o : option bstore) : Prop :=
  exists st, o = Some st /\ Proofs.C11.wf st /\ bits st = hm_bits nsec /\ blen st = hm_len.

Lemma hm_checks nsec o : hm_ok nsec o ->
  longs_ok (raw_of o) /\
  hm_len_bad nsec (Some (raw_of o)) = Ret false /\ new_hm nsec (Some (raw_of o)) = Ret o.
Proof.
  intros (st & -> & W & Hb & Hl). cbn [raw_of].
  pose proof (Proofs.C11.wf_size_of st W) as Hs. pose proof (Proofs.C11.wf_b st W) as Hbits.
  rewrite Hb, Hl in Hs.
  destruct (Proofs.C11.calc_size_ok (hm_bits nsec) hm_len ltac:(rewrite <- Hb; exact Hbits) ltac:(unfold hm_len; lia)) as [Hcs Hpos].
  split; [|split].
  - split; [apply W|].
    assert (Proofs.C11.size_of (hm_bits nsec) hm_len <= 256)%Z.
    { unfold Proofs.C11.size_of, hm_len. rewrite <- Hb.
      assert (1 <= Z.quot 64 (bits st))%Z by (apply Z.quot_le_lower_bound; lia).
      apply Z.div_le_upper_bound; nia. }
    unfold lenN. change (2^31) with 2147483648. lia.
  - unfold hm_len_bad. rewrite Hcs. unfold lenN. rewrite nat_N_Z, Hs, Z.eqb_refl. reflexivity.
  - unfold new_hm. rewrite <- Hb, <- Hl. rewrite Proofs.C11.accept_back by exact W. reflexivity.
Qed.

Definition wire_fuel (c : chunk) : nat :=
  length (raw_of (hMB (c_hm c))) + length (raw_of (hWS (c_hm c))) + 4 + length (c_bes c)
  + list_max (map (fun b => S (length (e_data b))) (c_bes c)) + 64 + 2 * length (c_secs c).

Definition chunk_ok (c d : chunk) : Prop :=
  Forall2 sec_ok (c_secs c) (c_secs d) /\ (length (c_secs c) <= 4096)%nat /\
  Forall (fun s => light_ok (s_sky s) /\ light_ok (s_blk s)) (c_secs c) /\
  hm_ok (lenN (c_secs d)) (hMB (c_hm c)) /\ hm_ok (lenN (c_secs d)) (hWS (c_hm c)) /\
  Forall bent_ok (c_bes c) /\ lenN (c_bes c) < 2^31 /\ lenN (chunk_data cont pc_write c) < 2^31.

Theorem wire_roundtrip (c d : chunk) fuel rest : chunk_ok c d -> (wire_fuel c <= fuel)%nat ->
  exists img c', chunk_write cont pc_write c = Some img /\
    run_flat (chunk_read cont pc_read fuel d) (img ++ rest) = FOk (c', lenN img) rest /\
    Forall3 sec_rel (c_secs c) (c_secs d) (c_secs c') /\
    hMB (c_hm c') = hMB (c_hm c) /\ hWS (c_hm c') = hWS (c_hm c) /\
    hWSWG (c_hm c') = hWSWG (c_hm d) /\ hOFWG (c_hm c') = hOFWG (c_hm d) /\
    hOF (c_hm c') = hOF (c_hm d) /\ hMBNL (c_hm c') = hMBNL (c_hm d) /\
    c_bes c' = c_bes c /\ c_status c' = c_status d.
Proof.
  intros (Hsecs & Hn & Hlight & Hmb & Hws & Hbes & Hnb & Hdata) Hfuel. unfold wire_fuel in Hfuel.
  destruct (hm_checks _ _ Hmb) as (Lmb & Bmb & Nmb). destruct (hm_checks _ _ Hws) as (Lws & Bws & Nws).
  unfold chunk_write.
  destruct (N.ltb_spec 4096 (lenN (c_secs c))) as [Hbig|_]; [unfold lenN in Hbig; lia|].
  destruct (secs_read_rt (c_secs c) (c_secs d) [] Hsecs) as (ss' & Rs & Rel).
  rewrite app_nil_r in Rs.
  eexists. eexists. split; [reflexivity|].
  set (ihm := hm_write (raw_of (hMB (c_hm c))) (raw_of (hWS (c_hm c)))).
  set (idata := fst (wr TByteArray (VBytes (chunk_data cont pc_write c) []))).
  set (ibes := fst (wcat (w_len LVarInt (Z.of_N (lenN (c_bes c)))) (w_seq be_write (map bent_val (c_bes c))))).
  set (ilight := fst (wr t_light (light_val (map s_sky (c_secs c)) (map s_blk (c_secs c))))).
  rewrite <- !app_assoc. unfold chunk_read.
  (* height maps *)
  assert (Rhm: robust (C01.tee (hm_read fuel))) by (apply tee_robust, hm_read_robust).
  rewrite (run_bind_ok _ _ _ _ _ Rhm (hm_tee_rt _ _ fuel _ Lmb Lws ltac:(lia))). cbn beta iota.
  (* data *)
  assert (Rd: run_flat (read_f fuel TByteArray (VBytes [] [])) (idata ++ ibes ++ ilight ++ rest)
              = FOk (VBytes (chunk_data cont pc_write c) [], lenN idata) (ibes ++ ilight ++ rest)).
  { apply (rt_bytearray (chunk_data cont pc_write c) (VBytes [] []) _ Hdata). }
  rewrite (run_bind_ok _ _ _ _ _ (read_f_robust fuel TByteArray _) Rd). cbn beta iota.
  (* block entities *)
  assert (Hel: Forall (elem_ok (be_read fuel) be_write (fun v => v)) (map bent_val (c_bes c))).
  { apply Forall_map. apply Forall_forall. intros b Hin. apply be_elem_ok.
    - rewrite Forall_forall in Hbes. apply Hbes. exact Hin.
    - assert (S (length (e_data b)) <= list_max (map (fun b => S (length (e_data b))) (c_bes c)))%nat.
      { pose proof (list_max_le (map (fun b => S (length (e_data b))) (c_bes c)) (list_max (map (fun b => S (length (e_data b))) (c_bes c)))) as [L _].
        specialize (L (le_n _)). rewrite Forall_forall in L. apply L. apply in_map_iff. exists b. auto. }
      lia. }
  destruct (ary_parametric (be_read fuel) be_write (fun v => v) (be_read_robust fuel) LVarInt bent_zero
              (map bent_val (c_bes c)) fuel (bes_val cont d) (ilight ++ rest) Hel
              ltac:(rewrite map_length; lia)
              ltac:(unfold lenN; rewrite map_length; fold (lenN (c_bes c)); unfold lenk_max; lia)) as (rs & Rb & Eb).
  rewrite !map_id in Eb. subst rs.
  assert (Eimg: fst (wcat (w_len LVarInt (Z.of_N (lenN (map bent_val (c_bes c))))) (w_seq be_write (map bent_val (c_bes c)))) = ibes).
  { unfold ibes, lenN. rewrite map_length. reflexivity. }
  rewrite Eimg in Rb.
  assert (Rary: robust (r_ary fuel LVarInt (be_read fuel) bent_zero (bes_val cont d))).
  { apply (read_f_robust fuel (TAry LVarInt TUnit)) || idtac.
    unfold r_ary. apply robust_bind; [apply r_len_robust|]. intros [z n]. cbn beta iota.
    destruct (z <? 0)%Z; [constructor|].
    apply robust_bind; [apply r_elems_robust; apply be_read_robust|]. intros [vs n2]. constructor. }
  rewrite (run_bind_ok _ _ _ _ _ Rary Rb). cbn beta iota.
  (* light *)
  destruct (light_dom (map s_sky (c_secs c)) (map s_blk (c_secs c))
              ltac:(apply Forall_map; eapply Forall_impl; [|exact Hlight]; intros s H; apply H)
              ltac:(apply Forall_map; eapply Forall_impl; [|exact Hlight]; intros s H; apply H)
              ltac:(rewrite map_length; lia) ltac:(rewrite map_length; lia)) as (Dl & Nl).
  rewrite !map_length in Nl.
  destruct (roundtrip_all t_light _ fuel Dl ltac:(lia) light_dest rest) as (rl & Rl & _).
  fold ilight in Rl.
  rewrite (run_bind_ok _ _ _ _ _ (read_f_robust fuel t_light light_dest) Rl). cbn beta iota.
  (* the checks and the two height maps *)
  cbn [fst snd]. rewrite Bmb. cbn [bind]. rewrite Bws. cbn [bind orb]. cbn iota.
  rewrite Nmb. cbn [bind]. rewrite Nws. cbn [bind].
  (* the sections *)
  cbn [bytes_of fst].
  unfold chunk_data. rewrite run_fast_eq. rewrite Rs.
  cbn [run_flat]. split.
  - rewrite !lenN_app, !N.add_assoc. unfold ihm. reflexivity.
  - cbn [c_secs c_hm c_bes c_status hMB hWS hWSWG hOFWG hOF hMBNL list_of fst].
    split; [exact Rel|]. repeat split; try reflexivity.
    rewrite map_map. rewrite <- (map_id (c_bes c)) at 2. apply map_ext. apply val_bent_val.
Qed.
End Wire.
