(* C14 / C15: the region file refines a map from chunk index to bytes; crash isolation *)
From Coq Require Import List Arith NArith ZArith Lia Bool ZifyN ZifyNat ZifyBool FMapPositive.
From GoMC Require Import Base.Bytes Model.C14 Proofs.C14_file Proofs.C14_alloc.
Import ListNotations.
Open Scope N_scope.

(* ---------- abstract store and specification-level reading ---------- *)
Definition amap := N -> option (list N).
Definition aupd (m : amap) (i : N) (d : list N) : amap := fun j => if j =? i then Some d else m j.
Definition aempty : amap := fun _ => None.

Definition spec_read (m : amap) (i : N) : rres :=
  match m i with
  | None => RNoSector
  | Some d => if lenN d =? 0 then RNoData else ROk d      (* a zero-length chunk is "no data" in the format *)
  end.

Definition word_at (f : file) (p : N) : N := unbe (bytes_at f p 4).

Lemma rd32_word_at f p : log_ok f -> rd32 f p = word_at f p.
Proof. intros H. unfold rd32, word_at. rewrite read_range_eq by exact H. reflexivity. Qed.

(* sector k lies in the run named by header word o *)
Definition run_of (o k : N) : Prop := sec_of o <= k < sec_of o + cnt_of o.

(* a write leaves a byte range alone *)
Definition leaves (w : wr) (p : N) (k : N) : Prop := wend w <= p \/ p + k <= wpos w.

Lemma bytes_at_app_leaves g f p k :
  Forall (fun w => leaves w p (N.of_nat k)) g -> bytes_at (g ++ f) p k = bytes_at f p k.
Proof.
  induction 1 as [|w g Hw Hg IH]; [reflexivity|].
  cbn [app]. rewrite bytes_at_cons_skip by exact Hw. exact IH.
Qed.

Lemma word_at_app_leaves g f p :
  Forall (fun w => leaves w p 4) g -> word_at (g ++ f) p = word_at f p.
Proof. intros H. unfold word_at. rewrite bytes_at_app_leaves; [reflexivity|exact H]. Qed.

Lemma Forall_2 {A} (P : A -> Prop) a b : P a -> P b -> Forall P [a; b].
Proof. intros. repeat constructor; assumption. Qed.
Lemma Forall_4 {A} (P : A -> Prop) a b c d : P a -> P b -> P c -> P d -> Forall P [a; b; c; d].
Proof. intros. repeat constructor; assumption. Qed.

(* ---------- the invariant ---------- *)
Record R (s : st) (m : amap) : Prop := {
  R_log : log_ok (img s);
  R_size : 8192 <= fsize (img s);
  R_hdr : forall i, i < 1024 -> word_at (img s) (4 * i) = getN (offs s) i;
  R_ts : forall i, i < 1024 -> word_at (img s) (4096 + 4 * i) = getN (tss s) i;
  R_absent : forall i, i < 1024 -> m i = None -> getN (offs s) i = 0;
  R_present : forall i d, i < 1024 -> m i = Some d ->
      let o := getN (offs s) i in
      2 <= sec_of o /\ 1 <= cnt_of o /\ lenN d + 4 <= 4096 * cnt_of o /\
      word_at (img s) (4096 * sec_of o) = lenN d /\
      bytes_at (img s) (4096 * sec_of o + 4) (length d) = d /\
      4096 * sec_of o + 4 + lenN d <= fsize (img s) /\
      sec_of o + cnt_of o <= hwm s;
  R_used : forall i k, i < 1024 -> getN (offs s) i <> 0 -> run_of (getN (offs s) i) k ->
      getB (used s) k = true;
  R_used01 : getB (used s) 0 = true /\ getB (used s) 1 = true;
  R_disj : forall i j k, i < 1024 -> j < 1024 -> i <> j ->
      getN (offs s) i <> 0 -> getN (offs s) j <> 0 ->
      run_of (getN (offs s) i) k -> run_of (getN (offs s) j) k -> False;
  R_hw : forall k, getB (used s) k = true -> k < hwm s;
  R_hwlim : hwm s <= sector_limit
}.

Lemma R_nonzero s m i d : R s m -> i < 1024 -> m i = Some d -> getN (offs s) i <> 0.
Proof.
  intros HR Hi Hm E. destruct (R_present s m HR i d Hi Hm) as (H2 & _). cbv zeta in H2.
  rewrite E in H2. unfold sec_of in H2. change (0 / 256) with 0 in H2. change (0 mod 2^24) with 0 in H2. lia.
Qed.

Lemma R_zero_iff s m i : R s m -> i < 1024 -> (m i = None <-> getN (offs s) i = 0).
Proof.
  intros HR Hi. split; [apply (R_absent s m HR i Hi)|].
  intros E. destruct (m i) as [d|] eqn:Em; [|reflexivity].
  exfalso. eapply R_nonzero; eauto.
Qed.

(* ---------- creation ---------- *)
Lemma bytes_at_fzeros_inside p n f q k : p <= q -> q + N.of_nat k <= p + n ->
  bytes_at (mkwr p (fzeros n) :: f) q k = repeat 0 k.
Proof.
  intros H1 H2. rewrite bytes_at_covered.
  - rewrite wdat_mkwr, fzeros_repeat.
    rewrite skipn_repeat', firstn_repeat'; [reflexivity|].
    rewrite wpos_mkwr. lia.
  - apply mkwr_ok.
  - rewrite wpos_mkwr. exact H1.
  - rewrite wend_mkwr, lenN_fzeros. exact H2.
Qed.

Lemma unbe_zeros4 : unbe (repeat 0 4) = 0. Proof. reflexivity. Qed.

Theorem R_create : R create aempty.
Proof.
  constructor; unfold create; cbn [img offs tss used hwm].
  - repeat constructor; apply mkwr_ok.
  - cbn [fsize]. rewrite !wlen_mkwr, !wend_mkwr, !lenN_fzeros. cbn. lia.
  - intros i Hi. rewrite getN_empty. unfold word_at.
    rewrite bytes_at_cons_skip by (rewrite wpos_mkwr; right; lia).
    rewrite bytes_at_fzeros_inside by lia. reflexivity.
  - intros i Hi. rewrite getN_empty. unfold word_at.
    rewrite bytes_at_fzeros_inside by lia. reflexivity.
  - intros i Hi _. apply getN_empty.
  - intros i d Hi H. discriminate.
  - intros i k Hi H. rewrite getN_empty in H. contradiction.
  - rewrite getB_set_other by lia. rewrite !getB_set_same. auto.
  - intros i j k Hi Hj Hij H. rewrite getN_empty in H. contradiction.
  - intros k H. rewrite !getB_set in H.
    destruct (N.eqb_spec k 1); [lia|]. destruct (N.eqb_spec k 0); [lia|].
    rewrite getB_empty in H. discriminate.
  - unfold sector_limit. change (2^23) with 8388608. lia.
Qed.

(* ---------- writes that cannot hurt the other chunks ---------- *)
(* w is safe for chunk i in state s: it leaves every other header slot and every other chunk's run alone *)
Definition safe_for (s : st) (i : N) (w : wr) : Prop :=
  forall j, j < 1024 -> j <> i ->
    leaves w (4 * j) 4 /\
    (getN (offs s) j <> 0 ->
       leaves w (4096 * sec_of (getN (offs s) j)) (4096 * cnt_of (getN (offs s) j))).

Lemma leaves_sub w p k p' k' : leaves w p k -> p <= p' -> p' + k' <= p + k -> leaves w p' k'.
Proof. unfold leaves. intros [H|H] H1 H2; [left|right]; lia. Qed.

(* a write inside [a, b) leaves [p, p+k) alone when the two do not meet *)
Lemma inside_leaves w a b p k : a <= wpos w -> wend w <= b -> (b <= p \/ p + k <= a) -> leaves w p k.
Proof. unfold leaves. intros H1 H2 [H|H]; [left|right]; lia. Qed.

(* any part of a safe write is safe (torn writes) *)
Lemma safe_for_sub s i w w' : wpos w <= wpos w' -> wend w' <= wend w -> safe_for s i w -> safe_for s i w'.
Proof.
  intros H1 H2 Hs j Hj Hji. destruct (Hs j Hj Hji) as [A B]. split.
  - unfold leaves in *. destruct A; [left|right]; lia.
  - intros Ho. specialize (B Ho). unfold leaves in *. destruct B; [left|right]; lia.
Qed.

(* what a reader of chunk j sees does not change under safe writes for i <> j *)
Lemma safe_header g s i j :
  Forall (safe_for s i) g -> j < 1024 -> j <> i -> word_at (g ++ img s) (4 * j) = word_at (img s) (4 * j).
Proof.
  intros Hg Hj Hji. apply word_at_app_leaves.
  eapply Forall_impl; [|exact Hg]. intros w Hw. destruct (Hw j Hj Hji) as [A _]. exact A.
Qed.

Lemma safe_run_bytes g s i j p k :
  Forall (safe_for s i) g -> j < 1024 -> j <> i -> getN (offs s) j <> 0 ->
  4096 * sec_of (getN (offs s) j) <= p ->
  p + N.of_nat k <= 4096 * sec_of (getN (offs s) j) + 4096 * cnt_of (getN (offs s) j) ->
  bytes_at (g ++ img s) p k = bytes_at (img s) p k.
Proof.
  intros Hg Hj Hji Ho H1 H2. apply bytes_at_app_leaves.
  eapply Forall_impl; [|exact Hg]. intros w Hw. destruct (Hw j Hj Hji) as [_ B].
  eapply leaves_sub; [exact (B Ho)| |]; lia.
Qed.

(* ---------- reading ---------- *)
Lemma cnt_of_lt o : cnt_of o < 256.
Proof. unfold cnt_of. apply N.mod_lt. discriminate. Qed.

Lemma read_at_ok f o d : log_ok f ->
  2 <= sec_of o -> 1 <= cnt_of o -> lenN d + 4 <= 4096 * cnt_of o ->
  word_at f (4096 * sec_of o) = lenN d ->
  bytes_at f (4096 * sec_of o + 4) (length d) = d ->
  4096 * sec_of o + 4 + lenN d <= fsize f ->
  read_at f o = if lenN d =? 0 then RNoData else ROk d.
Proof.
  intros Hlog Hs Hc Hfit Hlen Hdat Hsz. unfold read_at. cbv zeta.
  pose proof (cnt_of_lt o) as Hc2.
  assert ((sec_of o =? 0) = false) as -> by lia.
  assert ((4096 * cnt_of o <? 4) = false) as -> by lia.
  assert ((fsize f <? 4096 * sec_of o + 4) = false) as -> by lia.
  cbn [orb]. rewrite rd32_word_at, Hlen by exact Hlog.
  destruct (N.eqb_spec (lenN d) 0) as [E|E]; [reflexivity|].
  change (2^31) with 2147483648.
  assert ((2147483648 <=? lenN d) = false) as -> by lia.
  assert ((4096 * cnt_of o <? lenN d) = false) as -> by lia.
  assert ((4096 * cnt_of o - 4 <? lenN d) = false) as -> by lia.
  assert ((fsize f <? 4096 * sec_of o + 4 + lenN d) = false) as -> by lia.
  cbn [orb]. rewrite read_range_eq by exact Hlog.
  replace (N.to_nat (lenN d)) with (length d) by (unfold lenN; lia).
  rewrite Hdat. reflexivity.
Qed.

Lemma read_at_zero f : read_at f 0 = RNoSector.
Proof. reflexivity. Qed.

Theorem read_correct s m i : R s m -> i < 1024 ->
  read_at (img s) (getN (offs s) i) = spec_read m i.
Proof.
  intros HR Hi. unfold spec_read. destruct (m i) as [d|] eqn:Em.
  - destruct (R_present s m HR i d Hi Em) as (H1 & H2 & H3 & H4 & H5 & H6 & H7). cbv zeta in *.
    apply read_at_ok; auto. apply (R_log s m HR).
  - rewrite (R_absent s m HR i Hi Em). reflexivity.
Qed.

Theorem exist_correct s m i : R s m -> i < 1024 ->
  negb (getN (offs s) i =? 0) = match m i with Some _ => true | None => false end.
Proof.
  intros HR Hi. destruct (m i) as [d|] eqn:Em.
  - pose proof (R_nonzero s m i d HR Hi Em). destruct (N.eqb_spec (getN (offs s) i) 0); [contradiction|reflexivity].
  - rewrite (R_absent s m HR i Hi Em). reflexivity.
Qed.

(* the independent Anvil reading of the file agrees with the store *)
Theorem anvil_correct s m i : R s m -> i < 1024 -> anvil_chunk (img s) i = spec_read m i.
Proof.
  intros HR Hi. unfold anvil_chunk. rewrite rd32_word_at by apply (R_log s m HR).
  rewrite (R_hdr s m HR i Hi). apply read_correct; assumption.
Qed.

(* ---------- C15 core: safe writes for chunk i never change what chunk j <> i reads as ---------- *)
Theorem safe_writes_isolate s m i g j : R s m ->
  Forall (safe_for s i) g -> log_ok g -> j < 1024 -> j <> i ->
  anvil_chunk (g ++ img s) j = spec_read m j.
Proof.
  intros HR Hg Hlg Hj Hji.
  assert (Hlog : log_ok (g ++ img s)) by (apply Forall_app; split; [exact Hlg|apply (R_log s m HR)]).
  unfold anvil_chunk. rewrite rd32_word_at by exact Hlog.
  rewrite (safe_header g s i j Hg Hj Hji), (R_hdr s m HR j Hj).
  unfold spec_read. destruct (m j) as [d|] eqn:Em.
  - pose proof (R_nonzero s m j d HR Hj Em) as Hnz.
    destruct (R_present s m HR j d Hj Em) as (H1 & H2 & H3 & H4 & H5 & H6 & H7). cbv zeta in *.
    apply read_at_ok; auto.
    + unfold word_at. rewrite (safe_run_bytes g s i j) by (auto; lia). exact H4.
    + rewrite (safe_run_bytes g s i j) by (auto; unfold lenN in *; lia). exact H5.
    + pose proof (fsize_app_ge g (img s)). lia.
  - rewrite (R_absent s m HR j Hj Em). reflexivity.
Qed.

Lemma R_entry s m j : R s m -> j < 1024 -> getN (offs s) j <> 0 ->
  2 <= sec_of (getN (offs s) j) /\ 1 <= cnt_of (getN (offs s) j).
Proof.
  intros HR Hj Ho. destruct (m j) as [d|] eqn:Em.
  - destruct (R_present s m HR j d Hj Em) as (H1 & H2 & _). auto.
  - exfalso. apply Ho. apply (R_absent s m HR j Hj Em).
Qed.

Lemma R_runs_apart s m i j : R s m -> i < 1024 -> j < 1024 -> i <> j ->
  getN (offs s) i <> 0 -> getN (offs s) j <> 0 ->
  let oi := getN (offs s) i in let oj := getN (offs s) j in
  sec_of oj + cnt_of oj <= sec_of oi \/ sec_of oi + cnt_of oi <= sec_of oj.
Proof.
  intros HR Hi Hj Hij Hoi Hoj oi oj.
  destruct (R_entry s m i HR Hi Hoi) as [A1 A2]. destruct (R_entry s m j HR Hj Hoj) as [B1 B2].
  fold oi in A1, A2. fold oj in B1, B2.
  destruct (N.le_gt_cases (sec_of oj + cnt_of oj) (sec_of oi)) as [L|L]; [left; exact L|].
  destruct (N.le_gt_cases (sec_of oi + cnt_of oi) (sec_of oj)) as [L2|L2]; [right; exact L2|].
  exfalso. apply (R_disj s m HR i j (N.max (sec_of oi) (sec_of oj)) Hi Hj Hij Hoi Hoj);
    unfold run_of; fold oi; fold oj; lia.
Qed.

(* ---------- writing ---------- *)
Lemma idx_lt x z : x < 32 -> z < 32 -> idx x z < 1024.
Proof. unfold idx. lia. Qed.

Lemma need_bounds (d : list N) : let need := (lenN d + 4 + 4095) / 4096 in
  1 <= need /\ lenN d + 4 <= 4096 * need /\ 4096 * need < lenN d + 4 + 4096.
Proof. cbv zeta. lia. Qed.

Lemma unbe_be4 v : v < 2^32 -> unbe (be 4 v) = v.
Proof. intros H. rewrite unbe_be. change (256 ^ N.of_nat 4) with (2^32). apply N.mod_small. exact H. Qed.

Lemma be4_len v : length (be 4 v) = 4%nat. Proof. apply be_length. Qed.
Lemma be4_lenN v : lenN (be 4 v) = 4. Proof. unfold lenN. now rewrite be4_len. Qed.

(* the in-place overwrite *)
Lemma write_inplace s m i d : R s m -> i < 1024 ->
  let o := getN (offs s) i in
  let need := (lenN d + 4 + 4095) / 4096 in
  sec_of o <> 0 -> cnt_of o = need ->
  let ws := [ mkwr (4096 * sec_of o) (be 4 (lenN d)); mkwr (4096 * sec_of o + 4) d ] in
  R {| offs := offs s; tss := tss s; used := used s; hwm := hwm s; img := rev ws ++ img s |} (aupd m i d)
  /\ Forall (safe_for s i) ws.
Proof.
  intros HR Hi o need Hsec Hcnt ws.
  destruct (need_bounds d) as (Hn1 & Hn2 & Hn3). fold need in Hn1, Hn2, Hn3.
  assert (Ho : o <> 0).
  { intros E. apply Hsec. unfold o in *. rewrite E. reflexivity. }
  destruct (m i) as [dold|] eqn:Em; [|exfalso; apply Ho; apply (R_absent s m HR i Hi Em)].
  destruct (R_present s m HR i dold Hi Em) as (P1 & P2 & P3 & P4 & P5 & P6 & P7). cbv zeta in *. fold o in P1, P2, P3, P4, P5, P6, P7.
  (* both writes stay inside the chunk's own run *)
  assert (Hsafe : Forall (safe_for s i) ws).
  { unfold ws. apply Forall_2; intros j Hj Hji; split.
    - apply inside_leaves with (a := 4096 * sec_of o) (b := 4096 * sec_of o + 4);
        rewrite ?wpos_mkwr, ?wend_mkwr, ?be4_lenN; lia.
    - intros Hoj. unfold leaves. rewrite wpos_mkwr, wend_mkwr, be4_lenN.
      destruct (R_runs_apart s m i j HR Hi Hj ltac:(auto) Ho Hoj) as [L|L]; cbv zeta in L; fold o in L; [right|left]; lia.
    - apply inside_leaves with (a := 4096 * sec_of o) (b := 4096 * sec_of o + 4 + lenN d);
        rewrite ?wpos_mkwr, ?wend_mkwr; lia.
    - intros Hoj. unfold leaves. rewrite wpos_mkwr, wend_mkwr.
      destruct (R_runs_apart s m i j HR Hi Hj ltac:(auto) Ho Hoj) as [L|L]; cbv zeta in L; fold o in L; [right|left]; lia. }
  split; [|exact Hsafe].
  assert (Hlw : log_ok (rev ws)) by (unfold ws; cbn [rev app]; repeat constructor; apply mkwr_ok).
  pose proof (R_log s m HR) as Hlog.
  constructor; cbn [img offs tss used hwm].
  - apply Forall_app. split; assumption.
  - pose proof (fsize_app_ge (rev ws) (img s)). pose proof (R_size s m HR). lia.
  - (* header unchanged: both writes are at >= 8192 *)
    intros j Hj. rewrite <- (R_hdr s m HR j Hj). apply word_at_app_leaves.
    unfold ws. cbn [rev app]. apply Forall_2; unfold leaves; rewrite wpos_mkwr; right; lia.
  - intros j Hj. rewrite <- (R_ts s m HR j Hj). apply word_at_app_leaves.
    unfold ws. cbn [rev app]. apply Forall_2; unfold leaves; rewrite wpos_mkwr; right; lia.
  - intros j Hj Hm. unfold aupd in Hm. destruct (N.eqb_spec j i); [discriminate|]. apply (R_absent s m HR j Hj Hm).
  - intros j dj Hj Hm. unfold aupd in Hm. cbv zeta. destruct (N.eqb_spec j i) as [->|Hji].
    + inversion Hm; subst dj. fold o. unfold ws. cbn [rev app].
      repeat split; try lia.
      * unfold word_at. rewrite bytes_at_cons_skip by (rewrite wpos_mkwr; right; lia).
        rewrite <- (be4_len (lenN d)). rewrite bytes_at_cons_exact. apply unbe_be4.
        change (2^32) with 4294967296. pose proof (cnt_of_lt o). lia.
      * apply bytes_at_cons_exact.
      * destruct (N.eq_dec (lenN d) 0) as [E|E].
        -- replace (4096 * sec_of o + 4 + lenN d) with (4096 * sec_of o + 4) by lia.
           pose proof (fsize_cons_ge (mkwr (4096 * sec_of o + 4) d) (mkwr (4096 * sec_of o) (be 4 (lenN d)) :: img s)).
           pose proof (fsize_cons_end (mkwr (4096 * sec_of o) (be 4 (lenN d))) (img s)) as H9.
           rewrite wlen_mkwr, wend_mkwr, be4_lenN in H9. specialize (H9 ltac:(lia)). lia.
        -- pose proof (fsize_cons_end (mkwr (4096 * sec_of o + 4) d) (mkwr (4096 * sec_of o) (be 4 (lenN d)) :: img s)) as H9.
           rewrite wlen_mkwr, wend_mkwr in H9. specialize (H9 E). lia.
    + pose proof (R_nonzero s m j dj HR Hj Hm) as Hoj.
      destruct (R_present s m HR j dj Hj Hm) as (Q1 & Q2 & Q3 & Q4 & Q5 & Q6 & Q7). cbv zeta in *.
      assert (Hrs : Forall (safe_for s i) (rev ws)) by (apply Forall_rev; exact Hsafe).
      repeat split; auto.
      * unfold word_at. rewrite (safe_run_bytes (rev ws) s i j) by (auto; lia). exact Q4.
      * rewrite (safe_run_bytes (rev ws) s i j) by (auto; unfold lenN in *; lia). exact Q5.
      * pose proof (fsize_app_ge (rev ws) (img s)). lia.
  - apply (R_used s m HR).
  - apply (R_used01 s m HR).
  - apply (R_disj s m HR).
  - apply (R_hw s m HR).
  - apply (R_hwlim s m HR).
Qed.

(* the allocating path *)
Section Alloc.
  Variables (s : st) (m : amap) (i : N) (d : list N) (now n' : N).
  Hypothesis HR : R s m.
  Hypothesis Hi : i < 1024.
  Let o := getN (offs s) i.
  Let need := (lenN d + 4 + 4095) / 4096.
  Hypothesis Hneed : need < 256.
  Let u1 := mark (used s) (sec_of o) (N.to_nat (cnt_of o)) false.
  Hypothesis Hfree : forall j, j < need -> getB u1 (n' + j) = false.
  Hypothesis Hlim : n' + need < sector_limit.
  Let u2 := mark u1 n' (N.to_nat need) true.
  Let o' := n' * 256 + need.
  Let ws := [ mkwr (4096 + 4 * i) (be 4 (now mod 2^32)); mkwr (4 * i) (be 4 o');
              mkwr (4096 * n') (be 4 (lenN d)); mkwr (4096 * n' + 4) d ].

  Lemma alloc_need : 1 <= need /\ lenN d + 4 <= 4096 * need.
  Proof. destruct (need_bounds d) as (A & B & _). auto. Qed.

  Lemma alloc_old_entry : o = 0 \/ (2 <= sec_of o /\ 1 <= cnt_of o).
  Proof.
    destruct (N.eq_dec o 0) as [E|E]; [left; exact E|right]. apply (R_entry s m i HR Hi E).
  Qed.

  Lemma alloc_u1_spec k :
    getB u1 k = if (sec_of o <=? k) && (k <? sec_of o + cnt_of o) then false else getB (used s) k.
  Proof. unfold u1. rewrite mark_spec. rewrite N2Nat.id. reflexivity. Qed.

  Lemma alloc_u1_01 : getB u1 0 = true /\ getB u1 1 = true.
  Proof.
    destruct (R_used01 s m HR) as [A B]. rewrite !alloc_u1_spec.
    destruct alloc_old_entry as [E|[E1 E2]].
    - rewrite E. change (sec_of 0) with 0. change (cnt_of 0) with 0. cbn. auto.
    - assert ((sec_of o <=? 0) = false) as -> by lia.
      assert ((sec_of o <=? 1) = false) as -> by lia. cbn [andb]. auto.
  Qed.

  Lemma alloc_n'_ge2 : 2 <= n'.
  Proof.
    destruct alloc_need as [N1 _]. destruct alloc_u1_01 as [A B].
    pose proof (Hfree 0 ltac:(lia)) as F. rewrite N.add_0_r in F.
    destruct (N.eq_dec n' 0) as [->|]; [congruence|].
    destruct (N.eq_dec n' 1) as [->|]; [congruence|]. lia.
  Qed.

  Lemma alloc_other_used j k : j < 1024 -> j <> i -> getN (offs s) j <> 0 ->
    run_of (getN (offs s) j) k -> getB u1 k = true.
  Proof.
    intros Hj Hji Hoj Hk. rewrite alloc_u1_spec.
    rewrite (R_used s m HR j k Hj Hoj Hk).
    destruct (N.eq_dec o 0) as [E|E].
    - rewrite E. change (sec_of 0) with 0. change (cnt_of 0) with 0.
      destruct (0 <=? k); destruct (k <? 0 + 0) eqn:E2; cbn [andb]; auto. lia.
    - destruct (R_runs_apart s m i j HR Hi Hj ltac:(auto) E Hoj) as [L|L]; cbv zeta in L; fold o in L;
        unfold run_of in Hk;
        destruct (N.leb_spec (sec_of o) k); destruct (N.ltb_spec k (sec_of o + cnt_of o)); cbn [andb]; auto; lia.
  Qed.

  Lemma alloc_apart j : j < 1024 -> j <> i -> getN (offs s) j <> 0 ->
    let oj := getN (offs s) j in n' + need <= sec_of oj \/ sec_of oj + cnt_of oj <= n'.
  Proof.
    intros Hj Hji Hoj oj. destruct alloc_need as [N1 _].
    destruct (R_entry s m j HR Hj Hoj) as [B1 B2]. fold oj in B1, B2.
    destruct (N.le_gt_cases (n' + need) (sec_of oj)) as [L|L]; [left; exact L|].
    destruct (N.le_gt_cases (sec_of oj + cnt_of oj) n') as [L2|L2]; [right; exact L2|].
    exfalso. set (k := N.max n' (sec_of oj)).
    assert (T : getB u1 k = true) by (apply (alloc_other_used j k Hj Hji Hoj); unfold run_of; fold oj; unfold k; lia).
    assert (F : getB u1 k = false).
    { replace k with (n' + (k - n')) by (unfold k; lia). apply Hfree. unfold k. lia. }
    congruence.
  Qed.

  Lemma alloc_o' : o' < 2^32 /\ sec_of o' = n' /\ cnt_of o' = need.
  Proof.
    unfold sector_limit in Hlim.
    destruct (sec_cnt_of n' need ltac:(lia) Hneed) as [A B]. fold o' in A, B.
    repeat split; auto. unfold o'. change (2^23) with 8388608 in Hlim. change (2^32) with 4294967296. lia.
  Qed.

  Lemma alloc_safe : Forall (safe_for s i) ws.
  Proof.
    destruct alloc_need as [N1 N2]. pose proof alloc_n'_ge2 as N3.
    unfold ws. apply Forall_4; intros j Hj Hji; split.
    - unfold leaves. rewrite wpos_mkwr, wend_mkwr, be4_lenN. right. lia.
    - intros Hoj. destruct (R_entry s m j HR Hj Hoj) as [B1 B2].
      unfold leaves. rewrite wpos_mkwr, wend_mkwr, be4_lenN. left. lia.
    - unfold leaves. rewrite wpos_mkwr, wend_mkwr, be4_lenN. lia.
    - intros Hoj. destruct (R_entry s m j HR Hj Hoj) as [B1 B2].
      unfold leaves. rewrite wpos_mkwr, wend_mkwr, be4_lenN. left. lia.
    - unfold leaves. rewrite wpos_mkwr, wend_mkwr, be4_lenN. right. lia.
    - intros Hoj. destruct (alloc_apart j Hj Hji Hoj) as [L|L]; cbv zeta in L;
        unfold leaves; rewrite wpos_mkwr, wend_mkwr, be4_lenN; [left|right]; lia.
    - unfold leaves. rewrite wpos_mkwr, wend_mkwr. right. lia.
    - intros Hoj. destruct (alloc_apart j Hj Hji Hoj) as [L|L]; cbv zeta in L;
        unfold leaves; rewrite wpos_mkwr, wend_mkwr; [left|right]; lia.
  Qed.

  Lemma alloc_R :
    R {| offs := setN (offs s) i o'; tss := setN (tss s) i (now mod 2^32); used := u2;
         hwm := N.max (hwm s) (n' + need); img := rev ws ++ img s |} (aupd m i d).
  Proof.
    destruct alloc_need as [N1 N2]. pose proof alloc_n'_ge2 as N3.
    destruct alloc_o' as (O1 & O2 & O3).
    pose proof alloc_safe as Hsafe.
    assert (Hrs : Forall (safe_for s i) (rev ws)) by (apply Forall_rev; exact Hsafe).
    assert (Hlw : log_ok (rev ws)) by (unfold ws; cbn [rev app]; repeat constructor; apply mkwr_ok).
    pose proof (R_log s m HR) as Hlog.
    assert (Hu2 : forall k, getB u2 k = if (n' <=? k) && (k <? n' + need) then true else getB u1 k).
    { intros k. unfold u2. rewrite mark_spec, N2Nat.id. reflexivity. }
    constructor; cbn [img offs tss used hwm].
    - apply Forall_app. split; assumption.
    - pose proof (fsize_app_ge (rev ws) (img s)). pose proof (R_size s m HR). lia.
    - (* header *)
      intros j Hj. destruct (N.eq_dec j i) as [->|Hji].
      + rewrite getN_set_same. unfold ws. cbn [rev app]. unfold word_at.
        rewrite !bytes_at_cons_skip by (rewrite wpos_mkwr; right; lia).
        rewrite <- (be4_len o'). rewrite bytes_at_cons_exact. apply unbe_be4. exact O1.
      + rewrite getN_set_other by exact Hji. rewrite (safe_header (rev ws) s i j Hrs Hj Hji).
        apply (R_hdr s m HR j Hj).
    - (* timestamps *)
      intros j Hj. destruct (N.eq_dec j i) as [->|Hji].
      + rewrite getN_set_same. unfold ws. cbn [rev app]. unfold word_at.
        rewrite !bytes_at_cons_skip by (rewrite wpos_mkwr; right; lia).
        rewrite bytes_at_cons_skip by (rewrite wend_mkwr, be4_lenN; left; lia).
        rewrite <- (be4_len (now mod 2^32)). rewrite bytes_at_cons_exact. apply unbe_be4.
        apply N.mod_lt. discriminate.
      + rewrite getN_set_other by exact Hji. rewrite <- (R_ts s m HR j Hj).
        apply word_at_app_leaves. unfold ws. cbn [rev app].
        apply Forall_4; unfold leaves; rewrite wpos_mkwr, wend_mkwr, ?be4_lenN; lia.
    - intros j Hj Hm. unfold aupd in Hm. destruct (N.eqb_spec j i); [discriminate|].
      rewrite getN_set_other by assumption. apply (R_absent s m HR j Hj Hm).
    - intros j dj Hj Hm. unfold aupd in Hm. cbv zeta. destruct (N.eqb_spec j i) as [->|Hji].
      + inversion Hm; subst dj. rewrite getN_set_same, O2, O3. unfold ws. cbn [rev app].
        repeat split; try lia.
        * unfold word_at. rewrite bytes_at_cons_skip by (rewrite wpos_mkwr; right; lia).
          rewrite <- (be4_len (lenN d)). rewrite bytes_at_cons_exact. apply unbe_be4.
          change (2^32) with 4294967296. lia.
        * apply bytes_at_cons_exact.
        * destruct (N.eq_dec (lenN d) 0) as [E|E].
          -- replace (4096 * n' + 4 + lenN d) with (4096 * n' + 4) by lia.
             match goal with |- _ <= fsize (?a :: ?b :: ?f) =>
               pose proof (fsize_cons_ge a (b :: f)); pose proof (fsize_cons_end b f) as H9 end.
             rewrite wlen_mkwr, wend_mkwr, be4_lenN in H9. specialize (H9 ltac:(lia)). lia.
          -- match goal with |- _ <= fsize (?a :: ?f) => pose proof (fsize_cons_end a f) as H9 end.
             rewrite wlen_mkwr, wend_mkwr in H9. specialize (H9 E). lia.
      + rewrite getN_set_other by exact Hji.
        pose proof (R_nonzero s m j dj HR Hj Hm) as Hoj.
        destruct (R_present s m HR j dj Hj Hm) as (Q1 & Q2 & Q3 & Q4 & Q5 & Q6 & Q7). cbv zeta in *.
        repeat split; auto.
        * unfold word_at. rewrite (safe_run_bytes (rev ws) s i j) by (auto; lia). exact Q4.
        * rewrite (safe_run_bytes (rev ws) s i j) by (auto; unfold lenN in *; lia). exact Q5.
        * pose proof (fsize_app_ge (rev ws) (img s)). lia.
        * lia.
    - (* used covers every run *)
      intros j k Hj Hoj Hk. rewrite Hu2. destruct (N.eq_dec j i) as [->|Hji].
      + rewrite getN_set_same in Hk. unfold run_of in Hk. rewrite O2, O3 in Hk.
        assert ((n' <=? k) = true) as -> by lia. assert ((k <? n' + need) = true) as -> by lia. reflexivity.
      + rewrite getN_set_other in Hk, Hoj by exact Hji.
        rewrite (alloc_other_used j k Hj Hji Hoj Hk). destruct ((n' <=? k) && (k <? n' + need)); reflexivity.
    - destruct alloc_u1_01 as [A B]. rewrite !Hu2, A, B.
      split; destruct (_ && _); reflexivity.
    - (* disjointness *)
      intros a b k Ha Hb Hab Hoa Hob Hka Hkb.
      destruct (N.eq_dec a i) as [->|Hai]; destruct (N.eq_dec b i) as [->|Hbi]; try contradiction.
      + rewrite getN_set_same in Hka. rewrite getN_set_other in Hkb, Hob by (intros E; apply Hab; now rewrite E).
        unfold run_of in *. rewrite O2, O3 in Hka.
        destruct (alloc_apart b Hb ltac:(auto) Hob) as [L|L]; cbv zeta in L; lia.
      + rewrite getN_set_same in Hkb. rewrite getN_set_other in Hka, Hoa by exact Hai.
        unfold run_of in *. rewrite O2, O3 in Hkb.
        destruct (alloc_apart a Ha Hai Hoa) as [L|L]; cbv zeta in L; lia.
      + rewrite getN_set_other in Hka, Hoa by exact Hai. rewrite getN_set_other in Hkb, Hob by exact Hbi.
        apply (R_disj s m HR a b k Ha Hb Hab Hoa Hob Hka Hkb).
    - intros k Hk. rewrite Hu2 in Hk.
      destruct (N.leb_spec n' k); destruct (N.ltb_spec k (n' + need)); cbn [andb] in Hk; try lia;
        rewrite alloc_u1_spec in Hk;
        destruct ((sec_of o <=? k) && (k <? sec_of o + cnt_of o)); try discriminate;
        pose proof (R_hw s m HR k Hk); lia.
    - pose proof (R_hwlim s m HR). lia.
  Qed.
End Alloc.

Definition write_post (s : st) (m : amap) (i : N) (d : list N) (s' : st) (ws : list wr) (r : wres) : Prop :=
  match r with
  | WOk => R s' (aupd m i d) /\ Forall (safe_for s i) ws /\ log_ok ws /\ img s' = rev ws ++ img s
           /\ lenN d + 4 <= 255 * 4096 /\ hwm s' <= hwm s + 255
  | WTooLarge => s' = s /\ ws = [] /\ 255 * 4096 < lenN d + 4
  | WOutside => s' = s /\ ws = [] /\ sector_limit <= hwm s + 255
  end.

Theorem write_correct s m x z d now s' ws r :
  R s m -> x < 32 -> z < 32 ->
  write_sector s x z d now = (s', ws, r) -> write_post s m (idx x z) d s' ws r.
Proof.
  intros HR Hx Hz. pose proof (idx_lt x z Hx Hz) as Hi.
  unfold write_sector. rewrite flen_lenN. cbv zeta.
  set (i := idx x z) in *. set (o := getN (offs s) i). set (need := (lenN d + 4 + 4095) / 4096).
  destruct (need_bounds d) as (N1 & N2 & N3). fold need in N1, N2, N3.
  destruct (N.leb_spec 256 need) as [Hbig|Hsmall].
  { intros E. inversion E; subst. cbn [write_post]. repeat split; auto. lia. }
  destruct (negb (sec_of o =? 0) && (cnt_of o =? need)) eqn:Einp.
  - (* in place *)
    intros E. inversion E; subst s' ws r. clear E.
    apply andb_true_iff in Einp. destruct Einp as [E1 E2].
    assert (Hsec : sec_of o <> 0) by (destruct (N.eqb_spec (sec_of o) 0); [discriminate|auto]).
    apply N.eqb_eq in E2.
    destruct (write_inplace s m i d HR Hi Hsec E2) as [A B].
    cbn. split; [exact A|]. split; [exact B|]. split; [apply Forall_2; apply mkwr_ok|].
    split; [reflexivity|]. split; lia.
  - (* allocate *)
    set (u1 := mark (used s) (sec_of o) (N.to_nat (cnt_of o)) false).
    assert (HE : forall k, hwm s <= k -> getB u1 k = false).
    { intros k Hk. unfold u1, o. rewrite (alloc_u1_spec s i k).
      destruct ((sec_of (getN (offs s) i) <=? k) && (k <? sec_of (getN (offs s) i) + cnt_of (getN (offs s) i))); [reflexivity|].
      destruct (getB (used s) k) eqn:Eu; [|reflexivity]. pose proof (R_hw s m HR k Eu). lia. }
    destruct (find_space_spec (hwm s) u1 need HE (N.to_nat (hwm s + need + 2)) 0 0
                ltac:(lia) ltac:(lia) ltac:(intros j Hj; lia) ltac:(lia)) as (n' & Hfs & Hfree & _ & Hn').
    rewrite Hfs.
    destruct (N.leb_spec sector_limit (n' + need)) as [Hout|Hin].
    { intros E. inversion E; subst. cbn [write_post]. repeat split; auto. lia. }
    intros E. inversion E; subst s' ws r. clear E.
    cbn. split; [apply (alloc_R s m i d now n' HR Hi Hsmall Hfree Hin)|].
    split; [apply (alloc_safe s m i d now n' HR Hi Hsmall Hfree Hin)|].
    split; [apply Forall_4; apply mkwr_ok|]. split; [reflexivity|]. split; lia.
Qed.

(* ---------- padding ---------- *)
Theorem pad_correct s m s' ws : R s m -> pad s = (s', ws) -> R s' m /\ fsize (img s') mod 4096 = 0.
Proof.
  intros HR. unfold pad. cbv zeta.
  remember (fsize (img s)) as size eqn:Esize.
  remember (mkwr size (fzeros (4096 - size mod 4096))) as w eqn:Ew.
  destruct (N.eqb_spec (size mod 4096) 0) as [E|E].
  { intros H. inversion H; subst. auto. }
  intros H. inversion H; subst s' ws. clear H.
  pose proof (R_size s m HR) as Hsz. rewrite <- Esize in Hsz.
  assert (Hlen : wlen w = 4096 - size mod 4096) by (rewrite Ew, wlen_mkwr; apply lenN_fzeros).
  assert (Hpos : wpos w = size) by (rewrite Ew; reflexivity).
  split.
  - constructor; cbn [img offs tss used hwm].
    + constructor; [rewrite Ew; apply mkwr_ok|apply (R_log s m HR)].
    + pose proof (fsize_cons_ge w (img s)). rewrite <- Esize in H. lia.
    + intros j Hj. rewrite <- (R_hdr s m HR j Hj). unfold word_at.
      rewrite bytes_at_cons_skip; [reflexivity|]. right. rewrite Hpos. lia.
    + intros j Hj. rewrite <- (R_ts s m HR j Hj). unfold word_at.
      rewrite bytes_at_cons_skip; [reflexivity|]. right. rewrite Hpos. lia.
    + apply (R_absent s m HR).
    + intros j dj Hj Hm. destruct (R_present s m HR j dj Hj Hm) as (Q1 & Q2 & Q3 & Q4 & Q5 & Q6 & Q7).
      cbv zeta in *. rewrite <- Esize in Q6. repeat split; auto.
      * unfold word_at. rewrite bytes_at_cons_skip; [exact Q4|]. right. rewrite Hpos. lia.
      * rewrite bytes_at_cons_skip; [exact Q5|]. right. rewrite Hpos. unfold lenN in *. lia.
      * pose proof (fsize_cons_ge w (img s)). rewrite <- Esize in H. lia.
    + apply (R_used s m HR).
    + apply (R_used01 s m HR).
    + apply (R_disj s m HR).
    + apply (R_hw s m HR).
    + apply (R_hwlim s m HR).
  - cbn [img fsize]. rewrite <- Esize. rewrite Hlen. unfold wend. rewrite Hpos, Hlen.
    assert (size mod 4096 < 4096) by (apply N.mod_lt; discriminate).
    destruct (N.eqb_spec (4096 - size mod 4096) 0); [lia|].
    replace (N.max (size + (4096 - size mod 4096)) size) with (size + (4096 - size mod 4096)) by lia.
    assert (size = 4096 * (size / 4096) + size mod 4096) by (apply N.div_mod; discriminate).
    replace (size + (4096 - size mod 4096)) with ((size / 4096 + 1) * 4096) by lia.
    apply N.mod_mul. discriminate.
Qed.

(* ---------- loading ---------- *)
Lemma bytes_at_4 f p : bytes_at f p 4 = [byte_at f (p + 0); byte_at f (p + 1); byte_at f (p + 2); byte_at f (p + 3)].
Proof. reflexivity. Qed.

Lemma words_bytes_at f : forall n p,
  words (bytes_at f p (4 * n)) n = map (fun k => word_at f (p + 4 * N.of_nat k)) (seq 0 n).
Proof.
  induction n as [|n IH]; intros p; [reflexivity|].
  replace (4 * S n)%nat with (4 + 4 * n)%nat by lia.
  rewrite bytes_at_app. rewrite bytes_at_4. cbn [app words].
  change (N.of_nat 4) with 4. rewrite IH. cbn [seq map]. f_equal.
  - unfold word_at. rewrite bytes_at_4. repeat f_equal; lia.
  - rewrite <- seq_shift, map_map. apply map_ext. intros k. f_equal. lia.
Qed.

Lemma tab_of_spec ws : forall i0 m j,
  getN (tab_of ws i0 m) j =
  if (i0 <=? j) && (j <? i0 + lenN ws) then nth (N.to_nat (j - i0)) ws 0 else getN m j.
Proof.
  induction ws as [|w t IH]; intros i0 m j; cbn [tab_of].
  - rewrite lenN_nil. destruct (N.leb_spec i0 j); destruct (N.ltb_spec j (i0 + 0)); cbn [andb]; auto; lia.
  - rewrite IH, lenN_cons.
    destruct (N.leb_spec (i0 + 1) j); destruct (N.ltb_spec j (i0 + 1 + lenN t));
    destruct (N.leb_spec i0 j); destruct (N.ltb_spec j (i0 + (1 + lenN t))); cbn [andb]; try lia.
    + replace (N.to_nat (j - i0)) with (S (N.to_nat (j - (i0 + 1)))) by lia. reflexivity.
    + rewrite getN_set_other by lia. reflexivity.
    + assert (j = i0) by lia. subst j. rewrite getN_set_same, N.sub_diag. reflexivity.
    + rewrite getN_set_other by lia. reflexivity.
Qed.

Lemma load_tab_spec f base j : log_ok f -> j < 1024 ->
  getN (load_tab f base) j = word_at f (base + 4 * j).
Proof.
  intros Hlog Hj. unfold load_tab. rewrite read_range_eq by exact Hlog.
  change (N.to_nat 4096) with (4 * 1024)%nat. rewrite words_bytes_at, tab_of_spec.
  unfold lenN. rewrite map_length, seq_length. change (N.of_nat 1024) with 1024.
  assert ((0 <=? j) = true) as -> by lia. assert ((j <? 0 + 1024) = true) as -> by lia. cbn [andb].
  rewrite N.sub_0_r.
  rewrite (nth_indep _ 0 (word_at f (base + 4 * N.of_nat 0))) by (rewrite map_length, seq_length; lia).
  rewrite (map_nth (fun k => word_at f (base + 4 * N.of_nat k))).
  rewrite seq_nth by lia. f_equal. lia.
Qed.


Section LoadFolds.
  Variable o : nmap.
  Let ustep := fun (u : bmap) (i : nat) => let w := getN o (N.of_nat i) in
                 if sec_of w =? 0 then u else mark u (sec_of w) (N.to_nat (cnt_of w)) true.
  Let hstep := fun (h : N) (i : nat) => let w := getN o (N.of_nat i) in
                 if sec_of w =? 0 then h else N.max h (sec_of w + cnt_of w).

  Lemma ustep_mono u i k : getB u k = true -> getB (ustep u i) k = true.
  Proof.
    intros H. unfold ustep. cbv zeta. destruct (sec_of (getN o (N.of_nat i)) =? 0); [exact H|].
    rewrite mark_spec, H. destruct (_ && _); reflexivity.
  Qed.

  Lemma ufold_mono l : forall u k, getB u k = true -> getB (fold_left ustep l u) k = true.
  Proof. induction l as [|i l IH]; intros u k H; cbn [fold_left]; [exact H|]. apply IH, ustep_mono, H. Qed.

  Lemma ufold_covers l : forall u i k, In i l ->
    sec_of (getN o (N.of_nat i)) <> 0 -> run_of (getN o (N.of_nat i)) k ->
    getB (fold_left ustep l u) k = true.
  Proof.
    induction l as [|a l IH]; intros u i k Hin Hs Hk; [destruct Hin|].
    cbn [fold_left]. destruct Hin as [->|Hin]; [|eapply IH; eauto].
    apply ufold_mono. unfold ustep. cbv zeta.
    destruct (N.eqb_spec (sec_of (getN o (N.of_nat i))) 0); [contradiction|].
    rewrite mark_spec, N2Nat.id. unfold run_of in Hk.
    assert ((sec_of (getN o (N.of_nat i)) <=? k) = true) as -> by lia.
    assert ((k <? sec_of (getN o (N.of_nat i)) + cnt_of (getN o (N.of_nat i))) = true) as -> by lia.
    reflexivity.
  Qed.

  Lemma ufold_sound l : forall u k, getB (fold_left ustep l u) k = true ->
    getB u k = true \/ exists i, In i l /\ sec_of (getN o (N.of_nat i)) <> 0 /\ run_of (getN o (N.of_nat i)) k.
  Proof.
    induction l as [|a l IH]; intros u k H; cbn [fold_left] in H; [left; exact H|].
    destruct (IH _ _ H) as [H1|(i & Hi & Hs & Hk)].
    - unfold ustep in H1. cbv zeta in H1.
      destruct (N.eqb_spec (sec_of (getN o (N.of_nat a))) 0) as [E|E]; [left; exact H1|].
      rewrite mark_spec, N2Nat.id in H1.
      destruct (N.leb_spec (sec_of (getN o (N.of_nat a))) k);
      destruct (N.ltb_spec k (sec_of (getN o (N.of_nat a)) + cnt_of (getN o (N.of_nat a)))); cbn [andb] in H1;
        try (left; exact H1).
      right. exists a. split; [left; reflexivity|]. split; [exact E|]. unfold run_of. lia.
    - right. exists i. split; [right; exact Hi|auto].
  Qed.

  Lemma hfold_ge l : forall h, h <= fold_left hstep l h.
  Proof.
    induction l as [|a l IH]; intros h; cbn [fold_left]; [lia|].
    specialize (IH (hstep h a)). unfold hstep in *. cbv zeta in *.
    destruct (sec_of (getN o (N.of_nat a)) =? 0); lia.
  Qed.

  Lemma hfold_covers l : forall h i, In i l -> sec_of (getN o (N.of_nat i)) <> 0 ->
    sec_of (getN o (N.of_nat i)) + cnt_of (getN o (N.of_nat i)) <= fold_left hstep l h.
  Proof.
    induction l as [|a l IH]; intros h i Hin Hs; [destruct Hin|].
    cbn [fold_left]. destruct Hin as [->|Hin]; [|apply IH; auto].
    pose proof (hfold_ge l (hstep h i)) as G.
    assert (E : sec_of (getN o (N.of_nat i)) + cnt_of (getN o (N.of_nat i)) <= hstep h i).
    { unfold hstep. cbv zeta. destruct (N.eqb_spec (sec_of (getN o (N.of_nat i))) 0); [contradiction|]. lia. }
    lia.
  Qed.

  Lemma hfold_le l B : (forall i, In i l -> sec_of (getN o (N.of_nat i)) <> 0 ->
      sec_of (getN o (N.of_nat i)) + cnt_of (getN o (N.of_nat i)) <= B) ->
    forall h, h <= B -> fold_left hstep l h <= B.
  Proof.
    induction l as [|a l IH]; intros HB h Hh; cbn [fold_left]; [exact Hh|].
    apply IH; [intros i Hi; apply HB; right; exact Hi|].
    unfold hstep. cbv zeta. destruct (N.eqb_spec (sec_of (getN o (N.of_nat a))) 0); [exact Hh|].
    specialize (HB a ltac:(left; reflexivity) n). lia.
  Qed.
End LoadFolds.

Lemma in_seq_1024 j : j < 1024 -> In (N.to_nat j) (seq 0 1024).
Proof. intros H. apply in_seq. lia. Qed.

(* the state Load builds from tables that agree with the in-memory ones; stated over an arbitrary index
   list l covering 0..1023 so that nothing in the proof (or its re-check at Qed) can unfold seq 0 1024 *)
Lemma R_reload_gen s m o t (l : list nat) :
  (forall j, j < 1024 -> In (N.to_nat j) l) -> (forall i, In i l -> (i < 1024)%nat) ->
  R s m ->
  (forall j, j < 1024 -> getN o j = getN (offs s) j) ->
  (forall j, j < 1024 -> getN t j = getN (tss s) j) ->
  R {| offs := o; tss := t;
       used := fold_left (fun u i => let w := getN o (N.of_nat i) in
                        if sec_of w =? 0 then u else mark u (sec_of w) (N.to_nat (cnt_of w)) true)
                 l (setB (setB (PositiveMap.empty bool) 0 true) 1 true);
       hwm := fold_left (fun h i => let w := getN o (N.of_nat i) in
                        if sec_of w =? 0 then h else N.max h (sec_of w + cnt_of w)) l 2;
       img := img s |} m.
Proof.
  intros Hl1 Hl2 HR Ho Ht. pose proof (R_log s m HR) as Hlog. pose proof (R_size s m HR) as Hsz.
  assert (Hoi : forall i, In i l -> getN o (N.of_nat i) = getN (offs s) (N.of_nat i)).
  { intros i Hi. apply Hl2 in Hi. apply Ho. lia. }
  constructor; cbn [img offs tss used hwm].
  - exact Hlog.
  - exact Hsz.
  - intros j Hj. rewrite Ho by exact Hj. apply (R_hdr s m HR j Hj).
  - intros j Hj. rewrite Ht by exact Hj. apply (R_ts s m HR j Hj).
  - intros j Hj Hm. rewrite Ho by exact Hj. apply (R_absent s m HR j Hj Hm).
  - intros j dj Hj Hm. rewrite Ho by exact Hj.
    pose proof (R_nonzero s m j dj HR Hj Hm) as Hnz.
    destruct (R_present s m HR j dj Hj Hm) as (Q1 & Q2 & Q3 & Q4 & Q5 & Q6 & Q7). cbv zeta in *.
    repeat split; auto.
    pose proof (hfold_covers o l 2 (N.to_nat j) (Hl1 j Hj)) as G. cbv zeta in G.
    rewrite N2Nat.id, Ho in G by exact Hj. apply G. lia.
  - intros j k Hj Hoj Hk. rewrite Ho in Hoj, Hk by exact Hj.
    destruct (R_entry s m j HR Hj Hoj) as [E1 E2].
    apply (ufold_covers o l _ (N.to_nat j) k (Hl1 j Hj));
      rewrite N2Nat.id, Ho by exact Hj; [lia|exact Hk].
  - split; apply (ufold_mono o l).
    + rewrite getB_set_other by lia. apply getB_set_same.
    + apply getB_set_same.
  - intros a b k Ha Hb Hab Hoa Hob Hka Hkb. rewrite Ho in Hoa, Hka by exact Ha. rewrite Ho in Hob, Hkb by exact Hb.
    apply (R_disj s m HR a b k Ha Hb Hab Hoa Hob Hka Hkb).
  - intros k Hk. apply (ufold_sound o l) in Hk.
    destruct Hk as [Hk|(i & Hi & Hs & Hr)].
    + pose proof (hfold_ge o l 2) as G. cbv zeta in G.
      rewrite !getB_set in Hk. destruct (N.eqb_spec k 1); [lia|]. destruct (N.eqb_spec k 0); [lia|].
      rewrite getB_empty in Hk. discriminate.
    + pose proof (hfold_covers o l 2 i Hi Hs) as G. cbv zeta in G. unfold run_of in Hr. lia.
  - apply (hfold_le o l).
    + intros i Hi Hs. rewrite (Hoi i Hi) in *. apply Hl2 in Hi.
      assert (Hnz : getN (offs s) (N.of_nat i) <> 0).
      { intros E. apply Hs. rewrite E. reflexivity. }
      destruct (m (N.of_nat i)) as [di|] eqn:Em.
      * destruct (R_present s m HR (N.of_nat i) di ltac:(lia) Em) as (_ & _ & _ & _ & _ & _ & Q7). cbv zeta in Q7.
        pose proof (R_hwlim s m HR). lia.
      * exfalso. apply Hnz. apply (R_absent s m HR (N.of_nat i) ltac:(lia) Em).
    + unfold sector_limit. change (2^23) with 8388608. lia.
Qed.

Lemma R_reload s m o t : R s m ->
  (forall j, j < 1024 -> getN o j = getN (offs s) j) ->
  (forall j, j < 1024 -> getN t j = getN (tss s) j) ->
  R {| offs := o; tss := t; used := load_used o; hwm := load_hwm o; img := img s |} m.
Proof.
  intros HR Ho Ht.
  exact (R_reload_gen s m o t (seq 0 1024) in_seq_1024 (fun i Hi => proj2 (proj1 (in_seq _ _ _) Hi)) HR Ho Ht).
Qed.

Theorem load_correct s m : R s m ->
  exists s', load (img s) = LOk s' /\ R s' m /\ img s' = img s /\
    (forall j, j < 1024 -> getN (offs s') j = getN (offs s) j /\ getN (tss s') j = getN (tss s) j).
Proof.
  intros HR. pose proof (R_log s m HR) as Hlog. pose proof (R_size s m HR) as Hsz.
  assert (Ho : forall j, j < 1024 -> getN (load_tab (img s) 0) j = getN (offs s) j).
  { intros j Hj. rewrite load_tab_spec by assumption. rewrite N.add_0_l. apply (R_hdr s m HR j Hj). }
  assert (Ht : forall j, j < 1024 -> getN (load_tab (img s) 4096) j = getN (tss s) j).
  { intros j Hj. rewrite load_tab_spec by assumption. apply (R_ts s m HR j Hj). }
  unfold load. assert ((fsize (img s) <? 8192) = false) as -> by lia.
  eexists. split; [reflexivity|].
  split; [apply (R_reload s m _ _ HR Ho Ht)|].
  split; [reflexivity|]. intros j Hj. cbn [offs tss]. auto.
Qed.
