(* C14 / C15: the region file refines a map from chunk index to bytes; crash isolation *)
From Coq Require Import List Arith NArith ZArith Lia Bool ZifyN ZifyNat ZifyBool FMapPositive.
From GoMC Require Import Base.Bytes Model.C14 Proofs.C14_file Proofs.C14_alloc.
Import ListNotations.
Open Scope N_scope.

(* ---------- abstract store and specification-level reading ---------- *)
Definition amap := N -> option (list N).
Definition aupd (m : amap) (i : N) (d : list N) : amap := fun j => if j =? i then Some d else m j.
Definition aempty : amap := fun _ => None.

Definition spec_read (m : amap) (i : N) : rres :=
  match m i with
  | None => RNoSector
  | Some d => if lenN d =? 0 then RNoData else ROk d      (* a zero-length chunk is "no data" in the format *)
  end.

Definition word_at (f : file) (p : N) : N := unbe (bytes_at f p 4).

Lemma rd32_word_at f p : log_ok f -> rd32 f p = word_at f p.
Proof. intros H. unfold rd32, word_at. rewrite read_range_eq by exact H. reflexivity. Qed.

(* sector k lies in the run named by header word o *)
Definition run_of (o k : N) : Prop := sec_of o <= k < sec_of o + cnt_of o.

(* a write leaves a byte range alone *)
Definition leaves (w : wr) (p : N) (k : N) : Prop := wend w <= p \/ p + k <= wpos w.

Lemma bytes_at_app_leaves g f p k :
  Forall (fun w => leaves w p (N.of_nat k)) g -> bytes_at (g ++ f) p k = bytes_at f p k.
Proof.
  induction 1 as [|w g Hw Hg IH]; [reflexivity|].
  cbn [app]. rewrite bytes_at_cons_skip by exact Hw. exact IH.
Qed.

Lemma word_at_app_leaves g f p :
  Forall (fun w => leaves w p 4) g -> word_at (g ++ f) p = word_at f p.
Proof. intros H. unfold word_at. rewrite bytes_at_app_leaves; [reflexivity|exact H]. Qed.

(* ---------- the invariant ---------- *)
Record R (s : st) (m : amap) : Prop := {
  R_log : log_ok (img s);
  R_size : 8192 <= fsize (img s);
  R_hdr : forall i, i < 1024 -> word_at (img s) (4 * i) = getN (offs s) i;
  R_ts : forall i, i < 1024 -> word_at (img s) (4096 + 4 * i) = getN (tss s) i;
  R_absent : forall i, i < 1024 -> m i = None -> getN (offs s) i = 0;
  R_present : forall i d, i < 1024 -> m i = Some d ->
      let o := getN (offs s) i in
      2 <= sec_of o /\ 1 <= cnt_of o /\ lenN d + 4 <= 4096 * cnt_of o /\
      word_at (img s) (4096 * sec_of o) = lenN d /\
      bytes_at (img s) (4096 * sec_of o + 4) (length d) = d /\
      4096 * sec_of o + 4 + lenN d <= fsize (img s) /\
      sec_of o + cnt_of o <= hwm s;
  R_used : forall i k, i < 1024 -> getN (offs s) i <> 0 -> run_of (getN (offs s) i) k ->
      getB (used s) k = true;
  R_used01 : getB (used s) 0 = true /\ getB (used s) 1 = true;
  R_disj : forall i j k, i < 1024 -> j < 1024 -> i <> j ->
      getN (offs s) i <> 0 -> getN (offs s) j <> 0 ->
      run_of (getN (offs s) i) k -> run_of (getN (offs s) j) k -> False;
  R_hw : forall k, getB (used s) k = true -> k < hwm s;
  R_hwlim : hwm s <= sector_limit
}.

Lemma R_nonzero s m i d : R s m -> i < 1024 -> m i = Some d -> getN (offs s) i <> 0.
Proof.
  intros HR Hi Hm E. destruct (R_present s m HR i d Hi Hm) as (H2 & _). cbv zeta in H2.
  rewrite E in H2. unfold sec_of in H2. change (0 / 256) with 0 in H2. change (0 mod 2^24) with 0 in H2. lia.
Qed.

Lemma R_zero_iff s m i : R s m -> i < 1024 -> (m i = None <-> getN (offs s) i = 0).
Proof.
  intros HR Hi. split; [apply (R_absent s m HR i Hi)|].
  intros E. destruct (m i) as [d|] eqn:Em; [|reflexivity].
  exfalso. eapply R_nonzero; eauto.
Qed.

(* ---------- creation ---------- *)
Lemma bytes_at_fzeros_inside p n f q k : p <= q -> q + N.of_nat k <= p + n ->
  bytes_at (mkwr p (fzeros n) :: f) q k = repeat 0 k.
Proof.
  intros H1 H2. rewrite bytes_at_covered.
  - rewrite wdat_mkwr, fzeros_repeat.
    rewrite skipn_repeat', firstn_repeat'; [reflexivity|].
    rewrite wpos_mkwr. lia.
  - apply mkwr_ok.
  - rewrite wpos_mkwr. exact H1.
  - rewrite wend_mkwr, lenN_fzeros. exact H2.
Qed.

Lemma unbe_zeros4 : unbe (repeat 0 4) = 0. Proof. reflexivity. Qed.

Theorem R_create : R create aempty.
Proof.
  constructor; unfold create; cbn [img offs tss used hwm].
  - repeat constructor; apply mkwr_ok.
  - cbn [fsize]. rewrite !wlen_mkwr, !wend_mkwr, !lenN_fzeros. cbn. lia.
  - intros i Hi. rewrite getN_empty. unfold word_at.
    rewrite bytes_at_cons_skip by (rewrite wpos_mkwr; right; lia).
    rewrite bytes_at_fzeros_inside by lia. reflexivity.
  - intros i Hi. rewrite getN_empty. unfold word_at.
    rewrite bytes_at_fzeros_inside by lia. reflexivity.
  - intros i Hi _. apply getN_empty.
  - intros i d Hi H. discriminate.
  - intros i k Hi H. rewrite getN_empty in H. contradiction.
  - rewrite getB_set_other by lia. rewrite !getB_set_same. auto.
  - intros i j k Hi Hj Hij H. rewrite getN_empty in H. contradiction.
  - intros k H. rewrite !getB_set in H.
    destruct (N.eqb_spec k 1); [lia|]. destruct (N.eqb_spec k 0); [lia|].
    rewrite getB_empty in H. discriminate.
  - unfold sector_limit. change (2^23) with 8388608. lia.
Qed.

(* ---------- writes that cannot hurt the other chunks ---------- *)
(* w is safe for chunk i in state s: it leaves every other header slot and every other chunk's run alone *)
Definition safe_for (s : st) (i : N) (w : wr) : Prop :=
  forall j, j < 1024 -> j <> i ->
    leaves w (4 * j) 4 /\
    (getN (offs s) j <> 0 ->
       leaves w (4096 * sec_of (getN (offs s) j)) (4096 * cnt_of (getN (offs s) j))).

Lemma leaves_sub w p k p' k' : leaves w p k -> p <= p' -> p' + k' <= p + k -> leaves w p' k'.
Proof. unfold leaves. intros [H|H] H1 H2; [left|right]; lia. Qed.

(* a write inside [a, b) leaves [p, p+k) alone when the two do not meet *)
Lemma inside_leaves w a b p k : a <= wpos w -> wend w <= b -> (b <= p \/ p + k <= a) -> leaves w p k.
Proof. unfold leaves. intros H1 H2 [H|H]; [left|right]; lia. Qed.

(* any part of a safe write is safe (torn writes) *)
Lemma safe_for_sub s i w w' : wpos w <= wpos w' -> wend w' <= wend w -> safe_for s i w -> safe_for s i w'.
Proof.
  intros H1 H2 Hs j Hj Hji. destruct (Hs j Hj Hji) as [A B]. split.
  - unfold leaves in *. destruct A; [left|right]; lia.
  - intros Ho. specialize (B Ho). unfold leaves in *. destruct B; [left|right]; lia.
Qed.

(* what a reader of chunk j sees does not change under safe writes for i <> j *)
Lemma safe_header g s i j :
  Forall (safe_for s i) g -> j < 1024 -> j <> i -> word_at (g ++ img s) (4 * j) = word_at (img s) (4 * j).
Proof.
  intros Hg Hj Hji. apply word_at_app_leaves.
  eapply Forall_impl; [|exact Hg]. intros w Hw. destruct (Hw j Hj Hji) as [A _]. exact A.
Qed.

Lemma safe_run_bytes g s i j p k :
  Forall (safe_for s i) g -> j < 1024 -> j <> i -> getN (offs s) j <> 0 ->
  4096 * sec_of (getN (offs s) j) <= p ->
  p + N.of_nat k <= 4096 * sec_of (getN (offs s) j) + 4096 * cnt_of (getN (offs s) j) ->
  bytes_at (g ++ img s) p k = bytes_at (img s) p k.
Proof.
  intros Hg Hj Hji Ho H1 H2. apply bytes_at_app_leaves.
  eapply Forall_impl; [|exact Hg]. intros w Hw. destruct (Hw j Hj Hji) as [_ B].
  eapply leaves_sub; [exact (B Ho)| |]; lia.
Qed.

(* ---------- reading ---------- *)
Lemma cnt_of_lt o : cnt_of o < 256.
Proof. unfold cnt_of. apply N.mod_lt. discriminate. Qed.

Lemma read_at_ok f o d : log_ok f ->
  2 <= sec_of o -> 1 <= cnt_of o -> lenN d + 4 <= 4096 * cnt_of o ->
  word_at f (4096 * sec_of o) = lenN d ->
  bytes_at f (4096 * sec_of o + 4) (length d) = d ->
  4096 * sec_of o + 4 + lenN d <= fsize f ->
  read_at f o = if lenN d =? 0 then RNoData else ROk d.
Proof.
  intros Hlog Hs Hc Hfit Hlen Hdat Hsz. unfold read_at. cbv zeta.
  pose proof (cnt_of_lt o) as Hc2.
  assert ((sec_of o =? 0) = false) as -> by lia.
  assert ((4096 * cnt_of o <? 4) = false) as -> by lia.
  assert ((fsize f <? 4096 * sec_of o + 4) = false) as -> by lia.
  cbn [orb]. rewrite rd32_word_at, Hlen by exact Hlog.
  destruct (N.eqb_spec (lenN d) 0) as [E|E]; [reflexivity|].
  change (2^31) with 2147483648.
  assert ((2147483648 <=? lenN d) = false) as -> by lia.
  assert ((4096 * cnt_of o <? lenN d) = false) as -> by lia.
  assert ((4096 * cnt_of o - 4 <? lenN d) = false) as -> by lia.
  assert ((fsize f <? 4096 * sec_of o + 4 + lenN d) = false) as -> by lia.
  cbn [orb]. rewrite read_range_eq by exact Hlog.
  replace (N.to_nat (lenN d)) with (length d) by (unfold lenN; lia).
  rewrite Hdat. reflexivity.
Qed.

Lemma read_at_zero f : read_at f 0 = RNoSector.
Proof. reflexivity. Qed.

Theorem read_correct s m i : R s m -> i < 1024 ->
  read_at (img s) (getN (offs s) i) = spec_read m i.
Proof.
  intros HR Hi. unfold spec_read. destruct (m i) as [d|] eqn:Em.
  - destruct (R_present s m HR i d Hi Em) as (H1 & H2 & H3 & H4 & H5 & H6 & H7). cbv zeta in *.
    apply read_at_ok; auto. apply (R_log s m HR).
  - rewrite (R_absent s m HR i Hi Em). reflexivity.
Qed.

Theorem exist_correct s m i : R s m -> i < 1024 ->
  negb (getN (offs s) i =? 0) = match m i with Some _ => true | None => false end.
Proof.
  intros HR Hi. destruct (m i) as [d|] eqn:Em.
  - pose proof (R_nonzero s m i d HR Hi Em). destruct (N.eqb_spec (getN (offs s) i) 0); [contradiction|reflexivity].
  - rewrite (R_absent s m HR i Hi Em). reflexivity.
Qed.

(* the independent Anvil reading of the file agrees with the store *)
Theorem anvil_correct s m i : R s m -> i < 1024 -> anvil_chunk (img s) i = spec_read m i.
Proof.
  intros HR Hi. unfold anvil_chunk. rewrite rd32_word_at by apply (R_log s m HR).
  rewrite (R_hdr s m HR i Hi). apply read_correct; assumption.
Qed.

(* ---------- C15 core: safe writes for chunk i never change what chunk j <> i reads as ---------- *)
Theorem safe_writes_isolate s m i g j : R s m ->
  Forall (safe_for s i) g -> log_ok g -> j < 1024 -> j <> i ->
  anvil_chunk (g ++ img s) j = spec_read m j.
Proof.
  intros HR Hg Hlg Hj Hji.
  assert (Hlog : log_ok (g ++ img s)) by (apply Forall_app; split; [exact Hlg|apply (R_log s m HR)]).
  unfold anvil_chunk. rewrite rd32_word_at by exact Hlog.
  rewrite (safe_header g s i j Hg Hj Hji), (R_hdr s m HR j Hj).
  unfold spec_read. destruct (m j) as [d|] eqn:Em.
  - pose proof (R_nonzero s m j d HR Hj Em) as Hnz.
    destruct (R_present s m HR j d Hj Em) as (H1 & H2 & H3 & H4 & H5 & H6 & H7). cbv zeta in *.
    apply read_at_ok; auto.
    + unfold word_at. rewrite (safe_run_bytes g s i j) by (auto; lia). exact H4.
    + rewrite (safe_run_bytes g s i j) by (auto; unfold lenN in *; lia). exact H5.
    + pose proof (fsize_app_ge g (img s)). lia.
  - rewrite (R_absent s m HR j Hj Em). reflexivity.
Qed.

(* ---------- writing ---------- *)
Lemma idx_lt x z : x < 32 -> z < 32 -> idx x z < 1024.
Proof. unfold idx. lia. Qed.

Lemma need_bounds d : let need := (lenN d + 4 + 4095) / 4096 in
  1 <= need /\ lenN d + 4 <= 4096 * need /\ 4096 * need < lenN d + 4 + 4096.
Proof. cbv zeta. lia. Qed.

Lemma unbe_be4 v : v < 2^32 -> unbe (be 4 v) = v.
Proof. intros H. rewrite unbe_be. change (256 ^ N.of_nat 4) with (2^32). apply N.mod_small. exact H. Qed.

Lemma be4_len v : length (be 4 v) = 4%nat. Proof. apply be_length. Qed.
Lemma be4_lenN v : lenN (be 4 v) = 4. Proof. unfold lenN. now rewrite be4_len. Qed.

(* the in-place overwrite *)
Lemma write_inplace s m i d : R s m -> i < 1024 ->
  let o := getN (offs s) i in
  let need := (lenN d + 4 + 4095) / 4096 in
  sec_of o <> 0 -> cnt_of o = need ->
  let ws := [ mkwr (4096 * sec_of o) (be 4 (lenN d)); mkwr (4096 * sec_of o + 4) d ] in
  R {| offs := offs s; tss := tss s; used := used s; hwm := hwm s; img := rev ws ++ img s |} (aupd m i d)
  /\ Forall (safe_for s i) ws.
Proof.
  intros HR Hi o need Hsec Hcnt ws.
  destruct (need_bounds d) as (Hn1 & Hn2 & Hn3). fold need in Hn1, Hn2, Hn3.
  assert (Ho : o <> 0).
  { intros E. apply Hsec. unfold o in *. rewrite E. reflexivity. }
  destruct (m i) as [dold|] eqn:Em; [|exfalso; apply Ho; apply (R_absent s m HR i Hi Em)].
  destruct (R_present s m HR i dold Hi Em) as (P1 & P2 & P3 & P4 & P5 & P6 & P7). cbv zeta in *. fold o in P1, P2, P3, P4, P5, P6, P7.
  (* both writes stay inside the chunk's own run *)
  assert (Hsafe : Forall (safe_for s i) ws).
  { unfold ws. repeat constructor; intros j Hj Hji; split.
    - apply inside_leaves with (a := 4096 * sec_of o) (b := 4096 * sec_of o + 4);
        rewrite ?wpos_mkwr, ?wend_mkwr, ?be4_lenN; lia.
    - intros Hoj. unfold leaves. rewrite wpos_mkwr, wend_mkwr, be4_lenN.
      destruct (N.le_gt_cases (sec_of (getN (offs s) j) + cnt_of (getN (offs s) j)) (sec_of o)) as [L|L]; [right; lia|].
      destruct (N.le_gt_cases (sec_of o + cnt_of o) (sec_of (getN (offs s) j))) as [L2|L2]; [left; lia|].
      exfalso. apply (R_disj s m HR i j (N.max (sec_of o) (sec_of (getN (offs s) j))) Hi Hj ltac:(auto) Ho Hoj);
        unfold run_of; fold o; lia.
    - apply inside_leaves with (a := 4096 * sec_of o) (b := 4096 * sec_of o + 4 + lenN d);
        rewrite ?wpos_mkwr, ?wend_mkwr; lia.
    - intros Hoj. unfold leaves. rewrite wpos_mkwr, wend_mkwr.
      destruct (N.le_gt_cases (sec_of (getN (offs s) j) + cnt_of (getN (offs s) j)) (sec_of o)) as [L|L]; [right; lia|].
      destruct (N.le_gt_cases (sec_of o + cnt_of o) (sec_of (getN (offs s) j))) as [L2|L2]; [left; lia|].
      exfalso. apply (R_disj s m HR i j (N.max (sec_of o) (sec_of (getN (offs s) j))) Hi Hj ltac:(auto) Ho Hoj);
        unfold run_of; fold o; lia. }
  split; [|exact Hsafe].
  assert (Hlw : log_ok (rev ws)) by (unfold ws; cbn [rev app]; repeat constructor; apply mkwr_ok).
  pose proof (R_log s m HR) as Hlog.
  constructor; cbn [img offs tss used hwm].
  - apply Forall_app. split; assumption.
  - pose proof (fsize_app_ge (rev ws) (img s)). pose proof (R_size s m HR). lia.
  - (* header unchanged: both writes are at >= 8192 *)
    intros j Hj. rewrite <- (R_hdr s m HR j Hj). apply word_at_app_leaves.
    unfold ws. cbn [rev app]. repeat constructor; unfold leaves; rewrite wpos_mkwr; right; lia.
  - intros j Hj. rewrite <- (R_ts s m HR j Hj). apply word_at_app_leaves.
    unfold ws. cbn [rev app]. repeat constructor; unfold leaves; rewrite wpos_mkwr; right; lia.
  - intros j Hj Hm. unfold aupd in Hm. destruct (N.eqb_spec j i); [discriminate|]. apply (R_absent s m HR j Hj Hm).
  - intros j dj Hj Hm. unfold aupd in Hm. cbv zeta. destruct (N.eqb_spec j i) as [->|Hji].
    + inversion Hm; subst dj. fold o. unfold ws. cbn [rev app].
      repeat split; try lia.
      * unfold word_at. rewrite bytes_at_cons_skip by (rewrite wpos_mkwr; right; lia).
        rewrite <- (be4_len (lenN d)). rewrite bytes_at_cons_exact. apply unbe_be4.
        change (2^32) with 4294967296. pose proof (cnt_of_lt o). lia.
      * apply bytes_at_cons_exact.
      * destruct (N.eq_dec (lenN d) 0) as [E|E].
        -- rewrite E, N.add_0_r.
           pose proof (fsize_cons_ge (mkwr (4096 * sec_of o + 4) d) (mkwr (4096 * sec_of o) (be 4 (lenN d)) :: img s)).
           pose proof (fsize_cons_end (mkwr (4096 * sec_of o) (be 4 (lenN d))) (img s)) as H9.
           rewrite wlen_mkwr, wend_mkwr, be4_lenN in H9. specialize (H9 ltac:(lia)). lia.
        -- pose proof (fsize_cons_end (mkwr (4096 * sec_of o + 4) d) (mkwr (4096 * sec_of o) (be 4 (lenN d)) :: img s)) as H9.
           rewrite wlen_mkwr, wend_mkwr in H9. specialize (H9 E). lia.
    + pose proof (R_nonzero s m j dj HR Hj Hm) as Hoj.
      destruct (R_present s m HR j dj Hj Hm) as (Q1 & Q2 & Q3 & Q4 & Q5 & Q6 & Q7). cbv zeta in *.
      assert (Hrs : Forall (safe_for s i) (rev ws)) by (apply Forall_rev; exact Hsafe).
      repeat split; auto.
      * unfold word_at. rewrite (safe_run_bytes (rev ws) s i j) by (auto; lia). exact Q4.
      * rewrite (safe_run_bytes (rev ws) s i j) by (auto; unfold lenN in *; lia). exact Q5.
      * pose proof (fsize_app_ge (rev ws) (img s)). lia.
  - apply (R_used s m HR).
  - apply (R_used01 s m HR).
  - apply (R_disj s m HR).
  - apply (R_hw s m HR).
  - apply (R_hwlim s m HR).
Qed.
