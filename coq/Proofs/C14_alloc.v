(* C14: finite maps, sector marking and the first-fit search *)
From Coq Require Import List Arith NArith ZArith Lia Bool ZifyN ZifyNat ZifyBool FMapPositive.
From GoMC Require Import Base.Bytes Model.C14.
Import ListNotations.
Open Scope N_scope.

Lemma key_inj i j : key i = key j -> i = j.
Proof.
  unfold key. intros H.
  assert (N.pos (N.succ_pos i) = N.pos (N.succ_pos j)) by now rewrite H.
  rewrite !N.succ_pos_spec in H0. lia.
Qed.

Lemma getN_empty i : getN (PositiveMap.empty N) i = 0.
Proof. unfold getN. now rewrite PositiveMap.gempty. Qed.
Lemma getN_set_same m i v : getN (setN m i v) i = v.
Proof. unfold getN, setN. now rewrite PositiveMap.gss. Qed.
Lemma getN_set_other m i j v : i <> j -> getN (setN m j v) i = getN m i.
Proof.
  intros H. unfold getN, setN. rewrite PositiveMap.gso; [reflexivity|].
  intros E. apply key_inj in E. contradiction.
Qed.
Lemma getB_empty i : getB (PositiveMap.empty bool) i = false.
Proof. unfold getB. now rewrite PositiveMap.gempty. Qed.
Lemma getB_set_same m i v : getB (setB m i v) i = v.
Proof. unfold getB, setB. now rewrite PositiveMap.gss. Qed.
Lemma getB_set_other m i j v : i <> j -> getB (setB m j v) i = getB m i.
Proof.
  intros H. unfold getB, setB. rewrite PositiveMap.gso; [reflexivity|].
  intros E. apply key_inj in E. contradiction.
Qed.
Lemma getB_set m i j v : getB (setB m j v) i = if i =? j then v else getB m i.
Proof.
  destruct (N.eqb_spec i j) as [->|H]; [apply getB_set_same|now apply getB_set_other].
Qed.

Lemma mark_spec c : forall u n v k,
  getB (mark u n c v) k = if (n <=? k) && (k <? n + N.of_nat c) then v else getB u k.
Proof.
  induction c as [|c IH]; intros u n v k; cbn [mark].
  - destruct (N.leb_spec n k); destruct (N.ltb_spec k (n + N.of_nat 0)); cbn [andb]; auto; lia.
  - rewrite IH, getB_set.
    destruct (N.leb_spec (n + 1) k); destruct (N.ltb_spec k (n + 1 + N.of_nat c));
    destruct (N.leb_spec n k); destruct (N.ltb_spec k (n + N.of_nat (S c)));
    destruct (N.eqb_spec k n); cbn [andb]; auto; lia.
Qed.

(* the search stops within the fuel and returns a run of free sectors, at or below any bound E above
   which everything is free *)
Lemma find_space_spec E u need : (forall k, E <= k -> getB u k = false) ->
  forall fuel n i, i <= need -> n <= E -> (forall j, j < i -> getB u (n + j) = false) ->
    (N.to_nat (E + need + 1 - (n + i)) <= fuel)%nat ->
    exists n', find_space fuel u need n i = Some n' /\
               (forall j, j < need -> getB u (n' + j) = false) /\ n <= n' /\ n' <= E.
Proof.
  intros HE. induction fuel as [|fuel IH]; intros n i Hi Hn Hfree Hfuel; [lia|].
  cbn [find_space].
  destruct (N.ltb_spec i need) as [Hlt|Hge].
  - destruct (getB u (n + i)) eqn:Eu.
    + assert (n + i < E).
      { destruct (N.lt_ge_cases (n + i) E); auto. rewrite HE in Eu by lia. discriminate. }
      assert (P1 : forall j, j < 0 -> getB u (n + i + 1 + j) = false) by (intros j Hj; lia).
      destruct (IH (n + i + 1) 0 ltac:(lia) ltac:(lia) P1 ltac:(lia)) as (n' & H1 & H2 & H3 & H4).
      exists n'. repeat split; auto. lia.
    + assert (P1 : forall j, j < i + 1 -> getB u (n + j) = false).
      { intros j Hj. destruct (N.eq_dec j i) as [->|]; [exact Eu|]. apply Hfree. lia. }
      destruct (IH n (i + 1) ltac:(lia) ltac:(lia) P1 ltac:(lia)) as (n' & H1 & H2 & H3 & H4).
      exists n'. repeat split; auto.
  - exists n. repeat split; auto; try lia. intros j Hj. apply Hfree. lia.
Qed.

(* header words *)
Lemma sec_cnt_of n c : n < 2^23 -> c < 256 -> sec_of (n * 256 + c) = n /\ cnt_of (n * 256 + c) = c.
Proof.
  intros Hn Hc. unfold sec_of, cnt_of. change (2^23) with 8388608 in Hn. change (2^24) with 16777216.
  split; lia.
Qed.
