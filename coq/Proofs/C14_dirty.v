(* C14 / C15 (phase 5): the representation invariant WEAKENED for histories that contain failed writes.
   M s          : the in-memory tables alone (entries well-formed, runs marked used and pairwise disjoint)
   Fd s m D T   : the file against the tables and the map m, except that chunks in D ("dirty": their last write
                  failed) have no content claim and chunks in T no timestamp claim
   Rd = M /\ Fd.  R s m (Proofs/C14.v) is the special case D = T = nothing. *)
From Coq Require Import List Arith NArith ZArith Lia Bool ZifyN ZifyNat ZifyBool FMapPositive.
From GoMC Require Import Base.Bytes Model.C14 Proofs.C14_file Proofs.C14_alloc Proofs.C14 Proofs.C14_hist Proofs.C15 Proofs.C15_fail.
Import ListNotations.
Open Scope N_scope.

Definition nset := N -> bool.
Definition nadd (D : nset) (i : N) : nset := fun j => (j =? i) || D j.
Definition ndel (D : nset) (i : N) : nset := fun j => negb (j =? i) && D j.
Definition nnone : nset := fun _ => false.

Record M (s : st) : Prop := {
  M_entry : forall j, j < 1024 -> getN (offs s) j <> 0 ->
      2 <= sec_of (getN (offs s) j) /\ 1 <= cnt_of (getN (offs s) j) /\
      sec_of (getN (offs s) j) + cnt_of (getN (offs s) j) <= hwm s;
  M_tab : forall j, j < 1024 -> getN (offs s) j < 2^32;
  M_used : forall i k, i < 1024 -> getN (offs s) i <> 0 -> run_of (getN (offs s) i) k -> getB (used s) k = true;
  M_used01 : getB (used s) 0 = true /\ getB (used s) 1 = true;
  M_disj : forall i j k, i < 1024 -> j < 1024 -> i <> j -> getN (offs s) i <> 0 -> getN (offs s) j <> 0 ->
      run_of (getN (offs s) i) k -> run_of (getN (offs s) j) k -> False;
  M_hw : forall k, getB (used s) k = true -> k < hwm s;
  M_hwlim : hwm s <= sector_limit
}.

Record Fd (s : st) (m : amap) (D T : nset) : Prop := {
  F_log : log_ok (img s);
  F_size : 8192 <= fsize (img s);
  F_hdr : forall i, i < 1024 -> word_at (img s) (4 * i) = getN (offs s) i;
  F_ts : forall i, i < 1024 -> T i = false -> word_at (img s) (4096 + 4 * i) = getN (tss s) i;
  F_absent : forall i, i < 1024 -> D i = false -> m i = None -> getN (offs s) i = 0;
  F_present : forall i d, i < 1024 -> D i = false -> m i = Some d ->
      let o := getN (offs s) i in
      lenN d + 4 <= 4096 * cnt_of o /\ word_at (img s) (4096 * sec_of o) = lenN d /\
      bytes_at (img s) (4096 * sec_of o + 4) (length d) = d /\ 4096 * sec_of o + 4 + lenN d <= fsize (img s)
}.
Definition Rd s m D T := M s /\ Fd s m D T.

(* ---------- M depends on the tables extensionally ---------- *)
Lemma M_ext s s' : M s ->
  (forall j, getN (offs s') j = getN (offs s) j) -> (forall k, getB (used s') k = getB (used s) k) ->
  hwm s <= hwm s' -> hwm s' <= sector_limit -> M s'.
Proof.
  intros HM Ho Hu Hh Hl. constructor.
  - intros j Hj. rewrite Ho. intros Hn. destruct (M_entry s HM j Hj Hn) as (A & B & C). repeat split; auto. lia.
  - intros j Hj. rewrite Ho. apply (M_tab s HM j Hj).
  - intros i k Hi. rewrite Ho, Hu. apply (M_used s HM i k Hi).
  - rewrite !Hu. apply (M_used01 s HM).
  - intros i j k Hi Hj Hij. rewrite !Ho. apply (M_disj s HM i j k Hi Hj Hij).
  - intros k. rewrite Hu. intros Hk. pose proof (M_hw s HM k Hk). lia.
  - exact Hl.
Qed.

Lemma M_runs_apart s i j : M s -> i < 1024 -> j < 1024 -> i <> j ->
  getN (offs s) i <> 0 -> getN (offs s) j <> 0 ->
  sec_of (getN (offs s) j) + cnt_of (getN (offs s) j) <= sec_of (getN (offs s) i) \/
  sec_of (getN (offs s) i) + cnt_of (getN (offs s) i) <= sec_of (getN (offs s) j).
Proof.
  intros HM Hi Hj Hij Hoi Hoj.
  destruct (M_entry s HM i Hi Hoi) as (A1 & A2 & _). destruct (M_entry s HM j Hj Hoj) as (B1 & B2 & _).
  set (oi := getN (offs s) i) in *. set (oj := getN (offs s) j) in *.
  destruct (N.le_gt_cases (sec_of oj + cnt_of oj) (sec_of oi)) as [L|L]; [left; exact L|].
  destruct (N.le_gt_cases (sec_of oi + cnt_of oi) (sec_of oj)) as [L2|L2]; [right; exact L2|].
  exfalso. apply (M_disj s HM i j (N.max (sec_of oi) (sec_of oj)) Hi Hj Hij Hoi Hoj); unfold run_of; fold oi; fold oj; lia.
Qed.

(* ---------- the allocation step on the tables ---------- *)
Section AllocM.
  Variables (s : st) (i need n' : N).
  Hypothesis HM : M s.
  Hypothesis Hi : i < 1024.
  Let o := getN (offs s) i.
  Hypothesis Hneed1 : 1 <= need.
  Hypothesis Hneed : need < 256.
  Let u1 := mark (used s) (sec_of o) (N.to_nat (cnt_of o)) false.
  Hypothesis Hfree : forall j, j < need -> getB u1 (n' + j) = false.
  Hypothesis Hlim : n' + need < sector_limit.
  Let u2 := mark u1 n' (N.to_nat need) true.

  Lemma am_old : o = 0 \/ (2 <= sec_of o /\ 1 <= cnt_of o).
  Proof.
    destruct (N.eq_dec o 0) as [E|E]; [left; exact E|right].
    destruct (M_entry s HM i Hi E) as (A & B & _). auto.
  Qed.
  Lemma am_u1 k : getB u1 k = if (sec_of o <=? k) && (k <? sec_of o + cnt_of o) then false else getB (used s) k.
  Proof. unfold u1. rewrite mark_spec, N2Nat.id. reflexivity. Qed.
  Lemma am_u2 k : getB u2 k = if (n' <=? k) && (k <? n' + need) then true else getB u1 k.
  Proof. unfold u2. rewrite mark_spec, N2Nat.id. reflexivity. Qed.
  Lemma am_u1_01 : getB u1 0 = true /\ getB u1 1 = true.
  Proof.
    destruct (M_used01 s HM) as [A B]. rewrite !am_u1. destruct am_old as [E|[E1 E2]].
    - rewrite E. change (sec_of 0) with 0. change (cnt_of 0) with 0. cbn. auto.
    - assert ((sec_of o <=? 0) = false) as -> by lia. assert ((sec_of o <=? 1) = false) as -> by lia. cbn [andb]. auto.
  Qed.
  Lemma am_n'_ge2 : 2 <= n'.
  Proof.
    destruct am_u1_01 as [A B]. pose proof (Hfree 0 ltac:(lia)) as F. rewrite N.add_0_r in F.
    destruct (N.eq_dec n' 0) as [->|]; [congruence|]. destruct (N.eq_dec n' 1) as [->|]; [congruence|]. lia.
  Qed.
  Lemma am_other_used j k : j < 1024 -> j <> i -> getN (offs s) j <> 0 -> run_of (getN (offs s) j) k -> getB u1 k = true.
  Proof.
    intros Hj Hji Hoj Hk. rewrite am_u1. rewrite (M_used s HM j k Hj Hoj Hk).
    destruct (N.eq_dec o 0) as [E|E].
    - rewrite E. change (sec_of 0) with 0. change (cnt_of 0) with 0.
      destruct (0 <=? k); destruct (k <? 0 + 0) eqn:E2; cbn [andb]; auto. lia.
    - destruct (M_runs_apart s i j HM Hi Hj ltac:(auto) E Hoj) as [L|L]; fold o in L; unfold run_of in Hk;
        destruct (N.leb_spec (sec_of o) k); destruct (N.ltb_spec k (sec_of o + cnt_of o)); cbn [andb]; auto; lia.
  Qed.
  Lemma am_apart j : j < 1024 -> j <> i -> getN (offs s) j <> 0 ->
    n' + need <= sec_of (getN (offs s) j) \/ sec_of (getN (offs s) j) + cnt_of (getN (offs s) j) <= n'.
  Proof.
    intros Hj Hji Hoj. destruct (M_entry s HM j Hj Hoj) as (B1 & B2 & _). set (oj := getN (offs s) j) in *.
    destruct (N.le_gt_cases (n' + need) (sec_of oj)) as [L|L]; [left; exact L|].
    destruct (N.le_gt_cases (sec_of oj + cnt_of oj) n') as [L2|L2]; [right; exact L2|].
    exfalso. set (k := N.max n' (sec_of oj)).
    assert (T1 : getB u1 k = true) by (apply (am_other_used j k Hj Hji Hoj); unfold run_of; fold oj; unfold k; lia).
    assert (F1 : getB u1 k = false) by (replace k with (n' + (k - n')) by (unfold k; lia); apply Hfree; unfold k; lia).
    congruence.
  Qed.
  Lemma am_o' : n' * 256 + need < 2^32 /\ sec_of (n' * 256 + need) = n' /\ cnt_of (n' * 256 + need) = need.
  Proof.
    unfold sector_limit in Hlim. destruct (sec_cnt_of n' need ltac:(lia) Hneed) as [A B].
    repeat split; auto. change (2^23) with 8388608 in Hlim. change (2^32) with 4294967296. lia.
  Qed.

  (* the tables after a completed allocation *)
  Lemma M_alloc s' : offs s' = setN (offs s) i (n' * 256 + need) -> used s' = u2 ->
    hwm s' = N.max (hwm s) (n' + need) -> M s'.
  Proof.
    intros Eo Eu Eh. destruct am_o' as (O1 & O2 & O3). pose proof am_n'_ge2 as N3.
    constructor; rewrite ?Eo, ?Eu, ?Eh.
    - intros j Hj. destruct (N.eq_dec j i) as [->|Hji].
      + rewrite getN_set_same, O2, O3. intros _. lia.
      + rewrite getN_set_other by exact Hji. intros Hn. destruct (M_entry s HM j Hj Hn) as (A & B & C). lia.
    - intros j Hj. destruct (N.eq_dec j i) as [->|Hji]; [rewrite getN_set_same; exact O1|].
      rewrite getN_set_other by exact Hji. apply (M_tab s HM j Hj).
    - intros j k Hj Hoj Hk. rewrite am_u2. destruct (N.eq_dec j i) as [->|Hji].
      + rewrite getN_set_same in Hk. unfold run_of in Hk. rewrite O2, O3 in Hk.
        assert ((n' <=? k) = true) as -> by lia. assert ((k <? n' + need) = true) as -> by lia. reflexivity.
      + rewrite getN_set_other in Hk, Hoj by exact Hji.
        rewrite (am_other_used j k Hj Hji Hoj Hk). destruct ((n' <=? k) && (k <? n' + need)); reflexivity.
    - destruct am_u1_01 as [A B]. rewrite !am_u2, A, B. split; destruct (_ && _); reflexivity.
    - intros a b k Ha Hb Hab Hoa Hob Hka Hkb.
      destruct (N.eq_dec a i) as [->|Hai]; destruct (N.eq_dec b i) as [->|Hbi]; try contradiction.
      + rewrite getN_set_same in Hka. rewrite getN_set_other in Hkb, Hob by (intros E; apply Hab; now rewrite E).
        unfold run_of in *. rewrite O2, O3 in Hka. destruct (am_apart b Hb ltac:(auto) Hob) as [L|L]; lia.
      + rewrite getN_set_same in Hkb. rewrite getN_set_other in Hka, Hoa by exact Hai.
        unfold run_of in *. rewrite O2, O3 in Hkb. destruct (am_apart a Ha Hai Hoa) as [L|L]; lia.
      + rewrite getN_set_other in Hka, Hoa by exact Hai. rewrite getN_set_other in Hkb, Hob by exact Hbi.
        apply (M_disj s HM a b k Ha Hb Hab Hoa Hob Hka Hkb).
    - intros k Hk. rewrite am_u2 in Hk.
      destruct (N.leb_spec n' k); destruct (N.ltb_spec k (n' + need)); cbn [andb] in Hk; try lia;
        rewrite am_u1 in Hk; destruct ((sec_of o <=? k) && (k <? sec_of o + cnt_of o)); try discriminate;
        pose proof (M_hw s HM k Hk); lia.
    - pose proof (M_hwlim s HM). lia.
  Qed.

  (* the tables after an UNDONE allocation (setHead failed): extensionally the tables before *)
  Lemma M_undo s' : offs s' = setN (setN (offs s) i (n' * 256 + need)) i (sec_of o * 256 + cnt_of o) ->
    used s' = mark (mark u2 n' (N.to_nat need) false) (sec_of o) (N.to_nat (cnt_of o)) true ->
    hwm s' = N.max (hwm s) (n' + need) -> M s'.
  Proof.
    intros Eo Eu Eh. apply (M_ext s s' HM).
    - intros j. rewrite Eo. destruct (N.eq_dec j i) as [->|Hji].
      + rewrite getN_set_same. pose proof (M_tab s HM i Hi) as Ht. fold o in Ht.
        unfold sec_of, cnt_of. change (2^32) with 4294967296 in Ht. change (2^24) with 16777216. fold o. lia.
      + rewrite !getN_set_other by exact Hji. reflexivity.
    - intros k. rewrite Eu. rewrite mark_spec, N2Nat.id, mark_spec, N2Nat.id, am_u2, am_u1.
      destruct (N.leb_spec (sec_of o) k); destruct (N.ltb_spec k (sec_of o + cnt_of o)); cbn [andb].
      + (* in the old run: used before *)
        symmetry. destruct am_old as [E|[E1 E2]].
        * rewrite E in *. change (sec_of 0) with 0 in *. change (cnt_of 0) with 0 in *. lia.
        * apply (M_used s HM i k Hi); [intros E; fold o in E; rewrite E in E1; change (sec_of 0) with 0 in E1; lia|unfold run_of; fold o; lia].
      + destruct (N.leb_spec n' k); destruct (N.ltb_spec k (n' + need)); cbn [andb]; try reflexivity.
        pose proof (Hfree (k - n') ltac:(lia)) as F. replace (n' + (k - n')) with k in F by lia.
        rewrite am_u1 in F. assert ((k <? sec_of o + cnt_of o) = false) as E by lia. rewrite E, andb_false_r in F. auto.
      + destruct (N.leb_spec n' k); destruct (N.ltb_spec k (n' + need)); cbn [andb]; try reflexivity.
        pose proof (Hfree (k - n') ltac:(lia)) as F. replace (n' + (k - n')) with k in F by lia.
        rewrite am_u1 in F. assert ((sec_of o <=? k) = false) as E by lia. rewrite E in F. cbn [andb] in F. auto.
      + destruct (N.leb_spec n' k); destruct (N.ltb_spec k (n' + need)); cbn [andb]; try reflexivity.
        pose proof (Hfree (k - n') ltac:(lia)) as F. replace (n' + (k - n')) with k in F by lia.
        rewrite am_u1 in F. assert ((sec_of o <=? k) = false) as E by lia. rewrite E in F. cbn [andb] in F. auto.
    - rewrite Eh. lia.
    - rewrite Eh. pose proof (M_hwlim s HM). lia.
  Qed.
End AllocM.

(* ---------- the file clauses under writes that stay inside chunk i's footprint ---------- *)
Definition safe2 (s : st) (i : N) (w : wr) : Prop :=
  safe_for s i w /\ forall j, j < 1024 -> j <> i -> leaves w (4096 + 4 * j) 4.

Definition content (s : st) (i : N) (d : list N) : Prop :=
  let o := getN (offs s) i in
  lenN d + 4 <= 4096 * cnt_of o /\ word_at (img s) (4096 * sec_of o) = lenN d /\
  bytes_at (img s) (4096 * sec_of o + 4) (length d) = d /\ 4096 * sec_of o + 4 + lenN d <= fsize (img s).

Lemma Fd_step s m D T s' m' D' T' i g :
  Fd s m D T ->
  img s' = g ++ img s -> Forall (safe2 s i) g -> log_ok g ->
  (forall j, j <> i -> getN (offs s') j = getN (offs s) j) ->
  (forall j, j <> i -> getN (tss s') j = getN (tss s) j) ->
  (i < 1024 -> word_at (g ++ img s) (4 * i) = getN (offs s') i) ->
  (forall j, j < 1024 -> T' j = false ->
     (j <> i -> T j = false) /\ (j = i -> word_at (g ++ img s) (4096 + 4 * i) = getN (tss s') i)) ->
  (forall j, j <> i -> D' j = false -> D j = false) ->
  (forall j, j <> i -> m' j = m j) ->
  (i < 1024 -> D' i = false ->
     (m' i = None -> getN (offs s') i = 0) /\ (forall d, m' i = Some d -> content s' i d)) ->
  Fd s' m' D' T'.
Proof.
  intros HF Himg Hg Hlg Hoffs Htss Hhdr HT HD Hm Hi.
  assert (Hsafe : Forall (safe_for s i) g) by (eapply Forall_impl; [|exact Hg]; intros w [A _]; exact A).
  constructor; rewrite ?Himg.
  - apply Forall_app. split; [exact Hlg|apply (F_log _ _ _ _ HF)].
  - pose proof (fsize_app_ge g (img s)). pose proof (F_size _ _ _ _ HF). lia.
  - intros j Hj. destruct (N.eq_dec j i) as [->|Hji]; [apply Hhdr; exact Hj|].
    rewrite Hoffs by exact Hji. rewrite (safe_header g s i j Hsafe Hj Hji). apply (F_hdr _ _ _ _ HF j Hj).
  - intros j Hj HTj. destruct (HT j Hj HTj) as [A B]. destruct (N.eq_dec j i) as [->|Hji]; [apply B; reflexivity|].
    rewrite Htss by exact Hji. rewrite <- (F_ts _ _ _ _ HF j Hj (A Hji)). apply word_at_app_leaves.
    eapply Forall_impl; [|exact Hg]. intros w [_ W]. apply (W j Hj Hji).
  - intros j Hj HDj Hmj. destruct (N.eq_dec j i) as [->|Hji]; [apply (proj1 (Hi Hj HDj) Hmj)|].
    rewrite Hoffs by exact Hji. rewrite Hm in Hmj by exact Hji. apply (F_absent _ _ _ _ HF j Hj (HD j Hji HDj) Hmj).
  - intros j d Hj HDj Hmj. destruct (N.eq_dec j i) as [->|Hji].
    + pose proof (proj2 (Hi Hj HDj) d Hmj) as C. unfold content in C. rewrite Himg in C. exact C.
    + rewrite Hm in Hmj by exact Hji. cbv zeta. rewrite Hoffs by exact Hji.
      destruct (F_present _ _ _ _ HF j d Hj (HD j Hji HDj) Hmj) as (Q1 & Q2 & Q3 & Q4). cbv zeta in *.
      set (oj := getN (offs s) j) in *.
      assert (Hnz : oj <> 0).
      { intros E. rewrite E in Q1. change (cnt_of 0) with 0 in Q1. lia. }
      repeat split; auto.
      * unfold word_at. rewrite (safe_run_bytes g s i j) by (auto; fold oj; lia). exact Q2.
      * rewrite (safe_run_bytes g s i j) by (auto; fold oj; unfold lenN in *; lia). exact Q3.
      * pose proof (fsize_app_ge g (img s)). lia.
Qed.

(* reading a clean chunk *)
Lemma read_clean s m D T i : Rd s m D T -> i < 1024 -> D i = false ->
  read_at (img s) (getN (offs s) i) = spec_read m i.
Proof.
  intros [HM HF] Hi HD. unfold spec_read. destruct (m i) as [d|] eqn:Em.
  - destruct (F_present _ _ _ _ HF i d Hi HD Em) as (Q1 & Q2 & Q3 & Q4). cbv zeta in *.
    assert (Hnz : getN (offs s) i <> 0).
    { intros E. rewrite E in Q1. change (cnt_of 0) with 0 in Q1. lia. }
    destruct (M_entry s HM i Hi Hnz) as (A & B & _).
    apply read_at_ok; auto. apply (F_log _ _ _ _ HF).
  - rewrite (F_absent _ _ _ _ HF i Hi HD Em). reflexivity.
Qed.

(* the header runs named by the FILE are pairwise disjoint and lie after the two header sectors *)
Lemma file_runs_disjoint s m D T : Rd s m D T ->
  forall i j k, i < 1024 -> j < 1024 -> i <> j -> hdr (img s) i <> 0 -> hdr (img s) j <> 0 ->
    run_of (hdr (img s) i) k -> run_of (hdr (img s) j) k -> False.
Proof.
  intros [HM HF] i j k Hi Hj Hij. unfold hdr. rewrite !rd32_word_at by apply (F_log _ _ _ _ HF).
  rewrite (F_hdr _ _ _ _ HF i Hi), (F_hdr _ _ _ _ HF j Hj). apply (M_disj s HM i j k Hi Hj Hij).
Qed.

(* ---------- what a (possibly failing) plan stores ---------- *)
Definition within (a b : N) (w : wr) : Prop := wr_ok w /\ a <= wpos w /\ wend w <= b.

Lemma run_plan_within a b fa sh : forall plan c,
  (forall p d, In (IOWrite p d) plan -> a <= p /\ p + lenN d <= b) ->
  Forall (within a b) (fst (run_plan fa sh c plan)).
Proof.
  induction plan as [|op t IH]; intros c H; cbn [run_plan fst]; [constructor|].
  destruct (Nat.eqb c fa).
  - destruct op as [|p d]; cbn [fst]; [constructor|].
    destruct (H p d ltac:(left; reflexivity)) as [H1 H2].
    destruct (flen (if flen d <=? 4 then [] else ftake d sh) =? 0); [constructor|].
    constructor; [|constructor]. split; [apply mkwr_ok|]. rewrite wpos_mkwr, wend_mkwr. split; [exact H1|].
    destruct (flen d <=? 4); [unfold lenN; cbn [length]; lia|].
    rewrite ftake_firstn, lenN_firstn. lia.
  - specialize (IH (S c) ltac:(intros p d Hin; apply H; right; exact Hin)).
    destruct (run_plan fa sh (S c) t) as [ws f]. cbn [fst] in *.
    destruct op as [|p d]; [exact IH|]. constructor; [|exact IH].
    destruct (H p d ltac:(left; reflexivity)) as [H1 H2].
    split; [apply mkwr_ok|]. rewrite wpos_mkwr, wend_mkwr. lia.
Qed.

Lemma run_plan_done fa sh : forall plan c, snd (run_plan fa sh c plan) = false ->
  fst (run_plan fa sh c plan) = plan_writes plan.
Proof.
  induction plan as [|op t IH]; intros c; cbn [run_plan plan_writes]; [reflexivity|].
  destruct (Nat.eqb c fa); [cbn [snd]; discriminate|].
  specialize (IH (S c)). destruct (run_plan fa sh (S c) t) as [ws f]. cbn [fst snd] in *.
  intros ->. specialize (IH eq_refl). destruct op; cbn [fst]; congruence.
Qed.

(* writes inside a run that is chunk i's own or free stay inside i's footprint *)
Lemma within_safe2 s i n0 c0 w : M s -> 2 <= n0 ->
  (forall j, j < 1024 -> j <> i -> getN (offs s) j <> 0 ->
     n0 + c0 <= sec_of (getN (offs s) j) \/ sec_of (getN (offs s) j) + cnt_of (getN (offs s) j) <= n0) ->
  within (4096 * n0) (4096 * (n0 + c0)) w -> safe2 s i w.
Proof.
  intros HM Hn Hap (Hok & H1 & H2). split.
  - intros j Hj Hji. split; [unfold leaves; right; lia|].
    intros Hoj. destruct (Hap j Hj Hji Hoj) as [L|L]; unfold leaves; [left|right]; lia.
  - intros j Hj Hji. unfold leaves. right. lia.
Qed.

Lemma within_8192 n0 c0 g p : 2 <= n0 -> p + 4 <= 8192 ->
  Forall (within (4096 * n0) (4096 * (n0 + c0))) g -> Forall (fun w => leaves w p 4) g.
Proof. intros Hn Hp Hg. eapply Forall_impl; [|exact Hg]. intros w (_ & H1 & _). unfold leaves. right. lia. Qed.

Lemma flen_be4 v : flen (be 4 v) = 4.
Proof. rewrite flen_lenN. apply be4_lenN. Qed.

Definition upd_D (D : nset) (i : N) (r : wresF) : nset := match r with WFOk => ndel D i | WFErr => nadd D i | _ => D end.
Definition upd_T (T : nset) (i : N) (r : wresF) : nset := match r with WFErr => nadd T i | _ => T end.
Definition upd_m (m : amap) (i : N) (d : list N) (r : wresF) : amap := match r with WFOk => aupd m i d | _ => m end.

Lemma nadd_false D i j : nadd D i j = false -> j <> i /\ D j = false.
Proof. unfold nadd. destruct (N.eqb_spec j i); cbn [orb]; [discriminate|auto]. Qed.
Lemma ndel_false_other D i j : j <> i -> ndel D i j = false -> D j = false.
Proof. unfold ndel. destruct (N.eqb_spec j i); [contradiction|cbn [negb andb]; auto]. Qed.

Lemma aupd_other m i d j : j <> i -> aupd m i d j = m j.
Proof. intros H. unfold aupd. destruct (N.eqb_spec j i); [contradiction|reflexivity]. Qed.
Lemma aupd_same m i d : aupd m i d i = Some d.
Proof. unfold aupd. now rewrite N.eqb_refl. Qed.

(* bookkeeping shared by the cases: the D / T / m side conditions of Fd_step for outcome r *)
Lemma upd_side m D T i d r (P : Prop) :
  (forall j, j <> i -> upd_D D i r j = false -> D j = false) /\
  (forall j, j <> i -> upd_m m i d r j = m j) /\
  (forall j, upd_T T i r j = false -> j <> i -> T j = false).
Proof.
  destruct r; cbn [upd_D upd_T upd_m]; repeat split; auto.
  - intros j Hj. apply ndel_false_other; exact Hj.
  - intros j Hj. apply aupd_other; exact Hj.
  - intros j Hj H. apply (proj2 (nadd_false D i j H)).
  - intros j H Hj. apply (proj2 (nadd_false T i j H)).
Qed.

Definition io_pos (op : io) : N := match op with IOWrite p _ => p | IOSeek => 0 end.
Definition io_dat (op : io) : list N := match op with IOWrite _ d => d | IOSeek => [] end.
Lemma in_plan3 p d p1 d1 p2 d2 : In (IOWrite p d) [IOSeek; IOWrite p1 d1; IOWrite p2 d2] ->
  (p = p1 /\ d = d1) \/ (p = p2 /\ d = d2).
Proof.
  intros [H|[H|[H|[]]]]; [discriminate H|left|right];
    (split; [apply (f_equal io_pos) in H|apply (f_equal io_dat) in H]; cbn [io_pos io_dat] in H; auto).
Qed.

(* ---------- the in-place path ---------- *)
Lemma inplace_Rd fa sh s m D T i d ws f :
  Rd s m D T -> i < 1024 ->
  sec_of (getN (offs s) i) <> 0 -> cnt_of (getN (offs s) i) = (lenN d + 4 + 4095) / 4096 -> (lenN d + 4 + 4095) / 4096 < 256 ->
  run_plan fa sh 0 [IOSeek; IOWrite (4096 * sec_of (getN (offs s) i)) (be 4 (lenN d));
                    IOWrite (4096 * sec_of (getN (offs s) i) + 4) d] = (ws, f) ->
  let r := if f then WFErr else WFOk in
  Rd {| offs := offs s; tss := tss s; used := used s; hwm := hwm s; img := rev ws ++ img s |}
     (upd_m m i d r) (upd_D D i r) (upd_T T i r).
Proof.
  intros [HM HF] Hi Hsec Hcnt Hneed Erp r.
  set (o := getN (offs s) i) in *. set (n := sec_of o) in *.
  destruct (need_bounds d) as (N1 & N2 & _). rewrite <- Hcnt in N1, N2.
  assert (Ho : o <> 0) by (intros E; apply Hsec; unfold n; rewrite E; reflexivity).
  destruct (M_entry s HM i Hi Ho) as (E1 & E2 & E3). fold o in E1, E2, E3. fold n in E1, E3.
  pose proof (run_plan_within (4096 * n) (4096 * (n + cnt_of o)) fa sh
    [IOSeek; IOWrite (4096 * n) (be 4 (lenN d)); IOWrite (4096 * n + 4) d] 0
    ltac:(intros p dd Hin; apply in_plan3 in Hin; destruct Hin as [[-> ->]|[-> ->]]; rewrite ?be4_lenN; lia)) as Hw.
  rewrite Erp in Hw. cbn [fst] in Hw. apply Forall_rev in Hw.
  assert (Hs2 : Forall (safe2 s i) (rev ws)).
  { eapply Forall_impl; [|exact Hw]. intros w. apply (within_safe2 s i n (cnt_of o) w HM E1).
    intros j Hj Hji Hoj. destruct (M_runs_apart s i j HM Hi Hj ltac:(auto) Ho Hoj) as [L|L]; fold o n in L; [right|left]; lia. }
  assert (Hlg : log_ok (rev ws)) by (eapply Forall_impl; [|exact Hw]; intros w [A _]; exact A).
  destruct (upd_side m D T i d r True) as (SD & Sm & ST).
  split; [apply (M_ext s _ HM); cbn [offs used hwm]; auto; try lia; apply (M_hwlim s HM)|].
  apply (Fd_step s m D T _ _ _ _ i (rev ws) HF); cbn [img offs tss]; auto.
  - intros _. rewrite <- (F_hdr _ _ _ _ HF i Hi). apply word_at_app_leaves.
    apply (within_8192 n (cnt_of o) _ (4 * i) E1 ltac:(lia) Hw).
  - intros j Hj HTj. split; [apply (ST j HTj)|]. intros ->.
    destruct f; subst r; cbn [upd_T] in HTj; [destruct (nadd_false T i i HTj) as [C _]; contradiction|].
    rewrite <- (F_ts _ _ _ _ HF i Hi HTj). apply word_at_app_leaves.
    apply (within_8192 n (cnt_of o) _ (4096 + 4 * i) E1 ltac:(lia) Hw).
  - intros _ HDi. destruct f; subst r; cbn [upd_D upd_m] in *.
    + unfold nadd in HDi. rewrite N.eqb_refl in HDi. discriminate.
    + rewrite aupd_same. split; [discriminate|]. intros d0 E0. inversion E0; subst d0. clear E0.
      pose proof (run_plan_done fa sh _ 0 ltac:(rewrite Erp; reflexivity)) as Hd. rewrite Erp in Hd. cbn [fst plan_writes] in Hd.
      subst ws. unfold content. cbn [img offs rev app]. fold o n.
      repeat split; try lia.
      * unfold word_at. rewrite bytes_at_cons_skip by (rewrite wpos_mkwr; right; lia).
        rewrite <- (be4_len (lenN d)). rewrite bytes_at_cons_exact. apply unbe_be4.
        change (2^32) with 4294967296. pose proof (cnt_of_lt o). lia.
      * apply bytes_at_cons_exact.
      * destruct (N.eq_dec (lenN d) 0) as [E|E].
        -- replace (4096 * n + 4 + lenN d) with (4096 * n + 4) by lia.
           pose proof (fsize_cons_ge (mkwr (4096 * n + 4) d) (mkwr (4096 * n) (be 4 (lenN d)) :: img s)).
           pose proof (fsize_cons_end (mkwr (4096 * n) (be 4 (lenN d))) (img s)) as H9.
           rewrite wlen_mkwr, wend_mkwr, be4_lenN in H9. specialize (H9 ltac:(lia)). lia.
        -- pose proof (fsize_cons_end (mkwr (4096 * n + 4) d) (mkwr (4096 * n) (be 4 (lenN d)) :: img s)) as H9.
           rewrite wlen_mkwr, wend_mkwr in H9. specialize (H9 E). lia.
Qed.

(* ---------- the allocating path ---------- *)
Lemma run_planH fa sh p1 a p2 b :
  run_plan fa sh 0 [IOSeek; IOWrite p1 (be 4 a); IOSeek; IOWrite p2 (be 4 b)] =
  match fa with
  | 0%nat | 1%nat => ([], true)
  | 2%nat | 3%nat => ([mkwr p1 (be 4 a)], true)
  | _ => ([mkwr p1 (be 4 a); mkwr p2 (be 4 b)], false)
  end.
Proof.
  destruct fa as [|[|[|[|fa]]]]; cbn [run_plan Nat.eqb]; rewrite ?flen_be4; reflexivity.
Qed.

Lemma ts_write_safe2 s i v : M s -> i < 1024 -> safe2 s i (mkwr (4096 + 4 * i) (be 4 v)).
Proof.
  intros HM Hi. split.
  - intros j Hj Hji. split; [unfold leaves; rewrite wpos_mkwr; right; lia|].
    intros Hoj. destruct (M_entry s HM j Hj Hoj) as (B1 & _). unfold leaves. rewrite wend_mkwr, be4_lenN. left. lia.
  - intros j Hj Hji. unfold leaves. rewrite wpos_mkwr, wend_mkwr, be4_lenN. lia.
Qed.
Lemma hdr_write_safe2 s i v : M s -> i < 1024 -> safe2 s i (mkwr (4 * i) (be 4 v)).
Proof.
  intros HM Hi. split.
  - intros j Hj Hji. split; [unfold leaves; rewrite wpos_mkwr, wend_mkwr, be4_lenN; lia|].
    intros Hoj. destruct (M_entry s HM j Hj Hoj) as (B1 & _). unfold leaves. rewrite wend_mkwr, be4_lenN. left. lia.
  - intros j Hj Hji. unfold leaves. rewrite wend_mkwr, be4_lenN. left. lia.
Qed.

(* setHead failed: the tables are (extensionally) the old ones, the file changed at most in i's timestamp slot *)
Lemma undo_Rd s m D T i need n' now g sF :
  Rd s m D T -> i < 1024 -> 1 <= need -> need < 256 ->
  (forall j, j < need -> getB (mark (used s) (sec_of (getN (offs s) i)) (N.to_nat (cnt_of (getN (offs s) i))) false) (n' + j) = false) ->
  n' + need < sector_limit ->
  (g = [] \/ g = [mkwr (4096 + 4 * i) (be 4 (now mod 2^32))]) ->
  offs sF = setN (setN (offs s) i (n' * 256 + need)) i (sec_of (getN (offs s) i) * 256 + cnt_of (getN (offs s) i)) ->
  tss sF = tss s ->
  used sF = mark (mark (mark (mark (used s) (sec_of (getN (offs s) i)) (N.to_nat (cnt_of (getN (offs s) i))) false) n' (N.to_nat need) true)
                       n' (N.to_nat need) false) (sec_of (getN (offs s) i)) (N.to_nat (cnt_of (getN (offs s) i))) true ->
  hwm sF = N.max (hwm s) (n' + need) -> img sF = g ++ img s ->
  Rd sF m (nadd D i) (nadd T i).
Proof.
  intros [HM HF] Hi Hn1 Hn Hfree Hlim Hg Eo Et Eu Eh Ei.
  pose proof (M_undo s i need n' HM Hi Hn1 Hn Hfree Hlim sF Eo Eu Eh) as HM'.
  assert (Hoi : getN (offs sF) i = getN (offs s) i).
  { rewrite Eo, getN_set_same. pose proof (M_tab s HM i Hi) as Ht. unfold sec_of, cnt_of.
    change (2^32) with 4294967296 in Ht. change (2^24) with 16777216. lia. }
  split; [exact HM'|].
  apply (Fd_step s m D T sF m (nadd D i) (nadd T i) i g HF Ei).
  - destruct Hg as [->| ->]; [constructor|constructor; [apply (ts_write_safe2 s i _ HM Hi)|constructor]].
  - destruct Hg as [->| ->]; [constructor|constructor; [apply mkwr_ok|constructor]].
  - intros j Hj. rewrite Eo, !getN_set_other by exact Hj. reflexivity.
  - intros j Hj. rewrite Et. reflexivity.
  - intros _. rewrite Hoi, <- (F_hdr _ _ _ _ HF i Hi). apply word_at_app_leaves.
    destruct Hg as [->| ->]; [constructor|constructor; [|constructor]].
    unfold leaves. rewrite wpos_mkwr. right. lia.
  - intros j Hj HTj. destruct (nadd_false T i j HTj) as [A B]. split; [auto|]. intros E. contradiction.
  - intros j Hj HDj. apply (proj2 (nadd_false D i j HDj)).
  - reflexivity.
  - intros _ HDi. unfold nadd in HDi. rewrite N.eqb_refl in HDi. discriminate.
Qed.

(* setHead succeeded; the length / data phase may fail *)
Lemma data_Rd fa sh s m D T i d n' now wsD fD sF :
  Rd s m D T -> i < 1024 -> (lenN d + 4 + 4095) / 4096 < 256 ->
  let need := (lenN d + 4 + 4095) / 4096 in
  let o := getN (offs s) i in
  (forall j, j < need -> getB (mark (used s) (sec_of o) (N.to_nat (cnt_of o)) false) (n' + j) = false) ->
  n' + need < sector_limit ->
  run_plan fa sh 4 [IOSeek; IOWrite (4096 * n') (be 4 (lenN d)); IOWrite (4096 * n' + 4) d] = (wsD, fD) ->
  offs sF = setN (offs s) i (n' * 256 + need) -> tss sF = setN (tss s) i (now mod 2^32) ->
  used sF = mark (mark (used s) (sec_of o) (N.to_nat (cnt_of o)) false) n' (N.to_nat need) true ->
  hwm sF = N.max (hwm s) (n' + need) ->
  img sF = rev ([mkwr (4096 + 4 * i) (be 4 (now mod 2^32)); mkwr (4 * i) (be 4 (n' * 256 + need))] ++ wsD) ++ img s ->
  let r := if fD then WFErr else WFOk in
  Rd sF (upd_m m i d r) (upd_D D i r) (upd_T T i r).
Proof.
  intros [HM HF] Hi Hneed need o Hfree Hlim Erp Eo Et Eu Eh Ei r.
  destruct (need_bounds d) as (N1 & N2 & _). fold need in N1, N2.
  pose proof (M_alloc s i need n' HM Hi N1 Hneed Hfree Hlim sF Eo Eu Eh) as HM'.
  destruct (am_o' s i need n' Hi N1 Hneed Hfree Hlim) as (O1 & O2 & O3).
  pose proof (am_n'_ge2 s i need n' HM Hi N1 Hneed Hfree Hlim) as N3.
  pose proof (run_plan_within (4096 * n') (4096 * (n' + need)) fa sh
    [IOSeek; IOWrite (4096 * n') (be 4 (lenN d)); IOWrite (4096 * n' + 4) d] 4
    ltac:(intros p dd Hin; apply in_plan3 in Hin; destruct Hin as [[-> ->]|[-> ->]]; rewrite ?be4_lenN; lia)) as Hw.
  rewrite Erp in Hw. cbn [fst] in Hw. apply Forall_rev in Hw.
  set (hw := mkwr (4 * i) (be 4 (n' * 256 + need))) in *. set (tw := mkwr (4096 + 4 * i) (be 4 (now mod 2^32))) in *.
  assert (Eg : rev ([tw; hw] ++ wsD) = rev wsD ++ [hw; tw]) by (rewrite rev_app_distr; reflexivity).
  rewrite Eg in Ei. clear Eg. set (g := rev wsD ++ [hw; tw]) in *.
  assert (Hs2 : Forall (safe2 s i) g).
  { apply Forall_app. split.
    - eapply Forall_impl; [|exact Hw]. intros w. apply (within_safe2 s i n' need w HM N3).
      intros j Hj Hji Hoj. apply (am_apart s i need n' HM Hi N1 Hneed Hfree Hlim j Hj Hji Hoj).
    - constructor; [apply (hdr_write_safe2 s i _ HM Hi)|constructor; [apply (ts_write_safe2 s i _ HM Hi)|constructor]]. }
  assert (Hlg : log_ok g).
  { apply Forall_app. split; [eapply Forall_impl; [|exact Hw]; intros w [A _]; exact A|].
    constructor; [apply mkwr_ok|constructor; [apply mkwr_ok|constructor]]. }
  destruct (upd_side m D T i d r True) as (SD & Sm & ST).
  assert (Hhdr : word_at (g ++ img s) (4 * i) = n' * 256 + need).
  { unfold g. rewrite <- app_assoc. rewrite word_at_app_leaves by (apply (within_8192 n' need _ (4 * i) N3 ltac:(lia) Hw)).
    cbn [app]. unfold word_at, hw. rewrite <- (be4_len (n' * 256 + need)). rewrite bytes_at_cons_exact. apply unbe_be4. exact O1. }
  assert (Hts : word_at (g ++ img s) (4096 + 4 * i) = now mod 2^32).
  { unfold g. rewrite <- app_assoc. rewrite word_at_app_leaves by (apply (within_8192 n' need _ (4096 + 4 * i) N3 ltac:(lia) Hw)).
    cbn [app]. unfold word_at. rewrite bytes_at_cons_skip by (unfold hw; rewrite wend_mkwr, be4_lenN; left; lia).
    unfold tw. rewrite <- (be4_len (now mod 2^32)). rewrite bytes_at_cons_exact. apply unbe_be4. apply N.mod_lt. discriminate. }
  split; [exact HM'|].
  apply (Fd_step s m D T sF _ _ _ i g HF Ei Hs2 Hlg); auto.
  - intros j Hj. rewrite Eo, getN_set_other by exact Hj. reflexivity.
  - intros j Hj. rewrite Et, getN_set_other by exact Hj. reflexivity.
  - intros _. rewrite Eo, getN_set_same. exact Hhdr.
  - intros j Hj HTj. split; [apply (ST j HTj)|]. intros ->. rewrite Et, getN_set_same. exact Hts.
  - intros _ HDi. destruct fD; subst r; cbn [upd_D upd_m] in *.
    + unfold nadd in HDi. rewrite N.eqb_refl in HDi. discriminate.
    + rewrite aupd_same. split; [discriminate|]. intros d0 E0. inversion E0; subst d0. clear E0.
      pose proof (run_plan_done fa sh _ 4 ltac:(rewrite Erp; reflexivity)) as Hd. rewrite Erp in Hd. cbn [fst plan_writes] in Hd.
      unfold content. rewrite Ei, Eo, getN_set_same, O2, O3. unfold g. subst wsD. cbn [rev app].
      repeat split; try lia.
      * unfold word_at. rewrite bytes_at_cons_skip by (rewrite wpos_mkwr; right; lia).
        rewrite <- (be4_len (lenN d)). rewrite bytes_at_cons_exact. apply unbe_be4. change (2^32) with 4294967296. lia.
      * apply bytes_at_cons_exact.
      * destruct (N.eq_dec (lenN d) 0) as [E|E].
        -- replace (4096 * n' + 4 + lenN d) with (4096 * n' + 4) by lia.
           match goal with |- _ <= fsize (?a :: ?b :: ?f) =>
             pose proof (fsize_cons_ge a (b :: f)); pose proof (fsize_cons_end b f) as H9 end.
           rewrite wlen_mkwr, wend_mkwr, be4_lenN in H9. specialize (H9 ltac:(lia)). lia.
        -- match goal with |- _ <= fsize (?a :: ?f) => pose proof (fsize_cons_end a f) as H9 end.
           rewrite wlen_mkwr, wend_mkwr in H9. specialize (H9 E). lia.
Qed.

(* ---------- one (possibly failing) WriteSector ---------- *)
Theorem write_fail_Rd fa sh s m D T x z d now sF wsF r :
  Rd s m D T -> x < 32 -> z < 32 -> write_sector_fail fa sh s x z d now = (sF, wsF, r) ->
  Rd sF (upd_m m (idx x z) d r) (upd_D D (idx x z) r) (upd_T T (idx x z) r).
Proof.
  intros HR Hx Hz. pose proof (idx_lt x z Hx Hz) as Hi. destruct HR as [HM HF].
  unfold write_sector_fail. rewrite !flen_lenN. cbv zeta.
  set (i := idx x z) in *. set (o := getN (offs s) i). set (need := (lenN d + 4 + 4095) / 4096).
  destruct (need_bounds d) as (N1 & N2 & _). fold need in N1, N2.
  destruct (N.leb_spec 256 need) as [Hbig|Hsmall].
  { intros E. inversion E; subst. cbn [upd_m upd_D upd_T]. split; assumption. }
  destruct (negb (sec_of o =? 0) && (cnt_of o =? need)) eqn:Einp.
  - apply andb_true_iff in Einp. destruct Einp as [E1 E2].
    assert (Hsec : sec_of o <> 0) by (destruct (N.eqb_spec (sec_of o) 0); [discriminate|auto]).
    apply N.eqb_eq in E2.
    destruct (run_plan fa sh 0 [IOSeek; IOWrite (4096 * sec_of o) (be 4 (lenN d)); IOWrite (4096 * sec_of o + 4) d]) as [ws f] eqn:Erp.
    intros E. inversion E; subst sF wsF r. clear E.
    apply (inplace_Rd fa sh s m D T i d ws f (conj HM HF) Hi Hsec E2 Hsmall Erp).
  - set (u1 := mark (used s) (sec_of o) (N.to_nat (cnt_of o)) false).
    assert (HE : forall k, hwm s <= k -> getB u1 k = false).
    { intros k Hk. unfold u1. rewrite mark_spec, N2Nat.id.
      destruct ((sec_of o <=? k) && (k <? sec_of o + cnt_of o)); [reflexivity|].
      destruct (getB (used s) k) eqn:Eu; [|reflexivity]. pose proof (M_hw s HM k Eu). lia. }
    destruct (find_space_spec (hwm s) u1 need HE (N.to_nat (hwm s + need + 2)) 0 0
                ltac:(lia) ltac:(lia) ltac:(intros j Hj; lia) ltac:(lia)) as (n' & Hfs & Hfree & _ & Hn').
    rewrite Hfs.
    destruct (N.leb_spec sector_limit (n' + need)) as [Hout|Hin].
    { intros E. inversion E; subst. cbn [upd_m upd_D upd_T]. split; assumption. }
    rewrite run_planH.
    destruct fa as [|[|[|[|fa]]]].
    1-2: intros E; inversion E; subst sF wsF r; clear E; cbn [upd_m upd_D upd_T];
         eapply (undo_Rd s m D T i need n' now [] _ (conj HM HF) Hi N1 Hsmall Hfree Hin (or_introl eq_refl));
         cbn [offs tss used hwm img rev app]; reflexivity.
    1-2: intros E; inversion E; subst sF wsF r; clear E; cbn [upd_m upd_D upd_T];
         eapply (undo_Rd s m D T i need n' now [mkwr (4096 + 4 * i) (be 4 (now mod 2^32))] _ (conj HM HF) Hi N1 Hsmall Hfree Hin (or_intror eq_refl));
         cbn [offs tss used hwm img rev app]; reflexivity.
    destruct (run_plan (S (S (S (S fa)))) sh 4 [IOSeek; IOWrite (4096 * n') (be 4 (lenN d)); IOWrite (4096 * n' + 4) d]) as [wsD fD] eqn:Erp.
    intros E. inversion E; subst sF wsF r. clear E.
    eapply (data_Rd (S (S (S (S fa)))) sh s m D T i d n' now wsD fD _ (conj HM HF) Hi Hsmall Hfree Hin Erp);
      cbn [offs tss used hwm img]; reflexivity.
Qed.

(* ---------- what the invariant gives ---------- *)
(* a chunk whose last write succeeded reads back through the same object ... *)
Theorem clean_reads s m D T x z : Rd s m D T -> x < 32 -> z < 32 -> D (idx x z) = false ->
  read_sector s x z = spec_read m (idx x z).
Proof. intros HR Hx Hz HD. apply (read_clean s m D T _ HR (idx_lt x z Hx Hz) HD). Qed.

(* ... and after a reopen *)
Theorem clean_reads_reopen s m D T : Rd s m D T ->
  exists sl, load (img s) = LOk sl /\ img sl = img s /\
    forall x z, x < 32 -> z < 32 -> D (idx x z) = false -> read_sector sl x z = spec_read m (idx x z).
Proof.
  intros [HM HF]. pose proof (F_log _ _ _ _ HF) as Hlog. pose proof (F_size _ _ _ _ HF) as Hsz.
  unfold load. assert ((fsize (img s) <? 8192) = false) as -> by lia.
  eexists. split; [reflexivity|]. split; [reflexivity|].
  intros x z Hx Hz HD. pose proof (idx_lt x z Hx Hz) as Hi. unfold read_sector. cbn [img offs].
  rewrite load_tab_spec by assumption. rewrite N.add_0_l, (F_hdr _ _ _ _ HF _ Hi).
  apply (read_clean s m D T _ (conj HM HF) Hi HD).
Qed.

(* ---------- ALL histories of successful and failing writes and of reads ---------- *)
Inductive fop := FWrite (fa : nat) (sh : N) (x z : N) (d : list N) (now : N) | FRead (x z : N).
Definition fop_ok (o : fop) : Prop := match o with FWrite _ _ x z _ _ | FRead x z => x < 32 /\ z < 32 end.

(* the model, and next to it the specification: a map plus the set of chunks whose last write failed *)
Fixpoint frun (s : st) (m : amap) (D T : nset) (ops : list fop) : st * amap * nset * nset * list (option (rres * rres)) :=
  match ops with
  | [] => (s, m, D, T, [])
  | FWrite fa sh x z d now :: t =>
      let '(sF, _, r) := write_sector_fail fa sh s x z d now in
      frun sF (upd_m m (idx x z) d r) (upd_D D (idx x z) r) (upd_T T (idx x z) r) t
  | FRead x z :: t =>
      let '(s', m', D', T', l) := frun s m D T t in
      (s', m', D', T', (if D (idx x z) then None else Some (read_sector s x z, spec_read m (idx x z))) :: l)
  end.

Theorem frun_correct : forall ops s m D T s' m' D' T' l,
  Rd s m D T -> Forall fop_ok ops -> frun s m D T ops = (s', m', D', T', l) ->
  Rd s' m' D' T' /\ Forall (fun p => match p with Some (got, want) => got = want | None => True end) l.
Proof.
  induction ops as [|op t IH]; intros s m D T s' m' D' T' l HR Hok; cbn [frun].
  - intros E. inversion E; subst. split; [exact HR|constructor].
  - inversion Hok as [|? ? Ho Ht]; subst. destruct op as [fa sh x z d now|x z]; cbn [fop_ok] in Ho; destruct Ho as [Hx Hz].
    + destruct (write_sector_fail fa sh s x z d now) as [[sF wsF] r] eqn:Ew.
      intros E. apply (IH _ _ _ _ _ _ _ _ _ (write_fail_Rd fa sh s m D T x z d now sF wsF r HR Hx Hz Ew) Ht E).
    + destruct (frun s m D T t) as [[[[s1 m1] D1] T1] l1] eqn:Er.
      intros E. inversion E; subst. destruct (IH _ _ _ _ _ _ _ _ _ HR Ht Er) as [A B].
      split; [exact A|]. constructor; [|exact B].
      destruct (D (idx x z)) eqn:ED; [exact I|]. apply (clean_reads s m D T x z HR Hx Hz ED).
Qed.

Lemma Rd_create : Rd create aempty nnone nnone.
Proof.
  pose proof R_create as HR. split.
  - constructor.
    + intros j Hj H. unfold create in H. cbn [offs] in H. rewrite getN_empty in H. contradiction.
    + intros j Hj. unfold create. cbn [offs]. rewrite getN_empty. reflexivity.
    + intros i k Hi H. unfold create in H. cbn [offs] in H. rewrite getN_empty in H. contradiction.
    + apply (R_used01 _ _ HR).
    + intros i j k Hi Hj Hij H. unfold create in H. cbn [offs] in H. rewrite getN_empty in H. contradiction.
    + apply (R_hw _ _ HR).
    + apply (R_hwlim _ _ HR).
  - constructor.
    + apply (R_log _ _ HR).
    + apply (R_size _ _ HR).
    + apply (R_hdr _ _ HR).
    + intros i Hi _. apply (R_ts _ _ HR i Hi).
    + intros i Hi _ _. unfold create. cbn [offs]. apply getN_empty.
    + intros i d Hi _ H. discriminate.
Qed.

(* what Rd means for a user of the file, in one statement *)
Theorem Rd_gives s m D T : Rd s m D T ->
  (forall i j k, i < 1024 -> j < 1024 -> i <> j -> hdr (img s) i <> 0 -> hdr (img s) j <> 0 ->
     run_of (hdr (img s) i) k -> run_of (hdr (img s) j) k -> False) /\
  (forall x z, x < 32 -> z < 32 -> D (idx x z) = false -> read_sector s x z = spec_read m (idx x z)) /\
  (exists sl, load (img s) = LOk sl /\ img sl = img s /\
     forall x z, x < 32 -> z < 32 -> D (idx x z) = false -> read_sector sl x z = spec_read m (idx x z)).
Proof.
  intros HR. split; [apply (file_runs_disjoint s m D T HR)|]. split.
  - intros x z Hx Hz HD. apply (clean_reads s m D T x z HR Hx Hz HD).
  - apply (clean_reads_reopen s m D T HR).
Qed.
