(* C14 / C15: the RECORDED shapes of the statement skeletons of save/region/mca.go (what the hand-written model
   Model/C14.v was written against).  Proofs/C14_skel.v proves `map shape C14gen.<f> = expected_<f>` by
   reflexivity for what tools/gotrans/c14.go renders from the repository on every run: a swapped statement, a
   dropped check, a changed expression text or table index breaks one of them. *)
From Coq Require Import List String ZArith.
From GoMC Require Import Model.C14_syntax.
Import ListNotations.
Local Open Scope string_scope.

Definition expected_Load : list shape_stmt :=
  [SText "r = &Region{ f: f, sectors: make(map[int32]bool), }";
        SEff0 EReadOffsets "err = binary.Read(r.f, binary.BigEndian, &r.offsets)";
        SErrCheck "return nil, err"; SMark "r.sectors[0] = true" tt true;
        SEff0 EReadTimestamps "err = binary.Read(r.f, binary.BigEndian, &r.Timestamps)";
        SErrCheck "return nil, err"; SMark "r.sectors[1] = true" tt true;
        SRange Vv "for _, v := range r.offsets { for _, v := range v"
          [SLoc Vo Vs "o, s := sectorLoc(v)" tt;
           SIf "o != 0" tt
             [SFor LCounted Vi "for i := int32(0); i < s; i++" tt [SMark "r.sectors[o+i] = true" tt true]] []];
        SRet "return r, nil"].

Definition expected_CreateWriter : list shape_stmt :=
  [SText "r = new(Region)"; SText "r.sectors = make(map[int32]bool)"; SText "r.f = f";
        SEff0 EWriteOffsets "err = binary.Write(r.f, binary.BigEndian, &r.offsets)";
        SErrCheck "_ = r.Close(); return nil, err"; SMark "r.sectors[0] = true" tt true;
        SEff0 EWriteTimestamps "err = binary.Write(r.f, binary.BigEndian, &r.Timestamps)";
        SErrCheck "_ = r.Close(); return nil, err"; SMark "r.sectors[1] = true" tt true; 
        SRet "return r, nil"].

Definition expected_ReadSector : list shape_stmt :=
  [SLoc Vsec Vnum "sec, num := sectorLoc(r.offsets[z][x])" tt;
        SIf "sec == 0" tt [SRet "return nil, ErrNoSector"] [];
        SEff ESeek "_, err = r.f.Seek(4096*int64(sec), 0)" tt; SErrCheck "return";
        SEff ELimit "reader := io.LimitReader(r.f, 4096*int64(num))" tt; SEff0 EVarLength "var length int32";
        SEff0 EReadLength "err = binary.Read(reader, binary.BigEndian, &length)"; 
        SErrCheck "return"; SIf "length == 0" tt [SRet "return nil, ErrNoData"] [];
        SIf "length < 0" tt [SRet "return nil, ErrSectorNegativeLength"] [];
        SIf "length > 4096*num" tt [SRet "return nil, ErrTooLarge"] [];
        SEff EMakeData "data = make([]byte, length)" tt;
        SEff0 EReadFull "_, err = io.ReadFull(reader, data)"; SRet "return"].

Definition expected_WriteSector : list shape_stmt :=
  [SLet Vneed "need := int32((len(data) + 4 + 4096 - 1) / 4096)" tt;
        SLoc Vn Vnow "n, now := sectorLoc(r.offsets[z][x])" tt;
        SIf "need >= 256" tt [SRet "return ErrTooLarge"] [];
        SIf "n != 0 && now == need" tt []
          [SLet VoldN "oldN, oldNow := n, now" tt; SLet VoldNow "oldN, oldNow := n, now" tt;
           SFor LCounted Vi "for i := int32(0); i < now; i++" tt [SMark "r.sectors[n+i] = false" tt false];
           SEff ECallFindSpace "n = r.findSpace(need)" tt; SLet Vnow "now = need" tt;
           SFor LCounted Vi "for i := int32(0); i < need; i++" tt [SMark "r.sectors[n+i] = true" tt true];
           SEff ESetOffset "r.offsets[z][x] = (n << 8) | (need & 0xFF)" tt;
           SEff0 ENow "timestamp := time.Now().Unix()";
           SEff2 ECallSetHead "err := r.setHead(x, z, uint32(r.offsets[z][x]), uint32(timestamp))" tt tt;
           SErrDo "return err"
             [SFor LCounted Vi "for i := int32(0); i < need; i++" tt
                [SMark "r.sectors[n+i] = false" tt false];
              SFor LCounted Vi "for i := int32(0); i < oldNow; i++" tt
                [SMark "r.sectors[oldN+i] = true" tt true];
              SEff ESetOffset "r.offsets[z][x] = (oldN << 8) | (oldNow & 0xFF)" tt];
           SEff ESetTs "r.Timestamps[z][x] = int32(timestamp)" tt];
        SEff ESeek "_, err := r.f.Seek(4096*int64(n), 0)" tt; SErrCheck "return err";
        SEff EWriteInt32 "err = binary.Write(r.f, binary.BigEndian, int32(len(data)))" tt;
        SErrCheck "return err"; SEff0 EWriteData "_, err = r.f.Write(data)"; SErrCheck "return err";
        SRet "return nil"].

Definition expected_ExistSector : list shape_stmt :=
  [SRetBool "return r.offsets[z][x] != 0" tt].

Definition expected_PadToFullSector : list shape_stmt :=
  [SEff0 ESeekEnd "size, err := r.f.Seek(0, io.SeekEnd)"; SErrCheck "return err";
        SIf "size%4096 != 0" tt
          [SEff EWriteZeros "_, err = r.f.Write(make([]byte, 4096-size%4096))" tt; SErrCheck "return err"] [];
        SRet "return nil"].

Definition expected_findSpace : list shape_stmt :=
  [SFor LScan Vi "for i := int32(0); i < need; i++" tt
          [SIfUsed "r.sectors[n+i]" tt [SLet Vn "n += i + 1" tt; SLet Vi "i = -1" tt]]; 
        SRet "return"].

Definition expected_setHead : list shape_stmt :=
  [SEff0 EVarBuf "var buf [4]byte"; SEff EPut32 "binary.BigEndian.PutUint32(buf[:], timestamp)" tt;
        SEff EWriteAt "_, err = r.writeAt(buf[:], 4096+4*(int64(z)*32+int64(x)))" tt; 
        SErrCheck "return"; SEff EPut32 "binary.BigEndian.PutUint32(buf[:], offset)" tt;
        SEff EWriteAt "_, err = r.writeAt(buf[:], 4*(int64(z)*32+int64(x)))" tt; 
        SErrCheck "return"; SRet "return"].

Definition expected_Region_fields : list string :=
  ["f io.ReadWriteSeeker"; "offsets [32][32]int32"; "Timestamps [32][32]int32"; "sectors map[int32]bool"].

Definition expected_writeAt : list shape_stmt :=
  [SIfWriterAt "if f, ok := r.f.(io.WriterAt); ok" [SRetWriteAt "return f.WriteAt(p, off)" tt];
        SEff ESeek "_, err = r.f.Seek(off, 0)" tt; SErrCheck "return 0, err"; SRetWrite "return r.f.Write(p)"].

