(* C14: facts about the log-of-writes file: the efficient range read equals the byte-level meaning *)
From Coq Require Import List Arith NArith ZArith Lia Bool ZifyN ZifyNat ZifyBool FMapPositive.
From GoMC Require Import Base.Bytes Model.C14.
Import ListNotations.
Open Scope N_scope.

(* ---------- list helpers ---------- *)
Lemma len_acc_spec l : forall acc, len_acc l acc = acc + lenN l.
Proof.
  induction l as [|x t IH]; intros acc; cbn [len_acc].
  - rewrite lenN_nil. lia.
  - rewrite IH, lenN_cons. lia.
Qed.
Lemma flen_lenN l : flen l = lenN l.
Proof. unfold flen. rewrite len_acc_spec. lia. Qed.

Lemma ftake_firstn l : forall n, ftake l n = firstn (N.to_nat n) l.
Proof.
  induction l as [|x t IH]; intros n; cbn [ftake].
  - now rewrite firstn_nil.
  - destruct (N.eqb_spec n 0) as [->|Hn]; [reflexivity|].
    replace (N.to_nat n) with (S (N.to_nat (N.pred n))) by lia.
    cbn [firstn]. now rewrite IH.
Qed.
Lemma fdrop_skipn l : forall n, fdrop l n = skipn (N.to_nat n) l.
Proof.
  induction l as [|x t IH]; intros n; cbn [fdrop].
  - now rewrite skipn_nil.
  - destruct (N.eqb_spec n 0) as [->|Hn]; [reflexivity|].
    replace (N.to_nat n) with (S (N.to_nat (N.pred n))) by lia.
    cbn [skipn]. now rewrite IH.
Qed.
Lemma fzeros_repeat n : fzeros n = repeat 0 (N.to_nat n).
Proof.
  unfold fzeros. rewrite N2Nat.inj_iter.
  generalize (N.to_nat n) as k. induction k as [|k IH]; simpl; [reflexivity|now rewrite IH].
Qed.

Lemma lenN_firstn {A} k (l : list A) : lenN (firstn k l) = N.min (N.of_nat k) (lenN l).
Proof. unfold lenN. rewrite firstn_length. lia. Qed.
Lemma lenN_skipn {A} k (l : list A) : lenN (skipn k l) = lenN l - N.of_nat k.
Proof. unfold lenN. rewrite skipn_length. lia. Qed.
Lemma lenN_repeat {A} (x : A) k : lenN (repeat x k) = N.of_nat k.
Proof. unfold lenN. now rewrite repeat_length. Qed.
Lemma lenN_fzeros n : lenN (fzeros n) = n.
Proof. rewrite fzeros_repeat, lenN_repeat. lia. Qed.
Lemma flen_fzeros n : flen (fzeros n) = n.
Proof. rewrite flen_lenN. apply lenN_fzeros. Qed.

(* ---------- well-formed logs: the stored length is the length ---------- *)
Definition wr_ok (w : wr) : Prop := wlen w = lenN (wdat w).
Definition log_ok (f : file) : Prop := Forall wr_ok f.
Lemma mkwr_ok p d : wr_ok (mkwr p d).
Proof. unfold wr_ok, mkwr, wlen, wdat. cbn [fst snd]. apply flen_lenN. Qed.
Lemma wpos_mkwr p d : wpos (mkwr p d) = p. Proof. reflexivity. Qed.
Lemma wdat_mkwr p d : wdat (mkwr p d) = d. Proof. reflexivity. Qed.
Lemma wlen_mkwr p d : wlen (mkwr p d) = lenN d. Proof. unfold mkwr, wlen. cbn [fst snd]. apply flen_lenN. Qed.
Lemma wend_mkwr p d : wend (mkwr p d) = p + lenN d. Proof. unfold wend. now rewrite wpos_mkwr, wlen_mkwr. Qed.

(* ---------- bytes_at ---------- *)
Lemma bytes_at_length f p n : length (bytes_at f p n) = n.
Proof. unfold bytes_at. now rewrite map_length, seq_length. Qed.

Lemma map_seq_shift {A} (g : nat -> A) b : forall a,
  map g (seq a b) = map (fun k => g (a + k)%nat) (seq 0 b).
Proof.
  induction b as [|b IH]; intros a; [reflexivity|].
  cbn [seq map]. f_equal; [f_equal; lia|].
  rewrite IH, <- seq_shift, map_map. apply map_ext. intros k. f_equal. lia.
Qed.

Lemma bytes_at_app f p a b :
  bytes_at f p (a + b) = bytes_at f p a ++ bytes_at f (p + N.of_nat a) b.
Proof.
  unfold bytes_at. rewrite seq_app, map_app. f_equal.
  cbn [Nat.add]. rewrite map_seq_shift. apply map_ext. intros k. f_equal. lia.
Qed.

Lemma map_const_repeat {A B} (c : B) (l : list A) : map (fun _ => c) l = repeat c (length l).
Proof. induction l as [|x t IH]; simpl; [reflexivity|now rewrite IH]. Qed.

Lemma bytes_at_nil p k : bytes_at [] p k = repeat 0 k.
Proof. unfold bytes_at. cbn [byte_at]. rewrite map_const_repeat, seq_length. reflexivity. Qed.

Lemma bytes_at_skip w f p k :
  (forall j, (j < k)%nat -> covers w (p + N.of_nat j) = false) ->
  bytes_at (w :: f) p k = bytes_at f p k.
Proof.
  intros H. unfold bytes_at. apply map_ext_in. intros j Hj. apply in_seq in Hj.
  cbn [byte_at]. rewrite H by lia. reflexivity.
Qed.

Lemma skipn_S_tl {A} s : forall (l : list A), skipn (S s) l = tl (skipn s l).
Proof.
  induction s as [|s IH]; intros l.
  - destruct l; reflexivity.
  - destruct l as [|x t]; [reflexivity|].
    change (skipn (S (S s)) (x :: t)) with (skipn (S s) t).
    change (skipn (S s) (x :: t)) with (skipn s t). apply IH.
Qed.

Lemma firstn_skipn_nth (l : list N) s m : (s + m <= length l)%nat ->
  firstn m (skipn s l) = map (fun j => nth (s + j) l 0) (seq 0 m).
Proof.
  revert s. induction m as [|m IH]; intros s H; [reflexivity|].
  cbn [seq map]. rewrite <- seq_shift, map_map.
  destruct (skipn s l) as [|x t] eqn:E.
  - assert (length (skipn s l) = 0%nat) by (rewrite E; reflexivity). rewrite skipn_length in H0. lia.
  - cbn [firstn]. f_equal.
    + replace (s + 0)%nat with s by lia.
      rewrite <- (firstn_skipn s l) at 1. rewrite E.
      rewrite app_nth2 by (rewrite firstn_length; lia).
      rewrite firstn_length. replace (s - Nat.min s (length l))%nat with 0%nat by lia. reflexivity.
    + assert (Et : t = skipn (S s) l).
      { rewrite skipn_S_tl, E. reflexivity. }
      rewrite Et, IH by lia. apply map_ext. intros j. f_equal. lia.
Qed.

Lemma bytes_at_covered w f p k : wr_ok w ->
  wpos w <= p -> p + N.of_nat k <= wend w ->
  bytes_at (w :: f) p k =
  firstn k (skipn (N.to_nat (p - wpos w)) (wdat w)).
Proof.
  intros Hok Hlo Hhi. unfold wr_ok in Hok. unfold wend in Hhi.
  rewrite firstn_skipn_nth by (unfold lenN in Hok; lia).
  unfold bytes_at. apply map_ext_in. intros j Hj. apply in_seq in Hj.
  cbn [byte_at]. unfold covers, wend.
  assert ((wpos w <=? p + N.of_nat j) = true) as -> by lia.
  assert ((p + N.of_nat j <? wpos w + wlen w) = true) as -> by lia.
  cbn [andb]. f_equal. lia.
Qed.

Theorem read_range_eq f : log_ok f -> forall p n, read_range f p n = bytes_at f p (N.to_nat n).
Proof.
  induction 1 as [|w f' Hw Hf IH]; intros p n.
  - cbn [read_range]. rewrite fzeros_repeat, bytes_at_nil. reflexivity.
  - cbn [read_range].
    destruct (N.eqb_spec n 0) as [->|Hn]; [reflexivity|].
    destruct (N.leb_spec (wend w) p) as [H1|H1].
    { cbn [orb]. rewrite IH. symmetry. apply bytes_at_skip. intros j Hj. unfold covers.
      destruct (N.ltb_spec (p + N.of_nat j) (wend w)); [lia|]. apply andb_false_r. }
    destruct (N.leb_spec (p + n) (wpos w)) as [H2|H2].
    { cbn [orb]. rewrite IH. symmetry. apply bytes_at_skip. intros j Hj. unfold covers.
      destruct (N.leb_spec (wpos w) (p + N.of_nat j)); [lia|]. reflexivity. }
    cbn [orb]. cbv zeta.
    set (lo := N.max p (wpos w)). set (hi := N.min (p + n) (wend w)).
    assert (Hlo1 : p <= lo) by (unfold lo; lia).
    assert (Hlo2 : wpos w <= lo) by (unfold lo; lia).
    assert (Hhi1 : hi <= p + n) by (unfold hi; lia).
    assert (Hhi2 : hi <= wend w) by (unfold hi; lia).
    assert (Hlh : lo <= hi) by (unfold lo, hi, wend in *; lia).
    rewrite !IH, ftake_firstn, fdrop_skipn.
    replace (N.to_nat n) with (N.to_nat (lo - p) + (N.to_nat (hi - lo) + N.to_nat (p + n - hi)))%nat by lia.
    rewrite bytes_at_app, bytes_at_app.
    f_equal; [|f_equal].
    + symmetry. apply bytes_at_skip. intros j Hj. unfold covers.
      destruct (N.leb_spec (wpos w) (p + N.of_nat j)); [|reflexivity].
      exfalso. unfold lo in *. lia.
    + replace (p + N.of_nat (N.to_nat (lo - p))) with lo by lia.
      rewrite bytes_at_covered by (auto; lia). reflexivity.
    + replace (p + N.of_nat (N.to_nat (lo - p)) + N.of_nat (N.to_nat (hi - lo))) with hi by lia.
      symmetry. apply bytes_at_skip. intros j Hj. unfold covers.
      destruct (N.ltb_spec (hi + N.of_nat j) (wend w)); [|apply andb_false_r].
      exfalso. unfold hi in *. lia.
Qed.

Lemma read_range_length f p n : log_ok f -> lenN (read_range f p n) = n.
Proof. intros H. rewrite read_range_eq by exact H. unfold lenN. rewrite bytes_at_length. lia. Qed.

(* the two facts everything else uses *)
Lemma bytes_at_cons_skip w f p k :
  (wend w <= p \/ p + N.of_nat k <= wpos w) -> bytes_at (w :: f) p k = bytes_at f p k.
Proof.
  intros H. apply bytes_at_skip. intros j Hj. unfold covers.
  destruct (N.leb_spec (wpos w) (p + N.of_nat j)); [|reflexivity].
  destruct (N.ltb_spec (p + N.of_nat j) (wend w)); [|reflexivity]. lia.
Qed.

Lemma bytes_at_cons_exact p d f : bytes_at (mkwr p d :: f) p (length d) = d.
Proof.
  rewrite bytes_at_covered.
  - rewrite wpos_mkwr, wdat_mkwr, N.sub_diag. cbn [N.to_nat skipn]. apply firstn_all.
  - apply mkwr_ok.
  - rewrite wpos_mkwr. lia.
  - rewrite wend_mkwr. unfold lenN. lia.
Qed.

Lemma bytes_at_cons_prefix p d f k : (k <= length d)%nat ->
  bytes_at (mkwr p d :: f) p k = firstn k d.
Proof.
  intros H. rewrite bytes_at_covered.
  - rewrite wpos_mkwr, wdat_mkwr, N.sub_diag. reflexivity.
  - apply mkwr_ok.
  - rewrite wpos_mkwr. lia.
  - rewrite wend_mkwr. unfold lenN. lia.
Qed.

(* file size *)
Lemma fsize_cons_ge w f : fsize f <= fsize (w :: f).
Proof. cbn [fsize]. destruct (wlen w =? 0); lia. Qed.
Lemma fsize_app_ge g f : fsize f <= fsize (g ++ f).
Proof. induction g as [|w g IH]; [cbn [app]; lia|]. cbn [app]. pose proof (fsize_cons_ge w (g ++ f)). lia. Qed.
Lemma fsize_cons_end w f : wlen w <> 0 -> wend w <= fsize (w :: f).
Proof. intros H. cbn [fsize]. destruct (N.eqb_spec (wlen w) 0); lia. Qed.

Lemma skipn_repeat' {A} (x : A) : forall n k, skipn k (repeat x n) = repeat x (n - k).
Proof.
  induction n as [|n IH]; intros k; [now rewrite skipn_nil|].
  destruct k as [|k]; [reflexivity|]. cbn [repeat skipn Nat.sub]. apply IH.
Qed.
Lemma firstn_repeat' {A} (x : A) : forall n k, (k <= n)%nat -> firstn k (repeat x n) = repeat x k.
Proof.
  induction n as [|n IH]; intros k H.
  - replace k with 0%nat by lia. reflexivity.
  - destruct k as [|k]; [reflexivity|]. cbn [repeat firstn]. f_equal. apply IH. lia.
Qed.
