(* C14: all histories of write / read / exist / pad / reopen refine a map from chunk index to bytes;
   the file is a valid Anvil region at every point. *)
From Coq Require Import List Arith NArith ZArith Lia Bool ZifyN ZifyNat ZifyBool FMapPositive.
From GoMC Require Import Base.Bytes Model.C14 Proofs.C14_file Proofs.C14_alloc Proofs.C14.
Import ListNotations.
Open Scope N_scope.

(* ---------- the specification: a map with insert / lookup, nothing else ---------- *)
Inductive aobs :=
| AWrite (accepted : bool)
| ARead (r : rres)
| AExist (b : bool)
| APad
| AReopen.

Definition is_some {A} (o : option A) : bool := match o with Some _ => true | None => false end.
Definition chunk_limit : N := 255 * 4096.

Definition spec_step (m : amap) (o : op) : amap * aobs :=
  match o with
  | OWrite x z d _ =>
      if lenN d + 4 <=? chunk_limit then (aupd m (idx x z) d, AWrite true) else (m, AWrite false)
  | ORead x z => (m, ARead (spec_read m (idx x z)))
  | OExist x z => (m, AExist (is_some (m (idx x z))))
  | OPad => (m, APad)
  | OReopen => (m, AReopen)
  end.

Fixpoint spec_run (m : amap) (ops : list op) : amap * list aobs :=
  match ops with
  | [] => (m, [])
  | o :: t => let '(m1, b) := spec_step m o in let '(m2, bs) := spec_run m1 t in (m2, b :: bs)
  end.

(* what an observation of the model says at the level of the specification; the write lists are dropped,
   `None` marks the two outcomes the specification does not have *)
Definition abs_obs (b : obs) : option aobs :=
  match b with
  | BWrite WOk _ => Some (AWrite true)
  | BWrite WTooLarge _ => Some (AWrite false)
  | BWrite WOutside _ => None
  | BRead r => Some (ARead r)
  | BExist e => Some (AExist e)
  | BPad _ => Some APad
  | BReopen true => Some AReopen
  | BReopen false => None
  end.

Definition op_ok (o : op) : Prop :=
  match o with
  | OWrite x z _ _ | ORead x z | OExist x z => x < 32 /\ z < 32
  | _ => True
  end.

Fixpoint nwrites (ops : list op) : N :=
  match ops with
  | [] => 0
  | OWrite _ _ _ _ :: t => 1 + nwrites t
  | _ :: t => nwrites t
  end.

(* ---------- the high-water mark ---------- *)
Lemma R_hwm_ge2 s m : R s m -> 2 <= hwm s.
Proof.
  intros HR. destruct (R_used01 s m HR) as [_ B]. pose proof (R_hw s m HR 1 B). lia.
Qed.

Lemma load_hwm_le_gen s m o (l : list nat) : R s m ->
  (forall i, In i l -> (i < 1024)%nat) ->
  (forall j, j < 1024 -> getN o j = getN (offs s) j) ->
  fold_left (fun h i => let w := getN o (N.of_nat i) in
               if sec_of w =? 0 then h else N.max h (sec_of w + cnt_of w)) l 2 <= hwm s.
Proof.
  intros HR Hl Ho. apply (hfold_le o l).
  - intros i Hi Hs. apply Hl in Hi. rewrite Ho in * by lia.
    assert (Hnz : getN (offs s) (N.of_nat i) <> 0).
    { intros E. apply Hs. rewrite E. reflexivity. }
    destruct (m (N.of_nat i)) as [di|] eqn:Em.
    + destruct (R_present s m HR (N.of_nat i) di ltac:(lia) Em) as (_ & _ & _ & _ & _ & _ & Q7). exact Q7.
    + exfalso. apply Hnz. apply (R_absent s m HR (N.of_nat i) ltac:(lia) Em).
  - apply (R_hwm_ge2 s m HR).
Qed.

Lemma load_hwm_le s m o : R s m -> (forall j, j < 1024 -> getN o j = getN (offs s) j) -> load_hwm o <= hwm s.
Proof.
  intros HR Ho.
  exact (load_hwm_le_gen s m o (seq 0 1024) HR (fun i Hi => proj2 (proj1 (in_seq _ _ _) Hi)) Ho).
Qed.

Lemma reopen_correct s m : R s m ->
  exists s', load (img s) = LOk s' /\ R s' m /\ img s' = img s /\ hwm s' <= hwm s /\
    (forall j, j < 1024 -> getN (offs s') j = getN (offs s) j /\ getN (tss s') j = getN (tss s) j).
Proof.
  intros HR. destruct (load_correct s m HR) as (s' & Hl & HR' & Hi & Ht).
  exists s'. split; [exact Hl|]. split; [exact HR'|]. split; [exact Hi|]. split; [|exact Ht].
  assert (Hh : hwm s' = load_hwm (offs s')).
  { unfold load in Hl. destruct (fsize (img s) <? 8192); [discriminate|]. inversion Hl. reflexivity. }
  rewrite Hh. apply (load_hwm_le s m _ HR). intros j Hj. apply (Ht j Hj).
Qed.

(* ---------- one operation ---------- *)
Theorem step_correct s m o s' b :
  R s m -> op_ok o -> hwm s + 255 < sector_limit ->
  step s o = (s', b) ->
  let '(m', a) := spec_step m o in
  R s' m' /\ abs_obs b = Some a /\ hwm s' <= hwm s + (match o with OWrite _ _ _ _ => 255 | _ => 0 end).
Proof.
  intros HR Hok Hlim. destruct o as [x z d now|x z|x z| |]; cbn [step spec_step op_ok] in *.
  - destruct Hok as [Hx Hz].
    destruct (write_sector s x z d now) as [[s1 ws] r] eqn:Ew. intros E. inversion E; subst s' b. clear E.
    pose proof (write_correct s m x z d now s1 ws r HR Hx Hz Ew) as P.
    unfold chunk_limit. destruct r; cbn [write_post] in P.
    + destruct P as (P1 & _ & _ & _ & P5 & P6).
      assert ((lenN d + 4 <=? 255 * 4096) = true) as -> by lia. split; [exact P1|]. split; [reflexivity|exact P6].
    + destruct P as (-> & -> & P3).
      assert ((lenN d + 4 <=? 255 * 4096) = false) as -> by lia. split; [exact HR|]. split; [reflexivity|lia].
    + destruct P as (_ & _ & P3). lia.
  - destruct Hok as [Hx Hz]. intros E. inversion E; subst s' b. clear E.
    split; [exact HR|]. split; [|lia]. cbn [abs_obs]. unfold read_sector.
    rewrite (read_correct s m (idx x z) HR (idx_lt x z Hx Hz)). reflexivity.
  - destruct Hok as [Hx Hz]. intros E. inversion E; subst s' b. clear E.
    split; [exact HR|]. split; [|lia]. cbn [abs_obs]. unfold exist_sector.
    rewrite (exist_correct s m (idx x z) HR (idx_lt x z Hx Hz)). reflexivity.
  - destruct (pad s) as [s1 ws] eqn:Ep. intros E. inversion E; subst s' b. clear E.
    destruct (pad_correct s m s1 ws HR Ep) as [A _]. split; [exact A|]. split; [reflexivity|].
    unfold pad in Ep. cbv zeta in Ep. destruct (fsize (img s) mod 4096 =? 0); inversion Ep; subst; cbn [hwm]; lia.
  - destruct (reopen_correct s m HR) as (s1 & Hl & HR1 & _ & Hh & _). rewrite Hl.
    intros E. inversion E; subst s' b. clear E. split; [exact HR1|]. split; [reflexivity|lia].
Qed.

(* ---------- all histories ---------- *)
Theorem run_correct : forall ops s m s' bs,
  R s m -> Forall op_ok ops -> hwm s + 255 * nwrites ops < sector_limit ->
  run s ops = (s', bs) ->
  let '(m', abs) := spec_run m ops in
  R s' m' /\ map abs_obs bs = map Some abs /\ hwm s' <= hwm s + 255 * nwrites ops.
Proof.
  induction ops as [|o t IH]; intros s m s' bs HR Hok Hlim; cbn [run spec_run].
  - intros E. inversion E; subst s' bs. cbn [nwrites map]. split; [exact HR|]. split; [reflexivity|lia].
  - inversion Hok as [|? ? Ho Ht]; subst.
    destruct (step s o) as [s1 b] eqn:Es. destruct (run s1 t) as [s2 bs2] eqn:Er.
    intros E. inversion E; subst s' bs. clear E.
    assert (Hw : nwrites (o :: t) = (match o with OWrite _ _ _ _ => 1 | _ => 0 end) + nwrites t)
      by (destruct o; cbn [nwrites]; lia).
    assert (Hlim1 : hwm s + 255 < sector_limit \/ (match o with OWrite _ _ _ _ => False | _ => True end)).
    { destruct o; auto; left; rewrite Hw in Hlim; lia. }
    assert (Hstep : let '(m', a) := spec_step m o in
              R s1 m' /\ abs_obs b = Some a /\ hwm s1 <= hwm s + (match o with OWrite _ _ _ _ => 255 | _ => 0 end)).
    { destruct Hlim1 as [L|L].
      - apply (step_correct s m o s1 b HR Ho L Es).
      - (* not a write: the limit plays no part; replay step_correct's cases with a trivial bound *)
        destruct o as [x z d now|x z|x z| |]; try contradiction; cbn [step spec_step op_ok] in *.
        + destruct Ho as [Hx Hz]. inversion Es; subst s1 b.
          split; [exact HR|]. split; [|lia]. cbn [abs_obs]. unfold read_sector.
          rewrite (read_correct s m (idx x z) HR (idx_lt x z Hx Hz)). reflexivity.
        + destruct Ho as [Hx Hz]. inversion Es; subst s1 b.
          split; [exact HR|]. split; [|lia]. cbn [abs_obs]. unfold exist_sector.
          rewrite (exist_correct s m (idx x z) HR (idx_lt x z Hx Hz)). reflexivity.
        + destruct (pad s) as [sp ws] eqn:Ep. inversion Es; subst s1 b.
          destruct (pad_correct s m sp ws HR Ep) as [A _]. split; [exact A|]. split; [reflexivity|].
          unfold pad in Ep. cbv zeta in Ep. destruct (fsize (img s) mod 4096 =? 0); inversion Ep; subst; cbn [hwm]; lia.
        + destruct (reopen_correct s m HR) as (sr & Hl & HR1 & _ & Hh & _). rewrite Hl in Es.
          inversion Es; subst s1 b. split; [exact HR1|]. split; [reflexivity|lia]. }
    destruct (spec_step m o) as [m1 a] eqn:Ess. destruct Hstep as (HR1 & Ha & Hh1).
    assert (Hlim2 : hwm s1 + 255 * nwrites t < sector_limit).
    { rewrite Hw in Hlim. destruct o; lia. }
    specialize (IH s1 m1 s2 bs2 HR1 Ht Hlim2 Er).
    destruct (spec_run m1 t) as [m2 abs2]. destruct IH as (HR2 & Hm & Hh2).
    split; [exact HR2|]. split.
    + cbn [map]. rewrite Ha, Hm. reflexivity.
    + rewrite Hw. destruct o; lia.
Qed.

(* from a freshly created file: every history with fewer than ~32 896 accepted-size writes (files below
   32 GiB: sector numbers stay below 2^23, the range in which Go's int32 `n<<8` is exact) *)
Theorem run_correct_fresh ops s' bs :
  Forall op_ok ops -> 2 + 255 * nwrites ops < sector_limit ->
  run create ops = (s', bs) ->
  let '(m', abs) := spec_run aempty ops in
  R s' m' /\ map abs_obs bs = map Some abs.
Proof.
  intros Hok Hlim Er.
  pose proof (run_correct ops create aempty s' bs R_create Hok Hlim Er) as H.
  destruct (spec_run aempty ops) as [m' abs]. destruct H as (A & B & _). auto.
Qed.

(* ---------- "at every point": prefixes of a history ---------- *)
Lemma nwrites_firstn k : forall ops, nwrites (firstn k ops) <= nwrites ops.
Proof.
  induction k as [|k IH]; intros [|o t]; cbn [firstn nwrites]; try lia.
  specialize (IH t). destruct o; cbn [nwrites]; lia.
Qed.

Lemma Forall_firstn {A} (P : A -> Prop) k : forall l, Forall P l -> Forall P (firstn k l).
Proof.
  induction k as [|k IH]; intros [|a l] H; cbn [firstn]; auto.
  inversion H; subst. constructor; auto.
Qed.

(* ---------- the file, judged from its bytes alone ---------- *)
Definition hdr (f : file) (i : N) : N := rd32 f (4 * i).

Record valid_anvil (f : file) : Prop := {
  VA_size : 8192 <= fsize f;
  VA_entry : forall i, i < 1024 -> hdr f i <> 0 ->
      let o := hdr f i in let len := rd32 f (4096 * sec_of o) in
      2 <= sec_of o /\ 1 <= cnt_of o /\ len + 4 <= 4096 * cnt_of o /\ 4096 * sec_of o + 4 + len <= fsize f;
  VA_disj : forall i j k, i < 1024 -> j < 1024 -> i <> j -> hdr f i <> 0 -> hdr f j <> 0 ->
      run_of (hdr f i) k -> run_of (hdr f j) k -> False
}.

Theorem valid_anvil_correct s m : R s m ->
  valid_anvil (img s) /\
  (forall i, i < 1024 -> anvil_chunk (img s) i = spec_read m i) /\
  (forall i, i < 1024 -> (hdr (img s) i = 0 <-> m i = None)).
Proof.
  intros HR. pose proof (R_log s m HR) as Hlog.
  assert (Hh : forall i, i < 1024 -> hdr (img s) i = getN (offs s) i).
  { intros i Hi. unfold hdr. rewrite rd32_word_at by exact Hlog. apply (R_hdr s m HR i Hi). }
  split; [|split].
  - constructor.
    + apply (R_size s m HR).
    + intros i Hi Hnz. cbv zeta. rewrite Hh in * by exact Hi.
      destruct (m i) as [d|] eqn:Em; [|exfalso; apply Hnz; apply (R_absent s m HR i Hi Em)].
      destruct (R_present s m HR i d Hi Em) as (Q1 & Q2 & Q3 & Q4 & Q5 & Q6 & Q7). cbv zeta in *.
      rewrite rd32_word_at by exact Hlog. rewrite Q4. repeat split; auto.
    + intros i j k Hi Hj Hij Hoi Hoj Hki Hkj. rewrite Hh in * by assumption.
      apply (R_disj s m HR i j k Hi Hj Hij Hoi Hoj Hki Hkj).
  - intros i Hi. apply (anvil_correct s m i HR Hi).
  - intros i Hi. rewrite Hh by exact Hi. symmetry. apply (R_zero_iff s m i HR Hi).
Qed.

Theorem run_prefix_valid ops s m k :
  R s m -> Forall op_ok ops -> hwm s + 255 * nwrites ops < sector_limit ->
  let sk := fst (run s (firstn k ops)) in
  let mk := fst (spec_run m (firstn k ops)) in
  R sk mk /\ valid_anvil (img sk) /\ (forall i, i < 1024 -> anvil_chunk (img sk) i = spec_read mk i).
Proof.
  intros HR Hok Hlim. cbv zeta.
  pose proof (nwrites_firstn k ops) as Hn.
  destruct (run s (firstn k ops)) as [sk bs] eqn:Er.
  pose proof (run_correct (firstn k ops) s m sk bs HR (Forall_firstn _ k ops Hok) ltac:(lia) Er) as H.
  destruct (spec_run m (firstn k ops)) as [mk abs]. destruct H as (A & _ & _). cbn [fst].
  split; [exact A|]. destruct (valid_anvil_correct sk mk A) as (V1 & V2 & _). auto.
Qed.

(* ---------- refused writes ---------- *)
Theorem too_large_unchanged s x z d now :
  chunk_limit < lenN d + 4 -> write_sector s x z d now = (s, [], WTooLarge).
Proof.
  intros H. unfold write_sector. rewrite flen_lenN. cbv zeta. unfold chunk_limit in H.
  assert ((256 <=? (lenN d + 4 + 4095) / 4096) = true) as -> by lia. reflexivity.
Qed.

Theorem too_large_only s x z d now s' ws :
  write_sector s x z d now = (s', ws, WTooLarge) -> chunk_limit < lenN d + 4 /\ s' = s /\ ws = [].
Proof.
  unfold write_sector. rewrite flen_lenN. cbv zeta. unfold chunk_limit.
  destruct (N.leb_spec 256 ((lenN d + 4 + 4095) / 4096)) as [H|H].
  - intros E. inversion E; subst. repeat split; auto. lia.
  - destruct (_ && _); [intros E; inversion E|].
    destruct (find_space _ _ _ _ _); [|intros E; inversion E].
    destruct (_ <=? _); intros E; inversion E.
Qed.

(* a write that succeeds: the complete per-operation statement, in terms of the coordinates *)
Theorem write_ok_correct s m x z d now s' ws :
  R s m -> x < 32 -> z < 32 -> write_sector s x z d now = (s', ws, WOk) ->
  R s' (aupd m (idx x z) d) /\ img s' = rev ws ++ img s /\
  read_sector s' x z = (if lenN d =? 0 then RNoData else ROk d) /\
  (forall x' z', x' < 32 -> z' < 32 -> (x', z') <> (x, z) ->
     read_sector s' x' z' = read_sector s x' z' /\ exist_sector s' x' z' = exist_sector s x' z').
Proof.
  intros HR Hx Hz Ew. pose proof (write_correct s m x z d now s' ws WOk HR Hx Hz Ew) as P.
  cbn [write_post] in P. destruct P as (P1 & _ & _ & P4 & _ & _).
  split; [exact P1|]. split; [exact P4|]. split.
  - unfold read_sector. rewrite (read_correct s' _ (idx x z) P1 (idx_lt x z Hx Hz)).
    unfold spec_read, aupd. rewrite N.eqb_refl. reflexivity.
  - intros x' z' Hx' Hz' Hne.
    assert (Hi : idx x' z' <> idx x z).
    { unfold idx. intros E. apply Hne. f_equal; lia. }
    pose proof (idx_lt x' z' Hx' Hz') as Hlt. split.
    + unfold read_sector. rewrite (read_correct s' _ _ P1 Hlt), (read_correct s m _ HR Hlt).
      unfold spec_read, aupd. destruct (N.eqb_spec (idx x' z') (idx x z)); [contradiction|reflexivity].
    + unfold exist_sector. rewrite (exist_correct s' _ _ P1 Hlt), (exist_correct s m _ HR Hlt).
      unfold aupd. destruct (N.eqb_spec (idx x' z') (idx x z)); [contradiction|reflexivity].
Qed.

(* ---------- observations in terms of coordinates ---------- *)
Theorem read_sector_correct s m x z : R s m -> x < 32 -> z < 32 ->
  read_sector s x z = spec_read m (idx x z).
Proof. intros HR Hx Hz. apply (read_correct s m (idx x z) HR (idx_lt x z Hx Hz)). Qed.

Theorem exist_sector_correct s m x z : R s m -> x < 32 -> z < 32 ->
  exist_sector s x z = is_some (m (idx x z)).
Proof. intros HR Hx Hz. apply (exist_correct s m (idx x z) HR (idx_lt x z Hx Hz)). Qed.

(* the format's own convention, stated: only a chunk of at least one byte reads back as data *)
Theorem read_back s m x z d now s' ws : R s m -> x < 32 -> z < 32 -> 1 <= lenN d ->
  write_sector s x z d now = (s', ws, WOk) -> read_sector s' x z = ROk d.
Proof.
  intros HR Hx Hz Hd Ew. destruct (write_ok_correct s m x z d now s' ws HR Hx Hz Ew) as (_ & _ & H & _).
  rewrite H. destruct (N.eqb_spec (lenN d) 0); [lia|reflexivity].
Qed.

(* distinct coordinates have distinct header slots *)
Lemma idx_inj x z x' z' : x < 32 -> x' < 32 -> idx x z = idx x' z' -> x = x' /\ z = z'.
Proof. unfold idx. lia. Qed.
