(* C14 / C15: the tie between the hand-written region model (Model/C14.v) and save/region/mca.go.
   1. *_skel_ok: the statement skeletons tools/gotrans/c14.go renders from the repository on every run
      (Gen/C14gen.v) have the shapes recorded in Proofs/C14_expected.v (reflexivity; a swapped statement, a
      dropped check, a changed expression text or a transposed table index breaks one of them).
   2. An interpreter `exec` of the statement type: a state (the Region object = the model's `st` with its file
      as a log of physical writes, the integer locals, the file position, the LimitReader's remaining count,
      setHead's 4-byte buffer, the data slice, the physical writes issued so far IN ORDER, a pending err) is
      threaded through the statements IN SOURCE ORDER; every expression is evaluated by the TRANSLATED
      definition of Gen/C14gen.v (explicit Go wrap semantics); table entries are int32 (sx32 of the stored
      32-bit pattern) and are stored back as patterns (wrap_u 32); an err that is not checked by the next
      statement, a write at an unknown file position (after writeAt nothing may rely on the position), a
      negative sector / seek / make length are stuck states.
   3. Interpretation lemmas (this file and Proofs/C14_skel_rw.v): interpreting the translated skeletons gives
      exactly Model.C14's functions.
   What is NOT derived from the source: the meaning of each statement kind (exec below: binary.Read/Write,
   Seek, LimitReader, io.ReadFull, the map of used sectors), the two GHOST steps at the findSpace call (the
   model's range guard sector_limit and its high-water mark, which also sizes the fuel of the scan loop), the
   clock (an input), and a medium that accepts every write. *)
From Coq Require Import List Arith NArith ZArith Lia Bool ZifyN ZifyNat ZifyBool FMapPositive.
From Coq Require Import String.
From GoMC Require Import Base.Bytes Base.GoInt Gen.Funcs Gen.C14gen.
From GoMC Require Import Model.C14 Model.C14_syntax Proofs.C14_file Proofs.C14_alloc Proofs.C14_expected Proofs.C14_tie.
Import ListNotations.
Ltac Zify.zify_post_hook ::= Z.div_mod_to_equations.
Open Scope N_scope.

(* ------------------------------------------------------------------ 1. the source is what was modelled *)
Lemma Load_skel_ok : map shape C14gen.Load = expected_Load. Proof. reflexivity. Qed.
Lemma CreateWriter_skel_ok : map shape C14gen.CreateWriter = expected_CreateWriter. Proof. reflexivity. Qed.
Lemma ReadSector_skel_ok : map shape C14gen.ReadSector = expected_ReadSector. Proof. reflexivity. Qed.
Lemma WriteSector_skel_ok : map shape C14gen.WriteSector = expected_WriteSector. Proof. reflexivity. Qed.
Lemma ExistSector_skel_ok : map shape C14gen.ExistSector = expected_ExistSector. Proof. reflexivity. Qed.
Lemma PadToFullSector_skel_ok : map shape C14gen.PadToFullSector = expected_PadToFullSector. Proof. reflexivity. Qed.
Lemma findSpace_skel_ok : map shape C14gen.findSpace = expected_findSpace. Proof. reflexivity. Qed.
Lemma setHead_skel_ok : map shape C14gen.setHead = expected_setHead. Proof. reflexivity. Qed.
Lemma Region_fields_skel_ok : C14gen.Region_fields = expected_Region_fields. Proof. reflexivity. Qed.
Lemma writeAt_skel_ok : map shape C14gen.writeAt = expected_writeAt. Proof. reflexivity. Qed.

(* ------------------------------------------------------------------ 2. interpretation *)
(* the integer locals: a record, so that states are compared syntactically *)
Record vars := mkvars { v_x : Z; v_z : Z; v_need : Z; v_n : Z; v_now : Z; v_sec : Z; v_num : Z; v_length : Z; v_size : Z; v_i : Z; v_o : Z; v_s : Z; v_v : Z; v_offset : Z; v_timestamp : Z; v_oldN : Z; v_oldNow : Z; v_off : Z }.
Definition getv (r : vars) (x : rvar) : Z :=
  match x with
  | Vx => v_x r
  | Vz => v_z r
  | Vneed => v_need r
  | Vn => v_n r
  | Vnow => v_now r
  | Vsec => v_sec r
  | Vnum => v_num r
  | Vlength => v_length r
  | Vsize => v_size r
  | Vi => v_i r
  | Vo => v_o r
  | Vs => v_s r
  | Vv => v_v r
  | Voffset => v_offset r
  | Vtimestamp => v_timestamp r
  | VoldN => v_oldN r
  | VoldNow => v_oldNow r
  | Voff => v_off r
  | VlenData | Vtab => 0
  end.
Definition setv (r : vars) (x : rvar) (a : Z) : vars :=
  match x with
  | Vx => mkvars a (v_z r) (v_need r) (v_n r) (v_now r) (v_sec r) (v_num r) (v_length r) (v_size r) (v_i r) (v_o r) (v_s r) (v_v r) (v_offset r) (v_timestamp r) (v_oldN r) (v_oldNow r) (v_off r)
  | Vz => mkvars (v_x r) a (v_need r) (v_n r) (v_now r) (v_sec r) (v_num r) (v_length r) (v_size r) (v_i r) (v_o r) (v_s r) (v_v r) (v_offset r) (v_timestamp r) (v_oldN r) (v_oldNow r) (v_off r)
  | Vneed => mkvars (v_x r) (v_z r) a (v_n r) (v_now r) (v_sec r) (v_num r) (v_length r) (v_size r) (v_i r) (v_o r) (v_s r) (v_v r) (v_offset r) (v_timestamp r) (v_oldN r) (v_oldNow r) (v_off r)
  | Vn => mkvars (v_x r) (v_z r) (v_need r) a (v_now r) (v_sec r) (v_num r) (v_length r) (v_size r) (v_i r) (v_o r) (v_s r) (v_v r) (v_offset r) (v_timestamp r) (v_oldN r) (v_oldNow r) (v_off r)
  | Vnow => mkvars (v_x r) (v_z r) (v_need r) (v_n r) a (v_sec r) (v_num r) (v_length r) (v_size r) (v_i r) (v_o r) (v_s r) (v_v r) (v_offset r) (v_timestamp r) (v_oldN r) (v_oldNow r) (v_off r)
  | Vsec => mkvars (v_x r) (v_z r) (v_need r) (v_n r) (v_now r) a (v_num r) (v_length r) (v_size r) (v_i r) (v_o r) (v_s r) (v_v r) (v_offset r) (v_timestamp r) (v_oldN r) (v_oldNow r) (v_off r)
  | Vnum => mkvars (v_x r) (v_z r) (v_need r) (v_n r) (v_now r) (v_sec r) a (v_length r) (v_size r) (v_i r) (v_o r) (v_s r) (v_v r) (v_offset r) (v_timestamp r) (v_oldN r) (v_oldNow r) (v_off r)
  | Vlength => mkvars (v_x r) (v_z r) (v_need r) (v_n r) (v_now r) (v_sec r) (v_num r) a (v_size r) (v_i r) (v_o r) (v_s r) (v_v r) (v_offset r) (v_timestamp r) (v_oldN r) (v_oldNow r) (v_off r)
  | Vsize => mkvars (v_x r) (v_z r) (v_need r) (v_n r) (v_now r) (v_sec r) (v_num r) (v_length r) a (v_i r) (v_o r) (v_s r) (v_v r) (v_offset r) (v_timestamp r) (v_oldN r) (v_oldNow r) (v_off r)
  | Vi => mkvars (v_x r) (v_z r) (v_need r) (v_n r) (v_now r) (v_sec r) (v_num r) (v_length r) (v_size r) a (v_o r) (v_s r) (v_v r) (v_offset r) (v_timestamp r) (v_oldN r) (v_oldNow r) (v_off r)
  | Vo => mkvars (v_x r) (v_z r) (v_need r) (v_n r) (v_now r) (v_sec r) (v_num r) (v_length r) (v_size r) (v_i r) a (v_s r) (v_v r) (v_offset r) (v_timestamp r) (v_oldN r) (v_oldNow r) (v_off r)
  | Vs => mkvars (v_x r) (v_z r) (v_need r) (v_n r) (v_now r) (v_sec r) (v_num r) (v_length r) (v_size r) (v_i r) (v_o r) a (v_v r) (v_offset r) (v_timestamp r) (v_oldN r) (v_oldNow r) (v_off r)
  | Vv => mkvars (v_x r) (v_z r) (v_need r) (v_n r) (v_now r) (v_sec r) (v_num r) (v_length r) (v_size r) (v_i r) (v_o r) (v_s r) a (v_offset r) (v_timestamp r) (v_oldN r) (v_oldNow r) (v_off r)
  | Voffset => mkvars (v_x r) (v_z r) (v_need r) (v_n r) (v_now r) (v_sec r) (v_num r) (v_length r) (v_size r) (v_i r) (v_o r) (v_s r) (v_v r) a (v_timestamp r) (v_oldN r) (v_oldNow r) (v_off r)
  | Vtimestamp => mkvars (v_x r) (v_z r) (v_need r) (v_n r) (v_now r) (v_sec r) (v_num r) (v_length r) (v_size r) (v_i r) (v_o r) (v_s r) (v_v r) (v_offset r) a (v_oldN r) (v_oldNow r) (v_off r)
  | VoldN => mkvars (v_x r) (v_z r) (v_need r) (v_n r) (v_now r) (v_sec r) (v_num r) (v_length r) (v_size r) (v_i r) (v_o r) (v_s r) (v_v r) (v_offset r) (v_timestamp r) a (v_oldNow r) (v_off r)
  | VoldNow => mkvars (v_x r) (v_z r) (v_need r) (v_n r) (v_now r) (v_sec r) (v_num r) (v_length r) (v_size r) (v_i r) (v_o r) (v_s r) (v_v r) (v_offset r) (v_timestamp r) (v_oldN r) a (v_off r)
  | Voff => mkvars (v_x r) (v_z r) (v_need r) (v_n r) (v_now r) (v_sec r) (v_num r) (v_length r) (v_size r) (v_i r) (v_o r) (v_s r) (v_v r) (v_offset r) (v_timestamp r) (v_oldN r) (v_oldNow r) a
  | VlenData | Vtab => r
  end.
Definition vars0 : vars := mkvars 0 0 0 0 0 0 0 0 0 0 0 0 0 0 0 0 0 0.

(* the Region object: Model.C14.st, field by field *)
Definition st_offs (s : st) x := {| offs := x; tss := tss s; used := used s; hwm := hwm s; img := img s |}.
Definition st_tss (s : st) x := {| offs := offs s; tss := x; used := used s; hwm := hwm s; img := img s |}.
Definition st_used (s : st) x := {| offs := offs s; tss := tss s; used := x; hwm := hwm s; img := img s |}.
Definition st_hwm (s : st) x := {| offs := offs s; tss := tss s; used := used s; hwm := x; img := img s |}.
Definition st_img (s : st) x := {| offs := offs s; tss := tss s; used := used s; hwm := hwm s; img := x |}.

Record ist := mkist {
  g_st : st;              (* the Region object and its file *)
  g_vars : vars;          (* integer locals and parameters *)
  g_pos : option N;       (* file position; None: unknown (after writeAt) *)
  g_lim : N;              (* what the LimitReader still delivers *)
  g_buf : list N;         (* setHead's buf *)
  g_data : list N;        (* the data slice (WriteSector's parameter, ReadSector's result) *)
  g_dlen : N;             (* len(data) after data = make([]byte, e) *)
  g_ws : list wr;         (* the physical writes issued so far, in order *)
  g_err : bool;           (* err is non-nil and has not been looked at *)
  g_now : N }.            (* what time.Now().Unix() returns *)

Definition set_st σ x := mkist x (g_vars σ) (g_pos σ) (g_lim σ) (g_buf σ) (g_data σ) (g_dlen σ) (g_ws σ) (g_err σ) (g_now σ).
Definition set_vars σ x := mkist (g_st σ) x (g_pos σ) (g_lim σ) (g_buf σ) (g_data σ) (g_dlen σ) (g_ws σ) (g_err σ) (g_now σ).
Definition set_pos σ x := mkist (g_st σ) (g_vars σ) x (g_lim σ) (g_buf σ) (g_data σ) (g_dlen σ) (g_ws σ) (g_err σ) (g_now σ).
Definition set_lim σ x := mkist (g_st σ) (g_vars σ) (g_pos σ) x (g_buf σ) (g_data σ) (g_dlen σ) (g_ws σ) (g_err σ) (g_now σ).
Definition set_buf σ x := mkist (g_st σ) (g_vars σ) (g_pos σ) (g_lim σ) x (g_data σ) (g_dlen σ) (g_ws σ) (g_err σ) (g_now σ).
Definition set_data σ x := mkist (g_st σ) (g_vars σ) (g_pos σ) (g_lim σ) (g_buf σ) x (g_dlen σ) (g_ws σ) (g_err σ) (g_now σ).
Definition set_dlen σ x := mkist (g_st σ) (g_vars σ) (g_pos σ) (g_lim σ) (g_buf σ) (g_data σ) x (g_ws σ) (g_err σ) (g_now σ).
Definition set_ws σ x := mkist (g_st σ) (g_vars σ) (g_pos σ) (g_lim σ) (g_buf σ) (g_data σ) (g_dlen σ) x (g_err σ) (g_now σ).
Definition set_err σ x := mkist (g_st σ) (g_vars σ) (g_pos σ) (g_lim σ) (g_buf σ) (g_data σ) (g_dlen σ) (g_ws σ) x (g_now σ).
Definition setl σ v a := set_vars σ (setv (g_vars σ) v a).

(* the chunk's slot in the two tables: [z][x] of a [32][32] array *)
Definition slot (σ : ist) : N := idx (Z.to_N (v_x (g_vars σ))) (Z.to_N (v_z (g_vars σ))).
(* an int32 table element: the stored 32-bit pattern read as a signed value; stored back as a pattern *)
Definition elem (m : nmap) (j : N) : Z := sx32 (getN m j mod 2^32).
Definition pat (a : Z) : N := Z.to_N (wrap_u 32 a).

(* the environment an expression sees *)
Definition look (σ : ist) : env := fun v =>
  match v with
  | Vtab => elem (offs (g_st σ)) (slot σ)
  | VlenData => Z.of_N (flen (g_data σ))
  | _ => getv (g_vars σ) v
  end.

Inductive res := RFin (txt : string) (σ : ist) | RBool (b : bool) | RStuck | RNoFuel | ROutside.
Inductive callee := CFindSpace | CSetHead | CWriteAt.

(* one physical write of d at p; the position moves behind it *)
Definition phys (σ : ist) (p : N) (d : list N) : ist :=
  set_pos (set_ws (set_st σ (st_img (g_st σ) (mkwr p d :: img (g_st σ)))) (g_ws σ ++ [mkwr p d])) (Some (p + flen d)).

(* a [32][32]int32 table as the 4096 bytes binary.Write emits *)
Definition tab_bytes (m : nmap) : list N := flat_map (fun j => be 4 (getN m (N.of_nat j) mod 2^32)) (seq 0 1024).
Definition tab_read (f : file) (p : N) : nmap := tab_of (words (read_range f p 4096) 1024) 0 (PositiveMap.empty N).

Section Seq.
Context {S K : Type}.
Variable f : S -> K -> K.
Fixpoint sq (l : list S) (k : K) : K := match l with [] => k | x :: t => f x (sq t k) end.
End Seq.

(* for i := int32(0); i < hi; i++ { body }   (i was set to 0 by the caller) *)
Fixpoint for_loop (fuel : nat) (i : rvar) (hi : env -> Z) (body : (ist -> res) -> ist -> res) (k : ist -> res) (σ : ist) : res :=
  match fuel with
  | O => RNoFuel
  | S f =>
      if (getv (g_vars σ) i <? hi (look σ))%Z
      then body (fun σ' => for_loop f i hi body k (setl σ' i (wrap_s 32 (getv (g_vars σ') i + 1)))) σ
      else k σ
  end.

(* for _, v := range r.offsets { for _, v := range v { body } }: the elements in index order *)
Fixpoint range_loop (l : list nat) (v : rvar) (body : (ist -> res) -> ist -> res) (k : ist -> res) (σ : ist) : res :=
  match l with
  | [] => k σ
  | j :: t => body (range_loop t v body k) (setl σ v (elem (offs (g_st σ)) (N.of_nat j)))
  end.

Section Exec.
Variable do_call : callee -> list Z -> ist -> (ist -> res) -> res.

Fixpoint exec (s : sem_stmt) (ret : string -> ist -> res) (k : ist -> res) (σ : ist) {struct s} : res :=
  if g_err σ then
    match s with
    | SErrCheck t => ret t σ
    | SErrDo t body =>       (* the body runs with err set aside, then the return delivers it *)
        sq (fun s k => exec s ret k) body (fun σ' => ret t (set_err σ' true)) (set_err σ false)
    | SRet t => ret t σ
    | _ => RStuck
    end
  else
  match s with
  | SText _ => k σ
  | SLet v _ e => k (setl σ v (e (look σ)))
  | SLoc a b _ e => let pq := region_sectorLoc (e (look σ)) in k (setl (setl σ a (fst pq)) b (snd pq))
  | SIf _ c th el => if c (look σ) then sq (fun s k => exec s ret k) th k σ else sq (fun s k => exec s ret k) el k σ
  | SIfUsed _ e th =>
      let a := e (look σ) in
      if (a <? 0)%Z then RStuck else
      if getB (used (g_st σ)) (Z.to_N a) then sq (fun s k => exec s ret k) th k σ else k σ
  | SFor kind i _ hi body =>
      let fuel := match kind with
                  | LCounted => Datatypes.S (Z.to_nat (hi (look σ)))
                  | LScan => Z.to_nat (Z.of_N (hwm (g_st σ)) + hi (look σ) + 2)     (* ghost: the model's fuel *)
                  end in
      for_loop fuel i hi (sq (fun s k => exec s ret k) body) k (setl σ i 0%Z)
  | SRange v _ body => range_loop (seq 0 1024) v (sq (fun s k => exec s ret k) body) k σ
  | SMark _ e b =>
      let a := e (look σ) in
      if (a <? 0)%Z then RStuck else k (set_st σ (st_used (g_st σ) (setB (used (g_st σ)) (Z.to_N a) b)))
  | SEff ESeek _ e => let a := e (look σ) in if (a <? 0)%Z then RStuck else k (set_pos σ (Some (Z.to_N a)))
  | SEff ELimit _ e => k (set_lim σ (Z.to_N (e (look σ))))
  | SEff EWriteInt32 _ e =>
      match g_pos σ with Some p => k (phys σ p (be 4 (pat (e (look σ))))) | None => RStuck end
  | SEff EWriteZeros _ e =>
      let a := e (look σ) in
      if (a <? 0)%Z then RStuck else
      match g_pos σ with Some p => k (phys σ p (fzeros (Z.to_N a))) | None => RStuck end
  | SEff EPut32 _ e => k (set_buf σ (be 4 (pat (e (look σ)))))
  | SEff EWriteAt _ e =>
      let a := e (look σ) in
      if (a <? 0)%Z then RStuck else k (set_pos (phys σ (Z.to_N a) (g_buf σ)) None)
  | SEff EMakeData _ e => let a := e (look σ) in if (a <? 0)%Z then RStuck else k (set_dlen σ (Z.to_N a))
  | SEff ESetOffset _ e => k (set_st σ (st_offs (g_st σ) (setN (offs (g_st σ)) (slot σ) (pat (e (look σ))))))
  | SEff ESetTs _ e => k (set_st σ (st_tss (g_st σ) (setN (tss (g_st σ)) (slot σ) (pat (e (look σ))))))
  | SEff ECallFindSpace _ e =>
      let need := e (look σ) in
      do_call CFindSpace [need] σ (fun σ' =>
        let n' := v_n (g_vars σ') in
        (* ghost: the model's range guard (int32 `n << 8` exact below 2^23) and its high-water mark *)
        if sector_limit <=? Z.to_N n' + Z.to_N need then ROutside
        else k (set_st σ' (st_hwm (g_st σ') (N.max (hwm (g_st σ')) (Z.to_N n' + Z.to_N need)))))
  | SEff2 ECallSetHead _ e1 e2 => do_call CSetHead [e1 (look σ); e2 (look σ)] σ k
  | SEff0 EReadOffsets _ =>
      match g_pos σ with
      | Some p => if fsize (img (g_st σ)) <? p + 4096 then k (set_err σ true)
                  else k (set_pos (set_st σ (st_offs (g_st σ) (tab_read (img (g_st σ)) p))) (Some (p + 4096)))
      | None => RStuck
      end
  | SEff0 EReadTimestamps _ =>
      match g_pos σ with
      | Some p => if fsize (img (g_st σ)) <? p + 4096 then k (set_err σ true)
                  else k (set_pos (set_st σ (st_tss (g_st σ) (tab_read (img (g_st σ)) p))) (Some (p + 4096)))
      | None => RStuck
      end
  | SEff0 EWriteOffsets _ =>
      match g_pos σ with Some p => k (phys σ p (tab_bytes (offs (g_st σ)))) | None => RStuck end
  | SEff0 EWriteTimestamps _ =>
      match g_pos σ with Some p => k (phys σ p (tab_bytes (tss (g_st σ)))) | None => RStuck end
  | SEff0 EReadLength _ =>
      match g_pos σ with
      | Some p => if (g_lim σ <? 4) || (fsize (img (g_st σ)) <? p + 4) then k (set_err σ true)
                  else k (set_lim (set_pos (setl σ Vlength (sx32 (rd32 (img (g_st σ)) p))) (Some (p + 4))) (g_lim σ - 4))
      | None => RStuck
      end
  | SEff0 EReadFull _ =>
      match g_pos σ with
      | Some p => if (g_lim σ <? g_dlen σ) || (fsize (img (g_st σ)) <? p + g_dlen σ) then k (set_err σ true)
                  else k (set_data σ (read_range (img (g_st σ)) p (g_dlen σ)))
      | None => RStuck
      end
  | SEff0 EWriteData _ => match g_pos σ with Some p => k (phys σ p (g_data σ)) | None => RStuck end
  | SEff0 ENow _ => k (setl σ Vtimestamp (wrap_s 64 (Z.of_N (g_now σ))))
  | SEff0 ESeekEnd _ =>
      k (set_pos (setl σ Vsize (wrap_s 64 (Z.of_N (fsize (img (g_st σ)))))) (Some (fsize (img (g_st σ)))))
  | SEff0 EVarBuf _ => k (set_buf σ [0; 0; 0; 0])
  | SEff0 EVarLength _ => k (setl σ Vlength 0%Z)
  | SErrCheck _ => k σ
  | SErrDo _ _ => k σ
  | SIfWriterAt _ _ | SRetWriteAt _ _ | SRetWrite _ => RStuck     (* writeAt's own shapes: interpreted in C14_skel_fail.v *)
  | SRet t => ret t σ
  | SRetBool _ c => RBool (c (look σ))
  end.

Definition run (body : list sem_stmt) (ret : string -> ist -> res) (σ : ist) : res :=
  sq (fun s k => exec s ret k) body (fun _ => RStuck) σ.   (* falling off the end of a body: not a shape *)
End Exec.

(* findSpace and setHead call nothing; the other functions call them *)
Definition exec0 := exec (fun _ _ _ _ => RStuck).
Definition call1 (c : callee) (args : list Z) (σ : ist) (k : ist -> res) : res :=
  match c, args with
  | CFindSpace, [need] =>
      run (fun _ _ _ _ => RStuck) C14gen.findSpace
          (fun _ σ' => k (set_vars σ' (setv (g_vars σ) Vn (v_n (g_vars σ')))))      (* n = <result> *)
          (set_vars σ (setv vars0 Vneed need))
  | CSetHead, [a; b] =>
      run (fun _ _ _ _ => RStuck) C14gen.setHead
          (fun _ σ' => k (set_vars σ' (g_vars σ)))
          (set_vars σ (setv (setv (setv (setv vars0 Vx (v_x (g_vars σ))) Vz (v_z (g_vars σ))) Voffset a) Vtimestamp b))
  | _, _ => RStuck
  end.
Definition run1 := run call1.

(* every translated body has the recorded shape *)
Lemma all_skel_ok :
  map shape C14gen.Load = expected_Load /\ map shape C14gen.CreateWriter = expected_CreateWriter /\
  map shape C14gen.ReadSector = expected_ReadSector /\ map shape C14gen.WriteSector = expected_WriteSector /\
  map shape C14gen.ExistSector = expected_ExistSector /\ map shape C14gen.PadToFullSector = expected_PadToFullSector /\
  map shape C14gen.findSpace = expected_findSpace /\ map shape C14gen.setHead = expected_setHead /\
  C14gen.Region_fields = expected_Region_fields /\ map shape C14gen.writeAt = expected_writeAt.
Proof.
  repeat split.
Qed.
