(* C14 / C15 over the TRANSLATED WriteSector: the order of the physical writes and crash isolation, restated for
   the interpretation of the skeleton tools/gotrans renders from save/region/mca.go on every run. *)
From Coq Require Import List Arith NArith ZArith Lia Bool ZifyN ZifyNat ZifyBool FMapPositive.
From GoMC Require Import Base.Bytes Gen.C14gen Model.C14 Model.C14_syntax Proofs.C14_file Proofs.C14_alloc Proofs.C14
  Proofs.C14_hist Proofs.C15 Proofs.C14_skel Proofs.C14_skel_rw.
Import ListNotations.
Open Scope N_scope.

(* the positions of the physical writes of an accepted WriteSector, IN ORDER: length then data when the
   sector count is unchanged; otherwise timestamp, header entry (the location, last of setHead), length, data *)
Lemma write_order s x z d now s' ws : write_sector s x z d now = (s', ws, WOk) ->
  (exists n, map wpos ws = [4096 * n; 4096 * n + 4] /\ map wdat ws = [be 4 (flen d); d]) \/
  (exists n o', map wpos ws = [4096 + 4 * idx x z; 4 * idx x z; 4096 * n; 4096 * n + 4] /\
                map wdat ws = [be 4 (now mod 2^32); be 4 o'; be 4 (flen d); d]).
Proof.
  unfold write_sector. cbv zeta.
  destruct (256 <=? _); [intros E; inversion E|].
  destruct (_ && _).
  - intros E. inversion E; subst. left. eexists. split; reflexivity.
  - destruct (find_space _ _ _ _ _) as [n'|]; [|intros E; inversion E].
    destruct (sector_limit <=? _); intros E; inversion E; subst. right. eexists. eexists. split; reflexivity.
Qed.

Theorem write_order_translated s x z d now s' ws :
  x < 32 -> z < 32 -> lenN d + 4 + 4095 < 2^43 -> hwm s <= sector_limit -> now < 2^63 ->
  interp_write s x z d now = Some (s', ws, WOk) ->
  (exists n, map wpos ws = [4096 * n; 4096 * n + 4] /\ map wdat ws = [be 4 (flen d); d]) \/
  (exists n o', map wpos ws = [4096 + 4 * idx x z; 4 * idx x z; 4096 * n; 4096 * n + 4] /\
                map wdat ws = [be 4 (now mod 2^32); be 4 o'; be 4 (flen d); d]).
Proof.
  intros Hx Hz Hd Hh Hn E. rewrite interp_write_eq in E by assumption. inversion E as [E'].
  apply (write_order s x z d now s' ws E').
Qed.

(* C15 for the interpretation of the translated WriteSector *)
Theorem crash_isolation_translated s m x z d now s' ws :
  R s m -> x < 32 -> z < 32 -> lenN d + 4 + 4095 < 2^43 -> now < 2^63 ->
  interp_write s x z d now = Some (s', ws, WOk) ->
  forall k t, exists sl,
    load (torn_image (img s) ws k t) = LOk sl /\ img sl = torn_image (img s) ws k t /\
    forall x' z', x' < 32 -> z' < 32 -> (x', z') <> (x, z) ->
      read_sector sl x' z' = spec_read m (idx x' z') /\
      exist_sector sl x' z' = is_some (m (idx x' z')).
Proof.
  intros HR Hx Hz Hd Hn E. rewrite interp_write_eq in E by (try assumption; apply (R_hwlim s m HR)).
  inversion E as [E']. apply (crash_isolation s m x z d now s' ws HR Hx Hz E').
Qed.

Theorem crash_isolation_parts_translated s m x z d now s' ws g :
  R s m -> x < 32 -> z < 32 -> lenN d + 4 + 4095 < 2^43 -> now < 2^63 ->
  interp_write s x z d now = Some (s', ws, WOk) -> Forall (part_of ws) g ->
  exists sl, load (g ++ img s) = LOk sl /\ img sl = g ++ img s /\ others_intact sl m (idx x z).
Proof.
  intros HR Hx Hz Hd Hn E Hg. rewrite interp_write_eq in E by (try assumption; apply (R_hwlim s m HR)).
  inversion E as [E']. apply (crash_isolation_parts s m x z d now s' ws g HR Hx Hz E' Hg).
Qed.

(* C14 for the interpretations: one accepted translated write updates exactly its chunk *)
Theorem write_translated_correct s m x z d now s' ws r :
  R s m -> x < 32 -> z < 32 -> lenN d + 4 + 4095 < 2^43 -> now < 2^63 ->
  interp_write s x z d now = Some (s', ws, r) -> write_post s m (idx x z) d s' ws r.
Proof.
  intros HR Hx Hz Hd Hn E. rewrite interp_write_eq in E by (try assumption; apply (R_hwlim s m HR)).
  inversion E as [E']. apply (write_correct s m x z d now s' ws r HR Hx Hz E').
Qed.
