(* C14 / C15: the translated bodies of save/region/mca.go on a FAILING MEDIUM.
   1. io_checked: a syntactic obligation on the translated skeletons - every statement that performs I/O (Seek,
      Read, Write, WriteAt, the setHead call) is IMMEDIATELY followed by its error test (or by the bare
      `return` that delivers the named err): no I/O error can be swallowed.
   2. execF: the interpreter of Proofs/C14_skel.v with a medium on which the k-th I/O call (Seek / Read /
      Write / WriteAt calls counted from 0 within one operation) fails; a failing write first stores `short`
      bytes of its argument (a short write).  writeAt is one WriteAt call when the medium is an io.WriterAt,
      otherwise a Seek followed by a Write - both from the TRANSLATED body of writeAt (C14gen.writeAt), which setHead calls.
   3. What holds after a failed WriteSector, on the scenario that refutes isolation for the code BEFORE fix
      db6a924 (header write fails, a later write of another chunk reuses the freed sectors). *)
From Coq Require Import List Arith NArith ZArith Lia Bool ZifyN ZifyNat ZifyBool FMapPositive.
From Coq Require Import String.
From GoMC Require Import Base.Bytes Base.GoInt Gen.Funcs Gen.C14gen.
From GoMC Require Import Model.C14 Model.C14_syntax Proofs.C14_file Proofs.C14_alloc Proofs.C14_skel.
Import ListNotations.
Open Scope N_scope.

(* ------------------------------------------------------------------ 1. every I/O error is tested *)
Definition does_io {E B} (s : rstmt E B) : bool :=
  match s with
  | SEff (ESeek | EWriteInt32 | EWriteZeros | EWriteAt) _ _ => true
  | SEff2 ECallSetHead _ _ _ => true
  | SEff0 (EReadOffsets | EReadTimestamps | EWriteOffsets | EWriteTimestamps | EReadLength | EReadFull
           | EWriteData | ESeekEnd) _ => true
  | _ => false
  end.

(* what may follow an I/O statement: its error test, or the bare return of the named result err *)
Definition tested_by {E B} (t : list (rstmt E B)) : bool :=
  match t with
  | SErrCheck _ :: _ => true
  | SErrDo _ _ :: _ => true
  | [SRet r] => String.eqb r "return"
  | _ => false
  end.

Fixpoint io_checked_stmt {E B} (s : rstmt E B) : bool :=
  let fix go (l : list (rstmt E B)) : bool :=
    match l with
    | [] => true
    | s :: t => (if does_io s then tested_by t else true) && io_checked_stmt s && go t
    end in
  match s with
  | SIf _ _ th el => go th && go el
  | SIfUsed _ _ th => go th
  | SFor _ _ _ _ b => go b
  | SRange _ _ b => go b
  | SErrDo _ b => go b
  | _ => true
  end.
Definition io_checked (body : list sem_stmt) : bool := io_checked_stmt (SIf "" tt (map shape body) []).

Lemma all_io_checked :
  io_checked C14gen.Load = true /\ io_checked C14gen.CreateWriter = true /\ io_checked C14gen.ReadSector = true /\
  io_checked C14gen.WriteSector = true /\ io_checked C14gen.PadToFullSector = true /\
  io_checked C14gen.setHead = true /\ io_checked C14gen.findSpace = true /\ io_checked C14gen.ExistSector = true.
Proof. repeat split. Qed.

(* ------------------------------------------------------------------ 2. the failing medium *)
Inductive resF := FFin (txt : string) (σ : ist) | FBool (b : bool) | FStuck | FNoFuel | FOutside.
Definition fs := (ist * nat)%type.      (* state, I/O calls made so far in this operation *)
Definition up (f : ist -> ist) (σ : fs) : fs := (f (fst σ), snd σ).

Section ExecF.
Variable failat : nat.        (* the index of the I/O call that fails (an index never reached: no failure) *)
Variable short : N.           (* bytes a failing write stores before it reports the error *)
Variable wat : bool.          (* the medium implements io.WriterAt *)

Definition hit (σ : fs) : bool := Nat.eqb (snd σ) failat.
Definition tick (σ : fs) : fs := (fst σ, S (snd σ)).
Definition failed (σ : fs) : fs := tick (up (fun s => set_err s true) σ).

(* one Write call of d at the current position p *)
Definition write_op (σ : fs) (p : N) (d : list N) : fs :=
  if hit σ then
    let d' := if flen d <=? 4 then [] else ftake d short in     (* a failing write of a 4-byte word stores nothing *)
    failed (if flen d' =? 0 then σ else up (fun s => phys s p d') σ)
  else tick (up (fun s => phys s p d) σ).
(* one Seek call *)
Definition seek_op (σ : fs) (p : N) : fs :=
  if hit σ then failed σ else tick (up (fun s => set_pos s (Some p)) σ).
(* one Read call (binary.Read / io.ReadFull on an in-memory medium deliver in one call) *)
Definition read_hit (σ : fs) : bool := hit σ.

Fixpoint for_loopF (fuel : nat) (i : rvar) (hi : env -> Z) (body : (fs -> resF) -> fs -> resF) (k : fs -> resF) (σ : fs) : resF :=
  match fuel with
  | O => FNoFuel
  | S f =>
      if (getv (g_vars (fst σ)) i <? hi (look (fst σ)))%Z
      then body (fun σ' => for_loopF f i hi body k (up (fun s => setl s i (wrap_s 32 (getv (g_vars s) i + 1))) σ')) σ
      else k σ
  end.
Fixpoint range_loopF (l : list nat) (v : rvar) (body : (fs -> resF) -> fs -> resF) (k : fs -> resF) (σ : fs) : resF :=
  match l with
  | [] => k σ
  | j :: t => body (range_loopF t v body k) (up (fun s => setl s v (elem (offs (g_st s)) (N.of_nat j))) σ)
  end.

Variable do_call : callee -> list Z -> fs -> (fs -> resF) -> resF.

Fixpoint execF (s : sem_stmt) (ret : string -> fs -> resF) (k : fs -> resF) (σc : fs) {struct s} : resF :=
  let σ := fst σc in
  if g_err σ then
    match s with
    | SErrCheck t => ret t σc
    | SErrDo t body =>
        sq (fun s k => execF s ret k) body (fun σ' => ret t (up (fun s => set_err s true) σ')) (up (fun s => set_err s false) σc)
    | SRet t => ret t σc
    | _ => FStuck
    end
  else
  match s with
  | SText _ => k σc
  | SLet v _ e => k (up (fun s => setl s v (e (look σ))) σc)
  | SLoc a b _ e => let pq := region_sectorLoc (e (look σ)) in k (up (fun s => setl (setl s a (fst pq)) b (snd pq)) σc)
  | SIf _ c th el => if c (look σ) then sq (fun s k => execF s ret k) th k σc else sq (fun s k => execF s ret k) el k σc
  | SIfUsed _ e th =>
      let a := e (look σ) in
      if (a <? 0)%Z then FStuck else
      if getB (used (g_st σ)) (Z.to_N a) then sq (fun s k => execF s ret k) th k σc else k σc
  | SFor kind i _ hi body =>
      let fuel := match kind with
                  | LCounted => Datatypes.S (Z.to_nat (hi (look σ)))
                  | LScan => Z.to_nat (Z.of_N (hwm (g_st σ)) + hi (look σ) + 2)
                  end in
      for_loopF fuel i hi (sq (fun s k => execF s ret k) body) k (up (fun s => setl s i 0%Z) σc)
  | SRange v _ body => range_loopF (seq 0 1024) v (sq (fun s k => execF s ret k) body) k σc
  | SMark _ e b =>
      let a := e (look σ) in
      if (a <? 0)%Z then FStuck else k (up (fun s => set_st s (st_used (g_st s) (setB (used (g_st s)) (Z.to_N a) b))) σc)
  | SEff ESeek _ e => let a := e (look σ) in if (a <? 0)%Z then FStuck else k (seek_op σc (Z.to_N a))
  | SEff ELimit _ e => k (up (fun s => set_lim s (Z.to_N (e (look σ)))) σc)
  | SEff EWriteInt32 _ e =>
      match g_pos σ with Some p => k (write_op σc p (be 4 (pat (e (look σ))))) | None => FStuck end
  | SEff EWriteZeros _ e =>
      let a := e (look σ) in
      if (a <? 0)%Z then FStuck else
      match g_pos σ with Some p => k (write_op σc p (fzeros (Z.to_N a))) | None => FStuck end
  | SEff EPut32 _ e => k (up (fun s => set_buf s (be 4 (pat (e (look σ))))) σc)
  | SEff EWriteAt _ e =>          (* _, err = r.writeAt(buf[:], e): the TRANSLATED body of writeAt *)
      let a := e (look σ) in
      if (a <? 0)%Z then FStuck else do_call CWriteAt [a] σc k
  | SEff EMakeData _ e => let a := e (look σ) in if (a <? 0)%Z then FStuck else k (up (fun s => set_dlen s (Z.to_N a)) σc)
  | SEff ESetOffset _ e => k (up (fun s => set_st s (st_offs (g_st s) (setN (offs (g_st s)) (slot s) (pat (e (look σ)))))) σc)
  | SEff ESetTs _ e => k (up (fun s => set_st s (st_tss (g_st s) (setN (tss (g_st s)) (slot s) (pat (e (look σ)))))) σc)
  | SEff ECallFindSpace _ e =>
      let need := e (look σ) in
      do_call CFindSpace [need] σc (fun σ' =>
        let n' := v_n (g_vars (fst σ')) in
        if sector_limit <=? Z.to_N n' + Z.to_N need then FOutside
        else k (up (fun s => set_st s (st_hwm (g_st s) (N.max (hwm (g_st s)) (Z.to_N n' + Z.to_N need)))) σ'))
  | SEff2 ECallSetHead _ e1 e2 => do_call CSetHead [e1 (look σ); e2 (look σ)] σc k
  | SEff0 EReadOffsets _ =>
      match g_pos σ with
      | Some p => if read_hit σc || (fsize (img (g_st σ)) <? p + 4096) then k (failed σc)
                  else k (tick (up (fun s => set_pos (set_st s (st_offs (g_st s) (tab_read (img (g_st s)) p))) (Some (p + 4096))) σc))
      | None => FStuck
      end
  | SEff0 EReadTimestamps _ =>
      match g_pos σ with
      | Some p => if read_hit σc || (fsize (img (g_st σ)) <? p + 4096) then k (failed σc)
                  else k (tick (up (fun s => set_pos (set_st s (st_tss (g_st s) (tab_read (img (g_st s)) p))) (Some (p + 4096))) σc))
      | None => FStuck
      end
  | SEff0 EWriteOffsets _ =>
      match g_pos σ with Some p => k (write_op σc p (tab_bytes (offs (g_st σ)))) | None => FStuck end
  | SEff0 EWriteTimestamps _ =>
      match g_pos σ with Some p => k (write_op σc p (tab_bytes (tss (g_st σ)))) | None => FStuck end
  | SEff0 EReadLength _ =>
      match g_pos σ with
      | Some p => if read_hit σc || (g_lim σ <? 4) || (fsize (img (g_st σ)) <? p + 4) then k (failed σc)
                  else k (tick (up (fun s => set_lim (set_pos (setl s Vlength (sx32 (rd32 (img (g_st s)) p))) (Some (p + 4))) (g_lim s - 4)) σc))
      | None => FStuck
      end
  | SEff0 EReadFull _ =>
      match g_pos σ with
      | Some p => if read_hit σc || (g_lim σ <? g_dlen σ) || (fsize (img (g_st σ)) <? p + g_dlen σ) then k (failed σc)
                  else k (tick (up (fun s => set_data s (read_range (img (g_st s)) p (g_dlen s))) σc))
      | None => FStuck
      end
  | SEff0 EWriteData _ => match g_pos σ with Some p => k (write_op σc p (g_data σ)) | None => FStuck end
  | SEff0 ENow _ => k (up (fun s => setl s Vtimestamp (wrap_s 64 (Z.of_N (g_now s)))) σc)
  | SEff0 ESeekEnd _ =>
      if hit σc then k (failed σc)
      else k (tick (up (fun s => set_pos (setl s Vsize (wrap_s 64 (Z.of_N (fsize (img (g_st s)))))) (Some (fsize (img (g_st s))))) σc))
  | SEff0 EVarBuf _ => k (up (fun s => set_buf s [0; 0; 0; 0]) σc)
  | SEff0 EVarLength _ => k (up (fun s => setl s Vlength 0%Z) σc)
  | SErrCheck _ => k σc
  | SErrDo _ _ => k σc
  | SIfWriterAt _ th => if wat then sq (fun s k => execF s ret k) th k σc else k σc
  | SRetWriteAt t e =>            (* return f.WriteAt(p, e): one call, the position is not moved *)
      let a := e (look σ) in
      if (a <? 0)%Z then FStuck
      else ret t (up (fun s => set_pos s (g_pos σ)) (write_op σc (Z.to_N a) (g_buf σ)))
  | SRetWrite t =>                (* return r.f.Write(p) at the position Seek left *)
      match g_pos σ with Some p => ret t (write_op σc p (g_buf σ)) | None => FStuck end
  | SRet t => ret t σc
  | SRetBool _ c => FBool (c (look σ))
  end.

Definition runF (body : list sem_stmt) (ret : string -> fs -> resF) (σ : fs) : resF :=
  sq (fun s k => execF s ret k) body (fun _ => FStuck) σ.
End ExecF.

(* writeAt calls nothing; setHead calls writeAt; WriteSector calls findSpace and setHead *)
Definition callW (failat : nat) (short : N) (wat : bool) (c : callee) (args : list Z) (σ : fs) (k : fs -> resF) : resF :=
  let none := fun (_ : callee) (_ : list Z) (_ : fs) (_ : fs -> resF) => FStuck in
  match c, args with
  | CWriteAt, [off] =>
      runF failat short wat none C14gen.writeAt
           (fun _ σ' => k (up (fun s => set_vars s (g_vars (fst σ))) σ'))
           (up (fun s => set_vars s (setv vars0 Voff off)) σ)
  | _, _ => FStuck
  end.
Definition call1F (failat : nat) (short : N) (wat : bool) (c : callee) (args : list Z) (σ : fs) (k : fs -> resF) : resF :=
  let none := fun (_ : callee) (_ : list Z) (_ : fs) (_ : fs -> resF) => FStuck in
  match c, args with
  | CFindSpace, [need] =>
      runF failat short wat none C14gen.findSpace
           (fun _ σ' => k (up (fun s => set_vars s (setv (g_vars (fst σ)) Vn (v_n (g_vars s)))) σ'))
           (up (fun s => set_vars s (setv vars0 Vneed need)) σ)
  | CSetHead, [a; b] =>
      runF failat short wat (callW failat short wat) C14gen.setHead
           (fun _ σ' => k (up (fun s => set_vars s (g_vars (fst σ))) σ'))
           (up (fun s => set_vars s (setv (setv (setv (setv vars0 Vx (v_x (g_vars s))) Vz (v_z (g_vars s))) Voffset a) Vtimestamp b)) σ)
  | _, _ => FStuck
  end.
Definition run1F failat short wat := runF failat short wat (call1F failat short wat).

(* WriteSector on the failing medium: the Region OBJECT afterwards (with the file), the physical writes that
   reached the medium, and whether an error was returned *)
Definition interp_bodyF (body : list sem_stmt) (failat : nat) (short : N) (wat : bool) (s : st) (x z : N) (d : list N) (now : N)
  : option (st * list wr * wresF) :=
  match run1F failat short wat body (fun t σ => FFin t (fst σ))
              (mkist s (setv (setv vars0 Vx (Z.of_N x)) Vz (Z.of_N z)) None 0 [] d 0 [] false now, O) with
  | FFin t σ => if g_err σ then (if String.eqb t "return err" then Some (g_st σ, g_ws σ, WFErr) else None)
                else if String.eqb t "return nil" then Some (g_st σ, g_ws σ, WFOk)
                else if String.eqb t "return ErrTooLarge" then Some (g_st σ, g_ws σ, WFTooLarge)
                else None
  | FNoFuel | FOutside => Some (s, [], WFOutside)
  | _ => None
  end.
Definition interp_writeF := interp_bodyF C14gen.WriteSector.

(* ------------------------------------------------------------------ 3. the failed header write *)
(* the body WITHOUT the repair of db6a924: the statements inside `if err != nil { ... }` dropped *)
Fixpoint unfix (s : sem_stmt) : sem_stmt :=
  match s with
  | SErrDo t _ => SErrDo t []
  | SIf t c th el => SIf t c (map unfix th) (map unfix el)
  | _ => s
  end.
Definition WriteSector_before_fix : list sem_stmt := map unfix C14gen.WriteSector.

Definition fill (b : N) (n : nat) : list N := repeat b n.
Definition wr_ok' (r : st * list wr * wres) : st := fst (fst r).

(* chunks c = (0,0) and d = (1,0) are written; the next write of c needs more sectors and its HEADER write
   fails (medium without WriterAt: call 0 = Seek, call 1 = the 4-byte Write, which stores nothing);
   then chunk e = (2,0) is written through the same object *)
Definition sc_state0 : st :=
  wr_ok' (write_sector (wr_ok' (write_sector create 0 0 (fill 1 100) 7)) 1 0 (fill 3 100) 7).
Definition sc_after (body : list sem_stmt) : option st :=
  match interp_bodyF body 1 0 false sc_state0 0 0 (fill 4 4200) 8 with
  | Some (s, _, WFErr) => Some (wr_ok' (write_sector s 2 0 (fill 5 100) 9))
  | _ => None
  end.
(* what the FILE says about the runs of c and e, and what happens after a reopen and a rewrite of c *)
Definition sc_disk_runs (s : st) : (N * N) * (N * N) :=
  let hc := rd32 (img s) (4 * idx 0 0) in let he := rd32 (img s) (4 * idx 2 0) in
  ((sec_of hc, cnt_of hc), (sec_of he, cnt_of he)).
Definition sc_e_after_reopen (s : st) : rres :=
  match load (img s) with
  | LOk sl => read_sector (wr_ok' (write_sector sl 0 0 (fill 9 100) 10)) 2 0
  | LErrShort => REOF
  end.

(* before the fix: the file names sector 2 for BOTH chunks, and after a reopen a rewrite of c destroys e *)
Theorem failed_header_write_before_fix_refuted :
  exists s, sc_after WriteSector_before_fix = Some s /\
    sc_disk_runs s = ((2, 1), (2, 1)) /\
    read_sector s 2 0 = ROk (fill 5 100) /\
    sc_e_after_reopen s = ROk (fill 9 100).
Proof. eexists. split; [vm_compute; reflexivity|]. vm_compute. repeat split; reflexivity. Qed.

(* with the fixes: the allocation of c is undone (old sector marked, new run freed), e goes elsewhere, nothing of e is lost *)
Theorem failed_header_write_fixed :
  exists s, sc_after C14gen.WriteSector = Some s /\
    sc_disk_runs s = ((2, 1), (4, 1)) /\
    read_sector s 2 0 = ROk (fill 5 100) /\ read_sector s 1 0 = ROk (fill 3 100) /\
    sc_e_after_reopen s = ROk (fill 5 100).
Proof. eexists. split; [vm_compute; reflexivity|]. vm_compute. repeat split; reflexivity. Qed.

(* ------------------------------------------------------------------ 4. the hand model of the failing write
   Model.C14.write_sector_fail (used by the correspondence run against the real code on a failing medium) IS the
   interpretation of the translated WriteSector on the failing medium - checked by computation for every
   failing call index 0..8 and several short-write lengths, on the allocating and on the in-place path. *)
Definition tie_at (s : st) (x z : N) (d : list N) (now : N) (short : N) (k : nat) : Prop :=
  interp_writeF k short false s x z d now = Some (write_sector_fail k short s x z d now).

Ltac tie_all := cbv [seq]; repeat (constructor; [vm_compute; reflexivity|]); constructor.

Lemma fail_tie_alloc_0 : Forall (tie_at sc_state0 0 0 (fill 4 4200) 8 0) (seq 0 9). Proof. tie_all. Qed.
Lemma fail_tie_alloc_100 : Forall (tie_at sc_state0 0 0 (fill 4 4200) 8 100) (seq 0 9). Proof. tie_all. Qed.
Lemma fail_tie_inplace_3 : Forall (tie_at sc_state0 1 0 (fill 6 90) 8 3) (seq 0 9). Proof. tie_all. Qed.
Lemma fail_tie_inplace_50 : Forall (tie_at sc_state0 1 0 (fill 6 90) 8 50) (seq 0 9). Proof. tie_all. Qed.
Lemma fail_tie_fresh_5 : Forall (tie_at sc_state0 7 7 (fill 6 4093) 8 5) (seq 0 9). Proof. tie_all. Qed.

(* ------------------------------------------------------------------ 5. writeAt (translated body, both paths) *)
Lemma writeAt_io_checked : io_checked C14gen.writeAt = true.
Proof. reflexivity. Qed.

(* on a medium that does not fail during the call: ONE physical write of the buffer at off; the WriterAt path
   makes one call and leaves the position where it was, the fallback makes two (Seek, Write) and leaves it
   behind the bytes written *)
Lemma writeAt_interp fa sh wat st0 vs pos lim buf dat dlen ws nw c off k :
  Nat.eqb c fa = false -> Nat.eqb (S c) fa = false ->
  callW fa sh wat CWriteAt [Z.of_N off] (mkist st0 vs pos lim buf dat dlen ws false nw, c) k =
  k (mkist (st_img st0 (mkwr off buf :: img st0)) vs (if wat then pos else Some (off + flen buf)) lim buf dat dlen
           (ws ++ [mkwr off buf]) false nw, if wat then S c else S (S c)).
Proof.
  intros H0 H1. destruct st0 as [o t u h f].
  destruct vs as [vx vz vneed vn vnow vsec vnum vlength vsize vi vo vs0 vv voffset vtimestamp voldN voldNow voff].
  unfold callW, runF, C14gen.writeAt.
  destruct wat;
    lazy beta iota zeta delta [sq execF up fst snd hit tick failed write_op seek_op look getv setv vars0 g_err g_st g_vars g_pos g_lim g_buf
                               g_data g_dlen g_ws g_now set_st set_vars set_pos set_ws set_err phys st_img img offs tss used hwm
                               v_x v_z v_need v_n v_now v_sec v_num v_length v_size v_i v_o v_s v_v v_offset v_timestamp v_oldN v_oldNow v_off];
    unfold c14_writeAt_WriteAt_off, c14_writeAt_seek; rewrite ?H0, ?H1;
    assert ((Z.of_N off <? 0)%Z = false) as -> by lia; rewrite ?N2Z.id; rewrite ?H0, ?H1; reflexivity.
Qed.

(* the WriterAt medium, no failure: the same physical writes and state as the model's WriteSector *)
Lemma writeAt_fast_path_instance :
  interp_writeF 1000 0 true sc_state0 0 0 (fill 4 4200) 8 =
  Some (fst (write_sector sc_state0 0 0 (fill 4 4200) 8), WFOk).
Proof. vm_compute. reflexivity. Qed.
