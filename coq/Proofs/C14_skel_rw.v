(* C14 / C15: interpretation lemmas - the model's write_sector / read_sector / exist_sector / pad / load / create
   ARE the interpretation (Proofs/C14_skel.v) of the skeletons translated from save/region/mca.go. *)
From Coq Require Import List Arith NArith ZArith Lia Bool ZifyN ZifyNat ZifyBool FMapPositive.
From Coq Require Import String.
From GoMC Require Import Base.Bytes Base.GoInt Gen.Funcs Gen.C14gen.
From GoMC Require Import Model.C14 Model.C14_syntax Proofs.C14_file Proofs.C14_alloc Proofs.C14_tie Proofs.C14_tie_expr Proofs.C14_skel.
Import ListNotations.
Open Scope N_scope.

Ltac step := cbn [sq exec exec0 run run1 call1 g_err g_st g_vars g_pos g_lim g_buf g_data g_dlen g_ws g_now
                  set_st set_vars set_pos set_lim set_buf set_data set_dlen set_ws set_err setl phys
                  look getv setv slot
                  v_x v_z v_need v_n v_now v_sec v_num v_length v_size v_i v_o v_s v_v v_offset v_timestamp
                  offs tss used hwm img st_offs st_tss st_used st_hwm st_img fst snd].

Ltac lstep := lazy beta iota zeta delta
                 [sq exec exec0 run run1 call1 g_err g_st g_vars g_pos g_lim g_buf g_data g_dlen g_ws g_now
                  set_st set_vars set_pos set_lim set_buf set_data set_dlen set_ws set_err setl phys
                  look getv setv slot
                  v_x v_z v_need v_n v_now v_sec v_num v_length v_size v_i v_o v_s v_v v_offset v_timestamp
                  offs tss used hwm img st_offs st_tss st_used st_hwm st_img fst snd].

Lemma Zlt0_ofN (n : N) : (Z.of_N n <? 0)%Z = false. Proof. lia. Qed.

(* states are taken apart into their components first: every step then yields a state in constructor form *)
Ltac dσ σ :=
  destruct σ as [[o t u h f] [vx vz vneed vn vnow vsec vnum vlength vsize vi vo vs vv voffset vtimestamp] pos lim buf dat dlen ws err nw];
  cbn [g_err g_vars g_st g_pos g_lim g_buf g_data g_dlen g_ws g_now
       v_x v_z v_need v_n v_now v_sec v_num v_length v_size v_i v_o v_s v_v v_offset v_timestamp offs tss used hwm img].

(* ---------- setHead ---------- *)
Lemma call_setHead σ x z (a b : Z) k :
  g_err σ = false -> v_x (g_vars σ) = Z.of_N x -> v_z (g_vars σ) = Z.of_N z -> x < 32 -> z < 32 ->
  call1 CSetHead [a; b] σ k =
  k (mkist (st_img (g_st σ) (mkwr (4096 + 4 * idx x z) (be 4 (pat b)) :: mkwr (4 * idx x z) (be 4 (pat a)) :: img (g_st σ)))
           (g_vars σ) None (g_lim σ) (be 4 (pat b)) (g_data σ) (g_dlen σ)
           ((g_ws σ ++ [mkwr (4 * idx x z) (be 4 (pat a))]) ++ [mkwr (4096 + 4 * idx x z) (be 4 (pat b))])
           false (g_now σ)).
Proof.
  dσ σ. intros He Hx Hz Hx32 Hz32. subst err vx vz. unfold call1, run, C14gen.setHead. lstep.
  rewrite tie_head_pos, tie_head_pos_ts by assumption.
  rewrite !Zlt0_ofN, !N2Z.id. unfold c14_setHead_put32, c14_setHead_put32_1. reflexivity.
Qed.

(* ---------- findSpace: the scan loop is Model.C14.find_space, step for step ---------- *)
Fixpoint scan_ni (fuel : nat) (u : bmap) (need n i : N) : option (N * N) :=
  match fuel with
  | O => None
  | S f => if i <? need then if getB u (n + i) then scan_ni f u need (n + i + 1) 0 else scan_ni f u need n (i + 1)
           else Some (n, i)
  end.

Lemma scan_ni_fst fuel u need : forall n i, option_map fst (scan_ni fuel u need n i) = find_space fuel u need n i.
Proof.
  induction fuel as [|f IH]; intros n i; cbn [scan_ni find_space]; [reflexivity|].
  destruct (i <? need); [|reflexivity]. destruct (getB u (n + i)); apply IH.
Qed.

Definition fs_hi : env -> Z := fun v => c14_findSpace_bound (v Vneed).
Definition fs_body (ret : string -> ist -> res) : (ist -> res) -> ist -> res :=
  sq (fun s k => exec0 s ret k)
     [SIfUsed "r.sectors[n+i]" (fun v : env => c14_findSpace_probe (v Vn) (v Vi))
        [SLet Vn "n += i + 1" (fun v : env => c14_findSpace_n (v Vn) (v Vi));
         SLet Vi "i = -1" (fun _ : env => c14_findSpace_i)]].

Lemma scan_loop ret k σb rb need : g_err σb = false -> v_need rb = Z.of_N need ->
  forall fuel n i, n + i + N.of_nat fuel < 2^31 - 1 ->
  for_loop fuel Vi fs_hi (fs_body ret) k (set_vars σb (setv (setv rb Vn (Z.of_N n)) Vi (Z.of_N i))) =
  match scan_ni fuel (used (g_st σb)) need n i with
  | Some (n', i') => k (set_vars σb (setv (setv rb Vn (Z.of_N n')) Vi (Z.of_N i')))
  | None => RNoFuel
  end.
Proof.
  intros He Hneed. change (2^31 - 1) with 2147483647.
  destruct σb as [[o t u h f] vs0 pos lim buf dat dlen ws err nw].
  destruct rb as [vx vz vneed vn vnow vsec vnum vlength vsize vi vo vs vv voffset vtimestamp].
  cbn [g_err v_need g_st used] in *. subst err vneed.
  induction fuel as [|fu IH]; intros n i Hb; cbn [for_loop scan_ni]; [reflexivity|].
  unfold fs_hi at 1. lstep. unfold c14_findSpace_bound.
  replace (Z.of_N i <? Z.of_N need)%Z with (i <? need) by lia.
  destruct (i <? need); [|reflexivity].
  unfold fs_body at 1. lstep.
  rewrite tie_probe by (change (2^31) with 2147483648; lia). rewrite Zlt0_ofN, N2Z.id.
  destruct (getB u (n + i)).
  - rewrite tie_skip by (change (2^31) with 2147483648; lia).
    unfold c14_findSpace_i. change (wrap_s 32 (-1 + 1)) with (Z.of_N 0).
    exact (IH (n + i + 1) 0 ltac:(lia)).
  - rewrite (ws32 (Z.of_N i + 1)) by lia. replace (Z.of_N i + 1)%Z with (Z.of_N (i + 1)) by lia.
    exact (IH n (i + 1) ltac:(lia)).
Qed.

Lemma call_findSpace σ need k : g_err σ = false -> hwm (g_st σ) + need + 2 < 2^31 - 1 ->
  call1 CFindSpace [Z.of_N need] σ k =
  match find_space (N.to_nat (hwm (g_st σ) + need + 2)) (used (g_st σ)) need 0 0 with
  | Some n' => k (set_vars σ (setv (g_vars σ) Vn (Z.of_N n')))
  | None => RNoFuel
  end.
Proof.
  dσ σ. intros He Hb. subst err. unfold call1, run, C14gen.findSpace. lstep.
  unfold c14_findSpace_bound at 1.
  replace (Z.to_nat (Z.of_N h + Z.of_N need + 2)) with (N.to_nat (h + need + 2)) by lia.
  match goal with |- for_loop ?fu Vi ?hi ?body ?k0 ?s0 = ?RR =>
    change (for_loop fu Vi fs_hi (fs_body (fun (_ : string) (σ' : ist) => k (set_vars σ' (setv
               (mkvars vx vz vneed vn vnow vsec vnum vlength vsize vi vo vs vv voffset vtimestamp) Vn (v_n (g_vars σ')))))) k0
              (set_vars (mkist (Build_st o t u h f) vars0 pos lim buf dat dlen ws false nw)
                        (setv (setv (setv vars0 Vneed (Z.of_N need)) Vn (Z.of_N 0)) Vi (Z.of_N 0))) = RR) end.
  rewrite (scan_loop _ _ (mkist (Build_st o t u h f) vars0 pos lim buf dat dlen ws false nw) (setv vars0 Vneed (Z.of_N need)) need eq_refl eq_refl) by lia.
  rewrite <- scan_ni_fst. cbn [g_st used].
  destruct (scan_ni (N.to_nat (h + need + 2)) u need 0 0) as [[n' i']|]; [|reflexivity].
  lstep. reflexivity.
Qed.

(* ---------- the counted loops that free / mark a run are Model.C14.mark ---------- *)
Ltac mark_loop_tac :=
  let He := fresh "He" in let Hhi := fresh "Hhi" in let Hn := fresh "Hn" in let Hb := fresh "Hb" in
  intros He Hhi Hn Hb; change (2^31) with 2147483648 in Hb;
  match goal with σb : ist, rb : vars |- _ =>
    destruct σb as [[o t u0 h f] vs0 pos lim buf dat dlen ws err nw];
    destruct rb as [vx vz vneed vn vnow vsec vnum vlength vsize vi vo vs vv voffset vtimestamp] end;
  cbn [g_err g_st used v_now v_need v_n v_s v_o] in *; subst;
  let m := fresh "m" in let IH := fresh "IH" in let j := fresh "j" in let u := fresh "u" in let Hj := fresh "Hj" in
  induction m as [|m IH]; intros j u Hj; cbn [for_loop mark]; lstep;
  [ match goal with |- (if (Z.of_N j <? Z.of_N ?c)%Z then _ else _) = _ =>
      assert ((Z.of_N j <? Z.of_N c)%Z = false) as -> by lia; replace j with c by lia; reflexivity end
  | match goal with |- (if (Z.of_N j <? Z.of_N ?c)%Z then _ else _) = _ =>
      assert ((Z.of_N j <? Z.of_N c)%Z = true) as -> by lia end;
    match goal with |- context [wrap_s 32 (Z.of_N ?n + Z.of_N j)%Z] =>
      rewrite (ws32 (Z.of_N n + Z.of_N j)) by lia;
      assert ((Z.of_N n + Z.of_N j <? 0)%Z = false) as -> by lia;
      replace (Z.to_N (Z.of_N n + Z.of_N j)) with (n + j) by lia;
      rewrite (ws32 (Z.of_N j + 1)) by lia; replace (Z.of_N j + 1)%Z with (Z.of_N (j + 1)) by lia;
      let IH' := fresh in
      pose proof (IH (j + 1) (setB u (n + j) _) ltac:(lia)) as IH';
      replace (n + (j + 1)) with (n + j + 1) in IH' by lia; exact IH' end ].

Lemma mark_loop_now dc ret k txt b σb rb n cnt :
  g_err σb = false -> v_now rb = Z.of_N cnt -> v_n rb = Z.of_N n -> n + cnt < 2^31 ->
  forall m j u, j + N.of_nat m = cnt ->
  for_loop (S m) Vi (fun v => v Vnow)
           (sq (fun s k => exec dc s ret k) [SMark txt (fun v => wrap_s 32 (v Vn + v Vi)%Z) b]) k
           (set_vars (set_st σb (st_used (g_st σb) u)) (setv rb Vi (Z.of_N j)))
  = k (set_vars (set_st σb (st_used (g_st σb) (mark u (n + j) m b))) (setv rb Vi (Z.of_N cnt))).
Proof. mark_loop_tac. Qed.

Lemma mark_loop_need dc ret k txt b σb rb n cnt :
  g_err σb = false -> v_need rb = Z.of_N cnt -> v_n rb = Z.of_N n -> n + cnt < 2^31 ->
  forall m j u, j + N.of_nat m = cnt ->
  for_loop (S m) Vi (fun v => v Vneed)
           (sq (fun s k => exec dc s ret k) [SMark txt (fun v => wrap_s 32 (v Vn + v Vi)%Z) b]) k
           (set_vars (set_st σb (st_used (g_st σb) u)) (setv rb Vi (Z.of_N j)))
  = k (set_vars (set_st σb (st_used (g_st σb) (mark u (n + j) m b))) (setv rb Vi (Z.of_N cnt))).
Proof. mark_loop_tac. Qed.

Lemma mark_loop_s dc ret k txt b σb rb n cnt :
  g_err σb = false -> v_s rb = Z.of_N cnt -> v_o rb = Z.of_N n -> n + cnt < 2^31 ->
  forall m j u, j + N.of_nat m = cnt ->
  for_loop (S m) Vi (fun v => v Vs)
           (sq (fun s k => exec dc s ret k) [SMark txt (fun v => wrap_s 32 (v Vo + v Vi)%Z) b]) k
           (set_vars (set_st σb (st_used (g_st σb) u)) (setv rb Vi (Z.of_N j)))
  = k (set_vars (set_st σb (st_used (g_st σb) (mark u (n + j) m b))) (setv rb Vi (Z.of_N cnt))).
Proof. mark_loop_tac. Qed.

(* ---------- WriteSector ---------- *)
Definition init (s : st) (x z : N) (d : list N) (now : N) : ist :=
  mkist s (setv (setv vars0 Vx (Z.of_N x)) Vz (Z.of_N z)) None 0 [] d 0 [] false now.

(* the interpretation of the translated WriteSector: new Region object + file, the physical writes IN ORDER, outcome.
   The position of the file when WriteSector is entered is unknown (None): the body must Seek before it writes. *)
Definition interp_write (s : st) (x z : N) (d : list N) (now : N) : option (st * list wr * wres) :=
  match run1 C14gen.WriteSector RFin (init s x z d now) with
  | RFin t σ => if g_err σ then None
                else if String.eqb t "return nil" then Some (g_st σ, g_ws σ, WOk)
                else if String.eqb t "return ErrTooLarge" then Some (g_st σ, g_ws σ, WTooLarge)
                else None
  | RNoFuel | ROutside => Some (s, [], WOutside)      (* the model gives up: sector numbers beyond its range *)
  | _ => None
  end.


Lemma sq_app {S K} (f : S -> K -> K) a b k : sq f (a ++ b) k = sq f a (sq f b k).
Proof. induction a as [|x a IH]; cbn [app sq]; [reflexivity|]. now rewrite IH. Qed.

(* the last seven statements: Seek, length, data *)
Definition ws_tail : list sem_stmt := skipn 4 C14gen.WriteSector.
Definition ws_alloc : list sem_stmt :=
  match nth_error C14gen.WriteSector 3 with Some (SIf _ _ _ el) => el | _ => [] end.

Lemma tail_eq σ n : g_err σ = false -> v_n (g_vars σ) = Z.of_N n -> n < 2^31 -> lenN (g_data σ) < 2^32 ->
  sq (fun s k => exec call1 s RFin k) ws_tail (fun _ => RStuck) σ =
  RFin "return nil"
    (mkist (st_img (g_st σ) (mkwr (4096 * n + 4) (g_data σ) :: mkwr (4096 * n) (be 4 (lenN (g_data σ))) :: img (g_st σ)))
           (g_vars σ) (Some (4096 * n + 4 + flen (g_data σ))) (g_lim σ) (g_buf σ) (g_data σ) (g_dlen σ)
           ((g_ws σ ++ [mkwr (4096 * n) (be 4 (lenN (g_data σ)))]) ++ [mkwr (4096 * n + 4) (g_data σ)])
           false (g_now σ)).
Proof.
  destruct σ as [[o t u h f] vs pos lim buf dat dlen ws err nw]. cbn [g_err g_vars g_data].
  intros He Hn Hb Hd. subst err. unfold ws_tail, C14gen.WriteSector. cbn [skipn].
  Time lstep.
