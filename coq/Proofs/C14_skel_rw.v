(* C14 / C15: interpretation lemmas - the model's write_sector / read_sector / exist_sector / pad / load / create
   ARE the interpretation (Proofs/C14_skel.v) of the skeletons translated from save/region/mca.go. *)
From Coq Require Import List Arith NArith ZArith Lia Bool ZifyN ZifyNat ZifyBool FMapPositive.
From Coq Require Import String.
From GoMC Require Import Base.Bytes Base.GoInt Gen.Funcs Gen.C14gen.
From GoMC Require Import Model.C14 Model.C14_syntax Proofs.C14_file Proofs.C14_alloc Proofs.C14_tie Proofs.C14_tie_expr Proofs.C14_skel.
Import ListNotations.
Open Scope N_scope.

Ltac step := cbn [sq exec exec0 run run1 call1 g_err g_st g_vars g_pos g_lim g_buf g_data g_dlen g_ws g_now
                  set_st set_vars set_pos set_lim set_buf set_data set_dlen set_ws set_err setl phys
                  look getv setv slot
                  v_x v_z v_need v_n v_now v_sec v_num v_length v_size v_i v_o v_s v_v v_offset v_timestamp v_oldN v_oldNow v_off
                  offs tss used hwm img st_offs st_tss st_used st_hwm st_img vars0].

Ltac lstep := lazy beta iota zeta delta
                 [sq exec exec0 run run1 call1 g_err g_st g_vars g_pos g_lim g_buf g_data g_dlen g_ws g_now
                  set_st set_vars set_pos set_lim set_buf set_data set_dlen set_ws set_err setl phys
                  look getv setv slot
                  v_x v_z v_need v_n v_now v_sec v_num v_length v_size v_i v_o v_s v_v v_offset v_timestamp v_oldN v_oldNow v_off
                  offs tss used hwm img st_offs st_tss st_used st_hwm st_img vars0].

Lemma Zlt0_ofN (n : N) : (Z.of_N n <? 0)%Z = false. Proof. lia. Qed.

(* states are taken apart into their components first: every step then yields a state in constructor form *)
Ltac dσ σ :=
  destruct σ as [[o t u h f] [vx vz vneed vn vnow vsec vnum vlength vsize vi vo vs vv voffset vtimestamp voldN voldNow voff] pos lim buf dat dlen ws err nw];
  cbn [g_err g_vars g_st g_pos g_lim g_buf g_data g_dlen g_ws g_now
       v_x v_z v_need v_n v_now v_sec v_num v_length v_size v_i v_o v_s v_v v_offset v_timestamp v_oldN v_oldNow v_off offs tss used hwm img].

(* ---------- setHead ---------- *)
Lemma call_setHead σ x z (a b : Z) k :
  g_err σ = false -> v_x (g_vars σ) = Z.of_N x -> v_z (g_vars σ) = Z.of_N z -> x < 32 -> z < 32 ->
  call1 CSetHead [a; b] σ k =
  k (mkist (st_img (g_st σ) (mkwr (4 * idx x z) (be 4 (pat a)) :: mkwr (4096 + 4 * idx x z) (be 4 (pat b)) :: img (g_st σ)))
           (g_vars σ) None (g_lim σ) (be 4 (pat a)) (g_data σ) (g_dlen σ)
           ((g_ws σ ++ [mkwr (4096 + 4 * idx x z) (be 4 (pat b))]) ++ [mkwr (4 * idx x z) (be 4 (pat a))])
           false (g_now σ)).
Proof.
  dσ σ. intros He Hx Hz Hx32 Hz32. subst err vx vz. unfold call1, run, C14gen.setHead. lstep.
  rewrite tie_head_pos, tie_head_pos_ts by assumption.
  rewrite !Zlt0_ofN, !N2Z.id. unfold c14_setHead_put32, c14_setHead_put32_1. reflexivity.
Qed.

(* ---------- findSpace: the scan loop is Model.C14.find_space, step for step ---------- *)
Fixpoint scan_ni (fuel : nat) (u : bmap) (need n i : N) : option (N * N) :=
  match fuel with
  | O => None
  | S f => if i <? need then if getB u (n + i) then scan_ni f u need (n + i + 1) 0 else scan_ni f u need n (i + 1)
           else Some (n, i)
  end.

Lemma scan_ni_fst fuel u need : forall n i, option_map fst (scan_ni fuel u need n i) = find_space fuel u need n i.
Proof.
  induction fuel as [|f IH]; intros n i; cbn [scan_ni find_space]; [reflexivity|].
  destruct (i <? need); [|reflexivity]. destruct (getB u (n + i)); apply IH.
Qed.

Definition fs_hi : env -> Z := fun v => c14_findSpace_bound (v Vneed).
Definition fs_body (ret : string -> ist -> res) : (ist -> res) -> ist -> res :=
  sq (fun s k => exec0 s ret k)
     [SIfUsed "r.sectors[n+i]" (fun v : env => c14_findSpace_probe (v Vn) (v Vi))
        [SLet Vn "n += i + 1" (fun v : env => c14_findSpace_n (v Vn) (v Vi));
         SLet Vi "i = -1" (fun _ : env => c14_findSpace_i)]].

Lemma scan_loop ret k σb rb need : g_err σb = false -> v_need rb = Z.of_N need ->
  forall fuel n i, n + i + N.of_nat fuel < 2^31 - 1 ->
  for_loop fuel Vi fs_hi (fs_body ret) k (set_vars σb (setv (setv rb Vn (Z.of_N n)) Vi (Z.of_N i))) =
  match scan_ni fuel (used (g_st σb)) need n i with
  | Some (n', i') => k (set_vars σb (setv (setv rb Vn (Z.of_N n')) Vi (Z.of_N i')))
  | None => RNoFuel
  end.
Proof.
  intros He Hneed. change (2^31 - 1) with 2147483647.
  destruct σb as [[o t u h f] vs0 pos lim buf dat dlen ws err nw].
  destruct rb as [vx vz vneed vn vnow vsec vnum vlength vsize vi vo vs vv voffset vtimestamp voldN voldNow voff].
  cbn [g_err v_need g_st used] in *. subst err vneed.
  induction fuel as [|fu IH]; intros n i Hb; cbn [for_loop scan_ni]; [reflexivity|].
  unfold fs_hi at 1. lstep. unfold c14_findSpace_bound.
  replace (Z.of_N i <? Z.of_N need)%Z with (i <? need) by lia.
  destruct (i <? need); [|reflexivity].
  unfold fs_body at 1. lstep.
  rewrite tie_probe by (change (2^31) with 2147483648; lia). rewrite Zlt0_ofN, N2Z.id.
  destruct (getB u (n + i)).
  - rewrite tie_skip by (change (2^31) with 2147483648; lia).
    unfold c14_findSpace_i. change (wrap_s 32 (-1 + 1)) with (Z.of_N 0).
    exact (IH (n + i + 1) 0 ltac:(lia)).
  - rewrite (ws32 (Z.of_N i + 1)) by lia. replace (Z.of_N i + 1)%Z with (Z.of_N (i + 1)) by lia.
    exact (IH n (i + 1) ltac:(lia)).
Qed.

Lemma call_findSpace σ need k : g_err σ = false -> hwm (g_st σ) + need + 2 < 2^31 - 1 ->
  call1 CFindSpace [Z.of_N need] σ k =
  match find_space (N.to_nat (hwm (g_st σ) + need + 2)) (used (g_st σ)) need 0 0 with
  | Some n' => k (set_vars σ (setv (g_vars σ) Vn (Z.of_N n')))
  | None => RNoFuel
  end.
Proof.
  dσ σ. intros He Hb. subst err. unfold call1, run, C14gen.findSpace. lstep.
  unfold c14_findSpace_bound at 1.
  replace (Z.to_nat (Z.of_N h + Z.of_N need + 2)) with (N.to_nat (h + need + 2)) by lia.
  match goal with |- for_loop ?fu Vi ?hi ?body ?k0 ?s0 = ?RR =>
    change (for_loop fu Vi fs_hi (fs_body (fun (_ : string) (σ' : ist) => k (set_vars σ' (setv
               (mkvars vx vz vneed vn vnow vsec vnum vlength vsize vi vo vs vv voffset vtimestamp voldN voldNow voff) Vn (v_n (g_vars σ')))))) k0
              (set_vars (mkist (Build_st o t u h f) vars0 pos lim buf dat dlen ws false nw)
                        (setv (setv (setv vars0 Vneed (Z.of_N need)) Vn (Z.of_N 0)) Vi (Z.of_N 0))) = RR) end.
  rewrite (scan_loop _ _ (mkist (Build_st o t u h f) vars0 pos lim buf dat dlen ws false nw) (setv vars0 Vneed (Z.of_N need)) need eq_refl eq_refl) by lia.
  rewrite <- scan_ni_fst. cbn [g_st used].
  destruct (scan_ni (N.to_nat (h + need + 2)) u need 0 0) as [[n' i']|]; [|reflexivity].
  lstep. reflexivity.
Qed.

(* ---------- the counted loops that free / mark a run are Model.C14.mark ---------- *)
Ltac mark_loop_tac :=
  let He := fresh "He" in let Hhi := fresh "Hhi" in let Hn := fresh "Hn" in let Hb := fresh "Hb" in
  intros He Hhi Hn Hb; change (2^31) with 2147483648 in Hb;
  match goal with σb : ist, rb : vars |- _ =>
    destruct σb as [[o t u0 h f] vs0 pos lim buf dat dlen ws err nw];
    destruct rb as [vx vz vneed vn vnow vsec vnum vlength vsize vi vo vs vv voffset vtimestamp voldN voldNow voff] end;
  cbn [g_err g_st used v_now v_need v_n v_s v_o] in *; subst;
  let m := fresh "m" in let IH := fresh "IH" in let j := fresh "j" in let u := fresh "u" in let Hj := fresh "Hj" in
  induction m as [|m IH]; intros j u Hj; cbn [for_loop mark]; lstep;
  [ match goal with |- (if (Z.of_N j <? Z.of_N ?c)%Z then _ else _) = _ =>
      assert ((Z.of_N j <? Z.of_N c)%Z = false) as -> by lia; replace j with c by lia; reflexivity end
  | match goal with |- (if (Z.of_N j <? Z.of_N ?c)%Z then _ else _) = _ =>
      assert ((Z.of_N j <? Z.of_N c)%Z = true) as -> by lia end;
    match goal with |- context [wrap_s 32 (Z.of_N ?n + Z.of_N j)%Z] =>
      rewrite (ws32 (Z.of_N n + Z.of_N j)) by lia;
      assert ((Z.of_N n + Z.of_N j <? 0)%Z = false) as -> by lia;
      replace (Z.to_N (Z.of_N n + Z.of_N j)) with (n + j) by lia;
      rewrite (ws32 (Z.of_N j + 1)) by lia; replace (Z.of_N j + 1)%Z with (Z.of_N (j + 1)) by lia;
      match goal with |- context [setB u (n + j) ?bb] =>
        let IH' := fresh in
        pose proof (IH (j + 1) (setB u (n + j) bb) ltac:(lia)) as IH';
        replace (n + (j + 1)) with (n + j + 1) in IH' by lia; exact IH' end end ].

Lemma mark_loop_now dc ret k txt b σb rb n cnt :
  g_err σb = false -> v_now rb = Z.of_N cnt -> v_n rb = Z.of_N n -> n + cnt < 2^31 ->
  forall m j u, j + N.of_nat m = cnt ->
  for_loop (S m) Vi (fun v => v Vnow)
           (sq (fun s k => exec dc s ret k) [SMark txt (fun v => wrap_s 32 (v Vn + v Vi)%Z) b]) k
           (set_vars (set_st σb (st_used (g_st σb) u)) (setv rb Vi (Z.of_N j)))
  = k (set_vars (set_st σb (st_used (g_st σb) (mark u (n + j) m b))) (setv rb Vi (Z.of_N cnt))).
Proof. mark_loop_tac. Qed.

Lemma mark_loop_need dc ret k txt b σb rb n cnt :
  g_err σb = false -> v_need rb = Z.of_N cnt -> v_n rb = Z.of_N n -> n + cnt < 2^31 ->
  forall m j u, j + N.of_nat m = cnt ->
  for_loop (S m) Vi (fun v => v Vneed)
           (sq (fun s k => exec dc s ret k) [SMark txt (fun v => wrap_s 32 (v Vn + v Vi)%Z) b]) k
           (set_vars (set_st σb (st_used (g_st σb) u)) (setv rb Vi (Z.of_N j)))
  = k (set_vars (set_st σb (st_used (g_st σb) (mark u (n + j) m b))) (setv rb Vi (Z.of_N cnt))).
Proof. mark_loop_tac. Qed.

Lemma mark_loop_s dc ret k txt b σb rb n cnt :
  g_err σb = false -> v_s rb = Z.of_N cnt -> v_o rb = Z.of_N n -> n + cnt < 2^31 ->
  forall m j u, j + N.of_nat m = cnt ->
  for_loop (S m) Vi (fun v => v Vs)
           (sq (fun s k => exec dc s ret k) [SMark txt (fun v => wrap_s 32 (v Vo + v Vi)%Z) b]) k
           (set_vars (set_st σb (st_used (g_st σb) u)) (setv rb Vi (Z.of_N j)))
  = k (set_vars (set_st σb (st_used (g_st σb) (mark u (n + j) m b))) (setv rb Vi (Z.of_N cnt))).
Proof. mark_loop_tac. Qed.

(* ---------- WriteSector ---------- *)
Definition init (s : st) (x z : N) (d : list N) (now : N) : ist :=
  mkist s (setv (setv vars0 Vx (Z.of_N x)) Vz (Z.of_N z)) None 0 [] d 0 [] false now.

(* the interpretation of the translated WriteSector: new Region object + file, the physical writes IN ORDER, outcome.
   The position of the file when WriteSector is entered is unknown (None): the body must Seek before it writes. *)
Definition interp_write (s : st) (x z : N) (d : list N) (now : N) : option (st * list wr * wres) :=
  match run1 C14gen.WriteSector RFin (init s x z d now) with
  | RFin t σ => if g_err σ then None
                else if String.eqb t "return nil" then Some (g_st σ, g_ws σ, WOk)
                else if String.eqb t "return ErrTooLarge" then Some (g_st σ, g_ws σ, WTooLarge)
                else None
  | RNoFuel | ROutside => Some (s, [], WOutside)      (* the model gives up: sector numbers beyond its range *)
  | _ => None
  end.


Lemma sq_app {S K} (f : S -> K -> K) a b k : sq f (a ++ b) k = sq f a (sq f b k).
Proof. induction a as [|x a IH]; cbn [app sq]; [reflexivity|]. now rewrite IH. Qed.

(* the last seven statements: Seek, length, data *)
Definition ws_tail : list sem_stmt := skipn 4 C14gen.WriteSector.
Definition ws_alloc : list sem_stmt :=
  match nth_error C14gen.WriteSector 3 with Some (SIf _ _ _ el) => el | _ => [] end.

Lemma tail_eq σ n : g_err σ = false -> v_n (g_vars σ) = Z.of_N n -> n < 2^31 -> lenN (g_data σ) < 2^32 ->
  sq (fun s k => exec call1 s RFin k) ws_tail (fun _ => RStuck) σ =
  RFin "return nil"
    (mkist (st_img (g_st σ) (mkwr (4096 * n + 4) (g_data σ) :: mkwr (4096 * n) (be 4 (lenN (g_data σ))) :: img (g_st σ)))
           (g_vars σ) (Some (4096 * n + 4 + flen (g_data σ))) (g_lim σ) (g_buf σ) (g_data σ) (g_dlen σ)
           ((g_ws σ ++ [mkwr (4096 * n) (be 4 (lenN (g_data σ)))]) ++ [mkwr (4096 * n + 4) (g_data σ)])
           false (g_now σ)).
Proof.
  dσ σ. intros He Hn Hb Hd. subst err vn. unfold ws_tail, C14gen.WriteSector. cbn [skipn]. lstep.
  rewrite tie_seek_w by exact Hb. rewrite Zlt0_ofN, N2Z.id.
  unfold pat. rewrite !flen_lenN. rewrite tie_written_length by exact Hd. rewrite N2Z.id.
  replace (lenN (be 4 (lenN dat))) with 4 by (unfold lenN at 1; rewrite be_length; reflexivity). reflexivity.
Qed.

(* one statement at a time, the rest of the body kept folded *)
Ltac lstep0 := lazy beta iota zeta delta
                 [sq exec g_err g_st g_vars g_pos g_lim g_buf g_data g_dlen g_ws g_now
                  set_st set_vars set_pos set_lim set_buf set_data set_dlen set_ws set_err setl phys
                  look getv setv slot
                  v_x v_z v_need v_n v_now v_sec v_num v_length v_size v_i v_o v_s v_v v_offset v_timestamp v_oldN v_oldNow v_off
                  offs tss used hwm img st_offs st_tss st_used st_hwm st_img vars0].
Ltac peel :=
  match goal with |- context [sq ?f (?s :: ?rest) ?k ?σ] =>
    change (sq f (s :: rest) k σ) with (f s (sq f rest k) σ);
    let K := fresh "K" in set (K := sq f rest k); cbv beta end.

Lemma exec_for dc kind i t hi body ret k σ : g_err σ = false ->
  exec dc (SFor kind i t hi body) ret k σ =
  for_loop (match kind with
            | LCounted => Datatypes.S (Z.to_nat (hi (look σ)))
            | LScan => Z.to_nat (Z.of_N (hwm (g_st σ)) + hi (look σ) + 2)
            end) i hi (sq (fun s k => exec dc s ret k) body) k (setl σ i 0%Z).
Proof. intros He. cbn [exec]. rewrite He. reflexivity. Qed.

Lemma alloc_eq k o t u h f vsec vnum vlength vsize vi vo vs vv voffset vtimestamp voldN voldNow voff pos lim buf dat dlen ws nw
      (x z n cur need : N) :
  x < 32 -> z < 32 -> need < 256 -> cur < 256 -> n < 2^24 -> h <= 2^23 -> nw < 2^63 ->
  sq (fun s k => exec call1 s RFin k) ws_alloc k
     (mkist (Build_st o t u h f)
            (mkvars (Z.of_N x) (Z.of_N z) (Z.of_N need) (Z.of_N n) (Z.of_N cur) vsec vnum vlength vsize vi vo vs vv voffset vtimestamp voldN voldNow voff)
            pos lim buf dat dlen ws false nw) =
  match find_space (N.to_nat (h + need + 2)) (mark u n (N.to_nat cur) false) need 0 0 with
  | None => RNoFuel
  | Some n' =>
      if sector_limit <=? n' + need then ROutside else
      k (mkist (Build_st (setN o (idx x z) (n' * 256 + need)) (setN t (idx x z) (nw mod 2^32))
                         (mark (mark u n (N.to_nat cur) false) n' (N.to_nat need) true) (N.max h (n' + need))
                         (mkwr (4 * idx x z) (be 4 (n' * 256 + need)) :: mkwr (4096 + 4 * idx x z) (be 4 (nw mod 2^32)) :: f))
               (mkvars (Z.of_N x) (Z.of_N z) (Z.of_N need) (Z.of_N n') (Z.of_N need) vsec vnum vlength vsize (Z.of_N need)
                       vo vs vv voffset (wrap_s 64 (Z.of_N nw)) (Z.of_N n) (Z.of_N cur) voff)
               None lim (be 4 (n' * 256 + need)) dat dlen
               ((ws ++ [mkwr (4096 + 4 * idx x z) (be 4 (nw mod 2^32))]) ++ [mkwr (4 * idx x z) (be 4 (n' * 256 + need))])
               false nw)
  end.
Proof.
  intros Hx Hz Hneed Hcur Hn Hh Hnw.
  change (2^24) with 16777216 in Hn. change (2^23) with 8388608 in Hh.
  unfold ws_alloc, C14gen.WriteSector. cbn [nth_error].
  (* oldN, oldNow := n, now *)
  peel. lstep0. subst K. peel. lstep0. unfold c14_WriteSector_oldN, c14_WriteSector_oldNow.
  (* free the old run *)
  subst K. peel. rewrite exec_for by reflexivity.
  etransitivity.
  { apply (mark_loop_now call1 RFin K "r.sectors[n+i] = false" false
             (mkist (Build_st o t u h f)
                (mkvars (Z.of_N x) (Z.of_N z) (Z.of_N need) (Z.of_N n) (Z.of_N cur) vsec vnum vlength vsize vi vo vs vv voffset vtimestamp (Z.of_N n) (Z.of_N cur) voff)
                pos lim buf dat dlen ws false nw)
             (mkvars (Z.of_N x) (Z.of_N z) (Z.of_N need) (Z.of_N n) (Z.of_N cur) vsec vnum vlength vsize vi vo vs vv voffset vtimestamp (Z.of_N n) (Z.of_N cur) voff)
             n cur eq_refl eq_refl eq_refl ltac:(change (2^31) with 2147483648; lia) (Z.to_nat (Z.of_N cur)) 0 u ltac:(lia)). }
  rewrite N.add_0_r. replace (Z.to_nat (Z.of_N cur)) with (N.to_nat cur) by lia.
  (* findSpace *)
  subst K. peel. lstep0. unfold c14_WriteSector_findSpace_arg.
  rewrite call_findSpace by (cbn [g_err g_st hwm]; try reflexivity; change (2^31 - 1) with 2147483647; lia).
  cbn [g_st hwm used].
  destruct (find_space (N.to_nat (h + need + 2)) (mark u n (N.to_nat cur) false) need 0 0) as [n'|] eqn:Efs.
  2: reflexivity.
  lstep0. rewrite ?N2Z.id.
  destruct (sector_limit <=? n' + need) eqn:Elim.
  1: reflexivity.
  assert (Hn' : n' + need < 8388608) by (unfold sector_limit in Elim; change (2^23) with 8388608 in Elim; lia).
  (* now = need *)
  subst K. peel. lstep0. unfold c14_WriteSector_now.
  (* mark the new run *)
  subst K. peel. rewrite exec_for by reflexivity.
  etransitivity.
  { apply (mark_loop_need call1 RFin K "r.sectors[n+i] = true" true
             (mkist (Build_st o t (mark u n (N.to_nat cur) false) (N.max h (n' + need)) f)
                (mkvars (Z.of_N x) (Z.of_N z) (Z.of_N need) (Z.of_N n') (Z.of_N need) vsec vnum vlength vsize (Z.of_N cur) vo vs vv voffset vtimestamp (Z.of_N n) (Z.of_N cur) voff)
                pos lim buf dat dlen ws false nw)
             (mkvars (Z.of_N x) (Z.of_N z) (Z.of_N need) (Z.of_N n') (Z.of_N need) vsec vnum vlength vsize (Z.of_N cur) vo vs vv voffset vtimestamp (Z.of_N n) (Z.of_N cur) voff)
             n' need eq_refl eq_refl eq_refl ltac:(change (2^31) with 2147483648; lia) (Z.to_nat (Z.of_N need)) 0
             (mark u n (N.to_nat cur) false) ltac:(lia)). }
  rewrite N.add_0_r. replace (Z.to_nat (Z.of_N need)) with (N.to_nat need) by lia.
  (* r.offsets[z][x] = ... *)
  subst K. peel. lstep0. rewrite ?N2Z.id.
  unfold pat at 1. rewrite tie_new_offset by (try (change (2^23) with 8388608); lia). rewrite ?N2Z.id.
  (* timestamp := time.Now().Unix() *)
  subst K. peel. lstep0.
  (* setHead *)
  subst K. peel. lstep0. rewrite ?N2Z.id.
  rewrite (call_setHead _ x z) by (cbn [g_err g_vars v_x v_z]; try reflexivity; assumption).
  cbn [g_st g_vars g_lim g_data g_dlen g_ws g_now img].
  unfold elem. rewrite getN_set_same.
  assert (Ho' : n' * 256 + need < 2^32) by (change (2^32) with 4294967296; lia).
  rewrite (N.mod_small _ _ Ho'). unfold pat. rewrite tie_head_offset by exact Ho'. rewrite ?N2Z.id.
  rewrite tie_timestamp_head by exact Hnw. rewrite ?N2Z.id.
  (* if err != nil; r.Timestamps[z][x] = int32(timestamp) *)
  subst K. peel. lstep0. subst K. peel. lstep0. rewrite ?N2Z.id.
  unfold pat. rewrite tie_timestamp_mem by exact Hnw. rewrite ?N2Z.id.
  subst K. cbn [sq].
  rewrite wu32 by (change (2^32) with 4294967296 in Ho'; lia). rewrite N2Z.id. reflexivity.
Qed.

Lemma exec_if dc t c th el ret k σ : g_err σ = false ->
  exec dc (SIf t c th el) ret k σ =
  if c (look σ) then sq (fun s k => exec dc s ret k) th k σ else sq (fun s k => exec dc s ret k) el k σ.
Proof. intros He. cbn [exec]. rewrite He. reflexivity. Qed.

Lemma sec_of_lt o : sec_of o < 2^24.
Proof. unfold sec_of. apply N.mod_lt. discriminate. Qed.
Lemma cnt_of_lt' o : cnt_of o < 256.
Proof. unfold cnt_of. apply N.mod_lt. discriminate. Qed.

(* THE interpretation theorem for WriteSector: for every Region state, coordinates, payload and clock value,
   running the translated body statement by statement yields exactly the model's new state, its list of
   physical writes IN THE SAME ORDER, and its outcome. *)
Theorem interp_write_eq s x z d now :
  x < 32 -> z < 32 -> lenN d + 4 + 4095 < 2^43 -> hwm s <= sector_limit -> now < 2^63 ->
  interp_write s x z d now = Some (write_sector s x z d now).
Proof.
  intros Hx Hz Hd Hh Hnow. unfold sector_limit in Hh. destruct s as [o t u h f]. cbn [hwm] in Hh.
  unfold interp_write, run1, run, init, write_sector. cbv zeta. cbn [offs tss used hwm img].
  rewrite !flen_lenN.
  set (need := (lenN d + 4 + 4095) / 4096). set (ow := getN o (idx x z)).
  unfold C14gen.WriteSector.
  (* need := ... *)
  peel. lstep0. rewrite flen_lenN, tie_need by exact Hd. fold need.
  (* n, now := sectorLoc(r.offsets[z][x]) *)
  subst K. peel. lstep0. rewrite !N2Z.id. unfold c14_WriteSector_loc_arg, elem. fold ow. rewrite tie_loc. cbn [fst snd].
  (* if need >= 256 *)
  subst K. peel. lstep0. rewrite tie_too_large.
  destruct (256 <=? need) eqn:Ebig; [reflexivity|].
  assert (Hneed : need < 256) by lia.
  assert (Hdl : lenN d < 2^32) by (change (2^32) with 4294967296; unfold need in Hneed; lia).
  (* if n != 0 && now == need *)
  subst K. peel.
  match goal with |- context [exec call1 (SIf ?t ?c [] ?el) RFin ?K ?σ] => change el with ws_alloc end.
  rewrite exec_if by reflexivity.
  lazy beta iota delta [look getv g_vars v_n v_now v_need].
  rewrite tie_inplace. cbn [sq].
  pose proof (sec_of_lt ow) as Hsec. pose proof (cnt_of_lt' ow) as Hcnt.
  destruct (negb (sec_of ow =? 0) && (cnt_of ow =? need)) eqn:Einp.
  - (* in place *)
    subst K.
    rewrite (tail_eq _ (sec_of ow)) by (cbn [g_err g_vars v_n g_data]; try reflexivity; try assumption; change (2^31) with 2147483648; change (2^24) with 16777216 in Hsec; lia).
    cbn [g_st g_vars g_lim g_buf g_data g_dlen g_ws g_now g_err img app rev String.eqb Ascii.eqb Bool.eqb].
    reflexivity.
  - (* allocate *)
    rewrite alloc_eq by (try assumption; change (2^23) with 8388608 in Hh; try lia).
    destruct (find_space (N.to_nat (h + need + 2)) (mark u (sec_of ow) (N.to_nat (cnt_of ow)) false) need 0 0) as [n'|]; [|reflexivity].
    destruct (sector_limit <=? n' + need) eqn:Elim; [reflexivity|].
    subst K.
    rewrite (tail_eq _ n') by (cbn [g_err g_vars v_n g_data]; try reflexivity; try assumption;
                               unfold sector_limit in Elim; change (2^23) with 8388608 in Elim; change (2^31) with 2147483648; lia).
    cbn [g_st g_vars g_lim g_buf g_data g_dlen g_ws g_now g_err img app rev String.eqb Ascii.eqb Bool.eqb].
    reflexivity.
Qed.

(* ---------- ReadSector ---------- *)
Definition interp_read (s : st) (x z : N) : option rres :=
  match run1 C14gen.ReadSector RFin (init s x z [] 0) with
  | RFin t σ =>
      if g_err σ then Some REOF                      (* io.EOF / io.ErrUnexpectedEOF from the two reads *)
      else if String.eqb t "return nil, ErrNoSector" then Some RNoSector
      else if String.eqb t "return nil, ErrNoData" then Some RNoData
      else if String.eqb t "return nil, ErrSectorNegativeLength" then Some RNegative
      else if String.eqb t "return nil, ErrTooLarge" then Some RTooLarge
      else if String.eqb t "return" then Some (ROk (g_data σ))
      else None
  | _ => None
  end.

(* the four checks IN ORDER, with their constants, the seek offset and the LimitReader length *)
Theorem interp_read_eq s x z :
  x < 32 -> z < 32 ->
  rd32 (img s) (4096 * sec_of (getN (offs s) (idx x z))) < 2^32 ->        (* the file holds bytes *)
  interp_read s x z = Some (read_sector s x z).
Proof.
  intros Hx Hz Hw. destruct s as [o t u h f]. cbn [offs img] in Hw.
  unfold interp_read, read_sector, read_at, init. cbv zeta. cbn [offs img].
  set (ow := getN o (idx x z)) in *. set (len := rd32 f (4096 * sec_of ow)) in *.
  pose proof (sec_of_lt ow) as Hsec. pose proof (cnt_of_lt' ow) as Hcnt. change (2^24) with 16777216 in Hsec.
  unfold C14gen.ReadSector. lstep.
  rewrite !N2Z.id. unfold c14_ReadSector_loc_arg, elem. fold ow. rewrite tie_loc. cbn [fst snd].
  rewrite tie_no_sector. destruct (sec_of ow =? 0) eqn:Es; [reflexivity|].
  rewrite tie_seek_r by (change (2^31) with 2147483648; lia). rewrite Zlt0_ofN, N2Z.id.
  rewrite tie_limit by exact Hcnt. rewrite N2Z.id.
  destruct ((4096 * cnt_of ow <? 4) || (fsize f <? 4096 * sec_of ow + 4)) eqn:E1; [reflexivity|].
  fold len. rewrite tie_no_data by exact Hw. destruct (len =? 0) eqn:E2; [reflexivity|].
  rewrite tie_negative by exact Hw. destruct (2^31 <=? len) eqn:E3; [reflexivity|].
  assert (Hl : len < 2^31) by lia.
  rewrite tie_too_long by assumption. destruct (4096 * cnt_of ow <? len) eqn:E4; [reflexivity|].
  rewrite tie_make_len by exact Hl. rewrite Zlt0_ofN, N2Z.id.
  replace (4096 * cnt_of ow - 4 <? len) with (4096 * cnt_of ow - 4 <? len) by reflexivity.
  replace (fsize f <? 4096 * sec_of ow + 4 + len) with (fsize f <? 4096 * sec_of ow + 4 + len) by reflexivity.
  destruct ((4096 * cnt_of ow - 4 <? len) || (fsize f <? 4096 * sec_of ow + 4 + len)) eqn:E5; reflexivity.
Qed.

(* ---------- ExistSector, PadToFullSector ---------- *)
Definition interp_exist (s : st) (x z : N) : option bool :=
  match run1 C14gen.ExistSector RFin (init s x z [] 0) with RBool b => Some b | _ => None end.

Theorem interp_exist_eq s x z : x < 32 -> z < 32 -> getN (offs s) (idx x z) < 2^32 ->
  interp_exist s x z = Some (exist_sector s x z).
Proof.
  intros Hx Hz Ho. destruct s as [o t u h f]. cbn [offs] in Ho.
  unfold interp_exist, exist_sector, init. cbn [offs]. unfold C14gen.ExistSector. lstep.
  rewrite !N2Z.id. unfold elem. rewrite N.mod_small by exact Ho. rewrite tie_exist by exact Ho. reflexivity.
Qed.

Definition interp_pad (s : st) : option (st * list wr) :=
  match run1 C14gen.PadToFullSector RFin (init s 0 0 [] 0) with
  | RFin t σ => if g_err σ then None else if String.eqb t "return nil" then Some (g_st σ, g_ws σ) else None
  | _ => None
  end.

Theorem interp_pad_eq s : fsize (img s) < 2^63 -> interp_pad s = Some (pad s).
Proof.
  intros Hf. destruct s as [o t u h f]. cbn [img] in Hf. change (2^63) with 9223372036854775808 in Hf.
  unfold interp_pad, pad, init. cbv zeta. cbn [offs tss used hwm img]. unfold C14gen.PadToFullSector. lstep.
  rewrite (ws64 (Z.of_N (fsize f))) by lia. rewrite tie_pad_cond, tie_padding.
  destruct (fsize f mod 4096 =? 0); cbn [negb]; [reflexivity|].
  rewrite Zlt0_ofN, N2Z.id. reflexivity.
Qed.

(* ---------- CreateWriter (a closed computation) ---------- *)
Definition interp_create : option st :=
  match run1 C14gen.CreateWriter RFin
          (mkist (Build_st (PositiveMap.empty N) (PositiveMap.empty N) (PositiveMap.empty bool) 2 [])   (* new(Region); ghost hwm = 2 *)
                 vars0 (Some 0) 0 [] [] 0 [] false 0) with
  | RFin t σ => if g_err σ then None else if String.eqb t "return r, nil" then Some (g_st σ) else None
  | _ => None
  end.

Theorem interp_create_eq : interp_create = Some create.
Proof. vm_compute. reflexivity. Qed.

(* ---------- Load ---------- *)
Definition load_body : list sem_stmt :=
  match nth_error C14gen.Load 7 with Some (SRange _ _ b) => b | _ => [] end.
Definition ustep (o : nmap) := fun (u : bmap) (i : nat) => let w := getN o (N.of_nat i) in
  if sec_of w =? 0 then u else mark u (sec_of w) (N.to_nat (cnt_of w)) true.

(* the occupancy loop: every header entry in index order; `o != 0` skips, otherwise the run is marked *)
Lemma range_eq k o t h f pos lim buf dat dlen ws nw : forall l u r,
  exists r', range_loop l Vv (sq (fun s k => exec call1 s RFin k) load_body) k
               (mkist (Build_st o t u h f) r pos lim buf dat dlen ws false nw)
           = k (mkist (Build_st o t (fold_left (ustep o) l u) h f) r' pos lim buf dat dlen ws false nw).
Proof.
  induction l as [|j l IH]; intros u r; cbn [range_loop fold_left]; [exists r; reflexivity|].
  destruct r as [vx vz vneed vn vnow vsec vnum vlength vsize vi vo vs vv voffset vtimestamp voldN voldNow voff].
  unfold load_body, C14gen.Load. cbn [nth_error].
  pose proof (sec_of_lt (getN o (N.of_nat j))) as Hsec. pose proof (cnt_of_lt' (getN o (N.of_nat j))) as Hcnt.
  change (2^24) with 16777216 in Hsec.
  peel. lstep0. unfold c14_Load_loc_arg, elem. rewrite tie_loc. cbn [fst snd].
  subst K. peel. rewrite exec_if by reflexivity. lazy beta iota delta [look getv g_vars v_o].
  rewrite tie_load_cond.
  assert (Hu : ustep o u j = if sec_of (getN o (N.of_nat j)) =? 0 then u
                             else mark u (sec_of (getN o (N.of_nat j))) (N.to_nat (cnt_of (getN o (N.of_nat j)))) true) by reflexivity.
  rewrite Hu. clear Hu.
  destruct (sec_of (getN o (N.of_nat j)) =? 0) eqn:Es; cbn [negb].
  - cbn [sq]. subst K. cbn [sq]. apply IH.
  - peel. rewrite exec_for by reflexivity.
    set (sj := sec_of (getN o (N.of_nat j))) in *. set (cj := cnt_of (getN o (N.of_nat j))) in *.
    set (rb := mkvars vx vz vneed vn vnow vsec vnum vlength vsize vi (Z.of_N sj) (Z.of_N cj) (elem o (N.of_nat j)) voffset vtimestamp voldN voldNow voff).
    set (σb := mkist (Build_st o t u h f) rb pos lim buf dat dlen ws false nw).
    match goal with |- context [for_loop ?fu Vi ?hi ?bd ?K0 ?S0] =>
      assert (Hloop : for_loop fu Vi hi bd K0 S0 =
                      K0 (set_vars (set_st σb (st_used (g_st σb) (mark u (sj + 0) (Z.to_nat (Z.of_N cj)) true))) (setv rb Vi (Z.of_N cj))))
        by (apply (mark_loop_s call1 RFin K0 "r.sectors[o+i] = true" true σb rb sj cj eq_refl eq_refl eq_refl
                     ltac:(change (2^31) with 2147483648; lia) (Z.to_nat (Z.of_N cj)) 0 u ltac:(lia)));
      rewrite Hloop; clear Hloop end.
    rewrite N.add_0_r. replace (Z.to_nat (Z.of_N cj)) with (N.to_nat cj) by lia.
    subst K. cbn [sq]. apply IH.
Qed.

(* Load on a file whose position is 0; the high-water mark (ghost) is recomputed by the model's load_hwm *)
Definition interp_load (f : file) : option lres :=
  match run1 C14gen.Load RFin
          (mkist (Build_st (PositiveMap.empty N) (PositiveMap.empty N) (PositiveMap.empty bool) 2 f)
                 vars0 (Some 0) 0 [] [] 0 [] false 0) with
  | RFin t σ => if g_err σ then Some LErrShort
                else if String.eqb t "return r, nil" then Some (LOk (st_hwm (g_st σ) (load_hwm (offs (g_st σ)))))
                else None
  | _ => None
  end.

Lemma load_split : C14gen.Load = firstn 7 C14gen.Load ++ [SRange Vv "for _, v := range r.offsets { for _, v := range v" load_body; SRet "return r, nil"].
Proof. reflexivity. Qed.

Theorem interp_load_eq f : interp_load f = Some (load f).
Proof.
  unfold interp_load, load, run1, run. rewrite load_split. rewrite sq_app.
  unfold C14gen.Load. cbn [firstn].
  match goal with |- context [sq ?ff [SRange ?v ?t ?b; ?r] ?kk] => set (K2 := sq ff [SRange v t b; r] kk) end.
  lstep.
  change (0 + 4096) with 4096. change (4096 + 4096) with 8192.
  destruct (fsize f <? 4096) eqn:E1.
  { assert ((fsize f <? 8192) = true) as -> by lia. reflexivity. }
  destruct (fsize f <? 8192) eqn:E2; [reflexivity|].
  subst K2. cbn [sq exec g_err]. unfold c14_Load_sector, c14_Load_sector_1. change (Z.to_N 0) with 0. change (Z.to_N 1) with 1.
  unfold load_used, load_tab. fold (tab_read f 0). fold (tab_read f 4096). fold (ustep (tab_read f 0)).
  generalize (seq 0 1024). intros l1024.
  match goal with |- context [range_loop ?l Vv ?b ?k0 ?s0] =>
    assert (Hr : exists r', range_loop l Vv b k0 s0 =
                 k0 (mkist (Build_st (tab_read f 0) (tab_read f 4096)
                                     (fold_left (ustep (tab_read f 0)) l (setB (setB (PositiveMap.empty bool) 0 true) 1 true)) 2 f)
                           r' (Some 8192) 0 [] [] 0 [] false 0)) by (apply (range_eq k0)) end.
  destruct Hr as [r' Hr].
  rewrite Hr. cbn [sq exec g_err g_st st_hwm offs tss used img String.eqb Ascii.eqb Bool.eqb].
  reflexivity.
Qed.
