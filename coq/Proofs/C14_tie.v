(* Tie lemmas (C14): the definitions that tools/gotrans TRANSLATES from the Go source on every run
   (coq/Gen/Funcs.v) agree with the hand-written model the property theorems are about. A source edit of one
   of these functions changes Gen/Funcs.v; these lemmas are then re-checked. *)
From Coq Require Import List Arith NArith ZArith Lia Bool ZifyN ZifyNat ZifyBool.
From GoMC Require Import Base.Bytes Base.Bits Base.GoInt Gen.Consts Gen.Funcs.
From GoMC Require Model.C14.
Import ListNotations.
Ltac Zify.zify_post_hook ::= Z.div_mod_to_equations.
Local Open Scope Z_scope.

(* C14: sectorLoc on the raw header word *)
Lemma tie_sectorLoc (o : N) : (o < 2 ^ 32)%N ->
  region_sectorLoc (sx32 o) = (Z.of_N (C14.sec_of o), Z.of_N (C14.cnt_of o)).
Proof.
  intros Ho. unfold region_sectorLoc, C14.sec_of, C14.cnt_of. cbv zeta.
  change 16777215 with (Z.ones 24). change 255 with (Z.ones 8).
  rewrite !Z.land_ones by lia. rewrite Z.shiftr_div_pow2 by lia.
  unfold sx32, sx. change (2 ^ (32 - 1))%N with 2147483648%N. change (Z.of_N 32) with 32.
  change (2 ^ 32)%N with 4294967296%N in Ho. change (2 ^ 24)%N with 16777216%N.
  change (2 ^ 32) with 4294967296. change (2 ^ 24) with 16777216. change (2 ^ 8) with 256.
  destruct (N.ltb_spec o 2147483648) as [L|L]; f_equal; lia.
Qed.

(* region.In / region.At: the chunk coordinate splits into region coordinate and in-region index *)
Lemma tie_In_At cx cz : let '(x, z) := region_In cx cz in let '(rx, rz) := region_At cx cz in
  0 <= x < 32 /\ 0 <= z < 32 /\ cx = 32 * rx + x /\ cz = 32 * rz + z.
Proof.
  unfold region_In, region_At. change 31 with (Z.ones 5). rewrite !Z.land_ones, !Z.shiftr_div_pow2 by lia.
  change (2 ^ 5) with 32. lia.
Qed.


(* WriteSector: need := int32((len(data) + 4 + 4096 - 1) / 4096), the number of sectors a chunk takes *)
Lemma tie_need (n : N) : (n < 2 ^ 31)%N ->
  region_Region_WriteSector_need (Z.of_N n) = Z.of_N ((n + 4 + 4095) / 4096).
Proof.
  intros Hn. unfold region_Region_WriteSector_need. change (2 ^ 31)%N with 2147483648%N in Hn.
  rewrite (wrap_s_id 64 (Z.of_N n + 4)) by (change (2 ^ (64 - 1)) with 9223372036854775808; lia).
  rewrite (wrap_s_id 64 (Z.of_N n + 4 + 4096)) by (change (2 ^ (64 - 1)) with 9223372036854775808; lia).
  rewrite (wrap_s_id 64 (Z.of_N n + 4 + 4096 - 1)) by (change (2 ^ (64 - 1)) with 9223372036854775808; lia).
  rewrite Z.quot_div_nonneg by lia.
  assert (Hq : 0 <= (Z.of_N n + 4 + 4096 - 1) / 4096 < 2147483648).
  { split; [apply Z.div_pos; lia|apply Z.div_lt_upper_bound; lia]. }
  rewrite (wrap_s_id 32) by (try lia; change (2 ^ (32 - 1)) with 2147483648; lia).
  rewrite N2Z.inj_div. f_equal. lia.
Qed.
