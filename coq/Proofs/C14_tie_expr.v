(* C14 / C15: every arithmetic expression and condition tools/gotrans/c14.go TRANSLATES from
   save/region/mca.go (Gen/C14gen.v: Go int / int32 / int64 / uint32 semantics with an explicit wrap after
   each operation) equals the natural-number expression of the hand-written model Model/C14.v, for ALL
   arguments in the stated ranges.  The ranges say where Go's conversions are exact:
     len(data)+4+4095 < 2^43          int(...)/4096 -> int32(need)            (WriteSector)
     sector numbers   < 2^31          n+i, n+(i+1) in int32                    (findSpace, the mark loops)
     sector numbers   < 2^23          (n << 8) | (need & 0xFF) in int32       (the header word)
     x, z             < 32            4*(int64(z)*32+int64(x))                 (setHead)
     time             < 2^63          uint32(timestamp), int32(timestamp)      (both keep the low 32 bits) *)
From Coq Require Import List Arith NArith ZArith Lia Bool ZifyN ZifyNat ZifyBool.
From GoMC Require Import Base.Bytes Base.Bits Base.GoInt Gen.Funcs Gen.C14gen Model.C14 Proofs.C14_tie.
Import ListNotations.
Ltac Zify.zify_post_hook ::= Z.div_mod_to_equations.
Local Open Scope Z_scope.

Lemma ws64 z : - 2^63 <= z < 2^63 -> wrap_s 64 z = z.
Proof. intros H. apply wrap_s_id; [lia|]. change (2^(64-1)) with (2^63). exact H. Qed.
Lemma ws32 z : - 2^31 <= z < 2^31 -> wrap_s 32 z = z.
Proof. intros H. apply wrap_s_id; [lia|]. change (2^(32-1)) with (2^31). exact H. Qed.
Lemma wu32 z : 0 <= z < 2^32 -> wrap_u 32 z = z.
Proof. intros H. apply wrap_u_id; [lia|exact H]. Qed.

Ltac ws := repeat match goal with
  | |- context [wrap_s 64 ?z] => rewrite (ws64 z) by lia
  | |- context [wrap_s 32 ?z] => rewrite (ws32 z) by lia
  end.

(* ---------- WriteSector ---------- *)
Lemma tie_need (L : N) : (L + 4 + 4095 < 2^43)%N ->
  c14_WriteSector_need (Z.of_N L) = Z.of_N ((L + 4 + 4095) / 4096).
Proof.
  intros H. change (2^43)%N with 8796093022208%N in H. unfold c14_WriteSector_need.
  rewrite (ws64 (Z.of_N L + 4)) by lia. rewrite (ws64 (Z.of_N L + 4 + 4096)) by lia.
  rewrite (ws64 (Z.of_N L + 4 + 4096 - 1)) by lia.
  rewrite Z.quot_div_nonneg by lia.
  replace (Z.of_N L + 4 + 4096 - 1) with (Z.of_N (L + 4 + 4095)) by lia.
  change 4096 with (Z.of_N 4096). rewrite <- N2Z.inj_div.
  assert (((L + 4 + 4095) / 4096 < 2147483648)%N) by lia.
  rewrite ws64 by lia. rewrite ws32 by lia. reflexivity.
Qed.

Lemma tie_too_large (need : N) : c14_WriteSector_cond (Z.of_N need) = (256 <=? need)%N.
Proof. unfold c14_WriteSector_cond. change 256 with (Z.of_N 256). destruct (N.leb_spec 256 need); lia. Qed.

Lemma tie_inplace (n now need : N) :
  c14_WriteSector_cond_1 (Z.of_N n) (Z.of_N now) (Z.of_N need) = (negb (n =? 0)%N && (now =? need)%N)%bool.
Proof.
  unfold c14_WriteSector_cond_1. change 0 with (Z.of_N 0). rewrite !zn_eqb. reflexivity.
Qed.

Lemma tie_sector (n i : N) : (n + i < 2^31)%N -> c14_WriteSector_sector (Z.of_N n) (Z.of_N i) = Z.of_N (n + i).
Proof. intros H. change (2^31)%N with 2147483648%N in H. unfold c14_WriteSector_sector. rewrite ws32 by lia. lia. Qed.
Lemma tie_sector_1 (n i : N) : (n + i < 2^31)%N -> c14_WriteSector_sector_1 (Z.of_N n) (Z.of_N i) = Z.of_N (n + i).
Proof. exact (tie_sector n i). Qed.

Lemma tie_new_offset (n need : N) : (n < 2^23)%N -> (need < 256)%N ->
  wrap_u 32 (c14_WriteSector_new_offset (Z.of_N n) (Z.of_N need)) = Z.of_N (n * 256 + need).
Proof.
  intros Hn Hc. change (2^23)%N with 8388608%N in Hn. unfold c14_WriteSector_new_offset.
  rewrite Z.shiftl_mul_pow2 by lia. change (2^8) with 256. rewrite ws32 by lia.
  change 255 with (Z.of_N 255). rewrite zn_land.
  change 255%N with (2^8 - 1)%N. rewrite land_lowmask. change (2^8)%N with 256%N.
  rewrite N.mod_small by exact Hc.
  replace (Z.of_N n * 256) with (Z.of_N (n * 2^8)) by (change (2^8)%N with 256%N; lia).
  rewrite zn_lor. rewrite lor_add_disjoint' by (change (2^8)%N with 256%N; exact Hc).
  change (2^8)%N with 256%N. apply wu32. lia.
Qed.

Lemma tie_seek_w (n : N) : (n < 2^31)%N -> c14_WriteSector_seek (Z.of_N n) = Z.of_N (4096 * n).
Proof. intros H. change (2^31)%N with 2147483648%N in H. unfold c14_WriteSector_seek. ws. lia. Qed.

Lemma tie_written_length (L : N) : (L < 2^32)%N ->
  wrap_u 32 (c14_WriteSector_written_length (Z.of_N L)) = Z.of_N L.
Proof.
  intros H. change (2^32)%N with 4294967296%N in H. unfold c14_WriteSector_written_length.
  rewrite wrap_u_of_s by lia. apply wu32. lia.
Qed.

(* uint32(timestamp) and int32(timestamp) keep the same 32 bits *)
Lemma tie_timestamp_head (now : N) : (now < 2^63)%N ->
  wrap_u 32 (c14_WriteSector_setHead_timestamp (wrap_s 64 (Z.of_N now))) = Z.of_N (now mod 2^32).
Proof.
  intros H. change (2^63)%N with 9223372036854775808%N in H. unfold c14_WriteSector_setHead_timestamp.
  rewrite ws64 by lia. unfold wrap_u. rewrite Z.mod_mod by lia. change (2 ^ 32) with (Z.of_N (2^32)).
  rewrite <- N2Z.inj_mod. reflexivity.
Qed.
Lemma tie_timestamp_mem (now : N) : (now < 2^63)%N ->
  wrap_u 32 (c14_WriteSector_new_timestamp (wrap_s 64 (Z.of_N now))) = Z.of_N (now mod 2^32).
Proof.
  intros H. change (2^63)%N with 9223372036854775808%N in H. unfold c14_WriteSector_new_timestamp.
  rewrite ws64 by lia. rewrite wrap_u_of_s by lia. unfold wrap_u. change (2 ^ 32) with (Z.of_N (2^32)).
  rewrite <- N2Z.inj_mod. reflexivity.
Qed.

(* uint32(r.offsets[z][x]) gives back the stored pattern *)
Lemma tie_head_offset (o : N) : (o < 2^32)%N -> c14_WriteSector_setHead_offset (sx32 o) = Z.of_N o.
Proof.
  intros H. unfold c14_WriteSector_setHead_offset. rewrite (wrap_u_as_N 32) by lia.
  change (sx32 o mod 2^32) with (sx 32 o mod 2 ^ Z.of_N 32). f_equal.
  apply (wrapu_sx 32 o); [reflexivity|exact H].
Qed.

(* ---------- setHead ---------- *)
Lemma tie_head_pos (x z : N) : (x < 32)%N -> (z < 32)%N ->
  c14_setHead_writeAt_off_1 (Z.of_N z) (Z.of_N x) = Z.of_N (4 * idx x z).
Proof. intros Hx Hz. unfold c14_setHead_writeAt_off_1, idx. ws. lia. Qed.
Lemma tie_head_pos_ts (x z : N) : (x < 32)%N -> (z < 32)%N ->
  c14_setHead_writeAt_off (Z.of_N z) (Z.of_N x) = Z.of_N (4096 + 4 * idx x z).
Proof. intros Hx Hz. unfold c14_setHead_writeAt_off, idx. ws. lia. Qed.

(* ---------- findSpace ---------- *)
Lemma tie_probe (n i : N) : (n + i < 2^31)%N -> c14_findSpace_probe (Z.of_N n) (Z.of_N i) = Z.of_N (n + i).
Proof. exact (tie_sector n i). Qed.
Lemma tie_skip (n i : N) : (n + i + 1 < 2^31)%N -> c14_findSpace_n (Z.of_N n) (Z.of_N i) = Z.of_N (n + i + 1).
Proof.
  intros H. change (2^31)%N with 2147483648%N in H. unfold c14_findSpace_n. rewrite (ws32 (Z.of_N i + 1)) by lia.
  rewrite ws32 by lia. lia.
Qed.

(* ---------- sectorLoc on a table element ---------- *)
Lemma sec_of_mod o : sec_of (o mod 2^32)%N = sec_of o.
Proof. unfold sec_of. change (2^32)%N with 4294967296%N. change (2^24)%N with 16777216%N. lia. Qed.
Lemma cnt_of_mod o : cnt_of (o mod 2^32)%N = cnt_of o.
Proof. unfold cnt_of. change (2^32)%N with 4294967296%N. lia. Qed.

Lemma tie_loc (o : N) : region_sectorLoc (sx32 (o mod 2^32)%N) = (Z.of_N (sec_of o), Z.of_N (cnt_of o)).
Proof.
  rewrite tie_sectorLoc by (apply N.mod_lt; discriminate). rewrite sec_of_mod, cnt_of_mod. reflexivity.
Qed.

(* ---------- ReadSector ---------- *)
Lemma tie_no_sector (sec : N) : c14_ReadSector_cond (Z.of_N sec) = (sec =? 0)%N.
Proof. unfold c14_ReadSector_cond. change 0 with (Z.of_N 0). apply zn_eqb. Qed.
Lemma tie_seek_r (sec : N) : (sec < 2^31)%N -> c14_ReadSector_seek (Z.of_N sec) = Z.of_N (4096 * sec).
Proof. exact (tie_seek_w sec). Qed.
Lemma tie_limit (num : N) : (num < 256)%N -> c14_ReadSector_limit (Z.of_N num) = Z.of_N (4096 * num).
Proof. intros H. unfold c14_ReadSector_limit. ws. lia. Qed.

(* the three tests on the int32 length read from the file, against the model's tests on the 32-bit word *)
Lemma sx32_cases (len : N) : (len < 2^32)%N ->
  sx32 len = if (len <? 2^31)%N then Z.of_N len else Z.of_N len - 2^32.
Proof. intros _. reflexivity. Qed.

Lemma tie_no_data (len : N) : (len < 2^32)%N -> c14_ReadSector_cond_1 (sx32 len) = (len =? 0)%N.
Proof.
  intros H. change (2^32)%N with 4294967296%N in H. unfold c14_ReadSector_cond_1, sx32, sx.
  change (2^(32-1))%N with 2147483648%N. change (2 ^ Z.of_N 32) with 4294967296.
  destruct (N.ltb_spec len 2147483648); destruct (N.eqb_spec len 0); lia.
Qed.
Lemma tie_negative (len : N) : (len < 2^32)%N -> c14_ReadSector_cond_2 (sx32 len) = (2^31 <=? len)%N.
Proof.
  intros H. change (2^32)%N with 4294967296%N in H. unfold c14_ReadSector_cond_2, sx32, sx.
  change (2^(32-1))%N with 2147483648%N. change (2 ^ Z.of_N 32) with 4294967296. change (2^31)%N with 2147483648%N.
  destruct (N.ltb_spec len 2147483648); destruct (N.leb_spec 2147483648 len); lia.
Qed.
Lemma tie_too_long (len num : N) : (len < 2^31)%N -> (num < 256)%N ->
  c14_ReadSector_cond_3 (sx32 len) (Z.of_N num) = (4096 * num <? len)%N.
Proof.
  intros H Hn. change (2^31)%N with 2147483648%N in H. unfold c14_ReadSector_cond_3, sx32, sx.
  change (2^(32-1))%N with 2147483648%N.
  assert ((len <? 2147483648)%N = true) as -> by lia. rewrite ws32 by lia.
  destruct (N.ltb_spec (4096 * num) len); lia.
Qed.
Lemma tie_make_len (len : N) : (len < 2^31)%N -> c14_ReadSector_make_len (sx32 len) = Z.of_N len.
Proof.
  intros H. change (2^31)%N with 2147483648%N in H. unfold c14_ReadSector_make_len, sx32, sx.
  change (2^(32-1))%N with 2147483648%N. assert ((len <? 2147483648)%N = true) as -> by lia. reflexivity.
Qed.

(* ---------- ExistSector, PadToFullSector, Load ---------- *)
Lemma tie_exist (o : N) : (o < 2^32)%N -> c14_ExistSector_result (sx32 o) = negb (o =? 0)%N.
Proof.
  intros H. change (2^32)%N with 4294967296%N in H. unfold c14_ExistSector_result, sx32, sx.
  change (2^(32-1))%N with 2147483648%N. change (2 ^ Z.of_N 32) with 4294967296.
  destruct (N.ltb_spec o 2147483648); destruct (N.eqb_spec o 0); lia.
Qed.
Lemma tie_pad_cond (size : N) : c14_PadToFullSector_cond (Z.of_N size) = negb (size mod 4096 =? 0)%N.
Proof.
  unfold c14_PadToFullSector_cond. rewrite Z.rem_mod_nonneg by lia. change 4096 with (Z.of_N 4096).
  rewrite <- N2Z.inj_mod. change 0 with (Z.of_N 0). rewrite zn_eqb. reflexivity.
Qed.
Lemma tie_padding (size : N) : c14_PadToFullSector_padding (Z.of_N size) = Z.of_N (4096 - size mod 4096).
Proof.
  unfold c14_PadToFullSector_padding. rewrite Z.rem_mod_nonneg by lia.
  assert (0 <= Z.of_N size mod 4096 < 4096) by (apply Z.mod_pos_bound; lia).
  rewrite ws64 by lia. change 4096 with (Z.of_N 4096) at 2. rewrite <- N2Z.inj_mod.
  assert ((size mod 4096 < 4096)%N) by (apply N.mod_lt; discriminate). lia.
Qed.
Lemma tie_load_cond (sec : N) : c14_Load_cond (Z.of_N sec) = negb (sec =? 0)%N.
Proof. unfold c14_Load_cond. change 0 with (Z.of_N 0). rewrite zn_eqb. reflexivity. Qed.
Lemma tie_load_sector (o i : N) : (o + i < 2^31)%N -> c14_Load_sector_2 (Z.of_N o) (Z.of_N i) = Z.of_N (o + i).
Proof. exact (tie_sector o i). Qed.
